import GSProofs.Lemmas.RespLifeOutcomeSeen
/-!
Outcome accounting, part 3 (completed vs network error): where a request id `r` occurs in the state.

`Places r okP okI s`: every place of the state that mentions `r` is at a peer satisfying `okP`, and every
response identity (`inc`) attached to such a place satisfies `okI`.  With `okP = okI = False` it says that
nothing about `r` exists (before its registration); with `okP = (· = p0)`, `okI = (· = i0)` that all of it
belongs to one peer and one registered response.  New places only arise from old ones (same peer, same
identity) or from the registration of `r`.
-/
namespace GS.RespLife

def bents (b : Option Builder) : List Entry := (b.map (·.entries)).getD []

def stepId : PStep → Id
  | .emitBs id _ => id
  | .callClose id _ => id
  | .callTerminate id _ => id
  | .emitDone id _ => id
  | .emitNerr id => id

def stepInc : PStep → Option Nat
  | .callClose _ i => some i
  | .callTerminate _ i => some i
  | _ => none

def msgPlace (r : Id) (okP : Peer → Prop) (okI : Nat → Prop) (m : Msg) : Prop :=
  (∀ i p, m = .closeNetErr r i p → okP p ∧ okI i) ∧ (∀ i p, m = .terminate r i p → okP p ∧ okI i)

structure Places (r : Id) (okP : Peer → Prop) (okI : Nat → Prop) (s : State) : Prop where
  tbl : ∀ x : Resp, lookup s r = some x → okP x.peer ∧ okI x.inc
  wk : ∀ (w : Nat) (x : Worker), s.workers[w]? = some x → x.id = r →
    okP x.peer ∧ (x.phase ≠ .waitStart → x.phase ≠ .done → okI x.inc)
  qs : ∀ p, (r ∈ pendOf s p ∨ r ∈ actOf s p) → okP p
  bld : ∀ (p : Peer) (e : Entry), (e ∈ bents (getMQ s p).inflight ∨ e ∈ bents (getMQ s p).next) → e.id = r → okP p ∧ okI e.inc
  pub : ∀ (p : Peer) (st : PStep), st ∈ (getMQ s p).pubQ → stepId st = r → okP p ∧ ∀ i, stepInc st = some i → okI i
  mail : ∀ m ∈ s.mailbox, msgPlace r okP okI m
  park : ∀ pk : MgrPark, s.park = some pk →
    (pk.id = r → (∀ p cfg, pk.cont ≠ .newReq p r cfg) → okP pk.peer ∧ (lookup s r).isSome) ∧
    (∀ p cfg, pk.cont = .newReq p r cfg →
      pk.id = r ∧ pk.peer = p ∧ okP p ∧ okI s.nextInc ∧ lookup s r = none)

theorem Places.mono {r : Id} {okP okP' : Peer → Prop} {okI okI' : Nat → Prop} {s : State}
    (h : Places r okP okI s) (hP : ∀ p, okP p → okP' p) (hI : ∀ i, okI i → okI' i) : Places r okP' okI' s := by
  refine ⟨?_, ?_, ?_, ?_, ?_, ?_, ?_⟩
  · intro x hx; exact ⟨hP _ (h.tbl x hx).1, hI _ (h.tbl x hx).2⟩
  · intro w x hx hid; exact ⟨hP _ (h.wk w x hx hid).1, fun a b => hI _ ((h.wk w x hx hid).2 a b)⟩
  · intro p hp; exact hP _ (h.qs p hp)
  · intro p e he hid; exact ⟨hP _ (h.bld p e he hid).1, hI _ (h.bld p e he hid).2⟩
  · intro p st hst hid; exact ⟨hP _ (h.pub p st hst hid).1, fun i hi => hI _ ((h.pub p st hst hid).2 i hi)⟩
  · intro m hm
    obtain ⟨h1, h2⟩ := h.mail m hm
    exact ⟨fun i p e => ⟨hP _ (h1 i p e).1, hI _ (h1 i p e).2⟩, fun i p e => ⟨hP _ (h2 i p e).1, hI _ (h2 i p e).2⟩⟩
  · intro pk hpk
    refine ⟨fun hid hn => ?_, fun p cfg hc => ?_⟩
    · obtain ⟨h1, h2⟩ := (h.park pk hpk).1 hid hn
      exact ⟨hP _ h1, h2⟩
    · obtain ⟨a, b, c, d, e⟩ := (h.park pk hpk).2 p cfg hc
      exact ⟨a, b, hP _ c, hI _ d, e⟩

variable {r : Id} {okP : Peer → Prop} {okI : Nat → Prop}

/-- states that agree on everything `Places` looks at -/
theorem Places.of_same {s s' : State} (h : Places r okP okI s) (ht : s'.table = s.table)
    (hw : s'.workers = s.workers) (hq : s'.queues = s.queues) (hm : s'.mqs = s.mqs) (hb : s'.mailbox = s.mailbox)
    (hp : s'.park = s.park) (hn : s'.nextInc = s.nextInc := by rfl) : Places r okP okI s' := by
  have hl : ∀ id, lookup s' id = lookup s id := fun id => lookup_of_table ht id
  have hgq : ∀ p, getQ s' p = getQ s p := by intro p; unfold getQ; rw [hq]
  have hgm : ∀ p, getMQ s' p = getMQ s p := by intro p; unfold getMQ; rw [hm]
  refine ⟨?_, ?_, ?_, ?_, ?_, ?_, ?_⟩
  · intro x hx; rw [hl] at hx; exact h.tbl x hx
  · intro w x hx; rw [hw] at hx; exact h.wk w x hx
  · intro p hp'
    apply h.qs p
    simpa only [pendOf, actOf, hgq] using hp'
  · intro p e he; rw [hgm] at he; exact h.bld p e he
  · intro p st hst; rw [hgm] at hst; exact h.pub p st hst
  · intro m hm'; rw [hb] at hm'; exact h.mail m hm'
  · intro pk hpk; rw [hp] at hpk; rw [hl, hn]; exact h.park pk hpk

-- ------------------------------------------------------------------ message queues
theorem Places.onSetMQ {s : State} (h : Places r okP okI s) (q : PeerMQ)
    (hb : ∀ e, (e ∈ bents q.inflight ∨ e ∈ bents q.next) → e.id = r → okP q.peer ∧ okI e.inc)
    (hpub : ∀ st ∈ q.pubQ, stepId st = r → okP q.peer ∧ ∀ i, stepInc st = some i → okI i) :
    Places r okP okI (setMQ s q) := by
  refine ⟨h.tbl, h.wk, h.qs, ?_, ?_, h.mail, h.park⟩
  · intro p e he hid
    rw [getMQ_setMQ] at he
    split at he
    · rename_i hp; subst hp; exact hb e he hid
    · exact h.bld p e he hid
  · intro p st hst hid
    rw [getMQ_setMQ] at hst
    split at hst
    · rename_i hp; subst hp; exact hpub st hst hid
    · exact h.pub p st hst hid

/-- update of the record of peer `p` that keeps builders and publisher queue -/
theorem Places.updMQ_same {s : State} (h : Places r okP okI s) (p : Peer) (f : PeerMQ → PeerMQ)
    (hp : ∀ q, (f q).peer = q.peer) (hi : ∀ q, (f q).inflight = q.inflight) (hn : ∀ q, (f q).next = q.next)
    (hq : ∀ q, (f q).pubQ = q.pubQ) : Places r okP okI (setMQ s (f (getMQ s p))) := by
  apply h.onSetMQ
  · intro e he hid
    rw [hp, getMQ_peer, hi, hn] at *
    exact h.bld p e he hid
  · intro st hst hid
    rw [hp, getMQ_peer]
    rw [hq] at hst
    exact h.pub p st hst hid

-- ------------------------------------------------------------------ task queues
theorem Places.queues {s s' : State} (h : Places r okP okI s) (ht : s'.table = s.table)
    (hw : s'.workers = s.workers) (hm : s'.mqs = s.mqs) (hb : s'.mailbox = s.mailbox) (hp : s'.park = s.park)
    (hq : ∀ p, (r ∈ pendOf s' p ∨ r ∈ actOf s' p) → okP p) (hn : s'.nextInc = s.nextInc := by rfl) :
    Places r okP okI s' := by
  have hl : ∀ id, lookup s' id = lookup s id := fun id => lookup_of_table ht id
  have hgm : ∀ p, getMQ s' p = getMQ s p := by intro p; unfold getMQ; rw [hm]
  refine ⟨?_, ?_, hq, ?_, ?_, ?_, ?_⟩
  · intro x hx; rw [hl] at hx; exact h.tbl x hx
  · intro w x hx; rw [hw] at hx; exact h.wk w x hx
  · intro p e he; rw [hgm] at he; exact h.bld p e he
  · intro p st hst; rw [hgm] at hst; exact h.pub p st hst
  · intro m hm'; rw [hb] at hm'; exact h.mail m hm'
  · intro pk hpk; rw [hp] at hpk; rw [hl, hn]; exact h.park pk hpk

-- ------------------------------------------------------------------ workers
theorem Places.onSetWorker {s : State} (h : Places r okP okI s) (w : Nat) (f : Worker → Worker)
    (hf : ∀ x, (f x).id = x.id ∧ (f x).peer = x.peer)
    (hi : ∀ x, s.workers[w]? = some x → x.id = r → (f x).phase ≠ .waitStart → (f x).phase ≠ .done → okI (f x).inc) :
    Places r okP okI (setWorker s w f) := by
  refine ⟨h.tbl, ?_, h.qs, h.bld, h.pub, h.mail, h.park⟩
  intro i y hy hid
  unfold setWorker at hy
  simp only [List.getElem?_mapIdx] at hy
  cases hx : s.workers[i]? with
  | none => rw [hx] at hy; cases hy
  | some x =>
    rw [hx] at hy
    simp only [Option.map_some, Option.some.injEq] at hy
    by_cases hiw : (i == w) = true
    · have hiw' : i = w := by simpa using hiw
      subst hiw'
      simp only [beq_self_eq_true, if_true] at hy
      subst hy
      have hxid : x.id = r := by rw [← (hf x).1]; exact hid
      exact ⟨by rw [(hf x).2]; exact (h.wk i x hx hxid).1, hi x hx hxid⟩
    · simp only [hiw, Bool.false_eq_true, if_false] at hy
      subst hy
      exact h.wk i x hx hid

/-- a change of worker `w`'s phase (and flags) that does not start it -/
theorem Places.onSetWorker_phase {s : State} (h : Places r okP okI s) (w : Nat) (f : Worker → Worker)
    (hf : ∀ x, (f x).id = x.id ∧ (f x).peer = x.peer ∧ (f x).inc = x.inc)
    (ha : ∀ x, s.workers[w]? = some x → x.id = r → (f x).phase ≠ .waitStart → (f x).phase ≠ .done →
      x.phase ≠ .waitStart ∧ x.phase ≠ .done) : Places r okP okI (setWorker s w f) := by
  apply h.onSetWorker w f (fun x => ⟨(hf x).1, (hf x).2.1⟩)
  intro x hx hid h1 h2
  rw [(hf x).2.2]
  obtain ⟨a, b⟩ := ha x hx hid h1 h2
  exact (h.wk w x hx hid).2 a b

theorem Places.addWorker {s : State} (h : Places r okP okI s) (x : Worker) (hx : x.id = r → okP x.peer)
    (hph : x.phase = .waitStart) : Places r okP okI { s with workers := s.workers ++ [x] } := by
  refine ⟨h.tbl, ?_, h.qs, h.bld, h.pub, h.mail, h.park⟩
  intro i y hy hid
  show okP y.peer ∧ _
  have hy' : (s.workers ++ [x])[i]? = some y := hy
  by_cases hi : i < s.workers.length
  · rw [List.getElem?_append_left hi] at hy'
    exact h.wk i y hy' hid
  · rw [List.getElem?_append_right (by omega)] at hy'
    have : y = x := by
      cases hk : i - s.workers.length with
      | zero => rw [hk] at hy'; simpa using hy'.symm
      | succ k => rw [hk] at hy'; simp at hy'
    subst this
    exact ⟨hx hid, fun a => absurd hph a⟩

-- ------------------------------------------------------------------ mailbox
theorem Places.onSendMsg {s : State} (h : Places r okP okI s) (m : Msg) (hm : msgPlace r okP okI m) :
    Places r okP okI (sendMsg s m) := by
  refine ⟨h.tbl, h.wk, h.qs, h.bld, h.pub, ?_, h.park⟩
  intro m' hm'
  rcases List.mem_append.1 hm' with h1 | h1
  · exact h.mail m' h1
  · simp only [List.mem_singleton] at h1; subst h1; exact hm

theorem msgPlace_other (r : Id) (okP : Peer → Prop) (okI : Nat → Prop) (m : Msg) (h : pubMsg m = false) :
    msgPlace r okP okI m := by
  constructor <;> intro i p e <;> subst e <;> simp [pubMsg] at h

theorem Places.popMsg {s : State} (h : Places r okP okI s) (m : Msg) (rest : List Msg) (hm : s.mailbox = m :: rest)
    (n : Nat) : Places r okP okI { s with mailbox := rest, handled := n } := by
  refine ⟨h.tbl, h.wk, h.qs, h.bld, h.pub, ?_, h.park⟩
  intro m' hm'
  exact h.mail m' (by rw [hm]; exact List.mem_cons_of_mem _ hm')

-- ------------------------------------------------------------------ table
/-- a table update that keeps ids, peers and identities (`modAux`, `setState`) -/
theorem Places.mapTable {s s' : State} (h : Places r okP okI s)
    (hl : ∀ x', lookup s' r = some x' → ∃ x, lookup s r = some x ∧ x'.peer = x.peer ∧ x'.inc = x.inc)
    (hs : (lookup s r).isSome → (lookup s' r).isSome) (hs' : lookup s r = none → lookup s' r = none)
    (hn : s'.nextInc = s.nextInc)
    (hw : s'.workers = s.workers) (hq : s'.queues = s.queues) (hm : s'.mqs = s.mqs) (hb : s'.mailbox = s.mailbox)
    (hp : s'.park = s.park) : Places r okP okI s' := by
  have hgq : ∀ p, getQ s' p = getQ s p := by intro p; unfold getQ; rw [hq]
  have hgm : ∀ p, getMQ s' p = getMQ s p := by intro p; unfold getMQ; rw [hm]
  refine ⟨?_, ?_, ?_, ?_, ?_, ?_, ?_⟩
  · intro x' hx'
    obtain ⟨x, hx, e1, e2⟩ := hl x' hx'
    rw [e1, e2]; exact h.tbl x hx
  · intro w x hx; rw [hw] at hx; exact h.wk w x hx
  · intro p hp'
    apply h.qs p
    simpa only [pendOf, actOf, hgq] using hp'
  · intro p e he; rw [hgm] at he; exact h.bld p e he
  · intro p st hst; rw [hgm] at hst; exact h.pub p st hst
  · intro m hm'; rw [hb] at hm'; exact h.mail m hm'
  · intro pk hpk
    rw [hp] at hpk
    refine ⟨fun hid hnn => ?_, fun p cfg hc => ?_⟩
    · obtain ⟨h1, h2⟩ := (h.park pk hpk).1 hid hnn
      exact ⟨h1, hs h2⟩
    · obtain ⟨a, b, c, d, e⟩ := (h.park pk hpk).2 p cfg hc
      exact ⟨a, b, c, by rw [hn]; exact d, hs' e⟩

theorem Places.onModAux {s : State} (h : Places r okP okI s) (id : Id) (f : Aux → Aux) :
    Places r okP okI (modAux s id f) := by
  apply h.mapTable (s' := modAux s id f) _ _ _ rfl rfl rfl rfl rfl rfl
  · intro x' hx'
    rw [lookup_modAux] at hx'
    cases hl : lookup s r with
    | none => rw [hl] at hx'; cases hx'
    | some x =>
      rw [hl] at hx'
      simp only [Option.map_some, Option.some.injEq] at hx'
      refine ⟨x, rfl, ?_, ?_⟩ <;> (rw [← hx']; split <;> rfl)
  · intro hs
    rw [lookup_modAux]
    cases hl : lookup s r with
    | none => rw [hl] at hs; cases hs
    | some x => rfl
  · intro hs
    rw [lookup_modAux, hs]; rfl

theorem Places.onSetState {s : State} (h : Places r okP okI s) (id : Id) (st : RState) :
    Places r okP okI (setState s id st) := by
  apply h.mapTable (s' := setState s id st) _ _ _ rfl rfl rfl rfl rfl rfl
  · intro x' hx'
    rw [lookup_setState] at hx'
    cases hl : lookup s r with
    | none => rw [hl] at hx'; cases hx'
    | some x =>
      rw [hl] at hx'
      simp only [Option.map_some, Option.some.injEq] at hx'
      refine ⟨x, rfl, ?_, ?_⟩ <;> (rw [← hx']; split <;> rfl)
  · intro hs
    rw [lookup_setState]
    cases hl : lookup s r with
    | none => rw [hl] at hs; cases hs
    | some x => rfl
  · intro hs
    rw [lookup_setState, hs]; rfl

theorem Places.onDelResp {s : State} (h : Places r okP okI s) (id : Id) (hp : s.park = none) :
    Places r okP okI (delResp s id) := by
  refine ⟨?_, h.wk, h.qs, h.bld, h.pub, h.mail, ?_⟩
  · intro x hx
    rw [lookup_delResp] at hx
    split at hx
    · cases hx
    · exact h.tbl x hx
  · intro pk hpk
    have : (delResp s id).park = none := hp
    rw [this] at hpk; cases hpk

theorem Places.onInsertResp {s : State} (h : Places r okP okI s) (x : Resp) (hp : s.park = none)
    (hx : x.id = r → okP x.peer ∧ okI s.nextInc) : Places r okP okI (insertResp s x) := by
  refine ⟨?_, h.wk, h.qs, h.bld, h.pub, h.mail, ?_⟩
  · intro y hy
    rw [lookup_insertResp] at hy
    split at hy
    · rename_i hid
      simp only [Option.some.injEq] at hy
      subst hy
      exact hx hid.symm
    · exact h.tbl y hy
  · intro pk hpk
    have : (insertResp s x).park = none := hp
    rw [this] at hpk; cases hpk

-- ------------------------------------------------------------------ park
theorem Places.onParkMgr {s : State} (h : Places r okP okI s) (cont : MgrCont) (p : Peer) (id : Id) (ops : List TxOp)
    (hc : id = r → (∀ p' cfg, cont ≠ .newReq p' r cfg) → okP p ∧ (lookup s r).isSome)
    (hn : ∀ p' cfg, cont = .newReq p' r cfg → id = r ∧ p = p' ∧ okP p' ∧ okI s.nextInc ∧ lookup s r = none) :
    Places r okP okI (parkMgr s cont p id ops) := by
  refine ⟨h.tbl, h.wk, h.qs, h.bld, h.pub, h.mail, ?_⟩
  intro pk hpk
  have : (parkMgr s cont p id ops).park = some ⟨cont, p, id, ops, false⟩ := rfl
  rw [this] at hpk
  simp only [Option.some.injEq] at hpk
  subst hpk
  exact ⟨hc, hn⟩

theorem Places.unpark {s : State} (h : Places r okP okI s) : Places r okP okI { s with park := none } := by
  refine ⟨h.tbl, h.wk, h.qs, h.bld, h.pub, h.mail, ?_⟩
  intro pk hpk
  cases hpk

end GS.RespLife
