import GSProofs.Lemmas.RespLifeReach
/-!
The "lifecycle" projection `li` of the responder model (request states, task-queue topics, worker
kinds, StartTask / FinishTask messages in the mailbox, a parked `unpauseRequest`) and its frame lemmas:
everything that is not a manager handler, `pop`, `reap` or a worker segment leaves it unchanged.
Used by C23.agree.
-/
namespace GS.RespLife

inductive WKind | waitStart | mid | fin | waitFinish | done
deriving DecidableEq, Repr

/-- worker phase up to what matters for the task accounting -/
def wkind : WPhase → WKind
  | .waitStart => .waitStart
  | .started | .atLoader | .waitUpdates _ _ | .gotUpdates _ _ _ | .inHook _ _ => .mid
  | .blockedTx _ (.afterBlock _ _) _ => .mid
  | .blockedTx _ (.afterFinal _) _ => .fin
  | .preFinish _ => .fin
  | .waitFinish => .waitFinish
  | .done => .done

def tcore (s : State) : List (Id × Peer × RState × Option Nat) :=
  s.table.map fun r => (r.id, r.peer, r.state, r.aux.task)

def qcore (s : State) : List (Peer × List Id × List Id) :=
  s.queues.map fun q => (q.peer, q.pending.map (·.1), q.active)

def wcore (s : State) : List (Peer × Id × WKind) :=
  s.workers.map fun w => (w.peer, w.id, wkind w.phase)

def starts (mb : List Msg) : List Nat :=
  mb.filterMap fun
    | .startTask w => some w
    | _ => none

def fins (mb : List Msg) : List Nat :=
  mb.filterMap fun
    | .finishTask w _ => some w
    | _ => none

/-- the id of a parked `unpauseRequest` (state already Queued, task not yet pushed) -/
def parkUnp (pk : Option MgrPark) : Option Id :=
  match pk with
  | some k => (match k.cont with
    | .unpause id _ => some id
    | _ => none)
  | none => none

structure Li where
  tbl : List (Id × Peer × RState × Option Nat)
  qs : List (Peer × List Id × List Id)
  wk : List (Peer × Id × WKind)
  starts : List Nat
  fins : List Nat
  punp : Option Id
deriving DecidableEq

def li (s : State) : Li :=
  ⟨tcore s, qcore s, wcore s, starts s.mailbox, fins s.mailbox, parkUnp s.park⟩

theorem li_eq {s s' : State} (h1 : tcore s' = tcore s) (h2 : qcore s' = qcore s) (h3 : wcore s' = wcore s)
    (h4 : starts s'.mailbox = starts s.mailbox) (h5 : fins s'.mailbox = fins s.mailbox)
    (h6 : parkUnp s'.park = parkUnp s.park) : li s' = li s := by
  simp [li, h1, h2, h3, h4, h5, h6]

-- ------------------------------------------------------------------ primitives
theorem tcore_modAux (s : State) (id : Id) (f : Aux → Aux) (h : ∀ a, (f a).task = a.task) :
    tcore (modAux s id f) = tcore s := by
  simp only [tcore, modAux, List.map_map]
  apply List.map_congr_left
  intro r _
  simp only [Function.comp]
  split
  · simp [h]
  · rfl

theorem li_modAux (s : State) (id : Id) (f : Aux → Aux) (h : ∀ a, (f a).task = a.task) :
    li (modAux s id f) = li s :=
  li_eq (tcore_modAux s id f h) rfl rfl rfl rfl rfl

@[simp] theorem li_emit (s : State) (e : Event) : li (emit s e) = li s := rfl
@[simp] theorem li_setMQ (s : State) (q : PeerMQ) : li (setMQ s q) = li s := rfl
@[simp] theorem li_addAlloc (s : State) (p : Peer) (n : Nat) : li (addAlloc s p n) = li s := rfl
@[simp] theorem li_closeStreams (s : State) (ids : List Id) : li (closeStreams s ids) = li s := rfl
@[simp] theorem li_openStream (s : State) (id : Id) : li (openStream s id) = li s := rfl
@[simp] theorem li_protect (s : State) (p : Peer) (id : Id) : li (protect s p id) = li s := rfl

theorem wcore_setWorker (s : State) (w : Nat) (f : Worker → Worker)
    (h : ∀ x, ((f x).peer, (f x).id, wkind (f x).phase) = (x.peer, x.id, wkind x.phase)) :
    wcore (setWorker s w f) = wcore s := by
  apply List.ext_getElem?
  intro i
  simp only [wcore, setWorker, List.getElem?_map, List.getElem?_mapIdx]
  cases s.workers[i]? with
  | none => rfl
  | some x =>
    simp only [Option.map_some]
    split
    · rw [h]
    · rfl

theorem li_setWorker (s : State) (w : Nat) (f : Worker → Worker)
    (h : ∀ x, ((f x).peer, (f x).id, wkind (f x).phase) = (x.peer, x.id, wkind x.phase)) :
    li (setWorker s w f) = li s :=
  li_eq rfl rfl (wcore_setWorker s w f h) rfl rfl rfl

@[simp] theorem parkUnp_grant (pk : Option MgrPark) :
    parkUnp (pk.map fun k => { k with granted := true }) = parkUnp pk := by
  cases pk <;> rfl

@[simp] theorem li_grantTo (s : State) (party : Party) : li (grantTo s party) = li s := by
  cases party with
  | mgr => exact li_eq rfl rfl rfl rfl rfl (parkUnp_grant s.park)
  | worker w =>
    apply li_setWorker
    intro x
    cases hp : x.phase with
    | blockedTx ops k g => cases k <;> simp [wkind, hp]
    | _ => simp [hp]

@[simp] theorem li_grantLoop (fuel : Nat) (s : State) (p : Peer) : li (grantLoop fuel s p) = li s := by
  induction fuel generalizing s with
  | zero => rfl
  | succ n ih =>
    unfold grantLoop
    split
    · rfl
    · split
      · rw [ih]; simp; rfl
      · rfl

@[simp] theorem li_release (s : State) (p : Peer) (n : Nat) : li (release s p n) = li s := by
  unfold release; simp

@[simp] theorem li_tryAlloc (s : State) (party : Party) (p : Peer) (n : Nat) :
    li (tryAlloc s party p n).1 = li s := by
  unfold tryAlloc; split
  · simp
  · rfl

@[simp] theorem li_buildNow (s : State) (p : Peer) (id : Id) (ops : List TxOp) :
    li (buildNow s p id ops) = li s := by
  unfold buildNow; simp only; split
  · split
    · simp
    · rfl
  · rfl

@[simp] theorem li_execTx (s : State) (party : Party) (p : Peer) (id : Id) (ops : List TxOp) :
    li (execTx s party p id ops).1 = li s := by
  unfold execTx; split
  · rfl
  · simp only; split
    · simp
    · cases h : tryAlloc s party p (txSize s.extLen ops) with
      | mk s1 ok =>
        have h1 : li s1 = li s := by
          have := li_tryAlloc s party p (txSize s.extLen ops)
          rw [h] at this; exact this
        simp only
        split
        · simp [h1]
        · exact h1

theorem li_execTx_eq {s s1 : State} {party : Party} {p : Peer} {id : Id} {ops : List TxOp} {ok : Bool}
    (h : execTx s party p id ops = (s1, ok)) : li s1 = li s := by
  have := li_execTx s party p id ops
  rw [h] at this; exact this

-- ------------------------------------------------------------------ message queue, publisher, environment
theorem starts_append (mb : List Msg) (m : Msg) (h : ∀ w, m ≠ .startTask w) : starts (mb ++ [m]) = starts mb := by
  unfold starts
  rw [List.filterMap_append]
  cases m with
  | startTask w => exact absurd rfl (h w)
  | _ => simp

theorem fins_append (mb : List Msg) (m : Msg) (h : ∀ w e, m ≠ .finishTask w e) : fins (mb ++ [m]) = fins mb := by
  unfold fins
  rw [List.filterMap_append]
  cases m with
  | finishTask w e => exact absurd rfl (h w e)
  | _ => simp

theorem li_sendMsg (s : State) (m : Msg) (h1 : ∀ w, m ≠ .startTask w) (h2 : ∀ w e, m ≠ .finishTask w e) :
    li (sendMsg s m) = li s :=
  li_eq (s := s) (s' := sendMsg s m) rfl rfl rfl (starts_append _ _ h1) (fins_append _ _ h2) rfl

theorem li_netResolve {s s' : State} {p : Peer} {ok : Bool} (h : netResolve s p ok = some s') : li s' = li s := by
  unfold netResolve at h
  simp only at h
  split at h
  · cases h
  · split at h
    · cases h; simp
    · cases h
      rw [li_release]
      split
      · rw [li_release, li_setMQ]; rfl
      · rw [li_setMQ]; rfl

theorem li_extract {s s' : State} {p : Peer} (h : extract s p = some s') : li s' = li s := by
  unfold extract at h
  simp only at h
  split at h
  · split at h
    · cases h
    · cases h; simp
  · cases h

@[simp] theorem li_primer (s : State) (p : Peer) : li (primer s p) = li s := by
  unfold primer; simp

theorem li_pubStep {s s' : State} {p : Peer} (h : pubStep s p = some s') : li s' = li s := by
  unfold pubStep at h
  simp only at h
  split at h
  · cases h
  · split at h
    · cases h
    · split at h
      · cases h; rfl
      · cases h; simp
      · cases h; simp
      · cases h; rw [li_sendMsg _ _ (by intros; simp) (by intros; simp)]; simp
      · cases h; rw [li_sendMsg _ _ (by intros; simp) (by intros; simp)]; simp

@[simp] theorem li_thawAll (s : State) : li (thawAll s) = li s := by
  refine li_eq rfl ?_ rfl rfl rfl rfl
  simp [qcore, thawAll, List.map_map, Function.comp_def]

theorem li_recv (s : State) (p : Peer) (r : ReqMsg) (seen : List Id) :
    li (sendMsg { s with seenIds := seen } (.processRequests p r)) = li s := by
  rw [li_sendMsg _ _ (by intros; simp) (by intros; simp)]; rfl

end GS.RespLife
