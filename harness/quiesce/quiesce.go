// Package quiesce: timer-free detection of "the system under test has nothing left to do".
//
// Wait spins (runtime.Gosched) until every goroutine other than the caller is parked in a waiting
// state (channel receive, select, cond wait, semaphore, sleep, idle runtime workers) in two
// consecutive goroutine dumps.  Goroutines that are runnable, running, in a syscall, blocked on a
// mutex or on a channel send count as "still working".  With GOMAXPROCS(1) the outcome is a
// function of the program state, not of timing.
package quiesce

import (
	"runtime"
	"strings"
	"time"
)

// OnStuck, if set, is called with a goroutine dump when Wait has been spinning for StuckAfter
// without reaching quiescence (a goroutine of the system under test is busy or blocked on a
// mutex / channel send for good).  Safety net only: no verdict depends on timing.
var (
	OnStuck    func(dump string)
	StuckAfter = 30 * time.Second
)

var busyPrefixes = []string{"running", "runnable", "syscall", "sync.Mutex.Lock", "sync.RWMutex", "chan send", "copystack", "preempted"}

func allParked() bool {
	buf := make([]byte, 1<<18)
	for {
		n := runtime.Stack(buf, true)
		if n < len(buf) {
			buf = buf[:n]
			break
		}
		buf = make([]byte, 2*len(buf))
	}
	first := true
	for _, g := range strings.Split(string(buf), "\n\n") {
		if !strings.HasPrefix(g, "goroutine ") {
			continue
		}
		if first { // the caller
			first = false
			continue
		}
		hdr := g
		if i := strings.IndexByte(g, '\n'); i >= 0 {
			hdr = g[:i]
		}
		a, b := strings.IndexByte(hdr, '['), strings.LastIndexByte(hdr, ']')
		if a < 0 || b < a {
			return false
		}
		st := hdr[a+1 : b]
		for _, p := range busyPrefixes {
			if strings.HasPrefix(st, p) {
				return false
			}
		}
	}
	return true
}

// Wait returns once the rest of the program is quiescent.  extra, if non-nil, must also report
// true (e.g. "my input channel is empty").
func Wait(extra func() bool) {
	ok := 0
	start := time.Now()
	for spin := 0; ; spin++ {
		runtime.Gosched()
		if spin%8 != 7 {
			continue
		}
		if OnStuck != nil && spin%4096 == 4095 && time.Since(start) > StuckAfter {
			buf := make([]byte, 1<<20)
			n := runtime.Stack(buf, true)
			OnStuck(string(buf[:n]))
			start = time.Now()
		}
		if allParked() && (extra == nil || extra()) {
			ok++
			if ok >= 2 {
				return
			}
		} else {
			ok = 0
		}
	}
}
