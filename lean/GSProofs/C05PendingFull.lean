import GSProofs.C05Pending
import GSProofs.Lemmas.RespLifePendingK
/-!
# C05 — no pending task-queue topic after the outcome, WITHOUT the `TermStep` hypothesis

`C05Pending.lean` proves "every pending topic has a response" along runs in which a handled Terminate message never
meets a response whose task is pending (`TermStep`).  Here the statement needed for C05 is closed for plain
`ReachableDrained` runs by an accounting argument instead of the coupling invariant: for a fixed id `k`

    `Q k s  :=  (every pending topic of k has a response)  ∨  Pot k s + 1 ≤ regs k s`.

The only step that can break the left clause is a Terminate message of `k` meeting the Queued response of `k` (task
pending).  That step removes a Queued response, i.e. one unit of the outcome potential `Pot` (`chg_terminate`), so
afterwards `Pot k + 1 ≤ regs k`; and this is absorbing, because no step raises `Pot k` by more than the registrations
it logs (`chgR_step`).  A state with a logged outcome of an id registered at most once has `Pot k ≥ 1`, `regs k ≤ 1`,
so the right clause is impossible there — the left one holds.

So: `no_pending_topic_after_outcome`, `outcome_holds_no_state_full` hold for ALL `ReachableDrained` states.
Still open (not needed for C05): the all-ids invariant `no_orphan_pending_topic` without `TermStep`, i.e. the coupling
"Terminate (id, inc) ⇒ response (id, inc) Running / CompletingSend"; a targeted random search (3000 × 100 steps, id
re-use allowed, parkFinish / block-hook error / update-hook error / pause configurations, limits 0 and 100) found no
violation of it.
-/
namespace GS.C05
open GS.RespLife

def Q (k : Id) (s : State) : Prop := NOK k s ∨ Pot k s + 1 ≤ regs k s

theorem pot_pop_terminate {k : Id} {s : State} {id : Id} {inc : Nat} {pub : Peer} {rest : List Msg}
    (hm : s.mailbox = .terminate id inc pub :: rest) :
    Pot k { s with mailbox := rest, handled := s.handled + 1 } = Pot k s := by
  have e1 : Pot k { s with mailbox := rest, handled := s.handled + 1 } =
      evW k s.events + entW k s + parkW k s.park + wkSum k s.workers + mbSum k s.workers rest + mqSum k s.mqs := rfl
  have e2 : Pot k s =
      evW k s.events + entW k s + parkW k s.park + wkSum k s.workers + mbSum k s.workers s.mailbox + mqSum k s.mqs := rfl
  have e3 : mbSum k s.workers s.mailbox = mbSum k s.workers rest := by
    rw [hm]; simp [mbSum, msgW]
  rw [e1, e2, e3]

theorem q_step {c : Cfg} {k : Id} {s s' : State} {a : Action} (hr : ReachableDrained c s) (hs : step s a = some s')
    (hq : Q k s) : Q k s' := by
  have hi := (linv_reachable hr).1
  have hmq := (outcome_inv hr).1
  have hchg := (chgR_step k (noRunStart_of_linv hi) hi.startsIff hs hmq).1
  rcases hq with hq | hq
  · by_cases hb : ∃ inc pub rest p, s.park = none ∧ s.mailbox = .terminate k inc pub :: rest ∧
        isInc s k inc = true ∧ k ∈ pendOf s p
    · obtain ⟨inc, pub, rest, p, hpk, hm, hinc, hp⟩ := hb
      -- the step is the manager handling this Terminate message
      have hpot := (outcome_inv hr).2 k
      cases hl : lookup s k with
      | none =>
        have := hq p hp
        unfold entOf at this
        rw [hl] at this; cases this
      | some x =>
        have hent := entOf_lookup hl
        have hpeer : x.peer = p := hi.ownP p k hp _ hent
        have hok := hi.entry k x.peer x.state x.aux.task hent
        have hst : x.state = .queued := by
          rw [hpeer] at hok
          cases hx : x.state with
          | queued => rfl
          | running => rw [hx] at hok; exact absurd hp hok.1
          | paused => rw [hx] at hok; exact absurd hp hok.1
          | completing => rw [hx] at hok; exact absurd hp hok.1
        have hst1 : stOf k { s with mailbox := rest, handled := s.handled + 1 } = 1 := by
          have : lookup { s with mailbox := rest, handled := s.handled + 1 } k = some x := hl
          rw [stOf_lookup this, hst]; rfl
        cases a with
        | mgr =>
          right
          have hs' : mgrStep s = some s' := hs
          unfold mgrStep at hs'
          split at hs'
          · rename_i pk hpk2; rw [hpk] at hpk2; cases hpk2
          split at hs'
          · rename_i hm2; rw [hm] at hm2; cases hm2
          rename_i m rest' hm2
          rw [hm] at hm2
          injection hm2 with hm3 hm4
          subst hm3 hm4
          simp only [Option.some.injEq] at hs'
          subst hs'
          rw [handle_terminate]
          have hinc' : isInc { s with mailbox := rest, handled := s.handled + 1 } k inc = true := hinc
          rw [if_pos hinc']
          have hc := (chg_terminate k { s with mailbox := rest, handled := s.handled + 1 } k
            (pe_none (s := { s with mailbox := rest, handled := s.handled + 1 }) hpk)).trans
            (chg_clearPubWait k _ pub)
          obtain ⟨h1, h2, _⟩ := hc hmq
          rw [if_pos (by simp), hst1] at h1
          rw [pot_pop_terminate hm] at h1
          have h2' : regs k (clearPubWait (terminate { s with mailbox := rest, handled := s.handled + 1 } k) pub) =
              regs k s := h2
          omega
        | _ =>
          -- any other action: the left clause survives (TermStepK is trivial for it)
          left
          refine nok_step hq hi ?_ hs
          trivial
    · left
      refine nok_step hq hi ?_ hs
      cases a with
      | mgr =>
        intro hpk inc pub rest hm hinc p hp
        exact hb ⟨inc, pub, rest, p, hpk, hm, hinc, hp⟩
      | _ => trivial
  · right; omega

theorem q_reachable {c : Cfg} {s : State} (h : ReachableDrained c s) (k : Id) : Q k s := by
  induction h with
  | init => left; intro p hp; simp [pendOf, getQ, init] at hp
  | step hr _ hs ih => exact q_step hr hs ih

/-- **C05.no_pending_topic_after_outcome**: after a completed / cancelled outcome of an id registered at most once
    (drained ids, all schedules), no peer's task queue holds a pending topic of it. -/
theorem no_pending_topic_after_outcome {c : Cfg} {s : State} (h : ReachableDrained c s) (r : Id)
    (hreg : registrations s r ≤ 1) (hout : 1 ≤ completedCount s r + cancelledCount s r) :
    ∀ p, r ∉ pendOf s p := by
  intro p hp
  have hpot : completedCount s r + cancelledCount s r ≤ Pot r s := by
    unfold Pot; rw [evW_split]; unfold completedCount cancelledCount; omega
  rw [← regs_eq] at hreg
  rcases q_reachable h r with hq | hq
  · have h1 := hq p hp
    unfold entOf at h1
    rw [outcome_after_retired h r (by rw [← regs_eq]; exact hreg) hout] at h1
    cases h1
  · omega

/-- **C05.outcome_holds_no_state_full**: `outcome_holds_no_state` plus "no pending topic", for every
    `ReachableDrained` state — hypotheses: registered at most once, outcome logged, task workers returned. -/
theorem outcome_holds_no_state_full {c : Cfg} {s : State} (h : ReachableDrained c s) (r : Id)
    (hreg : registrations s r ≤ 1) (hout : 1 ≤ completedCount s r + cancelledCount s r)
    (hw : ∀ w ∈ s.workers, w.id = r → w.phase = .done) :
    (∀ q, r ∉ pendOf s q) ∧
    lookup s r = none ∧ (∀ p, parkNew s.park ≠ some (p, r)) ∧ (∀ p, (p, r) ∉ s.prot) ∧ (∀ x ∈ s.table, x.id ≠ r) ∧
      (∀ q, r ∉ (getQ s q).active) ∧
      (∀ q ∈ s.mqs, tokB r q.inflight = 0 ∧ tokB r q.next = 0 ∧ tokQ r q.pubQ = 0) ∧
      parkW r s.park = 0 ∧ wkSum r s.workers = 0 ∧ mbSum r s.workers s.mailbox = 0 :=
  ⟨no_pending_topic_after_outcome h r hreg hout, outcome_holds_no_state h r hreg hout hw⟩

/-- non-vacuity (a test): completed and cancelled end states -/
example : ∃ s, ReachableDrained {} s ∧ registrations s 0 ≤ 1 ∧ completedCount s 0 = 1 ∧
    (∀ w ∈ s.workers, w.id = 0 → w.phase = .done) :=
  ⟨run (init {}) doneScript, reachableDrained_run ReachableDrained.init _ (by decide), by decide, by decide, by decide⟩

end GS.C05
