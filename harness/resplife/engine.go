// Package resplife drives the REAL responder stack of go-graphsync
//
//	responsemanager.New + queryexecutor.New + responseassembler.New + peermanager.NewMessageManager
//	+ messagequeue.New + allocator.NewAllocator + taskqueue.NewTaskQueue + the real hook / listener
//	registries
//
// under a schedule script (components "resplife" = C05, "peerstate" = C23, "stall" = C25).
//
// Schedule control points (all of them are interfaces / exported constructors of the real code):
//
//   - workers: the task queue is created but NOT started; the script op `pop` calls the real
//     PeerTaskQueue.PopTasks(1) and runs the real QueryExecutor.ExecuteTask on a fresh goroutine.
//     That goroutine parks in the harness' StorageReadOpener (one park per block load) and, when a
//     block-hook plan says so, in the harness' outgoing-block hook; `step <w>` releases it and waits
//     until it parks again / finishes / blocks in the allocator.
//   - network: messagequeue.MessageNetwork is a fake whose SendMsg parks until `net <p> ok|fail`.
//     To make message boundaries a function of the script (and not of goroutine timing) the harness
//     keeps every peer's queue goroutine parked in SendMsg at every barrier: whenever a queue would
//     go idle a "primer" message (an outgoing *request*, as the requestor side of the same node
//     would queue) is pushed through the real queue.  So: everything transacted between two `net`
//     ops of a peer travels in one message.
//   - manager: all calls go through the real mailbox; PeerState (a mailbox round trip) is the barrier.
//   - publisher goroutine of a message queue: NewStream is wrapped so that every subscriber handed
//     to the real response assembler reports OnClose to the harness; a message with n subscribers
//     has been fully notified after n OnClose calls.
//
// No sleeps; every wait is a channel receive guarded by a watchdog.
package resplife

import (
	"bytes"
	"context"
	"errors"
	"fmt"
	"io"
	"runtime"
	"sort"
	"strings"
	"sync"
	"sync/atomic"
	"time"

	"github.com/ipfs/go-cid"
	logging "github.com/ipfs/go-log/v2"
	"github.com/ipfs/go-peertaskqueue"
	"github.com/ipfs/go-peertaskqueue/peertask"
	"github.com/ipfs/go-peertaskqueue/peertracker"
	"github.com/ipld/go-ipld-prime/codec/dagcbor"
	"github.com/ipld/go-ipld-prime/datamodel"
	"github.com/ipld/go-ipld-prime/fluent/qp"
	"github.com/ipld/go-ipld-prime/linking"
	cidlink "github.com/ipld/go-ipld-prime/linking/cid"
	"github.com/ipld/go-ipld-prime/node/basicnode"
	"github.com/ipld/go-ipld-prime/traversal/selector"
	"github.com/ipld/go-ipld-prime/traversal/selector/builder"
	"github.com/libp2p/go-libp2p/core/peer"
	mh "github.com/multiformats/go-multihash"

	"github.com/ipfs/go-graphsync"
	"github.com/ipfs/go-graphsync/allocator"
	"github.com/ipfs/go-graphsync/listeners"
	gsmsg "github.com/ipfs/go-graphsync/message"
	"github.com/ipfs/go-graphsync/messagequeue"
	gsnet "github.com/ipfs/go-graphsync/network"
	"github.com/ipfs/go-graphsync/notifications"
	"github.com/ipfs/go-graphsync/peermanager"
	"github.com/ipfs/go-graphsync/persistenceoptions"
	"github.com/ipfs/go-graphsync/responsemanager"
	"github.com/ipfs/go-graphsync/responsemanager/hooks"
	"github.com/ipfs/go-graphsync/responsemanager/queryexecutor"
	"github.com/ipfs/go-graphsync/responsemanager/responseassembler"
	"github.com/ipfs/go-graphsync/taskqueue"
)

const (
	extName     = graphsync.ExtensionName("verif/x")
	updPlanName = graphsync.ExtensionName("verif/u")
	extPayload  = 16 // bytes of extension payload (dag-cbor length 17)
)

var watchdog = 10 * time.Second

func init() {
	// the real code logs expected failures (missing blocks, send errors) at error level
	logging.SetAllLoggers(logging.LevelFatal)
}

var errHang = errors.New("watchdog expired")

// request configuration (from the `new` op)
type reqCfg struct {
	k          int    // logical request number (unique per `new` op)
	id         int    // request-id index (== k unless the script re-uses a live id)
	peer       int    // sending peer
	pri        int    // priority
	hook       byte   // a A r R e E p P   (capital = with extension data)
	n          int    // chain length
	miss       int    // index of the block missing from the store, -1 none
	bh         string // block hook plan, one letter per block: o x p e k
	parkFinish bool   // plan contained 'F': park the executor before FinishTask
	blkLen     int    // payload bytes per block
	root       cid.Cid
	cids       []cid.Cid
	data       [][]byte
	hooked     int // number of block hook calls so far (for the plan)
}

type event struct {
	kind   string // done canc nerr proc bs
	k      int    // request-id index
	status graphsync.ResponseStatusCode
}

type wire struct {
	p   int
	msg gsmsg.GraphSyncMessage
}

// progress notifications from goroutines running real code to the script interpreter
type note struct {
	kind string  // loader hook done blocked sendmsg onclose api
	wk   *worker // the worker the note is about (loader hook done; blocked: nil = manager)
	gid  int64
	p    int
	k    int // request (loader/hook)
	idx  int
	w    *wire
	ba   *blockedAlloc
	res  string
}

// an allocation the real allocator did not grant at once: `in` is the allocator's channel, `out` the
// channel handed to the real caller; the script interpreter forwards the grant at its next barrier
type blockedAlloc struct {
	p     int
	party *worker // nil = the response manager goroutine
	in    <-chan error
	out   chan error
}

// bytes of payload per block (the encoded block lengths are announced in the cfg line)
const blockPayload = 40

type worker struct {
	id      int
	peer    int
	idIdx   int
	gid     int64  // goroutine running ExecuteTask
	holdStart bool // park before StartTask (op `popq`)
	state   string // P popped, StartTask not yet sent; R running, L parked in the loader, H parked in a block hook, B waiting for memory, M waiting for the (parked) manager, D done
	release chan bool
}

// goroutine id of the caller (only used to tell which worker an allocation belongs to)
func curGID() int64 {
	var buf [64]byte
	n := runtime.Stack(buf[:], false)
	var id int64
	fmt.Sscanf(string(buf[:n]), "goroutine %d ", &id)
	return id
}

// workerFor: the live worker serving request-id index id
func (e *engine) workerFor(id int) *worker {
	for _, w := range e.workers {
		if w.idIdx == id && w.state != "D" {
			return w
		}
	}
	return nil
}

type engine struct {
	ctx    context.Context
	cancel context.CancelFunc
	npeers int
	peers  []peer.ID
	limit  uint64
	// size of the emulated task-worker pool (taskqueue.Startup(n, ...)): `pop` is refused while n
	// executors are alive; 0 = unbounded
	nWorkers int
	// free-running mode (component `pool`): the REAL worker pool (taskqueue.Startup) pops and executes,
	// nothing parks in the harness; peers listed in stalledPeers never complete a send, all others
	// complete at once
	free           bool
	stalledPeers   map[int]bool
	evCh           chan struct{}
	gateMu         sync.Mutex
	gateMode       map[int]string
	gateCh         map[int]chan struct{}
	sendBlocked    map[int]int
	allocWaiting   int32       // free mode: reservations that were not granted at once and are still waiting
	allocRefused   map[int]int // free mode: waiting reservations the allocator refused, per peer
	allocWaitingBy map[int]int // free mode: reservations waiting for memory, per peer
	lateBuild      map[int]int // free mode: messages built on a queue after its Shutdown was called, per peer

	alloc *allocWrap
	net   *fakeNet
	pmm   *peermanager.PeerMessageManager
	ra    *responseassembler.ResponseAssembler
	tq    *taskqueue.WorkerTaskQueue
	rm    *responsemanager.ResponseManager
	qe    *queryexecutor.QueryExecutor
	conn  *connRec

	mu       sync.Mutex
	ids      []graphsync.RequestID // id index -> request id
	idOf     map[graphsync.RequestID]int
	cfgs     []*reqCfg
	byRoot   map[cid.Cid]*reqCfg
	byCid    map[cid.Cid][2]int // block cid -> (k, idx)
	events   []event
	next     map[int]*messagequeue.Builder // accumulating builder per peer (last seen)
	inflt    map[int]*messagequeue.Builder // builder of the message parked in SendMsg
	infltW   map[int]*wire
	primed   map[int]bool // in-flight message carries a primer request
	workers  []*worker
	received map[int]int // id index -> number of `new` requests received for it

	notes chan note
	// frozen goroutines waiting forever at the end of a case are released through ctx
}

func pidOf(i int) peer.ID { return peer.ID(fmt.Sprintf("peer%d", i)) }

func peerIdx(p peer.ID) int {
	var i int
	fmt.Sscanf(string(p), "peer%d", &i)
	return i
}

// ---------------------------------------------------------------- fakes

type connRec struct {
	e    *engine
	mu   sync.Mutex
	tags map[string]int // "p/tag" -> 1 if protected
	log  []string       // "+p/id" / "-p/id"
}

func (c *connRec) key(p peer.ID, tag string) string {
	c.e.mu.Lock()
	defer c.e.mu.Unlock()
	for i, id := range c.e.ids {
		if id.Tag() == tag {
			return fmt.Sprintf("p%d/r%d", peerIdx(p), i)
		}
	}
	return fmt.Sprintf("p%d/?%s", peerIdx(p), tag)
}
func (c *connRec) Protect(p peer.ID, tag string) {
	k := c.key(p, tag)
	c.mu.Lock()
	defer c.mu.Unlock()
	c.tags[k] = 1
	c.log = append(c.log, "+"+k)
}
func (c *connRec) Unprotect(p peer.ID, tag string) bool {
	k := c.key(p, tag)
	c.mu.Lock()
	defer c.mu.Unlock()
	delete(c.tags, k)
	c.log = append(c.log, "-"+k)
	defer c.e.signalEv()
	for o := range c.tags {
		if strings.HasPrefix(o, fmt.Sprintf("p%d/", peerIdx(p))) {
			return true
		}
	}
	return false
}
func (c *connRec) snapshot() []string {
	c.mu.Lock()
	defer c.mu.Unlock()
	var out []string
	for k := range c.tags {
		out = append(out, k)
	}
	sort.Strings(out)
	return out
}

type fakeNet struct {
	e       *engine
	outcome []chan error // per peer
}

type fakeSender struct {
	n *fakeNet
	p int
}

func (n *fakeNet) ConnectTo(context.Context, peer.ID) error { return nil }
func (n *fakeNet) NewMessageSender(_ context.Context, p peer.ID, _ gsnet.MessageSenderOpts) (gsnet.MessageSender, error) {
	return &fakeSender{n, peerIdx(p)}, nil
}
func (s *fakeSender) SendMsg(ctx context.Context, m gsmsg.GraphSyncMessage) error {
	if s.n.e.free {
		return s.n.e.gateSend(s.p)
	}
	s.n.e.notes <- note{kind: "sendmsg", p: s.p, w: &wire{s.p, m}}
	select {
	case err := <-s.n.outcome[s.p]:
		return err
	case <-s.n.e.ctx.Done():
		return errors.New("shutdown")
	}
}

// gateSend (free-running mode): the network of peer p completes a send at once ("ok"), fails it
// ("fail") or keeps it on the wire until the mode changes ("stall")
func (e *engine) gateSend(p int) error {
	for {
		e.gateMu.Lock()
		mode := e.gateMode[p]
		if mode == "" {
			mode = "ok"
			if e.stalledPeers[p] {
				mode = "stall"
			}
		}
		ch := e.gateCh[p]
		if ch == nil {
			ch = make(chan struct{})
			e.gateCh[p] = ch
		}
		if mode == "stall" {
			e.sendBlocked[p]++
		}
		e.gateMu.Unlock()
		switch mode {
		case "ok":
			return nil
		case "fail":
			return errors.New("send failed")
		}
		e.signalEv()
		select {
		case <-ch:
		case <-e.ctx.Done():
			return errors.New("shutdown")
		}
		e.gateMu.Lock()
		e.sendBlocked[p]--
		e.gateMu.Unlock()
	}
}

func (e *engine) setGate(p int, mode string) {
	e.gateMu.Lock()
	e.gateMode[p] = mode
	if ch := e.gateCh[p]; ch != nil {
		close(ch)
	}
	e.gateCh[p] = make(chan struct{})
	e.gateMu.Unlock()
}

func (e *engine) blockedSends(p int) int {
	e.gateMu.Lock()
	defer e.gateMu.Unlock()
	return e.sendBlocked[p]
}

func (e *engine) signalEv() {
	if e.evCh != nil {
		select {
		case e.evCh <- struct{}{}:
		default:
		}
	}
}

// mqWatch (free-running mode): the real message queue, noting messages that are built on it after its
// Shutdown was called.  PeerMessageManager looks the queue up before the build, so a message can be
// handed to a queue whose peer disconnected meanwhile; once that queue's shutdown drain is over such
// a message is neither sent nor reported as unsent (known finding message-queued-after-queue-shutdown).
type mqWatch struct {
	*messagequeue.MessageQueue
	e    *engine
	p    int
	down int32
}

func (m *mqWatch) Shutdown() {
	atomic.StoreInt32(&m.down, 1)
	m.MessageQueue.Shutdown()
}

func (m *mqWatch) AllocateAndBuildMessage(size uint64, fn func(*messagequeue.Builder)) {
	m.MessageQueue.AllocateAndBuildMessage(size, func(b *messagequeue.Builder) {
		if atomic.LoadInt32(&m.down) == 1 {
			m.e.gateMu.Lock()
			m.e.lateBuild[m.p]++
			m.e.gateMu.Unlock()
		}
		fn(b)
	})
}

func (e *engine) waitingFor(p int) int {
	e.gateMu.Lock()
	defer e.gateMu.Unlock()
	return e.allocWaitingBy[p]
}

func (e *engine) lateBuilds(p int) int {
	e.gateMu.Lock()
	defer e.gateMu.Unlock()
	return e.lateBuild[p]
}

func (s *fakeSender) Close() error { return nil }
func (s *fakeSender) Reset() error { return nil }

// allocWrap: the real allocator, reporting calls that are not granted at once
type allocWrap struct {
	e     *engine
	inner *allocator.Allocator
}

func (a *allocWrap) AllocateBlockMemory(p peer.ID, amount uint64) <-chan error {
	if a.e.free {
		ch := a.inner.AllocateBlockMemory(p, amount)
		select {
		case err := <-ch:
			out := make(chan error, 1)
			out <- err
			return out
		default:
		}
		atomic.AddInt32(&a.e.allocWaiting, 1)
		a.e.gateMu.Lock()
		a.e.allocWaitingBy[peerIdx(p)]++
		a.e.gateMu.Unlock()
		a.e.signalEv()
		out := make(chan error, 1)
		go func() {
			select {
			case err := <-ch:
				atomic.AddInt32(&a.e.allocWaiting, -1)
				a.e.gateMu.Lock()
				a.e.allocWaitingBy[peerIdx(p)]--
				a.e.gateMu.Unlock()
				if err != nil {
					// the allocator refused a waiting reservation (ReleasePeerMemory at queue shutdown)
					a.e.gateMu.Lock()
					a.e.allocRefused[peerIdx(p)]++
					a.e.gateMu.Unlock()
				}
				out <- err
				a.e.signalEv()
			case <-a.e.ctx.Done():
			}
		}()
		return out
	}
	ch := a.inner.AllocateBlockMemory(p, amount)
	select {
	case err := <-ch:
		out := make(chan error, 1)
		out <- err
		return out
	default:
	}
	out := make(chan error, 1)
	a.e.notes <- note{kind: "blocked", gid: curGID(), p: peerIdx(p), ba: &blockedAlloc{p: peerIdx(p), in: ch, out: out}}
	return out
}
func (a *allocWrap) ReleasePeerMemory(p peer.ID) error {
	err := a.inner.ReleasePeerMemory(p)
	a.e.signalEv()
	return err
}
func (a *allocWrap) ReleaseBlockMemory(p peer.ID, amount uint64) error {
	err := a.inner.ReleaseBlockMemory(p, amount)
	a.e.signalEv()
	return err
}

// handlerWrap: responseassembler.PeerMessageHandler -> the real PeerMessageManager, remembering the
// builder each transaction landed in
type handlerWrap struct{ e *engine }

func (h handlerWrap) AllocateAndBuildMessage(p peer.ID, size uint64, fn func(*messagequeue.Builder)) {
	h.e.pmm.AllocateAndBuildMessage(p, size, func(b *messagequeue.Builder) {
		fn(b)
		h.e.mu.Lock()
		h.e.next[peerIdx(p)] = b
		h.e.mu.Unlock()
	})
}

// mgrWrap: queryexecutor.Manager -> the real response manager; a request whose block-hook plan
// contains 'F' parks its executor between its last transaction and FinishTask (so that the script
// can have the message notifications handled before the task is handed back)
type mgrWrap struct{ e *engine }

func (m mgrWrap) StartTask(task *peertask.Task, p peer.ID, ch chan<- queryexecutor.ResponseTask) {
	e := m.e
	// op `popq`: the worker has popped the task but is held before it tells the manager (StartTask), so
	// that the script can have other messages handled in between
	id := e.idIndex(task.Topic.(graphsync.RequestID))
	e.mu.Lock()
	w := e.workerFor(id)
	hold := w != nil && w.holdStart
	if hold {
		w.holdStart = false
	}
	e.mu.Unlock()
	if hold && !e.free {
		e.notes <- note{kind: "prestart", wk: w}
		select {
		case <-w.release:
		case <-e.ctx.Done():
		}
	}
	e.rm.StartTask(task, p, ch)
}
func (m mgrWrap) GetUpdates(id graphsync.RequestID, ch chan<- []gsmsg.GraphSyncRequest) {
	m.e.rm.GetUpdates(id, ch)
}
func (m mgrWrap) FinishTask(task *peertask.Task, p peer.ID, err error) {
	e := m.e
	id := e.idIndex(task.Topic.(graphsync.RequestID))
	e.mu.Lock()
	w := e.workerFor(id)
	park := false
	if w != nil {
		for _, c := range e.cfgs {
			if c.id == id && c.parkFinish {
				park = true
			}
		}
	}
	e.mu.Unlock()
	if park && !e.free {
		e.notes <- note{kind: "prefinish", wk: w}
		select {
		case <-w.release:
		case <-e.ctx.Done():
		}
	}
	e.rm.FinishTask(task, p, err)
	e.signalEv()
}

// assemblerWrap: responsemanager.ResponseAssembler -> the real assembler with wrapped subscribers
type assemblerWrap struct{ e *engine }

func (a assemblerWrap) NewStream(ctx context.Context, p peer.ID, id graphsync.RequestID, sub notifications.Subscriber) responseassembler.ResponseStream {
	return a.e.ra.NewStream(ctx, p, id, &subWrap{a.e, peerIdx(p), sub})
}

type subWrap struct {
	e     *engine
	p     int
	inner notifications.Subscriber
}

func (s *subWrap) OnNext(t notifications.Topic, ev notifications.Event) { s.inner.OnNext(t, ev) }
func (s *subWrap) OnClose(t notifications.Topic) {
	s.inner.OnClose(t)
	s.e.notes <- note{kind: "onclose", p: s.p}
}

// ---------------------------------------------------------------- construction

func newEngine(npeers int, limit uint64, maxPerPeer int, nWorkers int) *engine {
	return newEngineOpts(npeers, limit, maxPerPeer, nWorkers, false, nil)
}

func newEngineOpts(npeers int, limit uint64, maxPerPeer int, nWorkers int, free bool, stalled map[int]bool) *engine {
	ctx, cancel := context.WithCancel(context.Background())
	e := &engine{ctx: ctx, cancel: cancel, npeers: npeers, limit: limit, nWorkers: nWorkers,
		idOf: map[graphsync.RequestID]int{}, byRoot: map[cid.Cid]*reqCfg{}, byCid: map[cid.Cid][2]int{},
		next: map[int]*messagequeue.Builder{}, inflt: map[int]*messagequeue.Builder{}, infltW: map[int]*wire{},
		primed: map[int]bool{}, received: map[int]int{}, notes: make(chan note, 4096)}
	e.free, e.stalledPeers = free, stalled
	e.gateMode, e.gateCh, e.sendBlocked = map[int]string{}, map[int]chan struct{}{}, map[int]int{}
	e.allocRefused = map[int]int{}
	e.allocWaitingBy = map[int]int{}
	e.lateBuild = map[int]int{}
	if free {
		e.evCh = make(chan struct{}, 1)
	}
	for i := 0; i < npeers; i++ {
		e.peers = append(e.peers, pidOf(i))
	}
	total := uint64(1 << 40)
	per := uint64(1 << 30)
	if limit > 0 {
		per = limit
	}
	e.alloc = &allocWrap{e, allocator.NewAllocator(total, per)}
	e.net = &fakeNet{e: e}
	for i := 0; i < npeers; i++ {
		e.net.outcome = append(e.net.outcome, make(chan error))
	}
	e.conn = &connRec{e: e, tags: map[string]int{}}
	e.pmm = peermanager.NewMessageManager(ctx, func(ctx context.Context, p peer.ID, onShutdown func(peer.ID)) peermanager.PeerQueue {
		q := messagequeue.New(ctx, p, e.net, e.alloc, 1, time.Minute, onShutdown)
		if e.free {
			return &mqWatch{MessageQueue: q, e: e, p: peerIdx(p)}
		}
		return q
	})
	e.ra = responseassembler.New(ctx, handlerWrap{e})

	// static, total orders so that PopTasks is a function of the queue content: peers with poppable
	// work first, then by peer index; tasks by priority, then by request-id index
	ready := func(t *peertracker.PeerTracker) bool {
		st := t.Stats()
		return st.NumPending > 0 && !t.IsFrozen() && (maxPerPeer == 0 || st.NumActive < maxPerPeer)
	}
	peerCmp := func(a, b *peertracker.PeerTracker) bool {
		ra := ready(a)
		rb := ready(b)
		if ra != rb {
			return ra
		}
		return peerIdx(a.Target()) < peerIdx(b.Target())
	}
	taskCmp := func(a, b *peertask.QueueTask) bool {
		if a.Priority != b.Priority {
			return a.Priority > b.Priority
		}
		return e.idIndex(a.Topic.(graphsync.RequestID)) < e.idIndex(b.Topic.(graphsync.RequestID))
	}
	ptqopts := []peertaskqueue.Option{peertaskqueue.PeerComparator(peerCmp), peertaskqueue.TaskComparator(taskCmp)}
	if maxPerPeer > 0 {
		// as impl.New does for MaxInProgressIncomingRequestsPerPeer
		ptqopts = append(ptqopts, peertaskqueue.MaxOutstandingWorkPerPeer(maxPerPeer))
	}
	e.tq = taskqueue.NewTaskQueue(ctx, ptqopts...)

	po := persistenceoptions.New()
	reqHooks := hooks.NewRequestHooks(po)
	blockHooks := hooks.NewBlockHooks()
	updHooks := hooks.NewUpdateHooks()
	completed := listeners.NewCompletedResponseListeners()
	cancelled := listeners.NewRequestorCancelledListeners()
	blockSent := listeners.NewBlockSentListeners()
	netErr := listeners.NewNetworkErrorListeners()
	processing := listeners.NewRequestProcessingListeners()

	reqHooks.Register(e.requestHook)
	blockHooks.Register(e.blockHook)
	updHooks.Register(e.updateHook)
	completed.Register(func(p peer.ID, r graphsync.RequestData, st graphsync.ResponseStatusCode) {
		e.addEvent(event{"done", e.idIndex(r.ID()), st})
	})
	cancelled.Register(func(p peer.ID, r graphsync.RequestData) { e.addEvent(event{"canc", e.idIndex(r.ID()), 0}) })
	netErr.Register(func(p peer.ID, r graphsync.RequestData, err error) { e.addEvent(event{"nerr", e.idIndex(r.ID()), 0}) })
	blockSent.Register(func(p peer.ID, r graphsync.RequestData, b graphsync.BlockData) {
		e.addEvent(event{"bs", e.idIndex(r.ID()), 0})
	})
	processing.Register(func(p peer.ID, r graphsync.RequestData, n int) { e.addEvent(event{"proc", e.idIndex(r.ID()), 0}) })

	lsys := cidlink.DefaultLinkSystem()
	lsys.TrustedStorage = true
	lsys.StorageReadOpener = e.loader

	e.rm = responsemanager.New(ctx, lsys, assemblerWrap{e}, processing, reqHooks, updHooks, completed, cancelled,
		blockSent, netErr, e.conn, 0, nil, e.tq)
	e.qe = queryexecutor.New(ctx, mgrWrap{e}, blockHooks, updHooks)
	e.rm.Startup()
	return e
}

func (e *engine) shutdown() {
	e.cancel()
}

func (e *engine) idIndex(id graphsync.RequestID) int {
	e.mu.Lock()
	defer e.mu.Unlock()
	if i, ok := e.idOf[id]; ok {
		return i
	}
	return -1
}

func (e *engine) addEvent(ev event) {
	e.mu.Lock()
	e.events = append(e.events, ev)
	e.mu.Unlock()
	if e.evCh != nil {
		select {
		case e.evCh <- struct{}{}:
		default:
		}
	}
}

// ---------------------------------------------------------------- DAG: one private chain per request

var chainSelector = func() datamodel.Node {
	ssb := builder.NewSelectorSpecBuilder(basicnode.Prototype.Any)
	return ssb.ExploreRecursive(selector.RecursionLimitDepth(50), ssb.ExploreAll(ssb.ExploreRecursiveEdge())).Node()
}()

func (e *engine) buildChain(c *reqCfg) {
	lp := cidlink.LinkPrototype{Prefix: cid.Prefix{Version: 1, Codec: cid.DagCBOR, MhType: mh.SHA2_256, MhLength: 32}}
	var child *cid.Cid
	c.cids = make([]cid.Cid, c.n)
	c.data = make([][]byte, c.n)
	for i := c.n - 1; i >= 0; i-- {
		pay := bytes.Repeat([]byte{byte(c.k), byte(i)}, (c.blkLen+1)/2)[:c.blkLen]
		nd, _ := qp.BuildMap(basicnode.Prototype.Any, -1, func(ma datamodel.MapAssembler) {
			qp.MapEntry(ma, "d", qp.Bytes(pay))
			if child != nil {
				qp.MapEntry(ma, "n", qp.Link(cidlink.Link{Cid: *child}))
			}
		})
		var buf bytes.Buffer
		_ = dagcbor.Encode(nd, &buf)
		cc, _ := lp.Prefix.Sum(buf.Bytes())
		c.cids[i] = cc
		c.data[i] = buf.Bytes()
		child = &cc
		e.byCid[cc] = [2]int{c.k, i}
	}
	c.root = c.cids[0]
	e.byRoot[c.root] = c
}

// loader: the worker goroutine parks here once per block load
func (e *engine) loader(lc linking.LinkContext, l datamodel.Link) (io.Reader, error) {
	cc := l.(cidlink.Link).Cid
	e.mu.Lock()
	ki, ok := e.byCid[cc]
	var c *reqCfg
	var w *worker
	if ok {
		c = e.cfgs[ki[0]]
		w = e.workerFor(c.id)
	}
	e.mu.Unlock()
	if ok && e.free {
		if c.miss == ki[1] {
			return nil, errors.New("not found")
		}
		return bytes.NewBuffer(c.data[ki[1]]), nil
	}
	if !ok || w == nil {
		return nil, errors.New("unknown block")
	}
	e.notes <- note{kind: "loader", wk: w, k: ki[0], idx: ki[1]}
	select {
	case <-w.release:
	case <-e.ctx.Done():
		return nil, errors.New("shutdown")
	}
	if c.miss == ki[1] {
		return nil, errors.New("not found")
	}
	return bytes.NewBuffer(c.data[ki[1]]), nil
}

func extData() graphsync.ExtensionData {
	return graphsync.ExtensionData{Name: extName, Data: basicnode.NewBytes(make([]byte, extPayload))}
}

func (e *engine) requestHook(p peer.ID, r graphsync.RequestData, a graphsync.IncomingRequestHookActions) {
	e.mu.Lock()
	c := e.byRoot[r.Root()]
	e.mu.Unlock()
	if c == nil {
		return
	}
	switch c.hook {
	case 'A', 'R', 'E', 'P':
		a.SendExtensionData(extData())
	}
	switch c.hook {
	case 'a', 'A':
		a.ValidateRequest()
	case 'p', 'P':
		a.ValidateRequest()
		a.PauseResponse()
	case 'e', 'E':
		a.TerminateWithError(errors.New("hook error"))
	case 'r', 'R':
	}
}

func (e *engine) blockHook(p peer.ID, r graphsync.RequestData, b graphsync.BlockData, a graphsync.OutgoingBlockHookActions) {
	e.mu.Lock()
	c := e.byRoot[r.Root()]
	var plan byte = 'o'
	var w *worker
	if c != nil {
		if c.hooked < len(c.bh) {
			plan = c.bh[c.hooked]
		}
		c.hooked++
		w = e.workerFor(c.id)
	}
	e.mu.Unlock()
	switch plan {
	case 'x':
		a.SendExtensionData(extData())
	case 'p':
		a.PauseResponse()
	case 'e':
		a.TerminateWithError(errors.New("block hook error"))
	case 'k':
		if w != nil && !e.free {
			e.notes <- note{kind: "hook", wk: w, k: c.k}
			select {
			case <-w.release:
			case <-e.ctx.Done():
			}
		}
	}
}

func (e *engine) updateHook(p peer.ID, r graphsync.RequestData, u graphsync.RequestData, a graphsync.RequestUpdatedHookActions) {
	plan := "o"
	if nd, ok := u.Extension(updPlanName); ok {
		if s, err := nd.AsString(); err == nil {
			plan = s
		}
	}
	switch plan {
	case "x", "U":
		a.SendExtensionData(extData())
	}
	switch plan {
	case "e":
		a.TerminateWithError(errors.New("update hook error"))
	case "u", "U":
		a.UnpauseResponse()
	}
}

// ---------------------------------------------------------------- waiting

// wait receives the next progress note (watchdog guarded)
func (e *engine) wait() (note, error) {
	t := time.NewTimer(watchdog)
	defer t.Stop()
	select {
	case n := <-e.notes:
		return n, nil
	case <-t.C:
		return note{}, errHang
	}
}

// managerStack reports whether the response-manager goroutine is currently inside
// AllocateAndBuildMessage / AllocateBlockMemory (independent evidence for C25's oracle class)
func managerBlockedInAllocation() bool {
	buf := make([]byte, 1<<20)
	n := runtime.Stack(buf, true)
	for _, g := range strings.Split(string(buf[:n]), "\n\n") {
		if strings.Contains(g, "responsemanager.(*ResponseManager).run") &&
			(strings.Contains(g, "AllocateAndBuildMessage") || strings.Contains(g, "AllocateBlockMemory")) {
			return true
		}
	}
	return false
}
