import GS.Model.Wire
import GSProofs.Lemmas.CborFuel
/-! Fuel of the stream decoder for ARBITRARY input. -/
namespace GS.Wire
open GS.Cbor

theorem uvarintGo_len : ∀ (bs : Bytes) (i acc n : Nat) (r : Bytes),
    uvarintGo bs i acc = some (n, r) → r.length < bs.length
  | [], _, _, _, _, h => by simp [uvarintGo] at h
  | b :: rest, i, acc, n, r, h => by
    unfold uvarintGo at h
    split at h
    · cases h
    · split at h
      · split at h
        · cases h
        · simp only [Option.some.injEq, Prod.mk.injEq] at h
          rw [← h.2]; simp
      · have := uvarintGo_len rest _ _ n r h
        simp only [List.length_cons]; omega

theorem readFrame_len {bs p rest : Bytes} (h : readFrame bs = .ok p rest) : rest.length < bs.length := by
  unfold readFrame at h
  split at h
  · cases h
  · split at h
    · cases h
    · rename_i len r0 hv
      have hl : r0.length < bs.length := uvarintGo_len _ _ _ _ _ hv
      split at h
      · simp only [FrameResult.ok.injEq] at h; rw [← h.2]; exact hl
      · split at h
        · cases h
        · split at h
          · cases h
          · simp only [FrameResult.ok.injEq] at h
            rw [← h.2]; simp only [List.length_drop]; omega

/-- a successful `FromMsgReader` strictly consumes input -/
theorem decodeOne_consumes {hash : Hash} {bs : Bytes} {m : Msg} {rest : Bytes}
    (h : decodeOne hash bs = .ok m rest) : rest.length < bs.length := by
  unfold decodeOne at h
  split at h
  · cases h
  · cases h
  · rename_i p rest' hf
    split at h
    · simp only [DecodeResult.ok.injEq] at h
      rw [← h.2]; exact readFrame_len hf
    · cases h

/-- any fuel above the input length gives the same result -/
theorem decodeStreamFuel_indep (hash : Hash) : ∀ (f : Nat) (bs : Bytes), bs.length < f →
    decodeStreamFuel hash f bs = decodeStreamFuel hash (bs.length + 1) bs := by
  intro f
  induction f using Nat.strongRecOn with
  | _ f ih =>
    intro bs hlt
    obtain ⟨g, rfl⟩ : ∃ g, f = g + 1 := ⟨f - 1, by omega⟩
    simp only [decodeStreamFuel]
    cases hd : decodeOne hash bs with
    | eof => rfl
    | err => rfl
    | ok m rest =>
      have hc := decodeOne_consumes hd
      simp only
      have e1 : decodeStreamFuel hash g rest = decodeStreamFuel hash (rest.length + 1) rest :=
        ih g (by omega) rest (by omega)
      have e2 : decodeStreamFuel hash bs.length rest = decodeStreamFuel hash (rest.length + 1) rest := by
        by_cases hb : bs.length = g + 1
        · -- cannot happen: bs.length < g + 1
          omega
        · exact ih bs.length (by omega) rest hc
      rw [e1, e2]

theorem decodeStreamFuel_succ (hash : Hash) (f : Nat) (bs : Bytes) :
    decodeStreamFuel hash (f + 1) bs =
      match decodeOne hash bs with
      | .eof => ([], true)
      | .err => ([], false)
      | .ok m rest => (m :: (decodeStreamFuel hash f rest).1, (decodeStreamFuel hash f rest).2) := by
  rw [decodeStreamFuel]
  cases decodeOne hash bs <;> rfl

/-- the fixpoint equation of `decodeStream`: no fuel in sight -/
theorem decodeStream_unfold (hash : Hash) (bs : Bytes) :
    decodeStream hash bs =
      match decodeOne hash bs with
      | .eof => ([], true)
      | .err => ([], false)
      | .ok m rest => (m :: (decodeStream hash rest).1, (decodeStream hash rest).2) := by
  unfold decodeStream
  rw [decodeStreamFuel_succ]
  cases hd : decodeOne hash bs with
  | eof => rfl
  | err => rfl
  | ok m rest =>
    have hc := decodeOne_consumes hd
    simp only
    rw [decodeStreamFuel_indep hash bs.length rest hc]

/-- more fuel never changes `decodeStream` -/
theorem decodeStream_fuel_indep (hash : Hash) (bs : Bytes) (k : Nat) :
    decodeStreamFuel hash (bs.length + 1 + k) bs = decodeStream hash bs :=
  decodeStreamFuel_indep hash _ bs (by omega)

end GS.Wire
