import GSProofs.C05StatusLog
/-!
# C05 — the manager step adds no `.done` event; every logged completed-listener call carries a terminal status

`EV s (handler s)` for every manager handler (they only `emit` protect / unprotect / canc / proc / apiRes), hence
`done_ok_step` for ALL actions, `completed_status_is_terminal_status` for every `Reachable` state, and
`completed_at_most_once_with_terminal_status` (drained ids, id registered once).
-/
namespace GS.C05
open GS.RespLife

theorem ev_execTx1 (s : State) (party : Party) (p : Peer) (id : Id) (ops : List TxOp) :
    EV s (execTx s party p id ops).1 := EV.of_eq (events_execTx s party p id ops)

theorem ev_execTx {s s1 : State} {party : Party} {p : Peer} {id : Id} {ops : List TxOp} {ok : Bool}
    (h : execTx s party p id ops = (s1, ok)) : EV s s1 := by
  have := ev_execTx1 s party p id ops
  rw [h] at this; exact this

theorem ev_abortRequest (s : State) (id : Id) (err : Sig) : EV s (abortRequest s id err).1 := by
  unfold abortRequest
  split
  · exact EV.refl s
  · rename_i r _
    have h1 : EV s (removeTask s r.peer id) := EV.of_eq (events_removeTask s r.peer id)
    simp only
    split
    · exact h1
    · split
      · cases err with
        | ctxCancel => exact (h1.trans (ev_terminate _ id)).trans (ev_emit _ (.canc id) rfl)
        | network => exact h1.trans (ev_terminate _ id)
        | cancelCmd => exact (h1.trans (EV.of_eq rfl)).trans (ev_execTx1 (setState (removeTask s r.peer id) id .completing) _ _ _ _)
      · exact h1.trans (EV.of_eq rfl)

theorem ev_pauseRequest (s : State) (id : Id) : EV s (pauseRequest s id).1 := by
  unfold pauseRequest
  split
  · exact EV.refl s
  · split
    · exact EV.refl s
    · split
      · exact EV.refl s
      · exact EV.of_eq rfl

theorem ev_unpauseFinish (s : State) (id : Id) : EV s (unpauseFinish s id) := by
  unfold unpauseFinish
  split
  · exact EV.refl s
  · exact EV.of_eq (events_pushTask _ _ _ _)

theorem ev_unpauseRequest (s : State) (id : Id) (ext : Bool) : EV s (unpauseRequest s id ext).1 := by
  unfold unpauseRequest
  split
  · exact EV.refl s
  · split
    · exact EV.refl s
    · have h1 : EV s (setState (modAux s id fun a => { a with sigPause := false }) id .queued) := EV.of_eq rfl
      split
      · simp only
        generalize hx : execTx _ Party.mgr _ id [TxOp.ext] = pr
        obtain ⟨s2, ok⟩ := pr
        have h2 : EV s s2 := h1.trans (ev_execTx hx)
        simp only
        split
        · exact h2.trans (ev_unpauseFinish s2 id)
        · exact h2.trans (EV.of_eq rfl)
      · exact h1.trans (ev_unpauseFinish _ id)

theorem ev_procUpdateFinish (s : State) (id : Id) (plan : UP) : EV s (procUpdateFinish s id plan) := by
  unfold procUpdateFinish
  split
  · exact EV.refl s
  · split
    · exact EV.of_eq rfl
    · split
      · exact ev_unpauseRequest s id false
      · exact EV.refl s

theorem ev_processUpdate (s : State) (id : Id) (plan : UP) : EV s (processUpdate s id plan) := by
  unfold processUpdate
  split
  · exact EV.refl s
  · split
    · exact EV.refl s
    · split
      · exact EV.of_eq rfl
      · simp only
        generalize hx : execTx s Party.mgr _ id _ = pr
        obtain ⟨s1, ok⟩ := pr
        have h1 : EV s s1 := ev_execTx hx
        simp only
        split
        · exact h1.trans (ev_procUpdateFinish s1 id plan)
        · exact h1.trans (EV.of_eq rfl)

theorem ev_updateRequest (s : State) (id : Id) (ext : Bool) : EV s (updateRequest s id ext).1 := by
  unfold updateRequest
  split
  · exact EV.refl s
  · simp only
    generalize hx : execTx s Party.mgr _ id _ = pr
    obtain ⟨s1, ok⟩ := pr
    have h1 : EV s s1 := ev_execTx hx
    simp only
    split
    · exact h1
    · exact h1.trans (EV.of_eq rfl)

theorem ev_newReqFinish (s : State) (p : Peer) (id : Id) (cfg : ReqCfg) : EV s (newReqFinish s p id cfg) := by
  unfold newReqFinish
  split
  · exact EV.of_eq rfl
  · exact EV.of_eq rfl
  · exact EV.of_eq rfl
  · exact EV.of_eq (events_pushTask s p id cfg.pri)

theorem ev_newRequest (s : State) (p : Peer) (id : Id) (cfg : ReqCfg) : EV s (newRequest s p id cfg) := by
  unfold newRequest
  simp only
  have h0 : EV s (openStream (protect s p id) id) := (ev_protect s p id).trans (EV.of_eq rfl)
  generalize openStream (protect s p id) id = s2 at h0
  generalize hx : execTx s2 Party.mgr p id (prepareOps cfg.hook) = pr
  obtain ⟨s3, ok⟩ := pr
  have h3 : EV s s3 := h0.trans (ev_execTx hx)
  simp only
  split
  · exact h3.trans (ev_newReqFinish s3 p id cfg)
  · exact h3.trans (EV.of_eq rfl)

theorem ev_startTask (s : State) (w : Nat) : EV s (startTask s w) := by
  unfold startTask
  split
  · exact EV.refl s
  · rename_i wk _
    split
    · exact EV.of_eq (events_taskDone s wk.peer wk.id)
    · rename_i r _
      split
      · exact EV.of_eq (events_taskDone s wk.peer wk.id)
      · simp only
        split
        · exact EV.of_eq rfl
        · exact (ev_emit s (.proc r.id) rfl).trans (EV.of_eq rfl)

theorem ev_getUpdates (s : State) (w : Nat) : EV s (getUpdates s w) := by
  unfold getUpdates
  split
  · exact EV.refl s
  · split
    · split
      · exact EV.of_eq rfl
      · exact EV.of_eq rfl
    · exact EV.refl s

theorem ev_finishTask (s : State) (w : Nat) (err : Option WErr) : EV s (finishTask s w err) := by
  unfold finishTask
  split
  · exact EV.refl s
  · rename_i wk _
    have h1 : EV s (setPhase (taskDone s wk.peer wk.id) w .done) := EV.of_eq (events_taskDone s wk.peer wk.id)
    simp only
    split
    · exact h1
    · rename_i r _
      split
      · split
        · exact h1.trans (EV.of_eq (events_pushTask _ _ _ _))
        · exact h1
      · split
        · exact h1.trans (ev_terminate _ _)
        · split
          · exact h1.trans (EV.of_eq rfl)
          · split
            · exact (h1.trans (ev_emit _ (.canc r.id) rfl)).trans (ev_terminate _ _)
            · split
              · exact h1.trans (ev_terminate _ _)
              · exact h1.trans (EV.of_eq rfl)

theorem ev_handle (s : State) (m : Msg) : EV s (handle s m) := by
  cases m with
  | processRequests p r =>
    show EV s (if foreign s p r.id = true then s else processRequest s p r)
    split
    · exact EV.refl s
    · cases r with
      | new id cfg => exact ev_newRequest s p id cfg
      | cancel id => exact ev_abortRequest s id .ctxCancel
      | update id plan => exact ev_processUpdate s id plan
  | api c =>
    cases c with
    | pause id =>
      show EV s (emit (pauseRequest s id).1 _)
      exact (ev_pauseRequest s id).trans (ev_emit _ _ rfl)
    | unpause id ext =>
      show EV s (if (unpauseRequest s id ext).2.2 = true then (unpauseRequest s id ext).1
        else emit (unpauseRequest s id ext).1 _)
      split
      · exact ev_unpauseRequest s id ext
      · exact (ev_unpauseRequest s id ext).trans (ev_emit _ _ rfl)
    | cancel id =>
      show EV s (emit (abortRequest s id .cancelCmd).1 _)
      exact (ev_abortRequest s id .cancelCmd).trans (ev_emit _ _ rfl)
    | update id ext =>
      show EV s (if (updateRequest s id ext).2.2 = true then (updateRequest s id ext).1
        else emit (updateRequest s id ext).1 _)
      split
      · exact ev_updateRequest s id ext
      · exact (ev_updateRequest s id ext).trans (ev_emit _ _ rfl)
  | startTask w => exact ev_startTask s w
  | getUpdates w => exact ev_getUpdates s w
  | finishTask w err => exact ev_finishTask s w err
  | closeNetErr id inc pub =>
    have h1 := ev_abortRequest s id .network
    rw [handle_closeNetErr]
    split
    · split
      · exact h1.trans (EV.of_eq rfl)
      · exact h1.trans (EV.of_eq rfl)
    · exact EV.of_eq rfl
  | terminate id inc pub =>
    rw [handle_terminate]
    refine EV.trans ?_ (EV.of_eq (events_clearPubWait _ pub))
    split
    · exact ev_terminate s id
    · exact EV.refl s

theorem ev_resumeMgr (s : State) (pk : MgrPark) : EV s (resumeMgr s pk) := by
  have h1 : EV s (buildNow { s with park := none } .mgr pk.peer pk.id pk.ops) :=
    EV.of_eq (events_buildNow { s with park := none } .mgr pk.peer pk.id pk.ops)
  unfold resumeMgr
  simp only
  split
  · exact h1.trans (ev_newReqFinish _ _ _ _)
  · exact h1.trans (ev_procUpdateFinish _ _ _)
  · exact (h1.trans (ev_unpauseFinish _ _)).trans (ev_emit _ _ rfl)
  · exact h1.trans (ev_emit _ _ rfl)

theorem ev_mgrStep {s s' : State} (h : mgrStep s = some s') : EV s s' := by
  unfold mgrStep at h
  split at h
  · rename_i pk _
    split at h
    · cases h; exact ev_resumeMgr s pk
    · cases h
  · split at h
    · cases h
    · rename_i m rest _
      cases h
      exact EV.trans (EV.of_eq rfl) (ev_handle { s with mailbox := rest, handled := s.handled + 1 } m)

/-- **C05.done_ok_step**: every action keeps "every logged completed-listener call carries a terminal status". -/
theorem done_ok_step {s s' : State} {a : Action} (hd : DoneOK s.events) (hq : TQ s) (h : step s a = some s') :
    DoneOK s'.events := by
  by_cases ha : a = .mgr
  · subst ha; exact hd.ev (ev_mgrStep h)
  · exact done_ok_step_partial_mgr hd hq ha h

/-- **C05.completed_status_is_terminal_status** (every reachable state, all schedules, no hypothesis on ids): every
    call of the completed-response listeners in the log carries a TERMINAL status code (never PartialResponse /
    RequestPaused); by `sent_steps_status` it is the code the sent message carried for that request. -/
theorem completed_status_is_terminal_status {c : Cfg} {s : State} (h : Reachable c s) (r : Id) (code : Nat)
    (hd : Event.done r code ∈ s.events) : GS.Generated.StatusCodes.isTerminal code = true := by
  have : DoneOK s.events := by
    clear hd
    induction h with
    | init => intro i k hx; simp [init] at hx
    | step hr hs ih => exact done_ok_step ih (tq_reachable hr) hs
  exact this r code hd

/-- the codes of the completed-listener calls for `r`, in order -/
def doneCodes (s : State) (r : Id) : List Nat :=
  s.events.filterMap fun e => match e with | .done id c => if id == r then some c else none | _ => none

theorem doneCodes_length (s : State) (r : Id) : (doneCodes s r).length = completedCount s r := by
  unfold doneCodes completedCount
  induction s.events with
  | nil => rfl
  | cons e l ih =>
    cases e <;> simp only [List.filterMap_cons, List.countP_cons] <;> try exact ih
    rename_i id c
    by_cases hid : (id == r) = true
    · simp only [hid, if_true, List.length_cons, ih]
    · simp only [hid, Bool.false_eq_true, if_false, ih]; omega

theorem mem_doneCodes {s : State} {r : Id} {c : Nat} (h : c ∈ doneCodes s r) : Event.done r c ∈ s.events := by
  unfold doneCodes at h
  obtain ⟨e, he, hm⟩ := List.mem_filterMap.1 h
  cases e <;> simp at hm
  rename_i id c'
  obtain ⟨h1, h2⟩ := hm
  rw [← h1, ← h2]; exact he

/-- **C05.completed_at_most_once_with_terminal_status**: drained ids, `r` registered at most once — the completed
    listeners are told at most once, and the status code they get is terminal. -/
theorem completed_at_most_once_with_terminal_status {c : Cfg} {s : State} (h : ReachableDrained c s) (r : Id)
    (hreg : registrations s r ≤ 1) :
    (doneCodes s r).length ≤ 1 ∧ ∀ code ∈ doneCodes s r, GS.Generated.StatusCodes.isTerminal code = true := by
  refine ⟨?_, fun code hc => ?_⟩
  · rw [doneCodes_length]; exact (one_outcome_partial h r hreg).1
  · exact completed_status_is_terminal_status (reachable_of_drained h) r code (mem_doneCodes hc)

/-- non-vacuity (a test): the completed run reports exactly one terminal code -/
example : ∃ s, ReachableDrained {} s ∧ registrations s 0 ≤ 1 ∧ (doneCodes s 0).length = 1 :=
  ⟨run (init {}) doneScript, reachableDrained_run ReachableDrained.init _ (by decide), by decide, by decide⟩

end GS.C05
