import GSProofs.Lemmas.ReqLifeInvMgr
/-!
Second invariant layer for C04: what is on the two RETURNED channels.

* `InvRet`: each returned channel carries `close` at most once, as its last event, exactly when the
  collector goroutine has finished.
* `InvErr`: where the request's terminal error is (manager, error collector buffer, returned channel),
  that status-derived errors only come from the manager and are handed over at most once, and that a
  caller cancellation leaves a `RequestClientCancelledErr` on the error channel.
-/
namespace GS.ReqLife
open GS.Generated

def isCloseEv {α : Type} : ChanEv α → Bool | .close => true | _ => false

/-- the values sent on a returned channel -/
def sends {α : Type} : List (ChanEv α) → List α
  | [] => []
  | .send v :: l => v :: sends l
  | .close :: l => sends l

@[simp, grind =] theorem sends_append {α : Type} (l m : List (ChanEv α)) : sends (l ++ m) = sends l ++ sends m := by
  induction l with
  | nil => rfl
  | cons x l ih => cases x <;> simp [sends, ih]

@[simp, grind =] theorem sends_nil {α : Type} : sends ([] : List (ChanEv α)) = [] := rfl
@[simp, grind =] theorem sends_send {α : Type} (v : α) (l : List (ChanEv α)) : sends (.send v :: l) = v :: sends l := rfl
@[simp, grind =] theorem sends_close {α : Type} (l : List (ChanEv α)) : sends (.close :: l) = sends l := rfl

/-- number of `close` events -/
def closes {α : Type} (l : List (ChanEv α)) : Nat := l.countP isCloseEv

/-- `close` occurs at most once, and if it occurs it is the last event -/
def ClosedOnce {α : Type} (l : List (ChanEv α)) : Prop :=
  closes l ≤ 1 ∧ (closes l = 1 → ∃ pre, l = pre ++ [ChanEv.close] ∧ closes pre = 0)

structure InvRet (s : State) : Prop where
  pOpen : s.cp ≠ .done → closes s.retP = 0
  pDone : s.cp = .done → ∃ pre, s.retP = pre ++ [ChanEv.close] ∧ closes pre = 0
  eOpen : s.ce ≠ .done → closes s.retE = 0
  eDone : s.ce = .done → ∃ pre, s.retE = pre ++ [ChanEv.close] ∧ closes pre = 0

theorem closedOnce_of_open {α : Type} {l : List (ChanEv α)} (h : closes l = 0) : ClosedOnce l := by
  constructor
  · omega
  · intro h1; omega

theorem closedOnce_of_done {α : Type} {l pre : List (ChanEv α)} (h : l = pre ++ [ChanEv.close]) (hp : closes pre = 0) :
    ClosedOnce l := by
  subst h
  constructor
  · simp [closes, isCloseEv] at *; omega
  · intro _; exact ⟨pre, rfl, hp⟩

/-! frame lemmas: the manager handlers do not touch the returned channels, and touch the collectors only
when the request is created -/

theorem finishTerminate_frame (s : State) (r : Bool) :
    (finishTerminate s r).cp = s.cp ∧ (finishTerminate s r).ce = s.ce ∧
    (finishTerminate s r).retP = s.retP ∧ (finishTerminate s r).retE = s.retE ∧
    (finishTerminate s r).callerCtx = s.callerCtx := ⟨rfl, rfl, rfl, rfl, rfl⟩

theorem terminate_frame (s : State) (r : Bool) :
    (terminate s r).cp = s.cp ∧ (terminate s r).ce = s.ce ∧ (terminate s r).retP = s.retP ∧
    (terminate s r).retE = s.retE ∧ (terminate s r).callerCtx = s.callerCtx := by
  unfold terminate; split <;> simp [finishTerminate]

theorem cancelOnError_frame (s : State) (e : Option Err) :
    (cancelOnError s e).cp = s.cp ∧ (cancelOnError s e).ce = s.ce ∧ (cancelOnError s e).retP = s.retP ∧
    (cancelOnError s e).retE = s.retE ∧ (cancelOnError s e).callerCtx = s.callerCtx := by
  unfold cancelOnError
  simp only
  split <;> split <;> simp [terminate_frame]

theorem handle_frame (s : State) (m : Msg) :
    (handle s m).retP = s.retP ∧ (handle s m).retE = s.retE ∧ (handle s m).callerCtx = s.callerCtx ∧
    (((handle s m).cp = s.cp ∧ (handle s m).ce = s.ce) ∨
      (s.reg = .none ∧ (handle s m).cp = .run 0 true ∧ (handle s m).ce = .run [] true)) := by
  cases m <;> simp only [handle, cancelLive, hookCancel, ingest, procTerminations]
  · split
    · simp
    · rename_i h; simp at h; simp [h]
  · (repeat' split) <;> simp [cancelOnError_frame]
  · (repeat' split) <;> simp [cancelOnError_frame]
  · (repeat' split) <;> simp
  · (repeat' split) <;> simp
  · (repeat' split) <;> simp
  · (repeat' split) <;> simp [terminate_frame]

theorem errSender_frame {s s1 : State} {e : Err} (h : errSender s = some (e, s1)) :
    s1.cp = s.cp ∧ s1.ce = s.ce ∧ s1.retP = s.retP ∧ s1.retE = s.retE ∧ s1.callerCtx = s.callerCtx := by
  simp only [errSender] at h
  split at h
  · cases h; exact finishTerminate_frame _ _
  · split at h
    · cases h; simp
    · cases h; simp [sendRelease, pushMsg]
    · cases h

theorem invRet_init (p e t : Nat) : InvRet (init p e t) := by
  constructor <;> simp [init, closes]

macro "ret_close" : tactic =>
  `(tactic| (constructor <;> grind [closes, isCloseEv]))

theorem invRet_step {s s' : State} {a : Action} (hn : s.reg = .none → s.cp = .none ∧ s.ce = .none)
    (h : InvRet s) (hs : step s a = some s') : InvRet s' := by
  obtain ⟨pOpen, pDone, eOpen, eDone⟩ := h
  cases a
  case mgr =>
    simp only [step] at hs
    split at hs
    next m rest hm hb =>
      cases hs
      obtain ⟨h1, h2, _, h4⟩ := handle_frame { s with mbox := rest } m
      constructor <;> grind [closes]
    next => cases hs
  case ceRecv =>
    simp only [step] at hs
    split at hs
    next buf e s1 hce hsnd =>
      cases hs
      obtain ⟨h1, h2, h3, h4, _⟩ := errSender_frame hsnd
      constructor <;> grind [closes]
    next => cases hs
  case cpDrainE =>
    simp only [step] at hs
    split at hs
    next sent pO e s1 hcp hsnd =>
      cases hs
      obtain ⟨h1, h2, h3, h4, _⟩ := errSender_frame hsnd
      constructor <;> grind [closes]
    next => cases hs
  all_goals
    simp only [step, env, pushMsg, sendRelease, pauseCheck, dataLoaded, loadFailed, afterVisit,
      Option.map_eq_some_iff] at hs
    (repeat' split at hs) <;> (first | (cases hs; done) | (obtain ⟨_, hs1, hs2⟩ := hs; simp at hs1; subst hs2; ret_close) | (cases hs; ret_close))


def isStatus : Err → Bool | .status _ => true | _ => false

/-- the errors the error collector still intends to deliver -/
def ceBuf : CEPhase → List Err
  | .run buf _ => buf
  | .sendCC false buf => buf
  | _ => []

/-- the error collector is certain to deliver a RequestClientCancelledErr before it closes -/
def ccPromise (s : State) : Bool :=
  match s.ce with
  | .none => s.callerCtx
  | .run _ io => s.callerCtx && io
  | .sendCC .. => true
  | .done => false

structure InvErr (s : State) : Prop where
  e1 : s.reg ≠ .gone → (ceBuf s.ce).countP isStatus = 0 ∧ (sends s.retE).countP isStatus = 0
  e2 : s.reg = .gone → (ceBuf s.ce).countP isStatus + (sends s.retE).countP isStatus ≤ 1
  e3 : s.reg = .gone → s.callerCtx = false → ∀ e, s.termErr = some e → (e ∈ ceBuf s.ce ∨ e ∈ sends s.retE)
  e4 : ∀ e rw, s.mphase = .termSend e rw → s.termErr = some e
  e5 : (∀ e, s.w = .finErr e → isStatus e = false) ∧ (∀ e, s.w = .fin1 (.err e) → isStatus e = false) ∧
       (∀ e, s.t = .done (some e) → isStatus e = false)
  gApi : s.termErr = some .cc → s.reg = .gone → (.cc ∈ sends s.retE ∨ .cc ∈ ceBuf s.ce ∨ ccPromise s = true)
  gCtx : s.ctxWhileOpen = true → (.cc ∈ sends s.retE ∨ ccPromise s = true)
  d1 : s.ce = .done → s.reg ≠ .gone → .cc ∈ sends s.retE

theorem invErr_init (p e t : Nat) : InvErr (init p e t) := by
  constructor <;> simp [init, ceBuf, ccPromise]

macro "err_close" : tactic =>
  `(tactic| (constructor <;> grind [isStatus, ceBuf, ccPromise, execActive, needsLoad, replyPending, tQuiet, cpNeedsGone,
      ceNeedsGone, cpNeedsCtx, ceNeedsCtx, finishTerminate]))

macro "err_destruct" h:ident : tactic =>
  `(tactic| obtain ⟨e1, e2, e3, e4, e5, gApi, gCtx, d1⟩ := $h)

macro "err_step" : tactic =>
  `(tactic| (
    rename_i hi h hs
    inv_destruct hi
    err_destruct h
    simp only [step, env, pushMsg, sendRelease, pauseCheck, dataLoaded, loadFailed, afterVisit,
      Option.map_eq_some_iff] at hs
    (repeat' split at hs) <;> (first | (cases hs; done) | (obtain ⟨_, hs1, hs2⟩ := hs; simp at hs1; subst hs2; err_close) | (cases hs; err_close))))

theorem invErr_envNew {s s' : State}  (hi : Inv s) (h : InvErr s) (hs : step s .envNew = some s') : InvErr s' := by err_step
theorem invErr_envCtxCancel {s s' : State}  (hi : Inv s) (h : InvErr s) (hs : step s .envCtxCancel = some s') : InvErr s' := by err_step
theorem invErr_envCancelApi {s s' : State}  (hi : Inv s) (h : InvErr s) (hs : step s .envCancelApi = some s') : InvErr s' := by err_step
theorem invErr_envPause {s s' : State}  (hi : Inv s) (h : InvErr s) (hs : step s .envPause = some s') : InvErr s' := by err_step
theorem invErr_envUnpause {s s' : State}  (hi : Inv s) (h : InvErr s) (hs : step s .envUnpause = some s') : InvErr s' := by err_step
theorem invErr_envResp {s s' : State} {p : Nat} {st : Nat} {it : Nat} {hk : Bool} (hi : Inv s) (h : InvErr s) (hs : step s (.envResp p st it hk) = some s') : InvErr s' := by err_step
theorem invErr_oblUnpause {s s' : State}  (hi : Inv s) (h : InvErr s) (hs : step s .oblUnpause = some s') : InvErr s' := by err_step
theorem invErr_oblAnswer {s s' : State}  (hi : Inv s) (h : InvErr s) (hs : step s .oblAnswer = some s') : InvErr s' := by err_step
theorem invErr_wPop {s s' : State}  (hi : Inv s) (h : InvErr s) (hs : step s .wPop = some s') : InvErr s' := by err_step
theorem invErr_wGet {s s' : State}  (hi : Inv s) (h : InvErr s) (hs : step s .wGet = some s') : InvErr s' := by err_step
theorem invErr_xTop {s s' : State}  (hi : Inv s) (h : InvErr s) (hs : step s .xTop = some s') : InvErr s' := by err_step
theorem invErr_xConsume {s s' : State} {c : Nat} (hi : Inv s) (h : InvErr s) (hs : step s (.xConsume c) = some s') : InvErr s' := by err_step
theorem invErr_xWaitRemote {s s' : State} {d : Bool} {v : Nat} {m : Bool} (hi : Inv s) (h : InvErr s) (hs : step s (.xWaitRemote d v m) = some s') : InvErr s' := by err_step
theorem invErr_xWaitLocal {s s' : State}  (hi : Inv s) (h : InvErr s) (hs : step s .xWaitLocal = some s') : InvErr s' := by err_step
theorem invErr_xRead {s s' : State} {hit : Bool} {v : Nat} {m : Bool} (hi : Inv s) (h : InvErr s) (hs : step s (.xRead hit v m) = some s') : InvErr s' := by err_step
theorem invErr_xHook {s s' : State} {r : HookRes} (hi : Inv s) (h : InvErr s) (hs : step s (.xHook r) = some s') : InvErr s' := by err_step
theorem invErr_xErrCtx {s s' : State}  (hi : Inv s) (h : InvErr s) (hs : step s .xErrCtx = some s') : InvErr s' := by err_step
theorem invErr_xAfterErr {s s' : State} {o : SkipOut} (hi : Inv s) (h : InvErr s) (hs : step s (.xAfterErr o) = some s') : InvErr s' := by err_step
theorem invErr_xSendReq {s s' : State}  (hi : Inv s) (h : InvErr s) (hs : step s .xSendReq = some s') : InvErr s' := by err_step
theorem invErr_xFin1 {s s' : State}  (hi : Inv s) (h : InvErr s) (hs : step s .xFin1 = some s') : InvErr s' := by err_step
theorem invErr_xFinCtx {s s' : State}  (hi : Inv s) (h : InvErr s) (hs : step s .xFinCtx = some s') : InvErr s' := by err_step
theorem invErr_cpRecv {s s' : State}  (hi : Inv s) (h : InvErr s) (hs : step s .cpRecv = some s') : InvErr s' := by err_step
theorem invErr_cpDrainP {s s' : State}  (hi : Inv s) (h : InvErr s) (hs : step s .cpDrainP = some s') : InvErr s' := by err_step
theorem invErr_cpSeeClose {s s' : State}  (hi : Inv s) (h : InvErr s) (hs : step s .cpSeeClose = some s') : InvErr s' := by err_step
theorem invErr_cpDeliver {s s' : State}  (hi : Inv s) (h : InvErr s) (hs : step s .cpDeliver = some s') : InvErr s' := by err_step
theorem invErr_cpExit {s s' : State}  (hi : Inv s) (h : InvErr s) (hs : step s .cpExit = some s') : InvErr s' := by err_step
theorem invErr_cpSeeCtx {s s' : State}  (hi : Inv s) (h : InvErr s) (hs : step s .cpSeeCtx = some s') : InvErr s' := by err_step
theorem invErr_cpSendCancel {s s' : State}  (hi : Inv s) (h : InvErr s) (hs : step s .cpSendCancel = some s') : InvErr s' := by err_step
theorem invErr_cpSeeCloseP {s s' : State}  (hi : Inv s) (h : InvErr s) (hs : step s .cpSeeCloseP = some s') : InvErr s' := by err_step
theorem invErr_cpSeeCloseE {s s' : State}  (hi : Inv s) (h : InvErr s) (hs : step s .cpSeeCloseE = some s') : InvErr s' := by err_step
theorem invErr_cpCancelExit {s s' : State}  (hi : Inv s) (h : InvErr s) (hs : step s .cpCancelExit = some s') : InvErr s' := by err_step
theorem invErr_ceSeeClose {s s' : State}  (hi : Inv s) (h : InvErr s) (hs : step s .ceSeeClose = some s') : InvErr s' := by err_step
theorem invErr_ceDeliver {s s' : State}  (hi : Inv s) (h : InvErr s) (hs : step s .ceDeliver = some s') : InvErr s' := by err_step
theorem invErr_ceExit {s s' : State}  (hi : Inv s) (h : InvErr s) (hs : step s .ceExit = some s') : InvErr s' := by err_step
theorem invErr_ceSeeCtx {s s' : State}  (hi : Inv s) (h : InvErr s) (hs : step s .ceSeeCtx = some s') : InvErr s' := by err_step
theorem invErr_ceDeliverCC {s s' : State}  (hi : Inv s) (h : InvErr s) (hs : step s .ceDeliverCC = some s') : InvErr s' := by err_step

theorem errSender_cases {s s1 : State} {e : Err} (h : errSender s = some (e, s1)) :
    (∃ rw, s.mphase = .termSend e rw ∧ s1 = finishTerminate s rw) ∨
    (s.mphase = .idle ∧ ∃ fatal, s.w = .errSend fatal ∧ e = (if fatal then Err.fatal else Err.missing) ∧
      s1 = { s with w := .errSent fatal }) ∨
    (s.mphase = .idle ∧ s.w = .finErr e ∧ s1 = sendRelease s .other) := by
  simp only [errSender] at h
  split at h
  next e' rw hm => cases h; exact Or.inl ⟨rw, hm, rfl⟩
  next hm =>
    split at h
    next fatal hw => cases h; exact Or.inr (Or.inl ⟨hm, fatal, hw, rfl, rfl⟩)
    next e' hw => cases h; exact Or.inr (Or.inr ⟨hm, hw, rfl⟩)
    next => cases h

theorem invErr_ceRecv {s s' : State} (hi : Inv s) (h : InvErr s) (hs : step s .ceRecv = some s') : InvErr s' := by
  simp only [step] at hs
  split at hs
  next buf e s1 hce hsnd =>
    cases hs
    inv_destruct hi
    err_destruct h
    rcases errSender_cases hsnd with ⟨rw, hm, rfl⟩ | ⟨hm, fatal, hw, rfl, rfl⟩ | ⟨hm, hw, rfl⟩
    · err_close
    · cases fatal <;> err_close
    · simp only [sendRelease, pushMsg]; err_close
  next => cases hs

theorem invErr_cpDrainE {s s' : State} (hi : Inv s) (h : InvErr s) (hs : step s .cpDrainE = some s') : InvErr s' := by
  simp only [step] at hs
  split at hs
  next sent pO e s1 hcp hsnd =>
    cases hs
    inv_destruct hi
    err_destruct h
    rcases errSender_cases hsnd with ⟨rw, hm, rfl⟩ | ⟨hm, fatal, hw, rfl, rfl⟩ | ⟨hm, hw, rfl⟩
    · err_close
    · cases fatal <;> err_close
    · simp only [sendRelease, pushMsg]; err_close
  next => cases hs

/-- what a manager handler can do to the fields the error accounting looks at -/
structure HSum (s s' : State) : Prop where
  frame : s'.ctxWhileOpen = s.ctxWhileOpen ∧ s'.callerCtx = s.callerCtx ∧ s'.retE = s.retE
  ce : s'.ce = s.ce ∨ (s.reg = .none ∧ s'.ce = .run [] true)
  gone : s.reg = .gone → (s'.reg = .gone ∧ s'.termErr = s.termErr ∧ s'.mphase = s.mphase)
  newGone : s'.reg = .gone → s.reg ≠ .gone → s'.termErr = none
  ts : ∀ e rw, s'.mphase = .termSend e rw → s'.termErr = some e
  wt : (s'.w = s.w ∨ s'.w = .idle ∨ s'.w = .top) ∧ (s'.t = s.t ∨ s'.t = .waitLoad ∨ s'.t = .done none)

theorem cancelOnError_sum (s : State) (o : List Out) (wt r : Nat) (a : List ApiRes) (e : Option Err)
    (hm : s.mphase = .idle) (hl : s.reg = .live) :
    HSum s (cancelOnError { s with outbox := o, waiters := wt, rq := r, apiLog := a } e) := by
  simp only [cancelOnError, terminate, finishTerminate]
  (repeat' split) <;> (constructor <;> simp_all)

theorem hsum_offline {s s' : State} (h : HSum s s') : HSum s { s' with online := false } :=
  ⟨h.frame, h.ce, h.gone, h.newGone, h.ts, h.wt⟩

theorem handle_sum (s : State) (m : Msg) (hm : s.mphase = .idle) : HSum s (handle s m) := by
  cases m
  case responses p st it hk =>
    simp only [handle, cancelLive, hookCancel, ingest, procTerminations]
    by_cases hl : s.reg = .live
    · (repeat' split) <;> first
        | exact hsum_offline (cancelOnError_sum s _ _ _ _ _ hm hl)
        | exact cancelOnError_sum s _ _ _ _ _ hm hl
        | (constructor <;> simp_all)
    · (repeat' split) <;> first
        | (exfalso; simp_all; done)
        | (constructor <;> simp_all)
  case cancel api =>
    simp only [handle, cancelLive, hookCancel, ingest, procTerminations]
    by_cases hl : s.reg = .live
    · (repeat' split) <;> first
        | exact cancelOnError_sum s _ _ _ _ _ hm hl
        | (exfalso; simp_all; done)
        | (constructor <;> simp_all)
    · (repeat' split) <;> first
        | (exfalso; simp_all; done)
        | (constructor <;> simp_all)
  all_goals
    simp only [handle, cancelLive, hookCancel, ingest, procTerminations, terminate, finishTerminate, releaseKeepsPaused]
    (repeat' split) <;> (constructor <;> simp_all)


theorem invErr_mgr {s s' : State} (hi : Inv s) (h : InvErr s) (hs : step s .mgr = some s') : InvErr s' := by
  simp only [step] at hs
  split at hs
  next m rest hm hb =>
    cases hs
    obtain ⟨⟨f1, f2, f3⟩, hce, hgone, hnew, hts, ⟨hw, ht⟩⟩ := handle_sum { s with mbox := rest } m hm
    have hreg := reg_cases s
    have hreg' := reg_cases (handle { s with mbox := rest } m)
    have n1 := hi.n1
    have n3d := hi.n3d
    have ll := hi.l
    have bb := hi.b
    err_destruct h
    simp only at f1 f2 f3 hce hgone hnew hw ht
    constructor <;> grind [isStatus, ceBuf, ccPromise]
  next => cases hs

theorem invErr_step {s s' : State} {a : Action} (hi : Inv s) (h : InvErr s) (hs : step s a = some s') : InvErr s' := by
  cases a with
  | envNew => exact invErr_envNew hi h hs
  | envCtxCancel => exact invErr_envCtxCancel hi h hs
  | envCancelApi => exact invErr_envCancelApi hi h hs
  | envPause => exact invErr_envPause hi h hs
  | envUnpause => exact invErr_envUnpause hi h hs
  | envResp p st it hk => exact invErr_envResp hi h hs
  | oblUnpause => exact invErr_oblUnpause hi h hs
  | oblAnswer => exact invErr_oblAnswer hi h hs
  | mgr => exact invErr_mgr hi h hs
  | wPop => exact invErr_wPop hi h hs
  | wGet => exact invErr_wGet hi h hs
  | xTop => exact invErr_xTop hi h hs
  | xConsume c => exact invErr_xConsume hi h hs
  | xWaitRemote d v m => exact invErr_xWaitRemote hi h hs
  | xWaitLocal => exact invErr_xWaitLocal hi h hs
  | xRead hit v m => exact invErr_xRead hi h hs
  | xHook r => exact invErr_xHook hi h hs
  | xErrCtx => exact invErr_xErrCtx hi h hs
  | xAfterErr o => exact invErr_xAfterErr hi h hs
  | xSendReq => exact invErr_xSendReq hi h hs
  | xFin1 => exact invErr_xFin1 hi h hs
  | xFinCtx => exact invErr_xFinCtx hi h hs
  | ceRecv => exact invErr_ceRecv hi h hs
  | cpDrainE => exact invErr_cpDrainE hi h hs
  | cpRecv => exact invErr_cpRecv hi h hs
  | cpDrainP => exact invErr_cpDrainP hi h hs
  | cpSeeClose => exact invErr_cpSeeClose hi h hs
  | cpDeliver => exact invErr_cpDeliver hi h hs
  | cpExit => exact invErr_cpExit hi h hs
  | cpSeeCtx => exact invErr_cpSeeCtx hi h hs
  | cpSendCancel => exact invErr_cpSendCancel hi h hs
  | cpSeeCloseP => exact invErr_cpSeeCloseP hi h hs
  | cpSeeCloseE => exact invErr_cpSeeCloseE hi h hs
  | cpCancelExit => exact invErr_cpCancelExit hi h hs
  | ceSeeClose => exact invErr_ceSeeClose hi h hs
  | ceDeliver => exact invErr_ceDeliver hi h hs
  | ceExit => exact invErr_ceExit hi h hs
  | ceSeeCtx => exact invErr_ceSeeCtx hi h hs
  | ceDeliverCC => exact invErr_ceDeliverCC hi h hs

/-- all three invariant layers hold in every reachable state (of the repaired code). -/
theorem all_reachable (hf1 : ReqLifecycleSpec.releasePauseGuardChecksCtx = true)
    (hf2 : ReqLifecycleSpec.goOnlineChecksCtx = true) {s : State} (h : Reachable s) :
    Inv s ∧ InvRet s ∧ InvErr s := by
  induction h with
  | init p e t => exact ⟨inv_init p e t, invRet_init p e t, invErr_init p e t⟩
  | step _ hs ih =>
    obtain ⟨h1, h2, h3⟩ := ih
    exact ⟨inv_step hf1 hf2 h1 hs, invRet_step (fun hn => ⟨(h1.l hn).2.2.2.2.1, (h1.l hn).2.2.2.2.2.1⟩) h2 hs,
      invErr_step h1 h3 hs⟩

/-! ### the outbox: every message goes to the request's own peer -/

theorem terminate_out (s : State) (r : Bool) :
    (terminate s r).peer = s.peer ∧ (terminate s r).outbox = s.outbox := by
  unfold terminate; split <;> simp [finishTerminate]

theorem cancelOnError_out (s : State) (e : Option Err) :
    (cancelOnError s e).peer = s.peer ∧ (cancelOnError s e).outbox = s.outbox := by
  unfold cancelOnError
  simp only
  split <;> split <;> simp [terminate_out]

theorem handle_out (s : State) (m : Msg) :
    (handle s m).peer = s.peer ∧
    ((handle s m).outbox = s.outbox ∨ (handle s m).outbox = s.outbox ++ [{ kind := .cancel, peer := s.peer }]) := by
  cases m <;> simp only [handle, cancelLive, hookCancel, ingest, procTerminations]
  · split <;> simp
  · (repeat' split) <;> simp [cancelOnError_out]
  · (repeat' split) <;> simp [cancelOnError_out]
  · (repeat' split) <;> simp
  · (repeat' split) <;> simp
  · (repeat' split) <;> simp
  · (repeat' split) <;> simp [terminate_out]

theorem errSender_out {s s1 : State} {e : Err} (h : errSender s = some (e, s1)) :
    s1.peer = s.peer ∧ s1.outbox = s.outbox := by
  simp only [errSender] at h
  split at h
  · cases h; simp [finishTerminate]
  · split at h
    · cases h; simp
    · cases h; simp [sendRelease, pushMsg]
    · cases h

def InvOut (s : State) : Prop := ∀ o ∈ s.outbox, o.peer = s.peer

theorem invOut_init (p e t : Nat) : InvOut (init p e t) := by simp [InvOut, init]

theorem invOut_step {s s' : State} {a : Action} (h : InvOut s) (hs : step s a = some s') : InvOut s' := by
  unfold InvOut at *
  cases a
  case mgr =>
    simp only [step] at hs
    split at hs
    next m rest hm hb =>
      cases hs
      obtain ⟨h1, h2⟩ := handle_out { s with mbox := rest } m
      grind
    next => cases hs
  case ceRecv =>
    simp only [step] at hs
    split at hs
    next buf e s1 hce hsnd =>
      cases hs
      obtain ⟨h1, h2⟩ := errSender_out hsnd
      grind
    next => cases hs
  case cpDrainE =>
    simp only [step] at hs
    split at hs
    next sent pO e s1 hcp hsnd =>
      cases hs
      obtain ⟨h1, h2⟩ := errSender_out hsnd
      grind
    next => cases hs
  all_goals
    simp only [step, env, pushMsg, sendRelease, pauseCheck, dataLoaded, loadFailed, afterVisit,
      Option.map_eq_some_iff] at hs
    (repeat' split at hs) <;> (first | (cases hs; done) | (obtain ⟨_, hs1, hs2⟩ := hs; simp at hs1; subst hs2; grind) | (cases hs; grind))

theorem invOut_reachable {s : State} (h : Reachable s) : InvOut s := by
  induction h with
  | init p e t => exact invOut_init p e t
  | step _ hs ih => exact invOut_step ih hs

end GS.ReqLife
