import GS.Model.Wire
import GSProofs.Lemmas.WireSchema
import GSProofs.Lemmas.WireFrame
/-! message/v2 `fromIPLD ∘ (schema round trip) ∘ toIPLD` on well-formed messages. -/
namespace GS.Wire
open GS.Cbor GS.Generated

/-! ### Go constants -/

theorem reqTypeOfName_goName (t : ReqType) : reqTypeOfName t.goName = t := by
  cases t <;> decide

/-! ### small facts -/

theorem wrap32_of_int32 {z : Int} (h : int32 z = true) : wrap32 z = z := by
  simp only [int32, Bool.and_eq_true, decide_eq_true_eq] at h
  unfold wrap32
  simp only
  by_cases hz : 0 ≤ z
  · have : z % 4294967296 = z := Int.emod_eq_of_lt hz (by omega)
    rw [this]
    simp; omega
  · have h1 : z % 4294967296 = z + 4294967296 := by
      have := Int.add_mul_emod_self_left z 4294967296 1
      have h2 : (z + 4294967296) % 4294967296 = z + 4294967296 := Int.emod_eq_of_lt (by omega) (by omega)
      omega
    rw [h1]
    have : z + 4294967296 ≥ 2147483648 := by omega
    simp [this]

theorem normExts_nil : normExts [] = [] := by
  simp [normExts, extsToKVs, sortValKVs, sortKVs, kvsToExts]

theorem nonEmpty_getD {α : Type} (xs : List α) : (nonEmpty xs).getD [] = xs := by
  unfold nonEmpty
  cases xs <;> simp

theorem nonEmpty_map_getD {α β : Type} (f : List α → List β) (hf : f [] = []) (xs : List α) :
    ((nonEmpty xs).map f).getD [] = f xs := by
  unfold nonEmpty
  cases xs <;> simp [hf]

theorem allSome_map_eq {α β : Type} {f : α → Option β} {g : α → β} : ∀ {xs : List α},
    (∀ x ∈ xs, f x = some (g x)) → allSome (xs.map f) = some (xs.map g)
  | [], _ => rfl
  | x :: xs, h => by
    have h1 := h x List.mem_cons_self
    have h2 := allSome_map_eq (f := f) (g := g) (xs := xs) (fun y hy => h y (List.mem_cons_of_mem _ hy))
    simp only [List.map_cons, allSome, h1, h2]

theorem distinctBy_map {α : Type} (key : α → Bytes) (f : α → α) (hk : ∀ x, key (f x) = key x) :
    ∀ (xs : List α), distinctBy key (xs.map f) = distinctBy key xs
  | [] => rfl
  | x :: xs => by
    simp only [List.map_cons, distinctBy, distinctBy_map key f hk xs, List.any_map, Function.comp_def, hk]

/-! ### requests, responses -/

theorem reqFromB_norm (r : Request) (h : wfReq r = true) :
    reqFromB (normBReq (reqToB r)) = some (normReq r) := by
  simp only [wfReq, Bool.and_eq_true, decide_eq_true_eq] at h
  obtain ⟨⟨hid, hpri⟩, _⟩ := h
  unfold reqFromB
  have h16 : ¬ ((normBReq (reqToB r)).id.length ≠ 16) := by simp [normBReq, reqToB, hid]
  simp only [h16, if_false]
  have hty : reqTypeOfName (normBReq (reqToB r)).type = r.type := by
    simp [normBReq, reqToB, reqTypeOfName_goName]
  rw [hty]
  cases ht : r.type with
  | cancel => simp [normReq, ht, normBReq, reqToB]
  | update =>
    simp only [normReq, ht, normBReq, reqToB, Option.some.injEq]
    congr 1
    exact nonEmpty_map_getD normExts normExts_nil r.exts
  | new =>
    simp only [normReq, ht, normBReq, reqToB, Option.some.injEq]
    have hp : (Option.map wrap32 (if r.priority = 0 then none else some r.priority)).getD 0 = r.priority := by
      split
      · rename_i h0; simp [h0]
      · simp [wrap32_of_int32 hpri]
    rw [hp, nonEmpty_map_getD normExts normExts_nil r.exts]

theorem rspFromB_norm (r : Response) (h : wfRsp r = true) :
    rspFromB (normBRsp (rspToB r)) = some (normRsp r) := by
  simp only [wfRsp, decide_eq_true_eq] at h
  unfold rspFromB
  have h16 : ¬ ((normBRsp (rspToB r)).id.length ≠ 16) := by simp [normBRsp, rspToB, h]
  simp only [h16, if_false]
  simp only [normBRsp, rspToB, normRsp, Option.some.injEq]
  rw [nonEmpty_getD, nonEmpty_map_getD normExts normExts_nil r.exts]

/-! ### blocks -/

theorem parseCid_bounds {c : Bytes} {p : CidParts} (h : parseCid c = some p) :
    p.version < 2 ^ 63 ∧ p.codec < 2 ^ 63 ∧ p.mhType < 2 ^ 63 ∧ p.digest.length < 2 ^ 63 := by
  unfold parseCid at h
  split at h
  · split at h
    · rename_i hl
      simp only [Option.some.injEq] at h
      subst h
      simp only [List.length_drop]
      omega
    · cases h
  · split at h
    · cases h
    · rename_i vers r1 hv
      split at h
      · cases h
      · split at h
        · cases h
        · rename_i codec r2 hc
          split at h
          · cases h
          · rename_i code dig rest hm
            split at h
            · simp only [Option.some.injEq] at h
              subst h
              have hv' := uvarint_bound hv
              have hc' := uvarint_bound hc
              simp only
              refine ⟨by omega, hc', ?_, ?_⟩
              · unfold readMultihash at hm
                split at hm
                · cases hm
                · split at hm
                  · cases hm
                  · rename_i code' r1' hcode
                    split at hm
                    · cases hm
                    · rename_i len r2' hlen
                      split at hm
                      · cases hm
                      · split at hm
                        · cases hm
                        · simp only [Option.some.injEq, Prod.mk.injEq] at hm
                          rw [← hm.1]
                          exact uvarint_bound hcode
              · unfold readMultihash at hm
                split at hm
                · cases hm
                · split at hm
                  · cases hm
                  · split at hm
                    · cases hm
                    · rename_i len r2' hlen
                      split at hm
                      · cases hm
                      · split at hm
                        · cases hm
                        · rename_i h1 h2
                          simp only [Option.some.injEq, Prod.mk.injEq] at hm
                          rw [← hm.2.1]
                          simp only [List.length_take]
                          omega
            · cases h

theorem parsePrefix_prefixBytes (p : Prefix) (h1 : p.version < 2 ^ 63) (h2 : p.codec < 2 ^ 63)
    (h3 : p.mhType < 2 ^ 63) (h4 : p.mhLen < 2 ^ 63) : parsePrefix (prefixBytes p) = some p := by
  unfold parsePrefix prefixBytes
  rw [uvarint_put _ _ h1]
  simp only
  rw [uvarint_put _ _ h2]
  simp only
  rw [uvarint_put _ _ h3]
  simp only
  have := uvarint_put p.mhLen [] h4
  rw [List.append_nil] at this
  rw [this]

theorem blkFromB_blkToB (hash : Hash) (b : Block) (h : wfBlk hash b = true) :
    ∃ bb, blkToB b = some bb ∧ blkFromB hash bb = some b := by
  unfold wfBlk at h
  cases hp : prefixOfCid b.cid with
  | none => rw [hp] at h; cases h
  | some p =>
    rw [hp] at h
    simp only [beq_iff_eq] at h
    refine ⟨⟨prefixBytes p, b.data⟩, by simp [blkToB, hp], ?_⟩
    have hb : p.version < 2 ^ 63 ∧ p.codec < 2 ^ 63 ∧ p.mhType < 2 ^ 63 ∧ p.mhLen < 2 ^ 63 := by
      unfold prefixOfCid at hp
      cases hc : parseCid b.cid with
      | none => rw [hc] at hp; cases hp
      | some cp =>
        rw [hc] at hp
        simp only [Option.some.injEq] at hp
        subst hp
        exact parseCid_bounds hc
    simp only [blkFromB, parsePrefix_prefixBytes p hb.1 hb.2.1 hb.2.2.1 hb.2.2.2, h]

end GS.Wire
