package main

import (
	_ "verifharness/reqlife"
	"verifharness/reg"
)

func main() { reg.Main("reqlife-soak") }
