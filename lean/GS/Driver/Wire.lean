import GS.Driver.WireCore
/-! model driver of component `wire` -/
def main : IO Unit := GS.Proto.runModel GS.Driver.WireCore.handler
