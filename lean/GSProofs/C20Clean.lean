import GSProofs.C20Shared
import GSProofs.Lemmas.ConcurrentCleanSys
import GSProofs.Lemmas.ConcurrentCleanRoot
import GSProofs.Lemmas.ConcurrentCleanAlign
import GSProofs.Lemmas.ConcurrentCleanLocal
import GSProofs.Lemmas.ConcurrentCleanResult
/-!
# C20 — the cleanliness hypothesis of `shared_store_follows`, clause by clause

`GSProofs/C20Shared.lean` proves `shared_store_follows` (a request with a dedup key of its own over the
SHARED store goes through the run it goes through alone over the store as it was when it was issued)
under the hypothesis that the alone run is `CleanAt` at each of its states.  `CleanAt` has three clauses:

* `reg`    — the request context is not cancelled; a running request has been sent and has a node at its
             cursor;
* `nofail` — no failure status is delivered to the running request;
* `miss`   — no block is reported missing that the responder holds (completeness of the SINGLE request,
             property C02).

This file discharges `reg` and `nofail` as INVARIANTS of the alone run, for every schedule of the request's
actions: `alone_run_regular` (any store — `st ⊆ rem` is not needed —, any link tree whose depth-0 links
are blocks the responder holds) and `alone_run_regular_wf` (store ⊆ responder store, any link tree in
which only the first link has depth 0 — C02's `hdep` —, the root held by the responder OR NOT); and it
reduces `miss` to ONE statement about the END of the alone run (reports only grow: `run_evs_prefix`).  Hence

* `alone_run_clean_partial`, `alone_run_clean_wf_partial` — `CleanAt` at every prefix of the alone run from
  the completeness clause at its end;
* `alone_run_clean_root_missing`, `partial_shared_store_root_missing` — FULL strength (no completeness
  hypothesis) in the region "the responder lacks the root": the only block reported missing is the root;
* `alone_run_clean_unheld_root`, `partial_shared_store_unheld_root` — FULL strength (no completeness
  hypothesis) in the region "the requestor does not hold the root when the request is issued" (no locally
  loaded prefix; the responder holds the root or not): `WF` link tree, store ⊆ responder store; proved by the
  alignment invariant `AL` of `Lemmas/ConcurrentCleanAlign.lean` (C02 completeness, one item per message,
  every interleaving);
* `alone_run_clean_prefix`, `partial_shared_store_prefix` — FULL strength in the region "the requestor holds
  the first `N ≥ 1` links of the traversal and not the next one" (`WF`, `PathsDFS`, root path empty): the
  verifier's replay, one recorded link per delivery, then `AL`;
* `shared_store_follows_wf_partial`, `partial_shared_store_wf_partial` — `shared_store_follows` /
  `partial_shared_store_issue_time` with the `CleanAt` hypothesis replaced by that single clause (and
  `hdep`).

## The full statements, and what remains

`alone_run_clean` (below): for a well-formed link tree (`WF`, root path empty, only the root at depth 0,
`PathsDFS` — the side conditions of `C02.complete_prefix`) and ANY local store `st ⊆ rem`, the alone run is
`CleanAt` at every state under every schedule of the request's actions.  It is proved by cases on `st`:
the responder lacks the root (`alone_run_clean_root_missing`), the requestor lacks it
(`alone_run_clean_unheld_root`), the requestor holds the first `N ≥ 1` links and not the next one
(`alone_run_clean_prefix`), the requestor holds everything (`alone_run_clean_local`, C24 `silent`).  Hence
`shared_store_follows_wf` and `partial_shared_store_wf`: C20's open `partial_shared_store` under exactly the
well-formedness hypotheses that `partial_shared_store_counterexample` shows to be necessary — the result
of a request with a dedup key of its own over the shared store = its result ALONE over the store as it
was when it was issued, for every schedule.

The RESULT: `alone_result_reference` — with the root held by the responder, the result (delivered nodes,
missing-block errors, nodes handed to the caller) of every complete alone run, from ANY `st ⊆ rem`, is the
reference traversal `refEvs` of the link tree over the responder's store (invariant `RES`,
`Lemmas/ConcurrentCleanResult.lean`); hence `alone_result_store_independent`, and
`shared_store_result_reference`: over the SHARED store, under every schedule of the whole system complete
for it, a request with a dedup key of its own delivers exactly the reference traversal over the
responder's store — whenever it is issued and whatever the others store.

NOT proved: the relation between the alone run inside the n-request system and the one-request system `solo`
(index 0; both are now equal to `refEvs` only once `solo` is shown to be such an alone run); `refEvs` =
C02's `refTrav` for `st ⊆ rem`; batched deliveries (`runB`); `own ≠ []` mixed with shared.  The delivery
discipline is the model's: one response item per message, terminal status in a message of its own.
-/
namespace GS.C20
open GS.Loader GS.Requestor GS.LinkTrack GS.Concurrent

/-- the actions of request `i` left in a schedule that does not issue it again -/
theorem onlyOf_acts (i : Nat) (post : List Act) (hpost : ∀ a ∈ post, a ≠ .start i) :
    ∀ a ∈ onlyOf i post, a = .resp i ∨ a = .deliver i := by
  intro a ha
  unfold onlyOf at ha
  obtain ⟨h1, h2⟩ := List.mem_filter.mp ha
  have hi : Act.idx a = i := by simpa using h2
  have hn := hpost a h1
  cases a with
  | start j => simp only [Act.idx] at hi; subst hi; exact absurd rfl hn
  | resp j => simp only [Act.idx] at hi; subst hi; exact Or.inl rfl
  | deliver j => simp only [Act.idx] at hi; subst hi; exact Or.inr rfl

/-- the side condition `hd0` below from C02's side conditions on a link tree (`hdep` of
    `C02.exchange_complete_prefix`: only the root has depth 0; `hremroot`: the responder holds the root) -/
theorem depth0_of_root (rem : List Cid) (root : LNode) (rest : LT) (hdep : ∀ m ∈ rest, m.depth ≠ 0)
    (hroot : root.cid ∈ rem) : ∀ m ∈ root :: rest, m.depth = 0 → m.cid ∈ rem := by
  intro m hm hd
  rcases List.mem_cons.mp hm with rfl | hm
  · exact hroot
  · exact absurd hd (hdep m hm)

/-- **C20.alone_run_regular** (clauses `reg` and `nofail` of `CleanAt` are invariants).  Request `i` is
    issued in the initial system over ANY local store `st` and then takes any sequence `τ` of responder
    steps and deliveries.  If every depth-0 link of its link tree (well-formed tree: the root) is a
    block the responder holds, then at the end: its request context is not cancelled; if its executor
    is running it has sent the request and has a node at its cursor; NO message queued for it carries
    a failure status; and the responder has not met a missing root. -/
theorem alone_run_regular (st : List (Cid × Blk)) (rem : List Cid) (lts : List LT) (keys : List (Option Key)) (i : Nat)
    (hd0 : ∀ lt, lts[i]? = some lt → ∀ m ∈ lt, m.depth = 0 → m.cid ∈ rem)
    (τ : List Act) (hτ : ∀ a ∈ τ, a = .resp i ∨ a = .deliver i) :
    let B := Concurrent.run (initSys st rem lts keys) (.start i :: τ)
    (∀ r, B.reqs[i]? = some r → r.ctxCancelled = false ∧ (r.phase = .running → r.requestSent = true ∧ r.todo ≠ [])) ∧
    (∀ ws w, B.chan[i]? = some ws → w ∈ ws → isFailure w.status = false) ∧
    (∀ rr, B.resp[i]? = some rr → rr.rootMiss = false) := by
  intro B
  have hSI : SI i B := SI_run i τ _ hτ (SI_start st rem lts keys i hd0)
  exact ⟨fun r hr => ⟨(hSI.req r hr).ctx, (hSI.req r hr).run⟩, hSI.chan, fun rr hrr => (hSI.resp rr hrr).1⟩

/-- **C20.alone_run_clean_partial.**  `CleanAt` at EVERY prefix of the alone run `start i :: σ` (any
    store, any schedule `σ` of the request's actions) from: the depth-0 links are held by the responder,
    and — the one clause left, single-request completeness (C02) — at the END of the run no block has
    been reported missing that the responder holds. -/
theorem alone_run_clean_partial (st : List (Cid × Blk)) (rem : List Cid) (lts : List LT) (keys : List (Option Key)) (i : Nat)
    (σ : List Act) (hσ : ∀ a ∈ σ, a = .resp i ∨ a = .deliver i)
    (hd0 : ∀ lt, lts[i]? = some lt → ∀ m ∈ lt, m.depth = 0 → m.cid ∈ rem)
    (hmiss : ∀ c p, (c, p) ∈ missingOf ((Concurrent.run (initSys st rem lts keys) (.start i :: σ)).evs.getD i []) → c ∉ rem) :
    ∀ τ, τ <+: σ → CleanAt i (Concurrent.run (initSys st rem lts keys) (.start i :: τ)) := by
  intro τ hτ
  have hτ' : ∀ a ∈ τ, a = .resp i ∨ a = .deliver i := fun a ha => hσ a (hτ.subset ha)
  obtain ⟨h1, h2, _⟩ := alone_run_regular st rem lts keys i hd0 τ hτ'
  refine ⟨h1, fun r w ws _ _ hc => h2 (w :: ws) w hc List.mem_cons_self, ?_⟩
  exact miss_of_end i (initSys st rem lts keys) (.start i :: σ) (.start i :: τ) (prefix_cons_of _ hτ)
    (fun c p hm => by rw [run_rem]; exact hmiss c p hm)

/-- **C20.alone_run_regular_wf** (clauses `reg` and `nofail` of `CleanAt`, for every link tree in which only
    the first link has depth 0 — C02's side condition `hdep` — and every local store that is a part of the
    responder's).  No hypothesis on the root: if the responder holds it, `alone_run_regular` applies; if it
    does not, the requestor does not hold it either, its executor is parked on the root with nothing loaded,
    the response is the root-missing entry followed by `RequestFailedContentNotFound`, and the request ends
    (SkipMe at the root) on the first of the two messages — the failure status never meets a RUNNING request
    (`RM`, `Lemmas/ConcurrentCleanRoot.lean`). -/
theorem alone_run_regular_wf (st : List (Cid × Blk)) (rem : List Cid) (lts : List LT) (keys : List (Option Key)) (i : Nat)
    (hst : ∀ c, (storeGet st c).isSome = true → c ∈ rem)
    (hdep : ∀ root rest, lts[i]? = some (root :: rest) → ∀ m ∈ rest, m.depth ≠ 0)
    (τ : List Act) (hτ : ∀ a ∈ τ, a = .resp i ∨ a = .deliver i) :
    let B := Concurrent.run (initSys st rem lts keys) (.start i :: τ)
    (∀ r, B.reqs[i]? = some r → r.ctxCancelled = false ∧ (r.phase = .running → r.requestSent = true ∧ r.todo ≠ [])) ∧
    (∀ (r : Requestor.State) (w : Wire) (ws : List Wire), B.reqs[i]? = some r → r.phase = .running →
      B.chan[i]? = some (w :: ws) → isFailure w.status = false) := by
  intro B
  by_cases hcase : ∃ root rest, lts[i]? = some (root :: rest) ∧ root.depth = 0 ∧ root.cid ∉ rem
  · obtain ⟨root, rest, hl, hd, hnr⟩ := hcase
    have hst' : storeGet st root.cid = none := by
      cases h : storeGet st root.cid with
      | none => rfl
      | some b => exact absurd (hst root.cid (by rw [h]; rfl)) hnr
    have h0 := RM_start st rem lts keys i root rest hl hst'
    have hrm : RM i root B := RM_run i root hd τ _ (by rw [step_rem]; exact hnr) hτ h0
    exact RM_regular i root B hrm
  · have hd0 : ∀ lt, lts[i]? = some lt → ∀ m ∈ lt, m.depth = 0 → m.cid ∈ rem := by
      intro lt hl m hm hd
      cases lt with
      | nil => cases hm
      | cons root rest =>
        rcases List.mem_cons.mp hm with rfl | hm
        · apply Classical.byContradiction
          intro hnr
          exact hcase ⟨m, rest, hl, hd, hnr⟩
        · exact absurd hd (hdep root rest hl m hm)
    obtain ⟨h1, h2, _⟩ := alone_run_regular st rem lts keys i hd0 τ hτ
    exact ⟨h1, fun r w ws _ _ hc => h2 (w :: ws) w hc List.mem_cons_self⟩

/-- **C20.alone_run_clean_wf_partial.**  `alone_run_clean_partial` under C02's side condition on the link
    tree (only the first link has depth 0) and local store ⊆ responder store, the root held or not:
    `CleanAt` at EVERY prefix of the alone run from its completeness clause at the END of the run. -/
theorem alone_run_clean_wf_partial (st : List (Cid × Blk)) (rem : List Cid) (lts : List LT) (keys : List (Option Key)) (i : Nat)
    (σ : List Act) (hσ : ∀ a ∈ σ, a = .resp i ∨ a = .deliver i)
    (hst : ∀ c, (storeGet st c).isSome = true → c ∈ rem)
    (hdep : ∀ root rest, lts[i]? = some (root :: rest) → ∀ m ∈ rest, m.depth ≠ 0)
    (hmiss : ∀ c p, (c, p) ∈ missingOf ((Concurrent.run (initSys st rem lts keys) (.start i :: σ)).evs.getD i []) → c ∉ rem) :
    ∀ τ, τ <+: σ → CleanAt i (Concurrent.run (initSys st rem lts keys) (.start i :: τ)) := by
  intro τ hτ
  have hτ' : ∀ a ∈ τ, a = .resp i ∨ a = .deliver i := fun a ha => hσ a (hτ.subset ha)
  obtain ⟨h1, h2⟩ := alone_run_regular_wf st rem lts keys i hst hdep τ hτ'
  refine ⟨h1, h2, ?_⟩
  exact miss_of_end i (initSys st rem lts keys) (.start i :: σ) (.start i :: τ) (prefix_cons_of _ hτ)
    (fun c p hm => by rw [run_rem]; exact hmiss c p hm)

/-- the store at the moment request `i` is issued is a part of the responder's store -/
theorem issueStore_sub (st : List (Cid × Blk)) (rem : List Cid) (lts : List LT) (keys : List (Option Key))
    (pre : List Act) (hst : ∀ c, (storeGet st c).isSome = true → c ∈ rem) :
    ∀ c, (storeGet (issueStore st rem lts keys pre) c).isSome = true → c ∈ rem := by
  have hG : ∀ (σ : List Act) (s : Sys), GOK s → GOK (Concurrent.run s σ) := by
    intro σ
    induction σ with
    | nil => intro s h; exact h
    | cons a σ ih => intro s h; exact ih _ (GOK_step s a h).1
  have := (hG pre _ (GOK_init st rem lts keys hst)).store
  rw [run_rem] at this
  exact this

/-- **C20.shared_store_follows_wf_partial.**  `shared_store_follows` (every schedule
    `pre ++ start i :: post`, any number of other requests with other dedup keys, all over one shared
    store ⊆ responder store) with its `CleanAt` hypothesis replaced by: only the first link of request `i`'s
    tree has depth 0 (`hdep`, C02's side condition), and the alone run over the issue-time store has, at
    its END, reported no block missing that the responder holds (`hmiss`, C02 completeness). -/
theorem shared_store_follows_wf_partial (st : List (Cid × Blk)) (rem : List Cid) (lts : List LT) (keys : List (Option Key))
    (i : Nat) (k : Key) (pre post : List Act)
    (hst : ∀ c, (storeGet st c).isSome = true → c ∈ rem)
    (hk : keys.getD i none = some k) (hothers : ∀ j, j ≠ i → keys.getD j none ≠ some k)
    (hpre : ∀ a ∈ pre, Act.idx a ≠ i) (hpost : ∀ a ∈ post, a ≠ .start i)
    (hdep : ∀ root rest, lts[i]? = some (root :: rest) → ∀ m ∈ rest, m.depth ≠ 0)
    (hmiss : ∀ c p, (c, p) ∈ missingOf ((Concurrent.run (initSys (issueStore st rem lts keys pre) rem lts keys)
        (.start i :: onlyOf i post)).evs.getD i []) → c ∉ rem) :
    let A := Concurrent.run (initSys st rem lts keys) (pre ++ .start i :: post)
    let B := Concurrent.run (initSys (issueStore st rem lts keys pre) rem lts keys) (.start i :: onlyOf i post)
    A.evs.getD i [] = B.evs.getD i [] ∧ resultOf A i = resultOf B i ∧ finished A i = finished B i ∧
    A.chan[i]? = B.chan[i]? ∧ A.resp[i]? = B.resp[i]? ∧
    (∀ c, (storeGet B.store c).isSome = true → (storeGet A.store c).isSome = true) :=
  shared_store_follows st rem lts keys i k pre post hst hk hothers hpre hpost
    (alone_run_clean_wf_partial (issueStore st rem lts keys pre) rem lts keys i (onlyOf i post)
      (onlyOf_acts i post hpost) (issueStore_sub st rem lts keys pre hst) hdep hmiss)

/-- **C20.partial_shared_store_wf_partial** (result level).  Distinct dedup keys over the shared store:
    under ANY schedule of the whole system that issues request `i` once and is complete for it, request
    `i` delivers the same nodes, reports the same missing blocks and terminates the same way as under
    ANY complete schedule of `i` ALONE over its issue-time store — provided only the first link of its
    tree has depth 0 and the alone run is complete in the sense of C02 (`hmiss`). -/
theorem partial_shared_store_wf_partial (st : List (Cid × Blk)) (rem : List Cid) (lts : List LT) (keys : List (Option Key))
    (i : Nat) (k : Key) (pre post τ : List Act)
    (hst : ∀ c, (storeGet st c).isSome = true → c ∈ rem)
    (hk : keys.getD i none = some k) (hothers : ∀ j, j ≠ i → keys.getD j none ≠ some k)
    (hpre : ∀ a ∈ pre, Act.idx a ≠ i) (hpost : ∀ a ∈ post, a ≠ .start i)
    (hτ : ∀ a ∈ τ, a = .resp i ∨ a = .deliver i)
    (hdep : ∀ root rest, lts[i]? = some (root :: rest) → ∀ m ∈ rest, m.depth ≠ 0)
    (hmiss : ∀ c p, (c, p) ∈ missingOf ((Concurrent.run (initSys (issueStore st rem lts keys pre) rem lts keys)
        (.start i :: onlyOf i post)).evs.getD i []) → c ∉ rem)
    (c1 : Complete i (Concurrent.run (initSys st rem lts keys) (pre ++ .start i :: post)))
    (c2 : Complete i (Concurrent.run (initSys (issueStore st rem lts keys pre) rem lts keys) (.start i :: τ))) :
    resultOf (Concurrent.run (initSys st rem lts keys) (pre ++ .start i :: post)) i
      = resultOf (Concurrent.run (initSys (issueStore st rem lts keys pre) rem lts keys) (.start i :: τ)) i ∧
    finished (Concurrent.run (initSys st rem lts keys) (pre ++ .start i :: post)) i
      = finished (Concurrent.run (initSys (issueStore st rem lts keys pre) rem lts keys) (.start i :: τ)) i :=
  partial_shared_store_issue_time st rem lts keys i k pre post τ hst hk hothers hpre hpost hτ
    (alone_run_clean_wf_partial (issueStore st rem lts keys pre) rem lts keys i (onlyOf i post)
      (onlyOf_acts i post hpost) (issueStore_sub st rem lts keys pre hst) hdep hmiss) c1 c2

/-- **C20.alone_run_clean_root_missing** (`alone_run_clean` at FULL strength — all three clauses, no
    completeness hypothesis — in the region "the responder lacks the root").  Local store ⊆ responder
    store, the first link of request `i`'s tree is a root (depth 0) whose block the responder lacks: the
    run of `i` alone, under any schedule of its actions, is `CleanAt` at every state — in particular the
    only block it ever reports missing is the root, which the responder does not hold. -/
theorem alone_run_clean_root_missing (st : List (Cid × Blk)) (rem : List Cid) (lts : List LT) (keys : List (Option Key))
    (i : Nat) (root : LNode) (rest : LT)
    (hst : ∀ c, (storeGet st c).isSome = true → c ∈ rem)
    (hl : lts[i]? = some (root :: rest)) (hd : root.depth = 0) (hnr : root.cid ∉ rem)
    (τ : List Act) (hτ : ∀ a ∈ τ, a = .resp i ∨ a = .deliver i) :
    CleanAt i (Concurrent.run (initSys st rem lts keys) (.start i :: τ)) := by
  have hst' : storeGet st root.cid = none := by
    cases h : storeGet st root.cid with
    | none => rfl
    | some b => exact absurd (hst root.cid (by rw [h]; rfl)) hnr
  have h0 := RM_start st rem lts keys i root rest hl hst'
  have e0 := EV_start st rem lts keys i root rest hl hst'
  have hn : root.cid ∉ (Concurrent.step (initSys st rem lts keys) (.start i)).rem := by rw [step_rem]; exact hnr
  have hrm : RM i root (Concurrent.run (initSys st rem lts keys) (.start i :: τ)) := RM_run i root hd τ _ hn hτ h0
  have hev : EV i root (Concurrent.run (initSys st rem lts keys) (.start i :: τ)) := RM_EV_run i root hd τ _ hn hτ h0 e0
  obtain ⟨h1, h2⟩ := RM_regular i root _ hrm
  refine ⟨h1, h2, fun c p hm => ?_⟩
  rw [hev c p hm, run_rem]
  exact hnr

/-- **C20.partial_shared_store_root_missing** (`partial_shared_store` without any cleanliness or
    completeness hypothesis, for a request whose root the responder lacks).  Distinct dedup keys over
    the shared store ⊆ responder store; every schedule of the whole system that issues request `i` once
    and is complete for it gives `i` the result (delivered nodes, missing-block errors, termination) of
    every complete schedule of `i` alone over its issue-time store. -/
theorem partial_shared_store_root_missing (st : List (Cid × Blk)) (rem : List Cid) (lts : List LT) (keys : List (Option Key))
    (i : Nat) (k : Key) (pre post τ : List Act) (root : LNode) (rest : LT)
    (hst : ∀ c, (storeGet st c).isSome = true → c ∈ rem)
    (hk : keys.getD i none = some k) (hothers : ∀ j, j ≠ i → keys.getD j none ≠ some k)
    (hpre : ∀ a ∈ pre, Act.idx a ≠ i) (hpost : ∀ a ∈ post, a ≠ .start i)
    (hτ : ∀ a ∈ τ, a = .resp i ∨ a = .deliver i)
    (hl : lts[i]? = some (root :: rest)) (hd : root.depth = 0) (hnr : root.cid ∉ rem)
    (c1 : Complete i (Concurrent.run (initSys st rem lts keys) (pre ++ .start i :: post)))
    (c2 : Complete i (Concurrent.run (initSys (issueStore st rem lts keys pre) rem lts keys) (.start i :: τ))) :
    resultOf (Concurrent.run (initSys st rem lts keys) (pre ++ .start i :: post)) i
      = resultOf (Concurrent.run (initSys (issueStore st rem lts keys pre) rem lts keys) (.start i :: τ)) i ∧
    finished (Concurrent.run (initSys st rem lts keys) (pre ++ .start i :: post)) i
      = finished (Concurrent.run (initSys (issueStore st rem lts keys pre) rem lts keys) (.start i :: τ)) i :=
  partial_shared_store_issue_time st rem lts keys i k pre post τ hst hk hothers hpre hpost hτ
    (fun τ' hτ' => alone_run_clean_root_missing (issueStore st rem lts keys pre) rem lts keys i root rest
      (issueStore_sub st rem lts keys pre hst) hl hd hnr τ'
      (fun a ha => onlyOf_acts i post hpost a (hτ'.subset ha))) c1 c2

/-- **C20.alone_run_clean_unheld_root** (`alone_run_clean` at FULL strength — all three clauses, no
    completeness hypothesis — in the region "the requestor does not hold the root when the request is
    issued", i.e. no locally loaded prefix, do-not-send-first-blocks = 0).  Link tree well formed (`WF`:
    paths agree with the depth structure), only the first link has depth 0, local store ⊆ responder
    store and without the root's block; the responder may hold the root or not, and any other blocks.
    The run of request `i` alone, under ANY schedule of its actions, is `CleanAt` at every state: in
    particular it never reports a block missing that the responder holds.  This is single-request
    completeness (C02 `complete_remote_start`) for the delivery discipline of this model — one response
    item per message, the executor woken after each, the terminal status in a message of its own, any
    interleaving of responder steps and deliveries — proved directly by an alignment invariant
    (`AL`, `Lemmas/ConcurrentCleanAlign.lean`): the honest stream `respItemsW` for the executor's cursor =
    the items in flight ++ what the responder will still produce; the tracker of the request's dedup
    scope holds exactly the blocks traversed so far; a block the responder did not send again is in
    the local store. -/
theorem alone_run_clean_unheld_root (st : List (Cid × Blk)) (rem : List Cid) (lts : List LT) (keys : List (Option Key))
    (i : Nat) (root : LNode) (rest : LT)
    (hst : ∀ c, (storeGet st c).isSome = true → c ∈ rem)
    (hl : lts[i]? = some (root :: rest)) (hwf : Loader.WF (root :: rest)) (hdep : ∀ m ∈ rest, m.depth ≠ 0)
    (hun : storeGet st root.cid = none)
    (τ : List Act) (hτ : ∀ a ∈ τ, a = .resp i ∨ a = .deliver i) :
    CleanAt i (Concurrent.run (initSys st rem lts keys) (.start i :: τ)) := by
  by_cases hcase : root.depth = 0 ∧ root.cid ∉ rem
  · exact alone_run_clean_root_missing st rem lts keys i root rest hst hl hcase.1 hcase.2 τ hτ
  · have hd0m : ∀ m ∈ root :: rest, m.depth = 0 → m.cid ∈ rem := by
      intro m hm hd
      rcases List.mem_cons.mp hm with rfl | hm
      · apply Classical.byContradiction
        intro hnr
        exact hcase ⟨hd, hnr⟩
      · exact absurd hd (hdep m hm)
    have hd0 : ∀ lt, lts[i]? = some lt → ∀ m ∈ lt, m.depth = 0 → m.cid ∈ rem := by
      intro lt hl'
      rw [hl] at hl'
      cases hl'
      exact hd0m
    obtain ⟨a0, e0⟩ := AL_start st rem lts keys i root rest hl hun hwf hd0m
    have hG := (GOK_step _ (.start i) (GOK_init st rem lts keys hst)).1
    obtain ⟨_, e1⟩ := AL_run TRec.empty i τ _ hτ hG a0 e0
    obtain ⟨h1, h2, _⟩ := alone_run_regular st rem lts keys i hd0 τ hτ
    exact ⟨h1, fun r w ws _ _ hc => h2 (w :: ws) w hc List.mem_cons_self, e1⟩

/-- **C20.partial_shared_store_unheld_root** (`partial_shared_store` under `WF`, no cleanliness or
    completeness hypothesis, for a request whose root is not in the shared store when it is issued —
    e.g. every request issued before any block of its root's cid was stored, in particular the first
    request over an empty store).  Distinct dedup keys over the shared store ⊆ responder store; every
    schedule of the whole system that issues request `i` once and is complete for it gives `i` the
    result (delivered nodes, missing-block errors, termination) of every complete schedule of `i` alone
    over its issue-time store. -/
theorem partial_shared_store_unheld_root (st : List (Cid × Blk)) (rem : List Cid) (lts : List LT) (keys : List (Option Key))
    (i : Nat) (k : Key) (pre post τ : List Act) (root : LNode) (rest : LT)
    (hst : ∀ c, (storeGet st c).isSome = true → c ∈ rem)
    (hk : keys.getD i none = some k) (hothers : ∀ j, j ≠ i → keys.getD j none ≠ some k)
    (hpre : ∀ a ∈ pre, Act.idx a ≠ i) (hpost : ∀ a ∈ post, a ≠ .start i)
    (hτ : ∀ a ∈ τ, a = .resp i ∨ a = .deliver i)
    (hl : lts[i]? = some (root :: rest)) (hwf : Loader.WF (root :: rest)) (hdep : ∀ m ∈ rest, m.depth ≠ 0)
    (hun : storeGet (issueStore st rem lts keys pre) root.cid = none)
    (c1 : Complete i (Concurrent.run (initSys st rem lts keys) (pre ++ .start i :: post)))
    (c2 : Complete i (Concurrent.run (initSys (issueStore st rem lts keys pre) rem lts keys) (.start i :: τ))) :
    resultOf (Concurrent.run (initSys st rem lts keys) (pre ++ .start i :: post)) i
      = resultOf (Concurrent.run (initSys (issueStore st rem lts keys pre) rem lts keys) (.start i :: τ)) i ∧
    finished (Concurrent.run (initSys st rem lts keys) (pre ++ .start i :: post)) i
      = finished (Concurrent.run (initSys (issueStore st rem lts keys pre) rem lts keys) (.start i :: τ)) i :=
  partial_shared_store_issue_time st rem lts keys i k pre post τ hst hk hothers hpre hpost hτ
    (fun τ' hτ' => alone_run_clean_unheld_root (issueStore st rem lts keys pre) rem lts keys i root rest
      (issueStore_sub st rem lts keys pre hst) hl hwf hdep hun τ'
      (fun a ha => onlyOf_acts i post hpost a (hτ'.subset ha))) c1 c2

/-- **C20.alone_run_clean_prefix** (`alone_run_clean` at FULL strength in the region "the requestor holds
    the first `N ≥ 1` links `root :: pre'` of the traversal and not the next one, `n`" — the case that
    arises over a SHARED store, where other requests have stored the first blocks of the DAG).  Same
    hypotheses as `C02.complete_prefix_held`: link tree well formed (`WF`), the root's path empty, the
    prefix's paths in depth-first order (`PathsDFS`), only the first link has depth 0, local store ⊆
    responder store.  The request is sent with do-not-send-first-blocks = `N`; the responder's first `N`
    entries (present, no block: skip window of the link tracker) are consumed by the verifier's replay of
    the traversal record, ONE PER DELIVERY (`message_replay`: `Loader.waitRemote_step`, `tipOf_spec`,
    `nextLink_true'`), then the alignment invariant `AL` takes over.  Under ANY schedule of the request's
    actions the alone run is `CleanAt` at every state: it never reports a block missing that the
    responder holds (C02 completeness, one response item per message). -/
theorem alone_run_clean_prefix (st : List (Cid × Blk)) (rem : List Cid) (lts : List LT) (keys : List (Option Key))
    (i : Nat) (root : LNode) (pre' : LT) (n : LNode) (post : LT)
    (hst : ∀ c, (storeGet st c).isSome = true → c ∈ rem)
    (hl : lts[i]? = some (root :: pre' ++ n :: post)) (hwf : Loader.WF (root :: pre' ++ n :: post))
    (hroot0 : root.path = []) (hdep : ∀ m ∈ pre' ++ n :: post, m.depth ≠ 0)
    (hdfs : PathsDFS ((root :: pre').map (·.path)))
    (hheld : ∀ m ∈ root :: pre', holds st m.cid = true) (hmiss : holds st n.cid = false)
    (τ : List Act) (hτ : ∀ a ∈ τ, a = .resp i ∨ a = .deliver i) :
    CleanAt i (Concurrent.run (initSys st rem lts keys) (.start i :: τ)) := by
  have hrootrem : root.cid ∈ rem := hst root.cid (hheld root List.mem_cons_self)
  have hd0m : ∀ m ∈ root :: pre' ++ n :: post, m.depth = 0 → m.cid ∈ rem := by
    intro m hm hd
    rcases List.mem_cons.mp hm with rfl | hm
    · exact hrootrem
    · exact absurd hd (hdep m hm)
  have hd0 : ∀ lt, lts[i]? = some lt → ∀ m ∈ lt, m.depth = 0 → m.cid ∈ rem := by
    intro lt hl'
    rw [hl] at hl'
    cases hl'
    exact hd0m
  obtain ⟨a0, e0⟩ := AL_start_prefix st rem lts keys i root pre' n post hl hst hheld hmiss hroot0 hdfs hwf hd0m
  have hG := (GOK_step _ (.start i) (GOK_init st rem lts keys hst)).1
  obtain ⟨_, e1⟩ := AL_run _ i τ _ hτ hG a0 e0
  obtain ⟨h1, h2, _⟩ := alone_run_regular st rem lts keys i hd0 τ hτ
  exact ⟨h1, fun r w ws _ _ hc => h2 (w :: ws) w hc List.mem_cons_self, e1⟩

/-- **C20.partial_shared_store_prefix** (`partial_shared_store` under `WF` / `PathsDFS`, no cleanliness or
    completeness hypothesis, for a request that finds the first `N ≥ 1` blocks of its traversal in the
    shared store when it is issued and not the next one).  Distinct dedup keys over the shared store ⊆
    responder store; every schedule of the whole system that issues request `i` once and is complete
    for it gives `i` the result of every complete schedule of `i` alone over its issue-time store. -/
theorem partial_shared_store_prefix (st : List (Cid × Blk)) (rem : List Cid) (lts : List LT) (keys : List (Option Key))
    (i : Nat) (k : Key) (pre post τ : List Act) (root : LNode) (pre' : LT) (n : LNode) (post' : LT)
    (hst : ∀ c, (storeGet st c).isSome = true → c ∈ rem)
    (hk : keys.getD i none = some k) (hothers : ∀ j, j ≠ i → keys.getD j none ≠ some k)
    (hpre : ∀ a ∈ pre, Act.idx a ≠ i) (hpost : ∀ a ∈ post, a ≠ .start i)
    (hτ : ∀ a ∈ τ, a = .resp i ∨ a = .deliver i)
    (hl : lts[i]? = some (root :: pre' ++ n :: post')) (hwf : Loader.WF (root :: pre' ++ n :: post'))
    (hroot0 : root.path = []) (hdep : ∀ m ∈ pre' ++ n :: post', m.depth ≠ 0)
    (hdfs : PathsDFS ((root :: pre').map (·.path)))
    (hheld : ∀ m ∈ root :: pre', holds (issueStore st rem lts keys pre) m.cid = true)
    (hmiss : holds (issueStore st rem lts keys pre) n.cid = false)
    (c1 : Complete i (Concurrent.run (initSys st rem lts keys) (pre ++ .start i :: post)))
    (c2 : Complete i (Concurrent.run (initSys (issueStore st rem lts keys pre) rem lts keys) (.start i :: τ))) :
    resultOf (Concurrent.run (initSys st rem lts keys) (pre ++ .start i :: post)) i
      = resultOf (Concurrent.run (initSys (issueStore st rem lts keys pre) rem lts keys) (.start i :: τ)) i ∧
    finished (Concurrent.run (initSys st rem lts keys) (pre ++ .start i :: post)) i
      = finished (Concurrent.run (initSys (issueStore st rem lts keys pre) rem lts keys) (.start i :: τ)) i :=
  partial_shared_store_issue_time st rem lts keys i k pre post τ hst hk hothers hpre hpost hτ
    (fun τ' hτ' => alone_run_clean_prefix (issueStore st rem lts keys pre) rem lts keys i root pre' n post'
      (issueStore_sub st rem lts keys pre hst) hl hwf hroot0 hdep hdfs hheld hmiss τ'
      (fun a ha => onlyOf_acts i post hpost a (hτ'.subset ha))) c1 c2

/-- the degenerate region: the local store covers the whole traversal, nothing is sent -/
theorem alone_run_clean_local (st : List (Cid × Blk)) (rem : List Cid) (lts : List LT) (keys : List (Option Key))
    (i : Nat) (lt : LT)
    (hst : ∀ c, (storeGet st c).isSome = true → c ∈ rem)
    (hl : lts[i]? = some lt) (hcov : GS.C24.Covers st lt)
    (τ : List Act) (hτ : ∀ a ∈ τ, a = .resp i ∨ a = .deliver i) :
    CleanAt i (Concurrent.run (initSys st rem lts keys) (.start i :: τ)) := by
  have hd0 : ∀ lt', lts[i]? = some lt' → ∀ m ∈ lt', m.depth = 0 → m.cid ∈ rem := by
    intro lt' hl' m hm _
    rw [hl] at hl'
    cases hl'
    exact hst m.cid (hcov m hm)
  obtain ⟨a0, e0⟩ := AL_start_local st rem lts keys i lt hl hcov
  have hG := (GOK_step _ (.start i) (GOK_init st rem lts keys hst)).1
  obtain ⟨_, e1⟩ := AL_run _ i τ _ hτ hG a0 e0
  obtain ⟨h1, h2, _⟩ := alone_run_regular st rem lts keys i hd0 τ hτ
  exact ⟨h1, fun r w ws _ _ hc => h2 (w :: ws) w hc List.mem_cons_self, e1⟩

/-- **C20.alone_run_clean** (the `CleanAt` hypothesis of `shared_store_follows`, discharged for well-formed
    link trees).  Request `i` has the link tree `root :: rest`: well formed (`WF`: paths agree with the
    depth structure), the root's path empty, only the root at depth 0, paths in depth-first order
    (`PathsDFS` — the side conditions of `C02.complete_prefix`).  The responder's store `rem` holds every
    block the requestor's store `st` holds.  Then the run of `i` ALONE over `st`, under ANY schedule `τ` of
    its responder steps and deliveries, is `CleanAt` at every state: the request context is never
    cancelled, a running request has been sent and has a node at its cursor, no failure status reaches
    the running request, and — single-request completeness, C02, for ONE response item per message —
    it never reports a block missing that the responder holds.  Whatever `st ⊆ rem` is: the responder
    lacks the root (`alone_run_clean_root_missing`), the requestor lacks it (`…_unheld_root`), holds a
    proper prefix of the traversal (`…_prefix`) or all of it (`…_local`). -/
theorem alone_run_clean (st : List (Cid × Blk)) (rem : List Cid) (lts : List LT) (keys : List (Option Key))
    (i : Nat) (root : LNode) (rest : LT)
    (hst : ∀ c, (storeGet st c).isSome = true → c ∈ rem)
    (hl : lts[i]? = some (root :: rest)) (hwf : Loader.WF (root :: rest))
    (hroot0 : root.path = []) (hdep : ∀ m ∈ rest, m.depth ≠ 0)
    (hdfs : PathsDFS ((root :: rest).map (·.path)))
    (τ : List Act) (hτ : ∀ a ∈ τ, a = .resp i ∨ a = .deliver i) :
    CleanAt i (Concurrent.run (initSys st rem lts keys) (.start i :: τ)) := by
  cases hroot : storeGet st root.cid with
  | none => exact alone_run_clean_unheld_root st rem lts keys i root rest hst hl hwf hdep hroot τ hτ
  | some b =>
    have hrh : holds st root.cid = true := by unfold holds; rw [hroot]; rfl
    have hsplit : rest.takeWhile (fun m => holds st m.cid) ++ rest.dropWhile (fun m => holds st m.cid) = rest :=
      List.takeWhile_append_dropWhile
    have htw : ∀ m ∈ rest.takeWhile (fun m => holds st m.cid), holds st m.cid = true :=
      fun m hm => mem_takeWhile_pos (fun m => holds st m.cid) rest m hm
    cases hdw : rest.dropWhile (fun m => holds st m.cid) with
    | nil =>
      have hall := all_of_dropWhile_nil (fun m : LNode => holds st m.cid) rest hdw
      refine alone_run_clean_local st rem lts keys i (root :: rest) hst hl ?_ τ hτ
      intro m hm
      rcases List.mem_cons.mp hm with rfl | hm
      · exact hrh
      · exact hall m hm
    | cons n post =>
      have hnm : holds st n.cid = false := dropWhile_head_neg (fun m : LNode => holds st m.cid) rest n post hdw
      rw [hdw] at hsplit
      generalize rest.takeWhile (fun m => holds st m.cid) = pre' at hsplit htw
      subst hsplit
      have hdfs' : PathsDFS ((root :: pre').map (·.path)) := by
        have e : (root :: (pre' ++ n :: post)).map (·.path) = (root :: pre').map (·.path) ++ (n :: post).map (·.path) := by
          simp
        rw [e] at hdfs
        exact PathsDFS.prefix _ _ hdfs
      refine alone_run_clean_prefix st rem lts keys i root pre' n post hst hl hwf hroot0 hdep hdfs' ?_ hnm τ hτ
      intro m hm
      rcases List.mem_cons.mp hm with rfl | hm
      · exact hrh
      · exact htw m hm

/-- **C20.shared_store_follows_wf** (`shared_store_follows` for well-formed link trees, NO cleanliness
    hypothesis).  Any number of requests over one shared store ⊆ responder store; request `i` carries a
    dedup key nobody else carries and has a well-formed link tree (`WF`, root path empty, only the root at
    depth 0, `PathsDFS`).  Under EVERY schedule `pre ++ start i :: post` it goes — up to the store contents —
    through exactly the run it goes through ALONE over the store as it was when it was issued: same
    reports in the same order, same termination, same messages and responder cursor; every block the
    alone run stores is in the shared store. -/
theorem shared_store_follows_wf (st : List (Cid × Blk)) (rem : List Cid) (lts : List LT) (keys : List (Option Key))
    (i : Nat) (k : Key) (pre post : List Act) (root : LNode) (rest : LT)
    (hst : ∀ c, (storeGet st c).isSome = true → c ∈ rem)
    (hk : keys.getD i none = some k) (hothers : ∀ j, j ≠ i → keys.getD j none ≠ some k)
    (hpre : ∀ a ∈ pre, Act.idx a ≠ i) (hpost : ∀ a ∈ post, a ≠ .start i)
    (hl : lts[i]? = some (root :: rest)) (hwf : Loader.WF (root :: rest))
    (hroot0 : root.path = []) (hdep : ∀ m ∈ rest, m.depth ≠ 0)
    (hdfs : PathsDFS ((root :: rest).map (·.path))) :
    let A := Concurrent.run (initSys st rem lts keys) (pre ++ .start i :: post)
    let B := Concurrent.run (initSys (issueStore st rem lts keys pre) rem lts keys) (.start i :: onlyOf i post)
    A.evs.getD i [] = B.evs.getD i [] ∧ resultOf A i = resultOf B i ∧ finished A i = finished B i ∧
    A.chan[i]? = B.chan[i]? ∧ A.resp[i]? = B.resp[i]? ∧
    (∀ c, (storeGet B.store c).isSome = true → (storeGet A.store c).isSome = true) :=
  shared_store_follows st rem lts keys i k pre post hst hk hothers hpre hpost
    (fun τ' hτ' => alone_run_clean (issueStore st rem lts keys pre) rem lts keys i root rest
      (issueStore_sub st rem lts keys pre hst) hl hwf hroot0 hdep hdfs τ'
      (fun a ha => onlyOf_acts i post hpost a (hτ'.subset ha)))

/-- **C20.partial_shared_store_wf** (`partial_shared_store` — the statement left open at the end of
    `C20.lean` — under the well-formedness hypotheses its counterexample `partial_shared_store_counterexample`
    shows to be necessary).  Distinct dedup keys over the SHARED default store ⊆ responder store, request
    `i`'s link tree well formed (`WF`, root path empty, only the root at depth 0, `PathsDFS`).  ANY schedule
    of the whole system that issues request `i` once and is complete for it gives `i` the same delivered
    nodes, the same missing-block errors and the same termination as ANY complete schedule of `i` ALONE
    over the store as it was when `i` was issued — whatever the other requests do and store meanwhile.
    No cleanliness or completeness hypothesis. -/
theorem partial_shared_store_wf (st : List (Cid × Blk)) (rem : List Cid) (lts : List LT) (keys : List (Option Key))
    (i : Nat) (k : Key) (pre post τ : List Act) (root : LNode) (rest : LT)
    (hst : ∀ c, (storeGet st c).isSome = true → c ∈ rem)
    (hk : keys.getD i none = some k) (hothers : ∀ j, j ≠ i → keys.getD j none ≠ some k)
    (hpre : ∀ a ∈ pre, Act.idx a ≠ i) (hpost : ∀ a ∈ post, a ≠ .start i)
    (hτ : ∀ a ∈ τ, a = .resp i ∨ a = .deliver i)
    (hl : lts[i]? = some (root :: rest)) (hwf : Loader.WF (root :: rest))
    (hroot0 : root.path = []) (hdep : ∀ m ∈ rest, m.depth ≠ 0)
    (hdfs : PathsDFS ((root :: rest).map (·.path)))
    (c1 : Complete i (Concurrent.run (initSys st rem lts keys) (pre ++ .start i :: post)))
    (c2 : Complete i (Concurrent.run (initSys (issueStore st rem lts keys pre) rem lts keys) (.start i :: τ))) :
    resultOf (Concurrent.run (initSys st rem lts keys) (pre ++ .start i :: post)) i
      = resultOf (Concurrent.run (initSys (issueStore st rem lts keys pre) rem lts keys) (.start i :: τ)) i ∧
    finished (Concurrent.run (initSys st rem lts keys) (pre ++ .start i :: post)) i
      = finished (Concurrent.run (initSys (issueStore st rem lts keys pre) rem lts keys) (.start i :: τ)) i :=
  partial_shared_store_issue_time st rem lts keys i k pre post τ hst hk hothers hpre hpost hτ
    (fun τ' hτ' => alone_run_clean (issueStore st rem lts keys pre) rem lts keys i root rest
      (issueStore_sub st rem lts keys pre hst) hl hwf hroot0 hdep hdfs τ'
      (fun a ha => onlyOf_acts i post hpost a (hτ'.subset ha))) c1 c2

/-- **C20.partial_shared_store_first_wf.**  The request issued while the shared store still has its
    initial contents (in particular the first request issued — the others are issued, run and store
    blocks at any time afterwards): its result under every schedule of the whole system that is complete
    for it = its result under every complete schedule of it ALONE between the same two stores.  Well-formed
    link tree, no further hypothesis. -/
theorem partial_shared_store_first_wf (st : List (Cid × Blk)) (rem : List Cid) (lts : List LT) (keys : List (Option Key))
    (i : Nat) (k : Key) (pre post τ : List Act) (root : LNode) (rest : LT)
    (hst : ∀ c, (storeGet st c).isSome = true → c ∈ rem)
    (hk : keys.getD i none = some k) (hothers : ∀ j, j ≠ i → keys.getD j none ≠ some k)
    (hpre : ∀ a ∈ pre, Act.idx a ≠ i) (hpost : ∀ a ∈ post, a ≠ .start i)
    (hτ : ∀ a ∈ τ, a = .resp i ∨ a = .deliver i)
    (hS0 : issueStore st rem lts keys pre = st)
    (hl : lts[i]? = some (root :: rest)) (hwf : Loader.WF (root :: rest))
    (hroot0 : root.path = []) (hdep : ∀ m ∈ rest, m.depth ≠ 0)
    (hdfs : PathsDFS ((root :: rest).map (·.path)))
    (c1 : Complete i (Concurrent.run (initSys st rem lts keys) (pre ++ .start i :: post)))
    (c2 : Complete i (Concurrent.run (initSys st rem lts keys) (.start i :: τ))) :
    resultOf (Concurrent.run (initSys st rem lts keys) (pre ++ .start i :: post)) i
      = resultOf (Concurrent.run (initSys st rem lts keys) (.start i :: τ)) i ∧
    finished (Concurrent.run (initSys st rem lts keys) (pre ++ .start i :: post)) i
      = finished (Concurrent.run (initSys st rem lts keys) (.start i :: τ)) i :=
  partial_shared_store_first st rem lts keys i k pre post τ hst hk hothers hpre hpost hτ hS0
    (fun τ' hτ' => alone_run_clean st rem lts keys i root rest hst hl hwf hroot0 hdep hdfs τ'
      (fun a ha => onlyOf_acts i post hpost a (hτ'.subset ha))) c1 c2

/-! ## the result of the alone run is the reference traversal over the responder's store -/

/-- the invariants of the alone run right after the request was issued (responder holds the root) -/
theorem alone_start_inv (st : List (Cid × Blk)) (rem : List Cid) (lts : List LT) (keys : List (Option Key))
    (i : Nat) (root : LNode) (rest : LT)
    (hst : ∀ c, (storeGet st c).isSome = true → c ∈ rem)
    (hl : lts[i]? = some (root :: rest)) (hwf : Loader.WF (root :: rest))
    (hroot0 : root.path = []) (hdep : ∀ m ∈ rest, m.depth ≠ 0)
    (hdfs : PathsDFS ((root :: rest).map (·.path))) (hrootrem : root.cid ∈ rem) :
    ∃ R, AL R i (Concurrent.step (initSys st rem lts keys) (.start i)) ∧
      EVM i (Concurrent.step (initSys st rem lts keys) (.start i)) ∧
      RES (root :: rest) i (Concurrent.step (initSys st rem lts keys) (.start i)) := by
  have hd0m : ∀ m ∈ root :: rest, m.depth = 0 → m.cid ∈ rem := depth0_of_root rem root rest hdep hrootrem
  cases hroot : storeGet st root.cid with
  | none =>
    obtain ⟨a0, e0⟩ := AL_start st rem lts keys i root rest hl hroot hwf hd0m
    obtain ⟨hP1, _, hP3, _⟩ := reqStart_pk st root rest hroot
    refine ⟨_, a0, e0, RES_of_start st rem lts keys i (root :: rest) (root :: rest) hl ?_ ?_⟩
    · rw [hP1.ph, hP1.todo]; rfl
    · rw [hP3]
      exact resApp_nil_left _
  | some b =>
    have hrh : holds st root.cid = true := by unfold holds; rw [hroot]; rfl
    have hsplit : rest.takeWhile (fun m => holds st m.cid) ++ rest.dropWhile (fun m => holds st m.cid) = rest :=
      List.takeWhile_append_dropWhile
    have htw : ∀ m ∈ rest.takeWhile (fun m => holds st m.cid), holds st m.cid = true :=
      fun m hm => mem_takeWhile_pos (fun m => holds st m.cid) rest m hm
    cases hdw : rest.dropWhile (fun m => holds st m.cid) with
    | nil =>
      have hall := all_of_dropWhile_nil (fun m : LNode => holds st m.cid) rest hdw
      have hcov : GS.C24.Covers st (root :: rest) := by
        intro m hm
        rcases List.mem_cons.mp hm with rfl | hm
        · exact hrh
        · exact hall m hm
      obtain ⟨a0, e0⟩ := AL_start_local st rem lts keys i (root :: rest) hl hcov
      obtain ⟨hP1, hP2⟩ := reqStart_local st (root :: rest) hcov
      refine ⟨_, a0, e0, RES_of_start st rem lts keys i (root :: rest) [] hl ?_ ?_⟩
      · rw [hP1]; rfl
      · rw [hP2]
        have := refEvs_prefix (remf rem) (root :: rest) [] 0
          (fun m hm => by simpa [remf] using hst m.cid (hcov m hm))
        rw [List.append_nil] at this
        exact this.symm
    | cons n post =>
      have hnm : holds st n.cid = false := dropWhile_head_neg (fun m : LNode => holds st m.cid) rest n post hdw
      rw [hdw] at hsplit
      generalize rest.takeWhile (fun m => holds st m.cid) = pre' at hsplit htw
      subst hsplit
      have hdfs' : PathsDFS ((root :: pre').map (·.path)) := by
        have e : (root :: (pre' ++ n :: post)).map (·.path) = (root :: pre').map (·.path) ++ (n :: post).map (·.path) := by
          simp
        rw [e] at hdfs
        exact PathsDFS.prefix _ _ hdfs
      have hheld : ∀ m ∈ root :: pre', holds st m.cid = true := by
        intro m hm
        rcases List.mem_cons.mp hm with rfl | hm
        · exact hrh
        · exact htw m hm
      obtain ⟨a0, e0⟩ := AL_start_prefix st rem lts keys i root pre' n post hl hst hheld hnm hroot0 hdfs' hwf hd0m
      obtain ⟨hP1, _, _, _, hP5⟩ := reqStart_prefix st root pre' n post hheld hnm hroot0 hdfs'
      refine ⟨_, a0, e0, RES_of_start st rem lts keys i (root :: pre' ++ n :: post) (n :: post) hl ?_ ?_⟩
      · rw [hP1.ph, hP1.todo]; rfl
      · rw [hP5, resOfEvs_append]
        have h1 : resOfEvs [Ev.sentNew (pre'.length + 1)] = ([], [], 0) := rfl
        rw [h1, resApp_nil]
        have := refEvs_prefix (remf rem) (root :: pre') (n :: post) 0
          (fun m hm => by simpa [remf] using hst m.cid (hheld m hm))
        exact this.symm

/-- **C20.alone_result_reference** (the RESULT of the alone run does not depend on the local store).  Link
    tree well formed, the responder holds the root, ANY local store `st ⊆ rem`, ANY schedule of the
    request's actions that is complete for it: the delivered nodes, the missing-block errors and the number
    of nodes handed to the caller are the reference traversal of the link tree over the RESPONDER's
    store (`refEvs`: a link is delivered iff the responder holds its block, a missing link is reported and
    its subtree skipped) — the same for every `st`. -/
theorem alone_result_reference (st : List (Cid × Blk)) (rem : List Cid) (lts : List LT) (keys : List (Option Key))
    (i : Nat) (root : LNode) (rest : LT)
    (hst : ∀ c, (storeGet st c).isSome = true → c ∈ rem)
    (hl : lts[i]? = some (root :: rest)) (hwf : Loader.WF (root :: rest))
    (hroot0 : root.path = []) (hdep : ∀ m ∈ rest, m.depth ≠ 0)
    (hdfs : PathsDFS ((root :: rest).map (·.path))) (hrootrem : root.cid ∈ rem)
    (τ : List Act) (hτ : ∀ a ∈ τ, a = .resp i ∨ a = .deliver i)
    (hc : Complete i (Concurrent.run (initSys st rem lts keys) (.start i :: τ))) :
    resultOf (Concurrent.run (initSys st rem lts keys) (.start i :: τ)) i = refEvs (remf rem) (root :: rest) := by
  obtain ⟨R, a0, e0, r0⟩ := alone_start_inv st rem lts keys i root rest hst hl hwf hroot0 hdep hdfs hrootrem
  have hG := (GOK_step _ (.start i) (GOK_init st rem lts keys hst)).1
  obtain ⟨a1, r1⟩ := AL_RES_run R (root :: rest) i τ _ hτ hG a0 e0 r0
  have hcur := cur_complete R i _ a1 hc
  obtain ⟨r1, _⟩ := r1
  have e : Concurrent.run (initSys st rem lts keys) (.start i :: τ)
      = Concurrent.run (Concurrent.step (initSys st rem lts keys) (.start i)) τ := rfl
  rw [e, resultOf_eq]
  rw [hcur, refEvs_nil, resApp_nil, run_rem, step_rem] at r1
  exact r1

/-- **C20.alone_result_store_independent.**  Two local stores within the responder's store, two complete
    schedules of the request alone: the same result. -/
theorem alone_result_store_independent (st st' : List (Cid × Blk)) (rem : List Cid) (lts : List LT) (keys : List (Option Key))
    (i : Nat) (root : LNode) (rest : LT)
    (hst : ∀ c, (storeGet st c).isSome = true → c ∈ rem) (hst' : ∀ c, (storeGet st' c).isSome = true → c ∈ rem)
    (hl : lts[i]? = some (root :: rest)) (hwf : Loader.WF (root :: rest))
    (hroot0 : root.path = []) (hdep : ∀ m ∈ rest, m.depth ≠ 0)
    (hdfs : PathsDFS ((root :: rest).map (·.path))) (hrootrem : root.cid ∈ rem)
    (τ τ' : List Act) (hτ : ∀ a ∈ τ, a = .resp i ∨ a = .deliver i) (hτ' : ∀ a ∈ τ', a = .resp i ∨ a = .deliver i)
    (hc : Complete i (Concurrent.run (initSys st rem lts keys) (.start i :: τ)))
    (hc' : Complete i (Concurrent.run (initSys st' rem lts keys) (.start i :: τ'))) :
    resultOf (Concurrent.run (initSys st rem lts keys) (.start i :: τ)) i
      = resultOf (Concurrent.run (initSys st' rem lts keys) (.start i :: τ')) i := by
  rw [alone_result_reference st rem lts keys i root rest hst hl hwf hroot0 hdep hdfs hrootrem τ hτ hc,
    alone_result_reference st' rem lts keys i root rest hst' hl hwf hroot0 hdep hdfs hrootrem τ' hτ' hc']

/-- **C20.shared_store_result_reference** (property C20 for requests with distinct dedup keys over the SHARED
    default store, in its strongest form).  Any number of requests over one shared store ⊆ responder
    store; request `i` carries a dedup key nobody else carries, its link tree is well formed and the
    responder holds its root.  Under EVERY schedule of the whole system that issues `i` once and is
    complete for it — whatever the other requests do, deliver and store, before and during `i`'s exchange —
    request `i` delivers exactly the nodes, and reports missing exactly the links, of the reference
    traversal of its link tree over the responder's store: every block the responder can supply along
    paths it can traverse, and nothing is reported missing that it holds.  In particular the result is
    the result of the request run alone from ANY store ⊆ rem (`alone_result_reference`). -/
theorem shared_store_result_reference (st : List (Cid × Blk)) (rem : List Cid) (lts : List LT) (keys : List (Option Key))
    (i : Nat) (k : Key) (pre post : List Act) (root : LNode) (rest : LT)
    (hst : ∀ c, (storeGet st c).isSome = true → c ∈ rem)
    (hk : keys.getD i none = some k) (hothers : ∀ j, j ≠ i → keys.getD j none ≠ some k)
    (hpre : ∀ a ∈ pre, Act.idx a ≠ i) (hpost : ∀ a ∈ post, a ≠ .start i)
    (hl : lts[i]? = some (root :: rest)) (hwf : Loader.WF (root :: rest))
    (hroot0 : root.path = []) (hdep : ∀ m ∈ rest, m.depth ≠ 0)
    (hdfs : PathsDFS ((root :: rest).map (·.path))) (hrootrem : root.cid ∈ rem)
    (c1 : Complete i (Concurrent.run (initSys st rem lts keys) (pre ++ .start i :: post))) :
    resultOf (Concurrent.run (initSys st rem lts keys) (pre ++ .start i :: post)) i = refEvs (remf rem) (root :: rest) := by
  obtain ⟨_, a2, _, a4, a5, _⟩ := shared_store_follows_wf st rem lts keys i k pre post root rest hst hk hothers hpre hpost
    hl hwf hroot0 hdep hdfs
  have d1 : Complete i (Concurrent.run (initSys (issueStore st rem lts keys pre) rem lts keys) (.start i :: onlyOf i post)) := by
    unfold Complete at c1 ⊢
    rw [List.getD_eq_getElem?_getD] at c1 ⊢
    rw [← a4, ← a5]; exact c1
  rw [a2]
  exact alone_result_reference (issueStore st rem lts keys pre) rem lts keys i root rest
    (issueStore_sub st rem lts keys pre hst) hl hwf hroot0 hdep hdfs hrootrem (onlyOf i post) (onlyOf_acts i post hpost) d1

/-! ## non-vacuity (test of concrete values)

The system of the example at the end of `C20Shared.lean` (two requests for the DAG 7 -> 3, distinct keys,
one shared store; request 1 is issued when block 7 is already stored): `hd0` holds, the alone run over
the issue-time store `[(7, 7)]` reports nothing missing, and it is complete. -/
example :
    (∀ m ∈ exLT, m.depth = 0 → m.cid ∈ [7, 3]) ∧ (∀ m ∈ exLT.tail, m.depth ≠ 0) ∧
    missingOf ((Concurrent.run (initSys (issueStore [] [7, 3] [exLT, exLT] [some 1, some 2] shPre) [7, 3] [exLT, exLT] [some 1, some 2])
      (.start 1 :: onlyOf 1 shPost)).evs.getD 1 []) = [] ∧
    (Concurrent.run (initSys (issueStore [] [7, 3] [exLT, exLT] [some 1, some 2] shPre) [7, 3] [exLT, exLT] [some 1, some 2])
      (.start 1 :: onlyOf 1 shPost)).chan.getD 1 [] = [] := by
  refine ⟨by decide, by decide, by decide, by decide⟩

/-- the root-missing exchange (`alone_run_regular_wf` outside `alone_run_regular`): the responder holds
    only block 3, the requestor nothing; after `start, resp, resp` the failure status 34 is queued behind
    the root-missing entry while the request is still running; the delivery of the first ends it. -/
example :
    ((Concurrent.run (initSys [] [3] [exLT] [some 1]) [.start 0, .resp 0, .resp 0]).chan.getD 0 []).map (·.status) = [14, 34] ∧
    finished (Concurrent.run (initSys [] [3] [exLT] [some 1]) [.start 0, .resp 0, .resp 0]) 0 = false ∧
    finished (Concurrent.run (initSys [] [3] [exLT] [some 1]) [.start 0, .resp 0, .resp 0, .deliver 0]) 0 = true ∧
    missingOf ((Concurrent.run (initSys [] [3] [exLT] [some 1]) [.start 0, .resp 0, .resp 0, .deliver 0, .deliver 0]).evs.getD 0 [])
      = [(7, [])] := by
  refine ⟨by decide, by decide, by decide, by decide⟩

/-- `alone_run_clean_unheld_root` / `partial_shared_store_unheld_root`: two requests for the DAG 7 -> 3 with
    distinct keys over one initially empty store; request 1 is issued before anything is stored (its root
    is not in the shared store), request 0 stores both blocks while request 1's exchange is under way;
    the link tree is well formed; request 1 delivers both blocks, as alone. -/
example :
    Loader.WF exLT ∧ (∀ m ∈ exLT.tail, m.depth ≠ 0) ∧
    storeGet (issueStore [] [7, 3] [exLT, exLT] [some 1, some 2] [.start 0, .resp 0]) 7 = none ∧
    resultOf (Concurrent.run (initSys [] [7, 3] [exLT, exLT] [some 1, some 2])
      ([.start 0, .resp 0] ++ .start 1 :: [.deliver 0, .resp 1, .resp 0, .deliver 0, .deliver 1, .resp 1, .deliver 1,
        .resp 1, .deliver 1, .resp 0, .deliver 0])) 1 = ([(7, []), (3, [0])], [], 2) := by
  refine ⟨?_, by decide, by decide, by decide⟩
  simp only [exLT, Loader.WF, subOf, skipSub]
  decide

/-- `alone_run_clean_prefix` / `partial_shared_store_prefix`: the system of the example at the end of
    `C20Shared.lean` — request 1 is issued when block 7 (its root) is in the shared store and block 3 is not:
    `N = 1`, the first delivery is consumed by the verifier's replay; hypotheses and result. -/
example :
    Loader.WF exLT ∧ PathsDFS ([(⟨7, [], 0, 1, 0⟩ : LNode)].map (·.path)) ∧
    issueStore [] [7, 3] [exLT, exLT] [some 1, some 2] shPre = [(7, 7)] ∧
    holds [(7, 7)] 7 = true ∧ holds [(7, 7)] 3 = false ∧
    sentSkip ((Concurrent.run (initSys [(7, 7)] [7, 3] [exLT, exLT] [some 1, some 2]) (.start 1 :: onlyOf 1 shPost)).evs.getD 1 [])
      = some 1 ∧
    resultOf (Concurrent.run (initSys [] [7, 3] [exLT, exLT] [some 1, some 2]) (shPre ++ .start 1 :: shPost)) 1
      = ([(7, []), (3, [0])], [], 2) := by
  refine ⟨?_, by decide, by decide, by decide, by decide, by decide, by decide⟩
  simp only [exLT, Loader.WF, subOf, skipSub]
  decide

/-- `alone_run_clean` / `partial_shared_store_wf`: the hypotheses on the link tree hold of `exLT` (and fail of
    `badLT`, the tree of `partial_shared_store_counterexample`: its paths are not in depth-first order) -/
example :
    Loader.WF exLT ∧ (exLT.head?.map (·.path)) = some [] ∧ (∀ m ∈ exLT.tail, m.depth ≠ 0) ∧
    PathsDFS (exLT.map (·.path)) ∧ ¬ PathsDFS (badLT.map (·.path)) := by
  refine ⟨?_, by decide, by decide, by decide, by decide⟩
  simp only [exLT, Loader.WF, subOf, skipSub]
  decide

/-- `shared_store_result_reference`: the reference result of `exLT` over the responder store `[7, 3]`, and the
    result of request 1 in the shared-store run of the example at the end of `C20Shared.lean` -/
example :
    refEvs (remf [7, 3]) exLT = ([(7, []), (3, [0])], [], 2) ∧
    refEvs (remf [7]) exLT = ([(7, [])], [(3, [0])], 1) ∧
    resultOf (Concurrent.run (initSys [] [7, 3] [exLT, exLT] [some 1, some 2]) (shPre ++ .start 1 :: shPost)) 1
      = refEvs (remf [7, 3]) exLT := by
  refine ⟨?_, ?_, ?_⟩ <;> simp [exLT, refEvs, remf, skipSub] <;> decide

end GS.C20
