import GSProofs.Lemmas.RespLifeOutcomeNMgr2
/-!
Outcome accounting, part 2: the steps that involve a publisher — a resolved message, a publisher
micro-step, the manager answering a publisher's call — and the invariant `Inv2` over every step.
-/
namespace GS.RespLife

-- ------------------------------------------------------------------ pending calls
theorem pend_cons (r : Id) (p : Peer) (m : Msg) (mb : List Msg) :
    pend r p (m :: mb) = (closeFrom r p m || pend r p mb) := by simp [pend]

theorem fromN_cons (p : Peer) (m : Msg) (mb : List Msg) :
    fromN p (m :: mb) = fromN p mb + (if anyFrom p m then 1 else 0) := by simp [fromN, List.countP_cons]

theorem anyFrom_of_closeFrom {r : Id} {p : Peer} {m : Msg} (h : closeFrom r p m = true) : anyFrom p m = true := by
  cases m <;> simp_all [closeFrom, anyFrom]

theorem pend_false_of_fromN {r : Id} {p : Peer} {mb : List Msg} (h : fromN p mb = 0) : pend r p mb = false := by
  induction mb with
  | nil => rfl
  | cons m mb ih =>
    rw [fromN_cons] at h
    rw [pend_cons]
    have h1 : fromN p mb = 0 := by omega
    have h2 : anyFrom p m = false := by
      cases ha : anyFrom p m with
      | false => rfl
      | true => rw [ha] at h; simp at h
    have h3 : closeFrom r p m = false := by
      cases hc : closeFrom r p m with
      | false => rfl
      | true => rw [anyFrom_of_closeFrom hc] at h2; cases h2
    rw [h3, ih h1]; rfl

-- ------------------------------------------------------------------ a step at one publisher
/-- publisher `p0`'s queue / calls change without a new confirmation; everything else as in `MStep` -/
structure PStepR (r : Id) (p0 : Peer) (s s' : State) : Prop where
  other : ∀ p, p ≠ p0 → (getMQ s' p).pubQ = (getMQ s p).pubQ ∧ (getMQ s' p).pubWait = (getMQ s p).pubWait ∧
    pend r p s'.mailbox = pend r p s.mailbox ∧ fromN p s'.mailbox = fromN p s.mailbox
  wf0 : wfQ r (pend r p0 s'.mailbox) (getMQ s' p0).pubQ = true
  from0 : fromN p0 s'.mailbox ≤ (if (getMQ s' p0).pubWait then 1 else 0)
  nf : nerrC r s' + cnfQ r (pend r p0 s'.mailbox) (getMQ s' p0).pubQ =
    nerrC r s + cnfQ r (pend r p0 s.mailbox) (getMQ s p0).pubQ
  nerrMono : nerrC r s ≤ nerrC r s'
  ne : ∀ st, rinfo r s' = some (st, true) → ∃ st0, rinfo r s = some (st0, true)
  pot : cancC r s' + EP r s' + PN r s'.park + regs r s ≤ cancC r s + EP r s + PN r s.park + regs r s'

theorem NF_of_pstep {r : Id} {p0 : Peer} {s s' : State} (h : PStepR r p0 s s') : NF r s' ↔ NF r s := by
  have hnf := h.nf
  have hm := h.nerrMono
  unfold NF
  constructor
  · rintro (h1 | ⟨p, h1⟩)
    · by_cases h2 : 1 ≤ nerrC r s
      · exact Or.inl h2
      · exact Or.inr ⟨p0, by omega⟩
    · by_cases hp : p = p0
      · subst hp
        by_cases h2 : 1 ≤ nerrC r s
        · exact Or.inl h2
        · exact Or.inr ⟨p, by omega⟩
      · obtain ⟨e1, _, e3, _⟩ := h.other p hp
        rw [e1, e3] at h1
        exact Or.inr ⟨p, h1⟩
  · rintro (h1 | ⟨p, h1⟩)
    · exact Or.inl (by omega)
    · by_cases hp : p = p0
      · subst hp
        by_cases h2 : 1 ≤ nerrC r s'
        · exact Or.inl h2
        · exact Or.inr ⟨p, by omega⟩
      · obtain ⟨e1, _, e3, _⟩ := h.other p hp
        rw [← e1, ← e3] at h1
        exact Or.inr ⟨p, h1⟩

theorem Inv2.pstep {r : Id} {p0 : Peer} {s s' : State} (hi : Inv2 r s) (h : PStepR r p0 s s') : Inv2 r s' := by
  have hf := NF_of_pstep h
  refine ⟨?_, ?_, ?_, ?_⟩
  · intro p
    by_cases hp : p = p0
    · subst hp; exact ⟨h.wf0, h.from0⟩
    · obtain ⟨e1, e2, e3, e4⟩ := h.other p hp
      rw [e1, e2, e3, e4]
      exact hi.sinv p
  · intro st hst
    obtain ⟨st0, h0⟩ := h.ne st hst
    exact hf.2 (hi.ne st0 h0)
  · have := h.pot; have := hi.pot0; omega
  · intro hn
    have := h.pot; have := hi.potF (hf.1 hn); omega

-- ------------------------------------------------------------------ a resolved message
theorem pstep_appendPub (r : Id) (s : State) (p : Peer) (f : PeerMQ → PeerMQ) (extra : List PStep)
    (hi : Inv2 r s) (hp : ∀ q, (f q).peer = q.peer) (hq : ∀ q, (f q).pubQ = q.pubQ ++ extra)
    (hw : ∀ q, (f q).pubWait = q.pubWait) (hwf : wfQ r false extra = true) (hcn : cnfQ r false extra = 0) :
    PStepR r p s (setMQ s (f (getMQ s p))) := by
  have hpeer : (f (getMQ s p)).peer = p := by rw [hp, getMQ_peer]
  have hself : getMQ (setMQ s (f (getMQ s p))) p = f (getMQ s p) := by rw [getMQ_setMQ, hpeer]; simp
  obtain ⟨h1, h2⟩ := wfQ_append r extra (getMQ s p).pubQ _ (hi.sinv p).1
  refine ⟨?_, ?_, ?_, ?_, Nat.le_refl _, fun st h => ⟨st, h⟩, Nat.le_refl _⟩
  · intro p' hne
    rw [getMQ_setMQ, hpeer, if_neg hne]
    exact ⟨rfl, rfl, rfl, rfl⟩
  · rw [hself, hq]
    show wfQ r (pend r p s.mailbox) _ = true
    rw [h1]; exact hwf
  · rw [hself, hw]; exact (hi.sinv p).2
  · rw [hself, hq]
    show nerrC r s + cnfQ r (pend r p s.mailbox) _ = _
    rw [h2, hcn]; omega

theorem inv2_netResolve {r : Id} {s s' : State} {p : Peer} {ok : Bool} (hi : Inv2 r s)
    (h : netResolve s p ok = some s') : Inv2 r s' := by
  unfold netResolve at h
  simp only at h
  split at h
  · cases h
  · rename_i b hb
    split at h
    · cases h
      have h1 := pstep_appendPub r s p
        (fun q => { q with inflight := none, pubQ := q.pubQ ++ ((b.entries.filter (·.sub)).map sentSteps).flatten })
        _ hi (fun _ => rfl) (fun _ => rfl) (fun _ => rfl)
        (wfQ_neutral_list r _ (neutral_flat_sent r _)).1 (wfQ_neutral_list r _ (neutral_flat_sent r _)).2
      exact (hi.pstep h1).mstep (mstep_release r _ p b.size)
    · cases h
      have hc : Inv2 r (closeStreams s ((b.entries.filter (·.sub)).map (·.id))) :=
        hi.mstep (mstep_field rfl rfl rfl rfl rfl)
      have h1 := pstep_appendPub r (closeStreams s ((b.entries.filter (·.sub)).map (·.id))) p
        (fun q => { q with inflight := none,
                           next := (scrubNext (getMQ s p).next ((b.entries.filter (·.sub)).map (·.id))).1,
                           pubQ := q.pubQ ++ ((b.entries.filter (·.sub)).map errSteps).flatten })
        _ hc (fun _ => rfl) (fun _ => rfl) (fun _ => rfl) (wfQ_flat_err r _).1 (wfQ_flat_err r _).2
      rw [getMQ_closeStreams] at h1
      have h2 := hc.pstep h1
      split
      · exact (h2.mstep (mstep_release r _ p _)).mstep (mstep_release r _ p _)
      · exact h2.mstep (mstep_release r _ p _)

theorem countP_replicate_false {α : Type} (P : α → Bool) (a : α) (h : P a = false) (n : Nat) :
    (List.replicate n a).countP P = 0 := by
  induction n with
  | zero => rfl
  | succ n ih => simp [List.replicate_succ, List.countP_cons, h, ih]

theorem countP_emit (P : Event → Bool) (s : State) (e : Event) :
    (emit s e).events.countP P = s.events.countP P + (if P e then 1 else 0) := by
  simp [emit, List.countP_append, List.countP_cons]

-- ------------------------------------------------------------------ publisher micro-steps
theorem pend_append_list (r : Id) (p : Peer) (mb ms : List Msg) :
    pend r p (mb ++ ms) = (pend r p mb || pend r p ms) := by simp [pend, List.any_append]

theorem fromN_append_list (p : Peer) (mb ms : List Msg) : fromN p (mb ++ ms) = fromN p mb + fromN p ms := by
  simp [fromN, List.countP_append]

theorem fromN_zero_of_all {p : Peer} {ms : List Msg} (h : ∀ m ∈ ms, anyFrom p m = false) : fromN p ms = 0 := by
  induction ms with
  | nil => rfl
  | cons m ms ih =>
    rw [fromN_cons, h m List.mem_cons_self, ih fun x hx => h x (List.mem_cons_of_mem _ hx)]
    rfl

theorem pstep_core (r : Id) (s s' : State) (p : Peer) (st : PStep) (rest : List PStep) (hi : Inv2 r s)
    (hq : (getMQ s p).pubQ = st :: rest) (hw : (getMQ s p).pubWait = false)
    (pw : Bool) (ms : List Msg) (k : Nat)
    (hmq : ∀ p', getMQ s' p' = if p' = p then { (getMQ s p) with pubQ := rest, pubWait := pw } else getMQ s p')
    (hmail : s'.mailbox = s.mailbox ++ ms) (hms : ∀ m ∈ ms, ∀ p', p' ≠ p → anyFrom p' m = false)
    (hfrom : fromN p ms ≤ if pw then 1 else 0)
    (ht : s'.table = s.table) (hpk : s'.park = s.park) (hc : cancC r s' = cancC r s) (hr : regs r s' = regs r s)
    (hn : nerrC r s' = nerrC r s + k)
    (hwf : wfQ r (pend r p ms) rest = true) (hcn : k + cnfQ r (pend r p ms) rest = cnfQ r false (st :: rest)) :
    PStepR r p s s' := by
  obtain ⟨hwf0, hfr0⟩ := hi.sinv p
  rw [hw] at hfr0
  have hf0 : fromN p s.mailbox = 0 := by simpa using hfr0
  have hpd : pend r p s.mailbox = false := pend_false_of_fromN hf0
  have hself : getMQ s' p = { (getMQ s p) with pubQ := rest, pubWait := pw } := by rw [hmq]; simp
  have hpend' : pend r p s'.mailbox = pend r p ms := by rw [hmail, pend_append_list, hpd]; rfl
  refine ⟨?_, ?_, ?_, ?_, by omega, ?_, ?_⟩
  · intro p' hne
    rw [hmq, if_neg hne, hmail, pend_append_list, fromN_append_list]
    have h0 : fromN p' ms = 0 := fromN_zero_of_all fun m hm => hms m hm p' hne
    rw [h0, pend_false_of_fromN h0]
    exact ⟨rfl, rfl, by simp, by omega⟩
  · rw [hpend', hself]; exact hwf
  · rw [hself, hmail, fromN_append_list, hf0]; simpa using hfrom
  · rw [hpend', hself, hn, hpd, hq]
    show nerrC r s + k + cnfQ r (pend r p ms) rest = _
    omega
  · intro st' h
    rw [rinfo_of_table ht] at h
    exact ⟨st', h⟩
  · simp only [EP, hc, hr, hpk, rinfo_of_table ht]
    exact Nat.le_refl _

theorem pstepR_pubStep {r : Id} {s s' : State} {p : Peer} (hi : Inv2 r s) (h : pubStep s p = some s') :
    PStepR r p s s' := by
  unfold pubStep at h
  simp only at h
  split at h
  · cases h
  · rename_i hw
    have hw' : (getMQ s p).pubWait = false := by simpa using hw
    split at h
    · cases h
    · rename_i st rest hq
      have hwfs := (hi.sinv p).1
      have hpd : pend r p s.mailbox = false := by
        have := (hi.sinv p).2
        rw [hw'] at this
        exact pend_false_of_fromN (by simpa using this)
      rw [hpd, hq] at hwfs
      have hmq : ∀ (pw : Bool) (p' : Peer), getMQ (setMQ s { (getMQ s p) with pubQ := rest, pubWait := pw }) p' =
          if p' = p then { (getMQ s p) with pubQ := rest, pubWait := pw } else getMQ s p' := by
        intro pw p'
        rw [getMQ_setMQ]
        show (if p' = (getMQ s p).peer then _ else _) = _
        rw [getMQ_peer]
      cases st with
      | emitBs id n =>
        simp only at h; cases h
        refine (pstep_core r s _ p _ rest hi hq hw' (getMQ s p).pubWait [] 0 (hmq _) (by rw [List.append_nil]; rfl) (by simp) (by simp [fromN]) rfl rfl
          ?_ ?_ ?_ hwfs (by simp [pend, cnfQ]))
        · show List.countP (cancEv r) (s.events ++ List.replicate n (Event.bs id)) = List.countP (cancEv r) s.events
          rw [List.countP_append, countP_replicate_false _ _ rfl]; rfl
        · show List.countP (regEv r) (s.events ++ List.replicate n (Event.bs id)) = List.countP (regEv r) s.events
          rw [List.countP_append, countP_replicate_false _ _ rfl]; rfl
        · show List.countP (nerrEv r) (s.events ++ List.replicate n (Event.bs id)) =
            List.countP (nerrEv r) s.events + 0
          rw [List.countP_append, countP_replicate_false _ _ rfl]
      | emitDone id code =>
        simp only at h; cases h
        exact (pstep_core r s _ p _ rest hi hq hw' (getMQ s p).pubWait [] 0 (hmq _) (by rw [List.append_nil]; rfl) (by simp) (by simp [fromN]) rfl rfl
          (by show (emit _ _).events.countP _ = _; rw [countP_emit]; rfl)
          (by show (emit _ _).events.countP _ = _; rw [countP_emit]; rfl)
          (by show (emit _ _).events.countP _ = _; rw [countP_emit]; rfl) hwfs (by simp [pend, cnfQ]))
      | emitNerr id =>
        simp only at h; cases h
        refine (pstep_core r s _ p _ rest hi hq hw' (getMQ s p).pubWait [] (if id == r then 1 else 0) (hmq _)
          (by rw [List.append_nil]; rfl) (by simp) (by simp [fromN]) rfl rfl
          (by show (emit _ _).events.countP _ = _; rw [countP_emit]; rfl)
          (by show (emit _ _).events.countP _ = _; rw [countP_emit]; rfl)
          (by show (emit _ _).events.countP _ = _; rw [countP_emit]; rfl) ?_ ?_)
        · simp only [wfQ] at hwfs
          show wfQ r false rest = true
          split at hwfs <;> exact hwfs
        · show _ + cnfQ r false rest = _
          simp only [cnfQ]
          split <;> simp
      | callClose id inc =>
        simp only at h; cases h
        have hpm : pend r p [Msg.closeNetErr id inc p] = (id == r) := by simp [pend, closeFrom]
        refine (pstep_core r s _ p _ rest hi hq hw' true [.closeNetErr id inc p] 0 (hmq true) rfl ?_
          (by simp [fromN, anyFrom]) rfl rfl rfl rfl rfl ?_ ?_)
        · intro m hm p' hne
          simp only [List.mem_singleton] at hm; subst hm
          simpa [anyFrom] using fun e => hne e.symm
        · rw [hpm]
          simp only [wfQ] at hwfs
          by_cases hid : (id == r) = true
          · simp only [hid, if_true, Bool.not_false, Bool.true_and] at hwfs ⊢; exact hwfs
          · have hid' : (id == r) = false := by simpa using hid
            simp only [hid', Bool.false_eq_true, if_false] at hwfs ⊢; exact hwfs
        · rw [hpm]
          simp only [cnfQ]
          by_cases hid : (id == r) = true
          · simp [hid]
          · have hid' : (id == r) = false := by simpa using hid
            simp [hid']
      | callTerminate id inc =>
        simp only at h; cases h
        have hpm : pend r p [Msg.terminate id inc p] = false := by simp [pend, closeFrom]
        refine (pstep_core r s _ p _ rest hi hq hw' true [.terminate id inc p] 0 (hmq true) rfl ?_
          (by simp [fromN, anyFrom]) rfl rfl rfl rfl rfl ?_ ?_)
        · intro m hm p' hne
          simp only [List.mem_singleton] at hm; subst hm
          simpa [anyFrom] using fun e => hne e.symm
        · rw [hpm]; exact hwfs
        · rw [hpm]; simp [cnfQ]

theorem inv2_pubStep {r : Id} {s s' : State} {p : Peer} (hi : Inv2 r s) (h : pubStep s p = some s') : Inv2 r s' :=
  hi.pstep (pstepR_pubStep hi h)

-- ------------------------------------------------------------------ the manager handles a message
def pubMsg : Msg → Bool
  | .closeNetErr _ _ _ => true
  | .terminate _ _ _ => true
  | _ => false

theorem anyFrom_false_of_not_pub {m : Msg} (h : pubMsg m = false) (p : Peer) : anyFrom p m = false := by
  cases m <;> simp_all [pubMsg, anyFrom]

theorem mstep_pop (r : Id) (s : State) (m : Msg) (rest : List Msg) (hm : s.mailbox = m :: rest) (h : pubMsg m = false) :
    MStep r s { s with mailbox := rest, handled := s.handled + 1 } := by
  apply MStep.same (s' := { s with mailbox := rest, handled := s.handled + 1 }) <;> try rfl
  · intro p; exact ⟨rfl, rfl⟩
  · intro p
    show pend r p rest = pend r p s.mailbox ∧ fromN p rest = fromN p s.mailbox
    rw [hm, pend_cons, fromN_cons]
    have h1 := anyFrom_false_of_not_pub h p
    have h2 : closeFrom r p m = false := by
      cases hc : closeFrom r p m with
      | false => rfl
      | true => rw [anyFrom_of_closeFrom hc] at h1; cases h1
    rw [h1, h2]; simp

/-- handlers of the messages that do not come from a publisher -/
theorem mstep_handle (r : Id) (s : State) (m : Msg) (hp : s.park = none) (h : pubMsg m = false) :
    MStep r s (handle s m) := by
  cases m with
  | processRequests p q =>
    show MStep r s (if foreign s p q.id = true then s else processRequest s p q)
    split
    · exact MStep.refl r s
    · cases q with
      | new id cfg => exact mstep_newRequest r s p id cfg hp
      | cancel id => exact mstep_abortRequest r s id .ctxCancel hp (by intro h; cases h)
      | update id plan => exact mstep_processUpdate r s id plan hp
  | api c =>
    cases c with
    | pause id =>
      show MStep r s (emit (pauseRequest s id).1 _)
      exact (mstep_pauseRequest r s id).trans (mstep_emit r _ _ rfl rfl rfl)
    | unpause id ext =>
      show MStep r s (if (unpauseRequest s id ext).2.2 = true then (unpauseRequest s id ext).1
        else emit (unpauseRequest s id ext).1 _)
      split
      · exact mstep_unpauseRequest r s id ext hp
      · exact (mstep_unpauseRequest r s id ext hp).trans (mstep_emit r _ _ rfl rfl rfl)
    | cancel id =>
      show MStep r s (emit (abortRequest s id .cancelCmd).1 _)
      exact (mstep_abortRequest r s id .cancelCmd hp (by intro h; cases h)).trans (mstep_emit r _ _ rfl rfl rfl)
    | update id ext =>
      show MStep r s (if (updateRequest s id ext).2.2 = true then (updateRequest s id ext).1
        else emit (updateRequest s id ext).1 _)
      split
      · exact mstep_updateRequest r s id ext hp
      · exact (mstep_updateRequest r s id ext hp).trans (mstep_emit r _ _ rfl rfl rfl)
  | startTask w => exact mstep_startTask r s w hp
  | getUpdates w => exact mstep_getUpdates r s w
  | finishTask w err => exact mstep_finishTask r s w err hp
  | closeNetErr id inc pub => cases h
  | terminate id inc pub => cases h

theorem getMQ_clearPubWait (s : State) (pub p : Peer) :
    getMQ (clearPubWait s pub) p = if p = pub then { (getMQ s pub) with pubWait := false } else getMQ s p := by
  unfold clearPubWait
  simp only
  rw [getMQ_setMQ]
  show (if p = (getMQ s pub).peer then _ else _) = _
  rw [getMQ_peer]

theorem getMQ_dropNerr (s : State) (pub : Peer) (id : Id) (p : Peer) :
    getMQ (dropNerr s pub id) p =
      if p = pub then { (getMQ s pub) with pubQ := (getMQ s pub).pubQ.erase (.emitNerr id) } else getMQ s p := by
  unfold dropNerr
  simp only
  rw [getMQ_setMQ]
  show (if p = (getMQ s pub).peer then _ else _) = _
  rw [getMQ_peer]

/-- the manager answers publisher `pub`: the call `m` leaves the mailbox, the handler's table part is an `MStep`
    from the state without the message, the publisher's queue becomes `q'` -/
theorem pstep_answer (r : Id) (s X s' : State) (m : Msg) (rest : List Msg) (pub : Peer) (q' : List PStep)
    (hi : Inv2 r s) (hm : s.mailbox = m :: rest) (hfrom : anyFrom pub m = true)
    (hother : ∀ p, p ≠ pub → anyFrom p m = false)
    (hX : MStep r { s with mailbox := rest, handled := s.handled + 1 } X)
    (hmq : ∀ p, getMQ s' p = if p = pub then { (getMQ X pub) with pubQ := q', pubWait := false } else getMQ X p)
    (hmail : s'.mailbox = X.mailbox) (ht : s'.table = X.table) (hpk : s'.park = X.park)
    (hev : s'.events = X.events)
    (hwf : wfQ r (closeFrom r pub m) (getMQ s pub).pubQ = true → wfQ r false q' = true)
    (hcn : cnfQ r false q' = cnfQ r (closeFrom r pub m) (getMQ s pub).pubQ) :
    PStepR r pub s s' := by
  have hfr : fromN pub rest = 0 := by
    have := (hi.sinv pub).2
    rw [hm, fromN_cons, hfrom] at this
    simp only [if_true] at this
    split at this <;> omega
  have hpr : pend r pub rest = false := pend_false_of_fromN hfr
  have hpm : pend r pub s.mailbox = closeFrom r pub m := by rw [hm, pend_cons, hpr]; simp
  have hself : getMQ s' pub = { (getMQ X pub) with pubQ := q', pubWait := false } := by rw [hmq]; simp
  have hmailp : ∀ p, pend r p s'.mailbox = pend r p rest ∧ fromN p s'.mailbox = fromN p rest := by
    intro p; rw [hmail]; exact hX.mail p
  have hc : cancC r s' = cancC r X := by simp only [cancC, hev]
  have hn : nerrC r s' = nerrC r X := by simp only [nerrC, hev]
  have hr : regs r s' = regs r X := by simp only [regs, hev]
  refine ⟨?_, ?_, ?_, ?_, ?_, ?_, ?_⟩
  · intro p hne
    rw [hmq, if_neg hne, (hmailp p).1, (hmailp p).2, hm, pend_cons, fromN_cons, hother p hne]
    have h2 : closeFrom r p m = false := by
      cases hc : closeFrom r p m with
      | false => rfl
      | true => have := anyFrom_of_closeFrom hc; rw [hother p hne] at this; cases this
    rw [h2]
    exact ⟨(hX.pub p).1, (hX.pub p).2, by simp, by simp⟩
  · rw [(hmailp pub).1, hpr, hself]
    apply hwf
    rw [← hpm]; exact (hi.sinv pub).1
  · rw [(hmailp pub).2, hfr, hself]; simp
  · rw [(hmailp pub).1, hpr, hself, hn, hX.nerr, hpm]
    show nerrC r s + cnfQ r false q' = _
    rw [hcn]
  · rw [hn, hX.nerr]; exact Nat.le_refl _
  · intro st h
    rw [rinfo_of_table ht] at h
    exact hX.ne st h
  · have := hX.pot
    simp only [EP, hc, hr, hpk, rinfo_of_table ht]
    exact this

theorem inv2_handle_terminate {r : Id} {s : State} {rest : List Msg} {id : Id} {inc : Nat} {pub : Peer}
    (hi : Inv2 r s) (hp : s.park = none) (hm : s.mailbox = .terminate id inc pub :: rest) :
    Inv2 r (handle { s with mailbox := rest, handled := s.handled + 1 } (.terminate id inc pub)) := by
  rw [handle_terminate]
  generalize hX0 : (if isInc { s with mailbox := rest, handled := s.handled + 1 } id inc = true
    then terminate { s with mailbox := rest, handled := s.handled + 1 } id
    else { s with mailbox := rest, handled := s.handled + 1 }) = X
  have hX : MStep r { s with mailbox := rest, handled := s.handled + 1 } X := by
    rw [← hX0]; split
    · exact mstep_terminate r _ id hp
    · exact MStep.refl r _
  refine hi.pstep (pstep_answer r s X (clearPubWait X pub) _ rest pub (getMQ X pub).pubQ hi hm (by simp [anyFrom])
    (by intro p hne; simpa [anyFrom] using fun e => hne e.symm) hX (getMQ_clearPubWait X pub) rfl rfl rfl rfl ?_ ?_)
  · intro h
    rw [(hX.pub pub).1]
    exact h
  · rw [(hX.pub pub).1]
    rfl

theorem lookup_modAux (s : State) (id : Id) (f : Aux → Aux) (r : Id) :
    lookup (modAux s id f) r = (lookup s r).map fun x => if x.id == id then { x with aux := f x.aux } else x := by
  unfold lookup modAux
  exact lookup_map s id r (fun x => { x with aux := f x.aux }) (fun _ => rfl)

theorem isInc_lookup {s : State} {id : Id} {inc : Nat} (h : isInc s id inc = true) : ∃ x, lookup s id = some x := by
  unfold isInc at h
  cases hl : lookup s id with
  | none => rw [hl] at h; cases h
  | some x => exact ⟨x, rfl⟩

/-- CloseWithNetworkError for a response that exists: the result is `ok`, and afterwards the response is gone or
    marked failed -/
theorem abort_network_ok (r : Id) (s : State) {x : Resp} (hl : lookup s r = some x) (hp : s.park = none) :
    (abortRequest s r .network).2 = .ok ∧ aliveW (rinfo r (abortRequest s r .network).1) = 0 ∧
      cancC r (abortRequest s r .network).1 = cancC r s ∧ nerrC r (abortRequest s r .network).1 = nerrC r s ∧
      regs r (abortRequest s r .network).1 = regs r s ∧ (abortRequest s r .network).1.park = none ∧
      (∀ p, getMQ (abortRequest s r .network).1 p = getMQ s p) ∧
      (abortRequest s r .network).1.mailbox = s.mailbox := by
  unfold abortRequest
  rw [hl]
  simp only
  have hne : (Sig.network != Sig.network) = false := by decide
  simp only [hne, Bool.and_false, Bool.false_eq_true, if_false]
  have ht1 : (removeTask s x.peer r).table = s.table := table_removeTask s x.peer r
  have hq1 : ∀ p, getMQ (removeTask s x.peer r) p = getMQ s p := by
    intro p; unfold removeTask; simp only; split <;> rfl
  have hm1 : (removeTask s x.peer r).mailbox = s.mailbox := by unfold removeTask; simp only; split <;> rfl
  have he1 : (removeTask s x.peer r).events = s.events := by unfold removeTask; simp only; split <;> rfl
  have hp1 : (removeTask s x.peer r).park = none := by rw [park_removeTask]; exact hp
  generalize removeTask s x.peer r = s1 at ht1 hq1 hm1 he1 hp1
  split
  · refine ⟨rfl, ?_, ?_, ?_, ?_, ?_, ?_, ?_⟩
    · rw [rinfo_terminate]; rfl
    · rw [cancC_terminate]; simp only [cancC, he1]
    · have := (mstep_terminate r s1 r hp1).nerr
      rw [this]; simp only [nerrC, he1]
    · rw [regs_terminate]; simp only [regs, he1]
    · rw [park_terminate]; exact hp1
    · intro p
      have : getMQ (terminate s1 r) p = getMQ s1 p := by
        unfold terminate; split <;> rfl
      rw [this]; exact hq1 p
    · have : (terminate s1 r).mailbox = s1.mailbox := by unfold terminate; split <;> rfl
      rw [this]; exact hm1
  · rename_i hrun
    have hrun' : x.state = .running := by simpa using hrun
    refine ⟨rfl, ?_, ?_, ?_, ?_, hp1, hq1, hm1⟩
    · have hl1 : lookup s1 r = some x := by rw [lookup_of_table ht1]; exact hl
      have : rinfo r (modAux s1 r fun a =>
          if (if (Sig.network == Sig.network) = true then { a with netErr := true } else a).sigErr.isNone = true then
            { (if (Sig.network == Sig.network) = true then { a with netErr := true } else a) with sigErr := some .network }
          else (if (Sig.network == Sig.network) = true then { a with netErr := true } else a)) =
          some (.running, true) := by
        unfold rinfo
        rw [lookup_modAux, hl1]
        have hx : x.id = r := (lookup_some (s := s1) hl1).2
        simp only [Option.map_some, hx, beq_self_eq_true, if_true, hrun']
        split <;> rfl
      rw [this]; rfl
    · show cancC r s1 = cancC r s; simp only [cancC, he1]
    · show nerrC r s1 = nerrC r s; simp only [nerrC, he1]
    · show regs r s1 = regs r s; simp only [regs, he1]

theorem getMQ_drop_clear (X : State) (pub : Peer) (id : Id) (p : Peer) :
    getMQ (dropNerr (clearPubWait X pub) pub id) p =
      if p = pub then { (getMQ X pub) with pubQ := (getMQ X pub).pubQ.erase (.emitNerr id), pubWait := false }
      else getMQ X p := by
  rw [getMQ_dropNerr]
  by_cases hp : p = pub
  · subst hp
    simp only [if_true]
    rw [getMQ_clearPubWait]
    simp
  · simp only [hp, if_false]
    rw [getMQ_clearPubWait, if_neg hp]

theorem inv2_handle_closeNetErr {r : Id} {s : State} {rest : List Msg} {id : Id} {inc : Nat} {pub : Peer}
    (hi : Inv2 r s) (hp : s.park = none) (hm : s.mailbox = .closeNetErr id inc pub :: rest) :
    Inv2 r (handle { s with mailbox := rest, handled := s.handled + 1 } (.closeNetErr id inc pub)) := by
  rw [handle_closeNetErr]
  have hany : anyFrom pub (.closeNetErr id inc pub) = true := by simp [anyFrom]
  have hoth : ∀ p, p ≠ pub → anyFrom p (.closeNetErr id inc pub) = false := by
    intro p hne; simpa [anyFrom] using fun e => hne e.symm
  generalize hs0 : ({ s with mailbox := rest, handled := s.handled + 1 } : State) = s0
  have hp0 : s0.park = none := by rw [← hs0]; exact hp
  have hq0 : ∀ p, getMQ s0 p = getMQ s p := by intro p; rw [← hs0]; rfl
  by_cases hid : id = r
  · subst hid
    have hcf : closeFrom id pub (.closeNetErr id inc pub) = true := by simp [closeFrom]
    split
    · -- the response exists: the network error is confirmed
      rename_i hinc
      obtain ⟨x, hl⟩ := isInc_lookup hinc
      obtain ⟨hok, hal, hc, hn, hr, hpk, hq, hmb⟩ := abort_network_ok id s0 hl hp0
      rw [hok]
      simp only [beq_self_eq_true, if_true]
      generalize (abortRequest s0 id .network).1 = X at hal hc hn hr hpk hq hmb
      -- the publisher's view
      have hfr : fromN pub rest = 0 := by
        have := (hi.sinv pub).2
        rw [hm, fromN_cons, hany] at this
        simp only [if_true] at this
        split at this <;> omega
      have hpm : pend id pub s.mailbox = true := by rw [hm, pend_cons, hcf]; rfl
      have hwf := (hi.sinv pub).1
      rw [hpm] at hwf
      obtain ⟨hwf', hcn'⟩ := wfQ_confirm id _ hwf
      have hXmail : X.mailbox = rest := by rw [hmb, ← hs0]
      have hmq : ∀ p, getMQ (clearPubWait X pub) p =
          if p = pub then { (getMQ s pub) with pubWait := false } else getMQ s p := by
        intro p; rw [getMQ_clearPubWait, hq, hq0, hq, hq0]
      have hcounts : cancC id (clearPubWait X pub) = cancC id s ∧ nerrC id (clearPubWait X pub) = nerrC id s ∧
          regs id (clearPubWait X pub) = regs id s := by
        have e0 : cancC id s0 = cancC id s ∧ nerrC id s0 = nerrC id s ∧ regs id s0 = regs id s := by
          rw [← hs0]; exact ⟨rfl, rfl, rfl⟩
        exact ⟨hc.trans e0.1, hn.trans e0.2.1, hr.trans e0.2.2⟩
      have hNF : NF id (clearPubWait X pub) := by
        right
        refine ⟨pub, ?_⟩
        rw [hmq]
        simp only [if_true]
        show 1 ≤ cnfQ id (pend id pub X.mailbox) (getMQ s pub).pubQ
        rw [hXmail, pend_false_of_fromN hfr, hcn']
        omega
      have hEP : EP id (clearPubWait X pub) = 0 := by
        show (if parkErr id X.park then 1 else aliveW (rinfo id X)) = 0
        rw [hpk, hal]; rfl
      have hPN : PN id (clearPubWait X pub).park = 0 := by
        show PN id X.park = 0
        rw [hpk]; rfl
      refine ⟨?_, fun _ _ => hNF, ?_, ?_⟩
      · intro p
        rw [hmq]
        show wfQ id (pend id p X.mailbox) _ = true ∧ fromN p X.mailbox ≤ _
        rw [hXmail]
        by_cases hpp : p = pub
        · subst hpp
          simp only [if_true]
          rw [pend_false_of_fromN hfr, hfr]
          exact ⟨hwf', Nat.zero_le _⟩
        · simp only [hpp, if_false]
          have h1 := hi.sinv p
          rw [hm, pend_cons, fromN_cons, hoth p hpp] at h1
          have h2 : closeFrom id p (.closeNetErr id inc pub) = false := by
            simpa [closeFrom] using fun e => hpp e.symm
          rw [h2] at h1
          simpa using h1
      · rw [hcounts.1, hcounts.2.2, hEP, hPN]
        have := hi.pot0
        omega
      · intro _
        rw [hcounts.1, hcounts.2.2, hEP, hPN]
        by_cases hnf : NF id s
        · have := hi.potF hnf; omega
        · -- not confirmed before: the response was alive and not failed
          have hri : rinfo id s = some (x.state, x.aux.netErr) := by
            have : lookup s id = some x := by rw [← hs0] at hl; exact hl
            exact rinfo_lookup this
          have hne : x.aux.netErr = false := by
            cases hb : x.aux.netErr with
            | false => rfl
            | true => rw [hb] at hri; exact absurd (hi.ne _ hri) hnf
          have hEPs : EP id s = 1 := by
            simp only [EP, hp, hri, hne]
            cases x.state <;> rfl
          have := hi.pot0
          omega
    · -- no such response: the publisher drops its `emitNerr`
      refine hi.pstep (pstep_answer id s s0 (dropNerr (clearPubWait s0 pub) pub id) _ rest pub
        ((getMQ s0 pub).pubQ.erase (.emitNerr id)) hi hm hany hoth (by rw [← hs0]; exact MStep.refl id _)
        (getMQ_drop_clear s0 pub id) rfl rfl rfl rfl ?_ ?_)
      · intro h
        rw [hcf] at h
        rw [hq0]
        exact (wfQ_erase_open id _ h).1
      · rw [hcf, hq0]
        have hwf := (hi.sinv pub).1
        have hpm : pend id pub s.mailbox = true := by rw [hm, pend_cons, hcf]; rfl
        rw [hpm] at hwf
        exact (wfQ_erase_open id _ hwf).2
  · -- a call about another request
    have hcf : closeFrom r pub (.closeNetErr id inc pub) = false := by simp [closeFrom, hid]
    have hab : MStep r s0 (abortRequest s0 id .network).1 := mstep_abortRequest r s0 id .network hp0 (fun _ => hid)
    have hs0' : MStep r { s with mailbox := rest, handled := s.handled + 1 } s0 := by rw [hs0]; exact MStep.refl r _
    split
    · generalize (abortRequest s0 id .network).1 = X at hab
      split
      · refine hi.pstep (pstep_answer r s X (clearPubWait X pub) _ rest pub (getMQ X pub).pubQ hi hm hany hoth
          (hs0'.trans hab) (getMQ_clearPubWait X pub) rfl rfl rfl rfl ?_ ?_)
        · intro h
          rw [hcf] at h
          rw [(hab.pub pub).1, hq0]; exact h
        · rw [hcf, (hab.pub pub).1, hq0]
      · refine hi.pstep (pstep_answer r s X (dropNerr (clearPubWait X pub) pub id) _ rest pub
          ((getMQ X pub).pubQ.erase (.emitNerr id)) hi hm hany hoth (hs0'.trans hab) (getMQ_drop_clear X pub id)
          rfl rfl rfl rfl ?_ ?_)
        · intro h
          rw [hcf] at h
          rw [(hab.pub pub).1, hq0, (wfQ_erase_other r hid _ _).1]; exact h
        · rw [hcf, (hab.pub pub).1, hq0, (wfQ_erase_other r hid _ _).2]
    · refine hi.pstep (pstep_answer r s s0 (dropNerr (clearPubWait s0 pub) pub id) _ rest pub
        ((getMQ s0 pub).pubQ.erase (.emitNerr id)) hi hm hany hoth hs0' (getMQ_drop_clear s0 pub id)
        rfl rfl rfl rfl ?_ ?_)
      · intro h
        rw [hcf] at h
        rw [hq0, (wfQ_erase_other r hid _ _).1]; exact h
      · rw [hcf, hq0, (wfQ_erase_other r hid _ _).2]

-- ------------------------------------------------------------------ every step
theorem inv2_mgrStep {r : Id} {s s' : State} (hi : Inv2 r s) (h : mgrStep s = some s') : Inv2 r s' := by
  unfold mgrStep at h
  split at h
  · rename_i pk hpk
    split at h
    · cases h; exact hi.mstep (mstep_resumeMgr r s pk hpk)
    · cases h
  · rename_i hpk
    split at h
    · cases h
    · rename_i m rest hm
      cases h
      by_cases hpub : pubMsg m = true
      · cases m with
        | closeNetErr id inc pub => exact inv2_handle_closeNetErr hi hpk hm
        | terminate id inc pub => exact inv2_handle_terminate hi hpk hm
        | _ => simp [pubMsg] at hpub
      · have hpub' : pubMsg m = false := by simpa using hpub
        exact (hi.mstep (mstep_pop r s m rest hm hpub')).mstep (mstep_handle r _ m hpk hpub')

theorem inv2_step {r : Id} {s s' : State} {a : Action} (hi : Inv2 r s) (h : step s a = some s') : Inv2 r s' := by
  cases a with
  | recv p q =>
    simp only [step, Option.some.injEq] at h
    subst h
    exact hi.mstep (mstep_recv r s p q _)
  | api c =>
    simp only [step, Option.some.injEq] at h
    subst h
    exact hi.mstep (mstep_api r s c)
  | mgr => exact inv2_mgrStep hi h
  | pop p id => exact hi.mstep (mstep_popTask r h)
  | reap p => exact hi.mstep (mstep_reap r h)
  | wstep w pick => exact hi.mstep (mstep_wstep r h)
  | extract p => exact hi.mstep (mstep_extract r h)
  | net p ok => exact inv2_netResolve hi h
  | pub p => exact inv2_pubStep hi h
  | primer p =>
    simp only [step, Option.some.injEq] at h
    subst h
    exact hi.mstep (mstep_primer r s p)
  | thaw =>
    simp only [step, Option.some.injEq] at h
    subst h
    exact hi.mstep (mstep_thawAll r s)

theorem inv2_init (c : Cfg) (r : Id) : Inv2 r (init c) := by
  refine ⟨fun p => ⟨rfl, Nat.zero_le _⟩, ?_, Nat.zero_le _, ?_⟩
  · intro st h
    have : rinfo r (init c) = none := rfl
    rw [this] at h; cases h
  · rintro (h | ⟨p, h⟩)
    · have : nerrC r (init c) = 0 := rfl
      omega
    · have : cnfQ r (pend r p (init c).mailbox) (getMQ (init c) p).pubQ = 0 := rfl
      omega

/-- **the second invariant holds in every reachable state** (no hypothesis on request ids) -/
theorem inv2_reachable {c : Cfg} {s : State} (h : Reachable c s) (r : Id) : Inv2 r s := by
  induction h with
  | init => exact inv2_init c r
  | step _ hs ih => exact inv2_step ih hs

end GS.RespLife
