import GS.Model.BudgetRun
import GS.Driver.Proto
/-!
Line-protocol driver for the link-budget model (components `budget` and `budgetstack`, C07).

ops (one output line each):
  dag <seed> <maxBlocks> <flags> <selkind>     -> `ok`   (the Go side rebuilds the DAG from this)
  trav <N|-> <held|*> <LT>                     -> `loads=<n> out=<ok|budget|rootmissing> seq=<c,c,…|->`
        N = int64 LinkBudget given to the TraversalBuilder (`-` = nil budget);
        held = comma separated block numbers the store holds (`*` = all, `-` = none)
  stack <req|resp> <global> <perReq> <LT>      -> `loads=<n> out=<…>`   (complete store)
  stackskip req <global> <perReq> <k> <LT>     -> `loads=<n> out=<…>`   (requestor resumes after k blocks)
  stackseq <req|resp> <global> <p1,p2,…> <LT>  -> `loads=<n1,n2,…> out=<o1,o2,…>`  (successive requests between one pair of
        instances; the model is stateless across requests: each is `serve` with its own per-request limit)
LT prefix form: <block> <number of children> child*
-/
namespace GS.Driver.Budget
open GS.Proto GS.Budget

def parseLT : Nat → Toks → Option (LT × Toks)
  | 0, _ => none
  | fuel + 1, b :: k :: rest =>
    match b.toNat?, k.toNat? with
    | some b, some k =>
      let rec kids (n : Nat) (ts : Toks) (acc : List LT) : Option (List LT × Toks) :=
        match n with
        | 0 => some (acc.reverse, ts)
        | n + 1 =>
          match parseLT fuel ts with
          | some (t, ts') => kids n ts' (t :: acc)
          | none => none
      (kids k rest []).map fun (ks, ts) => (.node b ks, ts)
    | _, _ => none
  | _, _ => none

def parseHeld (s : String) : Option (Cid → Bool) :=
  if s == "*" then some fun _ => true
  else if s == "-" then some fun _ => false
  else
    let parts := (s.splitOn ",").map String.toNat?
    if parts.all Option.isSome then
      let xs := parts.filterMap id
      some fun c => xs.contains c
    else none

def showOutcome : Outcome → String
  | .ok => "ok"
  | .budgetExceeded => "budget"
  | .rootMissing => "rootmissing"

def showSeq (xs : List Nat) : String := if xs.isEmpty then "-" else natList xs

def stepLine (t : Toks) : String :=
  match t with
  | ["dag", _, _, _, _] => "ok"
  | "trav" :: n :: held :: rest =>
    let budget : Option (Option Int) := if n == "-" then some none else n.toInt?.map some
    match budget, parseHeld held, parseLT (rest.length + 1) rest with
    | some b, some avail, some (lt, []) =>
      let r := traverse avail b lt
      s!"loads={r.loads.length} out={showOutcome r.outcome} seq={showSeq r.loads}"
    | _, _, _ => "bad-op"
  | "stack" :: side :: g :: p :: rest =>
    let sd : Option Side := if side == "req" then some .requestor else if side == "resp" then some .responder else none
    match sd, g.toNat?, p.toNat?, parseLT (rest.length + 1) rest with
    | some sd, some g, some p, some (lt, []) =>
      let r := serve sd (fun _ => true) g p lt
      s!"loads={r.loads.length} out={showOutcome r.outcome}"
    | _, _, _, _ => "bad-op"
  | "stackskip" :: "req" :: g :: p :: k :: rest =>
    -- a resumed transfer (do-not-send-first-blocks = k): the budget is unaffected by k
    match g.toNat?, p.toNat?, k.toNat?, parseLT (rest.length + 1) rest with
    | some g, some p, some _, some (lt, []) =>
      let r := serve .requestor (fun _ => true) g p lt
      s!"loads={r.loads.length} out={showOutcome r.outcome}"
    | _, _, _, _ => "bad-op"
  | "stackseq" :: side :: g :: ps :: rest =>
    let sd : Option Side := if side == "req" then some .requestor else if side == "resp" then some .responder else none
    let pers := (ps.splitOn ",").map String.toNat?
    match sd, g.toNat?, parseLT (rest.length + 1) rest with
    | some sd, some g, some (lt, []) =>
      if pers.all Option.isSome && pers.length ≤ 6 then
        let rs := (pers.filterMap id).map fun p => serve sd (fun _ => true) g p lt
        s!"loads={",".intercalate (rs.map fun r => toString r.loads.length)} out={",".intercalate (rs.map fun r => showOutcome r.outcome)}"
      else "bad-op"
    | _, _, _ => "bad-op"
  | _ => "bad-op"

def handler (ops : List Toks) : List String := ops.map stepLine

end GS.Driver.Budget
