package main

import (
	_ "verifharness/msgqueue"
	"verifharness/reg"
)

func main() { reg.Main("msgqueue") }
