import GSProofs.Lemmas.ConcurrentSharedSys
import GSProofs.Lemmas.LoaderSched
import GSProofs.Lemmas.PauseLate
/-!
Property C20, the "regularity" clauses of `CleanAt` as invariants of the executor (requestor side).

`RI r`: the request context is not cancelled, and a request whose executor is running (= parked in
`waitRemote`, between two operations of the model) has been sent and has a node at its cursor.
`request` establishes it from a fresh state, `message` keeps it as long as no failure status is
delivered to a running request.  The auxiliary fact used inside `drive`: an executor that has not sent
its request has an OFFLINE loader, and a load on an offline loader never parks.
-/
namespace GS.C20
open GS.Loader GS.Requestor GS.LinkTrack GS.Concurrent

/-- a load parks only on an open (online) loader -/
theorem load_blocked_open (l : Loader.State) (p : Path) (c : Cid) (h : (Loader.load l p c).2 = .blocked) :
    l.isOpen = true := by
  cases ho : l.isOpen with
  | true => rfl
  | false =>
    exfalso
    unfold Loader.load at h
    split at h
    · exact run_closed _ p c (by simpa using ho) h
    · exact run_closed l p c ho h

theorem loadNode_frame (s : Requestor.State) (n : LNode) :
    (loadNode s n).1.ctxCancelled = s.ctxCancelled ∧ (loadNode s n).1.phase = s.phase ∧
    (loadNode s n).1.todo = s.todo := by
  unfold loadNode
  split
  · exact ⟨rfl, rfl, rfl⟩
  · split
    · split <;> exact ⟨rfl, rfl, rfl⟩
    · exact ⟨rfl, rfl, rfl⟩

/-- `loadNode` keeps "not sent ⇒ offline", and it parks only with the request sent -/
theorem loadNode_off (s : Requestor.State) (n : LNode) (hoff : s.requestSent = false → s.L.isOpen = false) :
    ((loadNode s n).1.requestSent = false → (loadNode s n).1.L.isOpen = false) ∧
    ((loadNode s n).2.2 = none → (loadNode s n).1.requestSent = true) := by
  have hio := GS.C06.load_isOpen s.L n.path n.cid
  unfold loadNode
  split
  · rename_i l1 hl
    have hb : (Loader.load s.L n.path n.cid).2 = .blocked := by rw [hl]
    have hopen := load_blocked_open _ _ _ hb
    have hs : s.requestSent = true := by
      cases h : s.requestSent with
      | true => rfl
      | false => rw [hoff h] at hopen; cases hopen
    exact ⟨fun h => (by simp only at h; rw [hs] at h; cases h), fun _ => hs⟩
  · rename_i l1 r hl
    rw [hl] at hio
    split
    · split
      · exact ⟨fun h => (by cases h), fun _ => rfl⟩
      · exact ⟨fun h => (by cases h), fun _ => rfl⟩
    · refine ⟨fun h => ?_, fun h => by cases h⟩
      simp only at h ⊢
      rw [hio]; exact hoff h

/-- a `handle` that ends the traversal ends the request; the cancel flag is not touched -/
theorem handle_false (s : Requestor.State) (n : LNode) (rest : LT) (r : Result) (h : (handle s n rest r).2.2 = false) :
    (handle s n rest r).1.phase = .finished ∧ (handle s n rest r).1.ctxCancelled = s.ctxCancelled := by
  unfold handle at h ⊢
  cases hr : r.err with
  | none => rw [hr] at h; cases h
  | some e =>
    rw [hr] at h
    simp only at h ⊢
    split
    · exact ⟨rfl, rfl⟩
    · rename_i hcc
      simp only [hcc] at h
      cases e with
      | missing c p =>
        simp only at h ⊢
        split
        · exact ⟨rfl, rfl⟩
        · rename_i hd
          simp only [hd] at h
          cases h
      | incorrect a b c => exact ⟨rfl, rfl⟩
      | extraData => exact ⟨rfl, rfl⟩
      | nothingLeft => exact ⟨rfl, rfl⟩
      | retryNone => exact ⟨rfl, rfl⟩

/-- the requestor-side part of `CleanAt` -/
structure RI (r : Requestor.State) : Prop where
  ctx : r.ctxCancelled = false
  run : r.phase = .running → r.requestSent = true ∧ r.todo ≠ []

theorem RI_withL (r : Requestor.State) (l : Loader.State) (h : RI r) : RI { r with L := l } := ⟨h.ctx, h.run⟩

theorem drive_RI : ∀ (f : Nat) (s : Requestor.State), s.todo.length + 1 ≤ f → s.ctxCancelled = false →
    (s.requestSent = false → s.L.isOpen = false) → RI (drive f s).1 := by
  intro f
  induction f with
  | zero => intro s h; omega
  | succ f ih =>
    intro s hlen hc hoff
    rw [drive_succ]
    by_cases hp : (s.phase != Phase.running) = true
    · rw [if_pos hp]
      refine ⟨hc, fun h => ?_⟩
      simp only at h
      rw [h] at hp
      cases hp
    · rw [if_neg hp]
      cases ht : s.todo with
      | nil => exact ⟨hc, fun h => by cases h⟩
      | cons n rest =>
        simp only
        have hf := loadNode_frame s n
        have ho := loadNode_off s n hoff
        cases hl : loadNode s n with
        | mk s1 x =>
          obtain ⟨ev1, o⟩ := x
          rw [hl] at hf ho
          simp only at hf ho ⊢
          cases o with
          | none =>
            refine ⟨hf.1.trans hc, fun _ => ⟨ho.2 rfl, ?_⟩⟩
            show s1.todo ≠ []
            rw [hf.2.2, ht]
            exact List.cons_ne_nil _ _
          | some r =>
            simp only
            cases hh : handle s1 n rest r with
            | mk s2 y =>
              obtain ⟨evs, b⟩ := y
              cases b with
              | true =>
                simp only
                have h1 := handle_true s1 n rest r (by rw [hh])
                have h2 := GS.C06.handle_todo s1 n rest r s2 evs hh
                rw [hh] at h1
                simp only at h1
                rw [ht] at hlen
                simp only [List.length_cons] at hlen
                have := ih s2 (by omega) (h1.2.2.1.trans (hf.1.trans hc)) (by rw [h1.1, h1.2.1]; exact ho.1)
                generalize drive f s2 = d at this ⊢
                obtain ⟨s3, e3⟩ := d
                exact this
              | false =>
                simp only
                have h1 := handle_false s1 n rest r (by rw [hh])
                rw [hh] at h1
                simp only at h1
                exact ⟨h1.2.trans (hf.1.trans hc), fun h => by rw [h1.1] at h; cases h⟩

/-- issuing the request from a state whose loader is offline -/
theorem request_RI (s : Requestor.State) (lt : LT) (u : Nat) (hc : s.ctxCancelled = false) (ho : s.L.isOpen = false) :
    RI (request s lt u).1 := by
  unfold request
  exact drive_RI _ _ (by simp [fuelFor]) hc (fun _ => ho)

theorem resume_RI (s : Requestor.State) (h : RI s) (hs : s.requestSent = true) : RI (resume s).1 := by
  obtain ⟨L, todo, ph, sent, nb, us, cc, te⟩ := s
  have hctx := h.ctx
  simp only at hs hctx
  subst hs
  subst hctx
  unfold resume
  simp only
  cases hw : Loader.wake L with
  | mk l1 o =>
    cases o with
    | none => exact ⟨h.ctx, h.run⟩
    | some r =>
      simp only
      cases todo with
      | nil => exact ⟨h.ctx, h.run⟩
      | cons n rest =>
        simp only
        generalize hs0 : Requestor.State.mk l1 (n :: rest) ph true nb us false te = s0
        have hc0 : s0.ctxCancelled = false := by rw [← hs0]
        have hr0 : s0.requestSent = true := by rw [← hs0]
        cases hh : handle s0 n rest r with
        | mk s2 y =>
          obtain ⟨evs, b⟩ := y
          cases b with
          | true =>
            simp only
            have h1 := handle_true s0 n rest r (by rw [hh])
            rw [hh] at h1
            simp only at h1
            have := drive_RI (fuelFor s2) s2 (by simp [fuelFor]) (h1.2.2.1.trans hc0)
              (fun hx => by rw [h1.2.1, hr0] at hx; cases hx)
            generalize drive (fuelFor s2) s2 = d at this ⊢
            obtain ⟨s3, e3⟩ := d
            exact this
          | false =>
            simp only
            have h1 := handle_false s0 n rest r (by rw [hh])
            rw [hh] at h1
            simp only at h1
            exact ⟨h1.2.trans hc0, fun hx => by rw [h1.1] at hx; cases hx⟩

/-- a response message that does not fail a running request keeps `RI` -/
theorem message_RI (s : Requestor.State) (status : Nat) (md : List (Cid × Action)) (bl : List (Cid × Blk))
    (h : RI s) (hnf : s.phase = .running → isFailure status = false) :
    RI (message s true true status md bl).1 := by
  unfold message
  by_cases hp : s.phase = .running
  · have hnf' := hnf hp
    obtain ⟨hs, hne⟩ := h.run hp
    have hcond : (s.phase != Phase.running || !true || !true) = false := by simp [hp]
    rw [hcond]
    simp only [Bool.false_eq_true, if_false]
    obtain ⟨a1, a2, _, a4⟩ := applyStatus_fields { s with L := Loader.ingest s.L md bl } status hnf'
    have hph : (applyStatus { s with L := Loader.ingest s.L md bl } status).phase = s.phase := by
      unfold applyStatus
      split
      · split <;> rfl
      · rfl
    apply resume_RI
    · refine ⟨a2.trans h.ctx, fun _ => ⟨a1.trans hs, ?_⟩⟩
      rw [a4]; exact hne
    · exact a1.trans hs
  · have hcond : (s.phase != Phase.running || !true || !true) = true := by simp [hp]
    rw [hcond]
    simp only [if_true]
    exact h

end GS.C20
