import GS.Model.RespLifecycle
/-!
Frame lemmas for the responder lifecycle model: which functions leave the "registry" projection
`pi` (table keys, protected tags, Protect/Unprotect log, ids seen, `new` messages still in the
mailbox, a parked `newRequest`) unchanged.  Everything except `recv`, `newRequest`/`newReqFinish`
and `terminate` does.
-/
namespace GS.RespLife

def isProtEv : Event → Bool
  | .protect _ _ => true
  | .unprotect _ _ => true
  | _ => false

/-- ids of the `new` requests still waiting in a mailbox -/
def newIds (mb : List Msg) : List (Peer × Id) :=
  mb.filterMap fun
    | .processRequests p (.new id _) => some (p, id)
    | _ => none

/-- the (peer, id) of a `newRequest` whose manager step is parked -/
def parkNew (pk : Option MgrPark) : Option (Peer × Id) :=
  match pk with
  | some k => (match k.cont with
    | .newReq p id _ => some (p, id)
    | _ => none)
  | none => none

def keys (s : State) : List (Peer × Id) := s.table.map fun r => (r.peer, r.id)

/-- the parked manager step, without its `granted` flag -/
def parkCore (pk : Option MgrPark) : Option (MgrCont × Peer × Id × List TxOp) :=
  pk.map fun k => (k.cont, k.peer, k.id, k.ops)

structure Pi where
  keys : List (Peer × Id)
  prot : List (Peer × Id)
  plog : List Event
  seen : List Id
  news : List (Peer × Id)
  pnew : Option (Peer × Id)
  pcore : Option (MgrCont × Peer × Id × List TxOp)

def pi (s : State) : Pi :=
  ⟨keys s, s.prot, s.events.filter isProtEv, s.seenIds, newIds s.mailbox, parkNew s.park, parkCore s.park⟩

theorem pi_eq {s s' : State} (h1 : keys s' = keys s) (h2 : s'.prot = s.prot)
    (h3 : s'.events.filter isProtEv = s.events.filter isProtEv) (h4 : s'.seenIds = s.seenIds)
    (h5 : newIds s'.mailbox = newIds s.mailbox) (h6 : parkNew s'.park = parkNew s.park)
    (h7 : parkCore s'.park = parkCore s.park := by rfl) :
    pi s' = pi s := by
  simp [pi, h1, h2, h3, h4, h5, h6, h7]

-- ------------------------------------------------------------------ primitives
@[simp] theorem keys_modAux (s : State) (id : Id) (f : Aux → Aux) : keys (modAux s id f) = keys s := by
  simp only [keys, modAux, List.map_map]
  apply List.map_congr_left
  intro r _
  simp only [Function.comp]
  split <;> rfl

@[simp] theorem keys_setState (s : State) (id : Id) (st : RState) : keys (setState s id st) = keys s := by
  simp only [keys, setState, List.map_map]
  apply List.map_congr_left
  intro r _
  simp only [Function.comp]
  split <;> rfl

@[simp] theorem pi_modAux (s : State) (id : Id) (f : Aux → Aux) : pi (modAux s id f) = pi s :=
  pi_eq (keys_modAux s id f) rfl rfl rfl rfl rfl

@[simp] theorem pi_setState (s : State) (id : Id) (st : RState) : pi (setState s id st) = pi s :=
  pi_eq (keys_setState s id st) rfl rfl rfl rfl rfl

theorem pi_emit (s : State) (e : Event) (h : isProtEv e = false) : pi (emit s e) = pi s := by
  refine pi_eq (s := s) (s' := emit s e) rfl rfl ?_ rfl rfl rfl
  simp [emit, List.filter_append, h]

@[simp] theorem pi_emit_canc (s : State) (id : Id) : pi (emit s (.canc id)) = pi s := pi_emit s _ rfl
@[simp] theorem pi_emit_done (s : State) (id : Id) (c : Nat) : pi (emit s (.done id c)) = pi s := pi_emit s _ rfl
@[simp] theorem pi_emit_nerr (s : State) (id : Id) : pi (emit s (.nerr id)) = pi s := pi_emit s _ rfl
@[simp] theorem pi_emit_proc (s : State) (id : Id) : pi (emit s (.proc id)) = pi s := pi_emit s _ rfl
@[simp] theorem pi_emit_api (s : State) (c : ApiCall) (r : ApiRes) : pi (emit s (.apiRes c r)) = pi s := pi_emit s _ rfl

@[simp] theorem pi_setQ (s : State) (q : PeerQ) : pi (setQ s q) = pi s := rfl
@[simp] theorem pi_setMQ (s : State) (q : PeerMQ) : pi (setMQ s q) = pi s := rfl
@[simp] theorem pi_setWorker (s : State) (w : Nat) (f : Worker → Worker) : pi (setWorker s w f) = pi s := rfl
@[simp] theorem pi_setPhase (s : State) (w : Nat) (ph : WPhase) : pi (setPhase s w ph) = pi s := rfl

@[simp] theorem pi_pushTask (s : State) (p : Peer) (id : Id) (pri : Nat) : pi (pushTask s p id pri) = pi s := by
  unfold pushTask
  simp only
  split
  · rfl
  · split <;> rfl

@[simp] theorem pi_removeTask (s : State) (p : Peer) (id : Id) : pi (removeTask s p id) = pi s := by
  unfold removeTask
  simp only
  split <;> rfl

@[simp] theorem pi_taskDone (s : State) (p : Peer) (id : Id) : pi (taskDone s p id) = pi s := by
  unfold taskDone
  split <;> rfl

@[simp] theorem pi_thawAll (s : State) : pi (thawAll s) = pi s := rfl

@[simp] theorem pi_addAlloc (s : State) (p : Peer) (n : Nat) : pi (addAlloc s p n) = pi s := rfl

@[simp] theorem parkNew_grant (pk : Option MgrPark) :
    parkNew (pk.map fun k => { k with granted := true }) = parkNew pk := by
  cases pk <;> rfl

@[simp] theorem parkCore_grant (pk : Option MgrPark) :
    parkCore (pk.map fun k => { k with granted := true }) = parkCore pk := by
  cases pk <;> rfl

@[simp] theorem pi_grantTo (s : State) (party : Party) : pi (grantTo s party) = pi s := by
  cases party with
  | mgr => exact pi_eq rfl rfl rfl rfl rfl (parkNew_grant s.park) (parkCore_grant s.park)
  | worker w => rfl

@[simp] theorem pi_grantLoop (fuel : Nat) (s : State) (p : Peer) : pi (grantLoop fuel s p) = pi s := by
  induction fuel generalizing s with
  | zero => rfl
  | succ n ih =>
    unfold grantLoop
    split
    · rfl
    · split
      · rw [ih]; simp; rfl
      · rfl

@[simp] theorem pi_underflow (s : State) (b : Bool) : pi { s with underflow := b } = pi s := rfl

@[simp] theorem pi_release (s : State) (p : Peer) (n : Nat) : pi (release s p n) = pi s := by
  unfold release
  simp

@[simp] theorem pi_tryAlloc (s : State) (party : Party) (p : Peer) (n : Nat) :
    pi (tryAlloc s party p n).1 = pi s := by
  unfold tryAlloc
  split
  · simp
  · rfl

@[simp] theorem pi_buildNow (s : State) (party : Party) (p : Peer) (id : Id) (ops : List TxOp) :
    pi (buildNow s party p id ops) = pi s := by
  unfold buildNow
  simp only
  split
  · split
    · simp
    · rfl
  · rfl

@[simp] theorem pi_execTx (s : State) (party : Party) (p : Peer) (id : Id) (ops : List TxOp) :
    pi (execTx s party p id ops).1 = pi s := by
  unfold execTx
  split
  · rfl
  · simp only
    split
    · simp
    · cases h : tryAlloc s party p (txSize s.extLen ops) with
      | mk s1 ok =>
        have h1 : pi s1 = pi s := by
          have := pi_tryAlloc s party p (txSize s.extLen ops)
          rw [h] at this; exact this
        simp only
        split
        · simp [h1]
        · exact h1

-- ------------------------------------------------------------------ mailbox appends
def isNewMsg : Msg → Bool
  | .processRequests _ (.new _ _) => true
  | _ => false

theorem newIds_append (mb : List Msg) (m : Msg) (h : isNewMsg m = false) : newIds (mb ++ [m]) = newIds mb := by
  unfold newIds
  rw [List.filterMap_append]
  cases m with
  | processRequests p r => cases r <;> simp_all [isNewMsg]
  | _ => simp

theorem pi_mail (s : State) (m : Msg) (h : isNewMsg m = false) : pi (sendMsg s m) = pi s :=
  pi_eq (s := s) (s' := sendMsg s m) rfl rfl rfl rfl (newIds_append _ _ h) rfl

-- ------------------------------------------------------------------ worker
@[simp] theorem pi_sendFinishNow (s : State) (w : Nat) (err : Option WErr) : pi (sendFinishNow s w err) = pi s := by
  unfold sendFinishNow
  rw [pi_setPhase]
  exact pi_mail s _ rfl

@[simp] theorem pi_sendFinish (s : State) (w : Nat) (err : Option WErr) : pi (sendFinish s w err) = pi s := by
  unfold sendFinish
  split
  · rfl
  · exact pi_sendFinishNow s w err

@[simp] theorem pi_executeQuery (s : State) (w : Nat) (wk : Worker) (err : Option WErr) :
    pi (executeQuery s w wk err) = pi s := by
  unfold executeQuery
  split
  · simp
  · simp
  · simp
  · simp only
    cases h : execTx s (.worker w) wk.peer wk.id [TxOp.status (finalStatus (lookup s wk.id) err)] with
    | mk s1 ok =>
      have h1 : pi s1 = pi s := by
        have := pi_execTx s (.worker w) wk.peer wk.id [TxOp.status (finalStatus (lookup s wk.id) err)]
        rw [h] at this; exact this
      simp only
      split <;> simp [h1]

@[simp] theorem pi_loopTop (s : State) (w : Nat) (wk : Worker) : pi (loopTop s w wk) = pi s := by
  unfold loopTop
  split
  · simp
  · split <;> simp

@[simp] theorem pi_afterBlock (s : State) (w : Nat) (wk : Worker) (err : Option WErr) :
    pi (afterBlock s w wk err) = pi s := by
  unfold afterBlock
  split <;> simp

@[simp] theorem pi_runTx (s : State) (w : Nat) (wk : Worker) (ops : List TxOp) (k : AfterTx) :
    pi (runTx s w wk ops k) = pi s := by
  unfold runTx
  cases h : execTx s (.worker w) wk.peer wk.id ops with
  | mk s1 ok =>
    have h1 : pi s1 = pi s := by
      have := pi_execTx s (.worker w) wk.peer wk.id ops
      rw [h] at this; exact this
    simp only
    split
    · split <;> simp [h1]
    · simp [h1]

@[simp] theorem pi_blockPart (s : State) (w : Nat) (wk : Worker) (ops : List TxOp) (cfu : Option WErr)
    (present : Bool) : pi (blockPart s w wk ops cfu present) = pi s := by
  unfold blockPart
  split
  · simp
  · simp only
    split
    · simp
    · split <;> simp

theorem pi_checkForUpdates (s : State) (w : Nat) (wk : Worker) (ops : List TxOp) (present : Bool) (pick : Nat) :
    pi (checkForUpdates s w wk ops present pick) = pi s := by
  unfold checkForUpdates
  split
  · simp
  · simp only
    split
    · simp
    · simp
    · simp
    · rw [pi_setPhase, pi_mail _ _ rfl]
      simp

attribute [simp] pi_checkForUpdates

@[simp] theorem pi_applyUpdates (s : State) (w : Nat) (wk : Worker) (ups : List UP) (ops : List TxOp)
    (present : Bool) (pick : Nat) : pi (applyUpdates s w wk ups ops present pick) = pi s := by
  induction ups generalizing ops with
  | nil => simp [applyUpdates]
  | cons u us ih =>
    unfold applyUpdates
    simp only
    split
    · simp
    · exact ih _

theorem pi_wstep {s s' : State} {w pick : Nat} (h : wstep s w pick = some s') : pi s' = pi s := by
  unfold wstep at h
  split at h
  · cases h
  · split at h
    · cases h; simp
    · split at h
      · cases h; simp
      · cases h; simp
    · cases h; simp
    · cases h; simp
    · cases h; simp
    · simp only at h
      split at h
      · cases h; simp
      · cases h; simp
    · cases h

-- ------------------------------------------------------------------ message queue, publisher, task queue
theorem pi_netResolve {s s' : State} {p : Peer} {ok : Bool} (h : netResolve s p ok = some s') : pi s' = pi s := by
  unfold netResolve at h
  simp only at h
  split at h
  · cases h
  · split at h
    · cases h; simp
    · cases h
      rw [pi_release]
      split
      · rw [pi_release, pi_setMQ]; rfl
      · rw [pi_setMQ]; rfl

theorem pi_extract {s s' : State} {p : Peer} (h : extract s p = some s') : pi s' = pi s := by
  unfold extract at h
  simp only at h
  split at h
  · split at h
    · cases h
    · cases h; simp
  · cases h

@[simp] theorem pi_primer (s : State) (p : Peer) : pi (primer s p) = pi s := by
  unfold primer; simp

theorem pi_pubStep {s s' : State} {p : Peer} (h : pubStep s p = some s') : pi s' = pi s := by
  unfold pubStep at h
  simp only at h
  split at h
  · cases h
  · split at h
    · cases h
    · split at h
      · cases h
        refine pi_eq (s := s) rfl rfl ?_ rfl rfl rfl
        show List.filter isProtEv (s.events ++ List.replicate _ (Event.bs _)) = _
        rw [List.filter_append]
        have : ∀ n id, List.filter isProtEv (List.replicate n (Event.bs id)) = [] := by
          intro n id
          induction n with
          | zero => rfl
          | succ n ih => simp [List.replicate_succ, isProtEv]
        rw [this]; simp
      · cases h; simp
      · cases h; simp
      · cases h; rw [pi_mail _ _ rfl]; simp
      · cases h; rw [pi_mail _ _ rfl]; simp

theorem pi_popTask {s s' : State} {p : Peer} {id : Id} (h : popTask s p id = some s') : pi s' = pi s := by
  unfold popTask at h
  simp only at h
  split at h
  · cases h; rw [pi_mail _ _ rfl]; rfl
  · cases h

theorem pi_reap {s s' : State} {p : Peer} (h : reap s p = some s') : pi s' = pi s := by
  unfold reap at h
  split at h
  · split at h
    · cases h; rfl
    · cases h
  · cases h

-- ------------------------------------------------------------------ manager handlers that do not register / retire
theorem pi_parkMgr (s : State) (cont : MgrCont) (p : Peer) (id : Id) (ops : List TxOp)
    (h : ∀ p' id' cfg, cont ≠ .newReq p' id' cfg) :
    pi (parkMgr s cont p id ops) = { pi s with pnew := none, pcore := some (cont, p, id, ops) } := by
  cases cont with
  | newReq p' id' cfg => exact absurd rfl (h p' id' cfg)
  | _ => rfl

/-- the registry projection is unchanged, or the manager parked in a step other than `newRequest` -/
def SameOrPark (x x' : Pi) : Prop :=
  x' = x ∨ ∃ c p id ops, (∀ p' i cfg, c ≠ MgrCont.newReq p' i cfg) ∧ x' = { x with pcore := some (c, p, id, ops) }

theorem sop_same {x x' : Pi} (h : x' = x) : SameOrPark x x' := Or.inl h

theorem pnew_none {s : State} (h : s.park = none) : (pi s).pnew = none := by
  simp [pi, parkNew, h]

theorem pi_with_pnew_none {s : State} (h : s.park = none) : { pi s with pnew := none } = pi s := by
  have := pnew_none h
  cases hx : pi s with
  | mk a b c d e f g => rw [hx] at this; simp at this; simp [this]

theorem sop_parkMgr {s s1 : State} (cont : MgrCont) (p : Peer) (id : Id) (ops : List TxOp)
    (h : ∀ p' id' cfg, cont ≠ .newReq p' id' cfg) (h1 : pi s1 = pi s) (hp : s.park = none) :
    SameOrPark (pi s) (pi (parkMgr s1 cont p id ops)) := by
  right
  refine ⟨cont, p, id, ops, h, ?_⟩
  rw [pi_parkMgr _ _ _ _ _ h, h1]
  have := pnew_none hp
  cases hx : pi s with
  | mk a b c d e f g => rw [hx] at this; simp at this; simp [this]

@[simp] theorem pi_pauseRequest (s : State) (id : Id) : pi (pauseRequest s id).1 = pi s := by
  unfold pauseRequest
  split
  · rfl
  · split
    · rfl
    · split
      · rfl
      · simp

@[simp] theorem pi_unpauseFinish (s : State) (id : Id) : pi (unpauseFinish s id) = pi s := by
  unfold unpauseFinish
  split
  · rfl
  · simp

theorem pi_execTx_eq {s s1 : State} {party : Party} {p : Peer} {id : Id} {ops : List TxOp} {ok : Bool}
    (h : execTx s party p id ops = (s1, ok)) : pi s1 = pi s := by
  have := pi_execTx s party p id ops
  rw [h] at this; exact this

theorem pi_unpauseRequest (s : State) (id : Id) (ext : Bool) (hp : s.park = none) :
    SameOrPark (pi s) (pi (unpauseRequest s id ext).1) := by
  unfold unpauseRequest
  split
  · exact sop_same rfl
  · split
    · exact sop_same rfl
    · simp only
      split
      · generalize h : execTx (setState _ id RState.queued) Party.mgr _ id [TxOp.ext] = pr
        obtain ⟨s2, ok⟩ := pr
        have h1 : pi s2 = pi s := by
          have := pi_execTx_eq h
          simpa using this
        simp only
        split
        · exact sop_same (by simp [h1])
        · exact sop_parkMgr _ _ _ _ (by intros; simp) h1 hp
      · exact sop_same (by simp)

theorem pi_updateRequest (s : State) (id : Id) (ext : Bool) (hp : s.park = none) :
    SameOrPark (pi s) (pi (updateRequest s id ext).1) := by
  unfold updateRequest
  split
  · exact sop_same rfl
  · simp only
    generalize h : execTx s Party.mgr _ id _ = pr
    obtain ⟨s1, ok⟩ := pr
    have h1 : pi s1 = pi s := pi_execTx_eq h
    simp only
    split
    · exact sop_same h1
    · exact sop_parkMgr _ _ _ _ (by intros; simp) h1 hp

theorem pi_unpauseRequest_noext (s : State) (id : Id) : pi (unpauseRequest s id false).1 = pi s := by
  unfold unpauseRequest
  split
  · rfl
  · split
    · rfl
    · simp

@[simp] theorem pi_procUpdateFinish' (s : State) (id : Id) (plan : UP) :
    pi (procUpdateFinish s id plan) = pi s := by
  unfold procUpdateFinish
  split
  · rfl
  · split
    · simp
    · split
      · exact pi_unpauseRequest_noext s id
      · rfl

theorem pi_processUpdate (s : State) (id : Id) (plan : UP) (hp : s.park = none) :
    SameOrPark (pi s) (pi (processUpdate s id plan)) := by
  unfold processUpdate
  split
  · exact sop_same rfl
  · split
    · exact sop_same rfl
    · split
      · exact sop_same (by simp)
      · simp only
        generalize h : execTx s Party.mgr _ id _ = pr
        obtain ⟨s1, ok⟩ := pr
        have h1 : pi s1 = pi s := pi_execTx_eq h
        simp only
        split
        · exact sop_same (by simp [h1])
        · exact sop_parkMgr _ _ _ _ (by intros; simp) h1 hp

@[simp] theorem pi_startTask (s : State) (w : Nat) : pi (startTask s w) = pi s := by
  unfold startTask
  split
  · rfl
  · split
    · simp
    · split
      · simp
      · simp only
        split <;> simp

@[simp] theorem pi_getUpdates (s : State) (w : Nat) : pi (getUpdates s w) = pi s := by
  unfold getUpdates
  split
  · rfl
  · split
    · split <;> simp
    · rfl

@[simp] theorem pi_clearPubWait (s : State) (p : Peer) : pi (clearPubWait s p) = pi s := by
  unfold clearPubWait; simp

@[simp] theorem pi_dropNerr (s : State) (p : Peer) (id : Id) : pi (dropNerr s p id) = pi s := by
  unfold dropNerr; simp

/-- the handler of CloseWithNetworkError, with the pair destructured -/
theorem handle_closeNetErr (s : State) (id : Id) (inc : Nat) (pub : Peer) :
    handle s (.closeNetErr id inc pub) =
      if isInc s id inc = true then
        (if ((abortRequest s id .network).2 == .ok) = true then clearPubWait (abortRequest s id .network).1 pub
         else dropNerr (clearPubWait (abortRequest s id .network).1 pub) pub id)
      else dropNerr (clearPubWait s pub) pub id := by
  show (match (if isInc s id inc = true then abortRequest s id .network else (s, ApiRes.notFound)) with
        | (s1, r) => if (r == ApiRes.ok) = true then clearPubWait s1 pub else dropNerr (clearPubWait s1 pub) pub id) = _
  by_cases h : isInc s id inc = true
  · rw [if_pos h, if_pos h]
  · rw [if_neg h, if_neg h]; rfl

/-- the handler of TerminateRequest -/
theorem handle_terminate (s : State) (id : Id) (inc : Nat) (pub : Peer) :
    handle s (.terminate id inc pub) = clearPubWait (if isInc s id inc = true then terminate s id else s) pub := rfl

theorem pi_handle_closeNetErr (s : State) (id : Id) (inc : Nat) (pub : Peer) :
    pi (handle s (.closeNetErr id inc pub)) = pi (abortRequest s id .network).1 ∨
    pi (handle s (.closeNetErr id inc pub)) = pi s := by
  rw [handle_closeNetErr]
  split
  · left; split <;> simp
  · right; simp

-- ------------------------------------------------------------------ retiring: terminate
/-- effect of `terminateRequest` on the registry projection -/
def Pi.term (x : Pi) (p : Peer) (id : Id) : Pi :=
  { x with keys := x.keys.filter (fun k => k.2 != id), prot := x.prot.filter (· != (p, id)),
           plog := x.plog ++ [Event.unprotect p id] }

theorem lookup_some {s : State} {id : Id} {r : Resp} (h : lookup s id = some r) :
    r ∈ s.table ∧ r.id = id := by
  unfold lookup at h
  have h1 := List.mem_of_find?_eq_some h
  have h2 := List.find?_some h
  exact ⟨h1, by simpa using h2⟩

theorem lookup_key {s : State} {id : Id} {r : Resp} (h : lookup s id = some r) : (r.peer, id) ∈ keys s := by
  obtain ⟨h1, h2⟩ := lookup_some h
  unfold keys
  rw [List.mem_map]
  exact ⟨r, h1, by rw [h2]⟩

theorem pi_terminate_none {s : State} {id : Id} (h : lookup s id = none) : pi (terminate s id) = pi s := by
  unfold terminate; rw [h]

theorem pi_terminate_some {s : State} {id : Id} {r : Resp} (h : lookup s id = some r) :
    pi (terminate s id) = (pi s).term r.peer id := by
  unfold terminate; rw [h]
  simp only [pi, Pi.term, delResp, emit, keys]
  congr 1
  · rw [List.filter_map]; rfl
  · simp [List.filter_append, isProtEv]

/-- a step that retires at most one request (or changes nothing in the registry) -/
def TermOrSame (x x' : Pi) : Prop := x' = x ∨ ∃ p id, (p, id) ∈ x.keys ∧ x' = x.term p id

theorem tos_terminate (s : State) (id : Id) : TermOrSame (pi s) (pi (terminate s id)) := by
  cases h : lookup s id with
  | none => exact Or.inl (pi_terminate_none h)
  | some r => exact Or.inr ⟨r.peer, id, lookup_key h, pi_terminate_some h⟩

theorem tos_of_eq {s s1 s' : State} (h : pi s1 = pi s) (h' : TermOrSame (pi s1) (pi s')) :
    TermOrSame (pi s) (pi s') := by rw [← h]; exact h'

theorem tos_same {s s' : State} (h : pi s' = pi s) : TermOrSame (pi s) (pi s') := Or.inl h

theorem tos_abortRequest (s : State) (id : Id) (err : Sig) : TermOrSame (pi s) (pi (abortRequest s id err).1) := by
  unfold abortRequest
  split
  · exact tos_same rfl
  · simp only
    split
    · exact tos_same (by simp)
    · split
      · cases err with
        | ctxCancel =>
          simp only
          rw [pi_emit_canc]
          exact tos_of_eq (by simp) (tos_terminate _ _)
        | network =>
          simp only
          exact tos_of_eq (by simp) (tos_terminate _ _)
        | cancelCmd =>
          simp only
          exact tos_same (by simp)
      · exact tos_same (by simp)

theorem tos_finishTask (s : State) (w : Nat) (err : Option WErr) : TermOrSame (pi s) (pi (finishTask s w err)) := by
  unfold finishTask
  split
  · exact tos_same rfl
  · simp only
    split
    · exact tos_same (by simp)
    · split
      · split
        · exact tos_same (by simp)
        · exact tos_same (by simp)
      · split
        · exact tos_of_eq (by simp) (tos_terminate _ _)
        · split
          · exact tos_same (by simp)
          · split
            · exact tos_of_eq (by simp) (tos_terminate _ _)
            · split
              · exact tos_of_eq (by simp) (tos_terminate _ _)
              · exact tos_same (by simp)

theorem park_execTx (s : State) (party : Party) (p : Peer) (id : Id) (ops : List TxOp) :
    parkNew (execTx s party p id ops).1.park = parkNew s.park := by
  have := pi_execTx s party p id ops
  exact congrArg Pi.pnew this

end GS.RespLife
