import GSProofs.Lemmas.MsgQueueNotes3
import GSProofs.Lemmas.MsgQueueReach
/-!
# Message queue: the steps of callers and other peers are quiet (no notification, no wire event)
-/
namespace GS.MQ
open GS.Alloc

theorem Quiet.ofLog {s s' : State} (X : List Event) (hl : s'.log = s.log ++ X)
    (h1 : ∀ e ∈ X, isNote e = false) (h2 : ∀ e ∈ X, isWire0 e = false)
    (ht : s'.topics = s.topics) (hp : s'.pubClosed = s.pubClosed) (hb : s'.builders = s.builders)
    (hn : s'.nextTopic = s.nextTopic) : Quiet s s' :=
  ⟨⟨X, hl, h1, h2⟩, ht, hp, ⟨0, by rw [hb]; simp, by rw [hn]; rfl⟩⟩

theorem allocStep_quiet (pick : Pick) (s : State) (op : Alloc.Op) : Quiet s (s.allocStep pick op).1 := by
  refine Quiet.ofLog ((Alloc.step pick s.alloc op).2.map Event.mem) rfl ?_ ?_ rfl rfl rfl rfl
  · intro e he; obtain ⟨x, _, rfl⟩ := List.mem_map.mp he; rfl
  · intro e he; obtain ⟨x, _, rfl⟩ := List.mem_map.mp he; rfl

theorem release_quiet (pick : Pick) (s : State) (n : Nat) : Quiet s (s.release pick n) :=
  allocStep_quiet pick s _

theorem emit_quiet (s : State) (X : List Event) (h1 : ∀ e ∈ X, isNote e = false) (h2 : ∀ e ∈ X, isWire0 e = false) :
    Quiet s (s.emit X) := Quiet.ofLog X rfl h1 h2 rfl rfl rfl rfl

theorem apply_topic (b : Builder) (r : Req) (it : Item) : (b.apply r it).topic = b.topic := by
  cases it with
  | block c sz send => cases send <;> rfl
  | missing c => rfl
  | ext sz => rfl
  | status code => rfl

theorem applyAll_topic (b : Builder) (r : Req) (items : List Item) : (b.applyAll r items).topic = b.topic := by
  unfold Builder.applyAll
  induction items generalizing b with
  | nil => rfl
  | cons it rest ih => simp only [List.foldl_cons]; rw [ih, apply_topic]

theorem runFn_topic (closed : List Req) (b : Builder) (tx : Tx) : (runFn closed b tx).topic = b.topic := by
  unfold runFn
  cases tx.who with
  | response => simp only; split
                · rfl
                · exact applyAll_topic _ _ _
  | request => rfl

theorem setLast_topics : ∀ (bs : List Builder) (b b' : Builder), bs.getLast? = some b → b'.topic = b.topic →
    topicsOf (setLast bs b') = topicsOf bs
  | [], _, _, h, _ => by simp at h
  | [x], b, b', h, ht => by
    simp at h; subst h
    simp [setLast, topicsOf, ht]
  | x :: y :: r, b, b', h, ht => by
    have h' : (y :: r).getLast? = some b := by simpa [List.getLast?_cons_cons] using h
    have ih := setLast_topics (y :: r) b b' h' ht
    simp only [setLast, topicsOf_cons] at ih ⊢
    rw [ih]

theorem buildMessage_quiet (pick : Pick) (s : State) (ticket : Nat) (tx : Tx) (size : Nat) :
    Quiet s (s.buildMessage pick ticket tx size) := by
  unfold State.buildMessage
  generalize hs0 : (if shouldBegin s.builders size = true
      then { s with builders := s.builders ++ [{ topic := s.nextTopic }], nextTopic := s.nextTopic + 1 }
      else s) = s0
  have q0 : Quiet s s0 ∧ (∃ b, s0.builders.getLast? = some b) := by
    subst hs0
    split
    · refine ⟨⟨⟨[], by simp, by simp, by simp⟩, rfl, rfl, ⟨1, ?_, rfl⟩⟩, ⟨_, getLast?_append_singleton _ _⟩⟩
      show topicsOf (s.builders ++ [{ topic := s.nextTopic }]) = _
      rw [topicsOf_append]; rfl
    · next hsb =>
      have : shouldBegin s.builders size = false := by simpa using hsb
      exact ⟨Quiet.refl s, shouldBegin_false_getLast this⟩
  obtain ⟨q0, b, hlast⟩ := q0
  simp only
  rw [hlast]
  simp only
  generalize hb' : runFn s0.closedStreams b tx = b'
  have ht : b'.topic = b.topic := by rw [← hb']; exact runFn_topic _ _ _
  have q1 : Quiet s0 (({ s0 with builders := setLast s0.builders b' } : State).emit
      [Event.built ticket b.topic size (b'.accounted - b.accounted)]) := by
    refine ⟨⟨[Event.built ticket b.topic size (b'.accounted - b.accounted)], rfl, ?_, ?_⟩, rfl, rfl, ⟨0, ?_, rfl⟩⟩
    · intro e he; simp at he; subst he; rfl
    · intro e he; simp at he; subst he; rfl
    · show topicsOf (setLast s0.builders b') = _
      rw [setLast_topics _ _ _ hlast ht]; simp
  generalize ({ s0 with builders := setLast s0.builders b' } : State).emit
      [Event.built ticket b.topic size (b'.accounted - b.accounted)] = s1 at q1
  have q2 : Quiet s1 (if b'.accounted ≥ b.accounted ∧ b'.accounted - b.accounted < size
        then s1.release pick (size - (b'.accounted - b.accounted)) else s1) := by
    split
    · exact release_quiet _ _ _
    · exact Quiet.refl _
  generalize (if b'.accounted ≥ b.accounted ∧ b'.accounted - b.accounted < size
        then s1.release pick (size - (b'.accounted - b.accounted)) else s1) = s2 at q2
  have q3 := (q0.trans q1).trans q2
  split
  · exact q3.trans (Quiet.ofLog [] (by simp) (by simp) (by simp) rfl rfl rfl rfl)
  · exact q3

theorem buildMsg_open (pick : Pick) {s : State} (hc : s.closed = false) (ticket : Nat) (tx : Tx) (size : Nat) :
    s.buildMsg pick ticket tx size = s.buildMessage pick ticket tx size := by
  unfold State.buildMsg; rw [if_neg (by rw [hc]; simp)]

/-- on a queue that is not closed, building is quiet -/
theorem buildWith_quiet (pick : Pick) (s : State) (tx : Tx) (size : Nat) (hc : s.closed = false) :
    Quiet s (buildWith pick s tx size) := by
  unfold buildWith
  simp only
  have q0 : Quiet s ({ s with nextTicket := s.nextTicket + 1 } : State) :=
    Quiet.ofLog [] (by simp) (by simp) (by simp) rfl rfl rfl rfl
  split
  · rw [buildMsg_open pick (by exact hc)]
    exact q0.trans (buildMessage_quiet _ _ _ _ _)
  · have q1 := q0.trans (allocStep_quiet pick ({ s with nextTicket := s.nextTicket + 1 } : State) (.alloc s.peer size s.nextTicket))
    split
    · rw [buildMsg_open pick (by exact hc)]
      exact q1.trans (buildMessage_quiet _ _ _ _ _)
    · exact q1.trans (Quiet.ofLog [] (by simp) (by simp) (by simp) rfl rfl rfl rfl)

theorem build_quiet (pick : Pick) (s : State) (tx : Tx) (hc : s.closed = false) : Quiet s (s.build pick tx) := by
  rw [build_eq]; split
  · exact Quiet.refl s
  · exact buildWith_quiet _ _ _ _ hc

theorem wake_quiet (pick : Pick) (s : State) (t : Nat) (hc : s.closed = false) : Quiet s (s.wake pick t) := by
  unfold State.wake
  split
  · exact Quiet.refl s
  · next w _ =>
    simp only
    have q0 : Quiet s ({ s with waiters := s.waiters.filter (·.ticket != w.ticket) } : State) :=
      Quiet.ofLog [] (by simp) (by simp) (by simp) rfl rfl rfl rfl
    split
    · rw [buildMsg_open pick (by exact hc)]
      exact q0.trans (buildMessage_quiet _ _ _ _ _)
    · exact q0.trans (emit_quiet _ _ (by intro e he; simp at he; subst he; rfl) (by intro e he; simp at he; subst he; rfl))

end GS.MQ
