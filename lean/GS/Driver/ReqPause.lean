import GS.Model.PauseResume
import GS.Driver.LoaderCodec
/-! line-protocol driver for the requestor-side pause/resume model (component `reqpause`).

ops:  lt <n> block:parent:path:vData:vSkip … | remote <cids|-> | note … | put <cid>… |
      hookpause <k,…> | req <userskip> | msg <peer> <r|x> <status> <items|-> <blocks|-> |
      serve <sizes|-> | pause | unpause
(parsing / rendering helpers are copies of GS/Driver/Requestor.lean, which defines its own `main`)
-/
namespace GS.Driver.ReqPause
open GS.Proto GS.Loader GS.Requestor GS.PauseResume GS.Driver.LoaderCodec

structure D where
  s : PState := {}
  lt : Option LT := none
  started : Bool := false
  rem : List Nat := []
  lastSkip : Option Nat := none

def parseNode (depths : List Nat) (t : String) : Option (LNode × Nat) :=
  match t.splitOn ":" with
  | [b, par, p, vd, vs] => do
    let b ← b.toNat?
    let p ← parsePath p
    let vd ← vd.toNat?
    let vs ← vs.toNat?
    let depth ← if par == "-1" then some 0 else do
      let pi ← par.toNat?
      let d ← depths[pi]?
      pure (d + 1)
    pure (⟨b, p, depth, vd, vs⟩, depth)
  | _ => none

def parseLT (toks : List String) : Option LT :=
  let rec go (ts : List String) (depths : List Nat) (acc : LT) : Option LT :=
    match ts with
    | [] => some acc.reverse
    | t :: rest =>
      match parseNode depths t with
      | some (n, d) => go rest (depths ++ [d]) (n :: acc)
      | none => none
  go toks [] []

def showErr : RErr → String
  | .load (.missing c p) => s!"missing:{c}:{showPath p}"
  | .load (.incorrect a b p) => s!"incorrect:{a}:{b}:{showPath p}"
  | .load .extraData => "extra"
  | .load _ => "other"
  | .status c => s!"status:{c}"
  | .other => "other"

def listOr (xs : List String) : String := if xs.isEmpty then "-" else joinWith "," xs

def render (evs : List Ev) (closed : Bool) : String :=
  let sent := evs.filterMap fun | .sentNew k => some s!"new:{k}" | .sentCancel => some "cancel" | _ => none
  let prog := (evs.filterMap fun | .prog n => some n | _ => none).foldl (· + ·) 0
  let errs := evs.filterMap fun | .err e => some (showErr e) | _ => none
  let ws := evs.filterMap fun | .write c b => some s!"{c}={b}" | _ => none
  let bs := evs.filterMap fun
    | .block c _ l i => some s!"{c}{if l then "l" else "r"}{i}"
    | _ => none
  s!"sent={listOr sent} prog={prog} blk={listOr bs} errs={listOr errs} w={listOr ws} closed={if closed then 1 else 0}"

def parseNats (s : String) : Option (List Nat) :=
  if s == "-" then some [] else (s.splitOn ",").mapM String.toNat?

def lastNew (evs : List Ev) (old : Option Nat) : Option Nat :=
  evs.foldl (fun acc e => match e with | .sentNew k => some k | _ => acc) old

def closedOf (s : PState) : Bool := s.R.phase == .finished

/-- the honest response, with a failure status in a message of its own (harness/reqpause batchMsgs) -/
def serveMsgs (sizes : List Nat) (is : List WItem) (fin : Nat) : List PauseResume.Msg :=
  if fin ≥ 30 then
    match is with
    | [] => [mkMsg [] fin]
    | _ => batchMsgs sizes is 14 ++ [mkMsg [] fin]
  else batchMsgs sizes is fin

def stepLine (d : D) (t : Toks) : D × String :=
  match t with
  | "lt" :: _ :: nodes => ({ d with lt := parseLT nodes }, "-")
  | "note" :: _ => (d, "-")
  | ["remote", l] =>
    match parseNats l with
    | some l => if d.started then (d, "-") else ({ d with rem := d.rem ++ l }, "-")
    | none => (d, "-")
  | "remote" :: _ => (d, "-")
  | "put" :: cs =>
    match cs.mapM String.toNat? with
    | some l =>
      if l.isEmpty || d.started then (d, "bad-op")
      else ({ d with s := { d.s with R := { d.s.R with L := (Loader.runOps d.s.R.L (l.map Loader.Op.put)).1 } } }, "ok")
    | none => (d, "bad-op")
  | ["hookpause", l] =>
    match parseNats l with
    | some l => if d.started then (d, "bad-op") else ({ d with s := { d.s with hookAt := d.s.hookAt ++ l } }, "ok")
    | none => (d, "bad-op")
  | ["req", us] =>
    match us.toNat?, d.lt, d.started with
    | some us, some lt, false =>
      let (s', evs) := PauseResume.request d.s lt us
      ({ d with s := s', started := true, lastSkip := lastNew evs d.lastSkip }, render evs (closedOf s'))
    | _, _, _ => (d, "bad-op")
  | ["msg", p, ref, st, is, bs] =>
    match p.toNat?, st.toNat?, parseItems is, parseNats bs with
    | some p, some st, some md, some bl =>
      if !d.started || (ref != "r" && ref != "x") || p > 3 then (d, "bad-op")
      else
        let (s', evs) := deliver d.s (p == 0) (ref == "r") st md (bl.map fun k => (k, k))
        ({ d with s := s', lastSkip := lastNew evs d.lastSkip }, render evs (closedOf s'))
    | _, _, _, _ => (d, "bad-op")
  | ["serve", sz] =>
    match parseNats sz, d.lastSkip, d.lt with
    | some sizes, some skip, some lt =>
      if !d.started then (d, "bad-op") else
      let is := honest lt (fun c => d.rem.contains c) skip
      let msgs := serveMsgs sizes is (honestStatus is)
      let (d', lines) := msgs.foldl (fun (acc : D × List String) m =>
        let (s', evs) := deliver acc.1.s m.fromPeer0 m.known m.status m.md m.blocks
        ({ acc.1 with s := s', lastSkip := lastNew evs acc.1.lastSkip }, render evs (closedOf s') :: acc.2)) (d, [])
      (d', joinWith " | " lines.reverse)
    | _, _, _ => (d, "bad-op")
  | ["pause"] =>
    if !d.started then (d, "bad-op")
    else if d.s.paused || d.s.R.phase != .running then (d, "err")
    else ({ d with s := pauseApi d.s }, "ok")
  | ["unpause"] =>
    if !d.started then (d, "bad-op")
    else if !d.s.paused || d.s.R.phase != .running then (d, "err")
    else
      let (s', evs) := unpause d.s
      ({ d with s := s', lastSkip := lastNew evs d.lastSkip }, render evs (closedOf s'))
  | _ => (d, "bad-op")

def handler (ops : List Toks) : List String :=
  let (_, outs) := ops.foldl (fun (acc : D × List String) t =>
    let (d', o) := stepLine acc.1 t
    (d', o :: acc.2)) ({}, [])
  outs.reverse

end GS.Driver.ReqPause

def main : IO Unit := GS.Proto.runModel GS.Driver.ReqPause.handler
