import GSProofs.Lemmas.RespLifeProtect
/-!
Every step of the responder model acts on the registry projection as one `RStep`, provided `new`
requests carry ids never received before (`FreshStep`).  Hence `PInv` holds in every state reachable
by fresh steps.
-/
namespace GS.RespLife

/-- a peer never sends a `new` request for an id that is LIVE for it: in the response table, waiting
    in the mailbox, or parked inside `newRequest`.  Exactly the complement of the known finding
    `dup-live-id`; ids may be re-used after retirement (the C06 resume flow does), and an id in use by
    another peer is harmless (such a request is ignored, /repo 7d665e5). -/
def FreshStep (s : State) : Action → Prop
  | .recv p (.new id _) => (p, id) ∉ keys s ∧ (p, id) ∉ newIds s.mailbox ∧ parkNew s.park ≠ some (p, id)
  | _ => True

inductive ReachableFresh (c : Cfg) : State → Prop
  | init : ReachableFresh c (init c)
  | step {s s' a} : ReachableFresh c s → FreshStep s a → step s a = some s' → ReachableFresh c s'

theorem keys_insertResp (s : State) (r : Resp) :
    keys (insertResp s r) = (keys s).filter (fun k => k.2 != r.id) ++ [(r.peer, r.id)] := by
  simp only [keys, insertResp, List.map_append, List.map_cons, List.map_nil]
  rw [List.filter_map]
  rfl

theorem pi_insertResp (s : State) (r : Resp) : pi (insertResp s r) = (pi s).insert r.peer r.id := by
  simp only [pi, Pi.insert]
  rw [keys_insertResp]
  rfl

theorem pi_newReqFinish (s : State) (p : Peer) (id : Id) (cfg : ReqCfg) :
    pi (newReqFinish s p id cfg) = (pi s).insert p id := by
  unfold newReqFinish
  split
  · rw [pi_insertResp]
  · rw [pi_insertResp]
  · rw [pi_insertResp]
  · rw [pi_insertResp, pi_pushTask]

theorem pi_openStream_protect (s : State) (p : Peer) (id : Id) :
    pi (openStream (protect s p id) id) = (pi s).protect p id := by
  simp only [pi, Pi.protect, openStream, protect, emit, keys]
  congr 1
  simp [List.filter_append, isProtEv]

theorem pi_newRequest (s : State) (p : Peer) (id : Id) (cfg : ReqCfg) :
    pi (newRequest s p id cfg) = ((pi s).protect p id).insert p id ∨
    ∃ c, pi (newRequest s p id cfg) = { ((pi s).protect p id) with pnew := some (p, id), pcore := some c } := by
  unfold newRequest
  simp only
  generalize h : execTx _ Party.mgr p id (prepareOps cfg.hook) = pr
  obtain ⟨s3, ok⟩ := pr
  have h2 : pi s3 = (pi s).protect p id := by
    rw [pi_execTx_eq h, pi_openStream_protect]
  simp only
  split
  · left
    rw [pi_newReqFinish, h2]
  · right
    refine ⟨(MgrCont.newReq p id cfg, p, id, prepareOps cfg.hook), ?_⟩
    rw [← h2]
    simp only [parkMgr, pi, parkNew, parkCore, keys, Option.map]

theorem pi_resumeMgr_new (s : State) (pk : MgrPark) (p : Peer) (id : Id) (cfg : ReqCfg)
    (hc : pk.cont = .newReq p id cfg) :
    pi (resumeMgr s pk) = ({ pi s with pnew := none, pcore := none } : Pi).insert p id := by
  unfold resumeMgr
  simp only [hc]
  rw [pi_newReqFinish, pi_buildNow]
  rfl

theorem pi_resumeMgr_other (s : State) (pk : MgrPark) (hc : ∀ p id cfg, pk.cont ≠ .newReq p id cfg) :
    pi (resumeMgr s pk) = { pi s with pnew := none, pcore := none } := by
  unfold resumeMgr
  cases hk : pk.cont with
  | newReq p id cfg => exact absurd hk (hc p id cfg)
  | procUpdate id plan => simp only; rw [pi_procUpdateFinish', pi_buildNow]; rfl
  | unpause id ext => simp only; rw [pi_emit_api, pi_unpauseFinish, pi_buildNow]; rfl
  | update id ext => simp only; rw [pi_emit_api, pi_buildNow]; rfl

theorem own_of_not_foreign {s : State} {p : Peer} {id : Id} (h : foreign s p id = false) :
    (∃ k ∈ keys s, k.2 = id) → (p, id) ∈ keys s := by
  rintro ⟨k, hk, hid⟩
  obtain ⟨r, hr, hrk⟩ := List.mem_map.1 hk
  unfold foreign at h
  cases hl : lookup s id with
  | none =>
    exfalso
    unfold lookup at hl
    have := List.find?_eq_none.1 hl r hr
    simp only [beq_iff_eq] at this
    apply this
    rw [← hid, ← hrk]
  | some r' =>
    rw [hl] at h
    simp only [bne_eq_false_iff_eq] at h
    have := lookup_key hl
    rw [h] at this
    exact this

theorem sop_rstep {x x' : Pi} (h : SameOrPark x x') : RStep x x' := by
  rcases h with h | ⟨c, p, id, ops, _, h⟩
  · rw [h]; exact RStep.same x
  · rw [h]; exact RStep.setPcore x _

theorem tos_rstep {x x' : Pi} (h : TermOrSame x x') : RStep x x' := by
  rcases h with h | ⟨p, id, hk, h⟩
  · rw [h]; exact RStep.same x
  · rw [h]; exact RStep.term x p id hk

theorem newIds_cons_other (m : Msg) (rest : List Msg) (h : isNewMsg m = false) :
    newIds (m :: rest) = newIds rest := by
  unfold newIds
  cases m with
  | processRequests p r => cases r <;> simp_all [isNewMsg, List.filterMap_cons]
  | _ => simp [List.filterMap_cons]

/-- popping a non-`new` message off the mailbox leaves the registry projection alone -/
theorem pi_pop_other (s : State) (m : Msg) (rest : List Msg) (hm : s.mailbox = m :: rest) (h : isNewMsg m = false) :
    pi { s with mailbox := rest, handled := s.handled + 1 } = pi s := by
  refine pi_eq (s := s) rfl rfl rfl rfl ?_ rfl
  show newIds rest = newIds s.mailbox
  rw [hm, newIds_cons_other m rest h]

theorem rstep_handle_other (s : State) (m : Msg) (hp : s.park = none) (h : isNewMsg m = false) :
    RStep (pi s) (pi (handle s m)) := by
  cases m with
  | processRequests p r =>
    show RStep (pi s) (pi (if foreign s p r.id = true then s else processRequest s p r))
    split
    · exact RStep.same _
    · cases r with
      | new id cfg => simp [isNewMsg] at h
      | cancel id => exact tos_rstep (tos_abortRequest s id .ctxCancel)
      | update id plan =>
        exact sop_rstep (pi_processUpdate s id plan hp)
  | api c =>
    cases c with
    | pause id =>
      show RStep (pi s) (pi (emit (pauseRequest s id).1 _))
      rw [pi_emit_api, pi_pauseRequest]; exact RStep.same _
    | unpause id ext =>
      have h1 := sop_rstep (pi_unpauseRequest s id ext hp)
      show RStep (pi s) (pi (if (unpauseRequest s id ext).2.2 = true then (unpauseRequest s id ext).1
        else emit (unpauseRequest s id ext).1 _))
      split
      · exact h1
      · rw [pi_emit_api]; exact h1
    | cancel id =>
      show RStep (pi s) (pi (emit (abortRequest s id .cancelCmd).1 _))
      rw [pi_emit_api]
      exact tos_rstep (tos_abortRequest s id .cancelCmd)
    | update id ext =>
      have h1 := sop_rstep (pi_updateRequest s id ext hp)
      show RStep (pi s) (pi (if (updateRequest s id ext).2.2 = true then (updateRequest s id ext).1
        else emit (updateRequest s id ext).1 _))
      split
      · exact h1
      · rw [pi_emit_api]; exact h1
  | startTask w => show RStep (pi s) (pi (startTask s w)); rw [pi_startTask]; exact RStep.same _
  | getUpdates w => show RStep (pi s) (pi (getUpdates s w)); rw [pi_getUpdates]; exact RStep.same _
  | finishTask w err => exact tos_rstep (tos_finishTask s w err)
  | closeNetErr id inc pub =>
    rcases pi_handle_closeNetErr s id inc pub with h1 | h1
    · rw [h1]; exact tos_rstep (tos_abortRequest s id .network)
    · rw [h1]; exact RStep.same _
  | terminate id inc pub =>
    rw [handle_terminate, pi_clearPubWait]
    split
    · exact tos_rstep (tos_terminate s id)
    · exact RStep.same _

theorem rstep_mgr {s s' : State} (h : mgrStep s = some s') : RStep (pi s) (pi s') := by
  unfold mgrStep at h
  split at h
  · rename_i pk hpk
    split at h
    · cases h
      cases hc : pk.cont with
      | newReq p id cfg =>
        rw [pi_resumeMgr_new s pk p id cfg hc]
        apply RStep.resumeNew
        simp [pi, parkNew, hpk, hc]
      | procUpdate id plan =>
        rw [pi_resumeMgr_other s pk (by intro p i c; rw [hc]; simp)]
        have : ({ pi s with pnew := none, pcore := none } : Pi) = { pi s with pcore := none } := by
          simp [pi, parkNew, hpk, hc]
        rw [this]; exact RStep.setPcore _ _
      | unpause id ext =>
        rw [pi_resumeMgr_other s pk (by intro p i c; rw [hc]; simp)]
        have : ({ pi s with pnew := none, pcore := none } : Pi) = { pi s with pcore := none } := by
          simp [pi, parkNew, hpk, hc]
        rw [this]; exact RStep.setPcore _ _
      | update id ext =>
        rw [pi_resumeMgr_other s pk (by intro p i c; rw [hc]; simp)]
        have : ({ pi s with pnew := none, pcore := none } : Pi) = { pi s with pcore := none } := by
          simp [pi, parkNew, hpk, hc]
        rw [this]; exact RStep.setPcore _ _
    · cases h
  · rename_i hpk
    split at h
    · cases h
    · rename_i m rest hm
      cases h
      by_cases hnew : isNewMsg m = true
      · -- a `new` request reaches the manager
        cases m with
        | processRequests p r =>
          cases r with
          | new id cfg =>
            have hx : pi { s with mailbox := rest, handled := s.handled + 1 } = { pi s with news := newIds rest } := rfl
            have hn : (pi s).news = (p, id) :: newIds rest := by
              show newIds s.mailbox = _
              rw [hm]; rfl
            have hpn : (pi s).pnew = none := pnew_none hpk
            show RStep (pi s) (pi (if foreign _ p id = true then _ else newRequest _ p id cfg))
            split
            · rw [hx]; exact RStep.dropNew _ (p, id) _ hn
            · rename_i hfor
              have hown : (∃ k ∈ (pi s).keys, k.2 = id) → (p, id) ∈ (pi s).keys :=
                own_of_not_foreign (s := { s with mailbox := rest, handled := s.handled + 1 }) (by simpa using hfor)
              rcases pi_newRequest { s with mailbox := rest, handled := s.handled + 1 } p id cfg with h1 | ⟨c, h1⟩
              · rw [h1, hx]; exact RStep.newOk _ p id _ hn hpn hown
              · rw [h1, hx]; exact RStep.newPark _ p id _ c hn hpn hown
          | cancel id => simp [isNewMsg] at hnew
          | update id plan => simp [isNewMsg] at hnew
        | _ => simp [isNewMsg] at hnew
      · have hnew' : isNewMsg m = false := by simpa using hnew
        have h0 := pi_pop_other s m rest hm hnew'
        have := rstep_handle_other { s with mailbox := rest, handled := s.handled + 1 } m hpk hnew'
        rw [h0] at this
        exact this

theorem rstep_step {s s' : State} {a : Action} (hf : FreshStep s a) (h : step s a = some s') :
    RStep (pi s) (pi s') := by
  cases a with
  | recv p r =>
    simp only [step, Option.some.injEq] at h
    subst h
    cases r with
    | new id cfg =>
      have : pi (sendMsg { s with seenIds := s.seenIds ++ [id] } (Msg.processRequests p (ReqMsg.new id cfg))) =
          { pi s with seen := s.seenIds ++ [id], news := (pi s).news ++ [(p, id)] } := by
        simp only [pi, sendMsg, keys]
        congr 1
        simp [newIds, List.filterMap_append]
      rw [this]
      exact RStep.recvNew _ p id _ hf.1 hf.2.1 hf.2.2
    | cancel id => rw [pi_mail _ _ rfl]; exact RStep.same _
    | update id plan => rw [pi_mail _ _ rfl]; exact RStep.same _
  | api c =>
    simp only [step, Option.some.injEq] at h
    subst h; rw [pi_mail _ _ rfl]; exact RStep.same _
  | mgr => exact rstep_mgr h
  | pop p id => rw [pi_popTask h]; exact RStep.same _
  | reap p => rw [pi_reap h]; exact RStep.same _
  | wstep w pick => rw [pi_wstep h]; exact RStep.same _
  | extract p => rw [pi_extract h]; exact RStep.same _
  | net p ok => rw [pi_netResolve h]; exact RStep.same _
  | pub p => rw [pi_pubStep h]; exact RStep.same _
  | primer p =>
    simp only [step, Option.some.injEq] at h
    subst h; rw [pi_primer]; exact RStep.same _
  | thaw =>
    simp only [step, Option.some.injEq] at h
    subst h; rw [pi_thawAll]; exact RStep.same _

theorem pinv_reachable {c : Cfg} {s : State} (h : ReachableFresh c s) : PInv (pi s) := by
  induction h with
  | init => exact pinv_init c
  | step _ hf hs ih => exact ih.step (rstep_step hf hs)

-- ------------------------------------------------------------------ concrete runs
theorem reachable_run {c : Cfg} {s : State} (h : Reachable c s) (as : List Action) :
    Reachable c (run s as) := by
  induction as generalizing s with
  | nil => exact h
  | cons a as ih =>
    show Reachable c (run ((step s a).getD s) as)
    cases hs : step s a with
    | none => exact ih h
    | some s' => exact ih (Reachable.step h hs)

/-- executable check that a script never re-uses a request id -/
def freshRun : State → List Action → Bool
  | _, [] => true
  | s, a :: as =>
    (match a with
     | .recv p (.new id _) =>
       !(keys s).contains (p, id) && !(newIds s.mailbox).contains (p, id) && !(parkNew s.park == some (p, id))
     | _ => true) && freshRun ((step s a).getD s) as

theorem reachableFresh_run {c : Cfg} {s : State} (h : ReachableFresh c s) (as : List Action)
    (hf : freshRun s as = true) : ReachableFresh c (run s as) := by
  induction as generalizing s with
  | nil => exact h
  | cons a as ih =>
    simp only [freshRun, Bool.and_eq_true] at hf
    show ReachableFresh c (run ((step s a).getD s) as)
    cases hs : step s a with
    | none => rw [hs] at hf; exact ih h hf.2
    | some s' =>
      rw [hs] at hf
      refine ih (ReachableFresh.step h ?_ hs) hf.2
      cases a with
      | recv p r =>
        cases r with
        | new id cfg =>
          have h1 := hf.1
          simp only [Bool.and_eq_true, Bool.not_eq_true'] at h1
          refine ⟨?_, ?_, ?_⟩
          · intro hm; have := h1.1.1; simp [hm] at this
          · intro hm; have := h1.1.2; simp [hm] at this
          · intro hm; have := h1.2; simp [hm] at this
        | _ => trivial
      | _ => trivial


end GS.RespLife
