#!/bin/sh
# Build the framework offline from files on disk: Lean models + proofs, model driver, Go harness.
set -e
cd "$(dirname "$0")"
export GOFLAGS=-mod=mod GOPROXY=off
mkdir -p work evidence replays
(cd lean && lake build GS GSProofs gsmodel)
cp /repo/go.sum harness/go.sum
(cd harness && go build -tags verif -o bin/gsdrive ./cmd/gsdrive)
if [ -d translate ] && [ -f translate/go.mod ]; then (cd translate && go build ./...); fi
echo setup-ok
