import GS.Model.Concurrent
import GS.Driver.LoaderCodec
/-! line-protocol driver for the COMPOSED model of concurrent requests (component `concur`, property C20).

Reads the case files of the Go component `concur`.  ops:
  remote <cids|->   responder's store          -> ok
  put <cid> …       requestor's store          -> ok
  lt <i> <n> block:parent:path:vData:vSkip …   link tree of request i (present only for the cases of the
                    comparable profile: every request with a dedup key of its own, all issued at once over the
                    initial store ⊆ responder store, no other extension, one requestor)   -> -
  run               -> `r0 nodes=<n> miss=<m> … store=<cids>` : `GS.Concurrent.run` under the round-robin
                    schedule (start all; then resp i, deliver i in turn) — by `shared_store_result_reference`
                    the result does not depend on the schedule; `skip` when no link trees were given
-/
namespace GS.Driver.Concur
open GS.Proto GS.Loader GS.Requestor GS.Concurrent GS.Driver.LoaderCodec

def parseNode (depths : List Nat) (t : String) : Option (LNode × Nat) :=
  match t.splitOn ":" with
  | [b, par, p, vd, vs] => do
    let b ← b.toNat?
    let p ← parsePath p
    let vd ← vd.toNat?
    let vs ← vs.toNat?
    let depth ← if par == "-1" then some 0 else do
      let pi ← par.toNat?
      let d ← depths[pi]?
      pure (d + 1)
    pure (⟨b, p, depth, vd, vs⟩, depth)
  | _ => none

def parseLT (toks : List String) : Option LT :=
  let rec go (ts : List String) (depths : List Nat) (acc : LT) : Option LT :=
    match ts with
    | [] => some acc.reverse
    | t :: rest =>
      match parseNode depths t with
      | some (n, d) => go rest (depths ++ [d]) (n :: acc)
      | none => none
  go toks [] []

def listOr (xs : List String) : String := if xs.isEmpty then "-" else joinWith "," xs

structure D where
  rem : List Nat := []
  loc : List Nat := []
  lts : List LT := []
  ran : Bool := false

def parseCids (s : String) : Option (List Nat) :=
  if s == "-" then some [] else (s.splitOn ",").mapM String.toNat?

def insertSorted (x : Nat) : List Nat → List Nat
  | [] => [x]
  | y :: ys => if x < y then x :: y :: ys else if x == y then y :: ys else y :: insertSorted x ys

def sortDedup (l : List Nat) : List Nat := l.foldl (fun acc x => insertSorted x acc) []

def sched (n fuel : Nat) : List Act :=
  (List.range n).map Act.start ++
    (List.replicate fuel ((List.range n).flatMap fun i => [Act.resp i, Act.deliver i])).flatten

def predict (d : D) : String :=
  let n := d.lts.length
  let fuel := (d.lts.map List.length).foldl max 0 + 3
  let s0 := initSys (d.loc.map fun k => (k, k)) d.rem d.lts ((List.range n).map fun i => some i)
  let s := run s0 (sched n fuel)
  let parts := (List.range n).map fun i =>
    let (_, miss, nodes) := resultOf s i
    s!"r{i} nodes={nodes} miss={miss.length}"
  s!"{joinWith " " parts} store={listOr ((sortDedup (stored s)).map toString)}"

def stepLine (d : D) (t : Toks) : D × String :=
  match t with
  | ["remote", cs] =>
    match parseCids cs with
    | some l => if d.ran then (d, "bad-op") else ({ d with rem := d.rem ++ l }, "ok")
    | none => (d, "bad-op")
  | "put" :: cs =>
    match cs.mapM String.toNat? with
    | some l => if d.ran then (d, "bad-op") else ({ d with loc := d.loc ++ l }, "ok")
    | none => (d, "bad-op")
  | "lt" :: _ :: _ :: nodes =>
    match parseLT nodes with
    | some lt => ({ d with lts := d.lts ++ [lt] }, "-")
    | none => (d, "bad-op")
  | ["run"] =>
    if d.ran then (d, "bad-op")
    else if d.lts.isEmpty then ({ d with ran := true }, "skip")
    else ({ d with ran := true }, predict d)
  | _ => (d, "bad-op")

def handler (ops : List Toks) : List String :=
  let (_, outs) := ops.foldl (fun (acc : D × List String) t =>
    let (d', o) := stepLine acc.1 t
    (d', o :: acc.2)) ({}, [])
  outs.reverse

end GS.Driver.Concur

def main : IO Unit := GS.Proto.runModel GS.Driver.Concur.handler
