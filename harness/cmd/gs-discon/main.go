package main

import (
	"verifharness/reg"
	_ "verifharness/resplife"
)

func main() { reg.Main("discon") }
