import GSProofs.Lemmas.TaskQueueExec
/-!
Helper lemmas for C21, part 13: bookkeeping for liveness under bounded overtaking (arbitrary,
infinitely many arrivals): `took` (a worker started a batch), `fU` (freeze value of the waiting
task's tracker), the variant `Σ phase + fU`.
-/
namespace GS.TQ

def heldAll : WSt → Nat
  | .exec _ _ d rest => (if d then 0 else 1) + rest.length
  | _ => 0

/-- number of popped tasks still owed a TaskDone, over all workers -/
def totalHeld (s : Sys) : Nat := sumBy heldAll s.workers

/-- a worker took a batch of tasks off the queue in the step `s → s'` -/
def took (s s' : Sys) : Prop := totalHeld s < totalHeld s'

/-- freeze value of the tracker(s) in which task `u` is waiting -/
def fU (u : Nat) (ps : List Tracker) : Nat := sumBy (fun t => if hasU u t.pending then t.freeze else 0) ps

/-- the environment hypothesis of `liveness_bounded_overtaking`, per transition: while `u` keeps
    waiting no worker starts another batch (no overtaking), and `u`'s peer is not frozen further -/
def NoOvertake (u : Nat) (s s' : Sys) : Prop :=
  (pendingUid u s = true → pendingUid u s' = true → ¬ took s s') ∧ fU u s'.q.peers ≤ fU u s.q.peers

def V2 (u : Nat) (s : Sys) : Nat := sumBy phase s.workers + fU u s.q.peers

theorem heldAll_startFrom (r : PopResult) : heldAll (startFrom r) = (if r.peer.isSome then r.tasks.length else 0) := by
  unfold startFrom
  cases r.peer with
  | none => simp [heldAll]
  | some p =>
    cases r.tasks with
    | nil => simp [heldAll]
    | cons t ts => simp [heldAll]; omega

/-- a pop by an idle / ready worker that is not a `took` step handed out nothing -/
theorem popFor_not_took {s : Sys} {i : Nat} {w0 : WSt} {q0 : PTQ} (hw : s.workers[i]? = some w0)
    (h0 : heldAll w0 = 0) (hnt : ¬ took s (s.popFor i q0)) : (pop q0 1).2.tasks = [] := by
  have h3 := sumBy_set heldAll s.workers i w0 (startFrom (pop q0 1).2) hw
  unfold took totalHeld at hnt
  have e : (s.popFor i q0).workers = s.workers.set i (startFrom (pop q0 1).2) := rfl
  rw [e] at hnt
  rw [heldAll_startFrom, h0] at h3
  rcases pop_cases q0 1 with ⟨_, hpop⟩ | ⟨tr, _, hpeer, _⟩
  · rw [hpop]
  · rw [hpeer] at h3
    simp only [Option.isSome_some, if_true] at h3
    apply List.length_eq_zero_iff.mp
    omega

/-- phases under a step that is not a `took` step: never up; down, or the workers are unchanged -/
theorem phase_step {s s' : Sys} {a : Act} (h : step s a = some s') (hnt : ¬ took s s') :
    sumBy phase s'.workers ≤ sumBy phase s.workers ∧
    (sumBy phase s'.workers < sumBy phase s.workers ∨ s'.workers = s.workers) := by
  cases a with
  | push p t =>
    simp only [GS.TQ.step] at h
    split at h
    · cases h
    · cases h; exact ⟨Nat.le_refl _, Or.inr rfl⟩
  | remove p t => simp only [GS.TQ.step] at h; cases h; exact ⟨Nat.le_refl _, Or.inr rfl⟩
  | pop i =>
    simp only [GS.TQ.step] at h
    split at h
    · rename_i hw
      cases h
      have hnil := popFor_not_took hw rfl hnt
      have h3 := sumBy_set phase s.workers i _ (startFrom (pop s.q 1).2) hw
      rw [startFrom_idle_of_nil _ hnil] at h3
      simp only [phase] at h3
      have e : (s.popFor i s.q).workers = s.workers.set i (startFrom (pop s.q 1).2) := rfl
      rw [e, startFrom_idle_of_nil _ hnil]
      exact ⟨by omega, Or.inl (by omega)⟩
    · cases h
  | sig i =>
    simp only [GS.TQ.step] at h
    split at h
    · rename_i hw
      split at h
      · cases h
        have hnil := popFor_not_took (s := { s with signal := false }) hw rfl hnt
        have e : (({ s with signal := false } : Sys).popFor i s.q).workers = s.workers.set i (startFrom (pop s.q 1).2) := rfl
        rw [e, startFrom_idle_of_nil _ hnil, set_same _ _ _ hw]
        exact ⟨Nat.le_refl _, Or.inr rfl⟩
      · cases h
    · cases h
  | tick i =>
    simp only [GS.TQ.step] at h
    split at h
    · rename_i hw
      cases h
      have hnil := popFor_not_took hw rfl hnt
      have e : (s.popFor i (thaw s.q)).workers = s.workers.set i (startFrom (pop (thaw s.q) 1).2) := rfl
      rw [e, startFrom_idle_of_nil _ hnil, set_same _ _ _ hw]
      exact ⟨Nat.le_refl _, Or.inr rfl⟩
    · cases h
  | done i =>
    simp only [GS.TQ.step] at h
    split at h
    · rename_i p cur rest hw
      cases h
      have h3 := sumBy_set phase s.workers i _ (.exec p cur true rest) hw
      simp only [phase] at h3
      dsimp only
      exact ⟨by omega, Or.inl (by omega)⟩
    · cases h
  | ret i =>
    simp only [GS.TQ.step] at h
    split at h
    · rename_i p c t ts hw
      cases h
      have h3 := sumBy_set phase s.workers i _ (.exec p t false ts) hw
      simp only [phase, List.length_cons] at h3
      dsimp only
      exact ⟨by omega, Or.inl (by omega)⟩
    · rename_i p c hw
      cases h
      have h3 := sumBy_set phase s.workers i _ .ready hw
      simp only [phase, List.length_nil] at h3
      dsimp only
      exact ⟨by omega, Or.inl (by omega)⟩
    · cases h

/-! ### ThawRound lowers `fU` -/

theorem fU_thawOne (u : Nat) (q : PTQ) (p : Nat) :
    fU u (thawOne q p).peers ≤ fU u q.peers ∧
    ((∃ tr ∈ q.peers, tr.id = p ∧ hasU u tr.pending = true ∧ 0 < tr.freeze) →
      fU u (thawOne q p).peers < fU u q.peers) := by
  unfold thawOne
  split
  · rename_i hnone
    refine ⟨Nat.le_refl _, ?_⟩
    rintro ⟨tr, htr, he, _⟩
    exact absurd he (findT_none hnone tr htr)
  · simp only [refix_peers]
    have hle : ∀ x ∈ q.peers,
        (fun t : Tracker => if hasU u t.pending then t.freeze else 0) (if x.id == p then thawT x else x) ≤
        (fun t : Tracker => if hasU u t.pending then t.freeze else 0) x := by
      intro x _
      split
      · simp only [thawT]
        by_cases hx : hasU u x.pending = true
        · simp only [hx, if_true]; omega
        · simp only [hx, if_false]; exact Nat.le_refl _
      · exact Nat.le_refl _
    constructor
    · simp only [fU, modifyT]; exact sumBy_map_le _ _ _ hle
    · rintro ⟨tr, htr, he, hu, hpos⟩
      simp only [fU, modifyT]
      apply sumBy_map_lt _ _ _ hle
      refine ⟨tr, htr, ?_⟩
      simp only [he, beq_self_eq_true, if_true, thawT, hu]
      omega

theorem fU_thawFold (u : Nat) (l : List Nat) : ∀ (q : PTQ),
    fU u (l.foldl thawOne q).peers ≤ fU u q.peers ∧
    ((∃ tr ∈ q.peers, tr.id ∈ l ∧ hasU u tr.pending = true ∧ 0 < tr.freeze) →
      fU u (l.foldl thawOne q).peers < fU u q.peers) := by
  induction l with
  | nil =>
    intro q
    refine ⟨Nat.le_refl _, ?_⟩
    rintro ⟨_, _, h, _⟩; cases h
  | cons p ps ih =>
    intro q
    simp only [List.foldl]
    obtain ⟨a1, a2⟩ := fU_thawOne u q p
    obtain ⟨b1, b2⟩ := ih (thawOne q p)
    refine ⟨Nat.le_trans b1 a1, ?_⟩
    rintro ⟨tr, htr, hmem, hu, hpos⟩
    by_cases he : tr.id = p
    · exact Nat.lt_of_le_of_lt b1 (a2 ⟨tr, htr, he, hu, hpos⟩)
    · have hmem' : tr.id ∈ ps := by
        rcases List.mem_cons.mp hmem with h | h
        · exact absurd h he
        · exact h
      have hkeep := (thawOne_facts q p).2.2.2.2.1 tr htr he
      exact Nat.lt_of_lt_of_le (b2 ⟨tr, hkeep, hmem', hu, hpos⟩) a1

theorem fU_thaw (u : Nat) (q : PTQ) :
    fU u (thaw q).peers ≤ fU u q.peers ∧
    ((∃ tr ∈ q.peers, tr.id ∈ q.frozen ∧ hasU u tr.pending = true ∧ 0 < tr.freeze) →
      fU u (thaw q).peers < fU u q.peers) := fU_thawFold u q.frozen q

/-- an empty-handed PopTasks does not raise `fU` -/
theorem fU_pop (u : Nat) (q : PTQ) (hid : ∀ a ∈ q.peers, ∀ b ∈ q.peers, a.id = b.id → a = b) :
    fU u (pop q 1).1.peers ≤ fU u q.peers := by
  rcases pop_cases q 1 with ⟨_, hpop⟩ | ⟨tr, hpk, _, _, _, _, hcase⟩
  · rw [hpop]; exact Nat.le_refl _
  · obtain ⟨htr, _⟩ := peek_some hpk
    obtain ⟨hidr, hfz, new, _, _, _, hsub, _⟩ := popLoop_spec q.cap 1 (tr.pending.length + 1) tr [] 0
    generalize popLoop q.cap 1 (tr.pending.length + 1) tr [] 0 = r at *
    rcases hcase with ⟨hp, _⟩ | ⟨hp, _⟩
    · rw [hp]; exact sumBy_filter_le _ _ _
    · rw [hp]
      simp only [fU, setT]
      apply sumBy_map_le
      intro x hx
      split
      · rename_i h
        have : x = tr := hid x hx tr htr (by simp at h; rw [h, hidr])
        subst this
        by_cases hr : hasU u r.1.pending = true
        · obtain ⟨y, hy, hyu⟩ := hasU_mem hr
          have : hasU u x.pending = true := hasU_of_mem (hsub y hy) hyu
          simp [hr, this, hfz]
        · simp [hr]
      · exact Nat.le_refl _

/-- all workers idle, `u` waiting, and the tick's PopTasks came back empty: then `u`'s tracker was
    frozen and the ThawRound of that tick lowered its freeze value -/
theorem tick_fU {s : Sys} {u : Nat} (hI : Inv s) (hall : ∀ w ∈ s.workers, w = .idle)
    (hp : pendingUid u s = true) (hnil : (pop (thaw s.q) 1).2.tasks = []) :
    fU u (pop (thaw s.q) 1).1.peers < fU u s.q.peers := by
  have hIt := hI.thaw
  apply Nat.lt_of_le_of_lt (fU_pop u (thaw s.q) hIt.idinj)
  apply (fU_thaw u s.q).2
  obtain ⟨t0, ht0, hu0⟩ := pendingUid_iff.mp hp
  obtain ⟨t1, ht1, _, hp1, ha1, hf1⟩ := thaw_asc s.q t0 ht0
  have hne : (thaw s.q).peers ≠ [] := fun h => by rw [h] at ht1; cases ht1
  obtain ⟨m, hm⟩ := peek_isSome (thaw s.q) hne
  obtain ⟨hmmem, hmmin⟩ := peek_some hm
  have ht0p : t0.pending ≠ [] := by
    intro h; rw [h] at hu0; simp [hasU] at hu0
  have hmp : m.pending ≠ [] := peek_pending hm ⟨t1, ht1, by rw [hp1]; exact ht0p⟩
  have hnil' : (popLoop (thaw s.q).cap 1 (m.pending.length + 1) m [] 0).2 = [] := by
    rcases pop_cases (thaw s.q) 1 with ⟨hnone, _⟩ | ⟨tr, htr, _, htasks, _⟩
    · rw [hm] at hnone; cases hnone
    · rw [hm] at htr; cases htr
      rw [← htasks]; exact hnil
  -- nothing is active: every worker is idle
  have hsum : ∀ p v, sumBy (heldCnt p v) s.workers = 0 := by
    intro p v
    apply sumBy_eq_zero
    intro w hw; rw [hall w hw]; rfl
  obtain ⟨tm, htm, _, _, hma, _⟩ := (thaw_facts s.q).2.2.2.1 m hmmem
  have hmact : m.active = [] := by
    rw [hma]
    apply eq_nil_of_cntUid_zero
    intro v
    have := hI.acnt tm htm v
    rw [hsum] at this; omega
  have hmf : 0 < m.freeze := by
    apply Classical.byContradiction
    intro hnot
    have hz : m.freeze = 0 := by omega
    apply popLoop_nonempty (thaw s.q).cap 1 m.pending.length m (Nat.le_refl 1) hz hmp _ hnil'
    unfold Tracker.activeWork; rw [hmact]; simp only [sumWork]; omega
  -- `m` is minimal, so `u`'s tracker is frozen at least as much
  have hless := isMin_spec hmmin ht1
  have h1f : m.freeze ≤ t1.freeze := by
    unfold peerLess at hless
    have a1 : ¬ (t1.pending.length == 0) = true := by simp [hp1]; exact ht0p
    have a2 : ¬ (m.pending.length == 0) = true := by simp; exact hmp
    rw [if_neg a1, if_neg a2] at hless
    apply Classical.byContradiction
    intro hnot
    have hlt : t1.freeze < m.freeze := by omega
    have b1 : ¬ (t1.freeze > m.freeze) := by omega
    rw [if_neg b1, if_pos hlt] at hless
    cases hless
  have h0f : 0 < t0.freeze := by omega
  exact ⟨t0, ht0, hI.frozen t0 ht0 h0f, hu0, h0f⟩

end GS.TQ
