import GSProofs.C15
import GSProofs.Lemmas.MsgQueueOverlap
/-!
# C15 while two queues of one peer overlap — the ledger modulo the other queue's bytes

`GS.C15.SoloReachable` (C15.lean) forbids EVERY allocator call on the queue's own peer by another
queue (`soloFrom`).  The known finding `overlap-release-wipes-successor` only needs one of them
excluded: the other queue's `ReleasePeerMemory(p)` (AUDIT_3 #8, AUDIT_4 #11).  This file states the
ledger under the weaker assumption, and proves it for the other queue's steps.

Ghost `o` = bytes the OTHER queue currently holds on `p`'s allocator entry.  The model's `Act.env op`
does not say who owns a ticket, so ownership is by ticket range: this queue's tickets are
`0 … nextTicket-1`, the other queue's `AllocateBlockMemory` calls carry tickets `≥ B` for a bound
`B ≥ nextTicket` (in Go a ticket is the call's response channel: disjoint by construction).
`o` is replayed from the allocator events (`otherAct`): `+ amount` for each `granted p t amount` with
`t ≥ B` — whichever call triggered the grant —, `- n` for each `ReleaseBlockMemory(p, n)` by the other
queue, and `0` after THIS queue's own exit (its `ReleasePeerMemory(p)` wipes the other queue's
bytes: the finding seen from the other side).

Full statement (S'), for every schedule `acts` with `overlapFrom` (own-peer `env` calls are
`alloc` with a ticket `≥ B` or `release n` with `n ≤ o`; never `releasePeer p`) and `cleanFrom`:
    `AllocatedForPeer p = heldBuilders + heldInFlight + heldGranted + o`,  idle ⇒ `AllocatedForPeer p = o`.

Proved here:
* `overlap_env_step`, `overlap_alloc_own`, `overlap_release_own`: each step of the other queue (and of
  other peers) preserves the invariant `OInv B s o` (= `LInv` modulo `o`, `Coupled` restricted to this
  queue's tickets) from ANY state satisfying it, with the ghost replayed; builders and the message in
  flight are untouched; an `alloc` moves `AllocatedForPeer p` and `o` by the same amount and leaves
  `held` unchanged; a `release n` takes exactly `n` from the entry and from `o` (and may grant waiting
  callers of either queue: their bytes go to `heldGranted` resp. `o`).
* `overlap_episode_partial`, `overlap_idle_partial`, `overlap_then_solo_partial`: (S') for schedules of
  the shape  solo history ++ any allowed episode of the other queue / other peers ++ (once the other
  queue holds and awaits nothing) any further solo history — "partial" = this queue's own goroutine
  and callers take no step DURING the episode.
* `overlap_full_of_ownSteps`: (S') for ALL schedules follows from the one remaining obligation
  `OwnSteps` (this queue's own steps preserve `OInv`, the ghost growing by the grants to the other
  queue's tickets that the step's releases caused).  `OwnSteps` is NOT proved (it is `LInv`'s step
  lemmas, MsgQueueLedger*.lean, re-done with the slack `o`); it is tested on mixed runs below.
* counterexamples for the two exclusions that remain: `other_over_release_counterexample` (`n > o`),
  `own_exit_wipes_other` (this queue's exit while `o > 0`); the third is C15.lean
  `successor_wiped_counterexample` (`releasePeer p` by the other queue).
-/
namespace GS.C15
open GS.MQ GS.Alloc

/-- the allocator events of one step, read off the log -/
def newMem (pick : Pick) (s : MQ.State) (a : Act) : List Alloc.Event :=
  (memOf (step pick s a).log).drop (memOf s.log).length

/-- the ghost `o` after one act -/
def otherAct (B : Nat) (pick : Pick) (s : MQ.State) (o : Nat) : Act → Nat
  | .env op => otherEnv B pick s o op
  | .ack ok => if s.pc == .exiting then 0 else o + amounts (forT B (grantsOf s.peer (newMem pick s (.ack ok))))
  | a => o + amounts (forT B (grantsOf s.peer (newMem pick s a)))

def otherRun (B : Nat) (pick : Pick) : MQ.State → Nat → List Act → Nat
  | _, o, [] => o
  | s, o, a :: r => otherRun B pick (step pick s a) (otherAct B pick s o a) r

/-- the weaker schedule assumption: on this queue's own peer somebody else may allocate (tickets
    `≥ B`) and release what the other queue holds, but not `ReleasePeerMemory`; this queue's own
    tickets stay below `B` -/
def overlapAct (B : Nat) (s : MQ.State) (o : Nat) : Act → Bool
  | .env op => overlapOp B s o op
  | .build _ => decide (s.nextTicket < B)
  | _ => true

def overlapFrom (B : Nat) (pick : Pick) : MQ.State → Nat → List Act → Bool
  | _, _, [] => true
  | s, o, a :: r => overlapAct B s o a && overlapFrom B pick (step pick s a) (otherAct B pick s o a) r

/-! ## the other queue's steps -/

section
variable {pick : Pick} (hp : Admissible pick)
include hp

/-- **One step of the other queue / of another peer.**  From any state with
    `AllocatedForPeer p = held + o` (`OInv`), an allowed `Act.env op` leads to a state with
    `AllocatedForPeer p = held' + o'`, `o'` replayed from the step's events; this queue's builders and
    message in flight are untouched. -/
theorem overlap_env_step {B : Nat} {s : MQ.State} {o : Nat} (h : OInv B s o) (op : Alloc.Op)
    (hop : overlapOp B s o op = true) :
    OInv B (step pick s (.env op)) (otherAct B pick s o (.env op)) ∧
    allocatedFor (step pick s (.env op)).alloc s.peer
      = heldBuilders s + heldInFlight s + heldGranted (step pick s (.env op)) + otherAct B pick s o (.env op) := by
  obtain ⟨e1, e2, e3, e4⟩ := env_oinv hp h op hop
  refine ⟨e1, ?_⟩
  have := e1.ledger_held
  rw [e4] at this
  rw [this]
  unfold held heldBuilders heldInFlight
  rw [e2, e3]
  rfl

/-- **The other queue reserves** (`AllocateBlockMemory(p, n)` with one of its tickets): whether it is
    granted at once or has to wait, `AllocatedForPeer p` and `o` move by the same amount and nothing
    this queue holds changes. -/
theorem overlap_alloc_own {B : Nat} {s : MQ.State} {o : Nat} (h : OInv B s o) (n t : Nat) (ht : B ≤ t) :
    held (step pick s (.env (.alloc s.peer n t))) = held s ∧
    allocatedFor (step pick s (.env (.alloc s.peer n t))).alloc s.peer + o
      = allocatedFor s.alloc s.peer + otherAct B pick s o (.env (.alloc s.peer n t)) ∧
    (otherAct B pick s o (.env (.alloc s.peer n t)) = o ∨ otherAct B pick s o (.env (.alloc s.peer n t)) = o + n) := by
  have hop : overlapOp B s o (.alloc s.peer n t) = true := by simp [overlapOp, ht]
  obtain ⟨e1, e2, e3, e4⟩ := env_oinv hp h (.alloc s.peer n t) hop
  have hw : (step pick s (.env (.alloc s.peer n t))).waiters = s.waiters := by
    show answerWaiters s.peer s.waiters (Alloc.step pick s.alloc (.alloc s.peer n t)).2 = s.waiters
    rw [answerWaiters_dropF B s.peer _ s.waiters h.cpl.tickets]
    rcases alloc_own (pick := pick) h.cpl.ainv s.peer n t with ⟨he, _⟩ | ⟨he, _⟩
    · rw [he, dropF_granted, if_pos ⟨rfl, ht⟩]; rfl
    · rw [he]; rfl
  have hh : held (step pick s (.env (.alloc s.peer n t))) = held s := by
    unfold held heldBuilders heldInFlight heldGranted
    rw [e2, e3, hw]
  have l1 := e1.ledger_held
  have l0 := h.ledger_held
  rw [e4, hh] at l1
  have hoe : otherAct B pick s o (.env (.alloc s.peer n t)) = otherEnv B pick s o (.alloc s.peer n t) := rfl
  refine ⟨hh, by omega, ?_⟩
  show otherEnv B pick s o (.alloc s.peer n t) = o ∨ otherEnv B pick s o (.alloc s.peer n t) = o + n
  unfold otherEnv
  have hf : forT B [(t, n)] = [(t, n)] := by
    unfold forT; rw [List.filter_cons_of_pos (by simp; omega)]; rfl
  rcases alloc_own (pick := pick) h.cpl.ainv s.peer n t with ⟨he, _⟩ | ⟨he, _⟩
  · right; rw [he]; simp only [grantsOf, if_true, hf, releasedSum]; rfl
  · left; rw [he]; rfl

/-- **The other queue releases** `n ≤ o` of its bytes (`ReleaseBlockMemory(p, n)`: a message of its
    own was sent, failed, or was scrubbed): exactly `n` bytes leave the entry and `o`; reservations
    the release lets through go to `o` (the other queue's tickets) or to this queue's granted callers. -/
theorem overlap_release_own {B : Nat} {s : MQ.State} {o : Nat} (h : OInv B s o) (n : Nat) (hn : n ≤ o) :
    releasedSum s.peer (Alloc.step pick s.alloc (.release s.peer n)).2 = n ∧
    otherAct B pick s o (.env (.release s.peer n))
      = o - n + amounts (forT B (grantsOf s.peer (Alloc.step pick s.alloc (.release s.peer n)).2)) ∧
    allocatedFor (step pick s (.env (.release s.peer n))).alloc s.peer
      = held (step pick s (.env (.release s.peer n))) + otherAct B pick s o (.env (.release s.peer n)) := by
  have hop : overlapOp B s o (.release s.peer n) = true := by simp [overlapOp, hn]
  have ho : o ≤ tot s.alloc s.peer := by have := h.ledger; omega
  obtain ⟨_, _, hr⟩ := overlap_view hp h.cpl (.release s.peer n) hop ho
  simp only [if_true] at hr
  obtain ⟨e1, _, _, e4⟩ := env_oinv hp h (.release s.peer n) hop
  refine ⟨hr, ?_, ?_⟩
  · show otherEnv B pick s o (.release s.peer n) = _
    unfold otherEnv; rw [hr]; omega
  · have := e1.ledger_held; rw [e4] at this; exact this

end

/-! ## whole schedules -/

section
variable {pick : Pick} (hp : Admissible pick) {peer mr mt mp : Nat} (ht : mt < W) (hm : mp < W)
include hp ht hm

/-- **(S') after an episode of the other queue** — partial: this queue takes no step of its own during
    the episode.  After ANY solo history, let the other queue of the same peer (and other peers)
    perform any allowed sequence of allocator calls (`overlapOps`: on `p`, allocations with tickets
    `≥ B` and releases of at most what the other queue holds; no `ReleasePeerMemory(p)`).  Then
    `AllocatedForPeer p` = this queue's builders + message in flight + granted callers + the other
    queue's bytes, where builders and message in flight are those before the episode. -/
theorem overlap_episode_partial {B : Nat} {s : MQ.State} (h : SoloReachable pick peer mr mt mp s)
    (hB : s.nextTicket ≤ B) (ops : List Alloc.Op) (hops : overlapOps B pick s 0 ops = true) :
    allocatedFor (runActs pick s (ops.map Act.env)).alloc s.peer
      = heldBuilders s + heldInFlight s + heldGranted (runActs pick s (ops.map Act.env))
        + otherOps B pick s 0 ops ∧
    OInv B (runActs pick s (ops.map Act.env)) (otherOps B pick s 0 ops) := by
  have h0 : OInv B s 0 := (h.inv hp ht hm).1.toO hB
  obtain ⟨i1, i2, i3, i4⟩ := envs_oinv hp ops h0 hops
  refine ⟨?_, i1⟩
  have := i1.ledger_held
  rw [i4] at this
  rw [this]
  unfold held heldBuilders heldInFlight
  rw [i2, i3]

/-- **Idle ⇒ only the other queue's bytes** (partial as above): if after the episode nothing is
    queued, nothing is in flight and no caller of this queue holds a granted reservation, then
    `AllocatedForPeer p` is exactly what the other queue holds. -/
theorem overlap_idle_partial {B : Nat} {s : MQ.State} (h : SoloReachable pick peer mr mt mp s)
    (hB : s.nextTicket ≤ B) (ops : List Alloc.Op) (hops : overlapOps B pick s 0 ops = true)
    (hpc : s.pc = .idle) (hb0 : ∀ b ∈ s.builders, b.empty = true)
    (hw : ∀ w ∈ (runActs pick s (ops.map Act.env)).waiters, w.answer ≠ some true) :
    allocatedFor (runActs pick s (ops.map Act.env)).alloc s.peer = otherOps B pick s 0 ops := by
  obtain ⟨hl, _⟩ := overlap_episode_partial hp ht hm h hB ops hops
  have h' := (h.inv hp ht hm).1
  have h1 : heldBuilders s = 0 := by
    rw [heldBuilders_eq]
    have : ∀ (bs : List Builder), (∀ b ∈ bs, BInv b) → (∀ b ∈ bs, b.empty = true) → hb bs = 0 := by
      intro bs
      induction bs with
      | nil => intros; rfl
      | cons b r ih =>
        intro hi he
        rw [hb_cons, empty_accounted (hi b (by simp)) (he b (by simp)),
          ih (fun x hx => hi x (List.mem_cons_of_mem _ hx)) (fun x hx => he x (List.mem_cons_of_mem _ hx))]
    exact this _ h'.binv hb0
  have h2 : heldInFlight s = 0 := heldInFlight_idle hpc
  have h3 : heldGranted (runActs pick s (ops.map Act.env)) = 0 := by
    unfold heldGranted
    have : (runActs pick s (ops.map Act.env)).waiters.filter (·.answer == some true) = [] := by
      apply List.filter_eq_nil_iff.mpr
      intro w hw'
      have := hw w hw'
      simpa using this
    rw [this]; rfl
  omega

/-- **After the overlap** (partial as above): once the other queue holds nothing (`o = 0`) and none of
    its reservations is waiting, the solo invariant holds again, and with it — for every further solo
    history `acts` — the exact ledger `AllocatedForPeer p = held` of `exactly_once_partial`. -/
theorem overlap_then_solo_partial {B : Nat} {s : MQ.State} (h : SoloReachable pick peer mr mt mp s)
    (hB : s.nextTicket ≤ B) (ops : List Alloc.Op) (hops : overlapOps B pick s 0 ops = true)
    (ho : otherOps B pick s 0 ops = 0)
    (hf : forT B (pendTA (runActs pick s (ops.map Act.env)).alloc s.peer) = [])
    (acts : List Act) (hs : soloFrom pick (runActs pick s (ops.map Act.env)) acts = true)
    (hc : cleanFrom pick (runActs pick s (ops.map Act.env)) acts = true) :
    let s' := runActs pick (runActs pick s (ops.map Act.env)) acts
    allocatedFor s'.alloc s'.peer = heldBuilders s' + heldInFlight s' + heldGranted s' := by
  obtain ⟨_, i1⟩ := overlap_episode_partial hp ht hm h hB ops hops
  obtain ⟨_, _, _, i4⟩ := envs_oinv hp ops ((h.inv hp ht hm).1.toO hB) hops
  rw [ho] at i1
  have hl : LInv (runActs pick s (ops.map Act.env)) := i1.toSolo (by rw [i4]; exact hf)
  have hcn : CN (runActs pick s (ops.map Act.env)) := by
    have : ∀ (l : List Act) (x : MQ.State), CN x → CN (runActs pick x l) := by
      intro l
      induction l with
      | nil => intro x hx; exact hx
      | cons a r ih => intro x hx; exact ih _ (step_cn pick hx a)
    exact this _ _ (h.inv hp ht hm).2
  exact (runActs_I hp ⟨hl, hcn⟩ acts hs hc).1.ledger

end

/-! ## the remaining obligation, and (S') from it -/

/-- THE REST (not proved): every step of this queue itself — `build`, `wake`, `run`, `ack`,
    `shutdown` — preserves `OInv`, the ghost replayed by `otherAct` (it grows by the grants to the other
    queue's tickets caused by this queue's releases; this queue's exit resets it to 0).  This is
    `step_I` (MsgQueueReach) with the slack `o` threaded through MsgQueueLedger*.lean. -/
def OwnSteps (B : Nat) (pick : Pick) : Prop :=
  ∀ (s : MQ.State) (o : Nat) (a : Act), OInv B s o → CN s → (∀ op, a ≠ .env op) →
    overlapAct B s o a = true → cleanAct s a = true → OInv B (step pick s a) (otherAct B pick s o a)

/-- **(S') for all schedules, from `OwnSteps`.**  With the remaining obligation, on every schedule in
    which the other queue never calls `ReleasePeerMemory(p)` (`overlapFrom`) and this queue's exit finds
    no granted caller (`cleanFrom`): `AllocatedForPeer p = held + o` in every reachable state. -/
theorem overlap_full_of_ownSteps {pick : Pick} (hp : Admissible pick) {B : Nat} (hown : OwnSteps B pick) :
    ∀ (acts : List Act) (s : MQ.State) (o : Nat), OInv B s o → CN s →
      overlapFrom B pick s o acts = true → cleanFrom pick s acts = true →
      OInv B (runActs pick s acts) (otherRun B pick s o acts) ∧
      allocatedFor (runActs pick s acts).alloc (runActs pick s acts).peer
        = held (runActs pick s acts) + otherRun B pick s o acts
  | [], s, o, h, _, _, _ => ⟨h, h.ledger_held⟩
  | a :: r, s, o, h, hcn, hov, hcl => by
    simp only [overlapFrom, cleanFrom, Bool.and_eq_true] at hov hcl
    have hstep : OInv B (step pick s a) (otherAct B pick s o a) := by
      cases a with
      | env op => exact (env_oinv hp h op hov.1).1
      | build tx => exact hown s o _ h hcn (fun op he => by cases he) hov.1 hcl.1
      | wake t => exact hown s o _ h hcn (fun op he => by cases he) hov.1 hcl.1
      | run pw => exact hown s o _ h hcn (fun op he => by cases he) hov.1 hcl.1
      | ack ok => exact hown s o _ h hcn (fun op he => by cases he) hov.1 hcl.1
      | shutdown => exact hown s o _ h hcn (fun op he => by cases he) hov.1 hcl.1
    exact overlap_full_of_ownSteps hp hown r _ _ hstep (step_cn pick hcn a) hov.2 hcl.2

/-! ## the exclusions that remain are necessary -/

/-- **`n ≤ o` is needed**: the other queue holds 1000 bytes and releases 1500 (more than it holds —
    e.g. the over-release of finding `dead-queue-over-release` happening in the other queue): the
    excess is taken from THIS queue's reservation, 2000 bytes in flight but 1500 accounted. -/
theorem other_over_release_counterexample :
    ∃ s, Reachable pickMin 0 1 (2^30) (2^30) s ∧ s.pc ≠ .exited ∧ heldInFlight s = 2000 ∧
      allocatedFor s.alloc s.peer = 1500 ∧
      overlapFrom 100 pickMin (init 0 1 (2^30) (2^30)) 0
        [.env (.alloc 0 1000 100),
         .build { who := .response, req := 0, sub := 0, items := [.block 1 2000 true] }, .run true, .ack true] = true :=
  ⟨runActs pickMin (init 0 1 (2^30) (2^30))
      [.env (.alloc 0 1000 100),
       .build { who := .response, req := 0, sub := 0, items := [.block 1 2000 true] }, .run true, .ack true,
       .env (.release 0 1500)],
    ⟨_, rfl⟩, by decide, by decide, by decide, by decide⟩

/-- **This queue's own exit wipes the other queue's bytes** (`overlap-release-wipes-successor` seen from
    the stopping queue): the other queue holds 1000 bytes; this queue is shut down and exits; its
    deferred `ReleasePeerMemory(p)` leaves 0 accounted — which is why `otherAct` resets the ghost at
    the exit step, and why (S') is a statement about ONE queue's view up to its own exit. -/
theorem own_exit_wipes_other :
    ∃ s, Reachable pickMin 0 1 (2^30) (2^30) s ∧ s.pc = .exited ∧ allocatedFor s.alloc s.peer = 0 ∧ held s = 0 ∧
      otherRun 100 pickMin (init 0 1 (2^30) (2^30)) 0 [.env (.alloc 0 1000 100), .shutdown, .run false] = 1000 ∧
      otherRun 100 pickMin (init 0 1 (2^30) (2^30)) 0 [.env (.alloc 0 1000 100), .shutdown, .run false, .ack true] = 0 :=
  ⟨runActs pickMin (init 0 1 (2^30) (2^30)) [.env (.alloc 0 1000 100), .shutdown, .run false, .ack true],
    ⟨_, rfl⟩, by decide, by decide, by decide, by decide, by decide⟩

/-! ## non-vacuity and tests -/

/-- non-vacuity of `overlap_episode_partial` / `overlap_idle_partial`: peer limit 3000; this queue has
    1000 bytes in flight; the other queue reserves 1200 (granted) and 2000 (has to wait:
    1000 + 1200 + 2000 > 3000), another peer allocates, the other queue releases its 1200 and the
    release lets its waiting 2000 through: 3000 accounted = 1000 (this queue) + 2000 (the other). -/
example : ∃ s ops, SoloReachable pickMin 0 1 (2^30) 3000 s ∧ s.nextTicket ≤ 100 ∧
    overlapOps 100 pickMin s 0 ops = true ∧ heldInFlight s = 1000 ∧
    otherOps 100 pickMin s 0 (ops.take 3) = 1200 ∧
    forT 100 (pendTA (runActs pickMin s ((ops.take 3).map Act.env)).alloc 0) = [(101, 2000)] ∧
    otherOps 100 pickMin s 0 ops = 2000 ∧
    allocatedFor (runActs pickMin s (ops.map Act.env)).alloc 0 = 3000 :=
  ⟨runActs pickMin (init 0 1 (2^30) 3000)
      [.build { who := .response, req := 0, sub := 0, items := [.block 1 1000 true] }, .run true, .ack true],
    [.alloc 0 1200 100, .alloc 7 10 3, .alloc 0 2000 101, .release 0 1200],
    ⟨_, by decide, by decide, rfl⟩, by decide, by decide, by decide, by decide, by decide, by decide, by decide⟩

/-- non-vacuity of `overlap_then_solo_partial`: the same episode, then the other queue releases its 2000
    bytes too (`o = 0`, nothing of it waits); this queue's message is sent and a new one is built. -/
example : ∃ s ops acts, SoloReachable pickMin 0 1 (2^30) 3000 s ∧ s.nextTicket ≤ 100 ∧
    overlapOps 100 pickMin s 0 ops = true ∧ otherOps 100 pickMin s 0 ops = 0 ∧
    forT 100 (pendTA (runActs pickMin s (ops.map Act.env)).alloc 0) = [] ∧
    soloFrom pickMin (runActs pickMin s (ops.map Act.env)) acts = true ∧
    cleanFrom pickMin (runActs pickMin s (ops.map Act.env)) acts = true ∧
    allocatedFor (runActs pickMin (runActs pickMin s (ops.map Act.env)) acts).alloc 0 = 700 :=
  ⟨runActs pickMin (init 0 1 (2^30) 3000)
      [.build { who := .response, req := 0, sub := 0, items := [.block 1 1000 true] }, .run true, .ack true],
    [.alloc 0 1200 100, .alloc 7 10 3, .alloc 0 2000 101, .release 0 1200, .release 0 2000],
    [.ack true, .build { who := .response, req := 1, sub := 1, items := [.block 2 700 true] }],
    ⟨_, by decide, by decide, rfl⟩, by decide, by decide, by decide, by decide, by decide, by decide, by decide⟩

/-- TEST (two sample runs, not a theorem) of `OwnSteps` / (S'): this queue's own steps interleaved with
    the other queue's; after every prefix `AllocatedForPeer p = held + o` with the replayed ghost. -/
def ledgerTrace (B : Nat) (pick : Pick) : MQ.State → Nat → List Act → List Bool
  | s, o, [] => [allocatedFor s.alloc s.peer == held s + o]
  | s, o, a :: r => (allocatedFor s.alloc s.peer == held s + o) :: ledgerTrace B pick (step pick s a) (otherAct B pick s o a) r

def sampleTx (r sz : Nat) : Tx := { who := .response, req := r, sub := r, items := [.block (r + 1) sz true] }

def sampleRun1 : List Act :=
  [.build (sampleTx 0 1000), .env (.alloc 0 1500 100), .run true, .ack true, .build (sampleTx 1 1000),
   .env (.alloc 0 800 101), .ack true, .wake 1, .env (.release 0 1500), .run true, .ack true, .ack true,
   .env (.release 0 800), .shutdown, .run false, .ack true]

def sampleRun2 : List Act :=
  [.env (.alloc 0 2500 100), .build (sampleTx 0 1000), .env (.alloc 0 400 101), .env (.alloc 1 5 7),
   .env (.release 0 2500), .wake 0, .run true, .ack true, .ack true, .build (sampleTx 1 2900),
   .env (.alloc 0 200 102), .ack true, .ack false, .shutdown, .run false, .ack true]

example : (ledgerTrace 100 pickMin (init 0 1 (2^30) 3000) 0 sampleRun1).all id = true ∧
    overlapFrom 100 pickMin (init 0 1 (2^30) 3000) 0 sampleRun1 = true ∧
    (ledgerTrace 100 pickMin (init 0 1 (2^30) 3000) 0 sampleRun2).all id = true ∧
    overlapFrom 100 pickMin (init 0 1 (2^30) 3000) 0 sampleRun2 = true := by
  refine ⟨by decide, by decide, by decide, by decide⟩

end GS.C15
