// Package budgetstack: second stream for C07 (component "budgetstack").  Every `stack` op runs one
// request between two real GraphSync instances over a libp2p mocknet, with a link budget set
// globally (MaxLinksPerOutgoingRequests / MaxLinksPerIncomingRequests) and/or per request (hook
// MaxLinks) on the requestor or on the responder, and reports what the enforcing peer did.
//
//	dag <seed> <maxBlocks> <flags> <gen|matcher>    -> ok
//	stack <req|resp> <global> <perReq> <LT>         -> loads=<n> out=<ok|budget|…>     (complete stores)
//	stackskip req <global> <perReq> <k> <LT>        -> same; the requestor already holds the blocks of the first k
//	                                                   loads and sends do-not-send-first-blocks=k
//	stackseq <req|resp> <global> <p1,p2,…> <LT>     -> loads=<n1,n2,…> out=<o1,o2,…>   SUCCESSIVE requests between ONE pair of
//	                                                   instances, request i with per-request limit p_i (0 = none): the budget
//	                                                   of a request must not depend on the requests served before it
package budgetstack

import (
	"bufio"
	"context"
	"errors"
	"fmt"
	"math"
	"math/rand"
	"os"
	"strconv"
	"strings"
	"sync"
	"time"

	"github.com/ipfs/go-cid"
	logging "github.com/ipfs/go-log/v2"
	"github.com/ipld/go-ipld-prime/linking"
	cidlink "github.com/ipld/go-ipld-prime/linking/cid"
	"github.com/ipld/go-ipld-prime/storage/memstore"
	"github.com/ipld/go-ipld-prime/traversal"
	"github.com/libp2p/go-libp2p/core/peer"
	mocknet "github.com/libp2p/go-libp2p/p2p/net/mock"

	"github.com/ipfs/go-graphsync"
	"github.com/ipfs/go-graphsync/donotsendfirstblocks"
	gsimpl "github.com/ipfs/go-graphsync/impl"
	gsnet "github.com/ipfs/go-graphsync/network"

	"verifharness/budget"
	"verifharness/dag"
	"verifharness/reg"
)

func init() {
	reg.Register(&reg.Component{Name: "budgetstack", Gen: Gen, Run: Run})
}

type result struct {
	loads int
	seq   []int
	out   string
}

// exchange: one request with the given budgets; side = "req" | "resp"
func exchange(w *budget.World, side string, global, per uint64, skip int, ref []int) (res result) {
	ctx, cancel := context.WithTimeout(context.Background(), 20*time.Second)
	defer cancel()
	mn := mocknet.New()
	defer mn.Close()
	h1, err := mn.GenPeer()
	if err != nil {
		return result{out: "error:net"}
	}
	h2, err := mn.GenPeer()
	if err != nil {
		return result{out: "error:net"}
	}
	if err := mn.LinkAll(); err != nil {
		return result{out: "error:net"}
	}
	// the requestor starts with an empty store, so every block has to come from the responder
	ls1 := cidlink.DefaultLinkSystem()
	ls1.TrustedStorage = true
	st1 := &memstore.Store{}
	ls1.SetReadStorage(st1)
	ls1.SetWriteStorage(st1)
	// resumed transfer: the requestor already holds the blocks of the first `skip` loads and tells
	// the responder not to send them (do-not-send-first-blocks extension)
	var exts []graphsync.ExtensionData
	if skip > 0 {
		for i := 0; i < skip && i < len(ref); i++ {
			c := w.D.Cids[ref[i]]
			wr, commit, err := ls1.StorageWriteOpener(linking.LinkContext{})
			if err != nil {
				return result{out: "error:store"}
			}
			wr.Write(w.D.Data[c])
			commit(cidlink.Link{Cid: c})
		}
		exts = append(exts, graphsync.ExtensionData{Name: graphsync.ExtensionsDoNotSendFirstBlocks, Data: donotsendfirstblocks.EncodeDoNotSendFirstBlocks(int64(skip))})
	}
	var mu sync.Mutex
	var respLoads []int
	ls2 := w.D.LinkSystem(nil, func(_ linking.LinkContext, c cid.Cid) {
		mu.Lock()
		respLoads = append(respLoads, w.D.Index(c))
		mu.Unlock()
	})
	var o1, o2 []gsimpl.Option
	if side == "req" && global > 0 {
		o1 = append(o1, gsimpl.MaxLinksPerOutgoingRequests(global))
	}
	if side == "resp" && global > 0 {
		o2 = append(o2, gsimpl.MaxLinksPerIncomingRequests(global))
	}
	requestor := gsimpl.New(ctx, gsnet.NewFromLibp2pHost(h1), ls1, o1...)
	responder := gsimpl.New(ctx, gsnet.NewFromLibp2pHost(h2), ls2, o2...)
	if side == "req" && per > 0 {
		requestor.RegisterOutgoingRequestHook(func(_ peer.ID, _ graphsync.RequestData, ha graphsync.OutgoingRequestHookActions) {
			ha.MaxLinks(per)
		})
	}
	responder.RegisterIncomingRequestHook(func(_ peer.ID, _ graphsync.RequestData, ha graphsync.IncomingRequestHookActions) {
		ha.ValidateRequest()
		if side == "resp" && per > 0 {
			ha.MaxLinks(per)
		}
	})
	// link loads of the requestor's traversal, read off the public progress stream: every loaded
	// block shows up as the LastBlock of at least one visited node (its own root node)
	var reqBlocks []int
	seenPath := map[string]bool{}
	noteProgress := func(p graphsync.ResponseProgress) {
		if os.Getenv("BUDGET_DEBUG") != "" {
			fmt.Fprintf(os.Stderr, "progress path=%q lastblock=%q link=%v kind=%v\n", p.Path.String(), p.LastBlock.Path.String(), p.LastBlock.Link, p.Node.Kind())
		}
		key := "@" + p.LastBlock.Path.String()
		if p.LastBlock.Link == nil {
			key = "root"
		}
		if seenPath[key] {
			return
		}
		seenPath[key] = true
		if p.LastBlock.Link == nil {
			reqBlocks = append(reqBlocks, w.D.Index(w.D.Root))
		} else {
			reqBlocks = append(reqBlocks, w.D.Index(p.LastBlock.Link.(cidlink.Link).Cid))
		}
	}
	statusCh := make(chan graphsync.ResponseStatusCode, 4)
	responder.RegisterCompletedResponseListener(func(_ peer.ID, _ graphsync.RequestData, st graphsync.ResponseStatusCode) {
		select {
		case statusCh <- st:
		default:
		}
	})
	cancelledCh := make(chan struct{}, 4)
	responder.RegisterRequestorCancelledListener(func(peer.ID, graphsync.RequestData) {
		select {
		case cancelledCh <- struct{}{}:
		default:
		}
	})
	progress, errs := requestor.Request(ctx, h2.ID(), cidlink.Link{Cid: w.D.Root}, w.Sel, exts...)
	var reqErrs []error
	for progress != nil || errs != nil {
		select {
		case p, ok := <-progress:
			if !ok {
				progress = nil
			} else {
				noteProgress(p)
			}
		case e, ok := <-errs:
			if !ok {
				errs = nil
			} else {
				reqErrs = append(reqErrs, e)
				if os.Getenv("BUDGET_DEBUG") != "" {
					fmt.Fprintf(os.Stderr, "request error: %v\n", e)
				}
			}
		}
	}
	if ctx.Err() != nil {
		return result{out: "error:timeout"}
	}
	if side == "req" {
		mu.Lock()
		defer mu.Unlock()
		res.seq = append([]int{}, reqBlocks...)
		res.loads = len(reqBlocks)
		res.out = "ok"
		for _, e := range reqErrs {
			var be *traversal.ErrBudgetExceeded
			if errors.As(e, &be) || strings.Contains(e.Error(), "traversal budget exceeded") {
				res.out = "budget"
			} else if res.out == "ok" {
				res.out = "error:" + strings.ReplaceAll(e.Error(), " ", "_")
			}
		}
		return res
	}
	// responder side: wait for its own verdict on the response
	select {
	case st := <-statusCh:
		switch {
		case st.IsSuccess():
			res.out = "ok"
		case st == graphsync.RequestFailedUnknown:
			res.out = "budget" // with a complete store nothing else fails a response
		default:
			res.out = "error:" + st.String()
		}
	case <-cancelledCh:
		res.out = "error:cancelled"
	case <-ctx.Done():
		res.out = "error:timeout"
	}
	mu.Lock()
	defer mu.Unlock()
	res.seq = append([]int{}, respLoads...)
	res.loads = len(respLoads)
	return res
}

// exchangeSeq: successive requests between one requestor and one responder instance; request i carries the
// per-request limit pers[i] (0 = none) on the enforcing side.  Every request gets a fresh requestor-side
// store (persistence option chosen in the outgoing-request hook), so each one needs all blocks from the responder.
func exchangeSeq(w *budget.World, side string, global uint64, pers []uint64) (out []result) {
	ctx, cancel := context.WithTimeout(context.Background(), time.Duration(20*len(pers))*time.Second)
	defer cancel()
	fail := func(s string) []result {
		for len(out) < len(pers) {
			out = append(out, result{out: s})
		}
		return out
	}
	mn := mocknet.New()
	defer mn.Close()
	h1, err := mn.GenPeer()
	if err != nil {
		return fail("error:net")
	}
	h2, err := mn.GenPeer()
	if err != nil {
		return fail("error:net")
	}
	if err := mn.LinkAll(); err != nil {
		return fail("error:net")
	}
	ls1 := cidlink.DefaultLinkSystem()
	ls1.TrustedStorage = true
	st1 := &memstore.Store{}
	ls1.SetReadStorage(st1)
	ls1.SetWriteStorage(st1)
	var mu sync.Mutex
	var respLoads []int
	ls2 := w.D.LinkSystem(nil, func(_ linking.LinkContext, c cid.Cid) {
		mu.Lock()
		respLoads = append(respLoads, w.D.Index(c))
		mu.Unlock()
	})
	var o1, o2 []gsimpl.Option
	if side == "req" && global > 0 {
		o1 = append(o1, gsimpl.MaxLinksPerOutgoingRequests(global))
	}
	if side == "resp" && global > 0 {
		o2 = append(o2, gsimpl.MaxLinksPerIncomingRequests(global))
	}
	requestor := gsimpl.New(ctx, gsnet.NewFromLibp2pHost(h1), ls1, o1...)
	responder := gsimpl.New(ctx, gsnet.NewFromLibp2pHost(h2), ls2, o2...)
	var cur struct {
		sync.Mutex
		per  uint64
		name string
	}
	requestor.RegisterOutgoingRequestHook(func(_ peer.ID, _ graphsync.RequestData, ha graphsync.OutgoingRequestHookActions) {
		cur.Lock()
		defer cur.Unlock()
		ha.UsePersistenceOption(cur.name)
		if side == "req" && cur.per > 0 {
			ha.MaxLinks(cur.per)
		}
	})
	responder.RegisterIncomingRequestHook(func(_ peer.ID, _ graphsync.RequestData, ha graphsync.IncomingRequestHookActions) {
		cur.Lock()
		defer cur.Unlock()
		ha.ValidateRequest()
		if side == "resp" && cur.per > 0 {
			ha.MaxLinks(cur.per)
		}
	})
	statusCh := make(chan graphsync.ResponseStatusCode, 4)
	responder.RegisterCompletedResponseListener(func(_ peer.ID, _ graphsync.RequestData, st graphsync.ResponseStatusCode) {
		select {
		case statusCh <- st:
		default:
		}
	})
	cancelledCh := make(chan struct{}, 4)
	responder.RegisterRequestorCancelledListener(func(peer.ID, graphsync.RequestData) {
		select {
		case cancelledCh <- struct{}{}:
		default:
		}
	})
	for i, per := range pers {
		name := fmt.Sprintf("store%d", i)
		lsi := cidlink.DefaultLinkSystem()
		lsi.TrustedStorage = true
		sti := &memstore.Store{}
		lsi.SetReadStorage(sti)
		lsi.SetWriteStorage(sti)
		if err := requestor.RegisterPersistenceOption(name, lsi); err != nil {
			return fail("error:persistence")
		}
		cur.Lock()
		cur.per, cur.name = per, name
		cur.Unlock()
		mu.Lock()
		respLoads = nil
		mu.Unlock()
		var reqBlocks []int
		seenPath := map[string]bool{}
		progress, errs := requestor.Request(ctx, h2.ID(), cidlink.Link{Cid: w.D.Root}, w.Sel)
		var reqErrs []error
		for progress != nil || errs != nil {
			select {
			case p, ok := <-progress:
				if !ok {
					progress = nil
					continue
				}
				key := "@" + p.LastBlock.Path.String()
				if p.LastBlock.Link == nil {
					key = "root"
				}
				if seenPath[key] {
					continue
				}
				seenPath[key] = true
				if p.LastBlock.Link == nil {
					reqBlocks = append(reqBlocks, w.D.Index(w.D.Root))
				} else {
					reqBlocks = append(reqBlocks, w.D.Index(p.LastBlock.Link.(cidlink.Link).Cid))
				}
			case e, ok := <-errs:
				if !ok {
					errs = nil
				} else {
					reqErrs = append(reqErrs, e)
				}
			}
		}
		if ctx.Err() != nil {
			return fail("error:timeout")
		}
		var res result
		// the responder's own verdict on the response is awaited in both modes: the next request must not
		// start while this one is still being served
		select {
		case st := <-statusCh:
			switch {
			case st.IsSuccess():
				res.out = "ok"
			case st == graphsync.RequestFailedUnknown:
				res.out = "budget" // with a complete store nothing else fails a response
			default:
				res.out = "error:" + st.String()
			}
		case <-cancelledCh:
			res.out = "error:cancelled"
		case <-ctx.Done():
			return fail("error:timeout")
		}
		if side == "req" {
			// a requestor-side budget error cancels the request: the responder sees a cancel, or had
			// already completed — either is fine, the requestor's view decides
			res.seq = reqBlocks
			res.loads = len(reqBlocks)
			res.out = "ok"
			for _, e := range reqErrs {
				var be *traversal.ErrBudgetExceeded
				if errors.As(e, &be) || strings.Contains(e.Error(), "traversal budget exceeded") {
					res.out = "budget"
				} else if res.out == "ok" {
					res.out = "error:" + strings.ReplaceAll(e.Error(), " ", "_")
				}
			}
		} else {
			mu.Lock()
			res.seq = append([]int{}, respLoads...)
			res.loads = len(respLoads)
			mu.Unlock()
		}
		_ = requestor.UnregisterPersistenceOption(name)
		out = append(out, res)
	}
	return out
}

// effective budget from the property text: the smaller non-zero of the two, 0 = no budget
func effective(global, per uint64) uint64 {
	switch {
	case global == 0:
		return per
	case per == 0:
		return global
	case per < global:
		return per
	default:
		return global
	}
}

func Run(cases []reg.Case, out *reg.Out) {
	logging.SetAllLoggers(logging.LevelFatal)
	for _, c := range cases {
		out.BeginCase(c)
		var w *budget.World
		var fullLT string
		var ref []int
		for _, op := range c.Ops {
			switch op[0] {
			case "dag":
				ww, err := budget.BuildWorld(op)
				if err != nil {
					out.Line("bad-op")
					continue
				}
				lt, _, err := dag.Reference(ww.D, ww.Sel, nil)
				if err != nil {
					out.Line("bad-op")
					continue
				}
				w, fullLT = ww, budget.FormatLT(lt)
				ref, _ = budget.RefLoads(w, nil)
				out.Line("ok")
			case "stack", "stackskip":
				skip := 0
				if op[0] == "stackskip" {
					// stackskip req <global> <perReq> <k> <LT>
					if len(op) < 7 || op[1] != "req" {
						out.Line("bad-op")
						continue
					}
					k, err := strconv.Atoi(op[4])
					if err != nil || k < 0 {
						out.Line("bad-op")
						continue
					}
					skip = k
					op = append(append([]string{}, op[:4]...), op[5:]...)
				}
				if w == nil || len(op) < 6 || (op[1] != "req" && op[1] != "resp") {
					out.Line("bad-op")
					continue
				}
				g, e1 := strconv.ParseUint(op[2], 10, 64)
				p, e2 := strconv.ParseUint(op[3], 10, 64)
				if e1 != nil || e2 != nil {
					out.Line("bad-op")
					continue
				}
				if strings.Join(op[4:], " ") != fullLT {
					out.Line("lt-mismatch expected %s", fullLT)
					continue
				}
				r := exchange(w, op[1], g, p, skip, ref)
				if skip > 0 {
					out.Cov("stack:do-not-send-first-blocks")
				}
				out.Line("loads=%d out=%s", r.loads, r.out)
				out.Cov("stack:" + op[1] + ":" + strings.SplitN(r.out, ":", 2)[0])
				switch {
				case g > 0 && p > 0:
					out.Cov("stack:both")
				case g > 0:
					out.Cov("stack:global")
				case p > 0:
					out.Cov("stack:per-request")
				default:
					out.Cov("stack:none")
				}
				n := effective(g, p)
				where := fmt.Sprintf("%s stack (global %d, per-request %d, do-not-send-first-blocks %d, selector %s)", map[string]string{"req": "requestor", "resp": "responder"}[op[1]], g, p, skip, w.SelName)
				if strings.HasPrefix(r.out, "error:") {
					out.Fail("stack-error", "%s: unexpected outcome %s", where, r.out)
					continue
				}
				if n == 0 {
					if r.out == "budget" {
						out.Fail("enough", "%s: no budget configured but the request failed with a budget error", where)
					}
					continue
				}
				budget.Judge(out, where, n, ref, r.seq, r.out == "budget")
			case "stackseq":
				// stackseq <req|resp> <global> <p1,p2,…> <LT>
				if w == nil || len(op) < 6 || (op[1] != "req" && op[1] != "resp") {
					out.Line("bad-op")
					continue
				}
				g, e1 := strconv.ParseUint(op[2], 10, 64)
				var pers []uint64
				bad := e1 != nil
				for _, t := range strings.Split(op[3], ",") {
					p, e := strconv.ParseUint(t, 10, 64)
					if e != nil {
						bad = true
					}
					pers = append(pers, p)
				}
				if bad || len(pers) == 0 || len(pers) > 6 {
					out.Line("bad-op")
					continue
				}
				if strings.Join(op[4:], " ") != fullLT {
					out.Line("lt-mismatch expected %s", fullLT)
					continue
				}
				rs := exchangeSeq(w, op[1], g, pers)
				var ls, os_ []string
				for _, r := range rs {
					ls = append(ls, strconv.Itoa(r.loads))
					os_ = append(os_, r.out)
				}
				out.Line("loads=%s out=%s", strings.Join(ls, ","), strings.Join(os_, ","))
				out.Cov("stack:seq:" + op[1])
				for i, r := range rs {
					n := effective(g, pers[i])
					where := fmt.Sprintf("%s stack, request %d of %d between the same two instances (global %d, per-request limits %s, selector %s)", map[string]string{"req": "requestor", "resp": "responder"}[op[1]], i+1, len(rs), g, op[3], w.SelName)
					if strings.HasPrefix(r.out, "error:") {
						out.Fail("stack-error", "%s: unexpected outcome %s", where, r.out)
						continue
					}
					if n == 0 {
						if r.out == "budget" {
							out.Fail("enough", "%s: no budget configured but the request failed with a budget error", where)
						}
						continue
					}
					budget.Judge(out, where, n, ref, r.seq, r.out == "budget")
				}
			default:
				out.Line("bad-op")
			}
		}
	}
}

func Gen(seed int64, n int, tier string, w *bufio.Writer) {
	r := rand.New(rand.NewSource(seed))
	big := []uint64{math.MaxInt64, math.MaxInt64 + 1, math.MaxUint64, 1 << 40}
	for i := 0; i < n; i++ {
		fmt.Fprintf(w, "case s%d\n", i)
		ww, lt := budget.GenWorld(r, w, 1+r.Intn(7), true)
		ref, err := budget.RefLoads(ww, nil)
		if err != nil {
			continue
		}
		need := uint64(len(ref))
		pick := func() uint64 {
			switch k := r.Intn(12); {
			case k < 2:
				return 1
			case k < 3:
				return 2
			case k < 5:
				return need
			case k < 6 && need > 1:
				return need - 1
			case k < 7:
				return need + 1
			case k < 8:
				return big[r.Intn(len(big))]
			default:
				return 1 + uint64(r.Int63n(int64(need)+2))
			}
		}
		for j := 0; j < 3; j++ {
			side := []string{"req", "resp"}[r.Intn(2)]
			var g, p uint64
			switch r.Intn(4) {
			case 0:
				g = pick()
			case 1:
				p = pick()
			case 2:
				g, p = pick(), pick()
			default:
				if r.Intn(3) == 0 {
					g, p = 0, 0
				} else {
					g, p = pick(), pick()
				}
			}
			fmt.Fprintf(w, "stack %s %d %d %s\n", side, g, p, lt)
		}
		if r.Intn(2) == 0 {
			// successive requests between the same two instances, each with its own per-request limit
			side := []string{"req", "resp"}[r.Intn(2)]
			g := uint64(0)
			if r.Intn(2) == 0 {
				g = pick()
			}
			k := 2 + r.Intn(3)
			var ps []string
			for j := 0; j < k; j++ {
				p := uint64(0)
				if r.Intn(4) != 0 {
					p = pick()
				}
				ps = append(ps, strconv.FormatUint(p, 10))
			}
			fmt.Fprintf(w, "stackseq %s %d %s %s\n", side, g, strings.Join(ps, ","), lt)
		}
		if need >= 2 && r.Intn(2) == 0 {
			// a resumed transfer under a requestor budget
			k := 1 + r.Intn(int(need)-1)
			g, p := pick(), uint64(0)
			if r.Intn(2) == 0 {
				g, p = 0, pick()
			}
			fmt.Fprintf(w, "stackskip req %d %d %d %s\n", g, p, k, lt)
		}
	}
}
