import GS.Model.Panics
import GS.Model.PanicsRes
import GS.Driver.Proto
/-! line-protocol driver for the panic-isolation model (component `panics`, property C22).

ops: `inject <side> <kind> <block> <n> <pre> <ls> [<val> [<lim>]]` and `handler <value> <cb|nocb>`; output, same
format as `gs-panics run`: `survived=<0|1> fired=<0|1> err=<none|panic|failed|…> cb=<k> val=<0|1|-> sibling=<0|1> late=<0|1> leak=<0|1>`
(late / leak come from the resource model `GS.Panics.Res.predictRes`: one worker, one task per peer, on the
node the fault is injected on, with the clean-up path generated from the source)
(`survived=0 fired=1 err=- cb=- val=- sibling=-` for a dead process).  The kind of the panic VALUE
(`<val>`) does not influence the prediction: the generated handler cannot look into it.  The prediction is computed from
the generated site table `GS.Generated.PanicSites.table`; `<ls>` (which link system the target
request uses) does not influence it. -/
namespace GS.Driver.Panics
open GS.Proto GS.Panics GS.Generated.PanicSites

def parseSide : String → Option Side
  | "requestor" => some .requestor
  | "responder" => some .responder
  | _ => none

def parseKind : String → Option Kind
  | "codec" => some .codec
  | "reifier" => some .reifier
  | "chooser" => some .chooser
  | "selector" => some .selector
  | "storage-read" => some .storageRead
  | "storage-read-stream" => some .storageReadStream
  | "storage-write-opener" => some .storageWriteOpener
  | "storage-write-buffer" => some .storageWriteBuffer
  | "storage-write-committer" => some .storageWriteCommitter
  | _ => none

def b2s (b : Bool) : String := if b then "1" else "0"

def render (p : Prediction) (q : GS.Panics.Res.ResPrediction) : String :=
  if p.survived then
    let v := if p.fired then b2s p.valOK else "-"
    s!"survived=1 fired={b2s p.fired} err={p.err} cb={p.cb} val={v} sibling={b2s p.sibling} late={b2s q.late} leak={b2s q.leak} res=tasks:{q.tasks},table:{q.table}"
  else
    s!"survived=0 fired={b2s p.fired} err=- cb=- val=- sibling=- late=- leak=- res=-"

def valKinds : List String := ["str", "err", "rt-nilmap", "rt-nilptr", "rt-index", "struct"]

def inject (sd kd k n pre ls val lim : String) : String :=
  match parseSide sd, parseKind kd, k.toNat?, n.toNat?, pre.toNat? with
  | some sd, some kd, some k, some n, some pre =>
    if n < 1 || n > 64 || k ≥ n || pre > n || !(ls == "def" || ls == "opt") || !valKinds.contains val
        || !(lim == "wide" || lim == "tight") then "bad-op"
    else render (predict table sd kd k n pre) (GS.Panics.Res.predictRes sd kd k n pre (lim == "tight"))
  | _, _, _, _, _ => "bad-op"

/-- `handler <value> <cb|nocb>`: panics.MakeHandler called directly; the model runs the generated
statement list on the value's tag -/
def handlerLine (v cb : String) : String :=
  if !(["nil", "str", "err", "rt", "struct"].contains v) || !(cb == "cb" || cb == "nocb") then "bad-op" else
  let arg : Option String := if v == "nil" then none else some v
  let o := runHandler (cb == "cb") arg
  let isNil := decide (o.ret = .nil)
  let rpe := match o.ret with | .recovered _ => true | _ => false
  let obj := arg.isSome && decide (o.ret = .recovered arg)
  let cbval := if o.cbs.isEmpty then "-" else b2s (o.cbs.all (fun x => decide (x = arg)))
  s!"nil={b2s isNil} rpe={b2s rpe} obj={b2s obj} cb={o.cbs.length} cbval={cbval}"

def stepLine (t : Toks) : String :=
  match t with
  | ["inject", sd, kd, k, n, pre, ls] => inject sd kd k n pre ls "str" "wide"
  | ["inject", sd, kd, k, n, pre, ls, val] => inject sd kd k n pre ls val "wide"
  | ["inject", sd, kd, k, n, pre, ls, val, lim] => inject sd kd k n pre ls val lim
  | ["handler", v, cb] => handlerLine v cb
  | _ => "bad-op"

def handler (ops : List Toks) : List String := ops.map stepLine

end GS.Driver.Panics

def main : IO Unit := GS.Proto.runModel GS.Driver.Panics.handler
