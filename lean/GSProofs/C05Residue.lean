import GSProofs.C05Retired
/-!
# C05 — "afterwards holds no state": the residue `retired_holds_no_state_partial` lists as NOT proved

After an outcome (completed / cancelled) of an id `r` registered once, its task workers returned:

(1) no PENDING task-queue topic of `r` in any peer's queue.
    STATUS: OPEN (not proved, not refuted).  Random search on the model (LCG-driven drained scripts, 2 peers × 2 ids,
    8 request configurations, all API calls / update plans, 4000 runs × 80 steps, limits 0 / 30 / 100) found NO state
    with an outcome of `r` and a pending topic of `r`, and no pending topic without a table entry at all.  The
    invariant needed is `∀ p id, id ∈ pendOf s p → (lookup s id).isSome` (then `LInv.ownP` / `EntryOK` give: at the
    response's own peer, response Queued); its preservation needs one lemma per manager handler (`pushTask` is only
    called with the entry present; `terminate` only after `removeTask` or from Running / CompletingSend, where
    `EntryOK` gives "not pending").  Proved here, from the existing invariants only: `pending_topic_partial` — all
    pending topics of `r` are at ONE peer, and a pending topic is neither active nor served by a live worker.
--   theorem no_pending_topic_after_outcome : ReachableDrained c s → registrations s r ≤ 1 →
--     1 ≤ completedCount s r + cancelledCount s r → ∀ p, r ∉ pendOf s p                      (FULL STATEMENT, open)

(2) no NON-terminal builder content of `r`.
    STATUS: FALSE.  `hook_data_after_cancel_counterexample`: a request whose request hook attaches extension data
    is cancelled while Queued; at the cancelled outcome the hook data (1 extension, 17 accounted bytes, 17 bytes
    ALLOCATED at the peer's allocator) is still in the accumulating builder of the peer.  It is cleaned up by the
    next send of that peer's message queue (`…_cleaned_up`: after `extract`, `net ok` the builder is gone and the
    allocation is released) — i.e. a late message for an already cancelled request goes out.
    `stale_subscriber_after_cancel_counterexample`: without hook data a data-less subscriber entry of `r`
    (`sub := true`, `inResp := false`) stays in the accumulating builder; the builder counts as empty, `extract`
    is NOT enabled, so nothing cleans it up until a later response of the same peer is sent
    (`…_flushed_by_next_response`).
    Strongest true version, proved: `builder_content_after_outcome_partial` — every builder entry of `r` left in any
    builder has a NON-terminal status, no publisher queue holds a completed notification of `r`, and all builder
    entries / publisher steps of `r` are at one peer and belong to one response identity (Inv3.pi).

(3) no waiting allocator reservation attributable to `r` (`State.waiting`; party = the manager parked on `r` or a task
    worker of `r`).
    STATUS: the manager half is PROVED (`no_manager_reservation_after_outcome`: after the outcome the manager is not
    parked on a transaction of `r` at all — parked `newRequest` excluded by `outcome_no_parked_request`, every
    other parked step needs the response in the table, Inv3.pi.park); the worker half follows from `hw` as soon as
    "a waiting reservation of party `worker w` ⇒ worker `w` is in phase `blockedTx`" is an invariant — that coupling
    between `State.waiting` and the parties is NOT yet proved anywhere (OPEN; random search as in (1) with limits 30 /
    100 found no counterexample).  Note the ALLOCATION (not reservation) left by (2).
-/
namespace GS.C05
open GS.RespLife

-- ------------------------------------------------------------------ (1) pending topics
/-- **C05.pending_topic_partial** (what the existing invariants give about pending topics of `r`, id registered at
    most once, drained ids): all of them are in ONE peer's queue, and where `r` is pending it is not active and no
    live task worker of that peer serves it. -/
theorem pending_topic_partial {c : Cfg} {s : State} (h : ReachableDrained c s) (r : Id)
    (hreg : registrations s r ≤ 1) :
    (∃ p0, ∀ p, r ∈ pendOf s p → p = p0) ∧
    (∀ p, r ∈ pendOf s p → r ∉ actOf s p ∧ ∀ i, ¬ (acc s).liveW i p r) := by
  have hi := (linv_reachable h).1
  obtain ⟨p0, i0, hpl⟩ := (inv3_reachable h r (by rw [regs_eq]; exact hreg)).pi
  refine ⟨⟨p0, fun p hp => hpl.qs p (Or.inl hp)⟩, fun p hp => ?_⟩
  have hd : r ∉ actOf s p := hi.disj p r hp
  exact ⟨hd, fun i hl => hd ((hi.actLive p r).2 ⟨i, hl⟩)⟩

-- ------------------------------------------------------------------ (2) builder content
theorem tokB_zero_entries {r : Id} {b : Option Builder} (h : tokB r b = 0) :
    ∀ e ∈ bents b, e.id = r → entTerm e = false := by
  intro e he hid
  cases b with
  | none => simp [bents] at he
  | some b =>
    simp only [bents, Option.map_some, Option.getD_some] at he
    simp only [tokB, List.countP_eq_zero] at h
    have := h e he
    simp only [tokE, hid, beq_self_eq_true, Bool.true_and] at this
    cases hx : entTerm e with
    | false => rfl
    | true => exact absurd hx this

/-- **C05.builder_content_after_outcome_partial**: what IS true of the message builders / publisher queues after an
    outcome of an id registered once (drained ids): whatever entry of `r` is still in a builder carries no terminal
    status, no completed notification of `r` is queued, and everything of `r` there is at one peer and belongs to one
    response identity. -/
theorem builder_content_after_outcome_partial {c : Cfg} {s : State} (h : ReachableDrained c s) (r : Id)
    (hreg : registrations s r ≤ 1) (hout : 1 ≤ completedCount s r + cancelledCount s r) :
    (∀ q ∈ s.mqs, (∀ e ∈ bents q.inflight, e.id = r → entTerm e = false) ∧
      (∀ e ∈ bents q.next, e.id = r → entTerm e = false) ∧ tokQ r q.pubQ = 0) ∧
    (∃ p0 i0, (∀ (p : Peer) (e : Entry), (e ∈ bents (getMQ s p).inflight ∨ e ∈ bents (getMQ s p).next) → e.id = r →
        p = p0 ∧ e.inc = i0) ∧
      (∀ (p : Peer) (st : PStep), st ∈ (getMQ s p).pubQ → stepId st = r → p = p0)) := by
  obtain ⟨_, _, _, _, h7⟩ := after_outcome_nothing_pending h r hreg hout
  obtain ⟨p0, i0, hpl⟩ := (inv3_reachable h r (by rw [regs_eq]; exact hreg)).pi
  refine ⟨fun q hq => ?_, p0, i0, hpl.bld, fun p st hst hid => (hpl.pub p st hst hid).1⟩
  obtain ⟨a, b, c'⟩ := (mqSum_zero_iff r s.mqs).1 h7 q hq
  exact ⟨tokB_zero_entries a, tokB_zero_entries b, c'⟩

def cfgHookExt : ReqCfg := { pri := 1, hook := ⟨.accept, true⟩, n := 1, miss := none, bh := [] }

/-- request with request-hook extension data, cancelled by the requestor while Queued -/
def hookCancelScript : List Action := [.recv 0 (.new 0 cfgHookExt), .mgr, .recv 0 (.cancel 0), .mgr]

/-- some builder of peer `p`'s queue holds an entry of `r` -/
def builderHolds (s : State) (r : Id) : Bool :=
  s.mqs.any fun q => (bents q.inflight).any (·.id == r) || (bents q.next).any (·.id == r)

/-- **C05.hook_data_after_cancel_counterexample** ((2) is FALSE): at the cancelled outcome of an id registered
    once, no worker of it alive, nothing in the table — the request hook's extension data of `r` is still in the
    peer's accumulating builder (in the response: `inResp`, 1 extension, 17 bytes) and 17 bytes are allocated. -/
theorem hook_data_after_cancel_counterexample :
    ∃ s, ReachableDrained {} s ∧ registrations s 0 = 1 ∧ cancelledCount s 0 = 1 ∧ lookup s 0 = none ∧
      (∀ w ∈ s.workers, w.id = 0 → w.phase = .done) ∧
      (∃ e ∈ bents (getMQ s 0).next, e.id = 0 ∧ e.inResp = true ∧ e.exts = 1 ∧ e.bytes = 17) ∧
      (getMQ s 0).allocated = 17 :=
  ⟨run (init {}) hookCancelScript, reachableDrained_run ReachableDrained.init _ (by decide), by decide, by decide,
   by decide, by decide, by decide, by decide⟩

/-- … cleaned up by the next send of that peer's queue: the late message goes out, builder and allocation are gone -/
theorem hook_data_after_cancel_cleaned_up :
    let s := run (init {}) (hookCancelScript ++ [.extract 0, .net 0 true])
    builderHolds s 0 = false ∧ (getMQ s 0).allocated = 0 ∧ (getMQ s 0).pubQ = [] := by decide

/-- **C05.stale_subscriber_after_cancel_counterexample**: without hook data a data-less subscriber entry of the
    cancelled id stays in the accumulating builder, and the message queue has nothing to send (`extract` disabled):
    nothing in the responder removes it until other traffic for that peer. -/
theorem stale_subscriber_after_cancel_counterexample :
    ∃ s, ReachableDrained {} s ∧ registrations s 0 = 1 ∧ cancelledCount s 0 = 1 ∧ lookup s 0 = none ∧
      builderHolds s 0 = true ∧ step s (.extract 0) = none ∧ step s (.pub 0) = none ∧ step s .mgr = none :=
  ⟨run (init {}) cancelScript, reachableDrained_run ReachableDrained.init _ (by decide), by decide, by decide,
   by decide, by decide, by decide, by decide, by decide⟩

/-- … the next response of the same peer (id 1, completed) flushes it -/
theorem stale_subscriber_flushed_by_next_response :
    let s := run (init {}) (cancelScript ++ [.recv 0 (.new 1 (cfgA 1)), .mgr, .thaw, .thaw, .pop 0 1, .mgr,
      .wstep 0 0, .wstep 0 0, .mgr, .extract 0, .net 0 true, .pub 0, .pub 0, .mgr, .pub 0])
    completedCount s 1 = 1 ∧ builderHolds s 0 = false := by decide

-- ------------------------------------------------------------------ (3) reservations of the manager
/-- **C05.no_manager_reservation_after_outcome**: after an outcome of an id registered once (drained ids) the
    manager is not parked on ANY transaction of `r` — so no waiting reservation of party `mgr` is attributable to
    `r`. -/
theorem no_manager_reservation_after_outcome {c : Cfg} {s : State} (h : ReachableDrained c s) (r : Id)
    (hreg : registrations s r ≤ 1) (hout : 1 ≤ completedCount s r + cancelledCount s r) :
    ∀ pk, s.park = some pk → pk.id ≠ r := by
  intro pk hpk hid
  have hgone := outcome_after_retired h r hreg hout
  obtain ⟨p0, i0, hpl⟩ := (inv3_reachable h r (by rw [regs_eq]; exact hreg)).pi
  have hnn : ∀ p cfg, pk.cont ≠ .newReq p r cfg := by
    intro p cfg hc
    apply outcome_no_parked_request h r hreg hout p
    simp [parkNew, hpk, hc]
  have := ((hpl.park pk hpk).1 hid hnn).2
  rw [hgone] at this
  cases this

end GS.C05
