import GSProofs.Lemmas.RespLifeOutcomeRInv
/-!
Outcome accounting, part 3: `Inv3` over the steps without a publisher (everything except `net`, `pub`, the
manager's answers to publisher calls and the registration of `r`).
-/
namespace GS.RespLife

-- ------------------------------------------------------------------ live under manager handlers
theorem kp_handle_other (s : State) (m : Msg) (hp : s.park = none) (h : isNewMsg m = false) :
    KP (pi s) (pi (handle s m)) := by
  cases m with
  | processRequests p r =>
    show KP (pi s) (pi (if foreign s p r.id = true then s else processRequest s p r))
    split
    · exact KP.refl _
    · cases r with
      | new id cfg => simp [isNewMsg] at h
      | cancel id => exact kp_of_tos (tos_abortRequest s id .ctxCancel)
      | update id plan => exact kp_of_sop (pi_processUpdate s id plan hp)
  | api c =>
    cases c with
    | pause id =>
      show KP (pi s) (pi (emit (pauseRequest s id).1 _))
      rw [pi_emit_api, pi_pauseRequest]; exact KP.refl _
    | unpause id ext =>
      have h1 := kp_of_sop (pi_unpauseRequest s id ext hp)
      show KP (pi s) (pi (if (unpauseRequest s id ext).2.2 = true then (unpauseRequest s id ext).1
        else emit (unpauseRequest s id ext).1 _))
      split
      · exact h1
      · rw [pi_emit_api]; exact h1
    | cancel id =>
      show KP (pi s) (pi (emit (abortRequest s id .cancelCmd).1 _))
      rw [pi_emit_api]
      exact kp_of_tos (tos_abortRequest s id .cancelCmd)
    | update id ext =>
      have h1 := kp_of_sop (pi_updateRequest s id ext hp)
      show KP (pi s) (pi (if (updateRequest s id ext).2.2 = true then (updateRequest s id ext).1
        else emit (updateRequest s id ext).1 _))
      split
      · exact h1
      · rw [pi_emit_api]; exact h1
  | startTask w => show KP (pi s) (pi (startTask s w)); rw [pi_startTask]; exact KP.refl _
  | getUpdates w => show KP (pi s) (pi (getUpdates s w)); rw [pi_getUpdates]; exact KP.refl _
  | finishTask w err => exact kp_of_tos (tos_finishTask s w err)
  | closeNetErr id inc pub =>
    rcases pi_handle_closeNetErr s id inc pub with h1 | h1
    · rw [h1]; exact kp_of_tos (tos_abortRequest s id .network)
    · rw [h1]; exact KP.refl _
  | terminate id inc pub =>
    rw [handle_terminate, pi_clearPubWait]
    split
    · exact kp_of_tos (tos_terminate s id)
    · exact KP.refl _

theorem live_handle {r : Id} (s : State) (m : Msg) (hp : s.park = none)
    (hnew : ∀ p cfg, m = .processRequests p (.new r cfg) → foreign s p r = true)
    (hl : live r (handle s m) = true) : live r s = true := by
  by_cases hm : isNewMsg m = true
  · cases m with
    | processRequests p q =>
      cases q with
      | new id cfg =>
        have hl' : live r (if foreign s p id = true then s else newRequest s p id cfg) = true := hl
        split at hl'
        · exact hl'
        · rename_i hf
          have hid : id ≠ r := by
            intro e; subst e; exact hf (hnew p cfg rfl)
          rw [live_iff] at hl' ⊢
          rcases pi_newRequest s p id cfg with h1 | ⟨c, h1⟩
          · have hk : keys (newRequest s p id cfg) = (((pi s).protect p id).insert p id).keys := congrArg Pi.keys h1
            have hn : parkNew (newRequest s p id cfg).park = (pi s).pnew := congrArg Pi.pnew h1
            rcases hl' with ⟨k, hk', hkr⟩ | ⟨q, hq⟩
            · rw [hk] at hk'
              simp only [Pi.insert, Pi.protect, List.mem_append, List.mem_filter, List.mem_singleton] at hk'
              rcases hk' with hk' | hk'
              · exact Or.inl ⟨k, hk'.1, hkr⟩
              · subst hk'; exact absurd hkr hid
            · rw [hn] at hq; exact Or.inr ⟨q, hq⟩
          · have hk : keys (newRequest s p id cfg) = keys s := congrArg Pi.keys h1
            have hn : parkNew (newRequest s p id cfg).park = some (p, id) := congrArg Pi.pnew h1
            rcases hl' with ⟨k, hk', hkr⟩ | ⟨q, hq⟩
            · rw [hk] at hk'; exact Or.inl ⟨k, hk', hkr⟩
            · rw [hn] at hq
              simp only [Option.some.injEq, Prod.mk.injEq] at hq
              exact absurd hq.2 hid
      | cancel id => simp [isNewMsg] at hm
      | update id plan => simp [isNewMsg] at hm
    | _ => simp [isNewMsg] at hm
  · exact live_of_kp (kp_handle_other s m hp (by simpa using hm)) hl

theorem live_resumeMgr {r : Id} (s : State) (pk : MgrPark) (hpk : s.park = some pk)
    (hl : live r (resumeMgr s pk) = true) : live r s = true := by
  rw [live_iff] at hl ⊢
  cases hc : pk.cont with
  | newReq p id cfg =>
    have h1 := pi_resumeMgr_new s pk p id cfg hc
    have hk : keys (resumeMgr s pk) = (keys s).filter (fun k => k.2 != id) ++ [(p, id)] := congrArg Pi.keys h1
    have hn : parkNew (resumeMgr s pk).park = none := congrArg Pi.pnew h1
    rcases hl with ⟨k, hk', hkr⟩ | ⟨q, hq⟩
    · rw [hk] at hk'
      rcases List.mem_append.1 hk' with hk' | hk'
      · exact Or.inl ⟨k, (List.mem_filter.1 hk').1, hkr⟩
      · simp only [List.mem_singleton] at hk'
        subst hk'
        right
        refine ⟨p, ?_⟩
        simp only [parkNew, hpk, hc]
        simp only at hkr
        rw [hkr]
    · rw [hn] at hq; cases hq
  | procUpdate id plan =>
    have h1 := pi_resumeMgr_other s pk (by intro p i c; rw [hc]; simp)
    have hk : keys (resumeMgr s pk) = keys s := congrArg Pi.keys h1
    have hn : parkNew (resumeMgr s pk).park = none := congrArg Pi.pnew h1
    rcases hl with ⟨k, hk', hkr⟩ | ⟨q, hq⟩
    · rw [hk] at hk'; exact Or.inl ⟨k, hk', hkr⟩
    · rw [hn] at hq; cases hq
  | unpause id ext =>
    have h1 := pi_resumeMgr_other s pk (by intro p i c; rw [hc]; simp)
    have hk : keys (resumeMgr s pk) = keys s := congrArg Pi.keys h1
    have hn : parkNew (resumeMgr s pk).park = none := congrArg Pi.pnew h1
    rcases hl with ⟨k, hk', hkr⟩ | ⟨q, hq⟩
    · rw [hk] at hk'; exact Or.inl ⟨k, hk', hkr⟩
    · rw [hn] at hq; cases hq
  | update id ext =>
    have h1 := pi_resumeMgr_other s pk (by intro p i c; rw [hc]; simp)
    have hk : keys (resumeMgr s pk) = keys s := congrArg Pi.keys h1
    have hn : parkNew (resumeMgr s pk).park = none := congrArg Pi.pnew h1
    rcases hl with ⟨k, hk', hkr⟩ | ⟨q, hq⟩
    · rw [hk] at hk'; exact Or.inl ⟨k, hk', hkr⟩
    · rw [hn] at hq; cases hq

end GS.RespLife
