import GS.Model.RespMgrTypes
import GS.Generated.RespDispatch
import GS.Generated.StatusCodes
/-
Model of the response manager's actor loop (/repo/responsemanager/server.go, client.go, messages.go,
subscriber.go) together with the part of queryexecutor.ExecuteTask that talks to it.  Core Lean only.

Responses are heap objects (`objs`, index = allocation serial = stream serial); the table
`inProgressResponses` maps a request ID to such an object, exactly like the Go map of pointers: an
executor keeps working on the object it was given even if the table entry is replaced, while every
manager call made *by ID* (GetUpdates, FinishTask, TerminateRequest, CloseWithNetworkError, the
local API) goes through the table.

  processRequests        -> Op.msg            dispatch taken from `Generated.RespDispatch.dispatch`
  startTask              -> Op.start          (the harness pops the task and runs the real ExecuteTask,
                                               which parks at the first store read)
  (executor, one block)  -> Op.step           load released: checkForUpdates (GetUpdates), SendResponse,
                                               block hook; then next read, or FinishRequest + FinishTask
  pause/unpause/cancel/update response (local API) -> Op.pauseResp / unpauseResp / cancelResp / updateResp
  subscriber.OnNext(Sent/Error) -> Op.sent / Op.neterr  (TerminateRequest / CloseWithNetworkError by ID)
  peerState              -> `peerState`

Hooks are inputs: a new request carries the scripted outcome of the request hook and of the block
hook, an update carries the outcome of the update hook.
-/
namespace GS.RespMgr
open GS.Generated

abbrev Peer := Nat
abbrev ReqId := Nat
abbrev Serial := Nat

inductive RState where
  | queued | running | paused | completing
deriving DecidableEq, Repr

inductive ErrK where
  | ctxCancel     -- ipldutil.ContextCancelError (requestor cancelled)
  | network       -- queryexecutor.ErrNetworkError
  | byCommand     -- queryexecutor.ErrCancelledByCommand (CancelResponse)
  | hook          -- an error returned by an update / block hook
deriving DecidableEq, Repr

inductive ReqHook where
  | ok | paused | reject | err
deriving DecidableEq, Repr

inductive UpdHook where
  | none | ext | err | unpause
deriving DecidableEq, Repr

/-- scripted block hook: at block index `i` send an extension / pause / fail -/
inductive BlkHook where
  | none | extAt (i : Nat) | pauseAt (i : Nat) | errAt (i : Nat)
deriving DecidableEq, Repr

structure Request where
  typ   : ReqType
  id    : ReqId
  total : Nat := 1
  rh    : ReqHook := .ok
  bh    : BlkHook := .none
  uh    : UpdHook := .none
deriving DecidableEq, Repr

structure Obj where
  peer   : Peer
  id     : ReqId
  total  : Nat
  bh     : BlkHook
  state  : RState
  sent         : Nat := 0
  started      : Bool := false
  sigPause     : Bool := false
  sigUpdate    : Bool := false
  sigErr       : Option ErrK := none
  updates      : List UpdHook := []
  networkError : Bool := false
  ctxCancelled : Bool := false
  finCode      : Option Nat := none
  task         : Option Nat := none     -- identity of the task that executes this response (set by startTask)
deriving DecidableEq, Repr

inductive TxOp where
  | blk (i : Nat) | ext | upd | fin (code : Nat) | pause | clear
deriving DecidableEq, Repr

inductive Ev where
  | tx (k : Serial) (p : Peer) (id : ReqId) (op : TxOp)   -- operation on stream k (owner p, request id)
  | protect (p : Peer) (id : ReqId)
  | unprotect (p : Peer) (id : ReqId)
  | hookReq (p : Peer) (id : ReqId)
  | hookUpd (p : Peer) (id : ReqId)
  | hookBlk (p : Peer) (id : ReqId) (i : Nat)
  | lProcessing (p : Peer) (id : ReqId)
  | lCancelled (p : Peer) (id : ReqId)
  | lCompleted (p : Peer) (id : ReqId) (code : Nat)
  | lNetErr (p : Peer) (id : ReqId)
  | push (p : Peer) (id : ReqId)
  | taskDone (p : Peer) (id : ReqId)
  | remove (p : Peer) (id : ReqId)
deriving DecidableEq, Repr

/-- the peer an event concerns -/
def Ev.peer : Ev → Peer
  | .tx _ p _ _ => p | .protect p _ => p | .unprotect p _ => p | .hookReq p _ => p | .hookUpd p _ => p
  | .hookBlk p _ _ => p | .lProcessing p _ => p | .lCancelled p _ => p | .lCompleted p _ _ => p
  | .lNetErr p _ => p | .push p _ => p | .taskDone p _ => p | .remove p _ => p

structure Exec where
  task : Peer × ReqId
  k    : Serial
  tid  : Nat := 0        -- identity of the *peertask.Task handed to ExecuteTask
deriving DecidableEq, Repr

abbrev Table := List (ReqId × Serial)

def Table.get (t : Table) (r : ReqId) : Option Serial :=
  match t with
  | [] => none
  | (k, v) :: rest => if k = r then some v else Table.get rest r

def Table.del (t : Table) (r : ReqId) : Table := t.filter (fun x => x.1 ≠ r)
def Table.set (t : Table) (r : ReqId) (v : Serial) : Table := (r, v) :: t.del r

structure State where
  objs    : List Obj := []
  table   : Table := []
  pending : List (Peer × ReqId) := []
  active  : List (Peer × ReqId) := []
  execs   : List Exec := []
  nextTid : Nat := 0
deriving Repr

def State.obj (s : State) (k : Serial) : Option Obj := s.objs[k]?
def State.setObj (s : State) (k : Serial) (o : Obj) : State := { s with objs := s.objs.set k o }
/-- the object the table holds for `id` -/
def State.lookup (s : State) (id : ReqId) : Option (Serial × Obj) :=
  match s.table.get id with
  | none => none
  | some k => match s.obj k with
    | some o => some (k, o)
    | none => none

def eraseFirst (l : List (Peer × ReqId)) (x : Peer × ReqId) : List (Peer × ReqId) :=
  match l with
  | [] => []
  | y :: rest => if y = x then rest else y :: eraseFirst rest x

/-- terminateRequest(id): unprotect, delete from the table, cancel the response's context -/
def terminate (s : State) (id : ReqId) : State × List Ev :=
  match s.lookup id with
  | none => (s, [])
  | some (k, o) =>
    ({ (s.setObj k { o with ctxCancelled := true }) with table := s.table.del id }, [Ev.unprotect o.peer id])

inductive Res where
  | ok | notFound | notPaused | alreadyPaused | noTask | emptyTask | running | noExec | atGate | finished
deriving DecidableEq, Repr

/-- abortRequest(id, err) -/
def abortRequest (s : State) (id : ReqId) (err : ErrK) : State × List Ev × Res :=
  match s.lookup id with
  | none => (s, [], .notFound)
  | some (k, o) =>
    let s1 := { s with pending := eraseFirst s.pending (o.peer, id) }
    let ev0 := [Ev.remove o.peer id]
    if o.state = .completing && err ≠ .network then (s1, ev0, .notFound)
    else if o.state ≠ .running then
      match err with
      | .ctxCancel =>
        let t := terminate s1 id
        (t.1, ev0 ++ [Ev.tx k o.peer o.id .clear] ++ t.2 ++ [Ev.lCancelled o.peer id], .ok)
      | .network =>
        let t := terminate s1 id
        (t.1, ev0 ++ [Ev.tx k o.peer o.id .clear] ++ t.2, .ok)
      | _ =>
        (s1.setObj k { o with state := .completing, finCode := some StatusCodes.RequestCancelled },
         ev0 ++ [Ev.tx k o.peer o.id (.fin StatusCodes.RequestCancelled)], .ok)
    else
      let o1 := if err = .network then { o with networkError := true } else o
      (s1.setObj k { o1 with sigErr := if o1.sigErr.isSome then o1.sigErr else some err }, ev0, .ok)

/-- unpauseRequest(id) without extensions -/
def unpauseRequest (s : State) (id : ReqId) : State × List Ev × Res :=
  match s.lookup id with
  | none => (s, [], .notFound)
  | some (k, o) =>
    if o.state ≠ .paused then (s, [], .notPaused)
    else ({ (s.setObj k { o with state := .queued, sigPause := false }) with pending := s.pending ++ [(o.peer, id)] },
          [Ev.push o.peer id], .ok)

/-- processUpdate(id, update) -/
def processUpdate (s : State) (id : ReqId) (uh : UpdHook) : State × List Ev :=
  match s.lookup id with
  | none => (s, [])
  | some (k, o) =>
    if o.state = .completing then (s, [])
    else if o.state ≠ .paused then
      (s.setObj k { o with updates := o.updates ++ [uh], sigUpdate := true }, [])
    else
      let hv := [Ev.hookUpd o.peer id]
      match uh with
      | .none => (s, hv)
      | .ext => (s, hv ++ [Ev.tx k o.peer o.id .ext])
      | .err =>
        (s.setObj k { o with state := .completing, finCode := some StatusCodes.RequestFailedUnknown },
         hv ++ [Ev.tx k o.peer o.id (.fin StatusCodes.RequestFailedUnknown)])
      | .unpause =>
        let u := unpauseRequest s id
        (u.1, hv ++ u.2.1)

/-- newRequest(p, request) -/
def newRequest (s : State) (q : Peer) (x : Request) : State × List Ev :=
  let k := s.objs.length
  let base : Obj := { peer := q, id := x.id, total := x.total, bh := x.bh, state := .queued }
  let ev0 := [Ev.protect q x.id, Ev.hookReq q x.id]
  let r : Obj × List Ev × List (Peer × ReqId) :=
    match x.rh with
    | .err => ({ base with state := .completing, finCode := some StatusCodes.RequestFailedUnknown },
               [Ev.tx k q x.id (.fin StatusCodes.RequestFailedUnknown)], [])
    | .reject => ({ base with state := .completing, finCode := some StatusCodes.RequestRejected },
                  [Ev.tx k q x.id (.fin StatusCodes.RequestRejected)], [])
    | .paused => ({ base with state := .paused }, [Ev.tx k q x.id .pause], [])
    | .ok => (base, [Ev.push q x.id], [(q, x.id)])
  ({ s with objs := s.objs ++ [r.1], table := s.table.set x.id k, pending := s.pending ++ r.2.2 }, ev0 ++ r.2.1)

/-- is the ID of this request in the table for a peer other than the sender? -/
def foreign (s : State) (q : Peer) (x : Request) : Bool :=
  match s.lookup x.id with
  | some (_, o) => o.peer != q
  | none => false

def dispatchCase (d : List DispatchCase) (t : ReqType) : Option DispatchCase :=
  d.find? (fun c => c.typ == t)

/-- value of an operand of a guard's comparison -/
def evalPeer (t : PeerTerm) (sender : Peer) (o : Obj) : Peer :=
  match t with
  | .sender => sender
  | .entryPeer => o.peer

/-- the guard as written in the source: `e, ok := table[request.ID()]; ok && lhs != rhs` -/
def guardSkips (g : PeerGuard) (s : State) (q : Peer) (x : Request) : Bool :=
  match s.lookup x.id with
  | some (_, o) => evalPeer g.lhs q o != evalPeer g.rhs q o
  | none => false

/-- one iteration of the loop of `processRequests` -/
def handleOne (d : List DispatchCase) (q : Peer) (s : State) (x : Request) : State × List Ev :=
  match dispatchCase d x.typ with
  | none => (s, [])
  | some c =>
    if (match c.guard with | some g => guardSkips g s q x | none => false) then (s, [])
    else match c.handler with
      | .new => newRequest s q x
      | .abort => let r := abortRequest s x.id .ctxCancel; (r.1, r.2.1)
      | .update => processUpdate s x.id x.uh

def processRequests (d : List DispatchCase) (q : Peer) : State → List Request → State × List Ev
  | s, [] => (s, [])
  | s, x :: xs =>
    let r1 := handleOne d q s x
    let r2 := processRequests d q r1.1 xs
    (r2.1, r1.2 ++ r2.2)

/-! ### the task worker: startTask, one block, finishTask -/

def findExec (l : List Exec) (t : Peer × ReqId) : Option Exec := l.find? (fun e => e.task = t)
def dropExec (l : List Exec) (t : Peer × ReqId) : List Exec :=
  match l with
  | [] => []
  | e :: rest => if e.task = t then rest else e :: dropExec rest t

def startTask (s : State) (t : Peer × ReqId) : State × List Ev × Res :=
  if !s.pending.contains t then (s, [], .noTask)
  else
    let s1 := { s with pending := eraseFirst s.pending t }
    match s1.lookup t.2 with
    | none => (s1, [Ev.taskDone t.1 t.2], .emptyTask)
    | some (k, o) =>
      if o.state = .completing then (s1, [Ev.taskDone t.1 t.2], .emptyTask)
      else
        let ev := if o.started then [] else [Ev.lProcessing o.peer t.2]
        ({ (s1.setObj k { o with started := true, state := .running, task := some s1.nextTid }) with
             active := s1.active ++ [t], execs := s1.execs ++ [{ task := t, k := k, tid := s1.nextTid }],
             nextTid := s1.nextTid + 1 }, ev, .running)

/-- finishTask(task, p, err) -/
def finishTask (s : State) (t : Peer × ReqId) (err : Option ErrK) (paused : Bool) : State × List Ev :=
  let tid? := (findExec s.execs t).map (·.tid)
  let s1 := { s with active := eraseFirst s.active t, execs := dropExec s.execs t }
  let ev0 := [Ev.taskDone t.1 t.2]
  match s1.lookup t.2 with
  | none => (s1, ev0)
  | some (k, o) =>
    if o.task ≠ tid? then
      -- the task belongs to an earlier response with the same ID: leave the one in the table alone,
      -- except that a queued one gets its task pushed (again)
      if o.state = .queued then ({ s1 with pending := s1.pending ++ [(o.peer, t.2)] }, ev0 ++ [Ev.push o.peer t.2])
      else (s1, ev0)
    else if o.networkError then
      let r := terminate s1 t.2
      (r.1, ev0 ++ r.2)
    else if paused then (s1.setObj k { o with state := .paused }, ev0)
    else if err = some .ctxCancel then
      let r := terminate s1 t.2
      (r.1, ev0 ++ [Ev.lCancelled t.1 t.2] ++ r.2)
    else if err = some .network then
      let r := terminate s1 t.2
      (r.1, ev0 ++ r.2)
    else (s1.setObj k { o with state := .completing }, ev0)

/-- GetUpdates(id): by ID, through the table; returns and clears the queued updates -/
def getUpdates (s : State) (id : ReqId) : List UpdHook × State :=
  match s.lookup id with
  | none => ([], s)
  | some (k2, o2) => (o2.updates, s.setObj k2 { o2 with updates := [] })

/-- the executor runs the update hooks (in the name of its task's peer) on the updates it fetched -/
def runUpdateHooks (taskPeer : Peer) (k : Serial) (o : Obj) : List UpdHook → List Ev → List Ev × Option ErrK
  | [], acc => (acc, none)
  | u :: rest, acc =>
    let acc1 := acc ++ [Ev.hookUpd taskPeer o.id]
    match u with
    | .ext => runUpdateHooks taskPeer k o rest (acc1 ++ [Ev.tx k o.peer o.id .ext])
    | .err => (acc1, some .hook)
    | _ => runUpdateHooks taskPeer k o rest acc1

/-- outcome of `checkForUpdates`: events, pause seen, error to abort with; the state after
    GetUpdates calls.  `fuel` bounds the loop (each round consumes a signal). -/
def checkForUpdates : Nat → State → Exec → State × List Ev × Bool × Option ErrK
  | 0, s, _ => (s, [], false, none)
  | fuel + 1, s, e =>
    match s.obj e.k with
    | none => (s, [], false, none)
    | some o =>
      if o.sigPause then
        (s.setObj e.k { o with sigPause := false }, [Ev.tx e.k o.peer o.id .pause], true, none)
      else match o.sigErr with
        | some err => (s.setObj e.k { o with sigErr := none }, [], false, some err)
        | none =>
          if o.sigUpdate then
            let s1 := s.setObj e.k { o with sigUpdate := false }
            -- GetUpdates(id): by ID, through the table
            let ups := getUpdates s1 e.task.2
            let r := runUpdateHooks e.task.1 e.k o ups.1 []
            match r.2 with
            | some err => (ups.2, r.1, false, some err)
            | none =>
              let r2 := checkForUpdates fuel ups.2 e
              (r2.1, r.1 ++ r2.2.1, r2.2.2.1, r2.2.2.2)
          else (s, [], false, none)

/-- the transaction is abandoned before SendResponse; executeQuery closes the response -/
def abortTail (s1 : State) (e : Exec) (o : Obj) (err : ErrK) : State × List Ev :=
  match err with
  | .network | .ctxCancel => (s1, [Ev.tx e.k o.peer o.id .clear])
  | .byCommand => (s1.setObj e.k { o with finCode := some StatusCodes.RequestCancelled },
                   [Ev.tx e.k o.peer o.id (.fin StatusCodes.RequestCancelled)])
  | .hook => (s1.setObj e.k { o with finCode := some StatusCodes.RequestFailedUnknown },
              [Ev.tx e.k o.peer o.id (.fin StatusCodes.RequestFailedUnknown)])

/-- the scripted block hook at block `i`: events, paused by hook, failed by hook -/
def hookOutcome (e : Exec) (o : Obj) (i : Nat) : List Ev × Bool × Bool :=
  match o.bh with
  | .extAt j => if j = i then ([Ev.tx e.k o.peer o.id .ext], false, false) else ([], false, false)
  | .pauseAt j => if j = i then ([Ev.tx e.k o.peer o.id .pause], true, false) else ([], false, false)
  | .errAt j => if j = i then ([], false, true) else ([], false, false)
  | .none => ([], false, false)

/-- SendResponse for block `o.sent`, block hook, then: next read / pause / completion / hook failure -/
def sendBlock (s1 : State) (e : Exec) (o : Obj) (t : Peer × ReqId) (evs0 : List Ev) (pauseSeen : Bool) :
    State × List Ev × Res :=
  let i := o.sent
  let o1 := { o with sent := i + 1 }
  let hk := hookOutcome e o i
  let evs := evs0 ++ [Ev.tx e.k o.peer o.id (.blk i), Ev.hookBlk t.1 o.id i] ++ hk.1
  let s2 := s1.setObj e.k o1
  if hk.2.2 then
    let s3 := s2.setObj e.k { o1 with finCode := some StatusCodes.RequestFailedUnknown }
    let f := finishTask s3 t (some .hook) false
    (f.1, evs ++ [Ev.tx e.k o.peer o.id (.fin StatusCodes.RequestFailedUnknown)] ++ f.2, .finished)
  else if hk.2.1 || pauseSeen then
    let f := finishTask s2 t none true
    (f.1, evs ++ f.2, .finished)
  else if i + 1 ≥ o.total then
    let s3 := s2.setObj e.k { o1 with finCode := some StatusCodes.RequestCompletedFull }
    let f := finishTask s3 t none false
    (f.1, evs ++ [Ev.tx e.k o.peer o.id (.fin StatusCodes.RequestCompletedFull)] ++ f.2, .finished)
  else (s2, evs, .atGate)

/-- the executor is released from the store read of block `sent` -/
def stepExec (s : State) (t : Peer × ReqId) : State × List Ev × Res :=
  match findExec s.execs t with
  | none => (s, [], .noExec)
  | some e =>
    match s.obj e.k with
    | none => (s, [], .noExec)
    | some o0 =>
      let c := checkForUpdates (o0.updates.length + 4) s e
      let s1 := c.1
      match s1.obj e.k with
      | none => (s, [], .noExec)
      | some o =>
        match c.2.2.2 with
        | some err =>
          let tail := abortTail s1 e o err
          let f := finishTask tail.1 t (some err) false
          (f.1, c.2.1 ++ tail.2 ++ f.2, .finished)
        | none => sendBlock s1 e o t c.2.1 c.2.2.1

/-- `start`: startTask, then the executor runs until its first store read; a traversal that had
    already delivered its last block before a pause completes at once (FinishRequest + FinishTask) -/
def startExec (s : State) (t : Peer × ReqId) : State × List Ev × Res :=
  let r := startTask s t
  if r.2.2 ≠ .running then r
  else
    match findExec r.1.execs t with
    | none => r
    | some e =>
      match r.1.obj e.k with
      | none => r
      | some o =>
        if o.sent ≥ o.total then
          let s3 := r.1.setObj e.k { o with finCode := some StatusCodes.RequestCompletedFull }
          let f := finishTask s3 t none false
          (f.1, r.2.1 ++ [Ev.tx e.k o.peer o.id (.fin StatusCodes.RequestCompletedFull)] ++ f.2, .finished)
        else r

/-! ### local API and message-sent notifications -/

def pauseResp (s : State) (id : ReqId) : State × List Ev × Res :=
  match s.lookup id with
  | none => (s, [], .notFound)
  | some (k, o) =>
    if o.state = .completing then (s, [], .notFound)
    else if o.state = .paused then (s, [], .alreadyPaused)
    else (s.setObj k { o with sigPause := true }, [], .ok)

def updateResp (s : State) (id : ReqId) : State × List Ev × Res :=
  match s.lookup id with
  | none => (s, [], .notFound)
  | some (k, o) => (s, [Ev.tx k o.peer o.id .upd], .ok)

/-- does a closer call (TerminateRequest / CloseWithNetworkError) made by the subscriber of response
    object `k` act on the table entry under `id`?  By ID only: always.  `ownResponse`: only if that
    entry is object `k` itself (`isResponseOf`). -/
def closerApplies (ck : KeyKind) (s : State) (k : Serial) (id : ReqId) : Bool :=
  match ck with
  | .ownResponse => s.table.get id == some k
  | _ => true

/-- the subscriber's CloseWithNetworkError(id) -/
def closeNetErr (ck : KeyKind) (s : State) (k : Serial) (id : ReqId) : State × List Ev × Res :=
  if closerApplies ck s k id then abortRequest s id .network else (s, [], .notFound)

/-- the subscriber's TerminateRequest(id), made only if the message carried a terminal status -/
def closeTerm (ck : KeyKind) (s : State) (k : Serial) (id : ReqId) (term : Bool) : State × List Ev :=
  if term && closerApplies ck s k id then terminate s id else (s, [])

def injectMsg (d : List DispatchCase) (inject : Option (Peer × List Request)) (st : State) : State × List Ev :=
  match inject with
  | some (q, reqs) => processRequests d q st reqs
  | none => (st, [])

def cleared (evs : List Ev) : Bool :=
  evs.any (fun e => match e with | .tx _ _ _ .clear => true | _ => false)

/-- Error notification: the other connection's message gets in between the two calls exactly when the
    first call removed the response (that is the point at which the harness releases it:
    ClearRequest); otherwise it is simply handled after the notification -/
def notifyErr (d : List DispatchCase) (ck : KeyKind) (s0 : State) (k : Serial) (o : Obj) (term : Bool)
    (inject : Option (Peer × List Request)) : State × List Ev × Res :=
  let a := closeNetErr ck s0 k o.id
  -- the network-error listeners are told only if the first call found the response (e842a00)
  let nev := if a.2.2 = .ok then [Ev.lNetErr o.peer o.id] else []
  if cleared a.2.1 then
    let i := injectMsg d inject a.1
    let t := closeTerm ck i.1 k o.id term
    (t.1, a.2.1 ++ i.2 ++ t.2 ++ nev, .ok)
  else
    let t := closeTerm ck a.1 k o.id term
    let i := injectMsg d inject t.1
    (i.1, a.2.1 ++ t.2 ++ nev ++ i.2, .ok)

def notifySent (ck : KeyKind) (s0 : State) (k : Serial) (o : Obj) (code : Option Nat) (term : Bool) :
    State × List Ev × Res :=
  if term then
    let t := closeTerm ck s0 k o.id true
    (t.1, t.2 ++ [Ev.lCompleted o.peer o.id (code.getD 0)], .ok)
  else (s0, [], .ok)

/-- subscriber.OnNext for the message that carries stream `k`'s latest operations.  On an error the
    subscriber makes two separate calls into the manager, CloseWithNetworkError(id) and — if the
    message carried the response's terminal status — TerminateRequest(id); `inject` is a message
    from another connection that reaches the manager's mailbox between the two (`none` = nothing). -/
def notify (d : List DispatchCase) (ck : KeyKind) (s : State) (k : Serial) (isErr : Bool)
    (inject : Option (Peer × List Request)) : State × List Ev × Res :=
  match s.obj k with
  | none => (s, [], .notFound)
  | some o =>
    let code := o.finCode
    let s0 := s.setObj k { o with finCode := none }
    let term := match code with | some c => StatusCodes.isTerminal c | none => false
    if isErr then notifyErr d ck s0 k o term inject else notifySent ck s0 k o code term

inductive Op where
  | msg (q : Peer) (reqs : List Request)
  | start (p : Peer) (id : ReqId)
  | step (p : Peer) (id : ReqId)
  | pauseResp (id : ReqId)
  | unpauseResp (id : ReqId)
  | cancelResp (id : ReqId)
  | updateResp (id : ReqId)
  | sent (p : Peer) (j : Nat)      -- the message carrying the latest operations of peer p's j-th stream was sent
  | neterr (p : Peer) (j : Nat)    -- … failed to be sent
  | neterrInj (p : Peer) (j : Nat) (q : Peer) (reqs : List Request)
      -- … failed to be sent, and a message from `q` arrives between the subscriber's two calls
deriving Repr

/-- serials of the streams created for peer `p`, in creation order -/
def streamsOf (s : State) (p : Peer) : List Serial :=
  (List.range s.objs.length).filter fun k => match s.obj k with | some o => o.peer == p | none => false

def notifyAt (d : List DispatchCase) (ck : KeyKind) (s : State) (p : Peer) (j : Nat) (isErr : Bool)
    (inject : Option (Peer × List Request)) : State × List Ev × Res :=
  match (streamsOf s p)[j]? with
  | some k => notify d ck s k isErr inject
  | none => (s, [], .notFound)

def stepD (d : List DispatchCase) (ck : KeyKind) (s : State) : Op → State × List Ev × Res
  | .msg q reqs => let r := processRequests d q s reqs; (r.1, r.2, .ok)
  | .start p id => startExec s (p, id)
  | .step p id => stepExec s (p, id)
  | .pauseResp id => pauseResp s id
  | .unpauseResp id => unpauseRequest s id
  | .cancelResp id => abortRequest s id .byCommand
  | .updateResp id => updateResp s id
  | .sent p j => notifyAt d ck s p j false none
  | .neterr p j => notifyAt d ck s p j true none
  | .neterrInj p j q reqs => notifyAt d ck s p j true (some (q, reqs))

/-- one mailbox message / worker step of the code as it is today -/
def step (s : State) (op : Op) : State × List Ev × Res := stepD RespDispatch.dispatch RespDispatch.closerKey s op

def runD (d : List DispatchCase) (ck : KeyKind) (s : State) : List Op → State × List (List Ev × Res)
  | [] => (s, [])
  | op :: ops =>
    let r1 := stepD d ck s op
    let r2 := runD d ck r1.1 ops
    (r2.1, (r1.2.1, r1.2.2) :: r2.2)

/-- `peerState`: the responses served to peer `p` -/
def peerState (s : State) (p : Peer) : List (ReqId × RState) :=
  s.table.filterMap fun x =>
    match s.obj x.2 with
    | some o => if o.peer = p then some (x.1, o.state) else none
    | none => none

end GS.RespMgr
