import GS.Model.Requestor
import GS.Model.LinkTracker
/-!
Several requests in flight at once from one requestor to one responder (property C20).

  * one `GS.Requestor.State` (executor + reconciled loader + traverser cursor) per request; all of them
    read and write ONE local block store (`Sys.store`: every request of a GraphSync instance uses the
    instance's link system unless a persistence option is chosen);
  * one responder with ONE `GS.LinkTrack.PeerTracker` for the peer (responseassembler keeps one
    `peerLinkTracker` per peer: cross-request de-duplication) and one traversal cursor per request
    (`queryexecutor.runTraversal` over the flat link tree: a link whose block the responder lacks is
    reported missing and its subtree skipped; the root missing ends the response with
    RequestFailedContentNotFound);
  * one FIFO of response messages per request (messages of different requests may overtake each
    other only in so far as the schedule delivers them in another order; within a request the order
    is kept — that is all the network guarantees the loaders).

A schedule is a list of actions; every action is one atomic step of one process:

  start i     the requestor issues request i (its local traversal runs until the first miss, then the
              request message — with its do-not-send-first-blocks value — reaches the responder, which
              prepares the query: dedup key first, then the skip count, `prepareQuery`'s order)
  resp i      the responder's executor for request i handles one link (one `sendResponse` transaction:
              `PeerTracker.traverse` decides whether the block travels) or, at the end of the traversal,
              queues the terminal status (`FinishRequest` -> `finishTracking`)
  deliver i   the oldest undelivered response message of request i reaches the requestor
              (`Requestor.message`: ingest, then the executor of request i runs until it parks again)

The responder step is a variant of `GS.Responder.runTraversal` over the requestor model's flat link
tree (one representation for both peers); the decision logic is the shared `PeerTracker`.
-/
namespace GS.Concurrent
open GS.Loader GS.Requestor GS.LinkTrack

/-- one response message (a single transaction: one link, or the terminal status) -/
structure Wire where
  status : Nat := 14
  md     : List (Cid × Action) := []
  blocks : List (Cid × Blk) := []
deriving Repr, DecidableEq

/-- the responder's executor state for one request -/
structure RespRun where
  todo     : LT := []
  active   : Bool := false     -- the request has been received and is not finished
  rootMiss : Bool := false     -- the root load failed: the response ends with ContentNotFound
deriving Repr

structure Sys where
  store   : List (Cid × Blk) := []          -- the requestor's default block store, shared by all requests that
                                             -- do not use a persistence option
  own     : List (Option (List (Cid × Blk))) := []   -- `some st`: request i uses a persistence option, i.e. a
                                             -- block store of its own (its dedup key is the option's name)
  reqs    : List Requestor.State := []
  lts     : List LT := []
  keys    : List (Option Key) := []          -- dedup-by-key extension of each request
  resp    : List RespRun := []
  chan    : List (List Wire) := []
  tracker : PeerTracker := {}
  rem     : List Cid := []                   -- the responder's block store
  evs     : List (List Ev) := []             -- what each request has reported so far
deriving Repr

inductive Act where
  | start (i : Nat) | resp (i : Nat) | deliver (i : Nat)
deriving Repr, DecidableEq

def setAt {α : Type} (l : List α) (i : Nat) (v : α) : List α := l.set i v

/-- the block store request `i` loads from and writes to -/
def storeOf (s : Sys) (i : Nat) : List (Cid × Blk) :=
  match s.own.getD i none with
  | some st => st
  | none => s.store

/-- write back the store of request `i` after one of its steps -/
def putStore (s : Sys) (i : Nat) (st : List (Cid × Blk)) : Sys :=
  match s.own.getD i none with
  | some _ => { s with own := setAt s.own i (some st) }
  | none => { s with store := st }

/-- the skip value of the request message, if one was sent -/
def sentSkip (evs : List Ev) : Option Nat :=
  evs.findSome? fun | .sentNew k => some k | _ => none

def initSys (st : List (Cid × Blk)) (rem : List Cid) (lts : List LT) (keys : List (Option Key))
    (own : List (Option (List (Cid × Blk))) := []) : Sys :=
  { store := st, own := own, rem := rem, lts := lts, keys := keys
    reqs := lts.map fun _ => {}
    resp := lts.map fun _ => {}
    chan := lts.map fun _ => []
    evs := lts.map fun _ => [] }

/-- the requestor issues a request over block store `st` -/
def reqStart (r : Requestor.State) (st : List (Cid × Blk)) (lt : LT) : Requestor.State × List Ev :=
  Requestor.request { r with L := { r.L with store := st } } lt 0

/-- one response message reaches the executor of a request that works over block store `st` -/
def reqMsg (r : Requestor.State) (st : List (Cid × Blk)) (w : Wire) : Requestor.State × List Ev :=
  Requestor.message { r with L := { r.L with store := st } } true true w.status w.md w.blocks

/-- `prepareQuery`: dedup-by-key, then do-not-send-first-blocks -/
def prepare (t : PeerTracker) (i : Nat) (key : Option Key) (k : Nat) : PeerTracker :=
  let t1 := match key with
    | some key => t.dedupKey i key
    | none => t
  if k > 0 then t1.skipFirstBlocks i k else t1

/-- one step of the responder's executor for the in-progress request `i` -/
def respStep (t : PeerTracker) (rem : List Cid) (i : Nat) (rr : RespRun) : PeerTracker × RespRun × Wire :=
  if rr.rootMiss then
    let (t', _) := t.finishTracking i
    (t', { rr with active := false }, { status := 34 })
  else
  match rr.todo with
  | [] =>
    let (t', all) := t.finishTracking i
    (t', { rr with active := false }, { status := if all then 20 else 21 })
  | n :: rest =>
    let present := rem.contains n.cid
    let (t', send, _) := t.traverse i n.cid present
    let w : Wire := { md := [(n.cid, if present then .present else .missing)],
                      blocks := if send then [(n.cid, n.cid)] else [] }
    let rr' : RespRun :=
      if present then { rr with todo := rest }
      else { rr with todo := rest.dropWhile (fun m => m.depth > n.depth), rootMiss := n.depth == 0 }
    (t', rr', w)

def step (s : Sys) : Act → Sys
  | .start i =>
    match s.reqs[i]?, s.lts[i]? with
    | some r, some lt =>
      if r.phase != .idle then s else
      let (r', ev) := reqStart r (storeOf s i) lt
      let s0 := putStore s i r'.L.store
      let s1 := { s0 with reqs := setAt s.reqs i r', evs := setAt s.evs i ((s.evs.getD i []) ++ ev) }
      match sentSkip ev with
      | none => s1
      | some k =>
        { s1 with tracker := prepare s.tracker i (s.keys.getD i none) k,
                  resp := setAt s.resp i { todo := lt, active := true } }
    | _, _ => s
  | .resp i =>
    match s.resp[i]? with
    | some rr =>
      if !rr.active then s else
      let (t', rr', w) := respStep s.tracker s.rem i rr
      { s with tracker := t', resp := setAt s.resp i rr', chan := setAt s.chan i ((s.chan.getD i []) ++ [w]) }
    | none => s
  | .deliver i =>
    match s.reqs[i]?, s.chan[i]? with
    | some r, some (w :: ws) =>
      let (r', ev) := reqMsg r (storeOf s i) w
      let s0 := putStore s i r'.L.store
      { s0 with reqs := setAt s.reqs i r', chan := setAt s.chan i ws,
                evs := setAt s.evs i ((s.evs.getD i []) ++ ev) }
    | _, _ => s

def run (s : Sys) (sched : List Act) : Sys := sched.foldl step s

/-- the canonical schedule of a request that is alone: start, then the responder and the network
    alternate until nothing is left (`n` rounds suffice for a link tree of `n - 2` nodes) -/
def soloSched (n : Nat) : List Act := .start 0 :: (List.replicate n [Act.resp 0, Act.deliver 0]).flatten

/-- request `i` run alone between the same two stores -/
def solo (st : List (Cid × Blk)) (rem : List Cid) (lt : LT) (key : Option Key) : Sys :=
  run (initSys st rem [lt] [key]) (soloSched (lt.length + 2))

/-! ### message batching: ONE block map per wire message

The real requestor hands the block map of a wire message to EVERY response in it
(`requestmanager/server.go` processResponses -> `injest.go`: `IngestResponse(md, blocks)` with the
message's whole block map), and the responder's message builder puts the transactions of several
requests to one peer into one message while the network is busy.  `step (.deliver i)` is the special
case "one response per message".  `stepB (.batch is)` delivers the oldest undelivered response of
every request in `is` as ONE message: each of them is ingested with the UNION of their blocks. -/

/-- the blocks of the wire message that carries the oldest undelivered response of each request in `is` -/
def headBlocks (s : Sys) (is : List Nat) : List (Cid × Blk) :=
  is.flatMap fun i =>
    match s.chan[i]? with
    | some (w :: _) => w.blocks
    | _ => []

/-- `deliver i`, the response being ingested with the block map `bl` of its message -/
def deliverWith (s : Sys) (i : Nat) (bl : List (Cid × Blk)) : Sys :=
  match s.reqs[i]?, s.chan[i]? with
  | some r, some (w :: ws) =>
    let (r', ev) := reqMsg r (storeOf s i) { w with blocks := bl }
    let s0 := putStore s i r'.L.store
    { s0 with reqs := setAt s.reqs i r', chan := setAt s.chan i ws,
              evs := setAt s.evs i ((s.evs.getD i []) ++ ev) }
  | _, _ => s

inductive BAct where
  | act (a : Act)
  | batch (is : List Nat)     -- one wire message with the next response of each of these requests
deriving Repr, DecidableEq

def stepB (s : Sys) : BAct → Sys
  | .act a => step s a
  | .batch is => let bl := headBlocks s is; is.foldl (fun s i => deliverWith s i bl) s

def runB (s : Sys) (sched : List BAct) : Sys := sched.foldl stepB s

/-! ### what the property compares (per request) -/

def blocksOf (evs : List Ev) : List (Cid × Path) :=
  evs.filterMap fun | .block c p _ _ => some (c, p) | _ => none

def missingOf (evs : List Ev) : List (Cid × Path) :=
  evs.filterMap fun | .err (.load (.missing c p)) => some (c, p) | _ => none

def deliveredOf (evs : List Ev) : Nat := (evs.filterMap fun | .prog n => some n | _ => none).foldl (· + ·) 0

def finished (s : Sys) (i : Nat) : Bool :=
  match s.reqs[i]? with
  | some r => r.phase == .finished
  | none => false

/-- the result of request `i`: blocks handed to its traversal, missing-block errors, nodes delivered -/
def resultOf (s : Sys) (i : Nat) : List (Cid × Path) × List (Cid × Path) × Nat :=
  let e := s.evs.getD i []
  (blocksOf e, missingOf e, deliveredOf e)

/-- block cids in the requestor's store -/
def stored (s : Sys) : List Cid := s.store.map (·.1)

end GS.Concurrent
