import GS.Driver.BudgetCore
/-! model driver executable for component `budgetstack` (C07, real requestor/responder stacks) -/
def main : IO Unit := GS.Proto.runModel GS.Driver.Budget.handler
