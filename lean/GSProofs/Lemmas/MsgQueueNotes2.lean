import GSProofs.Lemmas.MsgQueueNotes
/-!
# Message queue: the notification / wire-order invariant, phase by phase
-/
namespace GS.MQ

/-- complete (or empty) notification sequences of one subscriber on one topic -/
def Done (l : List Kind) : Prop :=
  l = [] ∨ l = [.queued, .sent, .close] ∨ l = [.queued, .error, .close] ∨ l = [.error, .close]

def topicsOf (bs : List Builder) : List Nat := bs.map (fun b => (b.topic : Nat))

/-- facts about queued builders and fresh topics shared by all phases -/
structure Base (s : State) : Prop where
  open_ : s.pubClosed = false
  fresh : ∀ t : Nat, (s.nextTopic ≤ t ∨ t ∈ topicsOf s.builders) → ∀ u, seqOf u t s.log = []
  sorted : (topicsOf s.builders).Pairwise (· < ·)
  below : ∀ t ∈ topicsOf s.builders, t < s.nextTopic
  wsorted : (wiresOf s.log).Pairwise (· < ·)

/-- the queue goroutine is between two messages -/
structure Idle (s : State) : Prop extends Base s where
  topics : s.topics = []
  done : ∀ (t : Nat) u, Done (seqOf u t s.log)
  wbelow : ∀ w ∈ wiresOf s.log, w < s.nextTopic ∧ ∀ t ∈ topicsOf s.builders, w < t

/-- message `m` (subscribers `U`) is being processed; its subscribers have received `σ` so far -/
structure Mid (s : State) (m : InFlight) (U : List Sub) (σ : List Kind) (strict : Bool) : Prop extends Base s where
  topics : s.topics = [(m.topic, U)]
  nodupU : U.Nodup
  seqM : ∀ u, seqOf u m.topic s.log = if u ∈ U then σ else []
  done : ∀ (t : Nat) u, t ≠ m.topic → Done (seqOf u t s.log)
  mBelow : @LT.lt Nat _ m.topic s.nextTopic ∧ ∀ t ∈ topicsOf s.builders, @LT.lt Nat _ m.topic t
  wbelow : ∀ w ∈ wiresOf s.log, if strict then w < (m.topic : Nat) else w ≤ (m.topic : Nat)

/-- the fields the invariant talks about -/
structure NFrame (s s' : State) : Prop where
  log : s'.log = s.log
  topics : s'.topics = s.topics
  pubClosed : s'.pubClosed = s.pubClosed
  builders : s'.builders = s.builders
  nextTopic : s'.nextTopic = s.nextTopic

theorem Base.frame {s s' : State} (h : Base s) (f : NFrame s s') : Base s' := by
  refine ⟨f.pubClosed ▸ h.open_, ?_, ?_, ?_, ?_⟩
  · rw [f.nextTopic, f.builders, f.log]; exact h.fresh
  · rw [f.builders]; exact h.sorted
  · rw [f.builders, f.nextTopic]; exact h.below
  · rw [f.log]; exact h.wsorted

theorem Idle.frame {s s' : State} (h : Idle s) (f : NFrame s s') : Idle s' := by
  refine ⟨h.toBase.frame f, f.topics ▸ h.topics, ?_, ?_⟩
  · rw [f.log]; exact h.done
  · rw [f.log, f.nextTopic, f.builders]; exact h.wbelow

theorem Mid.frame {s s' : State} {m : InFlight} {U : List Sub} {σ : List Kind} {b : Bool}
    (h : Mid s m U σ b) (f : NFrame s s') : Mid s' m U σ b := by
  refine ⟨h.toBase.frame f, f.topics ▸ h.topics, h.nodupU, ?_, ?_, ?_, ?_⟩
  · rw [f.log]; exact h.seqM
  · rw [f.log]; exact h.done
  · rw [f.nextTopic, f.builders]; exact h.mBelow
  · rw [f.log]; exact h.wbelow

/-- appending events that are neither notifications nor first-attempt wire events -/
structure Quiet (s s' : State) : Prop where
  log : ∃ X, s'.log = s.log ++ X ∧ (∀ e ∈ X, isNote e = false) ∧ (∀ e ∈ X, isWire0 e = false)
  topics : s'.topics = s.topics
  pubClosed : s'.pubClosed = s.pubClosed
  builders : ∃ k, topicsOf s'.builders = topicsOf s.builders ++ List.range' s.nextTopic k ∧
    s'.nextTopic = s.nextTopic + k

theorem Quiet.seq {s s' : State} (q : Quiet s s') (u : Sub) (t : Topic) : seqOf u t s'.log = seqOf u t s.log := by
  obtain ⟨X, h1, h2, _⟩ := q.log
  rw [h1, seqOf_append, seqOf_nonote u t X h2, List.append_nil]

theorem Quiet.wires {s s' : State} (q : Quiet s s') : wiresOf s'.log = wiresOf s.log := by
  obtain ⟨X, h1, _, h3⟩ := q.log
  rw [h1, wiresOf_append, wiresOf_nowire X h3, List.append_nil]

theorem Quiet.refl (s : State) : Quiet s s := ⟨⟨[], by simp, by simp, by simp⟩, rfl, rfl, ⟨0, by simp, rfl⟩⟩

theorem Quiet.trans {a b c : State} (h1 : Quiet a b) (h2 : Quiet b c) : Quiet a c := by
  obtain ⟨X, x1, x2, x3⟩ := h1.log
  obtain ⟨Y, y1, y2, y3⟩ := h2.log
  obtain ⟨k1, p1, p2⟩ := h1.builders
  obtain ⟨k2, q1, q2⟩ := h2.builders
  refine ⟨⟨X ++ Y, by rw [y1, x1, List.append_assoc], ?_, ?_⟩, h2.topics.trans h1.topics,
    h2.pubClosed.trans h1.pubClosed, ⟨k1 + k2, ?_, by omega⟩⟩
  · intro e he; rcases List.mem_append.mp he with he | he
    · exact x2 e he
    · exact y2 e he
  · intro e he; rcases List.mem_append.mp he with he | he
    · exact x3 e he
    · exact y3 e he
  · rw [q1, p1, p2, List.append_assoc, List.range'_append_1]

theorem mem_range'_1 {a k t : Nat} (h : t ∈ List.range' a k) : a ≤ t ∧ t < a + k := by
  exact List.mem_range'_1.mp h

theorem pairwise_range' (a k : Nat) : (List.range' a k).Pairwise (· < ·) := by
  induction k generalizing a with
  | zero => simp
  | succ k ih =>
    rw [List.range'_succ]
    apply List.Pairwise.cons
    · intro x hx; have hx2 := mem_range'_1 hx; omega
    · exact ih (a + 1)

theorem Base.quiet {s s' : State} (h : Base s) (q : Quiet s s') : Base s' := by
  obtain ⟨k, q1, q2⟩ := q.builders
  refine ⟨q.pubClosed ▸ h.open_, ?_, ?_, ?_, ?_⟩
  · intro t ht u
    rw [q.seq]
    apply h.fresh
    rcases ht with ht | ht
    · left; omega
    · rw [q1] at ht
      rcases List.mem_append.mp ht with ht | ht
      · exact Or.inr ht
      · left; exact (mem_range'_1 ht).1
  · rw [q1, List.pairwise_append]
    refine ⟨h.sorted, pairwise_range' _ _, ?_⟩
    intro a ha b hb
    have hx3 := h.below a ha
    have hx4 := (mem_range'_1 hb).1
    omega
  · intro t ht
    rw [q1] at ht
    rcases List.mem_append.mp ht with ht | ht
    · have hx5 := h.below t ht; omega
    · have hx6 := (mem_range'_1 ht).2; omega
  · rw [q.wires]; exact h.wsorted

theorem Idle.quiet {s s' : State} (h : Idle s) (q : Quiet s s') : Idle s' := by
  obtain ⟨k, q1, q2⟩ := q.builders
  refine ⟨h.toBase.quiet q, q.topics ▸ h.topics, ?_, ?_⟩
  · intro t u; rw [q.seq]; exact h.done t u
  · intro w hw
    rw [q.wires] at hw
    obtain ⟨w1, w2⟩ := h.wbelow w hw
    refine ⟨by omega, ?_⟩
    intro t ht
    rw [q1] at ht
    rcases List.mem_append.mp ht with ht | ht
    · exact w2 t ht
    · have hx7 := (mem_range'_1 ht).1; omega

theorem Mid.quiet {s s' : State} {m : InFlight} {U : List Sub} {σ : List Kind} {b : Bool}
    (h : Mid s m U σ b) (q : Quiet s s') : Mid s' m U σ b := by
  obtain ⟨k, q1, q2⟩ := q.builders
  refine ⟨h.toBase.quiet q, q.topics ▸ h.topics, h.nodupU, ?_, ?_, ?_, ?_⟩
  · intro u; rw [q.seq]; exact h.seqM u
  · intro t u ht; rw [q.seq]; exact h.done t u ht
  · refine ⟨by have := h.mBelow.1; omega, ?_⟩
    intro t ht
    rw [q1] at ht
    rcases List.mem_append.mp ht with ht | ht
    · exact h.mBelow.2 t ht
    · have hx8 := (mem_range'_1 ht).1; have hx9 := h.mBelow.1; omega
  · rw [q.wires]; exact h.wbelow

/-! ## phase transitions -/

/-- publishing kind `k` to the subscribers of the message in progress -/
theorem Mid.publish {s : State} {m : InFlight} {U : List Sub} {σ : List Kind} {b : Bool}
    (h : Mid s m U σ b) (k : Kind) : Mid (s.publish m.topic k) m U (σ ++ [k]) b := by
  obtain ⟨l1, l2, l3⟩ := publish_log h.open_ m.topic k
  have hU : (aget s.topics m.topic).getD [] = U := by rw [h.topics]; simp [aget]
  rw [hU] at l1
  have hseq : ∀ u t, seqOf u t (s.publish m.topic k).log = seqOf u t s.log ++ (if m.topic = t ∧ u ∈ U then [k] else []) := by
    intro u t; rw [l1, seqOf_append, seqOf_notify_map u t m.topic k U h.nodupU]
  have hw : wiresOf (s.publish m.topic k).log = wiresOf s.log := by
    rw [l1, wiresOf_append, wiresOf_notify_map, List.append_nil]
  have hfr := publish_frame s m.topic k
  refine ⟨⟨l3, ?_, ?_, ?_, ?_⟩, l2.trans h.topics, h.nodupU, ?_, ?_, ?_, ?_⟩
  · intro t ht u
    rw [hfr.nextTopic, hfr.builders] at ht
    rw [hseq, h.fresh t ht u]
    have hne : m.topic ≠ t := by
      intro e
      have e' : @Eq Nat t m.topic := e.symm
      rcases ht with ht | ht
      · have hx10 := h.mBelow.1; omega
      · have hx11 := h.mBelow.2 t ht; omega
    simp [hne]
  · rw [hfr.builders]; exact h.sorted
  · rw [hfr.builders, hfr.nextTopic]; exact h.below
  · rw [hw]; exact h.wsorted
  · intro u
    rw [hseq, h.seqM u]
    by_cases hu : u ∈ U <;> simp [hu]
  · intro t u ht
    rw [hseq]
    have : ¬ (m.topic = t ∧ u ∈ U) := fun hh => ht hh.1.symm
    simp only [this, if_false, List.append_nil]
    exact h.done t u ht
  · rw [hfr.nextTopic, hfr.builders]; exact h.mBelow
  · rw [hw]; exact h.wbelow

/-- closing the topic of a message whose subscribers have a complete sequence -/
theorem Mid.close {s : State} {m : InFlight} {U : List Sub} {σ : List Kind} {b : Bool}
    (h : Mid s m U σ b) (hd : Done (σ ++ [Kind.close])) : Idle (s.closeTopic m.topic) := by
  obtain ⟨l1, l2, l3⟩ := closeTopic_log h.open_ m.topic
  have hU : (aget s.topics m.topic).getD [] = U := by rw [h.topics]; simp [aget]
  rw [hU] at l1
  have hseq : ∀ u t, seqOf u t (s.closeTopic m.topic).log = seqOf u t s.log ++ (if m.topic = t ∧ u ∈ U then [Kind.close] else []) := by
    intro u t; rw [l1, seqOf_append, seqOf_notify_map u t m.topic Kind.close U h.nodupU]
  have hw : wiresOf (s.closeTopic m.topic).log = wiresOf s.log := by
    rw [l1, wiresOf_append, wiresOf_notify_map, List.append_nil]
  have hfr := closeTopic_frame s m.topic
  refine ⟨⟨l3, ?_, ?_, ?_, ?_⟩, ?_, ?_, ?_⟩
  · intro t ht u
    rw [hfr.nextTopic, hfr.builders] at ht
    rw [hseq, h.fresh t ht u]
    have hne : m.topic ≠ t := by
      intro e
      have e' : @Eq Nat t m.topic := e.symm
      rcases ht with ht | ht
      · have hx12 := h.mBelow.1; omega
      · have hx13 := h.mBelow.2 t ht; omega
    simp [hne]
  · rw [hfr.builders]; exact h.sorted
  · rw [hfr.builders, hfr.nextTopic]; exact h.below
  · rw [hw]; exact h.wsorted
  · rw [l2, h.topics]; simp [adel]
  · intro t u
    rw [hseq]
    by_cases ht : t = m.topic
    · subst ht
      rw [h.seqM u]
      by_cases hu : u ∈ U
      · simp only [hu, and_self, if_true]; exact hd
      · simp [hu, Done]
    · have : ¬ (m.topic = t ∧ u ∈ U) := fun hh => ht hh.1.symm
      simp only [this, if_false, List.append_nil]
      exact h.done t u ht
  · intro w hw'
    rw [hw] at hw'
    have hwb := h.wbelow w hw'
    have hle : @LE.le Nat _ w m.topic := by
      cases b
      · simpa using hwb
      · have hlt : @LT.lt Nat _ w m.topic := by simpa using hwb
        omega
    rw [hfr.nextTopic, hfr.builders]
    refine ⟨by have := h.mBelow.1; omega, ?_⟩
    intro t ht; have hx14 := h.mBelow.2 t ht; omega

end GS.MQ
