package main

import (
	"verifharness/reg"
	_ "verifharness/wire"
)

func main() { reg.Main("wire") }
