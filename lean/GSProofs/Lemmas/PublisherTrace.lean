import GSProofs.Lemmas.PublisherRegistry
namespace GS.Publisher
open SetMap Registry

theorem filter_beq_nodup {l : List Nat} (h : l.Nodup) (s : Nat) :
    l.filter (· == s) = if s ∈ l then [s] else [] := by
  induction l with
  | nil => simp
  | cons a l ih =>
    rw [List.nodup_cons] at h
    by_cases e : a = s
    · subst e
      have : l.filter (· == a) = [] := by rw [ih h.2]; simp [h.1]
      simp [this]
    · have e' : ¬ s = a := fun x => e x.symm
      simp [e, e', ih h.2]

theorem proj_send {r : Registry} (h : Inv r) (t0 e s t) :
    proj s t (r.send t0 e) = if r.Mem t s ∧ t0 = t then [Callback.onNext s t e] else [] := by
  unfold proj Registry.send
  rw [List.filter_map]
  by_cases et : t0 = t
  · subst et
    have : (Callback.about s t0 ∘ fun s' => Callback.onNext s' t0 e) = (· == s) := by
      funext s'; simp [Callback.about]
    rw [this, filter_beq_nodup (nodup_get h.wfT t0)]
    by_cases hm : r.Mem t0 s
    · have hm' : s ∈ r.topics.get t0 := hm
      simp [hm, hm']
    · have hm' : s ∉ r.topics.get t0 := hm
      simp [hm, hm']
  · have : (Callback.about s t ∘ fun s' => Callback.onNext s' t0 e) = fun _ => false := by
      funext s'; simp [Callback.about, et]
    rw [this]; simp [et]

theorem perm_short {α} {a b : List α} (h : a.Perm b) (hl : b.length ≤ 1) : a = b := by
  match b, hl with
  | [], _ => exact List.Perm.eq_nil h
  | [x], _ => exact List.perm_singleton.mp h

theorem proj_perm_short {s t} {o o' : List Callback} (h : o.Perm o') (hl : (proj s t o').length ≤ 1) :
    proj s t o = proj s t o' := perm_short (h.filter _) hl

theorem mem_topicPairs (r : Registry) (t0 t s) : (t, s) ∈ r.topicPairs t0 ↔ t = t0 ∧ r.Mem t s := by
  simp only [topicPairs, List.mem_map, Prod.mk.injEq, Mem]
  constructor
  · rintro ⟨a, h1, h2, h3⟩; subst h2; subst h3; exact ⟨rfl, h1⟩
  · rintro ⟨h1, h2⟩; subst h1; exact ⟨s, h2, rfl, rfl⟩

theorem mem_subPairs {r : Registry} (h : Inv r) (s0 t s) : (t, s) ∈ r.subPairs s0 ↔ s = s0 ∧ r.Mem t s := by
  simp only [subPairs, List.mem_map, Prod.mk.injEq, Mem, h.inv]
  constructor
  · rintro ⟨a, h1, h2, h3⟩; subst h2; subst h3; exact ⟨rfl, h1⟩
  · rintro ⟨h1, h2⟩; subst h1; exact ⟨t, h2, rfl, rfl⟩

theorem mem_allPairs {r : Registry} (h : Inv r) (t s) : (t, s) ∈ r.allPairs ↔ r.Mem t s := by
  simp only [allPairs, mem_pairs h.wfT, Mem]

/-- one loop iteration of the Go code, any map iteration order: the invariant is kept, and for
    every pair (s,t) membership and the projected callbacks follow `stepSpec`. -/
theorem goStep_spec {r c r' o} (hs : GoStep r c r' o) (h : Inv r) :
    Inv r' ∧ ∀ s t, decide (r'.Mem t s) = (stepSpec s t (decide (r.Mem t s)) c).1 ∧
      proj s t o = (stepSpec s t (decide (r.Mem t s)) c).2 := by
  cases hs with
  | subscribe t0 s0 =>
    refine ⟨inv_add h t0 s0, fun s t => ⟨?_, by simp [stepSpec, proj]⟩⟩
    rw [Bool.eq_iff_iff]
    simp only [stepSpec, decide_eq_true_eq, mem_add, Bool.or_eq_true, Bool.and_eq_true, beq_iff_eq]
    constructor
    · rintro (⟨a, b⟩ | h); exact Or.inr ⟨a.symm, b.symm⟩; exact Or.inl h
    · rintro (h | ⟨a, b⟩); exact Or.inr h; exact Or.inl ⟨a.symm, b.symm⟩
  | publish t0 e o hp =>
    refine ⟨h, fun s t => ⟨by simp [stepSpec], ?_⟩⟩
    have hl : (proj s t (r.send t0 e)).length ≤ 1 := by
      rw [proj_send h]; split <;> simp
    rw [proj_perm_short hp hl, proj_send h]
    by_cases hm : r.Mem t s <;> by_cases et : t0 = t <;> simp [stepSpec, hm, et]
  | closeTopic t0 ps hp =>
    refine ⟨inv_removeAll h ps, fun s t => ?_⟩
    rw [proj_removeAll h]
    simp only [mem_removeAll h, hp.mem_iff, mem_topicPairs]
    by_cases et : t = t0
    · subst et; by_cases hm : r.Mem t s <;> simp [stepSpec, hm]
    · have et' : ¬ t0 = t := fun x => et x.symm
      by_cases hm : r.Mem t s <;> simp [stepSpec, hm, et, et']
  | unsubAll s0 ps hp =>
    refine ⟨inv_removeAll h ps, fun s t => ?_⟩
    rw [proj_removeAll h]
    simp only [mem_removeAll h, hp.mem_iff, mem_subPairs h]
    by_cases et : s = s0
    · subst et; by_cases hm : r.Mem t s <;> simp [stepSpec, hm]
    · have et' : ¬ s0 = s := fun x => et x.symm
      by_cases hm : r.Mem t s <;> simp [stepSpec, hm, et, et']

theorem specFrom_cons_of_ne {s t act c rest} (hc : c ≠ Cmd.shutdown) :
    specFrom s t act (c :: rest) = (stepSpec s t act c).2 ++ specFrom s t (stepSpec s t act c).1 rest := by
  cases c <;> first | rfl | exact absurd rfl hc

/-- every Go trace, projected to (s,t), is the interval automaton's output -/
theorem goRun_spec {r cmds tr} (hr : GoRun r cmds tr) (h : Inv r) (s t) :
    proj s t tr = specFrom s t (decide (r.Mem t s)) cmds := by
  induction hr with
  | nil r => simp [proj, specFrom]
  | shutdown r rest ps hp =>
    rw [proj_removeAll h]
    simp only [hp.mem_iff, mem_allPairs h, specFrom]
    by_cases hm : r.Mem t s <;> simp [hm]
  | step r c r' o rest os hs _ ih =>
    have hc : c ≠ Cmd.shutdown := by cases hs <;> simp
    obtain ⟨hi, hst⟩ := goStep_spec hs h
    rw [proj_append, ih hi, specFrom_cons_of_ne hc, (hst s t).1, (hst s t).2]

/-- the executable model is one of the Go traces -/
theorem goStep_apply (r : Registry) {c} (hc : c ≠ Cmd.shutdown) : GoStep r c (r.apply c).1 (r.apply c).2 := by
  cases c with
  | subscribe t s => exact GoStep.subscribe r t s
  | publish t e => exact GoStep.publish r t e _ (List.Perm.refl _)
  | closeTopic t => exact GoStep.closeTopic r t _ (List.Perm.refl _)
  | unsubAll s => exact GoStep.unsubAll r s _ (List.Perm.refl _)
  | shutdown => exact absurd rfl hc

theorem goRun_runFrom (r : Registry) (cmds : List Cmd) : GoRun r cmds (runFrom r cmds) := by
  induction cmds generalizing r with
  | nil => exact GoRun.nil r
  | cons c rest ih =>
    by_cases hc : c = Cmd.shutdown
    · subst hc; exact GoRun.shutdown r rest _ (List.Perm.refl _)
    · have : runFrom r (c :: rest) = (r.apply c).2 ++ runFrom (r.apply c).1 rest := by
        cases c <;> first | rfl | exact absurd rfl hc
      rw [this]
      exact GoRun.step r c _ _ rest _ (goStep_apply r hc) (ih _)

end GS.Publisher
