// Package nodecaps: oracle-only stream for C21 (component "nodecaps").  A real impl.New node X with
// ASYMMETRIC MaxInProgressIncomingRequests / MaxInProgressOutgoingRequests and a roomy peer Y over a
// libp2p mocknet.  Request execution is held at a gate (a storage read) and the harness counts how many
// requests execute at once in each direction against the limit configured for THAT direction.
//
//	cfg <I> <O>   build X with MaxInProgressIncomingRequests(I), MaxInProgressOutgoingRequests(O)   -> ok
//	in <k>        Y sends k requests to X; X's block reads are held: every executing traversal sits in
//	              its first (only) read, so the number of held readers = incoming traversals running
//	              at once on X                                                        -> in k=.. limit=I peak=..
//	out <k>       X sends k requests to Y; Y holds its reads, so no request finishes; a request reaches
//	              Y's incoming-request hook only from inside X's ExecuteTask (the executor sends it), so
//	              the number of requests Y has seen = outgoing executions running at once on X
//	                                                                                  -> out k=.. limit=O peak=..
//
// Oracle (from the property sentence only): peak > limit of that direction -> impl-over-incoming /
// impl-over-outgoing.  Exceeding is detected the moment it happens (channel); "not exceeded" is concluded
// after the expected number min(k,limit) is reached and a further window passes without one more — on
// correct code one more can never come, so the window only bounds how long a wrong node has to show it.
package nodecaps

import (
	"bufio"
	"context"
	"fmt"
	"io"
	"math/rand"
	"os"
	"strconv"
	"sync"
	"time"

	"github.com/ipfs/go-cid"
	"github.com/ipld/go-ipld-prime/datamodel"
	"github.com/ipld/go-ipld-prime/fluent"
	"github.com/ipld/go-ipld-prime/linking"
	cidlink "github.com/ipld/go-ipld-prime/linking/cid"
	"github.com/ipld/go-ipld-prime/node/basicnode"
	"github.com/ipld/go-ipld-prime/storage/memstore"
	"github.com/ipld/go-ipld-prime/traversal/selector/builder"
	"github.com/libp2p/go-libp2p/core/peer"
	mocknet "github.com/libp2p/go-libp2p/p2p/net/mock"

	_ "github.com/ipld/go-ipld-prime/codec/dagcbor"

	"github.com/ipfs/go-graphsync"
	gsimpl "github.com/ipfs/go-graphsync/impl"
	gsnet "github.com/ipfs/go-graphsync/network"
	logging "github.com/ipfs/go-log/v2"

	"verifharness/reg"
)

func init() {
	reg.Register(&reg.Component{Name: "nodecaps", Gen: Gen, Run: Run})
}

const window = 300 * time.Millisecond // how long a wrong node is given to exceed its limit
const patience = 15 * time.Second     // bound on every wait; running out of it is reported, never a failure

// gate holds the readers of one store while closed and counts them
type gate struct {
	mu     sync.Mutex
	closed bool
	open   chan struct{}
	held   int
	events chan struct{}
}

func newGate() *gate { return &gate{events: make(chan struct{}, 64)} }

func (g *gate) close() {
	g.mu.Lock()
	g.closed, g.open = true, make(chan struct{})
	g.mu.Unlock()
}
func (g *gate) release() {
	g.mu.Lock()
	if g.closed {
		g.closed = false
		close(g.open)
	}
	g.mu.Unlock()
}
func (g *gate) pass() {
	g.mu.Lock()
	if !g.closed {
		g.mu.Unlock()
		return
	}
	g.held++
	ch := g.open
	g.mu.Unlock()
	select {
	case g.events <- struct{}{}:
	default:
	}
	<-ch
	g.mu.Lock()
	g.held--
	g.mu.Unlock()
}
func (g *gate) count() int { g.mu.Lock(); defer g.mu.Unlock(); return g.held }

type node struct {
	gs   graphsync.GraphExchange
	id   peer.ID
	root datamodel.Link
	gate *gate
	// new requests seen by the incoming-request hook
	mu      sync.Mutex
	seen    int
	arrived chan struct{}
}

func (n *node) seenCount() int { n.mu.Lock(); defer n.mu.Unlock(); return n.seen }

func mkNode(ctx context.Context, mn mocknet.Mocknet, tag string, opts ...gsimpl.Option) (*node, error) {
	h, err := mn.GenPeer()
	if err != nil {
		return nil, err
	}
	n := &node{id: h.ID(), gate: newGate(), arrived: make(chan struct{}, 64)}
	ls := cidlink.DefaultLinkSystem()
	st := &memstore.Store{}
	ls.SetReadStorage(st)
	ls.SetWriteStorage(st)
	blk := fluent.MustBuildMap(basicnode.Prototype.Map, 1, func(na fluent.MapAssembler) {
		na.AssembleEntry("owner").AssignString(tag)
	})
	lp := cidlink.LinkPrototype{Prefix: cid.Prefix{Version: 1, Codec: 0x71, MhType: 0x12, MhLength: 32}}
	if n.root, err = ls.Store(linking.LinkContext{}, lp, blk); err != nil {
		return nil, err
	}
	inner := ls.StorageReadOpener
	ls.StorageReadOpener = func(lc linking.LinkContext, l datamodel.Link) (io.Reader, error) {
		if l != n.root { // the requestor's local look-up of the other node's block: a miss, nothing executes here
			return nil, fmt.Errorf("not found")
		}
		n.gate.pass()
		return inner(lc, l)
	}
	// received blocks are not kept: every request has to go to the other node
	ls.StorageWriteOpener = func(linking.LinkContext) (io.Writer, linking.BlockWriteCommitter, error) {
		return io.Discard, func(datamodel.Link) error { return nil }, nil
	}
	n.gs = gsimpl.New(ctx, gsnet.NewFromLibp2pHost(h), ls, opts...)
	n.gs.RegisterIncomingRequestHook(func(peer.ID, graphsync.RequestData, graphsync.IncomingRequestHookActions) {
		n.mu.Lock()
		n.seen++
		n.mu.Unlock()
		select {
		case n.arrived <- struct{}{}:
		default:
		}
	})
	return n, nil
}

type world struct {
	x, y   *node
	in     int
	outLim int
	cancel context.CancelFunc
	// a phase whose requests did not all end within the patience leaves stragglers behind: later counts
	// of this case would not be attributable, so they are not taken
	stale bool
}

func build(in, outLim int) (*world, error) {
	ctx, cancel := context.WithCancel(context.Background())
	mn := mocknet.New()
	x, err := mkNode(ctx, mn, "x", gsimpl.MaxInProgressIncomingRequests(uint64(in)), gsimpl.MaxInProgressOutgoingRequests(uint64(outLim)))
	if err == nil {
		var y *node
		if y, err = mkNode(ctx, mn, "y", gsimpl.MaxInProgressIncomingRequests(16), gsimpl.MaxInProgressOutgoingRequests(16)); err == nil {
			if err = mn.LinkAll(); err == nil {
				return &world{x: x, y: y, in: in, outLim: outLim, cancel: cancel}, nil
			}
		}
	}
	cancel()
	return nil, err
}

// phase: `from` sends k requests for `to`'s block; `to`'s reads are held; count() = executions at once.
// Returns the peak seen and whether every request completed after the release.
func phase(from, to *node, k, limit int, count func() int, events <-chan struct{}) (peak int, completed bool) {
	to.gate.close()
	ctx, cancel := context.WithTimeout(context.Background(), 2*patience)
	defer cancel()
	ssb := builder.NewSelectorSpecBuilder(basicnode.Prototype.Any)
	sel := ssb.Matcher().Node()
	var wg sync.WaitGroup
	for i := 0; i < k; i++ {
		progress, errs := from.gs.Request(ctx, to.id, to.root, sel)
		wg.Add(1)
		go func() {
			defer wg.Done()
			for range progress {
			}
			for range errs {
			}
		}()
	}
	expect := k
	if limit < expect {
		expect = limit
	}
	deadline := time.After(patience)
	var quiet <-chan time.Time
loop:
	for {
		if c := count(); c > peak {
			peak = c
		}
		if peak > limit {
			break // more than the limit execute right now: nothing further to wait for
		}
		if peak >= expect && quiet == nil {
			quiet = time.After(window)
		}
		select {
		case <-events:
		case <-quiet:
			if c := count(); c > peak {
				peak = c
			}
			break loop
		case <-deadline:
			break loop
		}
	}
	to.gate.release()
	done := make(chan struct{})
	go func() { wg.Wait(); close(done) }()
	select {
	case <-done:
		completed = true
	case <-ctx.Done():
	}
	return peak, completed
}

func Run(cases []reg.Case, out *reg.Out) {
	logging.SetAllLoggers(logging.LevelFatal)
	for _, c := range cases {
		out.BeginCase(c)
		var w *world
		for _, op := range c.Ops {
			arg := func(i int) int {
				if i >= len(op) {
					return -1
				}
				v, err := strconv.Atoi(op[i])
				if err != nil || v < 1 || v > 8 {
					return -1
				}
				return v
			}
			switch {
			case (op[0] == "in" || op[0] == "out") && w != nil && w.stale:
				out.Line("skipped")
				out.Cov("skipped-after-incomplete-phase")
			case op[0] == "cfg" && arg(1) > 0 && arg(2) > 0 && w == nil:
				var err error
				if w, err = build(arg(1), arg(2)); err != nil {
					fmt.Fprintln(os.Stderr, "nodecaps setup:", err)
					os.Exit(3)
				}
				out.Line("ok")
				if arg(1) != arg(2) {
					out.Cov("cfg:asymmetric")
				} else {
					out.Cov("cfg:symmetric")
				}
			case op[0] == "in" && arg(1) > 0 && w != nil:
				k := arg(1)
				peak, completed := phase(w.y, w.x, k, w.in, w.x.gate.count, w.x.gate.events)
				out.Line("in k=%d limit=%d peak=%d completed=%v", k, w.in, peak, completed)
				out.Cov("in")
				if k > w.in {
					out.Cov("in:more-than-limit")
				}
				if peak > w.in {
					out.Fail("impl-over-incoming", "node configured with MaxInProgressIncomingRequests=%d (MaxInProgressOutgoingRequests=%d) had %d incoming traversals held in a block read at once (%d requests sent)", w.in, w.outLim, peak, k)
				}
				if !completed {
					out.Cov("in:not-completed")
					w.stale = true
				}
			case op[0] == "out" && arg(1) > 0 && w != nil:
				k := arg(1)
				base := w.y.seenCount()
				peak, completed := phase(w.x, w.y, k, w.outLim, func() int { return w.y.seenCount() - base }, w.y.arrived)
				out.Line("out k=%d limit=%d peak=%d completed=%v", k, w.outLim, peak, completed)
				out.Cov("out")
				if k > w.outLim {
					out.Cov("out:more-than-limit")
				}
				if peak > w.outLim {
					out.Fail("impl-over-outgoing", "node configured with MaxInProgressOutgoingRequests=%d (MaxInProgressIncomingRequests=%d) had %d outgoing requests sent and unanswered (their executions running) at once (%d requests made)", w.outLim, w.in, peak, k)
				}
				if !completed {
					out.Cov("out:not-completed")
					w.stale = true
				}
			default:
				out.Line("bad-op")
			}
		}
		if w != nil {
			w.x.gate.release()
			w.y.gate.release()
			w.cancel()
		}
	}
}

func Gen(seed int64, n int, tier string, w *bufio.Writer) {
	r := rand.New(rand.NewSource(seed))
	for i := 0; i < n; i++ {
		in, outLim := 1+r.Intn(3), 1+r.Intn(3)
		if in == outLim && r.Intn(4) != 0 {
			outLim = in%3 + 1
		}
		fmt.Fprintf(w, "case n%d\ncfg %d %d\n", i, in, outLim)
		nops := 2 + r.Intn(2)
		for j := 0; j < nops; j++ {
			dir := "in"
			if (i+j)%2 == 1 {
				dir = "out"
			}
			fmt.Fprintf(w, "%s %d\n", dir, 1+r.Intn(5))
		}
	}
}
