import GSProofs.Lemmas.MsgQueueNotes4
/-!
# Message queue: notification / wire-order invariant over the queue goroutine's steps and all schedules
-/
namespace GS.MQ
open GS.Alloc

theorem extract_pc {s s' : State} {om : Option InFlight} (h : s.extract = (s', om)) : s'.pc = s.pc := by
  unfold State.extract at h
  split at h
  · cases h; rfl
  · simp only [Prod.mk.injEq] at h
    rw [← h.1]
    exact (subscribe_frame _ _ _).pc

theorem nframe_refl (s : State) : NFrame s s := ⟨rfl, rfl, rfl, rfl, rfl⟩

theorem done_QEC : Done ([Kind.queued] ++ [Kind.error] ++ [Kind.close]) := Or.inr (Or.inr (Or.inl rfl))
theorem done_QSC : Done ([Kind.queued] ++ [Kind.sent] ++ [Kind.close]) := Or.inr (Or.inl rfl)
theorem done_EC : Done ([] ++ [Kind.error] ++ [Kind.close]) := Or.inr (Or.inr (Or.inr rfl))

/-- `publishError` in the middle of a message -/
theorem Mid.publishError (pick : Pick) {s : State} {m : InFlight} {U : List Sub} {σ : List Kind} {b : Bool}
    (h : Mid s m U σ b) : Mid (s.publishError pick m) m U (σ ++ [Kind.error]) b := by
  unfold State.publishError
  generalize hs1 : ({ s with closedStreams := m.streams.foldl (fun acc r => if acc.contains r then acc else acc ++ [r]) s.closedStreams } : State) = s1
  have m1 : Mid s1 m U σ b := by subst hs1; exact h.frame ⟨rfl, rfl, rfl, rfl, rfl⟩
  simp only
  have m2 : Mid (s1.emit (m.streams.map Event.streamClosed)) m U σ b := by
    apply m1.quiet
    apply emit_quiet
    · intro e he; obtain ⟨x, _, rfl⟩ := List.mem_map.mp he; rfl
    · intro e he; obtain ⟨x, _, rfl⟩ := List.mem_map.mp he; rfl
  generalize s1.emit (m.streams.map Event.streamClosed) = s2 at m2
  generalize hsc : scrubAll m.streams s2.builders = sc
  obtain ⟨bs, freed⟩ := sc
  simp only
  have m3 : Mid ({ s2 with builders := bs } : State) m U σ b := by
    refine Mid.subBuilders (s' := ({ s2 with builders := bs } : State)) m2 rfl rfl rfl rfl ?_
    show (topicsOf bs).Sublist _
    have := scrubAll_topics_sublist m.streams s2.builders
    rw [hsc] at this; exact this
  generalize ({ s2 with builders := bs } : State) = s3 at m3
  have m4 : Mid (if freed > 0 then s3.release pick freed else s3) m U σ b := by
    split
    · exact m3.quiet (release_quiet _ _ _)
    · exact m3
  generalize (if freed > 0 then s3.release pick freed else s3) = s4 at m4
  exact (m4.publish Kind.error).quiet (release_quiet _ _ _)

theorem Mid.publishSent (pick : Pick) {s : State} {m : InFlight} {U : List Sub} {σ : List Kind} {b : Bool}
    (h : Mid s m U σ b) : Mid (s.publishSent pick m) m U (σ ++ [Kind.sent]) b := by
  unfold State.publishSent
  exact (h.publish Kind.sent).quiet (release_quiet _ _ _)

theorem Mid.finish {s : State} {m : InFlight} {U : List Sub} {σ : List Kind} {b : Bool}
    (h : Mid s m U σ b) (hd : Done (σ ++ [Kind.close])) : Idle (s.finish m) := by
  unfold State.finish
  exact (h.close hd).frame ⟨rfl, rfl, rfl, rfl, rfl⟩

/-- the invariant at the boundaries of `Act`s, by position of the queue goroutine -/
def NInv (s : State) : Prop :=
  match s.pc with
  | .idle => Idle s
  | .exiting => Idle s
  | .opening m none => ∃ U, Mid s m U [Kind.queued] true
  | .opening m (some _) => ∃ U, Mid s m U [Kind.queued] false
  | .sending m _ => ∃ U, Mid s m U [Kind.queued] false
  | .resetting m _ => ∃ U, Mid s m U [Kind.queued] false
  | .exited => Idle s

/-- the invariant of all reachable states -/
def J (s : State) : Prop := NInv s

theorem attempt_ninv (pick : Pick) {s : State} {m : InFlight} {U : List Sub} (i : Nat)
    (h : Mid s m U [Kind.queued] (i == 0)) : NInv (s.attempt pick m i) := by
  unfold State.attempt
  split
  · show ∃ U, Mid _ m U [Kind.queued] false
    refine ⟨U, ?_⟩
    cases i with
    | zero =>
      have := (Mid.wire0 (by simpa using h))
      exact this.frame ⟨rfl, rfl, rfl, rfl, rfl⟩
    | succ n =>
      have h' : Mid s m U [Kind.queued] false := by simpa using h
      have := h'.quiet (emit_quiet s [Event.wire m.topic (n + 1)] (by intro e he; simp at he; subst he; rfl)
        (by intro e he; simp at he; subst he; rfl))
      exact this.frame ⟨rfl, rfl, rfl, rfl, rfl⟩
  · have := (h.publishError pick).finish done_QEC
    show NInv _
    unfold NInv
    have hpc : ((s.publishError pick m).finish m).pc = .idle := rfl
    rw [hpc]; exact this

theorem drain_idle (pick : Pick) : ∀ (fuel : Nat) (s : State), Idle s → Idle (State.drain pick fuel s)
  | 0, _, h => h
  | fuel + 1, s, h => by
    obtain ⟨e1, e2⟩ := h.extract
    unfold State.drain
    cases he : s.extract with
    | mk s' om =>
      cases om with
      | none => exact e1 s' he
      | some m =>
        obtain ⟨U, hm⟩ := e2 s' m he
        simp only
        apply drain_idle pick fuel
        exact (hm.publishError pick).close done_EC

theorem run_ninv (pick : Pick) {s : State} (h : NInv s) (pw : Bool) : NInv (s.run pick pw) := by
  obtain ⟨peer, maxRetries, builders, nextTopic, token, done, sender, pc, closedStreams, waiters,
    nextTicket, topics, pubClosed, alloc, log⟩ := s
  cases pc with
  | idle =>
    have hi : Idle (⟨peer, maxRetries, builders, nextTopic, token, done, sender, .idle, closedStreams, waiters,
        nextTicket, topics, pubClosed, alloc, log⟩ : State) := h
    unfold State.run
    simp only
    split
    · have hi0 : Idle (⟨peer, maxRetries, builders, nextTopic, false, done, sender, .idle, closedStreams, waiters,
          nextTicket, topics, pubClosed, alloc, log⟩ : State) := hi.frame ⟨rfl, rfl, rfl, rfl, rfl⟩
      obtain ⟨e1, e2⟩ := hi0.extract
      cases he : (⟨peer, maxRetries, builders, nextTopic, false, done, sender, .idle, closedStreams, waiters,
          nextTicket, topics, pubClosed, alloc, log⟩ : State).extract with
      | mk s' om =>
        cases om with
        | none =>
          have hpc : s'.pc = .idle := (extract_pc he).trans rfl
          show NInv s'
          unfold NInv; rw [hpc]; exact e1 s' he
        | some m =>
          obtain ⟨U, hm⟩ := e2 s' m he
          have hq := hm.publish Kind.queued
          simp only [List.nil_append] at hq
          show NInv (if (s'.publish m.topic Kind.queued).sender = true then _ else _)
          split
          · exact attempt_ninv pick 0 (by simpa using hq)
          · show ∃ U, Mid _ m U [Kind.queued] true
            exact ⟨U, hq.frame ⟨rfl, rfl, rfl, rfl, rfl⟩⟩
    · split
      · have key : ∀ s1 : State, Idle s1 → NInv ({ (if s1.sender = true then s1.emit [Event.senderClosed] else s1) with pc := .exiting }) := by
          intro s1 h1
          show Idle _
          have q : Quiet s1 (if s1.sender = true then s1.emit [Event.senderClosed] else s1) := by
            split
            · exact emit_quiet _ _ (by intro e he; simp at he; subst he; rfl) (by intro e he; simp at he; subst he; rfl)
            · exact Quiet.refl _
          exact (h1.quiet q).frame ⟨rfl, rfl, rfl, rfl, rfl⟩
        exact key _ (drain_idle pick _ _ hi)
      · exact h
  | opening m r => exact h
  | sending m i => exact h
  | resetting m i => exact h
  | exiting => exact h
  | exited => exact h

theorem idle_ninv {s : State} (hpc : s.pc = .idle) (h : Idle s) : NInv s := by
  unfold NInv; rw [hpc]; exact h

theorem ack_J (pick : Pick) {s : State} (h : NInv s) (ok : Bool) : J (s.ack pick ok) := by
  obtain ⟨peer, maxRetries, builders, nextTopic, token, done, sender, pc, closedStreams, waiters,
    nextTicket, topics, pubClosed, alloc, log⟩ := s
  cases pc with
  | idle => exact h
  | exited => exact h
  | exiting =>
    have hi : Idle (⟨peer, maxRetries, builders, nextTopic, token, done, sender, .exiting, closedStreams, waiters,
        nextTicket, topics, pubClosed, alloc, log⟩ : State) := h
    unfold State.ack
    simp only
    have q1 := allocStep_quiet pick (⟨peer, maxRetries, builders, nextTopic, token, done, sender, .exiting, closedStreams, waiters,
        nextTicket, topics, pubClosed, alloc, log⟩ : State) (.releasePeer peer)
    have i1 := hi.quiet q1
    generalize (State.allocStep pick (⟨peer, maxRetries, builders, nextTopic, token, done, sender, .exiting, closedStreams, waiters,
        nextTicket, topics, pubClosed, alloc, log⟩ : State) (.releasePeer peer)).1 = s1 at i1
    have i2 := i1.quiet (emit_quiet s1 [Event.exitCallback] (by intro e he; simp at he; subst he; rfl)
      (by intro e he; simp at he; subst he; rfl))
    show Idle _
    exact i2.frame ⟨rfl, rfl, rfl, rfl, rfl⟩
  | opening m r =>
    cases r with
    | none =>
      obtain ⟨U, hm⟩ : ∃ U, Mid (⟨peer, maxRetries, builders, nextTopic, token, done, sender, .opening m none, closedStreams, waiters,
        nextTicket, topics, pubClosed, alloc, log⟩ : State) m U [Kind.queued] true := h
      unfold State.ack
      simp only
      split
      · have hm' : Mid (⟨peer, maxRetries, builders, nextTopic, token, done, true, .opening m none, closedStreams, waiters,
            nextTicket, topics, pubClosed, alloc, log⟩ : State) m U [Kind.queued] true := hm.frame ⟨rfl, rfl, rfl, rfl, rfl⟩
        exact attempt_ninv pick 0 (U := U) (by simpa using hm')
      · have h1 := hm.publishError pick
        generalize State.publishError pick _ m = s1 at h1
        have h2 : Mid ({ s1 with done := true } : State) m U ([Kind.queued] ++ [Kind.error]) true := h1.frame ⟨rfl, rfl, rfl, rfl, rfl⟩
        exact idle_ninv rfl (h2.finish done_QEC)
    | some i =>
      obtain ⟨U, hm⟩ : ∃ U, Mid (⟨peer, maxRetries, builders, nextTopic, token, done, sender, .opening m (some i), closedStreams, waiters,
        nextTicket, topics, pubClosed, alloc, log⟩ : State) m U [Kind.queued] false := h
      unfold State.ack
      simp only
      split
      · have hm' : Mid (⟨peer, maxRetries, builders, nextTopic, token, done, true, .opening m (some i), closedStreams, waiters,
            nextTicket, topics, pubClosed, alloc, log⟩ : State) m U [Kind.queued] false := hm.frame ⟨rfl, rfl, rfl, rfl, rfl⟩
        exact attempt_ninv pick (i + 1) (U := U) (by simpa using hm')
      · exact idle_ninv rfl ((hm.publishError pick).finish done_QEC)
  | sending m i =>
    obtain ⟨U, hm⟩ : ∃ U, Mid (⟨peer, maxRetries, builders, nextTopic, token, done, sender, .sending m i, closedStreams, waiters,
        nextTicket, topics, pubClosed, alloc, log⟩ : State) m U [Kind.queued] false := h
    unfold State.ack
    simp only
    split
    · exact idle_ninv rfl ((hm.publishSent pick).finish done_QSC)
    · show ∃ U, Mid _ m U [Kind.queued] false
      exact ⟨U, hm.frame ⟨rfl, rfl, rfl, rfl, rfl⟩⟩
  | resetting m i =>
    obtain ⟨U, hm⟩ : ∃ U, Mid (⟨peer, maxRetries, builders, nextTopic, token, done, sender, .resetting m i, closedStreams, waiters,
        nextTicket, topics, pubClosed, alloc, log⟩ : State) m U [Kind.queued] false := h
    unfold State.ack
    simp only
    split
    · exact idle_ninv rfl ((hm.publishError pick).finish done_QEC)
    · show ∃ U, Mid _ m U [Kind.queued] false
      exact ⟨U, hm.frame ⟨rfl, rfl, rfl, rfl, rfl⟩⟩

/-- a quiet transition that keeps the position of the queue goroutine -/
theorem NInv.quiet {s s' : State} (h : NInv s) (q : Quiet s s') (hpc : s'.pc = s.pc) : NInv s' := by
  unfold NInv at h ⊢
  rw [hpc]
  cases hp : s.pc with
  | idle => rw [hp] at h; exact Idle.quiet h q
  | exiting => rw [hp] at h; exact Idle.quiet h q
  | exited => rw [hp] at h; exact Idle.quiet h q
  | opening m r =>
    rw [hp] at h
    cases r with
    | none => obtain ⟨U, hm⟩ := h; exact ⟨U, hm.quiet q⟩
    | some i => obtain ⟨U, hm⟩ := h; exact ⟨U, hm.quiet q⟩
  | sending m i => rw [hp] at h; obtain ⟨U, hm⟩ := h; exact ⟨U, hm.quiet q⟩
  | resetting m i => rw [hp] at h; obtain ⟨U, hm⟩ := h; exact ⟨U, hm.quiet q⟩

theorem J.quiet {s s' : State} (h : J s) (q : Quiet s s') (hpc : s'.pc = s.pc) : J s' := NInv.quiet h q hpc

theorem closed_idle {s : State} (h : NInv s) (hc : s.closed = true) : Idle s := by
  obtain ⟨peer, maxRetries, builders, nextTopic, token, done, sender, pc, closedStreams, waiters,
    nextTicket, topics, pubClosed, alloc, log⟩ := s
  cases pc <;> first | exact h | (simp [State.closed] at hc)

theorem idle_closed {s : State} (h : Idle s) (hc : s.closed = true) : NInv s := by
  obtain ⟨peer, maxRetries, builders, nextTopic, token, done, sender, pc, closedStreams, waiters,
    nextTicket, topics, pubClosed, alloc, log⟩ := s
  cases pc <;> first | exact h | (simp [State.closed] at hc)

/-- `buildMessage` as seen by callers: quiet on an open queue, a complete `Error`, close on a closed one -/
theorem buildMsg_ninv (pick : Pick) {s : State} (h : NInv s) (ticket : Nat) (tx : Tx) (size : Nat) :
    NInv (s.buildMsg pick ticket tx size) := by
  by_cases hc : s.closed = true
  · have hi := (closed_idle h hc).quiet (buildMessage_quiet pick s ticket tx size)
    have hd := drain_idle pick 1 _ hi
    have hpc : (s.buildMsg pick ticket tx size).pc = s.pc := buildMsg_pc _ _ _ _ _
    have : s.buildMsg pick ticket tx size = State.drain pick 1 (s.buildMessage pick ticket tx size) := by
      unfold State.buildMsg; rw [if_pos hc]
    rw [this] at hpc ⊢
    exact idle_closed hd (by rw [closed_pc hpc]; exact hc)
  · have hc' : s.closed = false := by simpa using hc
    rw [buildMsg_open pick hc']
    exact h.quiet (buildMessage_quiet _ _ _ _ _) (buildMessage_pc _ _ _ _ _)

theorem buildWith_ninv (pick : Pick) {s : State} (h : NInv s) (tx : Tx) (size : Nat) :
    NInv (buildWith pick s tx size) := by
  unfold buildWith
  simp only
  have h0 : NInv ({ s with nextTicket := s.nextTicket + 1 } : State) :=
    h.quiet (Quiet.ofLog [] (by simp) (by simp) (by simp) rfl rfl rfl rfl) rfl
  split
  · exact buildMsg_ninv pick h0 _ _ _
  · have h1 := h0.quiet (allocStep_quiet pick ({ s with nextTicket := s.nextTicket + 1 } : State)
      (.alloc s.peer size s.nextTicket)) rfl
    split
    · exact buildMsg_ninv pick h1 _ _ _
    · exact h1.quiet (Quiet.ofLog [] (by simp) (by simp) (by simp) rfl rfl rfl rfl) rfl

theorem step_J (pick : Pick) {s : State} (h : J s) (a : Act) : J (step pick s a) := by
  cases a with
  | build tx =>
    show NInv (s.build pick tx)
    rw [build_eq]; split
    · exact h
    · exact buildWith_ninv pick h tx _
  | wake t =>
    show NInv (s.wake pick t)
    unfold State.wake
    split
    · exact h
    · next w _ =>
      simp only
      have h0 : NInv ({ s with waiters := s.waiters.filter (·.ticket != w.ticket) } : State) :=
        h.quiet (Quiet.ofLog [] (by simp) (by simp) (by simp) rfl rfl rfl rfl) rfl
      split
      · exact buildMsg_ninv pick h0 _ _ _
      · exact h0.quiet (emit_quiet _ _ (by intro e he; simp at he; subst he; rfl) (by intro e he; simp at he; subst he; rfl)) rfl
  | run pw => exact run_ninv pick h pw
  | ack ok => exact ack_J pick h ok
  | shutdown =>
    exact h.quiet (Quiet.ofLog [] (by simp [step]) (by simp) (by simp) rfl rfl rfl rfl) rfl
  | env op =>
    exact h.quiet (allocStep_quiet pick s op) rfl

theorem init_J (peer mr mt mp : Nat) : J (init peer mr mt mp) := by
  show Idle (init peer mr mt mp)
  refine ⟨⟨rfl, ?_, ?_, ?_, ?_⟩, rfl, ?_, ?_⟩
  · intro t _ u; rfl
  · simp [init, topicsOf]
  · intro t ht; simp [init, topicsOf] at ht
  · simp [init, wiresOf]
  · intro t u; exact Or.inl rfl
  · intro w hw; simp [init, wiresOf] at hw

theorem runActs_J (pick : Pick) {s : State} (h : J s) (acts : List Act) : J (runActs pick s acts) := by
  unfold runActs
  induction acts generalizing s with
  | nil => exact h
  | cons a r ih => exact ih (step_J pick h a)

end GS.MQ
