import GSProofs.Lemmas.ConcurrentCleanItem
import GSProofs.Lemmas.LoaderReplay
import GSProofs.Lemmas.ResponderTracker
import GSProofs.Lemmas.ExchangeComplete
/-!
Property C20, completeness clause of `CleanAt` — the alignment invariant of the run of ONE request whose
root the requestor does not hold when it is issued (no locally loaded prefix, skip 0).

Responder side (`respStep_item`): each step of the responder's traversal queues the head of the honest
stream `respItemsW` of C02 (`Lemmas/LoaderReplay.lean`) for its cursor; the tracker of the request's
dedup scope holds exactly the blocks `seenR` traversed so far (`TI`).
-/
namespace GS.C20
open GS.Loader GS.Requestor GS.LinkTrack GS.Concurrent GS.C03L

/-- the responder's store as a predicate -/
def remf (rem : List Cid) : Cid → Bool := fun c => rem.contains c

/-- the queue items the messages in flight will be rebuilt into -/
def itemsOf (ws : List Wire) : List Item := ws.flatMap (fun w => buildItems w.md w.blocks)

theorem itemsOf_append (a b : List Wire) : itemsOf (a ++ b) = itemsOf a ++ itemsOf b := by
  unfold itemsOf; rw [List.flatMap_append]

/-- the tracker as request `i` sees it: `seenR` = blocks traversed so far in its scope, `wR` = what is
    left of the skip window `N` -/
structure TI (t : PeerTracker) (i : Nat) (seenR : List Cid) (wR N : Nat) : Prop where
  rc : ∀ c, (rcOf t i c == 0) = !seenR.contains c
  sk : skipOf t i = (N : Int)
  w : wR = N - cnt t i

theorem buildItems_present (c : Cid) (bl : List (Cid × Blk)) :
    buildItems [(c, .present)] bl = [⟨c, .present, storeGet bl c⟩] := by
  simp [buildItems, buildItems.go]

theorem buildItems_missing (c : Cid) (bl : List (Cid × Blk)) :
    buildItems [(c, .missing)] bl = [⟨c, .missing, none⟩] := by
  simp [buildItems, buildItems.go]

/-- one step of the responder's traversal queues the head of the honest stream -/
theorem respStep_item (t : PeerTracker) (rem : List Cid) (i : Nat) (rr : RespRun) (m : LNode) (rest : LT)
    (seenR : List Cid) (wR N : Nat) (hTI : TI t i seenR wR N) (h1 : rr.rootMiss = false) (h2 : rr.todo = m :: rest)
    (hd : m.depth = 0 → m.cid ∈ rem) :
    ∃ it seenR', buildItems (respStep t rem i rr).2.2.md (respStep t rem i rr).2.2.blocks = [it] ∧
      (respStep t rem i rr).2.2.status = 14 ∧
      respItemsW (remf rem) (m :: rest) seenR wR =
        it :: respItemsW (remf rem) (respStep t rem i rr).2.1.todo seenR' (wR - 1) ∧
      TI (respStep t rem i rr).1 i seenR' (wR - 1) N ∧
      (respStep t rem i rr).2.1.active = rr.active ∧ (respStep t rem i rr).2.1.rootMiss = false ∧
      (∀ x ∈ (respStep t rem i rr).2.1.todo, x ∈ rest) := by
  obtain ⟨todo, active, rootMiss⟩ := rr
  simp only at h1 h2
  subst h1 h2
  have hs := GS.C03L.traverse_send t i m.cid (rem.contains m.cid)
  have hrc := traverse_rc t i m.cid (rem.contains m.cid)
  have hcn := traverse_cnt t i m.cid (rem.contains m.cid)
  have hsk := traverse_skip t i m.cid (rem.contains m.cid)
  unfold respStep
  simp only [Bool.false_eq_true, if_false]
  generalize t.traverse i m.cid (rem.contains m.cid) = tr at hs hrc hcn hsk
  obtain ⟨t', send, x⟩ := tr
  simp only at hs hrc hcn hsk ⊢
  have hns : decide (skipOf t i < ((cnt t i + 1 : Nat) : Int)) = !decide (0 < wR) := by
    rw [hTI.sk, hTI.w]
    by_cases h : N ≤ cnt t i
    · have h1 : ((N : Int) < ((cnt t i + 1 : Nat) : Int)) := by omega
      have h2 : ¬ (0 < N - cnt t i) := by omega
      rw [decide_eq_true h1, decide_eq_false h2]; rfl
    · have h1 : ¬ ((N : Int) < ((cnt t i + 1 : Nat) : Int)) := by omega
      have h2 : (0 < N - cnt t i) := by omega
      rw [decide_eq_false h1, decide_eq_true h2]; rfl
  rw [hns, hTI.rc m.cid] at hs
  have hw' : wR - 1 = N - cnt t' i := by rw [hcn, hTI.w]; omega
  by_cases hp : rem.contains m.cid = true
  · rw [hp] at hs hrc
    simp only [hp, if_true]
    refine ⟨_, m.cid :: seenR, buildItems_present _ _, by first | rfl | trivial, ?_, ⟨?_, hsk.trans hTI.sk, hw'⟩,
      by first | rfl | trivial, by first | rfl | trivial, fun x hx => hx⟩
    · rw [respItemsW]
      simp only [remf, hp, if_true]
      subst hs
      cases hA : decide (0 < wR) <;> cases hB : seenR.contains m.cid <;> simp [storeGet]
    · intro c
      rw [hrc c]
      have h0 := hTI.rc c
      by_cases hc : c = m.cid
      · subst hc; simp
      · have hc' : (c == m.cid) = false := by simpa using hc
        rw [List.contains_cons, hc']
        simpa using h0
  · have hp' : rem.contains m.cid = false := by simpa using hp
    rw [hp'] at hs hrc
    simp only [hp', Bool.false_eq_true, if_false]
    have hsf : send = false := by simpa using hs
    subst hsf
    have hd0 : (m.depth == 0) = false := by
      cases hx : (m.depth == 0) with
      | false => rfl
      | true =>
        exfalso
        have := hd (by simpa using hx)
        rw [List.contains_eq_mem] at hp'
        simp at hp'
        exact hp' this
    refine ⟨_, seenR, buildItems_missing _ _, by first | rfl | trivial, ?_, ⟨?_, hsk.trans hTI.sk, hw'⟩,
      by first | rfl | trivial, hd0, fun x hx => (List.dropWhile_sublist _).subset hx⟩
    · rw [respItemsW]
      have hnm : ¬ m.cid ∈ rem := by simpa using hp'
      simp [remf, hnm, skipSub]
    · intro c
      rw [hrc c]
      simpa using hTI.rc c

/-- the responder's traversal is over: the terminal status, no metadata -/
theorem respStep_end (t : PeerTracker) (rem : List Cid) (i : Nat) (rr : RespRun) (h1 : rr.rootMiss = false)
    (h2 : rr.todo = []) :
    (respStep t rem i rr).2.2.md = [] ∧ (respStep t rem i rr).2.2.status ≠ 14 ∧
    (respStep t rem i rr).2.1.active = false ∧ (respStep t rem i rr).2.1.rootMiss = false ∧
    (respStep t rem i rr).2.1.todo = [] := by
  obtain ⟨todo, active, rootMiss⟩ := rr
  simp only at h1 h2
  subst h1 h2
  unfold respStep
  simp only [Bool.false_eq_true, if_false]
  generalize t.finishTracking i = ft
  obtain ⟨t', all⟩ := ft
  cases all <;> simp

theorem respItemsW_nil (f : Cid → Bool) (seen : List Cid) (w : Nat) : respItemsW f [] seen w = [] := by
  rw [respItemsW]

theorem respItemsW_ne_nil (f : Cid → Bool) (l : LT) (hl : l ≠ []) (seen : List Cid) (w : Nat) :
    respItemsW f l seen w ≠ [] := by
  cases l with
  | nil => exact absurd rfl hl
  | cons n post =>
    rw [respItemsW]
    split <;> exact List.cons_ne_nil _ _

/-- **alignment** of the run of request `i` (no locally loaded prefix): either its executor is parked on
    the node `n` at its cursor (the verifier still has `remPre` to replay) and the honest stream for the cursor is exactly what is in flight followed
    by what the responder will still produce, or the request is over -/
inductive AL (R : TRec) (i : Nat) (s : Sys) : Prop
  | running (r : Requestor.State) (rr : RespRun) (ws : List Wire) (n : LNode) (post remPre : LT)
      (seenQ seenR : List Cid) (wR N : Nat)
      (hr : s.reqs[i]? = some r) (hrr : s.resp[i]? = some rr) (hc : s.chan[i]? = some ws)
      (pk : PK0 r n post) (vs : VS R r.L remPre)
      (held : ∀ m ∈ remPre, m.cid ∈ s.rem ∧ Has (storeOf s i) m.cid)
      (stale : r.L.unfollowed = [] ∨ ∀ m ∈ n :: post, below r.L.unfollowed m.path = false)
      (wf : WF (n :: post)) (dep : ∀ m ∈ n :: post, m.depth = 0 → m.cid ∈ s.rem)
      (seen : ∀ c ∈ seenQ, Has (storeOf s i) c)
      (ti : rr.active = true → TI s.tracker i seenR wR N)
      (rm : rr.rootMiss = false) (rdep : ∀ m ∈ rr.todo, m.depth = 0 → m.cid ∈ s.rem)
      (al : respItemsW (remf s.rem) (remPre ++ n :: post) seenQ remPre.length =
              itemsOf ws ++ (if rr.active = true then respItemsW (remf s.rem) rr.todo seenR wR else []))
      (w14 : rr.active = true → ∀ w ∈ ws, w.status = 14)
      (wend : rr.active = false → ∃ iws wt, ws = iws ++ [wt] ∧ (∀ w ∈ iws, w.status = 14) ∧ wt.md = [])
      (wok : ∀ w ∈ ws, w.status = 14 → ∃ it, buildItems w.md w.blocks = [it]) : AL R i s
  | over (h : ∀ r, s.reqs[i]? = some r → r.phase ≠ .running) : AL R i s

theorem AL_resp (R : TRec) (i : Nat) (s : Sys) (h : AL R i s) : AL R i (Concurrent.step s (.resp i)) := by
  cases h with
  | over h =>
    refine .over ?_
    cases hr : s.resp[i]? with
    | none => rw [resp_noop s i (fun rr hx => by rw [hr] at hx; cases hx)]; exact h
    | some rr =>
      cases ha : rr.active with
      | false => rw [resp_noop s i (fun rr' hx => by rw [hr] at hx; cases hx; exact ha)]; exact h
      | true => rw [resp_eq s i rr hr ha]; exact h
  | running r rr ws n post remPre seenQ seenR wR N hr hrr hc pk vs held stale wf dep seen ti rm rdep al w14 wend wok =>
    cases ha : rr.active with
    | false =>
      rw [resp_noop s i (fun rr' hx => by rw [hrr] at hx; cases hx; exact ha)]
      exact .running r rr ws n post remPre seenQ seenR wR N hr hrr hc pk vs held stale wf dep seen ti rm rdep al w14 wend wok
    | true =>
      rw [resp_eq s i rr hrr ha]
      have hgd : s.chan.getD i [] = ws := by rw [List.getD_eq_getElem?_getD, hc]; rfl
      have hc' : (respOut s i rr).chan[i]? = some (ws ++ [(respStep s.tracker s.rem i rr).2.2]) := by
        unfold respOut
        simp only [setAt, hgd]
        exact set_self_some _ _ _ _ hc
      have hrr' : (respOut s i rr).resp[i]? = some (respStep s.tracker s.rem i rr).2.1 := set_self_some _ _ _ _ hrr
      rw [ha] at al
      simp only [if_true] at al
      cases htd : rr.todo with
      | nil =>
        obtain ⟨e1, e2, e3, e4, e5⟩ := respStep_end s.tracker s.rem i rr rm htd
        rw [htd, respItemsW_nil, List.append_nil] at al
        refine .running r _ _ n post remPre seenQ seenR wR N hr hrr' hc' pk vs held stale wf dep seen
          (fun hx => by rw [e3] at hx; cases hx) e4 (by rw [e5]; intro m hm; cases hm) ?_
          (fun hx => by rw [e3] at hx; cases hx) (fun _ => ⟨ws, _, rfl, w14 ha, e1⟩) ?_
        · rw [e3, itemsOf_append]
          simp only [Bool.false_eq_true, if_false, List.append_nil]
          have : itemsOf [(respStep s.tracker s.rem i rr).2.2] = [] := by
            simp [itemsOf, e1, buildItems, buildItems.go]
          rw [this, List.append_nil]
          exact al
        · intro w hw h14
          rcases List.mem_append.mp hw with hw | hw
          · exact wok w hw h14
          · simp only [List.mem_singleton] at hw
            subst hw
            exact absurd h14 e2
      | cons m rest =>
        obtain ⟨it, seenR', k1, k2, k3, k4, k5, k6, k7⟩ := respStep_item s.tracker s.rem i rr m rest seenR wR N (ti ha) rm htd
          (rdep m (by rw [htd]; exact List.mem_cons_self))
        rw [htd, k3] at al
        refine .running r _ _ n post remPre seenQ seenR' (wR - 1) N hr hrr' hc' pk vs held stale wf dep seen
          (fun _ => k4) k6 (fun x hx => rdep x (by rw [htd]; exact List.mem_cons_of_mem _ (k7 x hx))) ?_
          ?_ (fun hx => by rw [k5, ha] at hx; cases hx) ?_
        · rw [k5, ha, itemsOf_append]
          simp only [if_true]
          have : itemsOf [(respStep s.tracker s.rem i rr).2.2] = [it] := by
            simp [itemsOf, k1]
          rw [this, List.append_assoc]
          exact al
        · intro _ w hw
          rcases List.mem_append.mp hw with hw | hw
          · exact w14 ha w hw
          · simp only [List.mem_singleton] at hw
            subst hw
            exact k2
        · intro w hw h14
          rcases List.mem_append.mp hw with hw | hw
          · exact wok w hw h14
          · simp only [List.mem_singleton] at hw
            subst hw
            exact ⟨it, k1⟩

/-- request `i` has reported no block missing that the responder holds -/
def EVM (i : Nat) (s : Sys) : Prop := ∀ c p, (c, p) ∈ missingOf (s.evs.getD i []) → c ∉ s.rem

theorem delivOut_fields (s : Sys) (i : Nat) (r : Requestor.State) (w : Wire) (ws' : List Wire) (hown : s.own = []) :
    (delivOut s i r w ws').own = [] ∧ (delivOut s i r w ws').store = (reqMsg r s.store w).1.L.store ∧
    (delivOut s i r w ws').reqs = setAt s.reqs i (reqMsg r s.store w).1 ∧
    (delivOut s i r w ws').chan = setAt s.chan i ws' ∧
    (delivOut s i r w ws').evs = setAt s.evs i (s.evs.getD i [] ++ (reqMsg r s.store w).2) ∧
    (delivOut s i r w ws').resp = s.resp ∧ (delivOut s i r w ws').tracker = s.tracker ∧
    (delivOut s i r w ws').rem = s.rem := by
  unfold delivOut
  rw [storeOf_shared s i hown, putStore_shared s i _ hown]
  exact ⟨hown, rfl, rfl, rfl, rfl, rfl, rfl, rfl⟩

theorem EVM_resp (i : Nat) (s : Sys) (h : EVM i s) : EVM i (Concurrent.step s (.resp i)) := by
  cases hr : s.resp[i]? with
  | none => rw [resp_noop s i (fun rr hx => by rw [hr] at hx; cases hx)]; exact h
  | some rr =>
    cases ha : rr.active with
    | false => rw [resp_noop s i (fun rr' hx => by rw [hr] at hx; cases hx; exact ha)]; exact h
    | true => rw [resp_eq s i rr hr ha]; exact h

theorem Has_of_storeGet {S : List (Cid × Blk)} {c : Cid} {b : Blk} (h : storeGet S c = some b) : Has S c := by
  unfold Has; rw [h]; rfl

theorem AL_deliver (R : TRec) (i : Nat) (s : Sys) (hG : GOK s) (h : AL R i s) (he : EVM i s) :
    AL R i (Concurrent.step s (.deliver i)) ∧ EVM i (Concurrent.step s (.deliver i)) := by
  cases h with
  | over h =>
    cases hr : s.reqs[i]? with
    | none => rw [deliver_noop_req s i hr]; exact ⟨.over h, he⟩
    | some r =>
      cases hc : s.chan[i]? with
      | none => rw [deliver_noop_chan s i (by rw [List.getD_eq_getElem?_getD, hc]; rfl)]; exact ⟨.over h, he⟩
      | some l =>
        cases l with
        | nil => rw [deliver_noop_chan s i (by rw [List.getD_eq_getElem?_getD, hc]; rfl)]; exact ⟨.over h, he⟩
        | cons w ws =>
          rw [deliver_eq s i r w ws hr hc]
          obtain ⟨f1, f2, f3, f4, f5, f6, f7, f8⟩ := delivOut_fields s i r w ws hG.own
          have hmsg : reqMsg r s.store w = (rws r s.store, []) := by
            rw [reqMsg_eq]; exact message_not_running (rws r s.store) _ _ _ (h r hr)
          constructor
          · refine .over ?_
            intro r' hr'
            rw [f3] at hr'
            simp only [setAt] at hr'
            rcases set_get _ _ _ _ _ hr' with ⟨_, rfl⟩ | ⟨hne, _⟩
            · rw [hmsg]; exact h r hr
            · exact absurd rfl hne
          · intro c p hm
            rw [f5] at hm
            simp only [setAt] at hm
            rw [f8]
            rcases mem_missing_set _ _ _ _ hm with hm | hm
            · exact he c p hm
            · rw [hmsg] at hm; simp [missingOf] at hm
  | running r rr ws n post remPre seenQ seenR wR N hr hrr hc pk vs held stale wf dep seen ti rm rdep al w14 wend wok =>
    cases ws with
    | nil =>
      rw [deliver_noop_chan s i (by rw [List.getD_eq_getElem?_getD, hc]; rfl)]
      exact ⟨.running r rr [] n post remPre seenQ seenR wR N hr hrr hc pk vs held stale wf dep seen ti rm rdep al w14 wend wok, he⟩
    | cons w ws' =>
      rw [deliver_eq s i r w ws' hr hc]
      obtain ⟨f1, f2, f3, f4, f5, f6, f7, f8⟩ := delivOut_fields s i r w ws' hG.own
      have hS : storeOf s i = s.store := storeOf_shared s i hG.own
      rw [hS] at seen held
      have hS' : storeOf (delivOut s i r w ws') i = (reqMsg r s.store w).1.L.store := by
        rw [storeOf_shared _ i f1, f2]
      by_cases h14 : w.status = 14
      · obtain ⟨it, hbi⟩ := wok w List.mem_cons_self h14
        have hit : itemsOf (w :: ws') = it :: itemsOf ws' := by simp [itemsOf, hbi]
        rw [hit, List.cons_append] at al
        have hst : r.L.unfollowed = [] ∨ below r.L.unfollowed n.path = false := by
          rcases stale with h0 | h0
          · exact Or.inl h0
          · exact Or.inr (h0 n List.mem_cons_self)
        have hr' : (delivOut s i r w ws').reqs[i]? = some (reqMsg r s.store w).1 := by
          rw [f3]; exact set_self_some _ _ _ _ hr
        have hc' : (delivOut s i r w ws').chan[i]? = some ws' := by
          rw [f4]; exact set_self_some _ _ _ _ hc
        have hrr' : (delivOut s i r w ws').resp[i]? = some rr := by rw [f6]; exact hrr
        have hmeq : reqMsg r s.store w = message (rws r s.store) true true 14 w.md w.blocks := by
          rw [reqMsg_eq, h14]
        have w14' : rr.active = true → ∀ x ∈ ws', x.status = 14 := fun ha x hx => w14 ha x (List.mem_cons_of_mem _ hx)
        have wok' : ∀ x ∈ ws', x.status = 14 → ∃ it, buildItems x.md x.blocks = [it] :=
          fun x hx => wok x (List.mem_cons_of_mem _ hx)
        have wend' : rr.active = false → ∃ iws wt, ws' = iws ++ [wt] ∧ (∀ x ∈ iws, x.status = 14) ∧ wt.md = [] := by
          intro ha
          obtain ⟨iws, wt, e1, e2, e3⟩ := wend ha
          cases iws with
          | nil =>
            simp only [List.nil_append, List.cons.injEq] at e1
            obtain ⟨rfl, _⟩ := e1
            rw [e3] at hbi
            simp [buildItems, buildItems.go] at hbi
          | cons x iws' =>
            simp only [List.cons_append, List.cons.injEq] at e1
            exact ⟨iws', wt, e1.2, fun y hy => e2 y (List.mem_cons_of_mem _ hy), e3⟩
        have hevs : ∀ c p, (c, p) ∈ missingOf ((delivOut s i r w ws').evs.getD i []) →
            (c, p) ∈ missingOf (s.evs.getD i []) ∨ (c, p) ∈ missingOf (reqMsg r s.store w).2 := by
          intro c p hm
          rw [f5] at hm
          simp only [setAt] at hm
          exact mem_missing_set _ _ _ _ hm
        cases remPre with
        | cons m pre' =>
          obtain ⟨hmrem, hmhas⟩ := held m List.mem_cons_self
          rw [List.cons_append, respItemsW] at al
          have hp : remf s.rem m.cid = true := by simpa [remf] using hmrem
          simp only [hp, if_true, List.cons.injEq] at al
          obtain ⟨hit', htail⟩ := al
          obtain ⟨m1, m2, m3, m4, m5⟩ := message_replay R r n post s.store m pre' it w.md w.blocks hbi pk vs
            (by rw [← hit']) (by rw [← hit']) _ hmeq
          constructor
          · refine .running _ rr ws' n post pre' (m.cid :: seenQ) seenR wR N hr' hrr' hc' m2 m5 ?_ ?_ wf
              (fun x hx hd => by rw [f8]; exact dep x hx hd) ?_ (by rw [f7]; exact ti) rm (by rw [f8]; exact rdep)
              ?_ w14' wend' wok'
            · intro x hx
              rw [f8, hS', m4]
              exact held x (List.mem_cons_of_mem _ hx)
            · rw [m3]; exact stale
            · intro c hcm
              rw [hS', m4]
              rcases List.mem_cons.mp hcm with rfl | hcm
              · exact hmhas
              · exact seen c hcm
            · rw [f8]
              simpa using htail
          · intro c p hm
            rw [f8]
            rcases hevs c p hm with hm | hm
            · exact he c p hm
            · rw [m1] at hm; cases hm
        | nil =>
          simp only [List.nil_append, List.length_nil] at al
          have pk' : PK r n post := PK.of0 pk vs
          rw [respItemsW] at al
          by_cases hp : remf s.rem n.cid = true
          · -- the responder holds the block
            simp only [hp, if_true, List.cons.injEq] at al
            obtain ⟨hit', htail⟩ := al
            have hnrem : n.cid ∈ s.rem := by simpa [remf] using hp
            have hdata : ∃ b, (it.block = some b ∨ (it.block = none ∧ storeGet s.store n.cid = some b)) := by
              rw [← hit']
              by_cases hsq : seenQ.contains n.cid = true
              · have hmem : n.cid ∈ seenQ := by simpa using hsq
                have := seen n.cid hmem
                unfold Has at this
                cases hg : storeGet s.store n.cid with
                | none => rw [hg] at this; cases this
                | some b => exact ⟨b, Or.inr ⟨by simp [hmem], rfl⟩⟩
              · have hnm : n.cid ∉ seenQ := by simpa using hsq
                exact ⟨n.cid, Or.inl (by simp [hnm])⟩
            obtain ⟨b, hb⟩ := hdata
            obtain ⟨m1, m2, m3, m4, m5⟩ :=
              (message_item r n post s.store it w.md w.blocks hbi pk' hst (by rw [← hit']) _ hmeq).1 b hb
            have hsub : Sub s.store (reqMsg r s.store w).1.L.store := by
              rw [m3]
              cases it.block with
              | none => exact Sub.refl _
              | some b' => exact Sub_cons_self _ _ _
            have hhas : Has (reqMsg r s.store w).1.L.store n.cid := by
              rw [m3]
              rcases hb with hb | ⟨hb1, hb2⟩
              · rw [hb]; simp only; rw [Has_cons]; exact Or.inl rfl
              · rw [hb1]; exact Has_of_storeGet hb2
            constructor
            · cases post with
              | nil =>
                refine .over ?_
                intro r' hr''
                rw [hr'] at hr''
                cases hr''
                rw [m4 rfl]
                intro hx; cases hx
              | cons m post' =>
                obtain ⟨k1, k2⟩ := m5 m post' rfl
                refine .running _ rr ws' m post' [] (n.cid :: seenQ) seenR wR N hr' hrr' hc' k1.to0 k1.ver
                  (fun _ hx => by cases hx) ?_ wf.2.2
                  (fun x hx hd => by rw [f8]; exact dep x (List.mem_cons_of_mem _ hx) hd) ?_
                  (by rw [f7]; exact ti) rm (by rw [f8]; exact rdep) (by rw [f8]; exact htail) w14' wend' wok'
                · left
                  rw [k2, ← hit']
                  rfl
                · intro c hcm
                  rw [hS']
                  rcases List.mem_cons.mp hcm with rfl | hcm
                  · exact hhas
                  · exact hsub c (seen c hcm)
            · intro c p hm
              rw [f8]
              rcases hevs c p hm with hm | hm
              · exact he c p hm
              · rw [m1] at hm; cases hm
          · -- the responder lacks the block
            have hp' : remf s.rem n.cid = false := by simpa using hp
            simp only [hp', Bool.false_eq_true, if_false, List.cons.injEq] at al
            obtain ⟨hit', htail⟩ := al
            have hnrem : n.cid ∉ s.rem := by simpa [remf] using hp'
            have hnone : storeGet s.store n.cid = none := by
              cases hg : storeGet s.store n.cid with
              | none => rfl
              | some b => exact absurd (hG.store n.cid (Has_of_storeGet hg)) hnrem
            have hdep : n.depth ≠ 0 := fun h0 => hnrem (dep n List.mem_cons_self h0)
            obtain ⟨m1, m2, m3, m4, m5⟩ :=
              (message_item r n post s.store it w.md w.blocks hbi pk' hst (by rw [← hit']) _ hmeq).2
                (by rw [← hit']) hnone hdep
            constructor
            · cases hsk : skipSub n post with
              | nil =>
                refine .over ?_
                intro r' hr''
                rw [hr'] at hr''
                cases hr''
                rw [m4 hsk]
                intro hx; cases hx
              | cons m post' =>
                obtain ⟨k1, k2⟩ := m5 m post' hsk
                have hwf' : WF (m :: post') := by
                  rw [← hsk]; unfold skipSub; exact WF.dropWhile _ post wf.2.2
                have hmem : ∀ x ∈ m :: post', x ∈ post := by
                  intro x hx
                  rw [← hsk] at hx
                  exact (List.dropWhile_sublist _).subset hx
                refine .running _ rr ws' m post' [] seenQ seenR wR N hr' hrr' hc' k1.to0 k1.ver
                  (fun _ hx => by cases hx) ?_ hwf'
                  (fun x hx hd => by rw [f8]; exact dep x (List.mem_cons_of_mem _ (hmem x hx)) hd) ?_
                  (by rw [f7]; exact ti) rm (by rw [f8]; exact rdep) (by rw [f8, ← hsk]; exact htail) w14' wend' wok'
                · right
                  intro x hx
                  rw [k2, ← hit']
                  simp only [Action.didFollow, Bool.false_eq_true, if_false]
                  exact wf.2.1 x (by rw [hsk]; exact hx)
                · intro c hcm
                  rw [hS', m3]
                  exact seen c hcm
            · intro c p hm
              rw [f8]
              rcases hevs c p hm with hm | hm
              · exact he c p hm
              · rw [m1] at hm
                simp only [List.mem_singleton, Prod.mk.injEq] at hm
                rw [hm.1]; exact hnrem
      · -- a wire that is not an item wire can only be the terminal status, which is behind every item
        exfalso
        cases ha : rr.active with
        | true => exact h14 (w14 ha w List.mem_cons_self)
        | false =>
          obtain ⟨iws, wt, e1, e2, e3⟩ := wend ha
          cases iws with
          | nil =>
            simp only [List.nil_append, List.cons.injEq] at e1
            obtain ⟨rfl, rfl⟩ := e1
            rw [ha] at al
            have : itemsOf [w] = [] := by simp [itemsOf, e3, buildItems, buildItems.go]
            rw [this] at al
            simp only [Bool.false_eq_true, if_false, List.append_nil] at al
            exact respItemsW_ne_nil _ _ (by simp) _ _ al
          | cons x iws' =>
            simp only [List.cons_append, List.cons.injEq] at e1
            obtain ⟨rfl, _⟩ := e1
            exact h14 (e2 w List.mem_cons_self)

/-! ## the start: the requestor does not hold the root -/

theorem reqStart_pk (st : List (Cid × Blk)) (n : LNode) (rest : LT) (h : storeGet st n.cid = none) :
    PK (reqStart {} st (n :: rest)).1 n rest ∧ (reqStart {} st (n :: rest)).1.L.unfollowed = [] ∧
    (reqStart {} st (n :: rest)).2 = [Ev.sentNew 0] ∧ (reqStart {} st (n :: rest)).1.L.store = st := by
  unfold reqStart request
  simp only [fuelFor, List.length_cons]
  rw [drive_succ]
  simp [loadNode, Loader.load, Loader.run, waitRemote, loadLocal, h, isMiss, Loader.setOnline, Loader.retry,
    RQ.clear]
  exact ⟨rfl, rfl, rfl, rfl, rfl, rfl, rfl, rfl⟩

/-- the tracker after `prepareQuery` of the only request, skip 0 -/
theorem TI_prepare (i : Nat) (key : Option Key) : TI (prepare {} i key 0) i [] 0 0 := by
  cases key with
  | none =>
    refine ⟨fun c => ?_, ?_, ?_⟩ <;>
    simp [prepare, rcOf, skipOf, cnt, PeerTracker.trackerOf, PeerTracker.scopeTracker, aget,
      LinkTracker.blockRefCount]
  | some k =>
    refine ⟨fun c => ?_, ?_, ?_⟩ <;>
    simp [prepare, PeerTracker.dedupKey, rcOf, skipOf, cnt, PeerTracker.trackerOf, PeerTracker.scopeTracker, aget, aset,
      aerase, LinkTracker.blockRefCount]

theorem AL_start (st : List (Cid × Blk)) (rem : List Cid) (lts : List LT) (keys : List (Option Key)) (i : Nat)
    (n : LNode) (rest : LT) (hl : lts[i]? = some (n :: rest)) (hst : storeGet st n.cid = none)
    (hwf : WF (n :: rest)) (hd0 : ∀ m ∈ n :: rest, m.depth = 0 → m.cid ∈ rem) :
    AL TRec.empty i (Concurrent.step (initSys st rem lts keys) (.start i)) ∧
    EVM i (Concurrent.step (initSys st rem lts keys) (.start i)) := by
  have hev0 : (initSys st rem lts keys).evs.getD i [] = [] := by
    simp [initSys, List.getD_eq_getElem?_getD, List.getElem?_map, hl]
  have hreq : (initSys st rem lts keys).reqs[i]? = some {} := by
    simp only [initSys, List.getElem?_map, hl, Option.map_some]
  have hlt : (initSys st rem lts keys).lts[i]? = some (n :: rest) := hl
  have hresp : (initSys st rem lts keys).resp[i]? = some {} := by
    simp only [initSys, List.getElem?_map, hl, Option.map_some]
  have hchan : (initSys st rem lts keys).chan[i]? = some [] := by
    simp only [initSys, List.getElem?_map, hl, Option.map_some]
  have hown : (initSys st rem lts keys).own = [] := rfl
  have hstore : (initSys st rem lts keys).store = st := rfl
  have htr : (initSys st rem lts keys).tracker = {} := rfl
  have hrem : (initSys st rem lts keys).rem = rem := rfl
  generalize initSys st rem lts keys = B at hreq hlt hresp hchan hown hstore htr hrem hev0
  simp only [Concurrent.step, hreq, hlt]
  have hph : (({} : Requestor.State).phase != Phase.idle) = false := rfl
  rw [if_neg (by rw [hph]; simp)]
  rw [storeOf_shared B i hown, hstore]
  obtain ⟨hP1, hP2, hP3, hP4⟩ := reqStart_pk st n rest hst
  generalize reqStart {} st (n :: rest) = rq at hP1 hP2 hP3 hP4
  obtain ⟨r', ev⟩ := rq
  simp only at hP1 hP2 hP3 hP4 ⊢
  subst hP3
  have hsk : sentSkip [Ev.sentNew 0] = some 0 := rfl
  simp only [hsk]
  rw [putStore_shared B i _ hown, htr]
  constructor
  · refine .running r' { todo := n :: rest, active := true } [] n rest [] [] [] 0 0 ?_ ?_ hchan hP1.to0 hP1.ver
      (fun _ hx => by cases hx) (Or.inl hP2) hwf
      (by rw [hrem]; exact hd0) (fun c hc => by cases hc) (fun _ => TI_prepare i _) rfl (by rw [hrem]; exact hd0) ?_
      (fun _ w hw => by cases hw) (fun hx => by cases hx) (fun w hw => by cases hw)
    · exact set_self_some _ _ _ _ hreq
    · exact set_self_some _ _ _ _ hresp
    · simp [itemsOf]
  · intro c p hm
    exfalso
    simp only [setAt] at hm
    rcases mem_missing_set _ _ _ _ hm with hm | hm
    · rw [hev0] at hm
      simp [missingOf] at hm
    · simp [missingOf] at hm

theorem AL_run (R : TRec) (i : Nat) :
    ∀ (τ : List Act) (s : Sys), (∀ a ∈ τ, a = .resp i ∨ a = .deliver i) → GOK s → AL R i s →
    EVM i s → AL R i (Concurrent.run s τ) ∧ EVM i (Concurrent.run s τ)
  | [], _, _, _, h, e => ⟨h, e⟩
  | a :: τ, s, hτ, hG, h, e => by
    have ih := AL_run R i τ (Concurrent.step s a) (fun b hb => hτ b (List.mem_cons_of_mem _ hb)) (GOK_step s a hG).1
    rcases hτ a List.mem_cons_self with rfl | rfl
    · exact ih (AL_resp R i s h) (EVM_resp i s e)
    · exact ih (AL_deliver R i s hG h e).1 (AL_deliver R i s hG h e).2

/-! ## the start with a locally loaded prefix of `N ≥ 1` links -/

/-- the tracker after `prepareQuery` of the only request, skip `N` -/
theorem TI_prepareN (i : Nat) (key : Option Key) (N : Nat) : TI (prepare {} i key N) i [] N N := by
  by_cases hN : N > 0
  · cases key with
    | none =>
      refine ⟨fun c => ?_, ?_, ?_⟩ <;>
      simp [prepare, hN, PeerTracker.skipFirstBlocks, rcOf, skipOf, cnt, PeerTracker.trackerOf, PeerTracker.scopeTracker,
        aget, aset, aerase, LinkTracker.blockRefCount]
    | some k =>
      refine ⟨fun c => ?_, ?_, ?_⟩ <;>
      simp [prepare, hN, PeerTracker.skipFirstBlocks, PeerTracker.dedupKey, rcOf, skipOf, cnt, PeerTracker.trackerOf,
        PeerTracker.scopeTracker, aget, aset, aerase, LinkTracker.blockRefCount]
  · have : N = 0 := by omega
    subst this
    exact TI_prepare i key

theorem missingOf_localEvs (pre : List LNode) (k : Nat) : missingOf (localEvs pre k) = [] := by
  induction pre generalizing k with
  | nil => rfl
  | cons n rest ih => simp [localEvs, missingOf] at ih ⊢; exact ih (k + 1)

theorem sentSkip_localEvs (pre : List LNode) (k N : Nat) : sentSkip (localEvs pre k ++ [Ev.sentNew N]) = some N := by
  induction pre generalizing k with
  | nil => rfl
  | cons n rest ih => simp [localEvs, sentSkip] at ih ⊢; exact ih (k + 1)

/-- issuing a request whose first `N = |root :: pre'|` links the local store holds: they are delivered
    locally and recorded, the executor parks on the first missing link `n`, the verifier stands at the
    beginning of the record -/
theorem reqStart_prefix (st : List (Cid × Blk)) (root : LNode) (pre' : LT) (n : LNode) (post : LT)
    (hheld : ∀ m ∈ root :: pre', holds st m.cid = true) (hmiss : holds st n.cid = false)
    (hroot0 : root.path = []) (hdfs : PathsDFS ((root :: pre').map (·.path))) :
    PK0 (reqStart {} st (root :: pre' ++ n :: post)).1 n post ∧
    VS (recOfLT (root :: pre')) (reqStart {} st (root :: pre' ++ n :: post)).1.L (root :: pre') ∧
    (reqStart {} st (root :: pre' ++ n :: post)).1.L.unfollowed = [] ∧
    (reqStart {} st (root :: pre' ++ n :: post)).1.L.store = st ∧
    (reqStart {} st (root :: pre' ++ n :: post)).2 =
      localEvs (root :: pre') 0 ++ [Ev.sentNew (pre'.length + 1)] := by
  obtain ⟨a, ha1, ha2, heq⟩ := request_prefix st (root :: pre') n post 0 hheld hmiss
  have hrs : reqStart {} st (root :: pre' ++ n :: post) =
      request { L := { store := st } } ((root :: pre') ++ n :: post) 0 := rfl
  rw [hrs, heq]
  -- the loader after the local phase
  obtain ⟨_, Rf, mraf, h2, h3⟩ := local_walk st (root :: pre') TRec.empty none hheld
  have hs0 : ({ store := st } : Loader.State) = localState st TRec.empty none := rfl
  have hL : Loader.setOnline (Loader.load (walk ({ store := st } : Loader.State) (root :: pre')).2 n.path n.cid).1 true =
      { store := st, record := recOfLT (root :: pre'), mra := some ⟨n.cid, n.path, false, false⟩, unfollowed := [],
        isOpen := true, ver := some (newVerifier (recOfLT (root :: pre'))), rq := {}, pending := none } := by
    rw [hs0, h2, load_local_miss st Rf mraf n.path n.cid hmiss, h3]
    simp [Loader.setOnline, localState, recP, recOfLT, RQ.clear]
  rw [hL]
  -- the record of the prefix
  have hloads : loadsOf (root :: pre') = ([], (root.cid, true)) :: loadsOf pre' := by
    simp [loadsOf, hroot0]
  have hpaths : (loadsOf (root :: pre')).map (·.1) = (root :: pre').map (·.path) := by
    unfold loadsOf; rw [List.map_map]; rfl
  obtain ⟨pl, hinv⟩ := recOf_inv (root.cid, true) (loadsOf pre') (by
    rw [← hloads, hpaths]; exact hdfs)
  rw [← hloads, ← recOfLT_eq] at hinv
  obtain ⟨hO, hC, ⟨Al, nl, hRl, _, hnll⟩, hlk, _⟩ := hinv
  have htip0 : tipOf (recOfLT (root :: pre')) (recOfLT (root :: pre')) = some [] :=
    tipOf_spec hO hC (A := []) (B := recOfLT (root :: pre')) rfl (hlk.trans hloads)
  have hnv : newVerifier (recOfLT (root :: pre')) = some [] := by
    obtain ⟨U, nm, B2, hB, hnmp, hnml, _⟩ := linkedOf_cons_split _ _ _ _ (hlk.trans hloads)
    have := linkAt_at hO (A := U) hB
    rw [hnmp, hnml] at this
    unfold newVerifier
    rw [appendUntilLink_linked [] _ this]
  refine ⟨⟨rfl, rfl, rfl, rfl, ?_, rfl, rfl⟩, ⟨hO, hC, ⟨Al, nl, hRl, hnll⟩, [], _, rfl, rfl, hlk, ?_⟩, rfl, rfl, ?_⟩
  · show some (a.path, a.link) = some (n.path, n.cid)
    rw [ha1, ha2]
  · show some (newVerifier (recOfLT (root :: pre'))) = some (tipOf (recOfLT (root :: pre')) (recOfLT (root :: pre')))
    rw [hnv, htip0]
  · simp

theorem AL_start_prefix (st : List (Cid × Blk)) (rem : List Cid) (lts : List LT) (keys : List (Option Key)) (i : Nat)
    (root : LNode) (pre' : LT) (n : LNode) (post : LT)
    (hl : lts[i]? = some (root :: pre' ++ n :: post))
    (hst : ∀ c, (storeGet st c).isSome = true → c ∈ rem)
    (hheld : ∀ m ∈ root :: pre', holds st m.cid = true) (hmiss : holds st n.cid = false)
    (hroot0 : root.path = []) (hdfs : PathsDFS ((root :: pre').map (·.path)))
    (hwf : Loader.WF (root :: pre' ++ n :: post))
    (hd0 : ∀ m ∈ root :: pre' ++ n :: post, m.depth = 0 → m.cid ∈ rem) :
    AL (recOfLT (root :: pre')) i (Concurrent.step (initSys st rem lts keys) (.start i)) ∧
    EVM i (Concurrent.step (initSys st rem lts keys) (.start i)) := by
  have hev0 : (initSys st rem lts keys).evs.getD i [] = [] := by
    simp [initSys, List.getD_eq_getElem?_getD, List.getElem?_map, hl]
  have hreq : (initSys st rem lts keys).reqs[i]? = some {} := by
    simp only [initSys, List.getElem?_map, hl, Option.map_some]
  have hlt : (initSys st rem lts keys).lts[i]? = some (root :: pre' ++ n :: post) := hl
  have hresp : (initSys st rem lts keys).resp[i]? = some {} := by
    simp only [initSys, List.getElem?_map, hl, Option.map_some]
  have hchan : (initSys st rem lts keys).chan[i]? = some [] := by
    simp only [initSys, List.getElem?_map, hl, Option.map_some]
  have hown : (initSys st rem lts keys).own = [] := rfl
  have hstore : (initSys st rem lts keys).store = st := rfl
  have htr : (initSys st rem lts keys).tracker = {} := rfl
  have hrem : (initSys st rem lts keys).rem = rem := rfl
  generalize initSys st rem lts keys = B at hreq hlt hresp hchan hown hstore htr hrem hev0
  simp only [Concurrent.step, hreq, hlt]
  have hph : (({} : Requestor.State).phase != Phase.idle) = false := rfl
  rw [if_neg (by rw [hph]; simp)]
  rw [storeOf_shared B i hown, hstore]
  obtain ⟨hP1, hP2, hP3, hP4, hP5⟩ := reqStart_prefix st root pre' n post hheld hmiss hroot0 hdfs
  generalize reqStart {} st (root :: pre' ++ n :: post) = rq at hP1 hP2 hP3 hP4 hP5
  obtain ⟨r', ev⟩ := rq
  simp only at hP1 hP2 hP3 hP4 hP5 ⊢
  subst hP5
  simp only [sentSkip_localEvs]
  rw [putStore_shared B i _ hown, htr]
  have hwf' : Loader.WF (n :: post) := by
    have : Loader.WF ((root :: pre') ++ n :: post) := hwf
    exact WF.suffix (root :: pre') this
  constructor
  · refine .running r' { todo := root :: pre' ++ n :: post, active := true } [] n post (root :: pre') [] []
      (pre'.length + 1) (pre'.length + 1) ?_ ?_ hchan hP1 hP2 ?_ (Or.inl hP3) hwf' ?_
      (fun c hc => by cases hc) (fun _ => TI_prepareN i (B.keys.getD i none) (pre'.length + 1)) rfl (by rw [hrem]; exact hd0) ?_
      (fun _ w hw => by cases hw) (fun hx => by cases hx) (fun w hw => by cases hw)
    · exact set_self_some _ _ _ _ hreq
    · exact set_self_some _ _ _ _ hresp
    · intro m hm
      refine ⟨?_, ?_⟩
      · rw [hrem]; exact hst m.cid (hheld m hm)
      · simp only [storeOf, hown, List.getD_nil]
        rw [hP4]
        exact hheld m hm
    · intro m hm hd
      rw [hrem]
      exact hd0 m (List.mem_append_right (root :: pre') hm) hd
    · simp [itemsOf]
  · intro c p hm
    exfalso
    simp only [setAt] at hm
    rcases mem_missing_set _ _ _ _ hm with hm | hm
    · rw [hev0] at hm
      simp [missingOf] at hm
    · rw [missingOf_append, missingOf_localEvs] at hm
      simp [missingOf] at hm

end GS.C20
