import GSProofs.Lemmas.RespLifeLi
/-!
Abstraction `ab` of a responder state to what the task accounting is about (table entries by id,
pending / active topics by peer, worker kinds, StartTask / FinishTask messages, a parked unpause), and
the effect of the primitive state updates on it.
-/
namespace GS.RespLife

structure Ab where
  ent : Id → Option (Peer × RState × Option Nat)
  pend : Peer → List Id
  act : Peer → List Id
  wk : List (Peer × Id × WKind)
  starts : List Nat
  fins : List Nat
  punp : Option Id

def entOf (s : State) (id : Id) : Option (Peer × RState × Option Nat) :=
  (lookup s id).map fun r => (r.peer, r.state, r.aux.task)

def pendOf (s : State) (p : Peer) : List Id := (getQ s p).pending.map (·.1)
def actOf (s : State) (p : Peer) : List Id := (getQ s p).active

def ab (s : State) : Ab :=
  ⟨entOf s, pendOf s, actOf s, wcore s, starts s.mailbox, fins s.mailbox, parkUnp s.park⟩

-- ------------------------------------------------------------------ `ab` is a function of `li`
theorem entOf_tcore (s : State) (id : Id) :
    entOf s id = ((tcore s).find? (·.1 == id)).map (·.2) := by
  unfold entOf lookup tcore
  induction s.table with
  | nil => rfl
  | cons r rs ih =>
    simp only [List.find?_cons, List.map_cons]
    by_cases h : (r.id == id) = true
    · simp [h]
    · simp only [h]; exact ih

theorem getQ_qcore (s : State) (p : Peer) :
    ((getQ s p).pending.map (·.1), (getQ s p).active) =
      (((qcore s).find? (·.1 == p)).map (·.2)).getD ([], []) := by
  unfold getQ qcore
  induction s.queues with
  | nil => rfl
  | cons q qs ih =>
    simp only [List.find?_cons, List.map_cons]
    by_cases h : (q.peer == p) = true
    · simp [h]
    · simp only [h]; exact ih

theorem ab_of_li {s s' : State} (h : li s' = li s) : ab s' = ab s := by
  have h1 : tcore s' = tcore s := congrArg Li.tbl h
  have h2 : qcore s' = qcore s := congrArg Li.qs h
  have h3 : wcore s' = wcore s := congrArg Li.wk h
  have h4 : starts s'.mailbox = starts s.mailbox := congrArg Li.starts h
  have h5 : fins s'.mailbox = fins s.mailbox := congrArg Li.fins h
  have h6 : parkUnp s'.park = parkUnp s.park := congrArg Li.punp h
  have e1 : entOf s' = entOf s := by funext id; rw [entOf_tcore, entOf_tcore, h1]
  have e23 : ∀ p, (pendOf s' p, actOf s' p) = (pendOf s p, actOf s p) := by
    intro p
    have a := getQ_qcore s' p
    have b := getQ_qcore s p
    rw [h2] at a
    exact a.trans b.symm
  have e2 : pendOf s' = pendOf s := by funext p; exact congrArg Prod.fst (e23 p)
  have e3 : actOf s' = actOf s := by funext p; exact congrArg Prod.snd (e23 p)
  simp only [ab, e1, e2, e3, h3, h4, h5, h6]

-- ------------------------------------------------------------------ table updates
theorem lookup_map (s : State) (id id' : Id) (g : Resp → Resp) (hg : ∀ r, (g r).id = r.id) :
    ({ s with table := s.table.map fun x => if x.id == id then g x else x } : State).table.find? (·.id == id') =
      (s.table.find? (·.id == id')).map fun x => if x.id == id then g x else x := by
  induction s.table with
  | nil => rfl
  | cons r rs ih =>
    simp only [List.map_cons, List.find?_cons]
    have hid : (if (r.id == id) = true then g r else r).id = r.id := by
      split
      · exact hg r
      · rfl
    rw [hid]
    by_cases h : (r.id == id') = true
    · simp [h]
    · simp only [h]; exact ih

theorem entOf_setState (s : State) (id : Id) (st : RState) (id' : Id) :
    entOf (setState s id st) id' =
      if id' = id then (entOf s id').map (fun t => (t.1, st, t.2.2)) else entOf s id' := by
  unfold entOf lookup setState
  rw [lookup_map s id id' (fun x => { x with state := st }) (fun _ => rfl)]
  cases hf : s.table.find? (·.id == id') with
  | none => simp
  | some r =>
    have hr : r.id = id' := by simpa using List.find?_some hf
    simp only [Option.map_some]
    by_cases h : id' = id
    · subst h; simp [hr]
    · have : (r.id == id) = false := by simp [hr, h]
      simp [this, h]

theorem entOf_modAux (s : State) (id : Id) (f : Aux → Aux) (id' : Id) :
    entOf (modAux s id f) id' =
      if id' = id then (entOf s id').map (fun t => (t.1, t.2.1, (f ((lookup s id').map (·.aux) |>.getD {})).task))
      else entOf s id' := by
  unfold entOf lookup modAux
  rw [lookup_map s id id' (fun x => { x with aux := f x.aux }) (fun _ => rfl)]
  cases hf : s.table.find? (·.id == id') with
  | none => simp
  | some r =>
    have hr : r.id = id' := by simpa using List.find?_some hf
    simp only [Option.map_some, Option.getD_some]
    by_cases h : id' = id
    · subst h; simp [hr]
    · have : (r.id == id) = false := by simp [hr, h]
      simp [this, h]

theorem entOf_delResp (s : State) (id id' : Id) :
    entOf (delResp s id) id' = if id' = id then none else entOf s id' := by
  unfold entOf lookup delResp
  simp only
  induction s.table with
  | nil => simp
  | cons r rs ih =>
    simp only [List.filter_cons]
    by_cases hd : r.id = id
    · simp only [hd, bne_self_eq_false, Bool.false_eq_true, if_false, List.find?_cons]
      by_cases h : id' = id
      · simpa [h] using ih
      · have : (id == id') = false := by simp; exact fun e => h e.symm
        simp only [this]
        simpa [h] using ih
    · have hne : (r.id != id) = true := by simp [hd]
      simp only [hne, if_true, List.find?_cons]
      by_cases h : (r.id == id') = true
      · have h' : r.id = id' := by simpa using h
        have : id' ≠ id := by rw [← h']; exact hd
        simp [h, this]
      · simp only [h]; exact ih

theorem entOf_insertResp (s : State) (r : Resp) (id' : Id) :
    entOf (insertResp s r) id' = if id' = r.id then some (r.peer, r.state, r.aux.task) else entOf s id' := by
  unfold entOf lookup insertResp
  simp only
  rw [List.find?_append]
  have h1 := entOf_delResp s r.id id'
  unfold entOf lookup delResp at h1
  simp only at h1
  by_cases h : id' = r.id
  · subst h
    simp only [if_true] at h1 ⊢
    have : List.find? (fun x => x.id == r.id) (List.filter (fun x => x.id != r.id) s.table) = none := by
      cases hf : List.find? (fun x => x.id == r.id) (List.filter (fun x => x.id != r.id) s.table) with
      | none => rfl
      | some x => rw [hf] at h1; simp at h1
    rw [this]; simp
  · simp only [h, if_false] at h1 ⊢
    cases hf : List.find? (fun x => x.id == id') (List.filter (fun x => x.id != r.id) s.table) with
    | some x => rw [hf] at h1; simp [← h1]
    | none =>
      rw [hf] at h1
      have : (r.id == id') = false := by simp; exact fun e => h e.symm
      simp [this, ← h1]

-- ------------------------------------------------------------------ task queue updates
theorem find_replace (l : List PeerQ) (q : PeerQ) (p : Peer) :
    List.find? (fun x => x.peer == p) (l.map fun x => if x.peer == q.peer then q else x) =
      if p = q.peer then (if l.any (·.peer == q.peer) then some q else none)
      else List.find? (fun x => x.peer == p) l := by
  induction l with
  | nil => by_cases hp : p = q.peer <;> simp [hp]
  | cons x xs ih =>
    simp only [List.map_cons, List.find?_cons, List.any_cons]
    by_cases hx : (x.peer == q.peer) = true
    · have hx' : x.peer = q.peer := by simpa using hx
      simp only [hx, if_true, Bool.true_or]
      by_cases hp : p = q.peer
      · subst hp; simp
      · have h1 : (q.peer == p) = false := by simp; exact fun e => hp e.symm
        have h2 : (x.peer == p) = false := by rw [hx']; exact h1
        simp only [h1, h2, hp, if_false]
        rw [ih]; simp [hp]
    · have hx0 : (x.peer == q.peer) = false := by simpa using hx
      simp only [hx0, Bool.false_eq_true, if_false, Bool.false_or]
      by_cases hxp : (x.peer == p) = true
      · have : p ≠ q.peer := by
          intro e; subst e; rw [hxp] at hx0; cases hx0
        simp [hxp, this]
      · simp only [hxp]; exact ih

theorem getQ_setQ (s : State) (q : PeerQ) (p : Peer) :
    getQ (setQ s q) p = if p = q.peer then q else getQ s p := by
  unfold getQ setQ
  simp only
  by_cases hany : s.queues.any (·.peer == q.peer) = true
  · rw [if_pos hany, find_replace, hany]
    by_cases hp : p = q.peer <;> simp [hp]
  · rw [if_neg hany, List.find?_append]
    have hnone : List.find? (fun x => x.peer == q.peer) s.queues = none := by
      apply List.find?_eq_none.2
      intro x hx hxp
      exact hany (List.any_eq_true.2 ⟨x, hx, hxp⟩)
    by_cases hp : p = q.peer
    · subst hp; simp [hnone]
    · have : (q.peer == p) = false := by simp; exact fun e => hp e.symm
      cases List.find? (fun x => x.peer == p) s.queues <;> simp [this, hp]

theorem getQ_peer (s : State) (p : Peer) : (getQ s p).peer = p := by
  unfold getQ
  split
  · rename_i q hq
    simpa using List.find?_some hq
  · rfl

/-- updating the queue of peer `p` -/
theorem getQ_upd (s : State) (p : Peer) (f : PeerQ → PeerQ) (hf : ∀ q, (f q).peer = q.peer) (p' : Peer) :
    getQ (setQ s (f (getQ s p))) p' = if p' = p then f (getQ s p) else getQ s p' := by
  rw [getQ_setQ, hf, getQ_peer]

theorem pend_pushTask (s : State) (p : Peer) (id : Id) (pri : Nat) (p' : Peer) :
    pendOf (pushTask s p id pri) p' =
      if p' = p ∧ id ∉ actOf s p ∧ id ∉ pendOf s p then pendOf s p ++ [id] else pendOf s p' := by
  unfold pushTask pendOf actOf
  simp only
  by_cases ha : (getQ s p).active.contains id = true
  · have : id ∈ (getQ s p).active := by simpa using ha
    simp [ha, this]
  · have hna : id ∉ (getQ s p).active := by simpa using ha
    rw [if_neg ha]
    by_cases hp : (getQ s p).pending.any (·.1 == id) = true
    · have hin : id ∈ (getQ s p).pending.map (·.1) := by
        obtain ⟨t, ht, hti⟩ := List.any_eq_true.1 hp
        exact List.mem_map.2 ⟨t, ht, by simpa using hti⟩
      rw [if_pos hp]
      rw [getQ_upd s p (fun q => { q with pending := q.pending.map fun t => if t.1 == id then (t.1, max t.2 pri) else t })
        (fun _ => rfl)]
      by_cases hpp : p' = p
      · subst hpp
        simp only [if_true, hin, not_true_eq_false, and_false, if_false, List.map_map]
        apply List.map_congr_left
        intro t _
        simp only [Function.comp]
        split <;> rfl
      · simp [hpp]
    · have hnin : id ∉ (getQ s p).pending.map (·.1) := by
        intro hm
        obtain ⟨t, ht, hti⟩ := List.mem_map.1 hm
        exact hp (List.any_eq_true.2 ⟨t, ht, by simp [hti]⟩)
      rw [if_neg hp]
      rw [getQ_upd s p (fun q => { q with pending := q.pending ++ [(id, pri)] }) (fun _ => rfl)]
      by_cases hpp : p' = p
      · subst hpp; simp [hna, hnin]
      · simp [hpp]

theorem act_pushTask (s : State) (p : Peer) (id : Id) (pri : Nat) (p' : Peer) :
    actOf (pushTask s p id pri) p' = actOf s p' := by
  unfold pushTask actOf
  simp only
  split
  · rfl
  · split
    · rw [getQ_upd s p (fun q => { q with pending := q.pending.map fun t => if t.1 == id then (t.1, max t.2 pri) else t })
        (fun _ => rfl)]
      split
      · rename_i h; subst h; rfl
      · rfl
    · rw [getQ_upd s p (fun q => { q with pending := q.pending ++ [(id, pri)] }) (fun _ => rfl)]
      split
      · rename_i h; subst h; rfl
      · rfl

theorem pend_removeTask (s : State) (p : Peer) (id : Id) (p' : Peer) :
    pendOf (removeTask s p id) p' = if p' = p then (pendOf s p).filter (· != id) else pendOf s p' := by
  unfold removeTask pendOf
  simp only
  by_cases hp : (getQ s p).pending.any (·.1 == id) = true
  · rw [if_pos hp]
    rw [getQ_upd s p (fun q => { q with pending := q.pending.filter (·.1 != id), freeze := q.freeze + 1 }) (fun _ => rfl)]
    by_cases hpp : p' = p
    · subst hpp
      simp only [if_true, List.filter_map]
      rfl
    · simp [hpp]
  · rw [if_neg hp]
    by_cases hpp : p' = p
    · subst hpp
      simp only [if_true]
      symm
      apply List.filter_eq_self.2
      intro a ha
      obtain ⟨t, ht, hta⟩ := List.mem_map.1 ha
      simp only [bne_iff_ne, ne_eq]
      intro e
      apply hp
      exact List.any_eq_true.2 ⟨t, ht, by simp [hta, e]⟩
    · simp [hpp]

theorem act_removeTask (s : State) (p : Peer) (id : Id) (p' : Peer) :
    actOf (removeTask s p id) p' = actOf s p' := by
  unfold removeTask actOf
  simp only
  split
  · rw [getQ_upd s p (fun q => { q with pending := q.pending.filter (·.1 != id), freeze := q.freeze + 1 }) (fun _ => rfl)]
    split
    · rename_i h; subst h; rfl
    · rfl
  · rfl

theorem getQ_default_of_none {s : State} {p : Peer} (h : s.queues.any (·.peer == p) = false) :
    getQ s p = { peer := p } := by
  unfold getQ
  have : List.find? (fun x => x.peer == p) s.queues = none := by
    apply List.find?_eq_none.2
    intro x hx hxp
    have : s.queues.any (·.peer == p) = true := List.any_eq_true.2 ⟨x, hx, hxp⟩
    rw [h] at this; cases this
  rw [this]

theorem act_taskDone (s : State) (p : Peer) (id : Id) (p' : Peer) :
    actOf (taskDone s p id) p' = if p' = p then (actOf s p).filter (· != id) else actOf s p' := by
  unfold taskDone actOf
  by_cases hany : s.queues.any (·.peer == p) = true
  · rw [if_pos hany]
    rw [getQ_upd s p (fun q => { q with active := q.active.filter (· != id) }) (fun _ => rfl)]
    by_cases hpp : p' = p
    · subst hpp; simp
    · simp [hpp]
  · have hany' : s.queues.any (·.peer == p) = false := by simpa using hany
    rw [if_neg hany]
    by_cases hpp : p' = p
    · subst hpp
      simp [getQ_default_of_none hany']
    · simp [hpp]

theorem pend_taskDone (s : State) (p : Peer) (id : Id) (p' : Peer) :
    pendOf (taskDone s p id) p' = pendOf s p' := by
  unfold taskDone pendOf
  split
  · rw [getQ_upd s p (fun q => { q with active := q.active.filter (· != id) }) (fun _ => rfl)]
    split
    · rename_i h; subst h; rfl
    · rfl
  · rfl

end GS.RespLife
