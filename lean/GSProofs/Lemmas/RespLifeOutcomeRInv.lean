import GSProofs.Lemmas.RespLifeOutcomeRDef
/-!
Outcome accounting, part 3: the invariant `Inv3` (completed vs network error for an id registered once) and the
steps that do not involve a publisher.
-/
namespace GS.RespLife

-- ------------------------------------------------------------------ pending `terminate` calls
theorem anyFrom_of_termFrom {r : Id} {p : Peer} {m : Msg} (h : termFrom r p m = true) : anyFrom p m = true := by
  cases m <;> simp_all [termFrom, anyFrom]

theorem pendT_false_of_fromN {r : Id} {p : Peer} {mb : List Msg} (h : fromN p mb = 0) : pendT r p mb = false := by
  induction mb with
  | nil => rfl
  | cons m mb ih =>
    rw [fromN_cons] at h
    have h1 : fromN p mb = 0 := by omega
    have h2 : anyFrom p m = false := by
      cases ha : anyFrom p m with
      | false => rfl
      | true => rw [ha] at h; simp at h
    have h3 : termFrom r p m = false := by
      cases hc : termFrom r p m with
      | false => rfl
      | true => rw [anyFrom_of_termFrom hc] at h2; cases h2
    simp only [pendT, List.any_cons, h3, Bool.false_or]
    exact ih h1

theorem pendT_append (r : Id) (p : Peer) (a b : List Msg) : pendT r p (a ++ b) = (pendT r p a || pendT r p b) := by
  simp [pendT, List.any_append]

/-- the mailbox grew by messages that are not publisher calls -/
theorem pendT_of_grow {r : Id} {mb mb' ex : List Msg} (hg : mb' = mb ++ ex) (hf : ∀ p, fromN p mb' = fromN p mb)
    (p : Peer) : pendT r p mb' = pendT r p mb := by
  have h0 : fromN p ex = 0 := by
    have := hf p
    rw [hg, fromN_append_list] at this
    omega
  rw [hg, pendT_append, pendT_false_of_fromN h0, Bool.or_false]

-- ------------------------------------------------------------------ live
theorem lookup_isSome_iff (s : State) (r : Id) : (lookup s r).isSome = true ↔ ∃ k ∈ keys s, k.2 = r := by
  constructor
  · intro h
    cases hl : lookup s r with
    | none => rw [hl] at h; cases h
    | some x => exact ⟨(x.peer, r), lookup_key hl, rfl⟩
  · rintro ⟨k, hk, hkr⟩
    obtain ⟨x, hx, hxk⟩ := List.mem_map.1 hk
    cases hl : lookup s r with
    | some y => rfl
    | none =>
      exfalso
      unfold lookup at hl
      have := List.find?_eq_none.1 hl x hx
      simp only [beq_iff_eq] at this
      apply this
      rw [← hkr, ← hxk]

theorem PN_iff (r : Id) (pk : Option MgrPark) : PN r pk = 1 ↔ ∃ p, parkNew pk = some (p, r) := by
  cases pk with
  | none => simp [PN, parkNew]
  | some k =>
    cases hc : k.cont with
    | newReq p id cfg =>
      simp only [PN, parkNew, hc]
      by_cases hid : id = r
      · subst hid; simp
      · have : (id == r) = false := by simpa using hid
        simp [this, hid]
    | procUpdate _ _ => simp [PN, parkNew, hc]
    | unpause _ _ => simp [PN, parkNew, hc]
    | update _ _ => simp [PN, parkNew, hc]

theorem live_iff (r : Id) (s : State) :
    live r s = true ↔ (∃ k ∈ keys s, k.2 = r) ∨ (∃ p, parkNew s.park = some (p, r)) := by
  unfold live
  rw [Bool.or_eq_true, lookup_isSome_iff, beq_iff_eq, PN_iff]

theorem live_of_pi {r : Id} {s s' : State} (h : pi s' = pi s) : live r s' = live r s := by
  have h1 : keys s' = keys s := congrArg Pi.keys h
  have h2 : parkNew s'.park = parkNew s.park := congrArg Pi.pnew h
  apply Bool.eq_iff_iff.2
  rw [live_iff, live_iff, h1, h2]

/-- keys only shrink, the parked newRequest stays -/
def KP (x x' : Pi) : Prop := (∀ k, k ∈ x'.keys → k ∈ x.keys) ∧ x'.pnew = x.pnew

theorem KP.refl (x : Pi) : KP x x := ⟨fun _ h => h, rfl⟩
theorem KP.trans {a b c : Pi} (h1 : KP a b) (h2 : KP b c) : KP a c := ⟨fun k h => h1.1 k (h2.1 k h), h2.2.trans h1.2⟩
theorem kp_of_eq {x x' : Pi} (h : x' = x) : KP x x' := by rw [h]; exact KP.refl x
theorem kp_of_sop {x x' : Pi} (h : SameOrPark x x') : KP x x' := by
  rcases h with h | ⟨c, p, id, ops, _, h⟩
  · exact kp_of_eq h
  · rw [h]; exact ⟨fun _ hk => hk, rfl⟩
theorem kp_of_tos {x x' : Pi} (h : TermOrSame x x') : KP x x' := by
  rcases h with h | ⟨p, id, _, h⟩
  · exact kp_of_eq h
  · rw [h]; exact ⟨fun k hk => (List.mem_filter.1 hk).1, rfl⟩

theorem live_of_kp {r : Id} {s s' : State} (h : KP (pi s) (pi s')) (hl : live r s' = true) : live r s = true := by
  rw [live_iff] at hl ⊢
  rcases hl with ⟨k, hk, hkr⟩ | ⟨p, hp⟩
  · exact Or.inl ⟨k, h.1 k hk, hkr⟩
  · exact Or.inr ⟨p, by rw [← hp]; exact h.2.symm⟩

-- ------------------------------------------------------------------ registrations only grow
theorem regs_mono_rstep {r : Id} {x x' : Pi} (h : RStep x x') : x.plog.countP (regEv r) ≤ x'.plog.countP (regEv r) := by
  cases h with
  | same => exact Nat.le_refl _
  | term p id hk => simp [Pi.term, List.countP_append]
  | recvNew p id seen' h1 h2 h3 => exact Nat.le_refl _
  | newOk p id rest hn hp hown => simp [Pi.insert, Pi.protect, List.countP_append]
  | newPark p id rest c hn hp hown => simp [Pi.protect, List.countP_append]
  | resumeNew p id hp => exact Nat.le_refl _
  | setPcore c => exact Nat.le_refl _
  | dropNew k rest hn => exact Nat.le_refl _

theorem regs_mono_step {r : Id} {s s' : State} {a : Action} (hf : FreshStep s a) (h : step s a = some s') :
    regs r s ≤ regs r s' := by
  rw [regs_pi, regs_pi]
  exact regs_mono_rstep (rstep_step hf h)

theorem doneC_le_evW (r : Id) (s : State) : doneC r s ≤ evW r s.events := by
  unfold doneC evW
  induction s.events with
  | nil => exact Nat.le_refl _
  | cons e l ih =>
    simp only [List.countP_cons]
    cases e <;> simp [doneEv, outEv] <;> omega

-- ------------------------------------------------------------------ the invariant
structure Core3 (r : Id) (s : State) : Prop where
  h1 : ∀ p, (pend r p s.mailbox = true ∨ hasClose r (getMQ s p).pubQ = true) → isClosed s r = true
  j2 : isClosed s r = true → noR r s
  j3 : ∀ p, wf3 r (pend r p s.mailbox) (getMQ s p).pubQ = true
  k : ∀ p, kOK r (pendT r p s.mailbox || !live r s) (getMQ s p).pubQ = true
  d1 : 1 ≤ doneC r s → live r s = false
  d2 : NF r s → doneC r s = 0 ∧ isClosed s r = true ∧ ∀ p, tokQ r (getMQ s p).pubQ = 0

structure Inv3 (r : Id) (s : State) : Prop where
  u : regs r s = 0 → Places r (fun _ => False) (fun _ => False) s
  pi : ∃ p0 i0, Places r (· = p0) (· = i0) s
  core : Core3 r s

/-- a step that involves no publisher and does not make `r` live -/
theorem Core3.quiet {r : Id} {s s' : State} (hi : Core3 r s) (hm : MStep r s s') (hq : QS0 r s s')
    (hpt : ∀ p, pendT r p s'.mailbox = pendT r p s.mailbox) (hlive : live r s' = true → live r s = true) :
    Core3 r s' := by
  have hpend : ∀ p, pend r p s'.mailbox = pend r p s.mailbox := fun p => (hm.mail p).1
  have hpub : ∀ p, (getMQ s' p).pubQ = (getMQ s p).pubQ := fun p => (hm.pub p).1
  refine ⟨?_, ?_, ?_, ?_, ?_, ?_⟩
  · intro p hp
    rw [hpend, hpub] at hp
    rw [hq.cls]; exact hi.h1 p hp
  · intro hc
    rw [hq.cls] at hc
    exact hq.bld hc (hi.j2 hc)
  · intro p; rw [hpend, hpub]; exact hi.j3 p
  · intro p
    rw [hpt, hpub]
    refine kOK_le r _ ?_ (hi.k p)
    intro h
    simp only [Bool.or_eq_true] at h
    rcases h with h | h
    · simp [h]
    · have : live r s' = false := by
        cases hl : live r s' with
        | false => rfl
        | true => rw [hlive hl] at h; simp at h
      simp [this]
  · intro hd
    rw [hq.done] at hd
    have := hi.d1 hd
    cases hl : live r s' with
    | false => rfl
    | true => rw [hlive hl] at this; cases this
  · intro hn
    have hn' := (NF_of_mstep hm).1 hn
    obtain ⟨a, b, c⟩ := hi.d2 hn'
    refine ⟨by rw [hq.done]; exact a, by rw [hq.cls]; exact b, fun p => by rw [hpub]; exact c p⟩

theorem Inv3.quiet {r : Id} {s s' : State} (hi : Inv3 r s) (hm : MStep r s s') (hq : QS0 r s s')
    (hpl : ∀ okP okI, Places r okP okI s → Places r okP okI s') (hregs : regs r s ≤ regs r s')
    (hpt : ∀ p, pendT r p s'.mailbox = pendT r p s.mailbox) (hlive : live r s' = true → live r s = true) :
    Inv3 r s' := by
  refine ⟨?_, ?_, hi.core.quiet hm hq hpt hlive⟩
  · intro h0; exact hpl _ _ (hi.u (by omega))
  · obtain ⟨p0, i0, h⟩ := hi.pi; exact ⟨p0, i0, hpl _ _ h⟩

end GS.RespLife
