import GSProofs.Lemmas.ResponderTracker
/-!
Lemmas for C03: `peerLinkTracker.DedupKey` (`PeerTracker.setDedupKey`, after /repo a69c5a5: a request
given a dedup key takes its recorded traversals along), as seen by the request itself when its id is
fresh, and as seen by ANOTHER request of the peer.
-/
namespace GS.C03L
open GS.LinkTrack GS.Responder

theorem dropTrackerIfUnused_fields (p : PeerTracker) (k : Key) :
    (p.dropTrackerIfUnused k).dedupKeys = p.dedupKeys ∧ (p.dropTrackerIfUnused k).sentCount = p.sentCount ∧
    (p.dropTrackerIfUnused k).skipFirst = p.skipFirst ∧ (p.dropTrackerIfUnused k).main = p.main := by
  unfold PeerTracker.dropTrackerIfUnused
  split <;> simp

theorem setScopeTracker_fields (p : PeerTracker) (sc : Option Key) (t : LinkTracker) :
    (p.setScopeTracker sc t).dedupKeys = p.dedupKeys ∧ (p.setScopeTracker sc t).sentCount = p.sentCount ∧
    (p.setScopeTracker sc t).skipFirst = p.skipFirst := by
  cases sc <;> simp [PeerTracker.setScopeTracker]

theorem setDedupKey_sentCount (p : PeerTracker) (r : Req) (k : Key) :
    (p.setDedupKey r k).sentCount = p.sentCount := by
  unfold PeerTracker.setDedupKey
  simp only
  split
  · rfl
  · cases aget p.dedupKeys r <;>
      simp [(dropTrackerIfUnused_fields _ _).2.1, (setScopeTracker_fields _ _ _).2.1, PeerTracker.dedupKey]

theorem setDedupKey_skipFirst (p : PeerTracker) (r : Req) (k : Key) :
    (p.setDedupKey r k).skipFirst = p.skipFirst := by
  unfold PeerTracker.setDedupKey
  simp only
  split
  · rfl
  · cases aget p.dedupKeys r <;>
      simp [(dropTrackerIfUnused_fields _ _).2.2.1, (setScopeTracker_fields _ _ _).2.2, PeerTracker.dedupKey]

theorem setDedupKey_dedupKeys (p : PeerTracker) (r : Req) (k : Key) (x : Req) :
    aget (p.setDedupKey r k).dedupKeys x = aget (aset p.dedupKeys r k) x := by
  unfold PeerTracker.setDedupKey
  simp only
  split
  · rename_i h
    rw [aget_aset]
    by_cases hx : r = x
    · subst hx; simp [h]
    · simp [hx]
  · cases aget p.dedupKeys r <;>
      simp [(dropTrackerIfUnused_fields _ _).1, (setScopeTracker_fields _ _ _).1, PeerTracker.dedupKey]

/-- for a request without any record, `DedupKey` just switches it to the bucket of the key. -/
theorem setDedupKey_fresh_trackerOf (p : PeerTracker) (r : Req) (k : Key)
    (h1 : aget p.dedupKeys r = none) (h2 : aget p.main.linksByReq r = none) (h3 : aget p.main.missing r = none) :
    (p.setDedupKey r k).trackerOf r = p.scopeTracker (some k) := by
  have hmove : ∀ to : LinkTracker, p.main.moveRequest r to = ((p.main.finishRequest r).1, to) := by
    intro to; simp [LinkTracker.moveRequest, h2, h3]
  unfold PeerTracker.setDedupKey
  simp only [h1, reduceCtorEq, if_false, PeerTracker.scopeTracker, hmove]
  simp only [PeerTracker.trackerOf, PeerTracker.setScopeTracker, PeerTracker.dedupKey, aget_aset, if_true,
    PeerTracker.scopeTracker]
  cases h : aget p.alts k with
  | none => simp [aget_aset]
  | some t => simp [h]

/-! ### `DedupKey` of another request -/

theorem foldl_record_missing_other (r' r : Req) (hne : r' ≠ r) (b : Bool) (ls : List Link) : ∀ t : LinkTracker,
    aget (ls.foldl (fun a l => a.record r' l b) t).missing r = aget t.missing r := by
  induction ls with
  | nil => intro t; rfl
  | cons l ls ih =>
    intro t
    show aget (ls.foldl _ (t.record r' l b)).missing r = _
    rw [ih]
    cases b <;> simp [LinkTracker.record, aget_aset, hne]

theorem finishRequest_missing_other' (t : LinkTracker) (r' r : Req) (hne : r' ≠ r) :
    aget (t.finishRequest r').1.missing r = aget t.missing r := by
  simp only [LinkTracker.finishRequest]
  cases aget (aerase t.missing r') r' <;> cases h2 : aget t.linksByReq r' <;> simp [aget_aerase, hne]

theorem moveRequest_missing_other (t to : LinkTracker) (r' r : Req) (hne : r' ≠ r) :
    aget (t.moveRequest r' to).1.missing r = aget t.missing r ∧
    aget (t.moveRequest r' to).2.missing r = aget to.missing r := by
  simp only [LinkTracker.moveRequest]
  exact ⟨finishRequest_missing_other' t r' r hne, by rw [foldl_record_missing_other r' r hne, foldl_record_missing_other r' r hne]⟩

theorem mem_of_aget' {β : Type} {m : List (Nat × β)} {k : Nat} {v : β} (h : aget m k = some v) : (k, v) ∈ m := by
  induction m with
  | nil => simp [aget] at h
  | cons e t ih =>
    obtain ⟨a, b⟩ := e
    simp only [aget] at h
    by_cases hak : a = k
    · simp only [hak, if_true, Option.some.injEq] at h
      subst hak; subst h; exact List.mem_cons_self
    · simp only [hak, if_false] at h
      exact List.mem_cons_of_mem _ (ih h)

theorem any_after_aset {m : List (Req × Key)} {r r' : Req} {k k' : Key} (h : aget m r = some k) (hne : r' ≠ r) :
    (aset m r' k').any (fun e => e.2 == k) = true := by
  rw [List.any_eq_true]
  refine ⟨(r, k), ?_, by simp⟩
  simp only [aset, aerase, List.mem_cons, List.mem_filter]
  exact Or.inr ⟨mem_of_aget' h, by simp [Ne.symm hne]⟩

/-- the tracker of request `r` after another request `r'` was given the key `k'`: described by a
function of `r`'s own tracker before (which preserves `r`'s missing-record), and the identity if
`r'` neither leaves nor joins `r`'s scope. -/
theorem setDedupKey_other (p : PeerTracker) (r' r : Req) (k' : Key) (hne : r' ≠ r) :
    aget ((p.setDedupKey r' k').trackerOf r).missing r = aget (p.trackerOf r).missing r ∧
    (aget p.dedupKeys r' ≠ aget p.dedupKeys r → some k' ≠ aget p.dedupKeys r →
      (p.setDedupKey r' k').trackerOf r = p.trackerOf r) := by
  by_cases hsame : aget p.dedupKeys r' = some k'
  · have : p.setDedupKey r' k' = p := by simp [PeerTracker.setDedupKey, hsame]
    rw [this]; exact ⟨rfl, fun _ _ => rfl⟩
  have hdk : aget (p.setDedupKey r' k').dedupKeys r = aget p.dedupKeys r := by
    rw [setDedupKey_dedupKeys, aget_aset]; simp [hne]
  -- name the moved trackers
  generalize hmv : (p.scopeTracker (aget p.dedupKeys r')).moveRequest r' ((p.dedupKey r' k').scopeTracker (some k')) = mv
  have hmv1 := (moveRequest_missing_other (p.scopeTracker (aget p.dedupKeys r')) ((p.dedupKey r' k').scopeTracker (some k')) r' r hne).1
  have hmv2 := (moveRequest_missing_other (p.scopeTracker (aget p.dedupKeys r')) ((p.dedupKey r' k').scopeTracker (some k')) r' r hne).2
  rw [hmv] at hmv1 hmv2
  have hnewT : (p.dedupKey r' k').scopeTracker (some k') = p.scopeTracker (some k') := by
    simp only [PeerTracker.scopeTracker, PeerTracker.dedupKey]
    cases h : aget p.alts k' with
    | none => simp [aget_aset]
    | some t => simp [h]
  have hunf : (p.setDedupKey r' k').trackerOf r
      = (match aget p.dedupKeys r' with
         | some k0 => ((((p.dedupKey r' k').setScopeTracker (aget p.dedupKeys r') mv.1).setScopeTracker (some k') mv.2).dropTrackerIfUnused k0)
         | none => (((p.dedupKey r' k').setScopeTracker (aget p.dedupKeys r') mv.1).setScopeTracker (some k') mv.2)).scopeTracker
          (aget p.dedupKeys r) := by
    rw [PeerTracker.trackerOf, hdk]
    congr 1
    simp only [PeerTracker.setDedupKey, hsame, if_false, hmv]
    cases aget p.dedupKeys r' <;> rfl
  rw [hunf]
  simp only [PeerTracker.trackerOf]
  cases hold : aget p.dedupKeys r' with
  | none =>
    -- r' leaves the default tracker
    simp only [hold] at hmv1 hmv2 ⊢
    cases hk : aget p.dedupKeys r with
    | none =>
      refine ⟨?_, fun h => absurd rfl h⟩
      simpa [PeerTracker.scopeTracker, PeerTracker.setScopeTracker, PeerTracker.dedupKey] using hmv1
    | some k =>
      by_cases hkk : k' = k
      · subst hkk
        refine ⟨?_, fun _ h => absurd rfl h⟩
        simp only [PeerTracker.scopeTracker, PeerTracker.setScopeTracker, aget_aset, if_true, Option.getD_some]
        rw [hmv2, hnewT]; rfl
      · have hkk' : ¬ k = k' := fun e => hkk e.symm
        have : ((((p.dedupKey r' k').setScopeTracker none mv.1).setScopeTracker (some k') mv.2).scopeTracker (some k))
            = p.scopeTracker (some k) := by
          simp only [PeerTracker.scopeTracker, PeerTracker.setScopeTracker, PeerTracker.dedupKey, aget_aset, hkk, if_false]
          cases h : aget p.alts k' with
          | none => simp [aget_aset, hkk]
          | some t => simp
        rw [this]; exact ⟨rfl, fun _ _ => rfl⟩
  | some k0 =>
    simp only [hold] at hmv1 hmv2 ⊢
    have hk0 : k0 ≠ k' := fun e => hsame (by rw [hold, e])
    have hk0' : ¬ k' = k0 := fun e => hk0 e.symm
    cases hk : aget p.dedupKeys r with
    | none =>
      have : (((((p.dedupKey r' k').setScopeTracker (some k0) mv.1).setScopeTracker (some k') mv.2).dropTrackerIfUnused k0).scopeTracker none)
          = p.scopeTracker none := by
        simp [PeerTracker.scopeTracker, (dropTrackerIfUnused_fields _ _).2.2.2, PeerTracker.setScopeTracker, PeerTracker.dedupKey]
      rw [this]; exact ⟨rfl, fun _ _ => rfl⟩
    | some k =>
      -- the bucket of r is kept by dropTrackerIfUnused: r still refers to it
      have hkeep : ∀ q : PeerTracker, q.dedupKeys = aset p.dedupKeys r' k' → k0 = k →
          (q.dropTrackerIfUnused k0).alts = q.alts := by
        intro q hq hkk
        unfold PeerTracker.dropTrackerIfUnused
        rw [hq, hkk, any_after_aset hk hne]; rfl
      by_cases hkk0 : k0 = k
      · subst hkk0
        refine ⟨?_, fun h => absurd rfl h⟩
        simp only [PeerTracker.scopeTracker]
        rw [hkeep _ (by simp [PeerTracker.setScopeTracker, PeerTracker.dedupKey]) rfl]
        simp only [PeerTracker.setScopeTracker, aget_aset, hk0', if_false, if_true, Option.getD_some]
        exact hmv1
      · have hkk0' : ¬ k = k0 := fun e => hkk0 e.symm
        by_cases hkk : k' = k
        · subst hkk
          refine ⟨?_, fun _ h => absurd rfl h⟩
          simp only [PeerTracker.scopeTracker]
          have : aget (((((p.dedupKey r' k').setScopeTracker (some k0) mv.1).setScopeTracker (some k') mv.2).dropTrackerIfUnused k0).alts) k'
              = some mv.2 := by
            unfold PeerTracker.dropTrackerIfUnused
            split <;> simp [PeerTracker.setScopeTracker, aget_aset, aget_aerase, hk0]
          rw [this, Option.getD_some, hmv2, hnewT]; rfl
        · have hkk' : ¬ k = k' := fun e => hkk e.symm
          have : aget (((((p.dedupKey r' k').setScopeTracker (some k0) mv.1).setScopeTracker (some k') mv.2).dropTrackerIfUnused k0).alts) k
              = aget p.alts k := by
            unfold PeerTracker.dropTrackerIfUnused
            split
            · simp only [PeerTracker.setScopeTracker, PeerTracker.dedupKey, aget_aset, hkk, hkk0, if_false]
              cases h : aget p.alts k' <;> simp [aget_aset, hkk]
            · simp only [PeerTracker.setScopeTracker, PeerTracker.dedupKey, aget_aset, aget_aerase, hkk, hkk0, if_false]
              cases h : aget p.alts k' <;> simp [aget_aset, hkk]
          simp only [PeerTracker.scopeTracker, this]
          exact ⟨trivial, fun _ _ => trivial⟩

end GS.C03L
