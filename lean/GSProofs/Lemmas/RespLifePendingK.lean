import GSProofs.Lemmas.RespLifePending
/-!
`NOK k s`: the id-specific form of `NO` (Lemmas/RespLifePending.lean) — a pending topic of `k` has a response in the
table.  Same lemmas, one per handler; the Terminate handler only needs its side condition for the id `k` itself
(`TermStepK`).  (Mechanical copy of the `no_*` lemmas; `Le` and the primitive lemmas are shared.)
-/
namespace GS.RespLife

def NOK (k : Id) (s : State) : Prop := ∀ p, k ∈ pendOf s p → (entOf s k).isSome = true

theorem NOK.le {k : Id} {s s' : State} (h : NOK k s) (hl : Le s s') : NOK k s' :=
  fun p hp => hl.1 k (h p (hl.2 p k hp))

theorem nok_pushTask {k : Id} {s : State} (h : NOK k s) {id : Id} (he : (entOf s id).isSome = true) (p : Peer)
    (pri : Nat) : NOK k (pushTask s p id pri) := by
  intro p' hp
  rw [ent_pushTask]
  rcases mem_pend_pushTask hp with h1 | h1
  · exact h p' h1
  · rw [h1]; exact he

theorem nok_terminate {k : Id} {s : State} (h : NOK k s) {id : Id} (hn : id = k → ∀ p, k ∉ pendOf s p) :
    NOK k (terminate s id) := by
  cases he : entOf s id with
  | none => exact h.le (le_of_acc (acc_terminate_none he))
  | some e =>
    have ha := acc_terminate_some he
    intro p hp
    have hp' : k ∈ pendOf s p := by
      have : pendOf (terminate s id) = pendOf s := congrArg Acc.pend ha
      rw [this] at hp; exact hp
    have hne : k ≠ id := fun e => hn e.symm p hp'
    have : entOf (terminate s id) k = entOf s k := by
      have := congrFun (congrArg Acc.ent ha) k
      exact this.trans (fupd_other _ _ _ hne)
    rw [this]; exact h p hp'

def TermStepK (k : Id) (s : State) : Action → Prop
  | .mgr => s.park = none → ∀ inc pub rest, s.mailbox = .terminate k inc pub :: rest → isInc s k inc = true →
      ∀ p, k ∉ pendOf s p
  | _ => True

-- ------------------------------------------------------------------ manager handlers
theorem nok_abortRequest {k : Id} {s : State} (h : NOK k s) (id : Id) (err : Sig)
    (hown : ∀ r, lookup s id = some r → ∀ p, p ≠ r.peer → id ∉ pendOf s p) : NOK k (abortRequest s id err).1 := by
  unfold abortRequest
  split
  · exact h
  · rename_i r hl
    have hle := le_removeTask s r.peer id
    have h1 : NOK k (removeTask s r.peer id) := h.le hle
    have hn : ∀ p, id ∉ pendOf (removeTask s r.peer id) p := by
      intro p
      by_cases hp : p = r.peer
      · subst hp; exact notpend_removeTask s _ id
      · exact fun hx => hown r hl p hp (hle.2 p id hx)
    simp only
    split
    · exact h1
    · split
      · cases err with
        | ctxCancel => exact nok_terminate h1 (fun e => e ▸ hn)
        | network => exact nok_terminate h1 (fun e => e ▸ hn)
        | cancelCmd => exact h1.le ((le_setState _ id .completing).trans (le_execTx1 _ _ _ _ _))
      · exact h1.le (le_modAux _ _ _)

theorem nok_unpauseFinish {k : Id} {s : State} (h : NOK k s) (id : Id) : NOK k (unpauseFinish s id) := by
  unfold unpauseFinish
  split
  · exact h
  · rename_i r hl
    have he : (entOf s id).isSome = true := by
      have := entOf_lookup hl
      show ((acc s).ent id).isSome = true
      rw [this]; rfl
    exact nok_pushTask h he _ _

theorem nok_unpauseRequest {k : Id} {s : State} (h : NOK k s) (id : Id) (ext : Bool) : NOK k (unpauseRequest s id ext).1 := by
  unfold unpauseRequest
  split
  · exact h
  · split
    · exact h
    · have h1 : NOK k (setState (modAux s id fun a => { a with sigPause := false }) id .queued) :=
        h.le ((le_modAux _ _ _).trans (le_setState _ _ _))
      split
      · simp only
        generalize hx : execTx _ Party.mgr _ id [TxOp.ext] = pr
        obtain ⟨s2, ok⟩ := pr
        have h2 : NOK k s2 := h1.le (le_execTx hx)
        simp only
        split
        · exact nok_unpauseFinish h2 id
        · exact h2
      · exact nok_unpauseFinish h1 id

theorem nok_procUpdateFinish {k : Id} {s : State} (h : NOK k s) (id : Id) (plan : UP) : NOK k (procUpdateFinish s id plan) := by
  unfold procUpdateFinish
  split
  · exact h
  · split
    · exact h.le (le_setState _ _ _)
    · split
      · exact nok_unpauseRequest h id false
      · exact h

theorem nok_processUpdate {k : Id} {s : State} (h : NOK k s) (id : Id) (plan : UP) : NOK k (processUpdate s id plan) := by
  unfold processUpdate
  split
  · exact h
  · split
    · exact h
    · split
      · exact h.le (le_modAux _ _ _)
      · simp only
        generalize hx : execTx s Party.mgr _ id _ = pr
        obtain ⟨s1, ok⟩ := pr
        have h1 : NOK k s1 := h.le (le_execTx hx)
        simp only
        split
        · exact nok_procUpdateFinish h1 id plan
        · exact h1

theorem nok_updateRequest {k : Id} {s : State} (h : NOK k s) (id : Id) (ext : Bool) : NOK k (updateRequest s id ext).1 := by
  unfold updateRequest
  split
  · exact h
  · simp only
    generalize hx : execTx s Party.mgr _ id _ = pr
    obtain ⟨s1, ok⟩ := pr
    have h1 : NOK k s1 := h.le (le_execTx hx)
    simp only
    split
    · exact h1
    · exact h1

theorem nok_newReqFinish {k : Id} {s : State} (h : NOK k s) (p : Peer) (id : Id) (cfg : ReqCfg) : NOK k (newReqFinish s p id cfg) := by
  unfold newReqFinish
  split
  · exact h.le (le_insertResp _ _)
  · exact h.le (le_insertResp _ _)
  · exact h.le (le_insertResp _ _)
  · intro p' hp
    have hp' : k ∈ pendOf (pushTask s p id cfg.pri) p' := hp
    rw [entOf_insertResp]
    split
    · rfl
    · rename_i hne
      rcases mem_pend_pushTask hp' with h1 | h1
      · rw [ent_pushTask]; exact h p' h1
      · exact absurd h1 hne

theorem nok_newRequest {k : Id} {s : State} (h : NOK k s) (p : Peer) (id : Id) (cfg : ReqCfg) : NOK k (newRequest s p id cfg) := by
  unfold newRequest
  simp only
  have h0 : NOK k (openStream (protect s p id) id) := h
  generalize openStream (protect s p id) id = s2 at h0
  generalize hx : execTx s2 Party.mgr p id (prepareOps cfg.hook) = pr
  obtain ⟨s3, ok⟩ := pr
  have h3 : NOK k s3 := h0.le (le_execTx hx)
  simp only
  split
  · exact nok_newReqFinish h3 p id cfg
  · exact h3

theorem nok_startTask {k : Id} {s : State} (h : NOK k s) (w : Nat) : NOK k (startTask s w) := by
  unfold startTask
  split
  · exact h
  · rename_i wk _
    split
    · exact h.le (le_taskDone s wk.peer wk.id)
    · rename_i r _
      split
      · exact h.le (le_taskDone s wk.peer wk.id)
      · simp only
        split
        · exact h.le ((le_modAux _ _ _).trans (le_setState _ _ _))
        · have h1 : NOK k (emit s (.proc r.id)) := h
          exact h1.le ((le_modAux _ _ _).trans (le_setState _ _ _))

theorem nok_getUpdates {k : Id} {s : State} (h : NOK k s) (w : Nat) : NOK k (getUpdates s w) := by
  unfold getUpdates
  split
  · exact h
  · split
    · split
      · exact h
      · rename_i r _
        have h2 : NOK k (modAux s r.id fun a => { a with updates := [] }) := h.le (le_modAux _ _ _)
        exact h2
    · exact h


theorem nok_finishTask {k : Id} {s : State} (h : NOK k s) (w : Nat) (err : Option WErr)
    (hnp : ∀ wk r, workerOf s w = some wk → lookup s wk.id = some r → ∀ p, wk.id ∉ pendOf s p) :
    NOK k (finishTask s w err) := by
  unfold finishTask
  split
  · exact h
  · rename_i wk hw
    have hle : Le s (setPhase (taskDone s wk.peer wk.id) w .done) := le_taskDone s wk.peer wk.id
    have h1 : NOK k (setPhase (taskDone s wk.peer wk.id) w .done) := h.le hle
    simp only
    split
    · exact h1
    · rename_i r hl
      have hl0 : lookup s wk.id = some r := by
        have : lookup (setPhase (taskDone s wk.peer wk.id) w .done) wk.id = lookup s wk.id := lookup_taskDone s _ _ _
        rw [← this]; exact hl
      have hid : r.id = wk.id := by
        have := List.find?_some hl0
        simpa using this
      have hn : ∀ p, r.id ∉ pendOf (setPhase (taskDone s wk.peer wk.id) w .done) p := by
        intro p hx
        rw [hid] at hx
        exact hnp wk r hw hl0 p (hle.2 p _ hx)
      have he : (entOf (setPhase (taskDone s wk.peer wk.id) w .done) r.id).isSome = true := by
        have := entOf_lookup hl
        rw [hid]
        show ((acc _).ent wk.id).isSome = true
        rw [this]; rfl
      split
      · split
        · exact nok_pushTask h1 he _ _
        · exact h1
      · split
        · exact nok_terminate h1 (fun e => e ▸ hn)
        · split
          · exact h1.le (le_setState _ _ _)
          · split
            · have h2 : NOK k (emit (setPhase (taskDone s wk.peer wk.id) w .done) (.canc r.id)) := h1
              exact nok_terminate h2 (fun e => e ▸ hn)
            · split
              · exact nok_terminate h1 (fun e => e ▸ hn)
              · exact h1.le (le_setState _ _ _)

-- ------------------------------------------------------------------ one mailbox message
theorem nok_handle {k : Id} {s : State} (h : NOK k s) (m : Msg)
    (hown : ∀ id r, lookup s id = some r → ∀ p, p ≠ r.peer → id ∉ pendOf s p)
    (hfin : ∀ w err, m = .finishTask w err → ∀ wk r, workerOf s w = some wk → lookup s wk.id = some r →
      ∀ p, wk.id ∉ pendOf s p)
    (hterm : ∀ inc pub, m = .terminate k inc pub → isInc s k inc = true → ∀ p, k ∉ pendOf s p) :
    NOK k (handle s m) := by
  cases m with
  | processRequests p r =>
    show NOK k (if foreign s p r.id = true then s else processRequest s p r)
    split
    · exact h
    · cases r with
      | new id cfg => exact nok_newRequest h p id cfg
      | cancel id => exact nok_abortRequest h id .ctxCancel (hown id)
      | update id plan => exact nok_processUpdate h id plan
  | api c =>
    cases c with
    | pause id =>
      show NOK k (emit (pauseRequest s id).1 _)
      exact h.le (le_of_acc (acc_pauseRequest s id))
    | unpause id ext =>
      show NOK k (if (unpauseRequest s id ext).2.2 = true then (unpauseRequest s id ext).1
        else emit (unpauseRequest s id ext).1 _)
      split
      · exact nok_unpauseRequest h id ext
      · exact nok_unpauseRequest h id ext
    | cancel id =>
      show NOK k (emit (abortRequest s id .cancelCmd).1 _)
      exact nok_abortRequest h id .cancelCmd (hown id)
    | update id ext =>
      show NOK k (if (updateRequest s id ext).2.2 = true then (updateRequest s id ext).1
        else emit (updateRequest s id ext).1 _)
      split
      · exact nok_updateRequest h id ext
      · exact nok_updateRequest h id ext
  | startTask w => exact nok_startTask h w
  | getUpdates w => exact nok_getUpdates h w
  | finishTask w err => exact nok_finishTask h w err (hfin w err rfl)
  | closeNetErr id inc pub =>
    have h1 : NOK k (abortRequest s id .network).1 := nok_abortRequest h id .network (hown id)
    rw [handle_closeNetErr]
    split
    · split
      · exact h1
      · exact h1
    · exact h
  | terminate id inc pub =>
    rw [handle_terminate]
    show NOK k (if isInc s id inc = true then terminate s id else s)
    split
    · rename_i hi; exact nok_terminate h (fun e => by subst e; exact hterm inc pub rfl hi)
    · exact h

theorem nok_resumeMgr {k : Id} {s : State} (h : NOK k s) (pk : MgrPark) : NOK k (resumeMgr s pk) := by
  have h1 : NOK k (buildNow { s with park := none } .mgr pk.peer pk.id pk.ops) :=
    h.le (le_of_eq (congrArg Acc.ent (acc_unpark_buildNow s pk.peer pk.id pk.ops))
      (congrArg Acc.pend (acc_unpark_buildNow s pk.peer pk.id pk.ops)))
  unfold resumeMgr
  simp only
  split
  · exact nok_newReqFinish h1 _ _ _
  · exact nok_procUpdateFinish h1 _ _
  · exact nok_unpauseFinish h1 _
  · exact h1

theorem nok_mgrStep {k : Id} {s s' : State} (h : NOK k s) (hi : LInv (acc s)) (ht : TermStepK k s .mgr) (hs : mgrStep s = some s') :
    NOK k s' := by
  unfold mgrStep at hs
  split at hs
  · rename_i pk hpk
    split at hs
    · cases hs; exact nok_resumeMgr h pk
    · cases hs
  · rename_i hpk
    split at hs
    · cases hs
    · rename_i m rest hm
      cases hs
      have hown : ∀ id r, lookup s id = some r → ∀ p, p ≠ r.peer → id ∉ pendOf s p := by
        intro id r hl p hp hx
        exact hp (hi.ownP p id hx _ (entOf_lookup hl)).symm
      apply nok_handle (s := { s with mailbox := rest, handled := s.handled + 1 }) h m hown
      · intro w err hmw wk r hw hl p hx
        subst hmw
        have hw' : workerOf s w = some wk := hw
        have hwf : w ∈ (acc s).fins := by
          show w ∈ fins s.mailbox
          rw [hm]; simp [fins]
        have hk := (hi.finsIff w).1 hwf
        have hwa := wk_acc hw'
        have hkk : wkind wk.phase = .waitFinish := by simpa [Acc.kindAt, hwa] using hk
        have hlive : (acc s).liveW w wk.peer wk.id := ⟨_, hwa, by rw [hkk]; simp⟩
        have hact : wk.id ∈ (acc s).act wk.peer := (hi.actLive wk.peer wk.id).2 ⟨w, hlive⟩
        have hl' : lookup s wk.id = some r := hl
        have hpeer : r.peer = wk.peer := hi.own w wk.peer wk.id hlive _ (entOf_lookup hl')
        by_cases hp : p = r.peer
        · rw [hp, hpeer] at hx
          exact hi.disj wk.peer wk.id hx hact
        · exact hown wk.id r hl' p hp hx
      · intro inc pub hmt hinc
        subst hmt
        exact ht hpk inc pub rest hm hinc

theorem nok_step {k : Id} {s s' : State} {a : Action} (h : NOK k s) (hi : LInv (acc s)) (ht : TermStepK k s a)
    (hs : step s a = some s') : NOK k s' := by
  cases a with
  | recv p r => simp only [step, Option.some.injEq] at hs; subst hs; exact h
  | api c => simp only [step, Option.some.injEq] at hs; subst hs; exact h
  | mgr => exact nok_mgrStep h hi ht hs
  | pop p id =>
    have h' : popTask s p id = some s' := hs
    obtain ⟨h1, _⟩ := acc_popTask h'
    refine h.le ⟨fun id' he => ?_, fun p' id' hx => ?_⟩
    · have : entOf s' = entOf s := congrArg Acc.ent h1
      rw [this]; exact he
    · have : pendOf s' p' = fupd (pendOf s) p ((pendOf s p).filter (· != id)) p' := congrFun (congrArg Acc.pend h1) p'
      rw [this] at hx
      unfold fupd at hx
      split at hx
      · rename_i hp; subst hp; exact (List.mem_filter.1 hx).1
      · exact hx
  | reap p => exact h.le (le_of_acc (acc_reap hs))
  | wstep w pick =>
    have h' : wstep s w pick = some s' := hs
    refine h.le (le_of_tq ?_ ?_)
    · rcases (wl_wstep h').1 with e | e | e <;> exact congrArg Li.tbl e
    · rcases (wl_wstep h').1 with e | e | e <;> exact congrArg Li.qs e
  | extract p =>
    have h' : extract s p = some s' := hs
    exact h.le (le_of_acc (acc_of_li_pi (li_extract h') (pi_extract h')))
  | net p ok =>
    have h' : netResolve s p ok = some s' := hs
    exact h.le (le_of_acc (acc_of_li_pi (li_netResolve h') (pi_netResolve h')))
  | pub p =>
    have h' : pubStep s p = some s' := hs
    exact h.le (le_of_acc (acc_of_li_pi (li_pubStep h') (pi_pubStep h')))
  | primer p =>
    simp only [step, Option.some.injEq] at hs; subst hs
    exact h.le (le_of_acc (acc_of_li_pi (li_primer s p) (pi_primer s p)))
  | thaw =>
    simp only [step, Option.some.injEq] at hs; subst hs
    exact h.le (le_of_acc (acc_of_li_pi (li_thawAll s) (pi_thawAll s)))


end GS.RespLife
