import GSProofs.Lemmas.ReqLifeErr
/-!
Outbox accounting for the request life cycle (property C04, clause "sends a cancel to the responder").

`cause s a` names the reason why action `a`, taken in state `s`, appends a cancel message to the outbox
(`none`: it appends no cancel).  These are ALL places of the model (= of the code) that send a cancel:

  * `callerCancel api`  the manager handles a cancel message (CancelRequest: `api = true`; the collector's
                        cancelRequestAndClose after the caller's context ended: `api = false`) for a request
                        it still tracks                              (client.go cancelRequest)
  * `hookErr`           a response hook returned an error for a tracked request
                                                                     (server.go processResponses / UpdateRequest hook)
  * `execPause`         ExecuteTask's tail after `traverse` stopped for a pause   (executor.go)
  * `execErr e`         ExecuteTask's tail after `traverse` ended with a non-context error `e`

`step_outbox`: one step appends exactly `emit s a` (a cancel iff `cause s a` is some, a request message iff
`a = xSendReq`), always addressed to the request's own peer, and never changes `peer`.
-/
namespace GS.ReqLife
open GS.Generated

inductive Cause where
  | callerCancel (api : Bool)
  | hookErr
  | execPause
  | execErr (e : Err)
deriving DecidableEq, Repr

def Cause.isCaller : Cause → Bool | .callerCancel _ => true | _ => false

/-- the cancel-producing reading of a mailbox message in manager state `s` -/
def msgCause (s : State) : Msg → Option Cause
  | .cancel api => if s.reg = .live then some (.callerCancel api) else none
  | .responses p _ _ hk => if (hookRunsFor s p && hk) = true ∧ s.reg = .live then some .hookErr else none
  | _ => none

def cause (s : State) : Action → Option Cause
  | .mgr =>
    match s.mphase, s.mbox with
    | .idle, m :: _ => msgCause s m
    | _, _ => none
  | .xFin1 =>
    match s.w with
    | .fin1 .paused => some .execPause
    | .fin1 (.err e) => some (.execErr e)
    | _ => none
  | _ => none

def cancelTo (p : Nat) : Out := { kind := .cancel, peer := p }
def reqTo (p : Nat) : Out := { kind := .req, peer := p }

/-- what one step appends to the outbox -/
def emit (s : State) (a : Action) : List Out :=
  if (cause s a).isSome then [cancelTo s.peer] else if a = .xSendReq then [reqTo s.peer] else []

theorem handle_emit (s : State) (m : Msg) :
    (handle s m).outbox = s.outbox ++ (if (msgCause s m).isSome then [cancelTo s.peer] else []) := by
  cases m <;> simp only [handle, cancelLive, hookCancel, ingest, procTerminations, msgCause, cancelTo]
  · split <;> simp
  · (repeat' split) <;> simp_all [cancelOnError_out]
  · (repeat' split) <;> simp_all [cancelOnError_out]
  · (repeat' split) <;> simp
  · (repeat' split) <;> simp
  · (repeat' split) <;> simp
  · (repeat' split) <;> simp [terminate_out]

theorem msgCause_mbox (s : State) (rest : List Msg) (m : Msg) :
    msgCause { s with mbox := rest } m = msgCause s m := by
  cases m <;> simp [msgCause, hookRunsFor]

/-- one step: `peer` is constant and the outbox grows by exactly `emit s a`. -/
theorem step_outbox {s s' : State} {a : Action} (hs : step s a = some s') :
    s'.peer = s.peer ∧ s'.outbox = s.outbox ++ emit s a := by
  cases a
  case mgr =>
    simp only [step] at hs
    split at hs
    next m rest hm hb =>
      cases hs
      refine ⟨(handle_out _ m).1, ?_⟩
      rw [handle_emit, msgCause_mbox]
      simp [emit, cause, hm, hb]
    next => cases hs
  case ceRecv =>
    simp only [step] at hs
    split at hs
    next buf e s1 hce hsnd =>
      cases hs
      obtain ⟨h1, h2⟩ := errSender_out hsnd
      simp [emit, cause, h1, h2]
    next => cases hs
  case cpDrainE =>
    simp only [step] at hs
    split at hs
    next sent pO e s1 hcp hsnd =>
      cases hs
      obtain ⟨h1, h2⟩ := errSender_out hsnd
      simp [emit, cause, h1, h2]
    next => cases hs
  case xFin1 =>
    simp only [step] at hs
    split at hs
    next k hw =>
      cases k <;> (cases hs; simp [emit, cause, hw, sendRelease, pushMsg, cancelTo])
    next => cases hs
  case xSendReq =>
    simp only [step] at hs
    split at hs
    · cases hs; simp [emit, cause, reqTo]
    · cases hs
  all_goals
    simp only [step, env, pushMsg, sendRelease, pauseCheck, dataLoaded, loadFailed, afterVisit,
      Option.map_eq_some_iff] at hs
    (repeat' split at hs) <;>
      (first
        | (cases hs; done)
        | (obtain ⟨_, hs1, hs2⟩ := hs; simp at hs1; done)
        | (obtain ⟨_, hs1, hs2⟩ := hs; simp at hs1; subst hs2; simp [emit, cause] <;> grind)
        | (cases hs; simp [emit, cause] <;> grind))

end GS.ReqLife
