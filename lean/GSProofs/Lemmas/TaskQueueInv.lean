import GSProofs.Lemmas.TaskQueueOps
/-!
Helper lemmas for C21, part 3: invariants of the worker pool `Sys` and the progress measure.
-/
namespace GS.TQ

/-- generalisation of `sumBy_map_lt`: one element loses at least `k` -/
theorem sumBy_map_add_le {α : Type} (f : α → Nat) (h : α → α) (xs : List α) (k : Nat)
    (hle : ∀ x ∈ xs, f (h x) ≤ f x) (hk : ∃ x ∈ xs, f (h x) + k ≤ f x) :
    sumBy f (xs.map h) + k ≤ sumBy f xs := by
  induction xs with
  | nil => obtain ⟨x, hx, _⟩ := hk; cases hx
  | cons x xs ih =>
    simp only [List.map, sumBy]
    have h1 := hle x (by simp)
    have h2 := sumBy_map_le f h xs (fun y hy => hle y (by simp [hy]))
    obtain ⟨y, hy, hyl⟩ := hk
    rcases List.mem_cons.mp hy with rfl | hy'
    · omega
    · have := ih (fun z hz => hle z (by simp [hz])) ⟨y, hy', hyl⟩
      omega

theorem sumBy_filter_add_le {α : Type} (f : α → Nat) (p : α → Bool) (xs : List α) (x : α)
    (hx : x ∈ xs) (hp : p x = false) : sumBy f (xs.filter p) + f x ≤ sumBy f xs := by
  induction xs with
  | nil => cases hx
  | cons y ys ih =>
    simp only [List.filter]
    rcases List.mem_cons.mp hx with rfl | hx'
    · simp only [hp, sumBy]
      have := sumBy_filter_le f p ys
      omega
    · have := ih hx'
      split <;> simp only [sumBy] <;> omega

theorem sumBy_eq_zero {α : Type} (f : α → Nat) (xs : List α) (h : ∀ x ∈ xs, f x = 0) :
    sumBy f xs = 0 := by
  induction xs with
  | nil => rfl
  | cons x xs ih =>
    simp only [sumBy]
    have := h x (by simp)
    have := ih (fun y hy => h y (by simp [hy]))
    omega

theorem sumBy_congr {α : Type} (f g : α → Nat) (xs : List α) (h : ∀ x ∈ xs, f x = g x) :
    sumBy f xs = sumBy g xs := by
  induction xs with
  | nil => rfl
  | cons x xs ih =>
    simp only [sumBy]
    rw [h x (by simp), ih (fun y hy => h y (by simp [hy]))]

/-! ### what a worker holds -/

/-- number of popped tasks of peer `p` with uid `u` this worker still owes a TaskDone for -/
def heldCnt (p u : Nat) : WSt → Nat
  | .exec q cur d rest =>
    if q == p then (if !d && cur.uid == u then 1 else 0) + rest.countP (·.uid == u) else 0
  | _ => 0

/-- number of popped tasks of peer `p` this worker still owes a TaskDone for -/
def heldLen (p : Nat) : WSt → Nat
  | .exec q _ d rest => if q == p then (if d then 0 else 1) + rest.length else 0
  | _ => 0

def phase : WSt → Nat
  | .idle => 0
  | .ready => 1
  | .exec _ _ false rest => 2 * rest.length + 3
  | .exec _ _ true rest => 2 * rest.length + 2

def cntUid (u : Nat) (l : List Task) : Nat := l.countP (·.uid == u)

theorem cntUid_append (u : Nat) (a b : List Task) : cntUid u (a ++ b) = cntUid u a + cntUid u b := by
  simp [cntUid, List.countP_append]

theorem cntUid_eraseP_le (u v : Nat) (l : List Task) :
    cntUid u (l.eraseP (·.uid == v)) ≤ cntUid u l := by
  induction l with
  | nil => simp [cntUid]
  | cons x xs ih =>
    simp only [List.eraseP_cons]
    cases h : (x.uid == v)
    · simp only [cond_false, cntUid, List.countP_cons] at *; omega
    · simp only [cond_true, cntUid, List.countP_cons]; omega

/-- erasing the first task with uid `u` lowers the count of `u` by one (if there is one) -/
theorem cntUid_eraseP_self (u : Nat) (l : List Task) :
    cntUid u (l.eraseP (·.uid == u)) = cntUid u l - 1 := by
  induction l with
  | nil => simp [cntUid]
  | cons x xs ih =>
    simp only [List.eraseP_cons]
    cases h : (x.uid == u)
    · simp only [cond_false, cntUid, List.countP_cons, h] at *
      simpa using ih
    · simp only [cond_true, cntUid, List.countP_cons, h]; simp

theorem length_eraseP_ge (l : List Task) (p : Task → Bool) : l.length ≤ (l.eraseP p).length + 1 := by
  induction l with
  | nil => simp
  | cons x xs ih =>
    simp only [List.eraseP_cons]
    cases h : p x <;> simp <;> omega

theorem eq_nil_of_cntUid_zero (l : List Task) (h : ∀ u, cntUid u l = 0) : l = [] := by
  cases l with
  | nil => rfl
  | cons x xs =>
    have := h x.uid
    simp [cntUid] at this

/-! ### invariants -/

def ids (ps : List Tracker) : List Nat := ps.map (·.id)

theorem idinj_of_nodup {ps : List Tracker} (h : (ids ps).Nodup) :
    ∀ a ∈ ps, ∀ b ∈ ps, a.id = b.id → a = b := by
  induction ps with
  | nil => intro a ha; cases ha
  | cons x xs ih =>
    simp only [ids, List.map, List.nodup_cons, List.mem_map, not_exists, not_and] at h
    intro a ha b hb hab
    rcases List.mem_cons.mp ha with rfl | ha' <;> rcases List.mem_cons.mp hb with rfl | hb'
    · rfl
    · exact absurd hab.symm (h.1 b hb')
    · exact absurd hab (h.1 a ha')
    · exact ih h.2 a ha' b hb' hab

theorem ids_modifyT {ps : List Tracker} {p : Nat} {f : Tracker → Tracker}
    (hf : ∀ t, (f t).id = t.id) : ids (modifyT ps p f) = ids ps := by
  simp only [ids, modifyT, List.map_map]
  apply List.map_congr_left
  intro t _
  simp only [Function.comp]
  split
  · exact hf t
  · rfl

theorem ids_setT {ps : List Tracker} {t : Tracker} : ids (setT ps t) = ids ps := by
  simp only [ids, setT, List.map_map]
  apply List.map_congr_left
  intro u _
  simp only [Function.comp]
  split
  · rename_i h; simp at h; exact h.symm
  · rfl

theorem nodup_eraseT {ps : List Tracker} {p : Nat} (h : (ids ps).Nodup) : (ids (eraseT ps p)).Nodup :=
  h.sublist (List.Sublist.map _ List.filter_sublist)

theorem modifyT_of_no_id {ps : List Tracker} {p : Nat} {f : Tracker → Tracker}
    (h : ∀ t ∈ ps, t.id ≠ p) : modifyT ps p f = ps := by
  unfold modifyT
  conv => rhs; rw [← List.map_id ps]
  apply List.map_congr_left
  intro t ht
  simp [h t ht]

structure Inv (s : Sys) : Prop where
  /-- tracker ids are unique -/
  nodup : (ids s.q.peers).Nodup
  /-- a frozen tracker is in `frozenPeers` (so ThawRound reaches it) -/
  frozen : ∀ tr ∈ s.q.peers, 0 < tr.freeze → tr.id ∈ s.q.frozen
  /-- every active task is owed a TaskDone by some worker -/
  acnt : ∀ tr ∈ s.q.peers, ∀ u, cntUid u tr.active ≤ sumBy (heldCnt tr.id u) s.workers
  /-- every task a worker owes a TaskDone for is active -/
  elen : ∀ tr ∈ s.q.peers, sumBy (heldLen tr.id) s.workers ≤ tr.active.length
  /-- … and belongs to a peer that has a tracker -/
  enone : ∀ p, (∀ tr ∈ s.q.peers, tr.id ≠ p) → sumBy (heldLen p) s.workers = 0

theorem Inv.init (w cap : Nat) : Inv (Sys.init w cap) := by
  have h0 : ∀ (f : WSt → Nat), f .ready = 0 → sumBy f (List.replicate w WSt.ready) = 0 := by
    intro f hf
    apply sumBy_eq_zero
    intro x hx
    rw [List.eq_of_mem_replicate hx]; exact hf
  refine ⟨?_, ?_, ?_, ?_, ?_⟩ <;> simp [Sys.init, ids]
  intro p; exact h0 _ rfl

/-- the part of the invariant that does not mention the workers is preserved by anything that maps
    trackers to trackers with the same id -/
theorem idinj_modifyT {ps : List Tracker} {p : Nat} {f : Tracker → Tracker}
    (hf : ∀ t, (f t).id = t.id)
    (h : ∀ a ∈ ps, ∀ b ∈ ps, a.id = b.id → a = b) :
    ∀ a ∈ modifyT ps p f, ∀ b ∈ modifyT ps p f, a.id = b.id → a = b := by
  intro a ha b hb hab
  obtain ⟨a0, ha0, hA⟩ := mem_modifyT ha
  obtain ⟨b0, hb0, hB⟩ := mem_modifyT hb
  rcases hA with ⟨hne, rfl⟩ | ⟨he, rfl⟩ <;> rcases hB with ⟨hne', rfl⟩ | ⟨he', rfl⟩
  · exact h _ ha0 _ hb0 hab
  · rw [hf] at hab; exact absurd (hab.trans he') hne
  · rw [hf] at hab; exact absurd (hab.symm.trans he) hne'
  · rw [h _ ha0 _ hb0 (he.trans he'.symm)]

theorem Inv.idinj {s : Sys} (hI : Inv s) :
    ∀ a ∈ s.q.peers, ∀ b ∈ s.q.peers, a.id = b.id → a = b := idinj_of_nodup hI.nodup

end GS.TQ
