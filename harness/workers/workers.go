// Package workers drives the real taskqueue.WorkerTaskQueue of go-graphsync (component "workers",
// property C21): NewTaskQueue + Startup(W, executor) with a harness Executor that records
// concurrency and blocks every execution until the script releases it.
//
// After every operation the harness lets the queue come to rest ("settle"), so that the outcome
// is a function of the script: which executions have started, how many run, Stats().  The Lean
// model (GS.TQ.Sys, driver GS.Driver.Workers) is run on the same script with the same discipline
// and the lines are diffed.  The oracle (written from the property text, independent of the
// model) watches the real queue:
//
//	over-global           more ExecuteTask invocations at once than W
//	over-peer             more traversals for one peer at once than the per-peer maximum
//	double-exec           a task executed twice
//	lost-task             a queued, non-cancelled task that never ran although arrivals stopped
//	                      and every running execution was completed (drain)
//	starvation-busy-peer  a queued task of an idle, eligible peer overtaken again and again by
//	                      later arrivals of other peers, every time by a peer that had MORE
//	                      pending tasks (the comparator tie-break of go-peertaskqueue)
//	starvation-tie-break  the same, but the winners had at least as many pending tasks and some pops
//	                      were decided by the heap's tie-break between equal peers
//	starvation            the same, but at least once the winner had FEWER pending tasks, or already had
//	                      a traversal running (more active work than the idle victim)
//	settle-timeout        the queue did not come to rest
package workers

import (
	"bufio"
	"bytes"
	"context"
	"fmt"
	"math/bits"
	"math/rand"
	"sort"
	"strconv"
	"strings"
	"sync"
	"time"

	"github.com/ipfs/go-peertaskqueue"
	"github.com/ipfs/go-peertaskqueue/peertask"
	"github.com/libp2p/go-libp2p/core/peer"

	"github.com/ipfs/go-graphsync/taskqueue"

	"verifharness/reg"
)

func init() {
	reg.Register(&reg.Component{Name: "workers", Gen: Gen, Run: Run})
}

const tick = 100 * time.Millisecond // taskqueue.thawSpeed
const slack = 200 * time.Millisecond
const overtakeLimit = 8

// ---------------------------------------------------------------- generator

func genCase(r *rand.Rand, w *bufio.Writer, id string) {
	W := []int{1, 1, 2, 2, 3, 4}[r.Intn(6)]
	cp := []int{0, 0, 0, 1, 1, 2}[r.Intn(6)]
	fmt.Fprintf(w, "case %s\ncfg %d %d\n", id, W, cp)
	npeers := 1 + r.Intn(4)
	nops := 4 + r.Intn(22)
	cancelPeer := r.Intn(npeers) // only one peer is ever frozen (ThawRound ranges over a map)
	ncancel := 0
	next := make([]int, npeers)
	for i := 0; i < nops; i++ {
		p := r.Intn(npeers)
		k := r.Intn(100)
		switch {
		case k < 55:
			topic := p*100 + next[p]
			if next[p] > 0 && r.Intn(10) == 0 {
				topic = p*100 + r.Intn(next[p]) // re-push of an old topic (merged / dropped / new)
			} else {
				next[p]++
			}
			prio := []int{0, 0, 1, 3, 2147483647}[r.Intn(5)]
			fmt.Fprintf(w, "push %d %d %d\n", p, topic, prio)
		case k < 92:
			fmt.Fprintf(w, "finish %d\n", r.Intn(4))
		default:
			if ncancel < 3 && next[cancelPeer] > 0 {
				ncancel++
				fmt.Fprintf(w, "cancel %d %d\n", cancelPeer, cancelPeer*100+r.Intn(next[cancelPeer]))
			} else {
				fmt.Fprintf(w, "finish %d\n", r.Intn(4))
			}
		}
	}
	fmt.Fprintf(w, "drain\n")
}

// busy-peer pattern: peer 0 keeps a backlog, the other peers have single tasks
func genBusy(r *rand.Rand, w *bufio.Writer, id string) {
	W := 1 + r.Intn(2)
	fmt.Fprintf(w, "case %s\ncfg %d 0\n", id, W)
	n := 0
	for b := 0; b < W; b++ {
		for j := 0; j < 3; j++ {
			fmt.Fprintf(w, "push %d %d 1\n", b, b*100+n)
			n++
		}
	}
	fmt.Fprintf(w, "push 7 700 1\n")
	rounds := 3 + r.Intn(4)
	for i := 0; i < rounds; i++ {
		for b := 0; b < W; b++ {
			fmt.Fprintf(w, "finish %d\npush %d %d 1\n", b, b, b*100+n)
			n++
		}
	}
	fmt.Fprintf(w, "drain\n")
}

func Gen(seed int64, n int, tier string, w *bufio.Writer) {
	r := rand.New(rand.NewSource(seed))
	for i := 0; i < n; i++ {
		if i%10 == 9 {
			genBusy(r, w, fmt.Sprintf("b%d", i))
		} else {
			genCase(r, w, fmt.Sprintf("r%d", i))
		}
	}
}

// ---------------------------------------------------------------- executor + bookkeeping

func pid(i int) peer.ID { return peer.ID(fmt.Sprintf("peer%d", i)) }

func pnum(p peer.ID) int {
	v, _ := strconv.Atoi(strings.TrimPrefix(string(p), "peer"))
	return v
}

type execRec struct {
	peer, topic, uid int
	release          chan struct{}
	returned         chan struct{}
}

// obligation: a pushed task the property says must eventually run
type oblig struct {
	peer, topic, seq int
	started          bool
	overtakes        int
	sawTie, sawLess  bool // some overtaking peer had as many / fewer pending tasks
	reported         bool
}

type hx struct {
	lines []string // output lines of the case (guarded by mu)
	fails []string

	W, cap int
	tq     *taskqueue.WorkerTaskQueue
	cancel context.CancelFunc

	mu          sync.Mutex
	inExec      int         // ExecuteTask entered, not returned
	inTrav      map[int]int // per peer: ExecuteTask entered, TaskDone not yet called
	running     []*execRec  // entered, not released
	startedLog  []*execRec
	executed    map[int]int // uid -> times executed
	queued      map[int]map[int]*oblig
	pushSeq     int
	cancelled   map[int]bool // peers that were ever sent a cancel (may be frozen)
	thawDebt    int
	failedOnce  map[string]bool
	maxConc     int
	maxPeerConc int
}

func (h *hx) fail(class, format string, a ...interface{}) {
	if h.failedOnce[class] {
		return
	}
	h.failedOnce[class] = true
	h.fails = append(h.fails, fmt.Sprintf("FAIL class=%s %s", class, fmt.Sprintf(format, a...)))
}

func (h *hx) ExecuteTask(ctx context.Context, p peer.ID, task *peertask.Task) bool {
	pi := pnum(p)
	rec := &execRec{peer: pi, topic: task.Topic.(int), uid: task.Data.(int), release: make(chan struct{}), returned: make(chan struct{})}
	h.mu.Lock()
	h.inExec++
	h.inTrav[pi]++
	if h.inExec > h.maxConc {
		h.maxConc = h.inExec
	}
	if h.inTrav[pi] > h.maxPeerConc {
		h.maxPeerConc = h.inTrav[pi]
	}
	if h.inExec > h.W {
		h.fail("over-global", "%d ExecuteTask invocations at once, configured maximum %d", h.inExec, h.W)
	}
	if h.cap > 0 && h.inTrav[pi] > h.cap {
		h.fail("over-peer", "%d traversals for peer %d at once, per-peer maximum %d", h.inTrav[pi], pi, h.cap)
	}
	h.executed[rec.uid]++
	if h.executed[rec.uid] > 1 {
		h.fail("double-exec", "task uid=%d (peer %d topic %d) executed %d times", rec.uid, pi, rec.topic, h.executed[rec.uid])
	}
	// starvation watchdog, evaluated at every start
	pendBefore := func(q int) int { return len(h.queued[q]) }
	var me *oblig
	if m := h.queued[pi]; m != nil {
		me = m[rec.topic]
	}
	mySeq := -1
	if me != nil {
		mySeq = me.seq
	}
	for q, m := range h.queued {
		if q == pi {
			continue
		}
		for _, x := range m {
			if x.started || mySeq < x.seq || h.inTrav[q] > 0 || h.cancelled[q] {
				continue
			}
			x.overtakes++
			if pendBefore(pi) == pendBefore(q) {
				x.sawTie = true
			} else if pendBefore(pi) < pendBefore(q) {
				x.sawLess = true
			}
			if h.inTrav[pi] > 1 {
				// the winner already had a traversal running while the victim's peer had none: the
				// comparator's first criterion (least active work) was not honoured
				x.sawLess = true
			}
			if x.overtakes >= overtakeLimit && !x.reported {
				x.reported = true
				switch {
				case x.sawLess:
					h.fail("starvation", "task peer=%d topic=%d still queued after %d later arrivals of other peers were started while its peer had nothing running; at least once the winner had fewer pending tasks", x.peer, x.topic, x.overtakes)
				case x.sawTie:
					h.fail("starvation-tie-break", "task peer=%d topic=%d still queued after %d later arrivals of other peers were started while its peer had nothing running; every one of those pops was won by a peer with at least as many pending tasks, some by the heap tie-break between equals (workers=%d)", x.peer, x.topic, x.overtakes, h.W)
				default:
					h.fail("starvation-busy-peer", "task peer=%d topic=%d still queued after %d later arrivals of other peers were started while its peer had nothing running; every one of those pops was won by a peer with more pending tasks (workers=%d)", x.peer, x.topic, x.overtakes, h.W)
				}
			}
		}
	}
	if me != nil {
		me.started = true
		delete(h.queued[pi], rec.topic)
	}
	h.running = append(h.running, rec)
	h.startedLog = append(h.startedLog, rec)
	h.mu.Unlock()

	defer func() {
		h.mu.Lock()
		h.inExec--
		h.mu.Unlock()
		close(rec.returned)
	}()
	select {
	case <-rec.release:
	case <-ctx.Done():
		return true
	}
	// like both graphsync executors: report the task done (through the manager), then return
	h.mu.Lock()
	h.inTrav[pi]--
	h.mu.Unlock()
	h.tq.TaskDone(p, task)
	return false
}

type snap struct {
	started, inExec        int
	peers, active, pending uint64
}

func (h *hx) snapshot() snap {
	st := h.tq.Stats()
	h.mu.Lock()
	defer h.mu.Unlock()
	return snap{len(h.startedLog), h.inExec, st.TotalPeers, st.Active, st.Pending}
}

// settle waits until the queue is at rest, judged from observables only.
func (h *hx) settle() {
	start := time.Now()
	last := h.snapshot()
	lastChange := time.Now()
	for {
		s := h.snapshot()
		if s != last {
			last, lastChange = s, time.Now()
		}
		h.mu.Lock()
		trav, peersActive, eligible := 0, 0, false
		for _, n := range h.inTrav {
			trav += n
			if n > 0 {
				peersActive++
			}
		}
		for q, m := range h.queued {
			if len(m) > 0 && (h.cap == 0 || h.inTrav[q] < h.cap) {
				eligible = true
			}
		}
		debt := h.thawDebt
		h.mu.Unlock()
		idle := h.W - s.inExec
		var need time.Duration
		if int(s.active) != trav {
			need = slack // a popped task has not reached ExecuteTask yet
		} else if idle > 0 && debt > 0 {
			need = time.Duration(bits.Len(uint(debt))+1)*tick + slack
		} else if idle > 0 && eligible {
			need = 2*tick + slack // a start is due (signal, or the next tick)
		} else if idle > 0 && s.pending == 0 && int(s.peers) > peersActive {
			need = 2*tick + slack // idle trackers are reaped by the ticks, one per tick
		}
		if need == 0 {
			return
		}
		if time.Since(lastChange) >= need {
			if idle > 0 && debt > 0 {
				h.mu.Lock()
				h.thawDebt = 0
				h.mu.Unlock()
				continue
			}
			return // nothing happens any more (a lost wake-up shows up as a missing start)
		}
		if time.Since(start) > 20*time.Second {
			h.mu.Lock()
			h.fail("settle-timeout", "queue did not come to rest within 20s")
			h.mu.Unlock()
			return
		}
		time.Sleep(500 * time.Microsecond)
	}
}

func (h *hx) line(from int, cuts ...int) {
	st := h.tq.Stats()
	h.mu.Lock()
	defer h.mu.Unlock()
	// started since `from`; every settle group (delimited by `cuts`) sorted by (peer, topic)
	var parts []string
	bounds := append(append([]int{from}, cuts...), len(h.startedLog))
	for b := 0; b+1 < len(bounds); b++ {
		lo, hi := bounds[b], bounds[b+1]
		if lo < from {
			lo = from
		}
		if hi <= lo {
			continue
		}
		grp := append([]*execRec{}, h.startedLog[lo:hi]...)
		sort.Slice(grp, func(i, j int) bool {
			if grp[i].peer != grp[j].peer {
				return grp[i].peer < grp[j].peer
			}
			return grp[i].topic < grp[j].topic
		})
		for _, e := range grp {
			parts = append(parts, fmt.Sprintf("%d:%d", e.peer, e.topic))
		}
	}
	h.lines = append(h.lines, fmt.Sprintf("started=%s run=%d st=%d/%d/%d", strings.Join(parts, ";"), h.inExec, st.TotalPeers, st.Active, st.Pending))
}

// finishOne releases the j-th running execution in (peer, topic) order; returns false if none runs
func (h *hx) finishOne(j int) bool {
	h.mu.Lock()
	if len(h.running) == 0 {
		h.mu.Unlock()
		return false
	}
	sort.Slice(h.running, func(a, b int) bool {
		if h.running[a].peer != h.running[b].peer {
			return h.running[a].peer < h.running[b].peer
		}
		if h.running[a].topic != h.running[b].topic {
			return h.running[a].topic < h.running[b].topic
		}
		return h.running[a].uid < h.running[b].uid
	})
	k := j % len(h.running)
	rec := h.running[k]
	h.running = append(h.running[:k], h.running[k+1:]...)
	h.mu.Unlock()
	close(rec.release)
	select {
	case <-rec.returned:
	case <-time.After(10 * time.Second):
		h.mu.Lock()
		h.fail("settle-timeout", "ExecuteTask did not return after release")
		h.mu.Unlock()
	}
	h.settle()
	return true
}

func runCase(c reg.Case, buf *bytes.Buffer, o *reg.Out, covMu *sync.Mutex) {
	h := &hx{failedOnce: map[string]bool{}}
	cov := map[string]int{}
	bad := func() {
		h.mu.Lock()
		h.lines = append(h.lines, "bad-op")
		h.mu.Unlock()
	}
	defer func() {
		covMu.Lock()
		for k, v := range cov {
			o.CovN(k, v)
		}
		covMu.Unlock()
		h.mu.Lock()
		fmt.Fprintln(buf, c.Header)
		for _, l := range h.lines {
			fmt.Fprintln(buf, l)
		}
		for _, f := range h.fails {
			fmt.Fprintf(buf, "#oracle case=%s %s\n", c.ID, f)
		}
		h.mu.Unlock()
	}()
	shutdown := func() {
		if h.tq != nil {
			h.mu.Lock()
			rs := h.running
			h.running = nil
			h.mu.Unlock()
			h.cancel()
			for _, r := range rs {
				<-r.returned
			}
			h.tq.Shutdown()
			h.tq = nil
		}
	}
	defer shutdown()
	nextUID := 0
	for _, op := range c.Ops {
		cov["op."+op[0]]++
		atoi := func(i int) int {
			if i >= len(op) {
				return 0
			}
			v, _ := strconv.Atoi(op[i])
			return v
		}
		if op[0] == "cfg" && len(op) == 3 {
			shutdown()
			h.W, h.cap = atoi(1), atoi(2)
			h.inExec, h.inTrav, h.running, h.startedLog = 0, map[int]int{}, nil, nil
			h.executed, h.queued, h.cancelled = map[int]int{}, map[int]map[int]*oblig{}, map[int]bool{}
			h.failedOnce = map[string]bool{}
			h.thawDebt, h.pushSeq, nextUID = 0, 0, 0
			var opts []peertaskqueue.Option
			if h.cap > 0 { // impl/graphsync.go New: MaxInProgressIncomingRequestsPerPeer
				opts = append(opts, peertaskqueue.MaxOutstandingWorkPerPeer(h.cap))
			}
			ctx, cancel := context.WithCancel(context.Background())
			h.cancel = cancel
			h.tq = taskqueue.NewTaskQueue(ctx, opts...)
			h.tq.Startup(uint64(h.W), h)
			h.settle()
			h.line(0)
			cov[fmt.Sprintf("cfg.W%d.cap%d", h.W, h.cap)]++
			continue
		}
		if h.tq == nil {
			bad()
			continue
		}
		h.mu.Lock()
		from := len(h.startedLog)
		h.mu.Unlock()
		switch op[0] {
		case "push":
			if len(op) != 4 {
				bad()
				continue
			}
			p, topic, prio := atoi(1), atoi(2), atoi(3)
			h.mu.Lock()
			if h.queued[p] == nil {
				h.queued[p] = map[int]*oblig{}
			}
			dup := h.queued[p][topic] != nil
			for _, r := range h.startedLog {
				if r.peer == p && r.topic == topic {
					select {
					case <-r.returned:
					default:
						dup = true // that topic is executing: the library drops the push
					}
				}
			}
			if !dup {
				h.queued[p][topic] = &oblig{peer: p, topic: topic, seq: h.pushSeq}
				cov["push.new"]++
			} else {
				cov["push.dup"]++
			}
			h.pushSeq++
			h.mu.Unlock()
			h.tq.PushTask(pid(p), peertask.Task{Topic: topic, Priority: prio, Work: 1, Data: nextUID})
			nextUID++
			h.settle()
		case "cancel":
			if len(op) != 3 {
				bad()
				continue
			}
			p, topic := atoi(1), atoi(2)
			h.mu.Lock()
			if h.queued[p] != nil && h.queued[p][topic] != nil {
				delete(h.queued[p], topic)
				cov["cancel.queued"]++
			} else {
				cov["cancel.noop"]++
			}
			h.cancelled[p] = true
			h.thawDebt++
			h.mu.Unlock()
			h.tq.Remove(topic, pid(p))
			h.settle()
		case "finish":
			if len(op) != 2 {
				bad()
				continue
			}
			if !h.finishOne(atoi(1)) {
				cov["finish.none"]++
			}
		case "drain":
			var cuts []int
			for i := 0; i < 10000 && h.finishOne(0); i++ {
				h.mu.Lock()
				cuts = append(cuts, len(h.startedLog))
				h.mu.Unlock()
			}
			// arrivals have stopped and every execution was completed: nothing may be left
			h.mu.Lock()
			for _, m := range h.queued {
				for _, x := range m {
					if !x.started {
						h.fail("lost-task", "task peer=%d topic=%d was queued, never cancelled, and never ran although every other execution completed", x.peer, x.topic)
					}
				}
			}
			h.mu.Unlock()
			h.line(from, cuts...)
			continue
		default:
			bad()
			continue
		}
		h.line(from)
	}
	h.mu.Lock()
	cov[fmt.Sprintf("maxconc.%d", h.maxConc)]++
	cov[fmt.Sprintf("maxpeerconc.%d", h.maxPeerConc)]++
	h.mu.Unlock()
}

func Run(cases []reg.Case, out *reg.Out) {
	bufs := make([]bytes.Buffer, len(cases))
	var covMu sync.Mutex
	sem := make(chan struct{}, 6)
	var wg sync.WaitGroup
	for i := range cases {
		wg.Add(1)
		sem <- struct{}{}
		go func(i int) {
			defer wg.Done()
			defer func() { <-sem }()
			runCase(cases[i], &bufs[i], out, &covMu)
		}(i)
	}
	wg.Wait()
	for i := range bufs {
		out.W.Write(bufs[i].Bytes())
	}
}
