import GS.Model.Requestor
import GS.Driver.LoaderCodec
/-! line-protocol driver for the requestor model (component `requestor`).

ops:  lt <n> block:parent:path:vData:vSkip … | remote … | note … | put <cid>… | req <userskip> |
      msg <peer> <r|x> <status> <items|-> <blocks|->
-/
namespace GS.Driver.Requestor
open GS.Proto GS.Loader GS.Requestor GS.Driver.LoaderCodec

structure D where
  s : Requestor.State := {}
  lt : Option LT := none
  started : Bool := false

def parseNode (depths : List Nat) (t : String) : Option (LNode × Nat) :=
  match t.splitOn ":" with
  | [b, par, p, vd, vs] => do
    let b ← b.toNat?
    let p ← parsePath p
    let vd ← vd.toNat?
    let vs ← vs.toNat?
    let depth ← if par == "-1" then some 0 else do
      let pi ← par.toNat?
      let d ← depths[pi]?
      pure (d + 1)
    pure (⟨b, p, depth, vd, vs⟩, depth)
  | _ => none

def parseLT (toks : List String) : Option LT :=
  let rec go (ts : List String) (depths : List Nat) (acc : LT) : Option LT :=
    match ts with
    | [] => some acc.reverse
    | t :: rest =>
      match parseNode depths t with
      | some (n, d) => go rest (depths ++ [d]) (n :: acc)
      | none => none
  go toks [] []

def showErr : RErr → String
  | .load (.missing c p) => s!"missing:{c}:{showPath p}"
  | .load (.incorrect a b p) => s!"incorrect:{a}:{b}:{showPath p}"
  | .load .extraData => "extra"
  | .load _ => "other"
  | .status c => s!"status:{c}"
  | .other => "other"

def listOr (xs : List String) : String := if xs.isEmpty then "-" else joinWith "," xs

def render (evs : List Ev) (closed : Bool) : String :=
  let sent := evs.filterMap fun | .sentNew k => some s!"new:{k}" | .sentCancel => some "cancel" | _ => none
  let prog := (evs.filterMap fun | .prog n => some n | _ => none).foldl (· + ·) 0
  let errs := evs.filterMap fun | .err e => some (showErr e) | _ => none
  let ws := evs.filterMap fun | .write c b => some s!"{c}={b}" | _ => none
  let bs := evs.filterMap fun
    | .block c _ l i => some s!"{c}{if l then "l" else "r"}{i}"
    | _ => none
  s!"sent={listOr sent} prog={prog} blk={listOr bs} errs={listOr errs} w={listOr ws} closed={if closed then 1 else 0}"

def parseNats (s : String) : Option (List Nat) :=
  if s == "-" then some [] else (s.splitOn ",").mapM String.toNat?

def stepLine (d : D) (t : Toks) : D × String :=
  match t with
  | "lt" :: _ :: nodes => ({ d with lt := parseLT nodes }, "-")
  | "remote" :: _ | "note" :: _ => (d, "-")
  | "put" :: cs =>
    match cs.mapM String.toNat? with
    | some l =>
      if l.isEmpty || d.started then (d, "bad-op")
      else ({ d with s := { d.s with L := (Loader.runOps d.s.L (l.map Op.put)).1 } }, "ok")
    | none => (d, "bad-op")
  | ["req", us] =>
    match us.toNat?, d.lt, d.started with
    | some us, some lt, false =>
      let (s', evs) := request d.s lt us
      ({ d with s := s', started := true }, render evs (s'.phase == .finished))
    | _, _, _ => (d, "bad-op")
  | ["msg", p, ref, st, is, bs] =>
    match p.toNat?, st.toNat?, parseItems is, parseNats bs with
    | some p, some st, some md, some bl =>
      if !d.started || (ref != "r" && ref != "x") || p > 3 then (d, "bad-op")
      else
        let (s', evs) := message d.s (p == 0) (ref == "r") st md (bl.map fun k => (k, k))
        ({ d with s := s' }, render evs (s'.phase == .finished))
    | _, _, _, _ => (d, "bad-op")
  | _ => (d, "bad-op")

def handler (ops : List Toks) : List String :=
  let (_, outs) := ops.foldl (fun (acc : D × List String) t =>
    let (d', o) := stepLine acc.1 t
    (d', o :: acc.2)) ({}, [])
  outs.reverse

end GS.Driver.Requestor

def main : IO Unit := GS.Proto.runModel GS.Driver.Requestor.handler
