import GS.Model.Requestor
import GSProofs.Lemmas.LoaderInv
import GSProofs.Lemmas.LoaderFrame
import GSProofs.Lemmas.LoaderKahn
import GSProofs.Lemmas.LoaderSched
/-!
Completeness of the reconciled loader against an honest responder stream, for a requestor that
starts the remote request at the root (no locally loaded prefix): the load results are exactly the
reference traversal `refTrav`.
-/
namespace GS.Loader
open GS.Requestor (LNode LT)

/-- the local store holds block `c` -/
def holds (st : List (Cid × Blk)) (c : Cid) : Bool := (storeGet st c).isSome

/-- `u` is a proper prefix of `p` -/
def below (u p : Path) : Bool := u.isPrefixOf p && decide (u.length < p.length)

/-- skip the subtree of `n` in a pre-order list -/
def skipSub (n : LNode) (rest : LT) : LT := rest.dropWhile (fun m => m.depth > n.depth)

/-- the descendants of `n` at the front of `rest` -/
def subOf (n : LNode) (rest : LT) : LT := rest.takeWhile (fun m => m.depth > n.depth)

theorem sub_skip (n : LNode) (rest : LT) : subOf n rest ++ skipSub n rest = rest :=
  List.takeWhile_append_dropWhile

theorem skipSub_length (n : LNode) (rest : LT) : (skipSub n rest).length ≤ rest.length := by
  unfold skipSub
  exact List.Sublist.length_le (List.dropWhile_sublist _)

/-- the honest responder's metadata for the cursor `lt` (its own traversal over the store `rem`),
    with a block attached to the first present occurrence of a cid not in `seen`
    (= `Responder.respondSpec` with skip 0, see `respItems_spec`) -/
def respItems (rem : Cid → Bool) : LT → List Cid → List Item
  | [], _ => []
  | n :: rest, seen =>
    if rem n.cid then
      ⟨n.cid, .present, if seen.contains n.cid then none else some n.cid⟩ :: respItems rem rest (n.cid :: seen)
    else
      ⟨n.cid, .missing, none⟩ :: respItems rem (skipSub n rest) seen
termination_by lt => lt.length
decreasing_by
  · simp
  · have := skipSub_length n rest; simp; omega

/-- the `dead` marker (depth of an ancestor the responder did not follow) after looking at the depth
    of `n`: it lapses when the traversal has left that ancestor's subtree -/
def dead1 (dead : Option Nat) (n : LNode) : Option Nat :=
  match dead with
  | some d => if n.depth ≤ d then none else some d
  | none => none

/-- **reference traversal**: depth-first over the pre-order link tree; a link is available if the
    requestor's store (which grows by what it fetched) holds its block, or the responder holds it and
    has itself followed every ancestor link (`dead = some d`: an ancestor at depth `d` was not
    followed by the responder, so the responder never gets here).  An unavailable link is reported
    missing and its subtree skipped.  Returns (node, delivered?) in order and the final store. -/
def refTrav (rem : Cid → Bool) : LT → List (Cid × Blk) → Option Nat → List (LNode × Bool) × List (Cid × Blk)
  | [], st, _ => ([], st)
  | n :: rest, st, dead =>
    if holds st n.cid then
      let r := refTrav rem rest st (if (dead1 dead n).isNone && !rem n.cid then some n.depth else dead1 dead n)
      ((n, true) :: r.1, r.2)
    else if (dead1 dead n).isNone && rem n.cid then
      let r := refTrav rem rest ((n.cid, n.cid) :: st) (dead1 dead n)
      ((n, true) :: r.1, r.2)
    else
      let r := refTrav rem (skipSub n rest) st (dead1 dead n)
      ((n, false) :: r.1, r.2)
termination_by lt => lt.length
decreasing_by
  all_goals first
    | (simp; done)
    | (have := skipSub_length n rest; simp; omega)

/-- the loads of a traversal over the loader: descend on data, skip the subtree on a missing-block
    error, stop on anything else (or if the load parks) -/
def walk (s : State) : LT → List (LNode × Bool) × State
  | [] => ([], s)
  | n :: rest =>
    match load s n.path n.cid with
    | (s1, .done r) =>
      match r.err with
      | none => let w := walk s1 rest; ((n, true) :: w.1, w.2)
      | some (.missing _ _) => let w := walk s1 (skipSub n rest); ((n, false) :: w.1, w.2)
      | some _ => ([], s1)
    | (s1, .blocked) => ([], s1)
termination_by lt => lt.length
decreasing_by
  all_goals first
    | (simp; done)
    | (have := skipSub_length n rest; simp; omega)


/-! ### what a load does in the states of the synchronised traversal -/

/-- the fields of the loader state the traversal's future depends on -/
structure Obs where
  store : List (Cid × Blk)
  unfollowed : Path
  q : List Item
  isOpen : Bool
  ver : Option Ver
  pending : Option (Path × Cid)
deriving DecidableEq

def obs (s : State) : Obs := ⟨s.store, s.unfollowed, s.rq.q, s.isOpen, s.ver, s.pending⟩

theorem prologue_obs (s : State) : obs (prologue s) = obs s := by
  unfold prologue obs; split <;> rfl

def clearVer (s : State) : State := { s with ver := none }

theorem run_remote_head (s : State) (p : Path) (c : Cid) (hv : s.ver = none) (it : Item) (q' : List Item)
    (hq : s.rq.q = it :: q') : run s p c = post p c (clearVer s, .remote) := by
  rw [run_eq_post]
  simp [waitRemote, hq, State.verifierDone, hv, clearVer]

theorem clearVer_obs (s : State) (hv : s.ver = none) : obs (clearVer s) = obs s := by
  simp [obs, clearVer, hv]

theorem post_gap (p : Path) (c : Cid) (s1 : State) (h : stillOnUnfollowed s1 p = (s1, true)) :
    post p c (s1, .remote) =
      ({ s1 with mra := some ⟨c, p, (loadLocal s1 p c).err.isNone, true⟩, pending := none },
       .done (loadLocal s1 p c)) := by
  simp [post, h]

theorem post_head_block (p : Path) (c : Cid) (s1 s2 : State) (it : Item) (q' : List Item) (b : Blk)
    (h : stillOnUnfollowed s1 p = (s2, false)) (hq : s2.rq.q = it :: q') (hl : it.link = c)
    (hb : it.block = some b) :
    post p c (s1, .remote) =
      ({ recordRemoteAttempt { s2 with rq := s2.rq.consume } p it.action with
           store := (c, b) :: (recordRemoteAttempt { s2 with rq := s2.rq.consume } p it.action).store,
           mra := some ⟨c, p, true, true⟩, pending := none },
       .done { data := some b, err := none, loc := false, write := some (c, b) }) := by
  simp [post, h, hq, hl, hb]

theorem post_head_noblock (p : Path) (c : Cid) (s1 s2 : State) (it : Item) (q' : List Item)
    (h : stillOnUnfollowed s1 p = (s2, false)) (hq : s2.rq.q = it :: q') (hl : it.link = c)
    (hb : it.block = none) :
    post p c (s1, .remote) =
      ({ recordRemoteAttempt { s2 with rq := s2.rq.consume } p it.action with
           mra := some ⟨c, p, (loadLocal (recordRemoteAttempt { s2 with rq := s2.rq.consume } p it.action) p c).err.isNone, true⟩,
           pending := none },
       .done (loadLocal (recordRemoteAttempt { s2 with rq := s2.rq.consume } p it.action) p c)) := by
  simp [post, h, hq, hl, hb]

theorem run_closed_empty (s : State) (p : Path) (c : Cid) (hq : s.rq.q = []) (hc : s.isOpen = false) :
    run s p c = post p c (s, .offline) := by
  rw [run_eq_post]
  simp [waitRemote, hq, hc]

theorem stillOn_false (s : State) (p : Path) (h : s.unfollowed = [] ∨ below s.unfollowed p = false) :
    (stillOnUnfollowed s p).2 = false ∧ obs (stillOnUnfollowed s p).1 = { obs s with unfollowed := [] } := by
  unfold stillOnUnfollowed
  rcases h with h | h
  · simp [h, obs]
  · by_cases hu : s.unfollowed.length = 0
    · have : s.unfollowed = [] := List.length_eq_zero_iff.mp hu
      simp [this, obs]
    · have hb : (p.length ≤ s.unfollowed.length || !(s.unfollowed.isPrefixOf p)) = true := by
        unfold below at h
        cases hp : s.unfollowed.isPrefixOf p with
        | false => simp
        | true =>
          rw [hp] at h
          simp at h
          simp; omega
      simp [hu, hb, obs]

theorem stillOn_true (s : State) (p : Path) (hne : s.unfollowed ≠ []) (h : below s.unfollowed p = true) :
    stillOnUnfollowed s p = (s, true) := by
  unfold stillOnUnfollowed
  have hu : ¬ (s.unfollowed.length = 0) := fun h0 => hne (List.length_eq_zero_iff.mp h0)
  unfold below at h
  simp only [Bool.and_eq_true, decide_eq_true_eq] at h
  have hb : (p.length ≤ s.unfollowed.length || !(s.unfollowed.isPrefixOf p)) = false := by
    simp [h.1]; omega
  simp [hu, hb]

/-- answers of a load, as the traversal sees them -/
inductive Ans where
  | data | miss
deriving DecidableEq

/-- the load of `c` at `p` is answered `a` and leaves the loader in a state with observables `o` -/
def LoadsTo (s : State) (p : Path) (c : Cid) (a : Ans) (o : Obs) : Prop :=
  ∃ s' r, load s p c = (s', .done r) ∧ obs s' = o ∧
    (match a with
     | .data => r.err = none
     | .miss => ∃ c' p', r.err = some (.missing c' p'))

/-- local answer: from the store or a missing-block error -/
def localAns (st : List (Cid × Blk)) (c : Cid) : Ans := if holds st c then .data else .miss

theorem loadLocal_ans (s : State) (p : Path) (c : Cid) :
    match localAns s.store c with
    | .data => (loadLocal s p c).err = none
    | .miss => ∃ c' p', (loadLocal s p c).err = some (.missing c' p') := by
  unfold localAns holds loadLocal
  cases storeGet s.store c <;> simp

/-- (1) queue exhausted and the response closed: the local store answers -/
theorem load_offline_ans (s : State) (p : Path) (c : Cid) (hq : s.rq.q = []) (hc : s.isOpen = false)
    (hp : s.pending = none) : LoadsTo s p c (localAns s.store c) (obs s) := by
  have ho := prologue_obs s
  have hq' : (prologue s).rq.q = [] := by rw [(prologue_frame s).2.1]; exact hq
  have hc' : (prologue s).isOpen = false := by rw [(prologue_frame s).1]; exact hc
  refine ⟨_, _, by rw [load_eq, run_closed_empty _ p c hq' hc']; rfl, ?_, ?_⟩
  · rw [← ho]; simp only [obs] at ho ⊢; simp [(prologue_frame s).2.2, hp]
  · have := loadLocal_ans (prologue s) p c
    have hst : (prologue s).store = s.store := by have := congrArg Obs.store ho; simpa [obs] using this
    rw [hst] at this
    cases hl : localAns s.store c <;> rw [hl] at this <;> simpa using this


theorem ans_of_local (s s' : State) (p : Path) (c : Cid) (hst : s'.store = s.store) :
    match localAns s.store c with
    | .data => (loadLocal s' p c).err = none
    | .miss => ∃ c' p', (loadLocal s' p c).err = some (.missing c' p') := by
  have := loadLocal_ans s' p c
  rw [hst] at this
  exact this

/-- (2) inside a subtree the responder did not follow, remote items still queued: local answer,
    nothing consumed -/
theorem load_gap_ans (s : State) (p : Path) (c : Cid) (hv : s.ver = none) (it : Item) (q' : List Item)
    (hq : s.rq.q = it :: q') (hne : s.unfollowed ≠ []) (hb : below s.unfollowed p = true)
    (hp : s.pending = none) : LoadsTo s p c (localAns s.store c) (obs s) := by
  have ho := prologue_obs s
  simp only [obs, Obs.mk.injEq] at ho
  obtain ⟨hst, hun, hqq, hop, hvv, hpp⟩ := ho
  have hrun := run_remote_head (prologue s) p c (by rw [hvv]; exact hv) it q' (by rw [hqq]; exact hq)
  have hso := stillOn_true (clearVer (prologue s)) p (by simpa [clearVer, hun] using hne)
    (by simpa [clearVer, hun] using hb)
  have hans := ans_of_local s (clearVer (prologue s)) p c hst
  refine ⟨_, _, by rw [load_eq, hrun]; exact post_gap p c _ hso, ?_, ?_⟩
  · simp only [obs, Obs.mk.injEq, clearVer]
    exact ⟨hst, hun, hqq, hop, hv.symm, hp.symm⟩
  · cases hl : localAns s.store c <;> rw [hl] at hans <;> simpa using hans

/-- (3)-(5) in step with the responder: the head of the queue is the responder's entry for this link -/
theorem load_head_ans (s : State) (p : Path) (c : Cid) (hv : s.ver = none) (it : Item) (q' : List Item)
    (hq : s.rq.q = it :: q') (hlink : it.link = c)
    (hstale : s.unfollowed = [] ∨ below s.unfollowed p = false) (hp : s.pending = none) :
    match it.block with
    | some b => LoadsTo s p c .data
        { obs s with store := (c, b) :: s.store, q := q',
                     unfollowed := if it.action.didFollow then [] else p }
    | none => LoadsTo s p c (localAns s.store c)
        { obs s with q := q', unfollowed := if it.action.didFollow then [] else p } := by
  have ho := prologue_obs s
  simp only [obs, Obs.mk.injEq] at ho
  obtain ⟨hst, hun, hqq, hop, hvv, hpp⟩ := ho
  have hrun := run_remote_head (prologue s) p c (by rw [hvv]; exact hv) it q' (by rw [hqq]; exact hq)
  have hso := stillOn_false (clearVer (prologue s)) p (by simpa [clearVer, hun] using hstale)
  generalize hsu : stillOnUnfollowed (clearVer (prologue s)) p = su at hso
  obtain ⟨s2, still⟩ := su
  obtain ⟨hstill, hobs2⟩ := hso
  simp only at hstill hobs2
  subst hstill
  simp only [obs, Obs.mk.injEq, clearVer] at hobs2
  obtain ⟨h2st, h2un, h2q, h2op, h2v, h2p⟩ := hobs2
  have hq2 : s2.rq.q = it :: q' := by rw [h2q]; exact hqq.trans hq
  have hun4 : (Loader.recordRemoteAttempt { s2 with rq := s2.rq.consume } p it.action).unfollowed =
      if it.action.didFollow then [] else p := by
    unfold Loader.recordRemoteAttempt
    cases it.action.didFollow <;> simp [h2un]
  have hv4 : (Loader.recordRemoteAttempt { s2 with rq := s2.rq.consume } p it.action).ver = none := by
    unfold Loader.recordRemoteAttempt; split <;> exact h2v
  have hq4 : (Loader.recordRemoteAttempt { s2 with rq := s2.rq.consume } p it.action).rq.q = q' := by
    rw [recordRemoteAttempt_rq]; simp [RQ.consume, hq2]
  have hst4 : (Loader.recordRemoteAttempt { s2 with rq := s2.rq.consume } p it.action).store = s.store := by
    rw [recordRemoteAttempt_store]; exact h2st.trans hst
  have hop4 : (Loader.recordRemoteAttempt { s2 with rq := s2.rq.consume } p it.action).isOpen = s.isOpen := by
    rw [recordRemoteAttempt_isOpen]; exact h2op.trans hop
  cases hb : it.block with
  | some b =>
    refine ⟨_, _, by rw [load_eq, hrun]; exact post_head_block p c _ s2 it q' b hsu hq2 hlink hb, ?_, rfl⟩
    simp only [obs, Obs.mk.injEq]
    exact ⟨by rw [hst4], hun4, hq4, hop4, hv4.trans hv.symm, hp.symm⟩
  | none =>
    have hans := ans_of_local s _ p c hst4
    refine ⟨_, _, by rw [load_eq, hrun]; exact post_head_noblock p c _ s2 it q' hsu hq2 hlink hb, ?_, ?_⟩
    · simp only [obs, Obs.mk.injEq]
      exact ⟨hst4, hun4, hq4, hop4, hv4.trans hv.symm, hp.symm⟩
    · cases hl : localAns s.store c <;> rw [hl] at hans <;> simpa using hans


/-! ### list facts about skipping subtrees -/

theorem dropWhile_dropWhile_imp {α : Type} (p q : α → Bool) (h : ∀ x, q x = true → p x = true) (l : List α) :
    (l.dropWhile q).dropWhile p = l.dropWhile p := by
  induction l with
  | nil => rfl
  | cons a rest ih =>
    by_cases hq : q a = true
    · simp [List.dropWhile_cons, hq, h a hq, ih]
    · simp [List.dropWhile_cons, hq]

theorem mem_takeWhile_dropWhile_imp {α : Type} (p q : α → Bool) (h : ∀ x, q x = true → p x = true)
    (l : List α) (x : α) (hx : x ∈ (l.dropWhile q).takeWhile p) : x ∈ l.takeWhile p := by
  induction l with
  | nil => simpa using hx
  | cons a rest ih =>
    by_cases hq : q a = true
    · simp only [List.dropWhile_cons, hq, if_true] at hx
      simp only [List.takeWhile_cons, h a hq, if_true, List.mem_cons]
      exact Or.inr (ih hx)
    · simp only [List.dropWhile_cons, hq] at hx
      simpa using hx

theorem mem_dropWhile {α : Type} (p : α → Bool) (l : List α) (x : α) (hx : x ∈ l.dropWhile p) : x ∈ l :=
  List.Sublist.mem hx (List.dropWhile_sublist _)

theorem mem_takeWhile {α : Type} (p : α → Bool) (l : List α) (x : α) (hx : x ∈ l.takeWhile p) : x ∈ l :=
  List.Sublist.mem hx (List.takeWhile_sublist _)

/-! ### well-formed pre-order link trees -/

/-- paths agree with the depth structure: the descendants of a node (the following nodes of greater
    depth) are exactly the following nodes whose path properly extends the node's path -/
def WF : LT → Prop
  | [] => True
  | n :: rest =>
    (∀ m ∈ subOf n rest, below n.path m.path = true) ∧
    (∀ m ∈ skipSub n rest, below n.path m.path = false) ∧ WF rest

theorem WF.dropWhile (p : LNode → Bool) : ∀ (l : LT), WF l → WF (l.dropWhile p)
  | [], _ => by simp [WF]
  | a :: rest, h => by
    by_cases hp : p a = true
    · simp only [List.dropWhile_cons, hp, if_true]; exact WF.dropWhile p rest h.2.2
    · simp only [List.dropWhile_cons, hp]; exact h

/-! ### the synchronisation invariant -/

structure Sync (rem : Cid → Bool) (o : Obs) (todo : LT) (dead : Option Nat) (seen : List Cid) : Prop where
  closed : o.isOpen = false
  nopend : o.pending = none
  ver : o.ver = none
  seenOK : ∀ c ∈ seen, holds o.store c = true
  mode : match dead with
    | none => o.q = respItems rem todo seen ∧
        (o.unfollowed = [] ∨ ∀ m ∈ todo, below o.unfollowed m.path = false)
    | some d => o.q = respItems rem (todo.dropWhile (fun m => m.depth > d)) seen ∧
        (∀ m ∈ todo.takeWhile (fun m => m.depth > d), below o.unfollowed m.path = true) ∧
        (∀ m ∈ todo.dropWhile (fun m => m.depth > d), below o.unfollowed m.path = false) ∧
        (o.unfollowed ≠ [] ∨ o.q = [])

theorem holds_cons (st : List (Cid × Blk)) (c c' : Cid) (b : Blk) (h : holds st c = true) :
    holds ((c', b) :: st) c = true := by
  unfold holds storeGet at h ⊢
  simp only [List.find?_cons]
  by_cases hc : (c' == c) = true
  · simp [hc]
  · simp only [hc]; exact h

theorem holds_cons_held (st : List (Cid × Blk)) (c0 : Cid) (h : holds st c0 = true) :
    ∀ c, holds ((c0, c0) :: st) c = holds st c := by
  intro c
  by_cases hc : c = c0
  · subst hc; simp [holds, storeGet] at h ⊢; exact h
  · unfold holds storeGet
    simp only [List.find?_cons]
    have : (c0 == c) = false := by simp; exact fun h => hc h.symm
    simp [this]

theorem holds_self (st : List (Cid × Blk)) (c : Cid) (b : Blk) : holds ((c, b) :: st) c = true := by
  simp [holds, storeGet]


/-! ### one step of `walk` / `refTrav` -/

theorem walk_data (s s' : State) (n : LNode) (rest : LT) (r : Result)
    (hl : load s n.path n.cid = (s', .done r)) (he : r.err = none) :
    walk s (n :: rest) = ((n, true) :: (walk s' rest).1, (walk s' rest).2) := by
  rw [walk, hl]; simp only [he]

theorem walk_miss (s s' : State) (n : LNode) (rest : LT) (r : Result)
    (hl : load s n.path n.cid = (s', .done r)) (he : ∃ c' p', r.err = some (.missing c' p')) :
    walk s (n :: rest) = ((n, false) :: (walk s' (skipSub n rest)).1, (walk s' (skipSub n rest)).2) := by
  obtain ⟨c', p', he⟩ := he
  rw [walk, hl]; simp only [he]

theorem refTrav_holds (rem : Cid → Bool) (n : LNode) (rest : LT) (st : List (Cid × Blk)) (dead : Option Nat)
    (h : holds st n.cid = true) :
    refTrav rem (n :: rest) st dead =
      ((n, true) :: (refTrav rem rest st
          (if (dead1 dead n).isNone && !rem n.cid then some n.depth else dead1 dead n)).1,
       (refTrav rem rest st (if (dead1 dead n).isNone && !rem n.cid then some n.depth else dead1 dead n)).2) := by
  rw [refTrav.eq_def]; simp only [h, if_true]

theorem refTrav_remote (rem : Cid → Bool) (n : LNode) (rest : LT) (st : List (Cid × Blk)) (dead : Option Nat)
    (h : holds st n.cid = false) (hr : ((dead1 dead n).isNone && rem n.cid) = true) :
    refTrav rem (n :: rest) st dead =
      ((n, true) :: (refTrav rem rest ((n.cid, n.cid) :: st) (dead1 dead n)).1,
       (refTrav rem rest ((n.cid, n.cid) :: st) (dead1 dead n)).2) := by
  rw [refTrav.eq_def]; simp only [h, Bool.false_eq_true, if_false, hr, if_true]

theorem refTrav_missing (rem : Cid → Bool) (n : LNode) (rest : LT) (st : List (Cid × Blk)) (dead : Option Nat)
    (h : holds st n.cid = false) (hr : ((dead1 dead n).isNone && rem n.cid) = false) :
    refTrav rem (n :: rest) st dead =
      ((n, false) :: (refTrav rem (skipSub n rest) st (dead1 dead n)).1,
       (refTrav rem (skipSub n rest) st (dead1 dead n)).2) := by
  rw [refTrav.eq_def]; simp only [h, Bool.false_eq_true, if_false, hr]

/-- `refTrav` looks at the store only through `holds` -/
theorem refTrav_congr (rem : Cid → Bool) : ∀ (k : Nat) (lt : LT), lt.length ≤ k →
    ∀ (st st' : List (Cid × Blk)) (dead : Option Nat), (∀ c, holds st' c = holds st c) →
    (refTrav rem lt st' dead).1 = (refTrav rem lt st dead).1 ∧
    ∀ c, holds (refTrav rem lt st' dead).2 c = holds (refTrav rem lt st dead).2 c := by
  intro k
  induction k with
  | zero =>
    intro lt hl st st' dead h
    cases lt with
    | nil => rw [refTrav.eq_def, refTrav.eq_def]; exact ⟨rfl, h⟩
    | cons n rest => simp at hl
  | succ k ih =>
    intro lt hl st st' dead h
    cases lt with
    | nil => rw [refTrav.eq_def, refTrav.eq_def]; exact ⟨rfl, h⟩
    | cons n rest =>
      simp only [List.length_cons] at hl
      cases hh : holds st n.cid with
      | true =>
        rw [refTrav_holds rem n rest st dead hh, refTrav_holds rem n rest st' dead (by rw [h]; exact hh)]
        have := ih rest (by omega) st st' (if (dead1 dead n).isNone && !rem n.cid then some n.depth else dead1 dead n) h
        exact ⟨by simp only [this.1], this.2⟩
      | false =>
        have hh' : holds st' n.cid = false := by rw [h]; exact hh
        cases hr : ((dead1 dead n).isNone && rem n.cid) with
        | true =>
          rw [refTrav_remote rem n rest st dead hh hr, refTrav_remote rem n rest st' dead hh' hr]
          have := ih rest (by omega) ((n.cid, n.cid) :: st) ((n.cid, n.cid) :: st') (dead1 dead n) (by
            intro c
            unfold holds storeGet
            simp only [List.find?_cons]
            by_cases hc : (n.cid == c) = true
            · simp [hc]
            · simp only [hc]; exact h c)
          exact ⟨by simp only [this.1], this.2⟩
        | false =>
          rw [refTrav_missing rem n rest st dead hh hr, refTrav_missing rem n rest st' dead hh' hr]
          have := ih (skipSub n rest) (by have := skipSub_length n rest; omega) st st' (dead1 dead n) h
          exact ⟨by simp only [this.1], this.2⟩


/-! ### the simulation -/

/-- closing one step: the load is answered `a`, the new observables are in sync with the rest of
    the traversal, and `refTrav` takes the corresponding step -/
theorem step_close (rem : Cid → Bool) (k : Nat)
    (ih : ∀ (todo : LT), todo.length ≤ k → ∀ (s : State) (dead : Option Nat) (seen : List Cid),
      Sync rem (obs s) todo dead seen → WF todo → (∀ m ∈ todo, m.path ≠ []) →
      (walk s todo).1 = (refTrav rem todo s.store dead).1 ∧
      ∀ c, holds (walk s todo).2.store c = holds (refTrav rem todo s.store dead).2 c)
    (s : State) (n : LNode) (rest : LT) (dead : Option Nat) (hlen : rest.length ≤ k)
    (hwf : WF (n :: rest)) (hne : ∀ m ∈ rest, m.path ≠ [])
    (a : Ans) (o' : Obs) (hload : LoadsTo s n.path n.cid a o')
    (todo' : LT) (htodo : todo' = match a with | .data => rest | .miss => skipSub n rest)
    (dead' : Option Nat) (seen' : List Cid) (hsync : Sync rem o' todo' dead' seen')
    (st' : List (Cid × Blk)) (hst : ∀ c, holds o'.store c = holds st' c)
    (href : refTrav rem (n :: rest) s.store dead =
      ((n, decide (a = .data)) :: (refTrav rem todo' st' dead').1, (refTrav rem todo' st' dead').2)) :
    (walk s (n :: rest)).1 = (refTrav rem (n :: rest) s.store dead).1 ∧
    ∀ c, holds (walk s (n :: rest)).2.store c = holds (refTrav rem (n :: rest) s.store dead).2 c := by
  obtain ⟨s', r, hl, hobs, hans⟩ := hload
  have hst' : s'.store = o'.store := by rw [← hobs]; rfl
  have hlen' : todo'.length ≤ k := by
    cases a with
    | data => simp only at htodo; rw [htodo]; exact hlen
    | miss => simp only at htodo; rw [htodo]; exact Nat.le_trans (skipSub_length n rest) hlen
  have hwf' : WF todo' := by
    cases a with
    | data => simp only at htodo; rw [htodo]; exact hwf.2.2
    | miss => simp only at htodo; rw [htodo]; exact WF.dropWhile _ rest hwf.2.2
  have hne' : ∀ m ∈ todo', m.path ≠ [] := by
    intro m hm
    cases a with
    | data => simp only at htodo; rw [htodo] at hm; exact hne m hm
    | miss =>
      simp only at htodo; rw [htodo] at hm
      exact hne m (mem_dropWhile _ _ _ hm)
  have hrec := ih todo' hlen' s' dead' seen' (by rw [hobs]; exact hsync) hwf' hne'
  have hcg := refTrav_congr rem todo'.length todo' (Nat.le_refl _) st' s'.store dead'
    (by intro c; rw [hst']; exact hst c)
  rw [href]
  cases a with
  | data =>
    simp only at htodo
    rw [htodo] at hrec hcg ⊢
    rw [walk_data s s' n rest r hl hans]
    simp only [decide_true]
    exact ⟨by rw [hrec.1, hcg.1], fun c => by rw [hrec.2 c, hcg.2 c]⟩
  | miss =>
    simp only at htodo
    rw [htodo] at hrec hcg ⊢
    rw [walk_miss s s' n rest r hl hans]
    simp only [show decide (Ans.miss = Ans.data) = false from by decide]
    exact ⟨by rw [hrec.1, hcg.1], fun c => by rw [hrec.2 c, hcg.2 c]⟩


abbrev IH (rem : Cid → Bool) (k : Nat) : Prop :=
  ∀ (todo : LT), todo.length ≤ k → ∀ (s : State) (dead : Option Nat) (seen : List Cid),
    Sync rem (obs s) todo dead seen → WF todo → (∀ m ∈ todo, m.path ≠ []) →
    (walk s todo).1 = (refTrav rem todo s.store dead).1 ∧
    ∀ c, holds (walk s todo).2.store c = holds (refTrav rem todo s.store dead).2 c

/-- the requestor is in step with the responder at `n` -/
theorem sync_case (rem : Cid → Bool) (k : Nat) (ih : IH rem k)
    (s : State) (n : LNode) (rest : LT) (dead : Option Nat) (seen : List Cid) (hlen : rest.length ≤ k)
    (hwf : WF (n :: rest)) (hne : ∀ m ∈ rest, m.path ≠ [])
    (hnp0 : n.path ≠ [] ∨ holds s.store n.cid = false)
    (hd1 : dead1 dead n = none)
    (hclosed : s.isOpen = false) (hnopend : s.pending = none) (hver : s.ver = none)
    (hseen : ∀ c ∈ seen, holds s.store c = true)
    (hq : s.rq.q = respItems rem (n :: rest) seen)
    (hstale : s.unfollowed = [] ∨ ∀ m ∈ n :: rest, below s.unfollowed m.path = false) :
    (walk s (n :: rest)).1 = (refTrav rem (n :: rest) s.store dead).1 ∧
    ∀ c, holds (walk s (n :: rest)).2.store c = holds (refTrav rem (n :: rest) s.store dead).2 c := by
  have hst1 : s.unfollowed = [] ∨ below s.unfollowed n.path = false := by
    rcases hstale with h | h
    · exact Or.inl h
    · exact Or.inr (h n (List.mem_cons_self ..))
  rw [respItems] at hq
  cases hrem : rem n.cid with
  | true =>
    simp only [hrem, if_true] at hq
    have hla := load_head_ans s n.path n.cid hver _ _ hq rfl hst1 hnopend
    by_cases hsn : seen.contains n.cid = true
    · -- the block was sent earlier in this response: present, not sent again; the store has it
      simp only [hsn, if_true] at hla
      have hh : holds s.store n.cid = true := hseen n.cid (by simpa using hsn)
      have hans : localAns s.store n.cid = .data := by simp [localAns, hh]
      rw [hans] at hla
      refine step_close rem k ih s n rest dead hlen hwf hne .data _ hla rest rfl none (n.cid :: seen)
        ⟨hclosed, hnopend, hver, ?_, ?_⟩ s.store (fun c => rfl) ?_
      · intro c hc
        simp only [List.mem_cons] at hc
        rcases hc with rfl | hc
        · exact hh
        · exact hseen c hc
      · exact ⟨rfl, Or.inl (by simp [Action.didFollow])⟩
      · rw [refTrav_holds rem n rest s.store dead hh]; simp [hd1, hrem]
    · -- first occurrence: the block travels with the entry, is written and delivered
      simp only [hsn, Bool.false_eq_true, if_false] at hla
      have hsync : Sync rem { obs s with store := (n.cid, n.cid) :: s.store, q := respItems rem rest (n.cid :: seen), unfollowed := if Action.present.didFollow then [] else n.path } rest none (n.cid :: seen) := by
        refine ⟨hclosed, hnopend, hver, ?_, ?_⟩
        · intro c hc
          simp only [List.mem_cons] at hc
          rcases hc with rfl | hc
          · exact holds_self _ _ _
          · exact holds_cons _ _ _ _ (hseen c hc)
        · exact ⟨rfl, Or.inl (by simp [Action.didFollow])⟩
      cases hh : holds s.store n.cid with
      | true =>
        exact step_close rem k ih s n rest dead hlen hwf hne .data _ hla rest rfl none (n.cid :: seen)
          hsync s.store (holds_cons_held s.store n.cid hh)
          (by rw [refTrav_holds rem n rest s.store dead hh]; simp [hd1, hrem])
      | false =>
        exact step_close rem k ih s n rest dead hlen hwf hne .data _ hla rest rfl none (n.cid :: seen)
          hsync ((n.cid, n.cid) :: s.store) (fun c => rfl)
          (by rw [refTrav_remote rem n rest s.store dead hh (by simp [hd1, hrem])]; simp [hd1])
  | false =>
    simp only [hrem, Bool.false_eq_true, if_false] at hq
    have hla := load_head_ans s n.path n.cid hver _ _ hq rfl hst1 hnopend
    simp only at hla
    cases hh : holds s.store n.cid with
    | true =>
      -- the requestor holds what the responder lacks: it descends alone
      have hnp : n.path ≠ [] := by
        rcases hnp0 with h | h
        · exact h
        · rw [hh] at h; cases h
      have hans : localAns s.store n.cid = .data := by simp [localAns, hh]
      rw [hans] at hla
      refine step_close rem k ih s n rest dead hlen hwf hne .data _ hla rest rfl (some n.depth) seen
        ⟨hclosed, hnopend, hver, hseen, ?_⟩ s.store (fun c => rfl) ?_
      · refine ⟨rfl, ?_, ?_, Or.inl (by simpa [Action.didFollow] using hnp)⟩
        · intro m hm; simpa [Action.didFollow] using hwf.1 m hm
        · intro m hm; simpa [Action.didFollow] using hwf.2.1 m hm
      · rw [refTrav_holds rem n rest s.store dead hh]; simp [hd1, hrem]
    | false =>
      have hans : localAns s.store n.cid = .miss := by simp [localAns, hh]
      rw [hans] at hla
      refine step_close rem k ih s n rest dead hlen hwf hne .miss _ hla (skipSub n rest) rfl none seen
        ⟨hclosed, hnopend, hver, hseen, ?_⟩ s.store (fun c => rfl) ?_
      · refine ⟨rfl, Or.inr ?_⟩
        intro m hm; simpa [Action.didFollow] using hwf.2.1 m hm
      · rw [refTrav_missing rem n rest s.store dead hh (by simp [hrem])]; simp [hd1]


/-- the requestor is inside a subtree the responder did not follow -/
theorem gap_case (rem : Cid → Bool) (k : Nat) (ih : IH rem k)
    (s : State) (n : LNode) (rest : LT) (d : Nat) (seen : List Cid) (hlen : rest.length ≤ k)
    (hwf : WF (n :: rest)) (hne : ∀ m ∈ rest, m.path ≠ []) (hd : n.depth > d)
    (hsync : Sync rem (obs s) (n :: rest) (some d) seen) :
    (walk s (n :: rest)).1 = (refTrav rem (n :: rest) s.store (some d)).1 ∧
    ∀ c, holds (walk s (n :: rest)).2.store c = holds (refTrav rem (n :: rest) s.store (some d)).2 c := by
  obtain ⟨hclosed, hnopend, hver, hseen, hmode⟩ := hsync
  simp only [obs] at hclosed hnopend hver hseen hmode
  obtain ⟨hq, htake, hdrop, hu⟩ := hmode
  have hpn : (decide (n.depth > d)) = true := by simpa using hd
  have hdw : (n :: rest).dropWhile (fun m => decide (m.depth > d)) = rest.dropWhile (fun m => decide (m.depth > d)) := by
    simp [List.dropWhile_cons, hd]
  have htw : (n :: rest).takeWhile (fun m => decide (m.depth > d)) = n :: rest.takeWhile (fun m => decide (m.depth > d)) := by
    simp [List.takeWhile_cons, hd]
  rw [hdw] at hq hdrop
  rw [htw] at htake
  have hbelow : below s.unfollowed n.path = true := htake n (List.mem_cons_self ..)
  have hd1 : dead1 (some d) n = some d := by simp [dead1]; omega
  -- the load is answered from the local store
  have hla : LoadsTo s n.path n.cid (localAns s.store n.cid) (obs s) := by
    cases hqq : s.rq.q with
    | nil => exact load_offline_ans s n.path n.cid hqq hclosed hnopend
    | cons it q' =>
      have hune : s.unfollowed ≠ [] := by
        rcases hu with h | h
        · exact h
        · rw [hqq] at h; cases h
      exact load_gap_ans s n.path n.cid hver it q' hqq hune hbelow hnopend
  cases hh : holds s.store n.cid with
  | true =>
    have hans : localAns s.store n.cid = .data := by simp [localAns, hh]
    rw [hans] at hla
    refine step_close rem k ih s n rest (some d) hlen hwf hne .data _ hla rest rfl (some d) seen
      ⟨hclosed, hnopend, hver, hseen, hq, ?_, hdrop, hu⟩ s.store (fun c => rfl) ?_
    · intro m hm; exact htake m (List.mem_cons_of_mem _ hm)
    · rw [refTrav_holds rem n rest s.store (some d) hh]; simp [hd1]
  | false =>
    have hans : localAns s.store n.cid = .miss := by simp [localAns, hh]
    rw [hans] at hla
    have himp : ∀ x : LNode, decide (x.depth > n.depth) = true → decide (x.depth > d) = true := by
      intro x hx; simp at hx ⊢; omega
    refine step_close rem k ih s n rest (some d) hlen hwf hne .miss _ hla (skipSub n rest) rfl (some d) seen
      ⟨hclosed, hnopend, hver, hseen, ?_, ?_, ?_, hu⟩ s.store (fun c => rfl) ?_
    · simp only [obs]; rw [hq]; unfold skipSub
      rw [dropWhile_dropWhile_imp _ _ himp]
    · intro m hm
      unfold skipSub at hm
      exact htake m (List.mem_cons_of_mem _ (mem_takeWhile_dropWhile_imp _ _ himp rest m hm))
    · intro m hm
      unfold skipSub at hm
      rw [dropWhile_dropWhile_imp _ _ himp] at hm
      exact hdrop m hm
    · rw [refTrav_missing rem n rest s.store (some d) hh (by simp [hd1])]; simp [hd1]

/-- **the loader against an honest responder stream computes the reference traversal** -/
theorem walk_refTrav (rem : Cid → Bool) : ∀ k, IH rem k := by
  intro k
  induction k with
  | zero =>
    intro todo hl s dead seen _ _ _
    cases todo with
    | nil => rw [walk, refTrav.eq_def]; exact ⟨rfl, fun _ => rfl⟩
    | cons n rest => simp at hl
  | succ k ih =>
    intro todo hl s dead seen hsync hwf hne
    cases todo with
    | nil => rw [walk, refTrav.eq_def]; exact ⟨rfl, fun _ => rfl⟩
    | cons n rest =>
      simp only [List.length_cons] at hl
      have hlen : rest.length ≤ k := by omega
      have hne' : ∀ m ∈ rest, m.path ≠ [] := fun m hm => hne m (List.mem_cons_of_mem _ hm)
      have hnp0 : n.path ≠ [] ∨ holds s.store n.cid = false := Or.inl (hne n (List.mem_cons_self ..))
      cases dead with
      | none =>
        obtain ⟨hclosed, hnopend, hver, hseen, hq, hstale⟩ := hsync
        exact sync_case rem k ih s n rest none seen hlen hwf hne' hnp0 rfl hclosed hnopend hver hseen hq hstale
      | some d =>
        by_cases hd : n.depth > d
        · exact gap_case rem k ih s n rest d seen hlen hwf hne' hd hsync
        · -- the traversal has left the subtree the responder did not follow
          obtain ⟨hclosed, hnopend, hver, hseen, hq, _, hdrop, _⟩ := hsync
          have hdw : (n :: rest).dropWhile (fun m => decide (m.depth > d)) = n :: rest := by
            simp [List.dropWhile_cons, hd]
          rw [hdw] at hq hdrop
          exact sync_case rem k ih s n rest (some d) seen hlen hwf hne' hnp0 (by simp [dead1]; omega)
            hclosed hnopend hver hseen hq (Or.inr hdrop)


/-! ### the honest message and the state it leaves behind -/

/-- metadata of the honest response -/
def mdOf (items : List Item) : List (Cid × Action) := items.map (fun it => (it.link, it.action))

/-- block set of the honest response: the blocks attached to its entries -/
def blocksOfItems (items : List Item) : List (Cid × Blk) :=
  items.filterMap (fun it => it.block.map (fun b => (it.link, b)))

theorem respItems_block (rem : Cid → Bool) : ∀ (k : Nat) (lt : LT), lt.length ≤ k → ∀ (seen : List Cid),
    ∀ it ∈ respItems rem lt seen, ∀ b, it.block = some b → b = it.link ∧ it.action = .present ∧ seen.contains it.link = false := by
  intro k
  induction k with
  | zero =>
    intro lt hl seen it hit
    cases lt with
    | nil => rw [respItems] at hit; simp at hit
    | cons n rest => simp at hl
  | succ k ih =>
    intro lt hl seen it hit b hb
    cases lt with
    | nil => rw [respItems] at hit; simp at hit
    | cons n rest =>
      simp only [List.length_cons] at hl
      rw [respItems] at hit
      split at hit
      · simp only [List.mem_cons] at hit
        rcases hit with rfl | hit
        · simp only at hb ⊢
          split at hb
          · cases hb
          · rename_i hc
            simp only [Option.some.injEq] at hb
            exact ⟨hb.symm, trivial, by simpa using hc⟩
        · have := ih rest (by omega) (n.cid :: seen) it hit b hb
          refine ⟨this.1, this.2.1, ?_⟩
          have h3 := this.2.2
          simp only [List.contains_cons, Bool.or_eq_false_iff] at h3
          exact h3.2
      · simp only [List.mem_cons] at hit
        rcases hit with rfl | hit
        · cases hb
        · exact ih (skipSub n rest) (by have := skipSub_length n rest; omega) seen it hit b hb

theorem storeGet_blocksOfItems (items : List Item) (hwk : ∀ it ∈ items, ∀ b, it.block = some b → b = it.link)
    (it : Item) (hit : it ∈ items) (b : Blk) (hb : it.block = some b) :
    storeGet (blocksOfItems items) it.link = some b := by
  induction items with
  | nil => simp at hit
  | cons x rest ih =>
    unfold blocksOfItems
    simp only [List.filterMap_cons]
    cases hx : x.block with
    | none =>
      simp only [Option.map_none]
      simp only [List.mem_cons] at hit
      rcases hit with rfl | hit
      · rw [hx] at hb; cases hb
      · exact ih (fun y hy => hwk y (List.mem_cons_of_mem _ hy)) hit
    | some bx =>
      simp only [Option.map_some]
      have hbx : bx = x.link := hwk x (List.mem_cons_self ..) bx hx
      by_cases hl : x.link = it.link
      · have hbit : b = it.link := hwk it hit b hb
        simp [storeGet, hl, hbx, hbit]
      · have hne : (x.link == it.link) = false := by simp [hl]
        simp only [List.mem_cons] at hit
        rcases hit with rfl | hit
        · exact absurd rfl hl
        · have := ih (fun y hy => hwk y (List.mem_cons_of_mem _ hy)) hit
          unfold storeGet at this ⊢
          simp only [List.find?_cons, hne]
          exact this

/-- `IngestResponse` reconstructs the honest entries from metadata + block set -/
theorem buildItems_go_resp (rem : Cid → Bool) (bl : List (Cid × Blk)) : ∀ (k : Nat) (lt : LT), lt.length ≤ k →
    ∀ (seen dups : List Cid), (∀ c, dups.contains c = seen.contains c) →
    (∀ it ∈ respItems rem lt seen, ∀ b, it.block = some b → storeGet bl it.link = some b) →
    buildItems.go bl (mdOf (respItems rem lt seen)) dups = respItems rem lt seen := by
  intro k
  induction k with
  | zero =>
    intro lt hl seen dups _ _
    cases lt with
    | nil => rw [respItems]; simp [mdOf, buildItems.go]
    | cons n rest => simp at hl
  | succ k ih =>
    intro lt hl seen dups hd hbl
    cases lt with
    | nil => rw [respItems]; simp [mdOf, buildItems.go]
    | cons n rest =>
      simp only [List.length_cons] at hl
      rw [respItems] at hbl ⊢
      split
      · rename_i hrem
        simp only [hrem, if_true] at hbl
        simp only [mdOf, List.map_cons, buildItems.go]
        have hrec := ih rest (by omega) (n.cid :: seen) (n.cid :: dups)
          (by intro c; simp only [List.contains_cons, hd c])
          (fun it hit b hb => hbl it (List.mem_cons_of_mem _ hit) b hb)
        simp only [mdOf] at hrec
        by_cases hs : seen.contains n.cid = true
        · have hdc : dups.contains n.cid = true := by rw [hd]; exact hs
          simp only [hdc, hs, if_true, Bool.not_true, Bool.and_false, Bool.false_eq_true, if_false]
          -- a duplicate keeps the duplicate list unchanged in the Go code; membership is what matters
          have hrec' := ih rest (by omega) (n.cid :: seen) dups
            (by intro c; simp only [List.contains_cons, hd c]
                by_cases hcn : (c == n.cid) = true
                · have : c = n.cid := by simpa using hcn
                  subst this
                  simp only [beq_self_eq_true, Bool.true_or]
                  rw [← hd]; exact hdc
                · simp [hcn])
            (fun it hit b hb => hbl it (List.mem_cons_of_mem _ hit) b hb)
          simp only [mdOf] at hrec'
          rw [hrec']
        · have hdc : dups.contains n.cid = false := by rw [hd]; simpa using hs
          have hs' : seen.contains n.cid = false := by simpa using hs
          have hb := hbl ⟨n.cid, .present, some n.cid⟩ (by simp only [hs', Bool.false_eq_true, if_false]; exact List.mem_cons_self ..) n.cid rfl
          simp only at hb
          simp only [hdc, hs', Bool.not_false, Bool.and_true, beq_self_eq_true, if_true, Bool.false_eq_true, if_false, hb]
          rw [hrec]
      · rename_i hrem
        simp only [hrem, Bool.false_eq_true, if_false] at hbl
        simp only [mdOf, List.map_cons, buildItems.go]
        have hrec := ih (skipSub n rest) (by have := skipSub_length n rest; omega) seen dups hd
          (fun it hit b hb => hbl it (List.mem_cons_of_mem _ hit) b hb)
        simp only [mdOf] at hrec
        simp [hrec]


/-! ### the executor's script around the first miss at the root -/

/-- state after: local load of the root (a miss), `SetRemoteOnline(true)`, the whole response
    ingested as one message, `SetRemoteOnline(false)` (terminal status) -/
def afterResponse (loc : List (Cid × Blk)) (root : LNode) (md : List (Cid × Action)) (bl : List (Cid × Blk)) : State :=
  setOnline (ingest (setOnline (load ({ store := loc } : State) root.path root.cid).1 true) md bl) false

theorem afterResponse_eq (loc : List (Cid × Blk)) (root : LNode) (md : List (Cid × Action)) (bl : List (Cid × Blk))
    (hroot : holds loc root.cid = false) (hmd : md.isEmpty = false) :
    afterResponse loc root md bl =
      { store := loc, record := TRec.empty, mra := some ⟨root.cid, root.path, false, false⟩,
        unfollowed := [], isOpen := false, ver := some (some []),
        rq := { q := buildItems md bl }, pending := none } := by
  have hg : storeGet loc root.cid = none := by
    unfold holds at hroot
    cases h : storeGet loc root.cid with
    | none => rfl
    | some b => rw [h] at hroot; cases hroot
  have hl : load ({ store := loc } : State) root.path root.cid =
      ({ store := loc, mra := some ⟨root.cid, root.path, false, false⟩ },
       .done { data := none, err := some (.missing root.cid root.path), loc := true }) := by
    simp [load, run, waitRemote, loadLocal, hg]
  unfold afterResponse
  rw [hl]
  have hq : RQ.queue ({} : RQ) (buildItems md bl) = { q := buildItems md bl } := by
    rw [queue_tailOn _ _ rfl]; rfl
  simp [setOnline, ingest, hmd, RQ.clear, hq, newVerifier, TRec.empty, appendUntilLink, linkAt, TRec.get, TRec.kids]


theorem run_verdone (s : State) (p : Path) (c : Cid) (hv : s.verifierDone = true) (it : Item) (q' : List Item)
    (hq : s.rq.q = it :: q') : run s p c = post p c (clearVer s, .remote) := by
  rw [run_eq_post]
  simp [waitRemote, hq, hv, clearVer]

theorem honest_items_rebuilt (rem : Cid → Bool) (lt : LT) :
    buildItems (mdOf (respItems rem lt [])) (blocksOfItems (respItems rem lt [])) = respItems rem lt [] := by
  unfold buildItems
  apply buildItems_go_resp rem _ lt.length lt (Nat.le_refl _) [] [] (fun _ => rfl)
  intro it hit b hb
  apply storeGet_blocksOfItems _ _ it hit b hb
  intro it' hit' b' hb'
  exact (respItems_block rem lt.length lt (Nat.le_refl _) [] it' hit' b' hb').1

/-- **C02.complete (requestor without a local prefix, loader level).**  The requestor does not hold
    the root, so it goes to the network at once (skip 0).  The responder's honest response
    (`respItems` = `Responder.respondSpec`, metadata + the blocks attached to it) arrives and ends.
    Then `RetryLastLoad` is the first load of a traversal over the loader whose results — which links
    are answered with data, which are reported missing, in order — are exactly the reference
    traversal `refTrav` of the link tree over the two stores, and the final local store holds exactly
    what `refTrav` says (every block obtained from the responder is stored). -/
theorem complete_remote_start (rem : Cid → Bool) (loc : List (Cid × Blk)) (root : LNode) (rest : LT)
    (hwf : WF (root :: rest)) (hne : ∀ m ∈ rest, m.path ≠ []) (hroot : holds loc root.cid = false) :
    let items := respItems rem (root :: rest) []
    let s4 := afterResponse loc root (mdOf items) (blocksOfItems items)
    retry s4 = load { s4 with mra := none } root.path root.cid ∧
    (walk { s4 with mra := none } (root :: rest)).1 = (refTrav rem (root :: rest) loc none).1 ∧
    ∀ c, holds (walk { s4 with mra := none } (root :: rest)).2.store c =
         holds (refTrav rem (root :: rest) loc none).2 c := by
  intro items s4
  have hitems : ∃ it q', items = it :: q' := by
    simp only [items]; rw [respItems]; split <;> exact ⟨_, _, rfl⟩
  have hmd : (mdOf items).isEmpty = false := by
    obtain ⟨it, q', h⟩ := hitems; rw [h]; simp [mdOf]
  have hs4 : s4 = _ := afterResponse_eq loc root (mdOf items) (blocksOfItems items) hroot hmd
  rw [honest_items_rebuilt rem (root :: rest)] at hs4
  refine ⟨by rw [hs4]; rfl, ?_⟩
  -- the state the retried load starts from, with the (finished) verifier dropped
  let sA : State := { store := loc, record := TRec.empty, mra := none, unfollowed := [], isOpen := false,
                      ver := some (some []), rq := { q := items }, pending := none }
  have hsA : ({ s4 with mra := none } : State) = sA := by rw [hs4]
  rw [hsA]
  have hload : load sA root.path root.cid = load (clearVer sA) root.path root.cid := by
    obtain ⟨it, q', h⟩ := hitems
    rw [load_eq, load_eq]
    have hp1 : prologue sA = sA := rfl
    have hp2 : prologue (clearVer sA) = clearVer sA := rfl
    rw [hp1, hp2]
    rw [run_verdone sA _ _ (by simp [sA, State.verifierDone, verDone, linkAt, TRec.get, TRec.empty]) it q' (by simp [sA, h]),
        run_remote_head (clearVer sA) _ _ rfl it q' (by simp [sA, clearVer, h])]
    rfl
  have hwalk : walk sA (root :: rest) = walk (clearVer sA) (root :: rest) := by
    rw [walk, walk, hload]
  rw [hwalk]
  have := sync_case rem rest.length (walk_refTrav rem rest.length) (clearVer sA) root rest none []
    (Nat.le_refl _) hwf hne (Or.inr hroot) rfl rfl rfl rfl (by simp) rfl (Or.inl rfl)
  exact this

end GS.Loader
