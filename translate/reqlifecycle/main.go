// Command reqlifecycle regenerates lean/GS/Generated/ReqLifecycleSpec.lean (property C04) from
// requestmanager/server.go:
//
//	releaseRequestTask   the guard of the "stay paused" branch: does it test the request context?
//	cancelOnError        first-error-wins assignment; terminate unless Running, else cancelFn + SetRemoteOnline(false)
//	terminateRequest     the order of its stages (terminal error send, delete, cancelFn, loader cleanup,
//	                     traverser shutdown, close of the two channels, onTerminated notifications)
//	processTerminations  IsTerminal / IsFailure nesting and the error passed to cancelOnError
//
// and from requestmanager/executor/executor.go:
//
//	traverse             the "go online" block (first local miss): does it re-check the request context
//	                     after SetRemoteOnline(true), before contacting the remote?
//	ExecuteTask          the tail: cancel message + SetRemoteOnline(false) + error send unless context-cancel
//
// usage: go run ./reqlifecycle <repo>      (prints the Lean file; exits non-zero on syntax it does not know)
package main

import (
	"fmt"
	"go/ast"
	"go/parser"
	"go/printer"
	"go/token"
	"os"
	"path/filepath"
	"strings"
)

var fset = token.NewFileSet()

func die(pos token.Pos, format string, a ...interface{}) {
	where := ""
	if pos.IsValid() {
		where = fset.Position(pos).String() + ": "
	}
	fmt.Fprintf(os.Stderr, "reqlifecycle: %s%s\n", where, fmt.Sprintf(format, a...))
	os.Exit(1)
}

func src(n ast.Node) string {
	var sb strings.Builder
	_ = printer.Fprint(&sb, fset, n)
	return strings.Join(strings.Fields(sb.String()), " ")
}

func findMethod(f *ast.File, name string) *ast.FuncDecl {
	for _, d := range f.Decls {
		if fd, ok := d.(*ast.FuncDecl); ok && fd.Recv != nil && fd.Name.Name == name {
			return fd
		}
	}
	die(f.Pos(), "method %s not found", name)
	return nil
}

func main() {
	if len(os.Args) < 2 {
		die(token.NoPos, "usage: reqlifecycle <repo>")
	}
	path := filepath.Join(os.Args[1], "requestmanager", "server.go")
	f, err := parser.ParseFile(fset, path, nil, parser.SkipObjectResolution)
	if err != nil {
		die(token.NoPos, "parse %s: %v", path, err)
	}

	// ---- releaseRequestTask
	var pauseGuardChecksCtx bool
	{
		fd := findMethod(f, "releaseRequestTask")
		var stmts []string
		found := false
		for _, st := range fd.Body.List {
			s := src(st)
			stmts = append(stmts, s)
			ifs, ok := st.(*ast.IfStmt)
			if !ok || ifs.Init == nil || !strings.Contains(src(ifs.Init), "err.(hooks.ErrPaused)") {
				continue
			}
			found = true
			body := src(ifs.Body)
			if body != "{ ipr.state = graphsync.Paused return }" {
				die(ifs.Pos(), "releaseRequestTask: paused branch body not understood: %s", body)
			}
			switch src(ifs.Cond) {
			case "ok":
				pauseGuardChecksCtx = false
			case "ok && ipr.ctx.Err() == nil":
				pauseGuardChecksCtx = true
			default:
				die(ifs.Pos(), "releaseRequestTask: paused branch condition not understood: %s", src(ifs.Cond))
			}
		}
		if !found {
			die(fd.Pos(), "releaseRequestTask: no `if _, ok := err.(hooks.ErrPaused); ...` statement")
		}
		want := []string{"requestID := task.Topic.(graphsync.RequestID)", "rm.requestQueue.TaskDone(p, task)",
			"ipr, ok := rm.inProgressRequestStatuses[requestID]", "if !ok { return }"}
		for i, wnt := range want {
			if i >= len(stmts) || stmts[i] != wnt {
				die(fd.Pos(), "releaseRequestTask: statement %d is not `%s`", i, wnt)
			}
		}
		if !strings.HasPrefix(stmts[len(stmts)-1], "rm.terminateRequest(requestID, ipr)") {
			die(fd.Pos(), "releaseRequestTask: does not end with rm.terminateRequest(requestID, ipr)")
		}
	}

	// ---- cancelOnError
	{
		fd := findMethod(f, "cancelOnError")
		if len(fd.Body.List) != 2 {
			die(fd.Pos(), "cancelOnError: expected two if statements")
		}
		a := src(fd.Body.List[0])
		b := src(fd.Body.List[1])
		if a != "if ipr.terminalError == nil { ipr.terminalError = terminalError }" {
			die(fd.Pos(), "cancelOnError: first statement not understood: %s", a)
		}
		if b != "if ipr.state != graphsync.Running { rm.terminateRequest(requestID, ipr) } else { ipr.cancelFn() ipr.reconciledLoader.SetRemoteOnline(false) }" {
			die(fd.Pos(), "cancelOnError: second statement not understood: %s", b)
		}
	}

	// ---- terminateRequest: stage order
	var stages []string
	{
		fd := findMethod(f, "terminateRequest")
		for _, st := range fd.Body.List {
			s := src(st)
			switch {
			case strings.Contains(s, "otel.Tracer") || strings.HasPrefix(s, "defer span.End()") || strings.HasPrefix(s, "defer ipr.span.End()"):
				// tracing
			case strings.HasPrefix(s, "if ipr.terminalError != nil {"):
				if !strings.Contains(s, "case ipr.inProgressErr <- ipr.terminalError:") || !strings.Contains(s, "case <-rm.ctx.Done():") {
					die(st.Pos(), "terminateRequest: terminal error send not understood: %s", s)
				}
				stages = append(stages, "sendTerminalError")
			case s == "rm.connManager.Unprotect(ipr.p, requestID.Tag())":
				stages = append(stages, "unprotect")
			case s == "delete(rm.inProgressRequestStatuses, requestID)":
				stages = append(stages, "delete")
			case s == "ipr.cancelFn()":
				stages = append(stages, "cancelFn")
			case strings.HasPrefix(s, "if ipr.reconciledLoader != nil { ipr.reconciledLoader.Cleanup("):
				stages = append(stages, "loaderCleanup")
			case strings.HasPrefix(s, "if ipr.traverser != nil { ipr.traverserCancel() ipr.traverser.Shutdown("):
				stages = append(stages, "traverserShutdown")
			case s == "select { case <-rm.ctx.Done(): return default: }":
				stages = append(stages, "shutdownCheck")
			case s == "close(ipr.inProgressChan)":
				stages = append(stages, "closeProgress")
			case s == "close(ipr.inProgressErr)":
				stages = append(stages, "closeErrors")
			case strings.HasPrefix(s, "for _, onTerminated := range ipr.onTerminated {"):
				if !strings.Contains(s, "case onTerminated <- nil:") {
					die(st.Pos(), "terminateRequest: onTerminated loop not understood")
				}
				stages = append(stages, "notifyTerminated")
			default:
				die(st.Pos(), "terminateRequest: statement not understood: %s", s)
			}
		}
	}

	// ---- processTerminations
	{
		fd := findMethod(f, "processTerminations")
		s := src(fd.Body)
		want := "{ for _, response := range responses { if response.Status().IsTerminal() { if response.Status().IsFailure() { rm.cancelOnError(response.RequestID(), rm.inProgressRequestStatuses[response.RequestID()], response.Status().AsError()) } ipr, ok := rm.inProgressRequestStatuses[response.RequestID()] if ok && ipr.reconciledLoader != nil { ipr.reconciledLoader.SetRemoteOnline(false) } } } }"
		if s != want {
			die(fd.Pos(), "processTerminations: body not understood: %s", s)
		}
	}

	// ---- processResponses: order of the peer filter and the response hooks
	var hooksAfterPeerFilter bool
	{
		fd := findMethod(f, "processResponses")
		var calls []string
		ast.Inspect(fd.Body, func(n ast.Node) bool {
			if c, ok := n.(*ast.CallExpr); ok {
				if sel, ok := c.Fun.(*ast.SelectorExpr); ok {
					switch sel.Sel.Name {
					case "filterResponsesForPeer", "processExtensions", "updateLastResponses", "IngestResponse", "processTerminations":
						calls = append(calls, sel.Sel.Name)
					}
				}
			}
			return true
		})
		switch strings.Join(calls, ",") {
		case "processExtensions,filterResponsesForPeer,updateLastResponses,IngestResponse,processTerminations":
			hooksAfterPeerFilter = false
		case "filterResponsesForPeer,processExtensions,updateLastResponses,IngestResponse,processTerminations":
			hooksAfterPeerFilter = true
		default:
			die(fd.Pos(), "processResponses: stage order not understood: %s", strings.Join(calls, ","))
		}
	}

	// ---- cancelRequest: always sends the cancel message to the request's own peer, before cancelOnError
	{
		fd := findMethod(f, "cancelRequest")
		s := src(fd.Body)
		if !strings.HasSuffix(s, "rm.SendRequest(inProgressRequestStatus.p, gsmsg.NewCancelRequest(requestID)) rm.cancelOnError(requestID, inProgressRequestStatus, terminalError) }") {
			die(fd.Pos(), "cancelRequest: tail not understood: %s", s)
		}
	}

	// ---- executor.traverse: the go-online block
	var goOnlineChecksCtx bool
	{
		epath := filepath.Join(os.Args[1], "requestmanager", "executor", "executor.go")
		ef, err := parser.ParseFile(fset, epath, nil, parser.SkipObjectResolution)
		if err != nil {
			die(token.NoPos, "parse %s: %v", epath, err)
		}
		fd := findMethod(ef, "traverse")
		found := false
		ast.Inspect(fd.Body, func(n ast.Node) bool {
			ifs, ok := n.(*ast.IfStmt)
			if !ok || ifs.Init == nil || !strings.Contains(src(ifs.Init), "result.Err.(graphsync.RemoteMissingBlockErr)") {
				return true
			}
			found = true
			if src(ifs.Cond) != "ok && !requestSent" {
				die(ifs.Pos(), "traverse: go-online condition not understood: %s", src(ifs.Cond))
			}
			var st []string
			for _, x := range ifs.Body.List {
				st = append(st, src(x))
			}
			base := []string{"requestSent = true", "rt.ReconciledLoader.SetRemoteOnline(true)",
				"if err := e.startRemoteRequest(rt); err != nil { return err }", "result = rt.ReconciledLoader.RetryLastLoad()"}
			check := "select { case <-rt.Ctx.Done(): rt.ReconciledLoader.SetRemoteOnline(false) return ipldutil.ContextCancelError{} default: }"
			switch {
			case len(st) == 4 && st[0] == base[0] && st[1] == base[1] && st[2] == base[2] && st[3] == base[3]:
				goOnlineChecksCtx = false
			case len(st) == 5 && st[0] == base[0] && st[1] == base[1] && st[2] == check && st[3] == base[2] && st[4] == base[3]:
				goOnlineChecksCtx = true
			default:
				die(ifs.Pos(), "traverse: go-online block not understood: %s", strings.Join(st, " ; "))
			}
			return false
		})
		if !found {
			die(fd.Pos(), "traverse: no `if _, ok := result.Err.(graphsync.RemoteMissingBlockErr); ok && !requestSent` block")
		}
		// ExecuteTask tail
		et := findMethod(ef, "ExecuteTask")
		tail := src(et.Body)
		want := "if err != nil { span.RecordError(err) if !ipldutil.IsContextCancelErr(err) { e.manager.SendRequest(requestTask.P, gsmsg.NewCancelRequest(requestTask.Request.ID())) requestTask.ReconciledLoader.SetRemoteOnline(false) if !isPausedErr(err) { span.SetStatus(codes.Error, err.Error()) select { case <-requestTask.Ctx.Done(): case requestTask.InProgressErr <- err: } } } } e.manager.ReleaseRequestTask(pid, task, err)"
		if !strings.Contains(tail, want) || !(strings.Contains(tail, "err := e.traverse(requestTask) "+want) || strings.Contains(tail, "err := e.traverseRecovered(requestTask) "+want)) {
			die(et.Pos(), "ExecuteTask: tail not understood")
		}
	}

	var b strings.Builder
	b.WriteString("/-\nGENERATED by translate/reqlifecycle from requestmanager/server.go -- do not edit.\n")
	b.WriteString("Guards and stage order of the request life cycle (server.go: releaseRequestTask, cancelOnError,\nterminateRequest, processTerminations, cancelRequest; executor.go: traverse, ExecuteTask).\n-/\n")
	b.WriteString("namespace GS.Generated.ReqLifecycleSpec\n\n")
	b.WriteString("/-- releaseRequestTask keeps a request Paused on ErrPaused only if its context is not cancelled\n    (`ok && ipr.ctx.Err() == nil`); `false` = the guard is just `ok`. -/\n")
	fmt.Fprintf(&b, "def releasePauseGuardChecksCtx : Bool := %v\n\n", pauseGuardChecksCtx)
	b.WriteString("/-- executor.traverse re-checks the request context after SetRemoteOnline(true) and before\n    contacting the remote (`select { case <-rt.Ctx.Done(): SetRemoteOnline(false); return ContextCancelError{} default: }`) -/\n")
	fmt.Fprintf(&b, "def goOnlineChecksCtx : Bool := %v\n\n", goOnlineChecksCtx)
	b.WriteString("/-- processResponses runs the response hooks (processExtensions) only on the responses that passed\n    filterResponsesForPeer (request still tracked and sent to the sending peer); `false` = hooks first -/\n")
	fmt.Fprintf(&b, "def hooksAfterPeerFilter : Bool := %v\n\n", hooksAfterPeerFilter)
	b.WriteString("/-- the stages of terminateRequest in source order -/\n")
	b.WriteString("def terminateStages : List String :=\n  [")
	for i, s := range stages {
		if i > 0 {
			b.WriteString(", ")
		}
		fmt.Fprintf(&b, "%q", s)
	}
	b.WriteString("]\n\n")
	b.WriteString("/-- cancelOnError: `if terminalError == nil { terminalError = e }; if state != Running { terminate } else { cancelFn(); SetRemoteOnline(false) }` (shape checked by the translator) -/\n")
	b.WriteString("def cancelOnErrorShapeChecked : Bool := true\n")
	b.WriteString("/-- processTerminations: `IsTerminal { IsFailure { cancelOnError(.., AsError()) }; if still tracked && loader != nil { SetRemoteOnline(false) } }` (shape checked) -/\n")
	b.WriteString("def processTerminationsShapeChecked : Bool := true\n")
	b.WriteString("/-- cancelRequest: cancel message to the request's own peer, then cancelOnError (shape checked) -/\n")
	b.WriteString("def cancelRequestShapeChecked : Bool := true\n\n")
	b.WriteString("end GS.Generated.ReqLifecycleSpec\n")
	fmt.Print(b.String())
}
