import GSProofs.Lemmas.TaskQueueWorkers
/-!
Helper lemmas for C21, part 6: `Inv` is inductive; the progress measure
`M = 4·pending + Σ freeze + Σ phase + signal` and how every step changes it.
-/
namespace GS.TQ

theorem popFor_eq (s : Sys) (i : Nat) (q0 : PTQ) :
    s.popFor i q0 = ({ s with q := q0 } : Sys).popFor i q0 := rfl

theorem held_zero_idle : (∀ p u, heldCnt p u .idle = 0) ∧ (∀ p, heldLen p .idle = 0) := ⟨fun _ _ => rfl, fun _ => rfl⟩
theorem held_zero_ready : (∀ p u, heldCnt p u .ready = 0) ∧ (∀ p, heldLen p .ready = 0) := ⟨fun _ _ => rfl, fun _ => rfl⟩

/-- every step preserves the invariant -/
theorem Inv.step {s s' : Sys} {a : Act} (hI : Inv s) (h : step s a = some s') : Inv s' := by
  cases a with
  | push p t =>
    simp only [GS.TQ.step] at h
    split at h
    · cases h
    · cases h; exact hI.push p t
  | remove p topic =>
    simp only [GS.TQ.step] at h
    cases h; exact hI.remove p topic
  | pop i =>
    simp only [GS.TQ.step] at h
    split at h
    · rename_i hw
      cases h
      exact hI.popFor hw held_zero_ready.1 held_zero_ready.2
    · cases h
  | sig i =>
    simp only [GS.TQ.step] at h
    split at h
    · rename_i hw
      split at h
      · cases h
        have hI' : Inv ({ s with signal := false } : Sys) := ⟨hI.nodup, hI.frozen, hI.acnt, hI.elen, hI.enone⟩
        exact hI'.popFor (s := { s with signal := false }) hw held_zero_idle.1 held_zero_idle.2
      · cases h
    · cases h
  | tick i =>
    simp only [GS.TQ.step] at h
    split at h
    · rename_i hw
      cases h
      rw [popFor_eq]
      exact (hI.thaw).popFor (s := { s with q := GS.TQ.thaw s.q }) hw held_zero_idle.1 held_zero_idle.2
    · cases h
  | done i =>
    simp only [GS.TQ.step] at h
    split at h
    · rename_i p cur rest hw
      cases h
      exact hI.done hw
    · cases h
  | ret i =>
    simp only [GS.TQ.step] at h
    split at h
    · rename_i p c t ts hw
      cases h
      apply hI.ret hw
      · intro p' u; simp [heldCnt, List.countP_cons]; split <;> omega
      · intro p'; simp [heldLen]; split <;> omega
    · rename_i p c hw
      cases h
      apply hI.ret hw
      · intro p' u; simp [heldCnt]
      · intro p'; simp [heldLen]
    · cases h

theorem Inv.runList {s s' : Sys} {as : List Act} (hI : Inv s) (h : runList s as = some s') : Inv s' := by
  induction as generalizing s with
  | nil => simp [GS.TQ.runList] at h; subst h; exact hI
  | cons a as ih =>
    simp only [GS.TQ.runList] at h
    split at h
    · rename_i s1 hs1; exact ih (hI.step hs1) h
    · cases h

/-! ### the measure -/

def M (s : Sys) : Nat :=
  4 * nPending s.q.peers + sumFreeze s.q.peers + sumBy phase s.workers + (if s.signal then 1 else 0)

theorem sumBy_map_eq {α : Type} (f : α → Nat) (h : α → α) (xs : List α)
    (he : ∀ x ∈ xs, f (h x) = f x) : sumBy f (xs.map h) = sumBy f xs := by
  induction xs with
  | nil => rfl
  | cons x xs ih =>
    simp only [List.map, sumBy]
    rw [he x (by simp), ih (fun y hy => he y (by simp [hy]))]

theorem sumBy_modifyT_le_add (f : Tracker → Nat) (g : Tracker → Tracker) (k : Nat) (p : Nat) :
    ∀ (ps : List Tracker), (ids ps).Nodup → (∀ t ∈ ps, f (g t) ≤ f t + k) →
      sumBy f (modifyT ps p g) ≤ sumBy f ps + k := by
  intro ps
  induction ps with
  | nil => intro _ _; simp [modifyT, sumBy]
  | cons x xs ih =>
    intro hnd hle
    simp only [ids, List.map, List.nodup_cons, List.mem_map, not_exists, not_and] at hnd
    by_cases hx : x.id = p
    · have hno : ∀ t ∈ xs, t.id ≠ p := fun t ht he => hnd.1 t ht (he.trans hx.symm)
      have e : modifyT (x :: xs) p g = g x :: modifyT xs p g := by simp [modifyT, hx]
      rw [e, modifyT_of_no_id hno]
      simp only [sumBy]
      have := hle x (by simp)
      omega
    · have e : modifyT (x :: xs) p g = x :: modifyT xs p g := by simp [modifyT, hx]
      rw [e]
      simp only [sumBy]
      have := ih hnd.2 (fun t ht => hle t (by simp [ht]))
      omega

/-- PopTasks never adds pending tasks or freeze; the popped tasks leave the pending count -/
theorem pop_measure (q : PTQ) (hid : ∀ a ∈ q.peers, ∀ b ∈ q.peers, a.id = b.id → a = b) :
    nPending (pop q 1).1.peers + (pop q 1).2.tasks.length ≤ nPending q.peers ∧
    sumFreeze (pop q 1).1.peers ≤ sumFreeze q.peers := by
  rcases pop_cases q 1 with ⟨_, hpop⟩ | ⟨tr, hpk, _, htasks, _, _, hcase⟩
  · rw [hpop]; simp
  · obtain ⟨htr, _⟩ := peek_some hpk
    obtain ⟨hidr, hfz, new, hnew, _, hlen, _, _⟩ := popLoop_spec q.cap 1 (tr.pending.length + 1) tr [] 0
    simp only [List.nil_append] at hnew
    rw [htasks, hnew]
    generalize popLoop q.cap 1 (tr.pending.length + 1) tr [] 0 = r at *
    rcases hcase with ⟨hp, _, _, _⟩ | ⟨hp, _⟩
    · rw [hp]
      constructor
      · have := sumBy_filter_add_le (fun t => t.pending.length) (·.id != tr.id) q.peers tr htr (by simp)
        simp only [nPending, eraseT] at *
        omega
      · exact sumBy_filter_le _ _ _
    · rw [hp]
      constructor
      · simp only [nPending, setT]
        apply sumBy_map_add_le
        · intro u hu
          split
          · rename_i h
            have : u = tr := hid u hu tr htr (by simp at h; rw [h, hidr])
            subst this; omega
          · exact Nat.le_refl _
        · refine ⟨tr, htr, ?_⟩
          have : (tr.id == r.1.id) = true := by simp [hidr]
          rw [if_pos this]; exact hlen
      · simp only [sumFreeze, setT]
        apply sumBy_map_le
        intro u hu
        split
        · rename_i h
          have : u = tr := hid u hu tr htr (by simp at h; rw [h, hidr])
          subst this; omega
        · exact Nat.le_refl _

/-! ### ThawRound -/

/-- every tracker after some thaw steps descends from one with the same id / pending / active and
    at least as much freeze -/
def Desc (ps ps' : List Tracker) : Prop :=
  ∀ t' ∈ ps', ∃ t ∈ ps, t'.id = t.id ∧ t'.pending = t.pending ∧ t'.active = t.active ∧ t'.freeze ≤ t.freeze

theorem thawOne_facts (q : PTQ) (p : Nat) :
    nPending (thawOne q p).peers = nPending q.peers ∧
    sumFreeze (thawOne q p).peers ≤ sumFreeze q.peers ∧
    ((∃ tr ∈ q.peers, tr.id = p ∧ 0 < tr.freeze) → sumFreeze (thawOne q p).peers < sumFreeze q.peers) ∧
    Desc q.peers (thawOne q p).peers ∧
    (∀ t ∈ q.peers, t.id ≠ p → t ∈ (thawOne q p).peers) ∧
    (thawOne q p).cap = q.cap := by
  unfold thawOne
  split
  · rename_i hnone
    refine ⟨rfl, Nat.le_refl _, ?_, fun t' ht' => ⟨t', ht', rfl, rfl, rfl, Nat.le_refl _⟩, fun t ht _ => ht, by first | rfl | trivial⟩
    rintro ⟨tr, htr, he, _⟩
    exact absurd he (findT_none hnone tr htr)
  · simp only [refix_peers, refix_cap]
    refine ⟨?_, ?_, ?_, ?_, ?_, trivial⟩
    · simp only [nPending, modifyT]
      apply sumBy_map_eq
      intro x _; split <;> rfl
    · simp only [sumFreeze, modifyT]
      apply sumBy_map_le
      intro x _; split
      · exact thawT_le x
      · exact Nat.le_refl _
    · rintro ⟨tr, htr, he, hpos⟩
      simp only [sumFreeze, modifyT]
      apply sumBy_map_lt
      · intro x _; split
        · exact thawT_le x
        · exact Nat.le_refl _
      · refine ⟨tr, htr, ?_⟩
        simp [he]; exact thawT_lt tr hpos
    · intro t' ht'
      obtain ⟨t, ht, hc⟩ := mem_modifyT ht'
      rcases hc with ⟨_, rfl⟩ | ⟨_, rfl⟩
      · exact ⟨_, ht, rfl, rfl, rfl, Nat.le_refl _⟩
      · exact ⟨t, ht, rfl, rfl, rfl, thawT_le t⟩
    · intro t ht hne
      have := mem_modifyT_of_mem (p := p) (f := thawT) ht
      simpa [hne] using this

theorem Desc.trans {a b c : List Tracker} (h1 : Desc a b) (h2 : Desc b c) : Desc a c := by
  intro t' ht'
  obtain ⟨t1, ht1, e1, e2, e3, e4⟩ := h2 t' ht'
  obtain ⟨t0, ht0, f1, f2, f3, f4⟩ := h1 t1 ht1
  exact ⟨t0, ht0, e1.trans f1, e2.trans f2, e3.trans f3, Nat.le_trans e4 f4⟩

theorem thawFold_facts (l : List Nat) : ∀ (q : PTQ),
    nPending (l.foldl thawOne q).peers = nPending q.peers ∧
    sumFreeze (l.foldl thawOne q).peers ≤ sumFreeze q.peers ∧
    ((∃ tr ∈ q.peers, tr.id ∈ l ∧ 0 < tr.freeze) → sumFreeze (l.foldl thawOne q).peers < sumFreeze q.peers) ∧
    Desc q.peers (l.foldl thawOne q).peers ∧
    (l.foldl thawOne q).cap = q.cap := by
  induction l with
  | nil =>
    intro q
    refine ⟨rfl, Nat.le_refl _, ?_, fun t' ht' => ⟨t', ht', rfl, rfl, rfl, Nat.le_refl _⟩, rfl⟩
    rintro ⟨_, _, h, _⟩; cases h
  | cons p ps ih =>
    intro q
    simp only [List.foldl]
    obtain ⟨a1, a2, a3, a4, a5, a6⟩ := thawOne_facts q p
    obtain ⟨b1, b2, b3, b4, b5⟩ := ih (thawOne q p)
    refine ⟨b1.trans a1, Nat.le_trans b2 a2, ?_, a4.trans b4, b5.trans a6⟩
    rintro ⟨tr, htr, hmem, hpos⟩
    by_cases he : tr.id = p
    · exact Nat.lt_of_le_of_lt b2 (a3 ⟨tr, htr, he, hpos⟩)
    · have hmem' : tr.id ∈ ps := by
        rcases List.mem_cons.mp hmem with h | h
        · exact absurd h he
        · exact h
      exact Nat.lt_of_lt_of_le (b3 ⟨tr, a5 tr htr he, hmem', hpos⟩) a2

theorem thaw_facts (q : PTQ) :
    nPending (thaw q).peers = nPending q.peers ∧
    sumFreeze (thaw q).peers ≤ sumFreeze q.peers ∧
    ((∃ tr ∈ q.peers, tr.id ∈ q.frozen ∧ 0 < tr.freeze) → sumFreeze (thaw q).peers < sumFreeze q.peers) ∧
    Desc q.peers (thaw q).peers ∧ (thaw q).cap = q.cap :=
  thawFold_facts q.frozen q

end GS.TQ
