import GSProofs.C05PendingFull
/-!
# C05 — "reported once WITH ITS TERMINAL STATUS": the code carried by `.done id code`

Where the model decides the code: a transaction puts `.status c` into the builder entry of the request
(`applyOp`/`addCode`: a queued terminal status is only replaced by a terminal one, /repo 50602fc); the message is
sent (`extract`, `netResolve … true`); for every subscribed entry `e` of the SENT message `sentSteps e` queues
`callTerminate e.id e.inc, emitDone e.id (wireCode e)` iff `wireCode e` is terminal, where
`wireCode e = if e.inResp then e.code.getD stPartial else 0` is the status the message carries for `e`; the publisher
step `pubStep` turns the head `emitDone id code` into the event `.done id code`.

Proved here (every `Reachable` state, no hypothesis on ids):
* `queued_completed_status_is_terminal` — every `emitDone id code` in any publisher queue has a TERMINAL code.
* `sent_steps_status` — an `emitDone id code` queued for a sent entry `e` has `id = e.id`, `code = wireCode e`,
  terminal; `errSteps` (failed send) never queues an `emitDone`.
* `listener_code_is_queued_code` — the publisher step on `emitDone id code` logs exactly `.done id code`.
* `completed_event_is_terminal_step` — hence every `.done id code` event ADDED by a publisher step carries a terminal
  code equal to the wire code of the sent entry.
NOT proved (open): the frame "no step other than `pubStep` adds or changes a `.done` event" WITH codes (the existing
accounting lemmas count `.done id _` per id, they do not track the code; a per-function frame on the event log is
needed), hence the state-level `∀ .done r code ∈ s.events, isTerminal code` is only tested (examples below).
-/
namespace GS.C05
open GS.RespLife

/-- the status a message carries for entry `e` -/
def wireCode (e : Entry) : Nat := if e.inResp then e.code.getD stPartial else 0

def TQ (s : State) : Prop := ∀ p id code, PStep.emitDone id code ∈ (getMQ s p).pubQ → isTerminal code = true

theorem TQ.sub {s s' : State} (h : TQ s) (hs : ∀ p x, x ∈ (getMQ s' p).pubQ → x ∈ (getMQ s p).pubQ) : TQ s' :=
  fun p id code hx => h p id code (hs p _ hx)

theorem TQ.mstep {s s' : State} (h : TQ s) (hm : MStep 0 s s') : TQ s' :=
  h.sub fun p x hx => by rw [(hm.pub p).1] at hx; exact hx

/-- **C05.sent_steps_status** -/
theorem sent_steps_status {e : Entry} {id : Id} {code : Nat} (h : PStep.emitDone id code ∈ sentSteps e) :
    id = e.id ∧ code = wireCode e ∧ isTerminal code = true := by
  unfold sentSteps at h
  unfold wireCode
  simp only at h
  generalize (if e.inResp = true then e.code.getD stPartial else 0) = c at h ⊢
  simp only [List.mem_append] at h
  rcases h with h | h
  · split at h <;> simp at h
  · split at h
    · rename_i ht
      simp at h
      exact ⟨h.1, h.2, by rw [h.2]; exact ht⟩
    · simp at h

theorem err_steps_no_done {e : Entry} {id : Id} {code : Nat} : PStep.emitDone id code ∉ errSteps e := by
  intro h
  unfold errSteps at h
  simp only [List.mem_append] at h
  rcases h with (h | h) | h
  · simp at h
  · split at h <;> simp at h
  · simp at h

theorem tq_clear {X : State} (h : TQ X) (pub : Peer) : TQ (clearPubWait X pub) :=
  h.sub fun p x hx => by
    rw [getMQ_clearPubWait] at hx
    split at hx
    · rename_i hp; rw [hp]; exact hx
    · exact hx

theorem tq_drop {X : State} (h : TQ X) (pub : Peer) (id : Id) : TQ (dropNerr X pub id) :=
  h.sub fun p x hx => by
    rw [getMQ_dropNerr] at hx
    split at hx
    · rename_i hp; rw [hp]; exact List.mem_of_mem_erase hx
    · exact hx

theorem tq_mgrStep {s s' : State} (hi : TQ s) (h : mgrStep s = some s') : TQ s' := by
  unfold mgrStep at h
  split at h
  · rename_i pk hpk
    split at h
    · cases h; exact hi.mstep (mstep_resumeMgr 0 s pk hpk)
    · cases h
  · rename_i hpk
    split at h
    · cases h
    · rename_i m rest hm
      cases h
      have h0 : TQ { s with mailbox := rest, handled := s.handled + 1 } := hi
      have hpk0 : ({ s with mailbox := rest, handled := s.handled + 1 } : State).park = none := hpk
      by_cases hpub : pubMsg m = true
      · cases m with
        | closeNetErr id inc pub =>
          rw [handle_closeNetErr]
          have h1 : TQ (abortRequest { s with mailbox := rest, handled := s.handled + 1 } id .network).1 :=
            (show TQ _ from fun p i c hx => h0 p i c (by
              have := ((mstep_abortRequest (id + 1) _ id .network hpk0 (fun _ => Nat.ne_of_lt (Nat.lt_succ_self id))).pub p).1
              rw [this] at hx; exact hx))
          split
          · split
            · exact tq_clear h1 pub
            · exact tq_drop (tq_clear h1 pub) pub id
          · exact tq_drop (tq_clear h0 pub) pub id
        | terminate id inc pub =>
          rw [handle_terminate]
          apply tq_clear
          split
          · exact h0.mstep (mstep_terminate 0 _ id hpk0)
          · exact h0
        | _ => simp [pubMsg] at hpub
      · have hpub' : pubMsg m = false := by simpa using hpub
        exact h0.mstep (mstep_handle 0 _ m hpk0 hpub')

theorem tq_netResolve {s s' : State} {p : Peer} {ok : Bool} (hi : TQ s) (h : netResolve s p ok = some s') :
    TQ s' := by
  unfold netResolve at h
  simp only at h
  split at h
  · cases h
  · rename_i b hb
    split at h
    · cases h
      refine TQ.mstep ?_ (mstep_release 0 _ p b.size)
      intro p' id code hx
      rw [getMQ_setMQ] at hx
      split at hx
      · rename_i hp
        simp only [List.mem_append, List.mem_flatten, List.mem_map] at hx
        rcases hx with hx | ⟨l, ⟨e, _, rfl⟩, hx⟩
        · exact hi p id code hx
        · exact (sent_steps_status hx).2.2
      · exact hi p' id code hx
    · cases h
      have key : TQ (setMQ (closeStreams s ((b.entries.filter (·.sub)).map (·.id)))
          { getMQ s p with
            inflight := none
            next := (scrubNext (getMQ s p).next ((b.entries.filter (·.sub)).map (·.id))).1
            pubQ := (getMQ s p).pubQ ++ ((b.entries.filter (·.sub)).map errSteps).flatten }) := by
        intro p' id code hx
        rw [getMQ_setMQ] at hx
        split at hx
        · simp only [List.mem_append, List.mem_flatten, List.mem_map] at hx
          rcases hx with hx | ⟨l, ⟨e, _, rfl⟩, hx⟩
          · exact hi p id code hx
          · exact absurd hx err_steps_no_done
        · exact hi p' id code hx
      split
      · exact (key.mstep (mstep_release 0 _ p _)).mstep (mstep_release 0 _ p _)
      · exact key.mstep (mstep_release 0 _ p _)

theorem tq_pubStep {s s' : State} {p : Peer} (hi : TQ s) (h : pubStep s p = some s') : TQ s' := by
  refine hi.sub fun p' x hx => ?_
  unfold pubStep at h
  simp only at h
  split at h
  · cases h
  · split at h
    · cases h
    · rename_i st rest hq
      have key : ∀ (X : State) (pw : Bool), x ∈ (getMQ (setMQ X { (getMQ s p) with pubQ := rest, pubWait := pw }) p').pubQ →
          (∀ p'', getMQ X p'' = getMQ s p'') → x ∈ (getMQ s p').pubQ := by
        intro X pw hx hX
        rw [getMQ_setMQ] at hx
        split at hx
        · rename_i hp
          have hp' : p' = p := by rw [hp]; exact getMQ_peer s p
          rw [hp', hq]; exact List.mem_cons_of_mem _ hx
        · rw [hX] at hx; exact hx
      cases st <;> simp only [Option.some.injEq] at h <;> subst h
      all_goals first
        | exact key s (getMQ s p).pubWait hx (fun _ => rfl)
        | exact key s true hx (fun _ => rfl)

theorem tq_step {s s' : State} {a : Action} (hi : TQ s) (h : step s a = some s') : TQ s' := by
  cases a with
  | recv p q => simp only [step, Option.some.injEq] at h; subst h; exact hi.mstep (mstep_recv 0 s p q _)
  | api c => simp only [step, Option.some.injEq] at h; subst h; exact hi.mstep (mstep_api 0 s c)
  | mgr => exact tq_mgrStep hi h
  | pop p id => exact hi.mstep (mstep_popTask 0 h)
  | reap p => exact hi.mstep (mstep_reap 0 h)
  | wstep w pick => exact hi.mstep (mstep_wstep 0 h)
  | extract p => exact hi.mstep (mstep_extract 0 h)
  | net p ok => exact tq_netResolve hi h
  | pub p => exact tq_pubStep hi h
  | primer p => simp only [step, Option.some.injEq] at h; subst h; exact hi.mstep (mstep_primer 0 s p)
  | thaw => simp only [step, Option.some.injEq] at h; subst h; exact hi.mstep (mstep_thawAll 0 s)

theorem tq_reachable {c : Cfg} {s : State} (h : Reachable c s) : TQ s := by
  induction h with
  | init => intro p id code hx; simp [getMQ, init] at hx
  | step _ hs ih => exact tq_step ih hs

/-- **C05.queued_completed_status_is_terminal** (every reachable state): a completed notification waiting in any
    publisher queue carries a terminal status code. -/
theorem queued_completed_status_is_terminal {c : Cfg} {s : State} (h : Reachable c s) (p : Peer) (id : Id)
    (code : Nat) (hq : PStep.emitDone id code ∈ (getMQ s p).pubQ) :
    GS.Generated.StatusCodes.isTerminal code = true := by
  exact tq_reachable h p id code hq

/-- **C05.listener_code_is_queued_code**: the publisher step on `emitDone id code` logs exactly `.done id code`. -/
theorem listener_code_is_queued_code {s s' : State} {p : Peer} {id : Id} {code : Nat} {rest : List PStep}
    (hq : (getMQ s p).pubQ = .emitDone id code :: rest) (h : pubStep s p = some s') :
    s'.events = s.events ++ [.done id code] := by
  unfold pubStep at h
  simp only at h
  split at h
  · cases h
  · rw [hq] at h
    simp only [Option.some.injEq] at h
    subst h
    rfl

/-- **C05.completed_event_is_terminal_step**: in a reachable state, the completed-listener call made by a publisher
    step carries a terminal status code (the code queued from the sent message, `sent_steps_status`). -/
theorem completed_event_is_terminal_step {c : Cfg} {s s' : State} (hr : Reachable c s) {p : Peer} {id : Id}
    {code : Nat} {rest : List PStep} (hq : (getMQ s p).pubQ = .emitDone id code :: rest)
    (h : pubStep s p = some s') :
    s'.events = s.events ++ [.done id code] ∧ GS.Generated.StatusCodes.isTerminal code = true :=
  ⟨listener_code_is_queued_code hq h, queued_completed_status_is_terminal hr p id code (by rw [hq]; simp)⟩

/-- regression for /repo 50602fc (a TEST): CancelResponse makes the response CompletingSend with status
    RequestCancelled queued; a late UpdateResponse (status PartialResponse) must not replace it — the completed
    listeners get RequestCancelled, once. -/
def updateAfterCancelScript : List Action :=
  [.recv 0 (.new 0 (cfgA 1)), .mgr, .api (.cancel 0), .mgr, .api (.update 0 false), .mgr,
   .extract 0, .net 0 true, .pub 0, .mgr, .pub 0]

example : (run (init {}) updateAfterCancelScript).events.filter
    (fun e => match e with | .done _ _ => true | _ => false) = [.done 0 stCancelled] := by decide

/-- TEST: every `.done` event of the completed run `doneScript` carries a terminal code -/
example : (run (init {}) doneScript).events.all
    (fun e => match e with | .done _ c => isTerminal c | _ => true) = true := by decide

end GS.C05
