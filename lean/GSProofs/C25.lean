import GSProofs.Lemmas.RespLifeAccMgr
import GS.Temporal
import GS.Generated.MgrTx
/-!
# C25 — A stalled peer cannot block service to other peers   (responder side)

Model: `GS.RespLife`.  A transaction executed INSIDE a manager step (`newRequest`'s prepareQuery,
`processUpdate` on a paused response, `unpauseRequest`, `updateRequest`) calls
`AllocateAndBuildMessage` synchronously; when the peer's reservation cannot be granted the manager
process is parked (`State.park`) and handles no mailbox message of ANY peer until the grant.

-- FULL STATEMENT (false, see `counterexample`):
--   theorem responder : Reachable c s → (peer A stalled or at its memory limit in s) →
--     every mailbox message from a peer B ≠ A is eventually handled and B's requests progress,
--     on every weakly fair execution from s in which A stays stalled.

* `counterexample`: a reachable state (fresh ids, per-peer limit 100) in which the manager is parked on
  peer 0's reservation, a `new` request of peer 1 waits in the mailbox, and NO internal action of any
  process is enabled (or it is a no-op): the execution that stays in this state forever is weakly fair
  (`counterexample_fair_execution`), peer 0's network never acknowledging is environment behaviour,
  and peer 1's message is never handled.  Replayed on the real code by corpus/C25 and the `stall`
  stream (known finding `manager-blocked-on-peer-reservation`).
* `partial_never_parks` (C25.partial, safety core): if the manager only ever handles messages whose
  manager-side transactions carry no extension data (size 0), it never parks.
* `partial_handled` (C25.partial, liveness): when all manager-side transactions have size 0, on every
  and which is weakly fair for the manager action, the manager keeps handling: whenever the mailbox is
  non-empty a message is eventually handled.  (Go scheduler fairness is an assumption, not modelled.)
-/
namespace GS.C25
open GS.RespLife GS.Temporal

-- ------------------------------------------------------------------ C25.partial
/-- the manager only handles messages without manager-side extension data -/
def NoExtStep (s : State) : Action → Prop
  | .mgr => match s.park, s.mailbox with
    | none, m :: _ => msgNoExt m = true
    | _, _ => True
  | _ => True

inductive ReachableNE (c : Cfg) : State → Prop
  | init : ReachableNE c (init c)
  | step {s s' a} : ReachableNE c s → NoExtStep s a → step s a = some s' → ReachableNE c s'

/-- **C25.partial** (safety core): when all manager-side transactions have size 0 — no extension data
    from request hooks, from update hooks of paused responses, or passed to UnpauseResponse /
    UpdateResponse — the response manager goroutine never parks in a memory reservation. -/
theorem partial_never_parks {c : Cfg} {s : State} (h : ReachableNE c s) : s.park = none := by
  induction h with
  | init => rfl
  | @step s s' a _ hne hs ih =>
    by_cases ha : a = .mgr
    · subst ha
      simp only [step, mgrStep, ih] at hs
      split at hs
      · cases hs
      · rename_i m rest hm
        cases hs
        have hx : msgNoExt m = true := by
          simp only [NoExtStep, ih, hm] at hne
          exact hne
        exact park_handle_noext _ m rfl hx
    · exact park_other_step hs ha ih

-- ------------------------------------------------------------------ C25.counterexample
def cfgA (n : Nat) : ReqCfg := { pri := 1, hook := ⟨.accept, false⟩, n, miss := none, bh := [] }
def cfgExt : ReqCfg := { pri := 1, hook := ⟨.accept, true⟩, n := 1, miss := none, bh := [] }

/-- peer 0 stops acknowledging after its first block; its allowance (100 bytes) is exhausted by the
    second; then a request of peer 0 whose request hook attaches extension data arrives, then an
    ordinary request of peer 1 -/
def stallScript : List Action :=
  [.primer 0, .extract 0, .primer 1, .extract 1,
   .recv 0 (.new 0 (cfgA 3)), .mgr, .pop 0 0, .mgr, .wstep 0 0,
   .net 0 true,                      -- the last acknowledgement peer 0 ever sends
   .wstep 0 0, .extract 0,           -- block 0 (88 bytes) reserved and in flight
   .wstep 0 0,                       -- block 1: 88 + 88 > 100, the WORKER waits (by design)
   .recv 0 (.new 1 cfgExt), .mgr,    -- request hook sends 17 bytes: the MANAGER waits behind it
   .recv 1 (.new 2 (cfgA 2))]        -- peer 1's request: stays in the mailbox

def stalled : State := run (init { limit := 100 }) stallScript

/-- internal (fair) actions: everything except what the environment does (`recv`, `api`, `net`, `primer`) -/
def Internal : Action → Prop
  | .mgr | .pop _ _ | .reap _ | .wstep _ _ | .extract _ | .pub _ | .thaw => True
  | _ => False

theorem popTask_none (s : State) (p : Peer) (id : Id) (h : s.queues.all (fun q => q.pending.isEmpty) = true) :
    popTask s p id = none := by
  unfold popTask
  simp only
  have : (getQ s p).pending = [] := by
    unfold getQ
    split
    · rename_i q hq
      have := List.mem_of_find?_eq_some hq
      have := List.all_eq_true.1 h q this
      simpa using this
    · rfl
  rw [this]
  simp

theorem reap_none (s : State) (p : Peer)
    (h : s.queues.all (fun q => !(q.pending.isEmpty && q.active.isEmpty)) = true) : reap s p = none := by
  unfold reap
  split
  · rename_i q hq
    have := List.all_eq_true.1 h q (List.mem_of_find?_eq_some hq)
    simp only [Bool.not_eq_true'] at this
    rw [if_neg]
    simp [this]
  · rfl

def inert : WPhase → Bool
  | .waitStart | .waitFinish | .done | .waitUpdates _ _ | .blockedTx _ _ false => true
  | _ => false

theorem wstep_none (s : State) (w pick : Nat) (h : s.workers.all (fun x => inert x.phase) = true) :
    wstep s w pick = none := by
  unfold wstep
  split
  · rfl
  · rename_i wk hw
    have hmem : wk ∈ s.workers := by
      unfold workerOf at hw
      exact List.mem_of_getElem? hw
    have := List.all_eq_true.1 h wk hmem
    cases hp : wk.phase with
    | blockedTx ops k g =>
      cases g
      · rfl
      · rw [hp] at this; simp [inert] at this
    | waitStart => rfl
    | waitFinish => rfl
    | done => rfl
    | waitUpdates ops present => rfl
    | started => rw [hp] at this; simp [inert] at this
    | atLoader => rw [hp] at this; simp [inert] at this
    | gotUpdates a b c => rw [hp] at this; simp [inert] at this
    | inHook a b => rw [hp] at this; simp [inert] at this
    | preFinish e => rw [hp] at this; simp [inert] at this

theorem extract_none (s : State) (p : Peer)
    (h : s.mqs.all (fun q => q.inflight.isSome || (match q.next with | none => true | some b => b.empty)) = true) :
    extract s p = none := by
  unfold extract
  simp only
  have hq : (getMQ s p).inflight.isSome = true ∨ (match (getMQ s p).next with | none => true | some b => b.empty) = true := by
    unfold getMQ
    split
    · rename_i q hq
      have := List.all_eq_true.1 h q (List.mem_of_find?_eq_some hq)
      simpa using this
    · right; rfl
  split
  · rename_i b h1 h2
    rcases hq with hq | hq
    · rw [h1] at hq; cases hq
    · rw [h2] at hq
      simp only at hq
      rw [if_pos hq]
  · rfl

theorem pubStep_none (s : State) (p : Peer) (h : s.mqs.all (fun q => q.pubQ.isEmpty) = true) :
    pubStep s p = none := by
  unfold pubStep
  simp only
  have : (getMQ s p).pubQ = [] := by
    unfold getMQ
    split
    · rename_i q hq
      have := List.all_eq_true.1 h q (List.mem_of_find?_eq_some hq)
      simpa using this
    · rfl
  rw [this]
  split <;> rfl

/-- **C25.counterexample** (the state): reachable with fresh ids; the manager is parked, ungranted, on
    peer 0's reservation inside `newRequest`; peer 1's request is in the mailbox, unhandled; the only
    thing that can ever release the manager is the environment action `net 0 _` (peer 0's send
    completing): no internal action of any process is enabled, or it changes nothing. -/
theorem counterexample :
    ReachableFresh { limit := 100 } stalled ∧
    (∃ pk, stalled.park = some pk ∧ pk.peer = 0 ∧ pk.granted = false) ∧
    Msg.processRequests 1 (.new 2 (cfgA 2)) ∈ stalled.mailbox ∧
    (∀ a, Internal a → step stalled a = none ∨ step stalled a = some stalled) := by
  refine ⟨?_, ⟨_, rfl, by decide, by decide⟩, by decide, ?_⟩
  · exact reachableFresh_run ReachableFresh.init _ (by decide)
  · intro a ha
    cases a with
    | mgr => left; decide
    | pop p id => left; exact popTask_none _ p id (by decide)
    | reap p => left; exact reap_none _ p (by decide)
    | wstep w pick => left; exact wstep_none _ w pick (by decide)
    | extract p => left; exact extract_none _ p (by decide)
    | pub p => left; exact pubStep_none _ p (by decide)
    | thaw => right; decide
    | recv p r => exact absurd ha (by simp [Internal])
    | api c => exact absurd ha (by simp [Internal])
    | net p ok => exact absurd ha (by simp [Internal])
    | primer p => exact absurd ha (by simp [Internal])

-- ------------------------------------------------------------------ worker-pool exhaustion
theorem popTask_none_pool (s : State) (p : Peer) (id : Id)
    (h : (s.nWorkers != 0 && decide (s.nWorkers ≤ liveWorkers s)) = true) : popTask s p id = none := by
  unfold popTask
  simp only
  have h1 : s.nWorkers ≠ 0 ∧ s.nWorkers ≤ liveWorkers s := by simpa using h
  have : (s.nWorkers == 0 || decide (liveWorkers s < s.nWorkers)) = false := by
    simp only [Bool.or_eq_false_iff, beq_eq_false_iff_ne, ne_eq, decide_eq_false_iff_not, Nat.not_lt]
    exact h1
  rw [this]
  simp

/-- **C25.pool_partial** (the restated `partial` for the fixed worker pool).  A pending task of a peer
    that is not frozen and is below its per-peer cap can be popped whenever the pool has a free worker:
    the pool is unbounded (`nWorkers = 0`) or FEWER THAN `nWorkers` WORKERS ARE BUSY.  So a set of
    stalled peers blocks the others at the pool only by keeping all `nWorkers` workers busy at once
    (`pool_exhaustion_counterexample`); if the stalled peers have fewer than `nWorkers` runnable requests,
    or `MaxOutstandingWorkPerPeer` × (number of stalled peers) is below `nWorkers`, they cannot, because
    a busy worker of a peer is one of that peer's active topics (`LInv.actLive`, Lemmas/RespLifeInv.lean).
    Together with `partial_never_parks` / `partial_handled` (the manager keeps handling when its own
    transactions carry no data) this is the proved part of C25.responder. -/
theorem pool_partial (s : State) (p : Peer) (id : Id) (hf : (getQ s p).freeze = 0)
    (hp : id ∈ (getQ s p).pending.map (·.1))
    (hc : s.maxActive = 0 ∨ (getQ s p).active.length < s.maxActive)
    (hw : s.nWorkers = 0 ∨ liveWorkers s < s.nWorkers) : ∃ s', popTask s p id = some s' := by
  unfold popTask
  simp only
  have h1 : ((getQ s p).freeze == 0) = true := by simpa using hf
  have h2 : (getQ s p).pending.any (·.1 == id) = true := by
    obtain ⟨t, ht, hid⟩ := List.mem_map.1 hp
    exact List.any_eq_true.2 ⟨t, ht, by simpa using hid⟩
  have h3 : (s.maxActive == 0 || decide ((getQ s p).active.length < s.maxActive)) = true := by
    rcases hc with h | h <;> simp [h]
  have h4 : (s.nWorkers == 0 || decide (liveWorkers s < s.nWorkers)) = true := by
    rcases hw with h | h <;> simp [h]
  rw [h1, h2, h3, h4]
  exact ⟨_, rfl⟩

-- ------------------------------------------------------------------ busy workers are active topics
/-- pigeonhole: a list without duplicates whose elements all occur in `m` is not longer than `m` -/
theorem length_le_of_nodup_subset {α : Type} [DecidableEq α] :
    ∀ (l m : List α), l.Nodup → (∀ a ∈ l, a ∈ m) → l.length ≤ m.length
  | [], _, _, _ => Nat.zero_le _
  | a :: t, m, hn, hs => by
    rw [List.nodup_cons] at hn
    have ham : a ∈ m := hs a List.mem_cons_self
    have ht : ∀ b ∈ t, b ∈ m.erase a := by
      intro b hb
      have hne : b ≠ a := by rintro rfl; exact hn.1 hb
      exact (List.mem_erase_of_ne hne).2 (hs b (List.mem_cons_of_mem _ hb))
    have ih := length_le_of_nodup_subset t (m.erase a) hn.2 ht
    rw [List.length_erase_of_mem ham] at ih
    have hpos : 0 < m.length := List.length_pos_of_mem ham
    simp only [List.length_cons]
    omega

/-- the (peer, id) topics that are active in some peer's task queue -/
def activeTopics (s : State) : List (Peer × Id) :=
  s.queues.flatMap fun q => q.active.map fun id => (q.peer, id)

theorem wkind_done_iff (ph : WPhase) : wkind ph = .done ↔ ph = .done := by
  cases ph with
  | blockedTx ops k g => cases k <;> simp [wkind]
  | _ => simp [wkind]

/-- **every busy task worker is one active topic** (reachable with drained ids): the number of busy
    workers is at most the number of active topics of all peers. -/
theorem busy_workers_le_active {c : Cfg} {s : State} (h : ReachableDrained c s) :
    liveWorkers s ≤ (activeTopics s).length := by
  have hi := (linv_reachable h).1
  -- the topics of the busy workers
  have hlen : liveWorkers s = ((s.workers.filter (·.phase != .done)).map fun w => (w.peer, w.id)).length := by
    simp [liveWorkers]
  rw [hlen]
  apply length_le_of_nodup_subset
  · -- no two busy workers serve the same topic
    rw [List.nodup_iff_pairwise_ne, List.pairwise_map, List.pairwise_filter, List.pairwise_iff_getElem]
    intro i j hi' hj' hij hlive_i hlive_j heq
    have hli : (acc s).liveW i (s.workers[i]).peer (s.workers[i]).id := by
      refine ⟨wkind (s.workers[i]).phase, ?_, ?_⟩
      · show (wcore s)[i]? = _
        simp [wcore, hi']
      · intro hd
        have := (wkind_done_iff _).1 hd
        simp [this] at hlive_i
    have hlj : (acc s).liveW j (s.workers[i]).peer (s.workers[i]).id := by
      have e1 : (s.workers[j]).peer = (s.workers[i]).peer := (congrArg Prod.fst heq).symm
      have e2 : (s.workers[j]).id = (s.workers[i]).id := (congrArg Prod.snd heq).symm
      refine ⟨wkind (s.workers[j]).phase, ?_, ?_⟩
      · show (wcore s)[j]? = _
        simp [wcore, hj', e1, e2]
      · intro hd
        have := (wkind_done_iff _).1 hd
        simp [this] at hlive_j
    have := hi.liveUniq i j _ _ hli hlj
    omega
  · -- each of them is an active topic of its peer
    intro a ha
    obtain ⟨w, hw, rfl⟩ := List.mem_map.1 ha
    obtain ⟨hwm, hwl⟩ := List.mem_filter.1 hw
    obtain ⟨i, hi', hwi⟩ := List.getElem_of_mem hwm
    have hli : (acc s).liveW i w.peer w.id := by
      refine ⟨wkind w.phase, ?_, ?_⟩
      · show (wcore s)[i]? = _
        simp [wcore, hi', hwi]
      · intro hd
        have := (wkind_done_iff _).1 hd
        simp [this] at hwl
    have hact : w.id ∈ (getQ s w.peer).active := (hi.actLive w.peer w.id).2 ⟨i, hli⟩
    -- the tracker found by lookup is one of the queues
    unfold getQ at hact
    cases hf : s.queues.find? (·.peer == w.peer) with
    | none => rw [hf] at hact; simp at hact
    | some q =>
      rw [hf] at hact
      have hq := List.mem_of_find?_eq_some hf
      have hqp : q.peer = w.peer := by simpa using List.find?_some hf
      unfold activeTopics
      rw [List.mem_flatMap]
      exact ⟨q, hq, List.mem_map.2 ⟨w.id, hact, by rw [hqp]⟩⟩

/-- **C25.pool_partial_case** (the case-level claim).  Reachable with drained ids: if the pool is
    unbounded or FEWER THAN `nWorkers` TOPICS ARE ACTIVE in all task queues together — in particular when
    the only active topics are requests of stalled peers and there are fewer than `nWorkers` of them, or
    `MaxOutstandingWorkPerPeer` × (number of peers with active work) < `nWorkers` — then a pending task of
    any peer that is not frozen and below its own cap can be popped: a worker is free for it.  (That the
    pop then happens is the fairness assumption on the pool; after the pop the manager handles the
    StartTask message by `partial_handled`.) -/
theorem pool_partial_case {c : Cfg} {s : State} (h : ReachableDrained c s) (p : Peer) (id : Id)
    (hf : (getQ s p).freeze = 0) (hp : id ∈ (getQ s p).pending.map (·.1))
    (hc : s.maxActive = 0 ∨ (getQ s p).active.length < s.maxActive)
    (hw : s.nWorkers = 0 ∨ (activeTopics s).length < s.nWorkers) : ∃ s', popTask s p id = some s' := by
  apply pool_partial s p id hf hp hc
  rcases hw with h0 | h1
  · exact Or.inl h0
  · exact Or.inr (Nat.lt_of_le_of_lt (busy_workers_le_active h) h1)

/-- a pool of 2 task workers (taskqueue.Startup(2, ...)), per-peer limit 100: peer 0 stops acknowledging,
    two of its requests are being executed and both executors wait for memory; peer 1's request is
    accepted and queued -/
def poolScript : List Action :=
  [.primer 0, .extract 0, .primer 1, .extract 1,
   .recv 0 (.new 0 (cfgA 3)), .mgr, .recv 0 (.new 1 (cfgA 3)), .mgr,
   .net 0 true,                                   -- the last acknowledgement peer 0 ever sends
   .pop 0 0, .mgr, .wstep 0 0, .pop 0 1, .mgr, .wstep 1 0,
   .wstep 0 0, .extract 0,                        -- worker 0: block 0 (88 bytes) reserved and in flight
   .wstep 1 0,                                    -- worker 1: 88 + 88 > 100, waits for memory
   .wstep 0 0,                                    -- worker 0: its second block waits too
   .recv 1 (.new 2 (cfgA 1)), .mgr]               -- peer 1's request: accepted, task pending

def poolCfg : Cfg := { limit := 100, nWorkers := 2 }
def poolStalled : State := run (init poolCfg) poolScript

theorem thawAll_noop (s : State) (h : s.queues.all (fun q => q.freeze == 0) = true) : thawAll s = s := by
  unfold thawAll
  have hq : s.queues.map (fun q => { q with freeze := q.freeze - (q.freeze + 1) / 2 }) = s.queues := by
    conv => rhs; rw [← List.map_id s.queues]
    apply List.map_congr_left
    intro q hq
    have : q.freeze = 0 := by simpa using List.all_eq_true.1 h q hq
    cases q
    simp_all
  rw [hq]

theorem mgrStep_none (s : State) (h : (s.park.isNone && s.mailbox.isEmpty) = true) : mgrStep s = none := by
  simp only [Bool.and_eq_true, Option.isNone_iff_eq_none, List.isEmpty_iff] at h
  unfold mgrStep
  rw [h.1, h.2]

/-- everything that is evaluated on the concrete state, in one go -/
def poolFacts (s : State) : Bool :=
  freshRun (init poolCfg) poolScript &&
  (s.park.isNone && s.mailbox.isEmpty) &&
  ((getQ s 1).pending == [(2, 1)]) && ((getQ s 1).freeze == 0) &&
  (s.nWorkers != 0 && decide (s.nWorkers ≤ liveWorkers s)) &&
  s.queues.all (fun q => !(q.pending.isEmpty && q.active.isEmpty)) &&
  s.workers.all (fun x => inert x.phase) &&
  s.mqs.all (fun q => q.inflight.isSome || (match q.next with | none => true | some b => b.empty)) &&
  s.mqs.all (fun q => q.pubQ.isEmpty) &&
  s.queues.all (fun q => q.freeze == 0)

theorem poolFacts_hold : poolFacts poolStalled = true := by decide

/-- **C25.pool_exhaustion_counterexample** (known finding `worker-pool-parked-on-peer-reservation`): a
    reachable state in which the manager is NOT parked and its mailbox is empty, peer 1's task is pending
    and its peer is not frozen, yet no internal action of any process is enabled (or it is a no-op):
    both workers of the pool wait inside reservations of the stalled peer 0, so no worker can pop.  Only
    peer 0's network (`net 0 _`) can ever change that.  Outside the class
    `manager-blocked-on-peer-reservation`; replayed on the REAL fixed pool by the `pool` stream. -/
theorem pool_exhaustion_counterexample :
    ReachableFresh poolCfg poolStalled ∧ poolStalled.park = none ∧ poolStalled.mailbox = [] ∧
    (getQ poolStalled 1).pending = [(2, 1)] ∧ (getQ poolStalled 1).freeze = 0 ∧
    (∀ a, Internal a → step poolStalled a = none ∨ step poolStalled a = some poolStalled) := by
  have hf := poolFacts_hold
  simp only [poolFacts, Bool.and_eq_true] at hf
  obtain ⟨⟨⟨⟨⟨⟨⟨⟨⟨h1, h2⟩, h3⟩, h4⟩, h5⟩, h6⟩, h7⟩, h8⟩, h9⟩, h10⟩ := hf
  have h2' := h2
  simp only [Option.isNone_iff_eq_none, List.isEmpty_iff] at h2'
  refine ⟨reachableFresh_run ReachableFresh.init _ h1, h2'.1, h2'.2, by simpa using h3, by simpa using h4, ?_⟩
  intro a ha
  cases a with
  | mgr => left; exact mgrStep_none _ (by simpa using h2)
  | pop p id => left; exact popTask_none_pool _ p id (by simpa using h5)
  | reap p => left; exact reap_none _ p h6
  | wstep w pick => left; exact wstep_none _ w pick h7
  | extract p => left; exact extract_none _ p h8
  | pub p => left; exact pubStep_none _ p h9
  | thaw => right; show some (thawAll poolStalled) = some poolStalled; rw [thawAll_noop _ h10]
  | recv p r => exact absurd ha (by simp [Internal])
  | api c => exact absurd ha (by simp [Internal])
  | net p ok => exact absurd ha (by simp [Internal])
  | primer p => exact absurd ha (by simp [Internal])

/-- the lasso for the pool: staying in `poolStalled` forever is a weakly fair execution on which peer
    1's queued request is never executed -/
theorem pool_exhaustion_fair_execution :
    Exec ⟨step⟩ (fun _ => poolStalled) ∧ WF1 ⟨step⟩ Internal (fun _ => poolStalled) ∧
    ¬ LeadsTo (fun _ => poolStalled) (fun s => (getQ s 1).pending = [(2, 1)])
               (fun s => (getQ s 1).pending = []) := by
  refine ⟨fun _ => Or.inl rfl, ?_, ?_⟩
  · intro a ha i hen
    rcases pool_exhaustion_counterexample.2.2.2.2.2 a ha with h | h
    · have := hen i (Nat.le_refl _)
      simp [Sys.enabled, h] at this
    · exact ⟨i, Nat.le_refl _, h⟩
  · intro hl
    obtain ⟨j, _, hj⟩ := hl 0 pool_exhaustion_counterexample.2.2.2.1
    have := pool_exhaustion_counterexample.2.2.2.1
    simp only at hj
    rw [this] at hj
    cases hj

/-- the responder as a transition system of the temporal layer -/
def sys : Sys State Action := ⟨step⟩

/-- the execution that stays in the stalled state forever -/
def stuck : Nat → State := fun _ => stalled

/-- **C25.counterexample** (the lasso): the execution `stuck` is an execution of the model, it is
    weakly fair for every internal action of every process (manager, workers, queue goroutines,
    publishers, ticker) — none of them is ever enabled, or taking it changes nothing — peer 1's
    request is in the mailbox from the start, and it is never handled.  So "a mailbox message of a peer
    other than the stalled one is eventually handled" is false on a fair execution. -/
theorem counterexample_fair_execution :
    Exec sys stuck ∧ WF1 sys Internal stuck ∧
    ¬ LeadsTo stuck (fun s => Msg.processRequests 1 (.new 2 (cfgA 2)) ∈ s.mailbox)
                    (fun s => s.handled > stalled.handled) := by
  refine ⟨fun _ => Or.inl rfl, ?_, ?_⟩
  · intro a ha i hen
    rcases counterexample.2.2.2 a ha with h | h
    · have := hen i (Nat.le_refl _)
      simp [Sys.enabled, sys, stuck, h] at this
    · exact ⟨i, Nat.le_refl _, h⟩
  · intro hl
    obtain ⟨j, _, hj⟩ := hl 0 counterexample.2.2.1
    exact Nat.lt_irrefl _ hj

-- ------------------------------------------------------------------ tie to the source, requestor side
/-- the transactions the real response manager executes on its own goroutine that can carry data
    (regenerated from server.go / preparequery.go on every run) are exactly the four manager steps that
    can park in the model: `MgrCont.procUpdate`, `.unpause`, `.update`, `.newReq` (= prepareQuery).  A
    new manager-side transaction with data, or one moved to the executor, changes the generated table
    and breaks this theorem. -/
theorem manager_tx_sites :
    (GS.Generated.MgrTx.managerTransactions.filter (·.2)).map (·.1) =
      ["processUpdate", "unpauseRequest", "updateRequest", "prepareQuery"] := by decide

/-- **C25.requestor**: the request manager's only call into a peer's message queue made on its own
    goroutine, `SendRequest`, reserves 0 bytes (regenerated from requestmanager/client.go), the queue
    reserves memory only for sizes > 0 (regenerated from messagequeue.go), and in the model a
    transaction of size 0 never waits.  (That response collectors buffer without bound, so that the
    request manager never waits for a consumer either, is covered by the C04 cluster.) -/
theorem requestor :
    GS.Generated.MgrTx.sendRequestReservation = 0 ∧
    GS.Generated.MgrTx.reservationGuardedBySizePositive = true ∧
    ∀ (s : State) (party : Party) (p : Peer) (id : Id) (ops : List TxOp),
      txSize s.extLen ops = 0 → (execTx s party p id ops).2 = true :=
  ⟨rfl, rfl, execTx_size0⟩

-- ------------------------------------------------------------------ C25.partial, liveness half
/-- environment inputs never make the manager run a transaction with extension data -/
def noExtEnv : Action → Bool
  | .recv p r => msgNoExt (.processRequests p r)
  | .api c => msgNoExt (.api c)
  | _ => true

/-- the responder when all manager-side transactions have size 0 -/
def sysNE : Sys State Action := ⟨fun s a => if noExtEnv a then step s a else none⟩

/-- the manager is not parked, every queued message is free of manager-side extension data, and at
    least `c` messages have been enqueued so far -/
def Pending (c : Nat) (s : State) : Prop :=
  s.park = none ∧ (∀ m ∈ s.mailbox, msgNoExt m = true) ∧ c ≤ s.handled + s.mailbox.length

theorem pending_of_grow {c : Nat} {s s' : State} (h : Pending c s) (hg : MbGrow s s') (hp : s'.park = none) :
    Pending c s' ∧ s'.handled = s.handled := by
  obtain ⟨e, ex, hm, hn⟩ := hg
  refine ⟨⟨hp, ?_, ?_⟩, e⟩
  · intro m hmem
    rw [hm] at hmem
    rcases List.mem_append.1 hmem with h1 | h1
    · exact h.2.1 m h1
    · exact hn m h1
  · rw [e, hm, List.length_append]
    have := h.2.2
    omega

theorem mgrStep_unparked {s s' : State} (hp : s.park = none) (hs : step s .mgr = some s') :
    ∃ m rest, s.mailbox = m :: rest ∧ s' = handle { s with mailbox := rest, handled := s.handled + 1 } m := by
  simp only [step] at hs
  unfold mgrStep at hs
  split at hs
  · rename_i pk hpk; rw [hp] at hpk; cases hpk
  · split at hs
    · cases hs
    · rename_i m rest hm; cases hs; exact ⟨m, rest, hm, rfl⟩

theorem neRule (c : Nat) :
    VariantRule sysNE (fun a => a = Action.mgr) (Pending c) (fun s => c ≤ s.handled) (fun s => c - s.handled) := by
  have mgrCase : ∀ s s', Pending c s → step s .mgr = some s' →
      Pending c s' ∧ s'.handled = s.handled + 1 := by
    intro s s' hP hs
    obtain ⟨m, rest, hm, rfl⟩ := mgrStep_unparked hP.1 hs
    · have hk := mbk_handle { s with mailbox := rest, handled := s.handled + 1 } m
      have hmb : (handle { s with mailbox := rest, handled := s.handled + 1 } m).mailbox = rest :=
        congrArg Prod.fst hk
      have hh : (handle { s with mailbox := rest, handled := s.handled + 1 } m).handled = s.handled + 1 :=
        congrArg Prod.snd hk
      have hx : msgNoExt m = true := hP.2.1 m (by rw [hm]; exact List.mem_cons_self)
      refine ⟨⟨park_handle_noext _ m hP.1 hx, ?_, ?_⟩, hh⟩
      · intro m' hm'
        rw [hmb] at hm'
        exact hP.2.1 m' (by rw [hm]; exact List.mem_cons_of_mem _ hm')
      · rw [hh, hmb]
        have := hP.2.2
        rw [hm, List.length_cons] at this
        omega
  have otherCase : ∀ s a s', Pending c s → a ≠ .mgr → noExtEnv a = true → step s a = some s' →
      Pending c s' ∧ s'.handled = s.handled := by
    intro s a s' hP ha hne hs
    have hpk := park_other_step hs ha hP.1
    have hg : MbGrow s s' := by
      cases a with
      | mgr => exact absurd rfl ha
      | recv p r =>
        simp only [step, Option.some.injEq] at hs; subst hs
        exact mbg_trans (b := { s with seenIds := _ }) (mbg_of_eq rfl) (mbg_sendMsg _ _ hne)
      | api cc =>
        simp only [step, Option.some.injEq] at hs; subst hs
        exact mbg_sendMsg _ _ hne
      | pop p id => exact mbg_popTask hs
      | reap p => exact mbg_reap hs
      | wstep w pick => exact mbg_wstep hs
      | extract p => exact mbg_extract hs
      | net p ok => exact mbg_netResolve hs
      | pub p => exact mbg_pubStep hs
      | primer p =>
        simp only [step, Option.some.injEq] at hs; subst hs
        exact mbg_of_eq (by unfold primer; simp)
      | thaw =>
        simp only [step, Option.some.injEq] at hs; subst hs
        exact mbg_of_eq rfl
    exact pending_of_grow hP hg hpk
  refine ⟨?_, ?_, ?_⟩
  · intro s hP hnQ
    refine ⟨.mgr, rfl, ?_⟩
    have hlen : s.mailbox ≠ [] := by
      intro he
      have := hP.2.2
      rw [he] at this
      simp at this
      exact hnQ this
    cases hm : s.mailbox with
    | nil => exact absurd hm hlen
    | cons m rest => simp [Sys.enabled, sysNE, noExtEnv, step, mgrStep, hP.1, hm]
  · intro s a s' hP _ hs
    simp only [sysNE] at hs
    split at hs
    · rename_i hne
      by_cases ha : a = .mgr
      · subst ha
        obtain ⟨h1, h2⟩ := mgrCase s s' hP hs
        exact ⟨Or.inl h1, by rw [h2]; omega⟩
      · obtain ⟨h1, h2⟩ := otherCase s a s' hP ha hne hs
        exact ⟨Or.inl h1, by rw [h2]; exact Nat.le_refl _⟩
    · cases hs
  · intro s a s' hP hnQ ha hs
    subst ha
    simp only [sysNE, noExtEnv, if_true] at hs
    obtain ⟨_, h2⟩ := mgrCase s s' hP hs
    right
    rw [h2]
    omega

/-- **C25.partial** (liveness half): when all manager-side transactions have size 0, on every
    execution that is weakly fair for the manager, every message that is in the mailbox is eventually
    handled: if at some point `c` messages have been enqueued in total (handled + waiting) then
    eventually `c` messages have been handled — whatever any peer's network or memory allowance does.
    (Weak fairness of the manager goroutine stands for the Go scheduler, which is not modelled.) -/
theorem partial_handled (σ : Nat → State) (hex : Exec sysNE σ) (hwf : WFAll sysNE (fun a => a = Action.mgr) σ)
    (c : Nat) : LeadsTo σ (Pending c) (fun s => c ≤ s.handled) :=
  leadsTo_of_variant (neRule c) hex hwf

/-- non-vacuity of `partial_handled`: the hypothesis `Pending` holds in a non-trivial reachable state
    (two requests waiting in the mailbox) -/
example : Pending 2 (run (init { limit := 100 }) [.recv 0 (.new 0 (cfgA 3)), .recv 1 (.new 1 (cfgA 2))]) := by
  refine ⟨rfl, ?_, by decide⟩
  intro m hm
  have : m ∈ [Msg.processRequests 0 (.new 0 (cfgA 3)), Msg.processRequests 1 (.new 1 (cfgA 2))] := hm
  simp only [List.mem_cons, List.mem_nil_iff, or_false] at this
  rcases this with h | h <;> subst h <;> rfl

/-- non-vacuity of `partial_never_parks`: a non-trivial state reachable under its hypothesis (a request
    without hook data is registered and queued) -/
example : ∃ s, ReachableNE { limit := 100 } s ∧ s.table ≠ [] := by
  refine ⟨run (init { limit := 100 }) [.recv 0 (.new 0 (cfgA 3)), .mgr], ?_, by decide⟩
  exact ReachableNE.step (a := .mgr) (ReachableNE.step (a := .recv 0 (.new 0 (cfgA 3))) ReachableNE.init trivial rfl)
    (by show msgNoExt _ = true; rfl) rfl

end GS.C25
