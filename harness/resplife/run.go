package resplife

import (
	"bufio"
	"context"
	"errors"
	"fmt"
	"io"
	"sort"
	"strconv"
	"strings"
	"time"

	"github.com/ipfs/go-graphsync"
	gsmsg "github.com/ipfs/go-graphsync/message"
	"github.com/ipfs/go-graphsync/messagequeue"
	"github.com/ipfs/go-graphsync/peerstate"
	"github.com/ipld/go-ipld-prime/node/basicnode"

	"verifharness/reg"
)

// Script ops (one output line each):
//
//	cfg <npeers> <perPeerLimit|0> <leafLen> <innerLen> <extLen>
//	new <p> <k> <id> <pri> <hook> <n> <miss|-1> <bhplan> requestor p sends a new request (logical number k, id index id)
//	cancel <p> <id>          requestor cancel message
//	upd <p> <id> <plan>      requestor update message; plan o x e u U is what the update hook will do
//	pause <id> | unpause <id> <0|1> | rcancel <id> | rupdate <id> <0|1>     responder API
//	pop                      a worker pops the next task and runs until it parks
//	step <w>                 release worker w's park
//	net <p> ok|fail          resolve the message of peer p that is parked in SendMsg
//	thaw                     PeerTaskQueue.ThawRound (the worker ticker of the real task queue)
//	end                      final summary
//
// Output line: `<result> ev:<events> st:<peer states> pr:<protected> fl:<in flight> wk:<workers>`.

type runner struct {
	e       *engine
	out     *reg.Out
	comp    string
	hung    bool
	leafLen int
	innLen  int
	extLen  int
	// manager-blocked bookkeeping (stall)
	mgrBlocked   bool
	blockedAlloc []*blockedAlloc
	pendingAPI   int
	apiSeq       int
	// oracle ledgers
	done, canc, nerr map[int]int
	failed           map[string]bool
	receivedOrder    []int
	// dupLive: request-id indexes the script re-used while a response with that id was LIVE for the
	// SAME peer (the known findings dup-live-id / dup-live-id-queue are about exactly these ids and
	// about exactly the failure modes listed at dupClass); foreignNew: `new` requests whose id was live
	// for ANOTHER peer at that moment (the responder ignores those, /repo 7d665e5)
	dupLive         map[int]bool
	foreignNew      map[int]int
	sawMgrBlockedOn int // peer the manager was seen blocked on (stack evidence), -1
	lastBlockedPeer int
	sig             map[int]int // id index -> signalling ops since the executor's last signal check
	pendingClose    map[int]int // peer -> subscriber notifications still running behind the parked manager
	autoAck         int         // baseline run of the C25 oracle: this peer acknowledges at once; -1 otherwise
}

func (r *runner) fail(class, format string, a ...interface{}) {
	key := class
	if r.failed[key] {
		return
	}
	r.failed[key] = true
	r.out.Fail(class, format, a...)
}

// ---------------------------------------------------------------- note pump

// handle updates harness bookkeeping for one note; returns it for the caller's predicate
func (r *runner) handle(n note) {
	e := r.e
	switch n.kind {
	case "sendmsg":
		e.mu.Lock()
		e.inflt[n.p] = e.next[n.p]
		e.next[n.p] = nil
		e.infltW[n.p] = n.w
		e.mu.Unlock()
	case "loader":
		n.wk.state = "L"
	case "hook":
		n.wk.state = "H"
	case "prefinish":
		n.wk.state = "F"
	case "prestart":
		n.wk.state = "P"
	case "done":
		e.mu.Lock()
		n.wk.state = "D"
		e.mu.Unlock()
	case "blocked":
		for _, w := range e.workers {
			if w.gid == n.gid && w.state != "D" {
				n.ba.party = w
				w.state = "B"
			}
		}
		r.blockedAlloc = append(r.blockedAlloc, n.ba)
		if n.ba.party == nil {
			r.lastBlockedPeer = n.p
		}
	}
}

// pump processes notes until pred holds; false on watchdog expiry
func (r *runner) pump(pred func(n note) bool) bool {
	for {
		n, err := r.e.wait()
		if err != nil {
			r.hung = true
			r.fail("hang", "watchdog expired while waiting for the real code to reach its next synchronisation point")
			return false
		}
		r.handle(n)
		if pred(n) {
			return true
		}
	}
}

// pumpDeadline is pump with a short deadline (only used while the manager is known to be blocked)
func (r *runner) pumpDeadline(d time.Duration, pred func(n note) bool) bool {
	t := time.NewTimer(d)
	defer t.Stop()
	for {
		select {
		case n := <-r.e.notes:
			r.handle(n)
			if pred(n) {
				return true
			}
		case <-t.C:
			return false
		}
	}
}

// ---------------------------------------------------------------- network

// primer: make peer p's queue goroutine park in SendMsg again (see package comment)
func (r *runner) prime(p int) bool {
	e := r.e
	id := graphsync.NewRequestID()
	req := gsmsg.NewCancelRequest(id)
	e.pmm.AllocateAndBuildMessage(e.peers[p], 0, func(b *messagequeue.Builder) {
		b.AddRequest(req)
		e.mu.Lock()
		e.next[p] = b
		e.mu.Unlock()
	})
	return r.pump(func(n note) bool { return n.kind == "sendmsg" && n.p == p })
}

func (r *runner) ensureParked(p int) bool {
	e := r.e
	e.mu.Lock()
	parked := e.infltW[p] != nil
	nb := e.next[p]
	e.mu.Unlock()
	if parked {
		return true
	}
	if nb != nil && !nb.Empty() {
		return r.pump(func(n note) bool { return n.kind == "sendmsg" && n.p == p })
	}
	return r.prime(p)
}

func (r *runner) opNet(p int, ok bool) string {
	e := r.e
	if p < 0 || p >= e.npeers {
		return "bad"
	}
	e.mu.Lock()
	b := e.inflt[p]
	w := e.infltW[p]
	e.mu.Unlock()
	if w == nil {
		return "none"
	}
	nsubs := 0
	if b != nil {
		nsubs = len(b.Subscribers())
	}
	summary := wireSummary(e, w)
	e.mu.Lock()
	e.inflt[p] = nil
	e.infltW[p] = nil
	e.mu.Unlock()
	if ok {
		e.net.outcome[p] <- nil
	} else {
		e.net.outcome[p] <- errors.New("scripted send failure")
	}
	for i := 0; i < nsubs; i++ {
		isClose := func(n note) bool { return n.kind == "onclose" && n.p == p }
		if r.mgrBlocked {
			// a subscriber may be calling into the parked manager: the rest arrives when it resumes
			if !r.pumpDeadline(stallDeadline, isClose) {
				r.pendingClose[p] += nsubs - i
				break
			}
			continue
		}
		if !r.pump(isClose) {
			return "hang"
		}
	}
	if !ok {
		// scrubResponses (run by publishError) drops every queued builder that is empty afterwards
		e.mu.Lock()
		if nb := e.next[p]; nb != nil && nb.Empty() {
			e.next[p] = nil
		}
		e.mu.Unlock()
	}
	if !r.ensureParked(p) {
		return "hang"
	}
	if !r.deliverGrants() {
		return "hang"
	}
	res := "sent"
	if !ok {
		res = "failed"
	}
	return res + summary
}

// deliverGrants forwards allocator grants that have become available: the manager first (it then
// drains its mailbox), then the workers in the order in which they started waiting; each resumed
// party runs to its next synchronisation point
func (r *runner) deliverGrants() bool {
	take := func(mgr bool) *blockedAlloc {
		for i, ba := range r.blockedAlloc {
			if (ba.party == nil) != mgr {
				continue
			}
			select {
			case err := <-ba.in:
				r.blockedAlloc = append(r.blockedAlloc[:i:i], r.blockedAlloc[i+1:]...)
				ba.out <- err
				return ba
			default:
			}
		}
		return nil
	}
	for {
		if ba := take(true); ba != nil {
			r.mgrBlocked = false
			if !r.drainManager() {
				return false
			}
			continue
		}
		if ba := take(false); ba != nil {
			ba.party.state = "R"
			if !r.waitWorker(ba.party) {
				return false
			}
			continue
		}
		return true
	}
}

// drainManager: the manager goroutine runs again; every outstanding API call completes (unless it
// parks again), then the workers that were waiting for the manager reach their next park
func (r *runner) drainManager() bool {
	for r.pendingAPI > 0 {
		blockedAgain := false
		if !r.pump(func(n note) bool {
			if n.kind == "blocked" && n.ba.party == nil {
				blockedAgain = true
				return true
			}
			return n.kind == "api"
		}) {
			return false
		}
		if blockedAgain {
			r.mgrBlocked = true
			return true
		}
		r.pendingAPI--
	}
	r.sync()
	for p := 0; p < r.e.npeers; p++ {
		for ; r.pendingClose[p] > 0; r.pendingClose[p]-- {
			pp := p
			if !r.pump(func(n note) bool { return n.kind == "onclose" && n.p == pp }) {
				return false
			}
		}
	}
	for _, w := range r.e.workers {
		if w.state == "M" {
			w.state = "R"
			if !r.waitWorker(w) {
				return false
			}
		}
	}
	return true
}

// ---------------------------------------------------------------- manager-facing ops

// api runs f (which talks to the response manager through its mailbox and ends with a mailbox round
// trip) on its own goroutine and waits for it; when the manager goroutine is blocked inside an
// allocation the result is "blocked" (first time) / "timeout".
func (r *runner) api(f func() string) string {
	e := r.e
	var res string
	go func() {
		s := f()
		e.notes <- note{kind: "api", res: s}
	}()
	r.pendingAPI++
	if r.mgrBlocked {
		// the manager is parked in an allocation: the call cannot complete; confirm with a deadline
		if r.pumpDeadline(stallDeadline, func(n note) bool { return n.kind == "api" }) {
			r.pendingAPI--
			return "late"
		}
		return "timeout"
	}
	blocked := false
	if !r.pump(func(n note) bool {
		if n.kind == "api" {
			res = n.res
			return true
		}
		if n.kind == "blocked" {
			blocked = true
			return true
		}
		return false
	}) {
		return "hang"
	}
	if blocked {
		r.mgrBlocked = true
		if managerBlockedInAllocation() {
			r.sawMgrBlockedOn = r.lastBlockedPeer
		}
		return "blocked"
	}
	r.pendingAPI--
	return res
}

var stallDeadline = 150 * time.Millisecond

func errClass(err error) string {
	if err == nil {
		return "ok"
	}
	var nf graphsync.RequestNotFoundErr
	if errors.As(err, &nf) {
		return "notfound"
	}
	return "err"
}

func (r *runner) sync() {
	_ = r.e.rm.PeerState(r.e.peers[0])
}

// ---------------------------------------------------------------- workers

// waitWorker: until worker w parks (loader / hook / allocator) or is done.  While the manager is
// parked a worker may instead be waiting for the manager (StartTask / GetUpdates / FinishTask): that
// is concluded from a deadline and shown as state M.
func (r *runner) waitWorker(w *worker) bool {
	pred := func(n note) bool {
		switch n.kind {
		case "loader", "hook", "done", "prefinish", "prestart":
			return n.wk == w
		case "blocked":
			return n.ba.party == w
		}
		return false
	}
	if r.mgrBlocked {
		if !r.pumpDeadline(stallDeadline, pred) {
			w.state = "M"
		}
		return true
	}
	return r.pump(pred)
}

func (r *runner) opPop(hold bool) string {
	e := r.e
	if r.mgrBlocked {
		return "refused"
	}
	if e.nWorkers > 0 {
		live := 0
		for _, w := range e.workers {
			if w.state != "D" {
				live++
			}
		}
		if live >= e.nWorkers {
			return "busy" // every worker of the pool is executing a task
		}
	}
	pid, tasks, _ := e.tq.PeerTaskQueue.PopTasks(1)
	if len(tasks) == 0 {
		return "none"
	}
	task := tasks[0]
	w := &worker{id: len(e.workers), peer: peerIdx(pid), idIdx: e.idIndex(task.Topic.(graphsync.RequestID)), state: "R", release: make(chan bool), holdStart: hold}
	e.mu.Lock()
	e.workers = append(e.workers, w)
	e.mu.Unlock()
	started := make(chan struct{})
	go func() {
		w.gid = curGID()
		close(started)
		e.qe.ExecuteTask(e.ctx, pid, task)
		e.notes <- note{kind: "done", wk: w}
	}()
	<-started
	if !r.waitWorker(w) {
		return "hang"
	}
	return fmt.Sprintf("w%d:p%d:r%d:%s", w.id, w.peer, w.idIdx, w.state)
}

func (r *runner) opStep(wi int) string {
	e := r.e
	if r.mgrBlocked {
		return "refused"
	}
	if wi < 0 || wi >= len(e.workers) {
		return "bad"
	}
	w := e.workers[wi]
	if w.state != "L" && w.state != "H" && w.state != "F" && w.state != "P" {
		return "bad"
	}
	if w.state == "L" {
		r.sig[w.idIdx] = 0 // the executor passes a signal check with this block
	}
	w.state = "R"
	w.release <- true
	if !r.waitWorker(w) {
		return "hang"
	}
	return w.state
}

// ---------------------------------------------------------------- snapshot

func stName(s graphsync.RequestState) string {
	switch s {
	case graphsync.Queued:
		return "Q"
	case graphsync.Running:
		return "R"
	case graphsync.Paused:
		return "P"
	case graphsync.CompletingSend:
		return "C"
	}
	return "?"
}

func wireSummary(e *engine, w *wire) string {
	var parts []string
	for _, resp := range w.msg.Responses() {
		parts = append(parts, fmt.Sprintf("r%d:%d:%d:%d", e.idIndex(resp.RequestID()), int(resp.Status()), resp.Metadata().Length(), len(resp.ExtensionNames())))
	}
	sort.Strings(parts)
	return "<" + strings.Join(parts, ",") + ">"
}

func (r *runner) peerStates() []peerstate.PeerState {
	var pss []peerstate.PeerState
	for p := 0; p < r.e.npeers; p++ {
		pss = append(pss, r.e.rm.PeerState(r.e.peers[p]))
	}
	return pss
}

func (r *runner) snapshot() string {
	e := r.e
	var sb strings.Builder
	// events
	e.mu.Lock()
	evs := e.events
	e.events = nil
	e.mu.Unlock()
	cnt := map[string]int{}
	for _, ev := range evs {
		var s string
		switch ev.kind {
		case "done":
			s = fmt.Sprintf("done(r%d,%d)", ev.k, int(ev.status))
			r.done[ev.k]++
		case "canc":
			s = fmt.Sprintf("canc(r%d)", ev.k)
			r.canc[ev.k]++
		case "nerr":
			s = fmt.Sprintf("nerr(r%d)", ev.k)
			r.nerr[ev.k]++
		default:
			s = fmt.Sprintf("%s(r%d)", ev.kind, ev.k)
		}
		cnt[s]++
	}
	var es []string
	for s, n := range cnt {
		if n > 1 {
			s = fmt.Sprintf("%sx%d", s, n)
		}
		es = append(es, s)
	}
	sort.Strings(es)
	sb.WriteString("ev:" + strings.Join(es, ","))
	// peer states
	sb.WriteString(" st:")
	if r.mgrBlocked || r.hung {
		sb.WriteString("?")
	} else {
		pss := r.peerStates()
		for p, ps := range pss {
			var ss, act, pend []string
			for id, st := range ps.RequestStates {
				ss = append(ss, fmt.Sprintf("r%d=%s", e.idIndex(id), stName(st)))
			}
			for _, id := range ps.Active {
				act = append(act, fmt.Sprintf("r%d", e.idIndex(id)))
			}
			for _, id := range ps.Pending {
				pend = append(pend, fmt.Sprintf("r%d", e.idIndex(id)))
			}
			sort.Strings(ss)
			sort.Strings(act)
			sort.Strings(pend)
			fmt.Fprintf(&sb, "p%d[%s|a:%s|q:%s]", p, strings.Join(ss, ","), strings.Join(act, ","), strings.Join(pend, ","))
			if r.quiescentWorkers() {
				r.checkAgree(p, ps)
			}
		}
	}
	sb.WriteString(" pr:" + strings.Join(e.conn.snapshot(), ","))
	sb.WriteString(" fl:")
	for p := 0; p < e.npeers; p++ {
		e.mu.Lock()
		w := e.infltW[p]
		e.mu.Unlock()
		if w == nil {
			fmt.Fprintf(&sb, "p%d-", p)
		} else {
			fmt.Fprintf(&sb, "p%d%s", p, wireSummary(e, w))
		}
	}
	sb.WriteString(" wk:")
	var ws []string
	for _, w := range e.workers {
		if w.state != "D" {
			ws = append(ws, fmt.Sprintf("w%d=%s", w.id, w.state))
		}
	}
	sb.WriteString(strings.Join(ws, ","))
	if r.mgrBlocked {
		sb.WriteString(" mg:blocked")
	}
	r.checkOutcomesSafety()
	return sb.String()
}

// ---------------------------------------------------------------- oracles (from the property text)

// quiescentWorkers: no executor is between its last transaction and FinishTask (state F: "FinishTask in
// flight") or waiting for the manager (M); parked in a loader / hook / reservation is quiescent
func (r *runner) quiescentWorkers() bool {
	for _, w := range r.e.workers {
		// P: between PopTasks and StartTask (a transient of the worker, not a resting state of the node)
		if w.state == "F" || w.state == "M" || w.state == "R" || w.state == "P" {
			return false
		}
	}
	return true
}

// C23: at a quiescent barrier, Queued <-> pending, Running <-> active, Paused/CompletingSend in neither
func (r *runner) checkAgree(p int, ps peerstate.PeerState) {
	if d := ps.Diagnostics(); len(d) > 0 {
		var msgs []string
		var ids []int
		for id, m := range d {
			msgs = append(msgs, fmt.Sprintf("r%d: %s", r.e.idIndex(id), strings.Join(m, "; ")))
			ids = append(ids, r.e.idIndex(id))
		}
		sort.Strings(msgs)
		r.fail(r.dupClass("diagnostics", ids...), "peer %d: PeerState.Diagnostics() not empty at a quiescent barrier: %s", p, strings.Join(msgs, " | "))
	}
	act := map[graphsync.RequestID]bool{}
	pend := map[graphsync.RequestID]bool{}
	for _, id := range ps.Active {
		act[id] = true
	}
	for _, id := range ps.Pending {
		pend[id] = true
	}
	for id, st := range ps.RequestStates {
		bad := ""
		switch st {
		case graphsync.Queued:
			if !pend[id] || act[id] {
				bad = "queued but not (only) pending"
			}
		case graphsync.Running:
			if !act[id] || pend[id] {
				bad = "running but not (only) active"
			}
		default:
			if act[id] || pend[id] {
				bad = "paused/completing but in the task queue"
			}
		}
		if bad != "" {
			r.fail(r.dupClass("state-queue-mismatch", r.e.idIndex(id)), "peer %d request r%d: %s (state %s)", p, r.e.idIndex(id), bad, stName(st))
		}
	}
	for id := range act {
		if _, ok := ps.RequestStates[id]; !ok {
			r.fail("state-queue-mismatch", "peer %d: active task r%d has no request state", p, r.e.idIndex(id))
		}
	}
	for id := range pend {
		if _, ok := ps.RequestStates[id]; !ok {
			r.fail("state-queue-mismatch", "peer %d: pending task r%d has no request state", p, r.e.idIndex(id))
		}
	}
}

// The known findings dup-live-id (C05) and dup-live-id-queue (C23) cover a `new` request that re-uses
// the id of a response that is live for the same peer, and only these consequences for THAT id:
//   - Protect is issued twice for (peer, id)                          (mode "protect-unbalanced")
//   - fewer outcomes than requests are reported for the id           (mode "fewer-outcomes")
//   - the task queue merged / skipped the task: PeerState.Diagnostics / state-queue agreement
//     complain about that id                                          (modes "diagnostics", "state-queue-mismatch")
//
// Every other failure mode, and every other request of the case, keeps its normal class.
func (r *runner) dupClass(c string, ids ...int) string {
	normal := c
	if c == "fewer-outcomes" {
		normal = "outcome-none"
	}
	if len(ids) == 0 {
		return normal
	}
	for _, id := range ids {
		if !r.dupLive[id] {
			return normal
		}
	}
	switch c {
	case "diagnostics", "state-queue-mismatch":
		return "dup-live-id-queue"
	case "protect-unbalanced", "fewer-outcomes":
		return "dup-live-id"
	}
	return normal
}

func (r *runner) checkOutcomesSafety() {
	for id, n := range r.e.received {
		// an id that was received n times (re-used after retirement, or while live) may legitimately be
		// completed / cancelled once per request
		if r.done[id] > n {
			r.fail("completed-twice", "request r%d (received %d time(s)) reported to completed listeners %d times", id, n, r.done[id])
		}
		if r.canc[id] > n {
			r.fail("cancelled-twice", "request r%d (received %d time(s)) reported to cancelled listeners %d times", id, n, r.canc[id])
		}
		if r.done[id]+r.canc[id]+r.nerr[id] > n {
			// since /repo e842a00 a failed message is reported to the network-error listeners only
			// while the response exists, so every request has at most one outcome of any kind
			r.fail("outcome-multi", "request r%d (received %d time(s)) reached more than one outcome per request: completed=%d cancelled=%d network-error=%d", id, n, r.done[id], r.canc[id], r.nerr[id])
		}
	}
	// Protect / Unprotect alternate per (peer, tag)
	r.e.conn.mu.Lock()
	last := map[string]byte{}
	for _, l := range r.e.conn.log {
		k := l[1:]
		if last[k] == l[0] || (last[k] == 0 && l[0] == '-') {
			r.e.conn.mu.Unlock()
			var pp, id int
			cls := "protect-unbalanced"
			// two Protects in a row for the tag of an id re-used while live for that peer: known finding
			if n, _ := fmt.Sscanf(k, "p%d/r%d", &pp, &id); n == 2 && l[0] == '+' {
				cls = r.dupClass("protect-unbalanced", id)
			}
			r.fail(cls, "Protect/Unprotect do not alternate for %s: %v", k, r.e.conn.log)
			return
		}
		last[k] = l[0]
	}
	r.e.conn.mu.Unlock()
}

// nothingLeft: no worker alive, no task pending, nothing but primers in flight, nothing accumulated,
// no paused request, manager not blocked: whatever state remains now remains forever.
func (r *runner) nothingLeft(pss []peerstate.PeerState) bool {
	e := r.e
	if r.mgrBlocked || len(r.blockedAlloc) > 0 {
		return false
	}
	for _, w := range e.workers {
		if w.state != "D" {
			return false
		}
	}
	st := e.tq.Stats()
	if st.Pending != 0 {
		return false
	}
	for p := 0; p < e.npeers; p++ {
		e.mu.Lock()
		w := e.infltW[p]
		nb := e.next[p]
		e.mu.Unlock()
		if w != nil && len(w.msg.Responses()) > 0 {
			return false
		}
		if nb != nil && !nb.Empty() {
			return false
		}
	}
	for _, ps := range pss {
		for _, s := range ps.RequestStates {
			if s == graphsync.Paused {
				return false
			}
		}
	}
	return true
}

func (r *runner) opEnd() string {
	e := r.e
	if r.hung {
		return "end hung"
	}
	if r.mgrBlocked {
		r.out.Cov("end.manager-blocked")
		return "end blocked"
	}
	pss := r.peerStates()
	left := 0
	for _, ps := range pss {
		left += len(ps.RequestStates)
	}
	stats := e.tq.Stats()
	alloc := e.alloc.inner.Stats()
	prot := e.conn.snapshot()
	quiet := r.nothingLeft(pss)
	r.checkWorkAccounting(pss, left)
	res := fmt.Sprintf("end quiet=%v left=%d prot=%d active=%d pending=%d alloc=%d", quiet, left, len(prot), stats.Active, stats.Pending, alloc.TotalAllocatedAllPeers)
	if !quiet {
		r.out.Cov("end.incomplete")
		return res
	}
	r.out.Cov("end.quiet")
	// C05: every received request reached exactly one outcome and is fully retired
	for id, n := range e.received {
		outcomes := r.done[id] + r.canc[id] + r.nerr[id]
		if n > 0 && outcomes == 0 {
			r.fail("outcome-none", "request r%d (received %d time(s)) never reached an outcome although nothing is left to run, send or unpause", id, n)
		} else if outcomes < n {
			// fewer outcomes than requests: for an id re-used while live this is the known finding
			r.fail(r.dupClass("fewer-outcomes", id), "request id r%d was received %d times but only %d outcome(s) were reported", id, n, outcomes)
		}
	}
	if left > 0 {
		r.fail("stuck", "%d request(s) still listed in PeerState although nothing is left to run, send or unpause: %s", left, r.snapshot())
	}
	if len(prot) > 0 {
		r.fail("protect-leak", "connection protection not released at the end: %v", prot)
	}
	// C23 final
	if stats.Active != 0 || stats.Pending != 0 {
		r.fail("stats-nonzero", "all requests ended but task queue Stats() reports active=%d pending=%d", stats.Active, stats.Pending)
	}
	if alloc.TotalAllocatedAllPeers != 0 {
		r.fail("alloc-nonzero", "all requests ended and every message resolved but the allocator still accounts %d bytes", alloc.TotalAllocatedAllPeers)
	}
	return res
}

// C21 (work accounting of the REAL task queue behind the real response manager):
//   - once every request is retired and no worker is alive, the queue holds no active or pending work;
//   - an accepted request that is still Queued is eventually executed: when no worker is alive, nothing is
//     frozen any more and the queue still refuses to hand out the pending task, it never will.
func (r *runner) checkWorkAccounting(pss []peerstate.PeerState, left int) {
	e := r.e
	for _, w := range e.workers {
		if w.state != "D" {
			return
		}
	}
	st := e.tq.Stats()
	if left == 0 && (st.Active != 0 || st.Pending != 0) {
		r.fail("c21-phantom-active", "every request is retired and no task worker is running, but the task queue reports active=%d pending=%d", st.Active, st.Pending)
	}
	if st.Pending > 0 && len(r.blockedAlloc) == 0 && !r.mgrBlocked {
		for i := 0; i < 8; i++ {
			e.tq.PeerTaskQueue.ThawRound()
		}
		if _, tasks, _ := e.tq.PeerTaskQueue.PopTasks(1); len(tasks) == 0 {
			var ids []string
			for _, ps := range pss {
				for _, id := range ps.Pending {
					ids = append(ids, fmt.Sprintf("r%d", e.idIndex(id)))
				}
			}
			sort.Strings(ids)
			r.fail("c21-never-executed", "no task worker is running and no peer is frozen, yet the task queue hands out none of its %d pending task(s) %v (active=%d): these requests are never executed", st.Pending, ids, st.Active)
		}
	}
}

func min1(n int) int {
	if n > 0 {
		return 1
	}
	return 0
}

// ---------------------------------------------------------------- case execution

func atoi(s string) int { n, _ := strconv.Atoi(s); return n }

func RunCases(comp string, cases []reg.Case, out *reg.Out) {
	for _, c := range cases {
		out.BeginCase(c)
		runCase(comp, c, out)
	}
}

func runCase(comp string, c reg.Case, out *reg.Out) {
	var baseline *runner
	if comp == "stall" {
		// C25 oracle: the same script with peer 0's sends acknowledged at once (nothing else differs)
		baseline = execCase(comp, c, reg.NewOut(bufio.NewWriter(io.Discard)), 0, nil)
	}
	execCase(comp, c, out, -1, baseline)
}

func newRunner(comp string, out *reg.Out) *runner {
	return &runner{out: out, comp: comp, done: map[int]int{}, canc: map[int]int{}, nerr: map[int]int{}, failed: map[string]bool{},
		sawMgrBlockedOn: -1, sig: map[int]int{}, pendingClose: map[int]int{}, autoAck: -1, dupLive: map[int]bool{}, foreignNew: map[int]int{}}
}

func execCase(comp string, c reg.Case, out *reg.Out, autoAck int, baseline *runner) *runner {
	r := newRunner(comp, out)
	r.autoAck = autoAck
	defer func() {
		if r.e != nil {
			r.e.shutdown()
		}
	}()
	for _, op := range c.Ops {
		out.Cov("op." + op[0])
		if r.hung {
			out.Line("hung")
			continue
		}
		if op[0] == "cfg" {
			if len(op) < 6 || r.e != nil {
				out.Line("bad")
				continue
			}
			maxPer := 0
			if len(op) > 6 {
				maxPer = atoi(op[6])
			}
			nw := 0
			if len(op) > 7 {
				nw = atoi(op[7])
			}
			r.e = newEngine(atoi(op[1]), uint64(atoi(op[2])), maxPer, nw)
			r.leafLen, r.innLen, r.extLen = atoi(op[3]), atoi(op[4]), atoi(op[5])
			ok := true
			for p := 0; p < r.e.npeers && ok; p++ {
				ok = r.prime(p)
			}
			out.Line("ok " + r.snapshot())
			continue
		}
		if r.e == nil {
			out.Line("bad")
			continue
		}
		res := r.exec(op)
		if op[0] == "end" {
			if baseline != nil {
				r.compareBaseline(baseline)
			}
			out.Line(res)
		} else {
			r.ackHealthy()
			out.Line(res + " " + r.snapshot())
		}
	}
	return r
}

// ackHealthy (baseline run of the C25 oracle only): peer autoAck acknowledges everything at once
func (r *runner) ackHealthy() {
	if r.autoAck < 0 || r.hung {
		return
	}
	for i := 0; i < 8; i++ {
		r.e.mu.Lock()
		w := r.e.infltW[r.autoAck]
		nb := r.e.next[r.autoAck]
		r.e.mu.Unlock()
		if w == nil || (len(w.msg.Responses()) == 0 && (nb == nil || nb.Empty())) {
			return
		}
		r.opNet(r.autoAck, true)
	}
}

// C25: a request of a peer other than the stalled one that completes when peer 0 is healthy must
// complete when peer 0 is stalled
func (r *runner) compareBaseline(b *runner) {
	if b.hung {
		return
	}
	for id := range b.done {
		if id >= len(r.e.cfgs) {
			continue
		}
		cfg := r.e.cfgs[id]
		if cfg.peer == 0 || r.done[id] > 0 {
			continue
		}
		r.out.Cov("stall.other-peer-starved")
		parked := 0
		for _, w := range r.e.workers {
			if w.state == "B" && w.peer == 0 {
				parked++
			}
		}
		if r.e.nWorkers > 0 && parked >= r.e.nWorkers && r.sawMgrBlockedOn != 0 {
			r.fail("worker-pool-parked-on-peer-reservation", "request r%d of peer %d completes when peer 0 acknowledges its messages but not when peer 0 stalls: all %d task workers of the pool are parked in reservations of peer 0, none is left to execute another peer's task", id, cfg.peer, r.e.nWorkers)
		} else if r.sawMgrBlockedOn == 0 {
			r.fail("manager-blocked-on-peer-reservation", "request r%d of peer %d completes when peer 0 acknowledges its messages but not when peer 0 stalls: the response-manager goroutine is parked in AllocateBlockMemory for peer 0 (transaction executed inside a manager step), so no mailbox message of any peer is handled", id, cfg.peer)
		} else {
			r.fail("peer-starved-other", "request r%d of peer %d completes when peer 0 acknowledges its messages but not when peer 0 stalls, and the manager goroutine was not seen parked in an allocation for peer 0", id, cfg.peer)
		}
	}
}

// stateOf: the request's reported state right now (PeerState of every peer)
func (r *runner) stateOf(id int) (graphsync.RequestState, int, bool) {
	if r.mgrBlocked || id < 0 || id >= len(r.e.ids) {
		return 0, 0, false
	}
	for p, ps := range r.peerStates() {
		if st, ok := ps.RequestStates[r.e.ids[id]]; ok {
			return st, p, true
		}
	}
	return 0, 0, false
}

// Schedule restriction (harness policy, mirrored by the model driver): the executor reads its three
// signal channels with one Go `select`, which picks at random when several are ready.  To keep the
// run a function of the script, an op that could make a second signal pending for the same request
// before its executor has passed its next signal check is refused.
func (r *runner) signalOK(ids []int) bool {
	for _, id := range ids {
		if r.sig[id] >= 1 {
			return false
		}
	}
	for _, id := range ids {
		r.sig[id] = 1
	}
	return true
}

// an update is also admitted when the only pending signal of the request is an update signal (value 2):
// UpdateSignal has a buffer of one and processUpdate sends without blocking, so a second update adds
// no second ready channel to the executor's select
func (r *runner) signalUpd(ids []int) bool {
	for _, id := range ids {
		if r.sig[id] == 1 || r.sig[id] == 3 {
			return false
		}
	}
	for _, id := range ids {
		r.sig[id] = 2
	}
	return true
}

// likewise a further abort (cancel message, CancelResponse, failed send) while the only pending signal
// is an error signal (value 3): ErrSignal has one slot and abortRequest sends without blocking
func (r *runner) signalErr(ids []int) bool {
	for _, id := range ids {
		if r.sig[id] == 1 || r.sig[id] == 2 {
			return false
		}
	}
	for _, id := range ids {
		if r.sig[id] == 3 {
			r.out.Cov("abort.second-before-signal-check")
		}
		r.sig[id] = 3
	}
	return true
}

func (r *runner) signalling(id int, states ...graphsync.RequestState) []int {
	st, _, ok := r.stateOf(id)
	if !ok {
		return nil
	}
	for _, s := range states {
		if s == st {
			return []int{id}
		}
	}
	return nil
}

func (r *runner) exec(op []string) string {
	e := r.e
	arg := func(i int) string {
		if i < len(op) {
			return op[i]
		}
		return ""
	}
	idOK := func(i int) bool { return i >= 0 && i < len(e.ids) }
	switch op[0] {
	case "new":
		if len(op) < 9 {
			return "bad"
		}
		p, k, id, pri := atoi(op[1]), atoi(op[2]), atoi(op[3]), atoi(op[4])
		if p < 0 || p >= e.npeers || k != len(e.cfgs) || id > len(e.ids) || id < 0 {
			return "bad"
		}
		cfg := &reqCfg{k: k, id: id, peer: p, pri: pri, hook: op[5][0], n: atoi(op[6]), miss: atoi(op[7]),
			bh: strings.ReplaceAll(op[8], "F", ""), parkFinish: strings.Contains(op[8], "F")}
		if cfg.n < 1 || cfg.n > 8 {
			return "bad"
		}
		cfg.blkLen = r.blkPayload()
		e.mu.Lock()
		if id == len(e.ids) {
			rid := graphsync.NewRequestID()
			e.ids = append(e.ids, rid)
			e.idOf[rid] = id
		}
		e.cfgs = append(e.cfgs, cfg)
		e.buildChain(cfg)
		e.received[id]++
		rid := e.ids[id]
		e.mu.Unlock()
		if e.received[id] > 1 {
			r.out.Cov("new.dup-id")
			// is the id live right now, and for whom?
			if !r.mgrBlocked {
				for q, ps := range r.peerStates() {
					if _, ok := ps.RequestStates[rid]; ok {
						if q == p {
							r.dupLive[id] = true
							r.out.Cov("new.dup-live-id-same-peer")
						} else {
							// ignored by the responder: not a request it has to answer
							r.foreignNew[id]++
							e.mu.Lock()
							e.received[id]--
							e.mu.Unlock()
							r.out.Cov("new.id-live-for-another-peer")
						}
					}
				}
			}
		}
		if len(cfg.data[cfg.n-1]) != r.leafLen || (cfg.n > 1 && len(cfg.data[0]) != r.innLen) {
			return fmt.Sprintf("bad-size leaf=%d inner=%d", len(cfg.data[cfg.n-1]), len(cfg.data[0]))
		}
		r.out.Cov("hook." + string(cfg.hook))
		req := gsmsg.NewRequest(rid, cfg.root, chainSelector, graphsync.Priority(pri))
		return r.api(func() string {
			e.rm.ProcessRequests(e.ctx, e.peers[p], []gsmsg.GraphSyncRequest{req})
			r.sync()
			return "ok"
		})
	case "cancel":
		p, id := atoi(arg(1)), atoi(arg(2))
		if p < 0 || p >= e.npeers || !idOK(id) {
			return "bad"
		}
		if !r.signalErr(r.signalling(id, graphsync.Running)) {
			return "refused"
		}
		req := gsmsg.NewCancelRequest(e.ids[id])
		return r.api(func() string {
			e.rm.ProcessRequests(e.ctx, e.peers[p], []gsmsg.GraphSyncRequest{req})
			r.sync()
			return "ok"
		})
	case "upd":
		p, id, plan := atoi(arg(1)), atoi(arg(2)), arg(3)
		if p < 0 || p >= e.npeers || !idOK(id) || plan == "" {
			return "bad"
		}
		if ids := r.signalling(id, graphsync.Running, graphsync.Queued); len(ids) > 0 {
			if r.sig[id] == 2 {
				r.out.Cov("upd.second-before-signal-check")
			}
			if !r.signalUpd(ids) {
				return "refused"
			}
		}
		r.out.Cov("upd." + plan)
		req := gsmsg.NewUpdateRequest(e.ids[id], graphsync.ExtensionData{Name: updPlanName, Data: basicnode.NewString(plan)})
		return r.api(func() string {
			e.rm.ProcessRequests(e.ctx, e.peers[p], []gsmsg.GraphSyncRequest{req})
			r.sync()
			return "ok"
		})
	case "pause":
		id := atoi(arg(1))
		if !idOK(id) {
			return "bad"
		}
		if !r.signalOK(r.signalling(id, graphsync.Running, graphsync.Queued)) {
			return "refused"
		}
		return r.api(func() string { return errClass(e.rm.PauseResponse(e.ctx, e.ids[id])) })
	case "unpause":
		id := atoi(arg(1))
		if !idOK(id) {
			return "bad"
		}
		var exts []graphsync.ExtensionData
		if arg(2) == "1" {
			exts = append(exts, extData())
		}
		return r.api(func() string { return errClass(e.rm.UnpauseResponse(e.ctx, e.ids[id], exts...)) })
	case "rcancel":
		id := atoi(arg(1))
		if !idOK(id) {
			return "bad"
		}
		if !r.signalErr(r.signalling(id, graphsync.Running)) {
			return "refused"
		}
		return r.api(func() string { return errClass(e.rm.CancelResponse(e.ctx, e.ids[id])) })
	case "rupdate":
		id := atoi(arg(1))
		if !idOK(id) {
			return "bad"
		}
		var exts []graphsync.ExtensionData
		if arg(2) == "1" {
			exts = append(exts, extData())
		}
		return r.api(func() string { return errClass(e.rm.UpdateResponse(e.ctx, e.ids[id], exts...)) })
	case "pop":
		return r.opPop(false)
	case "popq":
		// PopTasks by a worker that is then held before StartTask; `step <w>` lets it go on
		return r.opPop(true)
	case "step":
		return r.opStep(atoi(arg(1)))
	case "net":
		if arg(2) != "ok" && arg(2) != "fail" {
			return "bad"
		}
		if p := atoi(arg(1)); arg(2) == "fail" && p >= 0 && p < e.npeers && !r.mgrBlocked {
			var ids []int
			for id, st := range e.rm.PeerState(e.peers[p]).RequestStates {
				if st == graphsync.Running {
					ids = append(ids, e.idIndex(id))
				}
			}
			sort.Ints(ids)
			if !r.signalErr(ids) {
				return "refused"
			}
		}
		r.out.Cov("net." + arg(2))
		return r.opNet(atoi(arg(1)), arg(2) == "ok")
	case "thaw":
		e.tq.PeerTaskQueue.ThawRound()
		return "ok"
	case "end":
		return r.opEnd()
	}
	return "bad"
}

// payload length that makes the encoded blocks leafLen / innLen bytes long is fixed by the generator
func (r *runner) blkPayload() int { return blockPayload }

var _ = context.Background
