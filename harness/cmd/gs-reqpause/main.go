package main

import (
	"verifharness/reg"
	_ "verifharness/reqpause"
)

func main() { reg.Main("reqpause") }
