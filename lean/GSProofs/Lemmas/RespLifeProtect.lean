import GSProofs.Lemmas.RespLifeFrame
/-!
The registry invariant of the responder model (used by C05.protect_balanced, C23): provided a peer
never sends a `new` request for an id that is LIVE for it (in the table, waiting in the mailbox, or
parked in `newRequest`) — exactly the complement of finding `dup-live-id` — a (peer, id) key is
protected exactly while it is in the table (or its `newRequest` step is parked), table ids are unique,
and the Protect/Unprotect calls per key alternate starting with Protect (ids may be re-used after
retirement, so the log is `(+ -)* (+)?`).

`RStep` abstracts every model step to its effect on the projection `pi`; `PInv` is preserved by every
`RStep`.
-/
namespace GS.RespLife

def evKey : Event → Option (Peer × Id)
  | .protect p id => some (p, id)
  | .unprotect p id => some (p, id)
  | _ => none

def evPlus : Event → Bool
  | .protect _ _ => true
  | _ => false

/-- Protect (= true) / Unprotect (= false) calls for one (peer, tag), in order -/
def klog (l : List Event) (k : Peer × Id) : List Bool :=
  (l.filter fun e => evKey e == some k).map evPlus

theorem klog_append (l : List Event) (e : Event) (k : Peer × Id) :
    klog (l ++ [e]) k = klog l k ++ (if evKey e == some k then [evPlus e] else []) := by
  unfold klog
  rw [List.filter_append, List.map_append]
  congr 1
  by_cases h : (evKey e == some k) = true <;> simp [h]

/-- one step of the alternation automaton: `some b` = the calls so far alternate starting with Protect
    and the tag is currently protected iff `b`; `none` = they do not alternate -/
def altStep : Option Bool → Bool → Option Bool
  | some false, true => some true
  | some true, false => some false
  | _, _ => none

def alt (l : List Bool) : Option Bool := l.foldl altStep (some false)

theorem alt_append (l : List Bool) (b : Bool) : alt (l ++ [b]) = altStep (alt l) b := by
  simp [alt, List.foldl_append]

def Pi.protect (x : Pi) (p : Peer) (id : Id) : Pi :=
  { x with prot := if x.prot.contains (p, id) then x.prot else x.prot ++ [(p, id)],
           plog := x.plog ++ [Event.protect p id] }

def Pi.insert (x : Pi) (p : Peer) (id : Id) : Pi :=
  { x with keys := x.keys.filter (fun k => k.2 != id) ++ [(p, id)] }

/-- effect of one model step on the registry projection -/
inductive RStep : Pi → Pi → Prop
  | same (x : Pi) : RStep x x
  | term (x : Pi) (p : Peer) (id : Id) : (p, id) ∈ x.keys → RStep x (x.term p id)
  | recvNew (x : Pi) (p : Peer) (id : Id) (seen' : List Id) :
      (p, id) ∉ x.keys → (p, id) ∉ x.news → x.pnew ≠ some (p, id) →
      RStep x { x with seen := seen', news := x.news ++ [(p, id)] }
  | newOk (x : Pi) (p : Peer) (id : Id) (rest : List (Peer × Id)) : x.news = (p, id) :: rest → x.pnew = none →
      ((∃ k ∈ x.keys, k.2 = id) → (p, id) ∈ x.keys) →
      RStep x (({ x with news := rest }.protect p id).insert p id)
  | newPark (x : Pi) (p : Peer) (id : Id) (rest : List (Peer × Id)) (c : MgrCont × Peer × Id × List TxOp) :
      x.news = (p, id) :: rest → x.pnew = none → ((∃ k ∈ x.keys, k.2 = id) → (p, id) ∈ x.keys) →
      RStep x { ({ x with news := rest }.protect p id) with pnew := some (p, id), pcore := some c }
  | resumeNew (x : Pi) (p : Peer) (id : Id) : x.pnew = some (p, id) →
      RStep x ({ x with pnew := none, pcore := none }.insert p id)
  | setPcore (x : Pi) (c : Option (MgrCont × Peer × Id × List TxOp)) : RStep x { x with pcore := c }
  | dropNew (x : Pi) (k : Peer × Id) (rest : List (Peer × Id)) : x.news = k :: rest → RStep x { x with news := rest }

structure PInv (x : Pi) : Prop where
  nodupIds : (x.keys.map Prod.snd).Nodup
  protIff : ∀ k, k ∈ x.prot ↔ (k ∈ x.keys ∨ x.pnew = some k)
  pnewFresh : ∀ k, x.pnew = some k → k.2 ∉ x.keys.map Prod.snd
  shape : ∀ k, alt (klog x.plog k) = some (x.prot.contains k)
  newsNodup : x.news.Nodup
  newsFresh : ∀ k ∈ x.news, k ∉ x.keys ∧ x.pnew ≠ some k

theorem pinv_init (c : Cfg) : PInv (pi (GS.RespLife.init c)) := by
  have e : pi (GS.RespLife.init c) = ⟨[], [], [], [], [], none, none⟩ := rfl
  rw [e]
  refine ⟨by simp, ?_, ?_, ?_, by simp, ?_⟩ <;> simp [klog, alt]

theorem nodup_snd_inj {l : List (Peer × Id)} (h : (l.map Prod.snd).Nodup) {a b : Peer × Id}
    (ha : a ∈ l) (hb : b ∈ l) (hab : a.2 = b.2) : a = b := by
  induction l with
  | nil => cases ha
  | cons x xs ih =>
    rw [List.map_cons, List.nodup_cons] at h
    rcases List.mem_cons.1 ha with ha1 | ha1
    · rcases List.mem_cons.1 hb with hb1 | hb1
      · rw [ha1, hb1]
      · exfalso
        apply h.1
        rw [← ha1, hab]
        exact List.mem_map.2 ⟨b, hb1, rfl⟩
    · rcases List.mem_cons.1 hb with hb1 | hb1
      · exfalso
        apply h.1
        rw [← hb1, ← hab]
        exact List.mem_map.2 ⟨a, ha1, rfl⟩
      · exact ih h.2 ha1 hb1

theorem contains_iff {l : List (Peer × Id)} {k : Peer × Id} : l.contains k = true ↔ k ∈ l := by
  simp

/-- appending an event about another key does not change the shape clause of key `k` -/
theorem shape_other {x : Pi} (h : PInv x) (e : Event) (k : Peer × Id) (prot' : List (Peer × Id))
    (hk : (evKey e == some k) = false) (hp : prot'.contains k = x.prot.contains k) :
    alt (klog (x.plog ++ [e]) k) = some (prot'.contains k) := by
  rw [klog_append, hk]
  simp only [Bool.false_eq_true, if_false, List.append_nil]
  rw [hp]; exact h.shape k

theorem PInv.term {x : Pi} (h : PInv x) {p : Peer} {id : Id} (hk : (p, id) ∈ x.keys) : PInv (x.term p id) := by
  have hprot : (p, id) ∈ x.prot := (h.protIff _).2 (Or.inl hk)
  have hkeys : ∀ k, k ∈ (x.term p id).keys ↔ (k ∈ x.keys ∧ k ≠ (p, id)) := by
    intro k
    simp only [Pi.term, List.mem_filter]
    constructor
    · rintro ⟨h1, h2⟩
      refine ⟨h1, ?_⟩
      intro heq; subst heq; simp at h2
    · rintro ⟨h1, h2⟩
      refine ⟨h1, ?_⟩
      simp only [bne_iff_ne, ne_eq]
      intro heq
      exact h2 (nodup_snd_inj h.nodupIds h1 hk heq)
  have hpn : ∀ k, x.pnew = some k → k ≠ (p, id) := by
    intro k hk' heq; subst heq
    exact h.pnewFresh _ hk' (List.mem_map.2 ⟨_, hk, rfl⟩)
  have hprotmem : ∀ k, k ∈ (x.term p id).prot ↔ (k ∈ x.prot ∧ k ≠ (p, id)) := by
    intro k
    show k ∈ x.prot.filter (· != (p, id)) ↔ _
    simp [List.mem_filter]
  refine ⟨?_, ?_, ?_, ?_, h.newsNodup, ?_⟩
  · exact List.Nodup.sublist (List.Sublist.map _ List.filter_sublist) h.nodupIds
  · intro k
    rw [hkeys, hprotmem, h.protIff]
    constructor
    · rintro ⟨h1 | h1, h2⟩
      · exact Or.inl ⟨h1, h2⟩
      · exact Or.inr h1
    · rintro (⟨h1, h2⟩ | h1)
      · exact ⟨Or.inl h1, h2⟩
      · exact ⟨Or.inr h1, hpn k h1⟩
  · intro k hk' hmem
    obtain ⟨a, ha, hak⟩ := List.mem_map.1 hmem
    exact h.pnewFresh k hk' (List.mem_map.2 ⟨a, ((hkeys a).1 ha).1, hak⟩)
  · intro k
    have hpl : (x.term p id).plog = x.plog ++ [Event.unprotect p id] := rfl
    rw [hpl]
    by_cases hkk : k = (p, id)
    · subst hkk
      rw [klog_append]
      have e1 : (evKey (Event.unprotect p id) == some (p, id)) = true := by simp [evKey]
      rw [e1, if_pos rfl, alt_append, h.shape]
      have e2 : x.prot.contains (p, id) = true := contains_iff.2 hprot
      have e3 : (x.term p id).prot.contains (p, id) = false := by
        apply Bool.eq_false_iff.2
        intro hc
        exact ((hprotmem _).1 (contains_iff.1 hc)).2 rfl
      rw [e2, e3]; rfl
    · apply shape_other h
      · simp only [evKey, beq_eq_false_iff_ne, ne_eq, Option.some.injEq]
        exact fun h => hkk h.symm
      · apply Bool.eq_iff_iff.2
        rw [contains_iff, contains_iff, hprotmem]
        exact ⟨fun h => h.1, fun h => ⟨h, hkk⟩⟩
  · intro k hk'
    obtain ⟨h1, h2⟩ := h.newsFresh k hk'
    exact ⟨fun hm => h1 ((hkeys k).1 hm).1, h2⟩

theorem PInv.recvNew {x : Pi} (h : PInv x) {p : Peer} {id : Id} (seen' : List Id)
    (h1 : (p, id) ∉ x.keys) (h2 : (p, id) ∉ x.news) (h3 : x.pnew ≠ some (p, id)) :
    PInv { x with seen := seen', news := x.news ++ [(p, id)] } := by
  refine ⟨h.nodupIds, h.protIff, h.pnewFresh, h.shape, ?_, ?_⟩
  · show (x.news ++ [(p, id)]).Nodup
    rw [List.nodup_append]
    refine ⟨h.newsNodup, by simp, ?_⟩
    intro a ha b hb
    simp only [List.mem_singleton] at hb
    subst hb
    intro heq; subst heq
    exact h2 ha
  · intro k hk
    rcases List.mem_append.1 hk with hk | hk
    · exact h.newsFresh k hk
    · simp only [List.mem_singleton] at hk
      subst hk
      exact ⟨h1, h3⟩

theorem mem_insert_keys {x : Pi} {p : Peer} {id : Id} (hfresh : id ∉ x.keys.map Prod.snd) (k : Peer × Id) :
    k ∈ (x.insert p id).keys ↔ (k ∈ x.keys ∨ k = (p, id)) := by
  simp only [Pi.insert, List.mem_append, List.mem_filter, List.mem_singleton]
  constructor
  · rintro (⟨h1, _⟩ | h1)
    · exact Or.inl h1
    · exact Or.inr h1
  · rintro (h1 | h1)
    · refine Or.inl ⟨h1, ?_⟩
      simp only [bne_iff_ne, ne_eq]
      intro heq
      exact hfresh (List.mem_map.2 ⟨k, h1, heq⟩)
    · exact Or.inr h1

theorem nodup_insert_keys {x : Pi} (p : Peer) (id : Id) (h : (x.keys.map Prod.snd).Nodup) :
    ((x.insert p id).keys.map Prod.snd).Nodup := by
  simp only [Pi.insert, List.map_append, List.map_cons, List.map_nil]
  rw [List.nodup_append]
  refine ⟨List.Nodup.sublist (List.Sublist.map _ List.filter_sublist) h, by simp, ?_⟩
  intro a ha b hb
  simp only [List.mem_singleton] at hb
  subst hb
  obtain ⟨k, hk, hka⟩ := List.mem_map.1 ha
  have := (List.mem_filter.1 hk).2
  simp only [bne_iff_ne, ne_eq] at this
  intro heq
  exact this (hka.trans heq)

/-- the facts about `(p, id)` available when its `new` message is at the head of the mailbox and no
    other peer holds the id -/
theorem PInv.headFresh {x : Pi} (h : PInv x) {p : Peer} {id : Id} {rest : List (Peer × Id)}
    (hn : x.news = (p, id) :: rest) (hp : x.pnew = none) (hown : (∃ k ∈ x.keys, k.2 = id) → (p, id) ∈ x.keys) :
    id ∉ x.keys.map Prod.snd ∧ (p, id) ∉ x.prot ∧ (p, id) ∉ rest ∧ rest.Nodup := by
  have hmem : (p, id) ∈ x.news := by rw [hn]; exact List.mem_cons_self
  obtain ⟨h1, _⟩ := h.newsFresh _ hmem
  have hnd := h.newsNodup
  rw [hn, List.nodup_cons] at hnd
  have hid : id ∉ x.keys.map Prod.snd := by
    intro hm
    obtain ⟨k, hk, hki⟩ := List.mem_map.1 hm
    exact h1 (hown ⟨k, hk, hki⟩)
  refine ⟨hid, ?_, hnd.1, hnd.2⟩
  intro hin
  rcases (h.protIff _).1 hin with hk | hk
  · exact h1 hk
  · rw [hp] at hk; cases hk

theorem protect_prot {x : Pi} {p : Peer} {id : Id} (h : (p, id) ∉ x.prot) :
    (x.protect p id).prot = x.prot ++ [(p, id)] := by
  simp only [Pi.protect]
  rw [if_neg]
  simpa using h

/-- shared part of newOk / newPark: the shape clause after `Protect` -/
theorem shape_protect {x : Pi} (h : PInv x) {p : Peer} {id : Id} (hprot : (p, id) ∉ x.prot) (k : Peer × Id) :
    alt (klog (x.plog ++ [Event.protect p id]) k) = some ((x.prot ++ [(p, id)]).contains k) := by
  by_cases hkk : k = (p, id)
  · subst hkk
    rw [klog_append]
    have e1 : (evKey (Event.protect p id) == some (p, id)) = true := by simp [evKey]
    rw [e1, if_pos rfl, alt_append, h.shape]
    have e2 : x.prot.contains (p, id) = false := by
      apply Bool.eq_false_iff.2
      intro hc; exact hprot (contains_iff.1 hc)
    have e3 : (x.prot ++ [(p, id)]).contains (p, id) = true := by simp
    rw [e2, e3]; rfl
  · apply shape_other h
    · simp only [evKey, beq_eq_false_iff_ne, ne_eq, Option.some.injEq]
      exact fun h => hkk h.symm
    · apply Bool.eq_iff_iff.2
      rw [contains_iff, contains_iff, List.mem_append, List.mem_singleton]
      exact ⟨fun h => h.elim (fun h' => h') (fun h' => absurd h' hkk), Or.inl⟩

theorem PInv.newOk {x : Pi} (h : PInv x) {p : Peer} {id : Id} {rest : List (Peer × Id)}
    (hn : x.news = (p, id) :: rest) (hp : x.pnew = none) (hown : (∃ k ∈ x.keys, k.2 = id) → (p, id) ∈ x.keys) :
    PInv (({ x with news := rest }.protect p id).insert p id) := by
  obtain ⟨f2, f3, f5, f6⟩ := h.headFresh hn hp hown
  have hkeys := mem_insert_keys (x := ({ x with news := rest } : Pi).protect p id) (p := p) (id := id) f2
  have hprot : (({ x with news := rest } : Pi).protect p id).prot = x.prot ++ [(p, id)] := protect_prot f3
  refine ⟨nodup_insert_keys p id h.nodupIds, ?_, ?_, ?_, f6, ?_⟩
  · intro k
    rw [hkeys]
    show k ∈ (({ x with news := rest } : Pi).protect p id).prot ↔ _
    rw [hprot, List.mem_append, List.mem_singleton, h.protIff, hp]
    simp only [Pi.protect]
    constructor
    · rintro ((h1 | h1) | h1)
      · exact Or.inl (Or.inl h1)
      · cases h1
      · exact Or.inl (Or.inr h1)
    · rintro ((h1 | h1) | h1)
      · exact Or.inl (Or.inl h1)
      · exact Or.inr h1
      · exact absurd h1 (by simp [Pi.insert, hp])
  · intro k hk
    have : (x.pnew) = some k := hk
    rw [hp] at this; cases this
  · intro k
    show alt (klog (x.plog ++ [Event.protect p id]) k) = some ((({ x with news := rest } : Pi).protect p id).prot.contains k)
    rw [hprot]
    exact shape_protect h f3 k
  · intro k hk
    have hk' : k ∈ x.news := by rw [hn]; exact List.mem_cons_of_mem _ hk
    obtain ⟨g1, _⟩ := h.newsFresh k hk'
    refine ⟨?_, ?_⟩
    · intro hm
      rcases (hkeys k).1 hm with hm | hm
      · exact g1 hm
      · subst hm; exact f5 hk
    · intro hk2
      have : (x.pnew) = some k := hk2
      rw [hp] at this; cases this

theorem PInv.newPark {x : Pi} (h : PInv x) {p : Peer} {id : Id} {rest : List (Peer × Id)}
    (hn : x.news = (p, id) :: rest) (hp : x.pnew = none) (hown : (∃ k ∈ x.keys, k.2 = id) → (p, id) ∈ x.keys) :
    PInv { ({ x with news := rest }.protect p id) with pnew := some (p, id) } := by
  obtain ⟨f2, f3, f5, f6⟩ := h.headFresh hn hp hown
  have hprot : (({ x with news := rest } : Pi).protect p id).prot = x.prot ++ [(p, id)] := protect_prot f3
  refine ⟨h.nodupIds, ?_, ?_, ?_, f6, ?_⟩
  · intro k
    show k ∈ (({ x with news := rest } : Pi).protect p id).prot ↔ (k ∈ x.keys ∨ some (p, id) = some k)
    rw [hprot, List.mem_append, List.mem_singleton, h.protIff, hp]
    constructor
    · rintro ((h1 | h1) | h1)
      · exact Or.inl h1
      · cases h1
      · exact Or.inr (by rw [h1])
    · rintro (h1 | h1)
      · exact Or.inl (Or.inl h1)
      · exact Or.inr (by cases h1; rfl)
  · intro k hk
    have : some (p, id) = some k := hk
    cases this
    exact f2
  · intro k
    show alt (klog (x.plog ++ [Event.protect p id]) k) = some ((({ x with news := rest } : Pi).protect p id).prot.contains k)
    rw [hprot]
    exact shape_protect h f3 k
  · intro k hk
    have hk' : k ∈ x.news := by rw [hn]; exact List.mem_cons_of_mem _ hk
    obtain ⟨g1, _⟩ := h.newsFresh k hk'
    refine ⟨g1, ?_⟩
    intro hk2
    have : some (p, id) = some k := hk2
    cases this
    exact f5 hk

theorem PInv.resumeNew {x : Pi} (h : PInv x) {p : Peer} {id : Id} (hp : x.pnew = some (p, id)) :
    PInv ({ x with pnew := none }.insert p id) := by
  have f2 : id ∉ x.keys.map Prod.snd := h.pnewFresh _ hp
  have hkeys := mem_insert_keys (x := ({ x with pnew := none } : Pi)) (p := p) (id := id) f2
  refine ⟨nodup_insert_keys p id h.nodupIds, ?_, ?_, h.shape, h.newsNodup, ?_⟩
  · intro k
    rw [hkeys]
    show k ∈ x.prot ↔ _
    rw [h.protIff, hp]
    constructor
    · rintro (h1 | h1)
      · exact Or.inl (Or.inl h1)
      · exact Or.inl (Or.inr (by cases h1; rfl))
    · rintro ((h1 | h1) | h1)
      · exact Or.inl h1
      · exact Or.inr (by rw [h1])
      · cases h1
  · intro k hk; cases hk
  · intro k hk
    obtain ⟨g1, g2⟩ := h.newsFresh k hk
    refine ⟨?_, by intro hk2; cases hk2⟩
    intro hm
    rcases (hkeys k).1 hm with hm | hm
    · exact g1 hm
    · subst hm; exact g2 hp

/-- `PInv` does not look at the parked continuation -/
theorem PInv.setPcore {x : Pi} (h : PInv x) (c : Option (MgrCont × Peer × Id × List TxOp)) :
    PInv { x with pcore := c } :=
  ⟨h.nodupIds, h.protIff, h.pnewFresh, h.shape, h.newsNodup, h.newsFresh⟩

/-- a `new` message that the manager ignores -/
theorem PInv.dropNew {x : Pi} (h : PInv x) {k : Peer × Id} {rest : List (Peer × Id)} (hn : x.news = k :: rest) :
    PInv { x with news := rest } := by
  have hsub : ∀ i ∈ rest, i ∈ x.news := by intro i hi; rw [hn]; exact List.mem_cons_of_mem _ hi
  have hnd := h.newsNodup
  rw [hn, List.nodup_cons] at hnd
  exact ⟨h.nodupIds, h.protIff, h.pnewFresh, h.shape, hnd.2, fun i hi => h.newsFresh i (hsub i hi)⟩

theorem PInv.step {x x' : Pi} (h : PInv x) (st : RStep x x') : PInv x' := by
  cases st with
  | same => exact h
  | term p id hk => exact h.term hk
  | recvNew p id seen' h1 h2 h3 => exact h.recvNew seen' h1 h2 h3
  | newOk p id rest hn hp hown => exact h.newOk hn hp hown
  | newPark p id rest c hn hp hown => exact (h.newPark hn hp hown).setPcore (some c)
  | resumeNew p id hp => exact (h.setPcore none).resumeNew hp
  | setPcore c => exact h.setPcore c
  | dropNew k rest hn => exact h.dropNew hn

end GS.RespLife
