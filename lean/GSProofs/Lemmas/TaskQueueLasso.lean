import GSProofs.Lemmas.TaskQueueLive
/-!
Helper lemmas for C21, part 9: a cycle of the model that returns to its start state, repeated
forever, is an execution; a per-period check makes it weakly fair.
-/
namespace GS.TQ
open GS.Temporal

/-- the worker pool without any bound on the environment -/
def US : GS.Temporal.Sys Sys Act := ⟨step⟩

def stateAt (s0 : Sys) (cyc : List Act) (k : Nat) : Sys := (runList s0 (cyc.take k)).getD s0

/-- every action of the cycle is a step from the state reached so far to the next one, the last
    one back to the first state -/
def lassoOk (s0 : Sys) (cyc : List Act) : Bool :=
  (List.range cyc.length).all fun k =>
    match cyc[k]? with
    | some a => step (stateAt s0 cyc k) a == some (stateAt s0 cyc ((k + 1) % cyc.length))
    | none => false

/-- per action: somewhere in the period it is disabled, or it is taken -/
def fairOk (s0 : Sys) (cyc : List Act) (acts : List Act) : Bool :=
  acts.all fun a => (List.range cyc.length).any fun k =>
    (step (stateAt s0 cyc k) a).isNone || cyc[k]? == some a

def lassoExec (s0 : Sys) (cyc : List Act) (n : Nat) : Sys := stateAt s0 cyc (n % cyc.length)

theorem lassoOk_step {s0 : Sys} {cyc : List Act} (h : lassoOk s0 cyc = true) (k : Nat)
    (hk : k < cyc.length) :
    ∃ a, cyc[k]? = some a ∧ step (stateAt s0 cyc k) a = some (stateAt s0 cyc ((k + 1) % cyc.length)) := by
  unfold lassoOk at h
  have := List.all_eq_true.mp h k (List.mem_range.mpr hk)
  split at this
  · rename_i a ha
    exact ⟨a, ha, by simpa using this⟩
  · cases this

theorem lasso_exec {s0 : Sys} {cyc : List Act} (h : lassoOk s0 cyc = true) (hL : 0 < cyc.length) :
    Exec US (lassoExec s0 cyc) := by
  intro n
  right
  obtain ⟨a, _, hs⟩ := lassoOk_step h (n % cyc.length) (Nat.mod_lt _ hL)
  refine ⟨a, ?_⟩
  show step (stateAt s0 cyc (n % cyc.length)) a = some (stateAt s0 cyc ((n + 1) % cyc.length))
  rw [hs]
  congr 2
  rw [Nat.add_mod n 1]
  rcases Nat.lt_or_ge 1 cyc.length with h1 | h1
  · rw [Nat.mod_eq_of_lt h1]
  · have : cyc.length = 1 := by omega
    simp [this, Nat.mod_one]

theorem lassoExec_period (s0 : Sys) (cyc : List Act) (k m : Nat) :
    lassoExec s0 cyc (k + m * cyc.length) = lassoExec s0 cyc k := by
  unfold lassoExec
  rw [Nat.add_mul_mod_self_right]

theorem lasso_wf1 {s0 : Sys} {cyc : List Act} {acts : List Act} (h : lassoOk s0 cyc = true)
    (hL : 0 < cyc.length) (hf : fairOk s0 cyc acts = true)
    (hall : ∀ a, fairAct a → a ∈ acts ∨ ∃ k, k < cyc.length ∧ step (stateAt s0 cyc k) a = none) :
    WF1 US fairAct (lassoExec s0 cyc) := by
  intro a hfa i hen
  have hdis : ∀ k, k < cyc.length → step (stateAt s0 cyc k) a = none → False := by
    intro k hk hnone
    have := hen (k + i * cyc.length) (by
      have : i ≤ i * cyc.length := Nat.le_mul_of_pos_right i hL
      omega)
    rw [lassoExec_period] at this
    unfold lassoExec at this
    rw [Nat.mod_eq_of_lt hk] at this
    unfold Sys.enabled US at this
    simp [hnone] at this
  rcases hall a hfa with hmem | ⟨k, hk, hnone⟩
  · unfold fairOk at hf
    have := List.all_eq_true.mp hf a hmem
    obtain ⟨k, hkr, hk2⟩ := List.any_eq_true.mp this
    have hk := List.mem_range.mp hkr
    rcases Bool.or_eq_true_iff.mp hk2 with h1 | h1
    · exfalso
      apply hdis k hk
      cases hs : step (stateAt s0 cyc k) a with
      | none => rfl
      | some x => simp [hs] at h1
    · obtain ⟨a', ha', hs⟩ := lassoOk_step h k hk
      have e : a' = a := by
        rw [ha'] at h1; simpa using h1
      subst e
      refine ⟨k + i * cyc.length, ?_, ?_⟩
      · have : i ≤ i * cyc.length := Nat.le_mul_of_pos_right i hL
        omega
      · show step (lassoExec s0 cyc (k + i * cyc.length)) a' = some (lassoExec s0 cyc (k + i * cyc.length + 1))
        have e2 : k + i * cyc.length + 1 = (k + 1) + i * cyc.length := by omega
        rw [e2, lassoExec_period, lassoExec_period]
        unfold lassoExec
        rw [Nat.mod_eq_of_lt hk]
        exact hs
  · exact (hdis k hk hnone).elim

/-- worker actions of a worker that does not exist are never enabled -/
theorem step_none_of_index {s : Sys} {i : Nat} (h : s.workers.length ≤ i) :
    step s (.pop i) = none ∧ step s (.sig i) = none ∧ step s (.tick i) = none ∧
    step s (.done i) = none ∧ step s (.ret i) = none := by
  have : s.workers[i]? = none := List.getElem?_eq_none h
  simp [step, this]

/-- a task with this uid is waiting in some peer's queue -/
def pendingUid (u : Nat) (s : Sys) : Bool := s.q.peers.any fun t => t.pending.any (·.uid == u)

end GS.TQ
