import GSProofs.Lemmas.MsgQueueOverlap2
/-!
# Message queue, overlap ledger: `buildMessage`, `build`, `wake`, `ack` (MsgQueueLedger3/4 re-done for `Ov.LInv`)
-/
namespace GS.MQ.Ov
open GS.Alloc GS.MQ

variable [P : Params]

section ops
variable {pick : Pick} (hp : Admissible pick)
include hp

/-- `buildMessage(size, fn)` after the reservation of `size` bytes has been granted -/
theorem buildMessage_linv {s : State} (ticket : Nat) (tx : Tx) (size : Nat)
    (h : Led s (hb s.builders + heldInFlight s + size)) (hbi : ∀ b ∈ s.builders, BInv b)
    (hsz : (tx.who = .response → size = itemsSize tx.items) ∧ (tx.who = .request → size = 0)) :
    LInv (s.buildMessage pick ticket tx size) ∧ (s.buildMessage pick ticket tx size).pc = s.pc := by
  unfold State.buildMessage
  -- the state after possibly starting a new builder
  generalize hs0 : (if shouldBegin s.builders size = true
      then { s with builders := s.builders ++ [{ topic := s.nextTopic }], nextTopic := s.nextTopic + 1 }
      else s) = s0
  have h0 : Led s0 (hb s0.builders + heldInFlight s0 + size) ∧ (∀ b ∈ s0.builders, BInv b) ∧ s0.pc = s.pc ∧
      (∃ b, s0.builders.getLast? = some b) ∧ s0.peer = s.peer := by
    subst hs0
    split
    · next hsb =>
      refine ⟨?_, ?_, rfl, ⟨_, getLast?_append_singleton _ _⟩, rfl⟩
      · refine ⟨⟨h.1.ainv, h.1.pend, h.1.nodupW, h.1.fresh, h.1.wsize, h.1.bound, h.1.logn⟩, ?_⟩
        show tot s.alloc s.peer = hb (s.builders ++ [{ topic := s.nextTopic }]) + heldInFlight s + size + _ + (fg _ + P.o0)
        rw [hb_append]
        have : hb [({ topic := s.nextTopic } : Builder)] = 0 := rfl
        rw [this, Nat.add_zero]; exact h.2
      · intro b hb'
        rcases List.mem_append.mp hb' with hb' | hb'
        · exact hbi b hb'
        · simp at hb'; subst hb'; exact BInv.new _
    · next hsb =>
      have : shouldBegin s.builders size = false := by simpa using hsb
      exact ⟨h, hbi, rfl, shouldBegin_false_getLast this, rfl⟩
  obtain ⟨l0, b0, pc0, ⟨b, hlast⟩, peer0⟩ := h0
  simp only
  rw [hlast]
  simp only
  obtain ⟨r1, _, r3⟩ := runFn_spec (b0 b (mem_of_getLast? hlast)) s0.closedStreams tx
  obtain ⟨sl1, sl2, _⟩ := setLast_spec s0.builders b (runFn s0.closedStreams b tx) hlast
  generalize hb' : runFn s0.closedStreams b tx = b' at r1 r3 sl1 sl2
  -- the state after the build function ran
  generalize hs1 : ({ s0 with builders := setLast s0.builders b' } : State).emit
      [Event.built ticket b.topic size (b'.accounted - b.accounted)] = s1
  have f1 : QFrame { s0 with builders := setLast s0.builders b' } s1 := by subst hs1; exact (emit_frame _ _).q
  have hs1b : s1.builders = setLast s0.builders b' := f1.builders
  have l1 : Led s1 (hb s0.builders + heldInFlight s0 + size) := by
    subst hs1
    have : Led ({ s0 with builders := setLast s0.builders b' } : State) (hb s0.builders + heldInFlight s0 + size) :=
      ⟨⟨l0.1.ainv, l0.1.pend, l0.1.nodupW, l0.1.fresh, l0.1.wsize, l0.1.bound, l0.1.logn⟩, l0.2⟩
    exact this.frame (emit_frame _ _)
  have b1 : ∀ x ∈ s1.builders, BInv x := by
    rw [hs1b]; intro x hx
    rcases sl2 x hx with rfl | hx
    · exact r1
    · exact b0 x hx
  have pc1 : s1.pc = s.pc := f1.pc.trans pc0
  have if1 : heldInFlight s1 = heldInFlight s0 := heldInFlight_pc f1.pc
  -- the release of the unused part, and the signal
  have key : ∀ s2 : State, (s2 = (if b'.accounted ≥ b.accounted ∧ b'.accounted - b.accounted < size
        then s1.release pick (size - (b'.accounted - b.accounted)) else s1)) →
      LInv s2 ∧ s2.pc = s.pc := by
    intro s2 hs2
    rcases r3 with hsame | ⟨hwho, hgrow⟩
    · -- nothing added
      have hused : b'.accounted - b.accounted = 0 := by omega
      have hhb : hb s1.builders = hb s0.builders := by rw [hs1b]; omega
      by_cases hz : size = 0
      · have : s2 = s1 := by rw [hs2]; simp [hused, hz]
        rw [this]
        refine ⟨⟨?_, b1⟩, pc1⟩
        rw [hhb, if1]; rw [hz, Nat.add_zero] at l1; exact l1
      · have : s2 = s1.release pick size := by
          rw [hs2, hused]; simp [hsame]; omega
        rw [this]
        have l2 := l1.release hp size (by omega)
        have q := release_qframe pick s1 size
        refine ⟨⟨?_, by rw [q.builders]; exact b1⟩, q.pc.trans pc1⟩
        rw [q.builders, heldInFlight_pc q.pc, hhb, if1]
        rw [show hb s0.builders + heldInFlight s0 + size - size = hb s0.builders + heldInFlight s0 by omega] at l2
        exact l2
    · -- the whole reservation was used
      have hsize : size = itemsSize tx.items := hsz.1 hwho
      have hused : b'.accounted - b.accounted = size := by omega
      have : s2 = s1 := by rw [hs2, hused]; simp
      rw [this]
      refine ⟨⟨?_, b1⟩, pc1⟩
      have hhb : hb s1.builders = hb s0.builders + size := by rw [hs1b]; omega
      rw [hhb, if1]
      have := l1
      rw [show hb s0.builders + heldInFlight s0 + size = hb s0.builders + size + heldInFlight s0 by omega] at this
      exact this
  generalize hs2 : (if b'.accounted ≥ b.accounted ∧ b'.accounted - b.accounted < size
        then s1.release pick (size - (b'.accounted - b.accounted)) else s1) = s2
  obtain ⟨k1, k2⟩ := key s2 hs2.symm
  split
  · refine ⟨⟨?_, k1.binv⟩, k2⟩
    exact ⟨⟨k1.led.1.ainv, k1.led.1.pend, k1.led.1.nodupW, k1.led.1.fresh, k1.led.1.wsize, k1.led.1.bound, k1.led.1.logn⟩, k1.led.2⟩
  · exact ⟨k1, k2⟩

/-- `buildMessage` as seen by callers: on a closed queue the message is failed at once -/
theorem buildMsg_linv {s : State} (ticket : Nat) (tx : Tx) (size : Nat)
    (h : Led s (hb s.builders + heldInFlight s + size)) (hbi : ∀ b ∈ s.builders, BInv b)
    (hsz : (tx.who = .response → size = itemsSize tx.items) ∧ (tx.who = .request → size = 0)) :
    LInv (s.buildMsg pick ticket tx size) ∧ (s.buildMsg pick ticket tx size).pc = s.pc := by
  obtain ⟨k1, k2⟩ := buildMessage_linv hp ticket tx size h hbi hsz
  unfold State.buildMsg
  split
  · next hc =>
    have hif : heldInFlight (s.buildMessage pick ticket tx size) = 0 :=
      heldInFlight_closed (by rw [closed_pc k2]; exact hc)
    obtain ⟨d1, d2, d3⟩ := drain_led hp 1 _ (by have := k1.led; rwa [hif, Nat.add_zero] at this) k1.binv
    refine ⟨⟨?_, d2⟩, d3.trans k2⟩
    rw [heldInFlight_pc d3, hif, Nat.add_zero]; exact d1
  · exact ⟨k1, k2⟩



omit hp in
theorem forT_own {t n : Nat} (ht : t < P.B) : forT P.B [(t, n)] = [] ∧ ownT P.B [(t, n)] = [(t, n)] := by
  unfold forT ownT
  constructor
  · rw [List.filter_cons_of_neg (by simp; omega)]; rfl
  · rw [List.filter_cons_of_pos (by simp; omega)]; rfl

omit hp in
/-- this queue's own `AllocateBlockMemory`: no grant to the other queue's tickets -/
theorem fg_alloc_own {s0 : State} (hl : P.n0 ≤ (memOf s0.log).length) (hi : Alloc.Inv s0.alloc) (n t : Nat)
    (ht : t < P.B) :
    fg (s0.allocStep pick (.alloc s0.peer n t)).1 = fg s0 ∧
    P.n0 ≤ (memOf (s0.allocStep pick (.alloc s0.peer n t)).1.log).length := by
  obtain ⟨g1, g2⟩ := fg_allocStep pick hl (.alloc s0.peer n t)
  refine ⟨?_, g2⟩
  rw [g1]
  rcases alloc_own (pick := pick) hi s0.peer n t with ⟨he, _⟩ | ⟨he, _⟩
  · rw [he]; simp only [grantsOf, if_true, (forT_own ht).1]; rfl
  · rw [he]; rfl

theorem buildWith_linv {s : State} (h : LInv s) (tx : Tx) (size : Nat) (hB : s.nextTicket < P.B)
    (hsz : (tx.who = .response → size = itemsSize tx.items) ∧ (tx.who = .request → size = 0)) :
    LInv (buildWith pick s tx size) ∧ (buildWith pick s tx size).pc = s.pc := by
  have c0 : Coupled ({ s with nextTicket := s.nextTicket + 1 } : State) :=
    ⟨h.led.1.ainv, h.led.1.pend, h.led.1.nodupW, fun w hw => Nat.lt_succ_of_lt (h.led.1.fresh w hw),
      h.led.1.wsize, Nat.succ_le_of_lt hB, h.led.1.logn⟩
  obtain ⟨g1, g2⟩ := fg_alloc_own (pick := pick) (s0 := ({ s with nextTicket := s.nextTicket + 1 } : State))
    c0.logn c0.ainv size s.nextTicket hB
  have g0 : fg ({ s with nextTicket := s.nextTicket + 1 } : State) = fg s := rfl
  rw [g0] at g1
  unfold buildWith
  simp only
  by_cases hz : size = 0
  · subst hz
    simp only [beq_self_eq_true, if_true]
    apply buildMsg_linv hp
    · exact ⟨c0, by have := h.led.2; rw [Nat.add_zero]; exact this⟩
    · exact h.binv
    · exact hsz
  · have hb0 : (size == 0) = false := by simp [hz]
    simp only [hb0, Bool.false_eq_true, if_false]
    have hwho : tx.who = .response ∧ size = itemsSize tx.items := by
      cases hw : tx.who with
      | response => exact ⟨rfl, hsz.1 hw⟩
      | request => exact absurd (hsz.2 hw) hz
    have hv := view hp h.led.1.ainv (.alloc s.peer size s.nextTicket) s.peer
    have hfresh : s.nextTicket ∉ s.waiters.map (·.ticket) := by
      intro hm
      obtain ⟨w, hw, he⟩ := List.mem_map.mp hm
      have := h.led.1.fresh w hw
      omega
    rcases alloc_own (pick := pick) h.led.1.ainv s.peer size s.nextTicket with ⟨hev, hpd⟩ | ⟨hev, hpd⟩
    · -- granted at once
      have hws : answerWaiters s.peer s.waiters (Alloc.step pick s.alloc (.alloc s.peer size s.nextTicket)).2 = s.waiters := by
        rw [hev, answerWaiters_cons, answerWaiters_nil]
        simp only [beq_self_eq_true, if_true]
        exact mark_absent _ _ _ hfresh
      have hled := hv.ledger
      rw [hev] at hled
      simp only [releasedSum, grantsOf, if_true, amounts, List.map_cons, List.map_nil, sumNat_cons, sumNat_nil] at hled
      have hc : (State.allocStep pick ({ s with nextTicket := s.nextTicket + 1 } : State) (.alloc s.peer size s.nextTicket)).2
          = [Alloc.Event.granted s.peer s.nextTicket size] := hev
      rw [hc]
      rw [if_pos (by
        show ([Alloc.Event.granted s.peer s.nextTicket size].contains (Alloc.Event.granted s.peer s.nextTicket size)) = true
        simp)]
      apply buildMsg_linv hp
      · refine ⟨⟨hv.inv, ?_, ?_, ?_, ?_, Nat.succ_le_of_lt hB, g2⟩, ?_⟩
        · show ownT P.B (pendTA (Alloc.step pick s.alloc _).1 s.peer) = unanswered (answerWaiters s.peer s.waiters _)
          rw [hws, hpd]; exact h.led.1.pend
        · show ((answerWaiters s.peer s.waiters _).map (·.ticket)).Nodup
          rw [hws]; exact h.led.1.nodupW
        · show ∀ w ∈ answerWaiters s.peer s.waiters _, w.ticket < s.nextTicket + 1
          rw [hws]; exact c0.fresh
        · show ∀ w ∈ answerWaiters s.peer s.waiters _, _
          rw [hws]; exact h.led.1.wsize
        · show tot (Alloc.step pick s.alloc _).1 s.peer = hb s.builders + heldInFlight s + size + grantedBytes (answerWaiters s.peer s.waiters _)
            + (fg (State.allocStep pick ({ s with nextTicket := s.nextTicket + 1 } : State) (.alloc s.peer size s.nextTicket)).1 + P.o0)
          rw [hws, g1]
          have := h.led.2
          simp only [Nat.add_zero, tot] at hled this ⊢
          omega
      · exact h.binv
      · exact ⟨fun _ => hwho.2, fun hw => by rw [hwho.1] at hw; cases hw⟩
    · -- deferred: the caller waits
      have hws : answerWaiters s.peer s.waiters (Alloc.step pick s.alloc (.alloc s.peer size s.nextTicket)).2 = s.waiters := by
        rw [hev]; rfl
      have hled := hv.ledger
      rw [hev] at hled
      simp only [releasedSum, grantsOf, amounts, List.map_nil, sumNat_nil, Nat.add_zero] at hled
      have hc : (State.allocStep pick ({ s with nextTicket := s.nextTicket + 1 } : State) (.alloc s.peer size s.nextTicket)).2
          = [] := hev
      rw [hc]
      rw [if_neg (by simp)]
      refine ⟨⟨⟨⟨hv.inv, ?_, ?_, ?_, ?_, Nat.succ_le_of_lt hB, g2⟩, ?_⟩, h.binv⟩, rfl⟩
      · show ownT P.B (pendTA (Alloc.step pick s.alloc _).1 s.peer) = unanswered (answerWaiters s.peer s.waiters _ ++ [_])
        rw [hws, hpd, unanswered_append, ownT_append, (forT_own hB).2, h.led.1.pend]; rfl
      · show ((answerWaiters s.peer s.waiters _ ++ [_]).map (fun w : Waiter => w.ticket)).Nodup
        rw [hws, List.map_append, List.nodup_append]
        refine ⟨h.led.1.nodupW, by simp, ?_⟩
        intro a ha b hb'
        simp at hb'; subst hb'
        intro hab; subst hab; exact hfresh ha
      · show ∀ w ∈ answerWaiters s.peer s.waiters _ ++ [_], w.ticket < s.nextTicket + 1
        rw [hws]; intro w hw
        rcases List.mem_append.mp hw with hw | hw
        · exact c0.fresh w hw
        · simp at hw; subst hw; exact Nat.lt_succ_self _
      · show ∀ w ∈ answerWaiters s.peer s.waiters _ ++ [_], _
        rw [hws]; intro w hw
        rcases List.mem_append.mp hw with hw | hw
        · exact h.led.1.wsize w hw
        · simp at hw; subst hw; exact hwho
      · show tot (Alloc.step pick s.alloc _).1 s.peer = hb s.builders + heldInFlight s + grantedBytes (answerWaiters s.peer s.waiters _ ++ [_])
          + (fg (State.allocStep pick ({ s with nextTicket := s.nextTicket + 1 } : State) (.alloc s.peer size s.nextTicket)).1 + P.o0)
        rw [hws, grantedBytes_append, g1]
        have := h.led.2
        have e : grantedBytes [({ ticket := s.nextTicket, tx := tx, size := size } : Waiter)] = 0 := rfl
        rw [e]
        simp only [tot] at hled this ⊢
        omega

/-- `AllocateAndBuildMessage` -/
theorem build_linv {s : State} (h : LInv s) (tx : Tx) (hB : s.nextTicket < P.B) :
    LInv (s.build pick tx) ∧ (s.build pick tx).pc = s.pc := by
  rw [build_eq]
  split
  · exact ⟨h, rfl⟩
  · apply buildWith_linv hp h _ _ hB
    constructor
    · intro hw; rw [hw]
    · intro hw; rw [hw]

end ops

section ops
variable {pick : Pick} (hp : Admissible pick)
include hp

/-- a waiting caller continues -/
theorem wake_linv {s : State} (h : LInv s) (t : Nat) : LInv (s.wake pick t) ∧ (s.wake pick t).pc = s.pc := by
  unfold State.wake
  cases hf : s.waiters.find? (fun w => w.ticket == t && w.answer.isSome) with
  | none => exact ⟨h, rfl⟩
  | some w =>
    simp only
    have hwm : w ∈ s.waiters := List.mem_of_find?_eq_some hf
    have hwa : w.answer ≠ none := by
      have := List.find?_some hf
      simp only [Bool.and_eq_true] at this
      intro hn; rw [hn] at this; simp at this
    obtain ⟨r1, r2, r3⟩ := remove_answered s.waiters w h.led.1.nodupW hwm hwa
    have c1 : Coupled ({ s with waiters := s.waiters.filter (·.ticket != w.ticket) } : State) := by
      refine ⟨h.led.1.ainv, ?_, ?_, ?_, ?_, h.led.1.bound, h.led.1.logn⟩
      · show ownT P.B (pendTA s.alloc s.peer) = unanswered (s.waiters.filter _)
        rw [r1]; exact h.led.1.pend
      · exact (List.filter_sublist.map _).nodup h.led.1.nodupW
      · intro x hx; exact h.led.1.fresh x (r3 x hx)
      · intro x hx; exact h.led.1.wsize x (r3 x hx)
    cases hw : w.answer with
    | none => exact absurd hw hwa
    | some b =>
      cases b with
      | true =>
        rw [hw] at r2
        simp only [if_true] at r2
        simp only [beq_self_eq_true, if_true]
        apply buildMsg_linv hp
        · refine ⟨c1, ?_⟩
          show tot s.alloc s.peer = hb s.builders + heldInFlight s + w.size + grantedBytes (s.waiters.filter _) + (fg _ + P.o0)
          have := h.led.2
          have g0 : fg ({ s with waiters := s.waiters.filter (·.ticket != w.ticket) } : State) = fg s := rfl
          rw [g0]
          omega
        · exact h.binv
        · obtain ⟨q1, q2⟩ := h.led.1.wsize w hwm
          exact ⟨fun _ => q2, fun hw => by rw [q1] at hw; cases hw⟩
      | false =>
        rw [hw] at r2
        have hne : ((some false : Option Bool) == some true) = false := rfl
        simp only [hne, Bool.false_eq_true, if_false]
        have hne' : ((some false : Option Bool) = some true) = False := by simp
        simp only [hne', if_false, Nat.add_zero] at r2
        refine ⟨?_, rfl⟩
        have l0 : Led ({ s with waiters := s.waiters.filter (·.ticket != w.ticket) } : State) (hb s.builders + heldInFlight s) := by
          refine ⟨c1, ?_⟩
          show tot s.alloc s.peer = hb s.builders + heldInFlight s + grantedBytes (s.waiters.filter _) + (fg _ + P.o0)
          have := h.led.2
          have g0 : fg ({ s with waiters := s.waiters.filter (·.ticket != w.ticket) } : State) = fg s := rfl
          rw [g0]
          omega
        exact ⟨l0.frame (emit_frame _ _), h.binv⟩


/-- the blocked call returns -/
theorem ack_linv {s : State} (h : LInv s) (hcn : s.closed = true → s.builders = [])
    (hne : s.pc ≠ .exiting) (ok : Bool) : LInv (s.ack pick ok) := by
  obtain ⟨peer, maxRetries, builders, nextTopic, token, done, sender, pc, closedStreams, waiters,
    nextTicket, topics, pubClosed, alloc, log⟩ := s
  have hbi : ∀ b ∈ builders, BInv b := h.binv
  cases pc with
  | idle => exact h
  | exited => exact h
  | exiting => exact absurd rfl hne
  | opening m r =>
    have hl : Led (⟨peer, maxRetries, builders, nextTopic, token, done, sender, .opening m r, closedStreams, waiters,
        nextTicket, topics, pubClosed, alloc, log⟩ : State) (hb builders + m.size) := h.led
    cases r with
    | none =>
      unfold State.ack
      simp only
      split
      · exact (attempt_linv hp 0 (s := ⟨peer, maxRetries, builders, nextTopic, token, done, true, .opening m none,
          closedStreams, waiters, nextTicket, topics, pubClosed, alloc, log⟩)
          ⟨⟨hl.1.ainv, hl.1.pend, hl.1.nodupW, hl.1.fresh, hl.1.wsize, hl.1.bound, hl.1.logn⟩, hl.2⟩ hbi)
      · obtain ⟨l, b, _⟩ := publishError_led hp hl hbi
        generalize State.publishError pick _ m = s1 at l b
        obtain ⟨f1, f2, f3⟩ := finish_spec ({ s1 with done := true }) m
        refine ⟨?_, by rw [f2]; exact b⟩
        rw [f2, heldInFlight_idle f1, Nat.add_zero]
        exact f3 _ ⟨⟨l.1.ainv, l.1.pend, l.1.nodupW, l.1.fresh, l.1.wsize, l.1.bound, l.1.logn⟩, l.2⟩
    | some i =>
      unfold State.ack
      simp only
      split
      · exact (attempt_linv hp (i + 1) (s := ⟨peer, maxRetries, builders, nextTopic, token, done, true, .opening m (some i),
          closedStreams, waiters, nextTicket, topics, pubClosed, alloc, log⟩)
          ⟨⟨hl.1.ainv, hl.1.pend, hl.1.nodupW, hl.1.fresh, hl.1.wsize, hl.1.bound, hl.1.logn⟩, hl.2⟩ hbi)
      · exact (error_finish_linv hp hl hbi)
  | sending m i =>
    have hl : Led (⟨peer, maxRetries, builders, nextTopic, token, done, sender, .sending m i, closedStreams, waiters,
        nextTicket, topics, pubClosed, alloc, log⟩ : State) (hb builders + m.size) := h.led
    unfold State.ack
    simp only
    split
    · obtain ⟨l, q⟩ := publishSent_led hp hl
      generalize State.publishSent pick _ m = s1 at l q
      obtain ⟨f1, f2, f3⟩ := finish_spec s1 m
      refine ⟨?_, by rw [f2, q.builders]; exact hbi⟩
      rw [f2, heldInFlight_idle f1, Nat.add_zero, q.builders]
      exact f3 _ l
    · exact ⟨⟨⟨hl.1.ainv, hl.1.pend, hl.1.nodupW, hl.1.fresh, hl.1.wsize, hl.1.bound, hl.1.logn⟩, hl.2⟩, hbi⟩
  | resetting m i =>
    have hl : Led (⟨peer, maxRetries, builders, nextTopic, token, done, sender, .resetting m i, closedStreams, waiters,
        nextTicket, topics, pubClosed, alloc, log⟩ : State) (hb builders + m.size) := h.led
    unfold State.ack
    simp only
    split
    · exact (error_finish_linv hp hl hbi)
    · exact ⟨⟨⟨hl.1.ainv, hl.1.pend, hl.1.nodupW, hl.1.fresh, hl.1.wsize, hl.1.bound, hl.1.logn⟩, hl.2⟩, hbi⟩

end ops

end GS.MQ.Ov

/-! ## back to `OInv`: every step of this queue itself -/
namespace GS.MQ
open GS.Alloc

/-- this queue's own deferred `ReleasePeerMemory(p)`: every waiting caller of the peer (of either
    queue) is refused, nothing stays accounted -/
theorem releasePeer_coupledO {pick : Pick} (hp : Admissible pick) {B : Nat} {s : State} (hc : CoupledO B s)
    (hg : grantedBytes s.waiters = 0) :
    CoupledO B (s.allocStep pick (.releasePeer s.peer)).1 ∧
    tot (s.allocStep pick (.releasePeer s.peer)).1.alloc s.peer = 0 ∧
    grantedBytes (s.allocStep pick (.releasePeer s.peer)).1.waiters = 0 := by
  have hv := view hp hc.ainv (.releasePeer s.peer) s.peer
  obtain ⟨r1, r2, r3, r4⟩ := releasePeer_own hp hc.ainv s.peer
  obtain ⟨a1, a2⟩ := answer_fails s.peer (Alloc.step pick s.alloc (.releasePeer s.peer)).2 s.waiters r1 (by
    intro x hx
    rw [r3]
    rw [← hc.pend] at hx
    unfold ownT at hx
    exact List.mem_map.mpr ⟨x, (List.mem_filter.mp hx).1, rfl⟩)
  have hcore := answerWaiters_core s.peer (Alloc.step pick s.alloc (.releasePeer s.peer)).2 s.waiters
  refine ⟨⟨hv.inv, ?_, ?_, ?_, ?_, hc.bound⟩, r4, ?_⟩
  · show ownT B (pendTA (Alloc.step pick s.alloc (.releasePeer s.peer)).1 s.peer) = unanswered (answerWaiters s.peer s.waiters _)
    rw [r2, a1]; rfl
  · show ((answerWaiters s.peer s.waiters _).map (·.ticket)).Nodup
    rw [core_tickets hcore]; exact hc.nodupW
  · intro w hw
    obtain ⟨w0, h0, e1, _, _⟩ := core_mem hcore w hw
    show w.ticket < s.nextTicket
    rw [e1]; exact hc.fresh w0 h0
  · intro w hw
    obtain ⟨w0, h0, _, e2, e3⟩ := core_mem hcore w hw
    rw [e2, e3]; exact hc.wsize w0 h0
  · show grantedBytes (answerWaiters s.peer s.waiters _) = 0
    omega

/-- **This queue's exit step** (`ReleasePeerMemory(p)` in the deferred function of `runQueue`): nothing is
    accounted to the peer afterwards — the other queue's bytes are wiped too, the ghost restarts at 0. -/
theorem exit_oinv {pick : Pick} (hp : Admissible pick) {B : Nat} {s : State} {o : Nat} (h : OInv B s o)
    (hcn : CN s) (hpc : s.pc = .exiting) (hg : heldGranted s = 0) (ok : Bool) : OInv B (s.ack pick ok) 0 := by
  obtain ⟨peer, maxRetries, builders, nextTopic, token, done, sender, pc, closedStreams, waiters,
    nextTicket, topics, pubClosed, alloc, log⟩ := s
  simp only at hpc
  subst hpc
  have hb0 : builders = [] := hcn rfl
  subst hb0
  obtain ⟨c1, c2, c3⟩ := releasePeer_coupledO hp h.cpl hg
  unfold State.ack
  simp only
  generalize hs1 : (State.allocStep pick (⟨peer, maxRetries, [], nextTopic, token, done, sender, .exiting, closedStreams, waiters,
      nextTicket, topics, pubClosed, alloc, log⟩ : State) (.releasePeer peer)).1 = s1 at c1 c2 c3
  have hb1 : s1.builders = [] := by subst hs1; rfl
  have hp1 : s1.peer = peer := by subst hs1; rfl
  refine ⟨⟨c1.ainv, c1.pend, c1.nodupW, c1.fresh, c1.wsize, c1.bound⟩, ?_, ?_⟩
  · show tot s1.alloc s1.peer = hb s1.builders + 0 + grantedBytes s1.waiters + 0
    rw [hp1, c2, hb1, c3]; rfl
  · show ∀ b ∈ s1.builders, BInv b
    rw [hb1]; intro b hb'; cases hb'

/-- **Every other step of this queue** — `build`, `wake`, `run`, `ack` (not the exit step), `shutdown` —
    keeps `AllocatedForPeer p = held + o`, the ghost growing by the grants to the other queue's tickets
    that the step's own releases let through. -/
theorem own_step_oinv {pick : Pick} (hp : Admissible pick) {B : Nat} {s : State} {o : Nat} (h : OInv B s o)
    (hcn : CN s) (a : Act) (hne : ∀ op, a ≠ .env op) (hB : ∀ tx, a = .build tx → s.nextTicket < B)
    (hpc : s.pc ≠ .exiting ∨ ∀ ok, a ≠ .ack ok) :
    OInv B (step pick s a)
      (o + amounts (forT B (grantsOf s.peer ((memOf (step pick s a).log).drop (memOf s.log).length)))) := by
  letI P : Ov.Params := ⟨B, (memOf s.log).length, o⟩
  have hfg0 : Ov.fg s = 0 := by
    show amounts (forT B (grantsOf s.peer ((memOf s.log).drop (memOf s.log).length))) = 0
    rw [List.drop_length]; rfl
  have hl : Ov.LInv s :=
    ⟨⟨Ov.Coupled.of h.cpl (Nat.le_refl _), by
      show tot s.alloc s.peer = hb s.builders + heldInFlight s + grantedBytes s.waiters + (Ov.fg s + o)
      rw [hfg0]; have := h.ledger; omega⟩, h.binv⟩
  have key : Ov.LInv (step pick s a) := by
    cases a with
    | build tx => exact (Ov.build_linv hp hl tx (hB tx rfl)).1
    | wake t => exact (Ov.wake_linv hp hl t).1
    | run pw => exact Ov.run_linv hp hl pw
    | ack ok =>
      refine Ov.ack_linv hp hl hcn ?_ ok
      rcases hpc with h1 | h1
      · exact h1
      · exact absurd rfl (h1 ok)
    | shutdown =>
      exact ⟨⟨⟨hl.led.1.ainv, hl.led.1.pend, hl.led.1.nodupW, hl.led.1.fresh, hl.led.1.wsize, hl.led.1.bound,
        hl.led.1.logn⟩, hl.led.2⟩, hl.binv⟩
    | env op => exact absurd rfl (hne op)
  have hk : tot (step pick s a).alloc (step pick s a).peer
      = hb (step pick s a).builders + heldInFlight (step pick s a) + grantedBytes (step pick s a).waiters
        + (Ov.fg (step pick s a) + o) := key.led.2
  have e : Ov.fg (step pick s a)
      = amounts (forT B (grantsOf s.peer ((memOf (step pick s a).log).drop (memOf s.log).length))) := by
    show amounts (forT B (grantsOf (step pick s a).peer ((memOf (step pick s a).log).drop (memOf s.log).length))) = _
    rw [(step_ext pick s a).peer]
  refine ⟨key.led.1.co, ?_, key.binv⟩
  rw [hk, e]; omega

end GS.MQ
