import GS.Model.PanicsRes
import GSProofs.Lemmas.PanicsResCalm
/-!
Helper lemmas for C22 (resource layer), part 4: a request none of whose calls panics never carries
a panic error or the error class `panicked`, so `calmReq` does not change it.
-/
namespace GS.Panics.Res
open GS.Generated.PanicSites GS.Generated.PanicCleanup GS.Panics

structure Clean (r : RReq) : Prop where
  script : ∀ c ∈ r.script, c.res ≠ .panic
  out : calmOut r.out = r.out
  cls : calmCls r.cls = r.cls

theorem calmReq_clean {r : RReq} (h : Clean r) : calmReq r = r := by
  rcases r with ⟨peer, script, phase, out, cls, delivered, lock, released⟩
  have hs : script.map calmCall = script := by
    have : ∀ c ∈ script, calmCall c = c := fun c hc => calmCall_of_ne (h.script c hc)
    calc script.map calmCall = script.map id := List.map_congr_left this
      _ = script := by simp
  have ho := h.out; have hc := h.cls
  simp only at ho hc
  simp [calmReq, hs, ho, hc]

theorem stepRunning_clean {cfg : Cfg} {r : RReq} (h : Clean r) : Clean (stepRunning cfg r).1 := by
  rcases r with ⟨peer, script, phase, out, cls, delivered, lock, released⟩
  cases script with
  | nil => exact ⟨by simp [stepRunning, failWith], by simp [stepRunning, failWith, calmOut], by simp [stepRunning, failWith, calmCls]⟩
  | cons c rest =>
    rcases c with ⟨sd, kd, res⟩
    cases res with
    | ok =>
      refine ⟨?_, by simpa [stepRunning] using h.out, by simpa [stepRunning] using h.cls⟩
      intro c hc; exact h.script c (by simp [stepRunning] at hc; simp [hc])
    | err => exact ⟨by simp [stepRunning, failWith], by simp [stepRunning, failWith, calmOut], by simp [stepRunning, failWith, calmCls]⟩
    | panic => exact absurd rfl (h.script ⟨sd, kd, .panic⟩ (by simp))

theorem applyAct_clean (s : RSys) (i : Nat) {r : RReq} (a : Act) (h : Clean r) : Clean (applyAct s i r a).2 := by
  cases a <;> exact ⟨by simpa [applyAct] using h.script, by simpa [applyAct] using h.out, by simpa [applyAct] using h.cls⟩

theorem step_clean {cfg : Cfg} {s : RSys} (i : Nat)
    (h : ∀ (j : Nat) (q : RReq), s.reqs[j]? = some q → Clean q) :
    ∀ (j : Nat) (q : RReq), (step cfg s i).reqs[j]? = some q → Clean q := by
  unfold step
  by_cases hc : s.crashed = true
  · simpa [hc] using h
  · simp only [hc, Bool.false_eq_true, if_false]
    cases hri : s.reqs[i]? with
    | none => simpa using h
    | some r =>
      have hr := h i r hri
      have key : ∀ (l : List RReq) (r' : RReq), l = s.reqs → Clean r' →
          ∀ (j : Nat) (q : RReq), (l.set i r')[j]? = some q → Clean q := by
        intro l r' hl hr' j q hq
        subst hl
        rw [List.getElem?_set] at hq
        by_cases hij : i = j
        · subst hij
          by_cases hlt : i < s.reqs.length
          · simp [hlt] at hq; rw [← hq]; exact hr'
          · simp [hlt] at hq
        · simp [hij] at hq; exact h j q hq
      simp only
      cases hph : r.phase with
      | queued =>
        by_cases hp : canPop cfg s r = true
        · simp only [hp, if_true]
          exact key _ _ rfl ⟨hr.script, hr.out, hr.cls⟩
        · simpa [hp] using h
      | running =>
        have := stepRunning_clean (cfg := cfg) hr
        rcases hst : stepRunning cfg r with ⟨r', e⟩
        rw [hst] at this
        cases e with
        | crash => simpa using h
        | none => exact key _ _ rfl this
        | cb sd k => exact key _ _ rfl this
      | cleaning todo =>
        cases todo with
        | nil => exact key _ _ rfl ⟨hr.script, hr.out, hr.cls⟩
        | cons a rest =>
          by_cases hl : r.lock = true
          · simpa [hl] using h
          · simp only [hl, Bool.false_eq_true, if_false]
            have hc' := applyAct_clean s i a hr
            exact key _ _ (applyAct_script s i r a).2.1 ⟨hc'.script, hc'.out, hc'.cls⟩
      | done => simpa using h

/-- a request without panicking calls stays clean along every run, whatever the others do -/
theorem run_clean_at {cfg : Cfg} (sched : List Nat) (j : Nat) :
    ∀ {s : RSys}, (∀ q, s.reqs[j]? = some q → Clean q) →
      ∀ q, (run cfg s sched).reqs[j]? = some q → Clean q := by
  -- cleanliness of request j is preserved by every step, because a step at i ≠ j does not touch it
  induction sched with
  | nil => intro s h; exact h
  | cons i rest ih =>
    intro s h
    have hstep : ∀ q, (step cfg s i).reqs[j]? = some q → Clean q := by
      intro q hq
      by_cases hij : i = j
      · subst hij
        revert hq
        unfold step
        by_cases hc : s.crashed = true
        · simp only [hc, if_true]; exact h q
        · simp only [hc, Bool.false_eq_true, if_false]
          cases hri : s.reqs[i]? with
          | none => simp only; intro hq; exact h q (by rw [hri] at hq ⊢; exact hq)
          | some r =>
            have hr := h r hri
            have hlt : i < s.reqs.length := (List.getElem?_eq_some_iff.mp hri).1
            simp only
            cases hph : r.phase with
            | queued =>
              by_cases hp : canPop cfg s r = true
              · simp only [hp, if_true, List.getElem?_set_self hlt]
                intro hq; rw [← Option.some.inj hq]; exact ⟨hr.script, hr.out, hr.cls⟩
              · simp only [hp, Bool.false_eq_true, if_false]; intro hq; exact h q hq
            | running =>
              have := stepRunning_clean (cfg := cfg) hr
              rcases hst : stepRunning cfg r with ⟨r', e⟩
              rw [hst] at this
              cases e with
              | crash => simp only; intro hq; exact h q hq
              | none => simp only [List.getElem?_set_self hlt]; intro hq; rw [← Option.some.inj hq]; exact this
              | cb sd k => simp only [List.getElem?_set_self hlt]; intro hq; rw [← Option.some.inj hq]; exact this
            | cleaning todo =>
              cases todo with
              | nil =>
                simp only [List.getElem?_set_self hlt]
                intro hq; rw [← Option.some.inj hq]; exact ⟨hr.script, hr.out, hr.cls⟩
              | cons a rest =>
                by_cases hl : r.lock = true
                · simp only [hl, if_true]; intro hq; exact h q hq
                · simp only [hl, Bool.false_eq_true, if_false]
                  have hc' := applyAct_clean s i a hr
                  have hlen : i < (applyAct s i r a).1.reqs.length := by
                    rw [(applyAct_script s i r a).2.1]; exact hlt
                  simp only [List.getElem?_set_self hlen]
                  intro hq; rw [← Option.some.inj hq]; exact ⟨hc'.script, hc'.out, hc'.cls⟩
            | done => simp only; intro hq; exact h q hq
      · -- a step of another request leaves request j alone
        have : (step cfg s i).reqs[j]? = s.reqs[j]? := by
          unfold step
          by_cases hc : s.crashed = true
          · simp [hc]
          · simp only [hc, Bool.false_eq_true, if_false]
            cases hri : s.reqs[i]? with
            | none => rfl
            | some r =>
              simp only
              cases hph : r.phase with
              | queued => by_cases hp : canPop cfg s r = true <;> simp [hp, List.getElem?_set_ne hij]
              | running =>
                rcases hst : stepRunning cfg r with ⟨r', e⟩
                cases e <;> simp [List.getElem?_set_ne hij]
              | cleaning todo =>
                cases todo with
                | nil => simp [List.getElem?_set_ne hij]
                | cons a rest =>
                  by_cases hl : r.lock = true
                  · simp [hl]
                  · simp [hl, List.getElem?_set_ne hij, (applyAct_script s i r a).2.1]
              | done => rfl
        exact h q (this ▸ hq)
    simpa [run] using ih (s := step cfg s i) hstep

end GS.Panics.Res
