import GSProofs.Lemmas.RespLifeOutcomeNStep
/-!
Registrations vs requests received: a request id is registered (`newRequest`, one `Protect`) at most as often as
a `new` request with that id was received (`State.seenIds`).  On the registry projection `pi` and its step
relation `RStep`.
-/
namespace GS.RespLife

/-- registrations so far + `new` requests still waiting ≤ `new` requests received -/
def BI (r : Id) (x : Pi) : Prop :=
  x.plog.countP (regEv r) + (x.news.map Prod.snd).count r ≤ x.seen.count r

theorem regs_pi (r : Id) (s : State) : regs r s = (pi s).plog.countP (regEv r) := by
  show s.events.countP (regEv r) = (s.events.filter isProtEv).countP (regEv r)
  rw [List.countP_filter]
  congr 1
  funext e
  cases e <;> simp [regEv, isProtEv]

theorem bi_rstep {r : Id} {x x' : Pi} (h : RStep x x') (hlen : x'.news.length ≤ x.news.length) (hb : BI r x) :
    BI r x' := by
  unfold BI at hb ⊢
  cases h with
  | same => exact hb
  | term p id hk =>
    simp only [Pi.term, List.countP_append, List.countP_cons, List.countP_nil, regEv]
    simpa using hb
  | recvNew p id seen' h1 h2 h3 =>
    simp only [List.length_append, List.length_cons, List.length_nil] at hlen
    omega
  | newOk p id rest hn hp hown =>
    simp only [Pi.insert, Pi.protect, List.countP_append, List.countP_cons, List.countP_nil, regEv]
    rw [hn] at hb
    simp only [List.map_cons, List.count_cons] at hb
    by_cases hid : id = r
    · subst hid; simp at hb ⊢; omega
    · have : (id == r) = false := by simpa using hid
      simp [this] at hb ⊢; omega
  | newPark p id rest c hn hp hown =>
    simp only [Pi.protect, List.countP_append, List.countP_cons, List.countP_nil, regEv]
    rw [hn] at hb
    simp only [List.map_cons, List.count_cons] at hb
    by_cases hid : id = r
    · subst hid; simp at hb ⊢; omega
    · have : (id == r) = false := by simpa using hid
      simp [this] at hb ⊢; omega
  | resumeNew p id hp => simpa [Pi.insert] using hb
  | setPcore c => exact hb
  | dropNew k rest hn =>
    rw [hn] at hb
    simp only [List.map_cons, List.count_cons] at hb
    show x.plog.countP (regEv r) + (rest.map Prod.snd).count r ≤ x.seen.count r
    omega

theorem newIds_length_cons (m : Msg) (rest : List Msg) : (newIds rest).length ≤ (newIds (m :: rest)).length := by
  unfold newIds
  rw [List.filterMap_cons]
  split
  · exact Nat.le_refl _
  · simp

theorem mailbox_resumeMgr (s : State) (pk : MgrPark) : (resumeMgr s pk).mailbox = s.mailbox := by
  have h1 : mbk (buildNow { s with park := none } .mgr pk.peer pk.id pk.ops) = mbk s := by
    rw [mbk_buildNow]; rfl
  unfold resumeMgr
  simp only
  generalize buildNow { s with park := none } .mgr pk.peer pk.id pk.ops = s1 at h1
  have hm : s1.mailbox = s.mailbox := congrArg Prod.fst h1
  cases pk.cont with
  | newReq p id cfg => exact (congrArg Prod.fst (mbk_newReqFinish s1 p id cfg)).trans hm
  | procUpdate id plan => exact (congrArg Prod.fst (mbk_procUpdateFinish s1 id plan)).trans hm
  | unpause id ext =>
    show (unpauseFinish s1 id).mailbox = _
    exact (congrArg Prod.fst (mbk_unpauseFinish s1 id)).trans hm
  | update id ext => exact hm

theorem news_len_mgrStep {s s' : State} (h : mgrStep s = some s') :
    (pi s').news.length ≤ (pi s).news.length := by
  unfold mgrStep at h
  split at h
  · rename_i pk hpk
    split at h
    · cases h
      show (newIds (resumeMgr s pk).mailbox).length ≤ _
      rw [mailbox_resumeMgr]; exact Nat.le_refl _
    · cases h
  · split at h
    · cases h
    · rename_i m rest hm
      cases h
      have : (handle { s with mailbox := rest, handled := s.handled + 1 } m).mailbox = rest :=
        congrArg Prod.fst (mbk_handle { s with mailbox := rest, handled := s.handled + 1 } m)
      show (newIds (handle _ m).mailbox).length ≤ (newIds s.mailbox).length
      rw [this, hm]
      exact newIds_length_cons m rest

theorem bi_step {r : Id} {s s' : State} {a : Action} (hf : FreshStep s a) (h : step s a = some s')
    (hb : BI r (pi s)) : BI r (pi s') := by
  cases a with
  | recv p q =>
    simp only [step, Option.some.injEq] at h
    subst h
    cases q with
    | new id cfg =>
      have : pi (sendMsg { s with seenIds := s.seenIds ++ [id] } (Msg.processRequests p (ReqMsg.new id cfg))) =
          { pi s with seen := s.seenIds ++ [id], news := (pi s).news ++ [(p, id)] } := by
        simp only [pi, sendMsg, keys]
        congr 1
        simp [newIds, List.filterMap_append]
      rw [this]
      unfold BI at hb ⊢
      simp only [List.map_append, List.map_cons, List.map_nil, List.count_append, List.count_cons, List.count_nil]
      have e : (pi s).seen = s.seenIds := rfl
      rw [e] at hb
      by_cases hid : id = r
      · subst hid; simp; omega
      · have : (id == r) = false := by simpa using hid
        simp [this]; omega
    | cancel id => rw [pi_mail _ _ rfl]; exact hb
    | update id plan => rw [pi_mail _ _ rfl]; exact hb
  | api c =>
    simp only [step, Option.some.injEq] at h
    subst h; rw [pi_mail _ _ rfl]; exact hb
  | mgr => exact bi_rstep (rstep_mgr h) (news_len_mgrStep h) hb
  | pop p id => rw [pi_popTask h]; exact hb
  | reap p => rw [pi_reap h]; exact hb
  | wstep w pick => rw [pi_wstep h]; exact hb
  | extract p => rw [pi_extract h]; exact hb
  | net p ok => rw [pi_netResolve h]; exact hb
  | pub p => rw [pi_pubStep h]; exact hb
  | primer p =>
    simp only [step, Option.some.injEq] at h
    subst h; rw [pi_primer]; exact hb
  | thaw =>
    simp only [step, Option.some.injEq] at h
    subst h; rw [pi_thawAll]; exact hb

/-- **registrations ≤ requests received** (per id) -/
theorem regs_le_seen {c : Cfg} {s : State} (h : ReachableFresh c s) (r : Id) : regs r s ≤ s.seenIds.count r := by
  have hb : BI r (pi s) := by
    induction h with
    | init => show 0 + 0 ≤ 0; exact Nat.le_refl _
    | step _ hf hs ih => exact bi_step hf hs ih
  unfold BI at hb
  rw [regs_pi]
  have e : (pi s).seen = s.seenIds := rfl
  rw [e] at hb
  omega

end GS.RespLife
