import GSProofs.Lemmas.MsgQueueLedger4
/-!
# Message queue: reachable states satisfy the ledger invariant until the queue goroutine exits
-/
namespace GS.MQ
open GS.Alloc

theorem buildWith_pc (pick : Pick) (s : State) (tx : Tx) (size : Nat) : (buildWith pick s tx size).pc = s.pc := by
  unfold buildWith
  simp only
  split
  · exact buildMsg_pc _ _ _ _ _
  · split
    · rw [buildMsg_pc]; rfl
    · rfl

theorem build_pc (pick : Pick) (s : State) (tx : Tx) : (s.build pick tx).pc = s.pc := by
  rw [build_eq]; split
  · rfl
  · exact buildWith_pc _ _ _ _

theorem wake_pc (pick : Pick) (s : State) (t : Nat) : (s.wake pick t).pc = s.pc := by
  unfold State.wake
  split
  · rfl
  · simp only; split
    · rw [buildMsg_pc]
    · rfl

theorem run_exited (pick : Pick) (s : State) (pw : Bool) (h : s.pc = .exited) : s.run pick pw = s := by
  unfold State.run; rw [h]

theorem ack_exited (pick : Pick) (s : State) (ok : Bool) (h : s.pc = .exited) : s.ack pick ok = s := by
  unfold State.ack; rw [h]

/-- the inductive invariant: the ledger, and a closed queue has no queued builder -/
def I (s : State) : Prop := LInv s ∧ CN s

/-- the act is not an allocator call on this queue's own peer by somebody else (no second queue of
    the same peer is alive) -/
def soloAct (p : Nat) : Act → Bool
  | .env op => opPeer op != p
  | _ => true

/-- no act of the schedule is an allocator call on this queue's own peer by somebody else -/
def soloFrom (pick : Pick) : State → List Act → Bool
  | _, [] => true
  | s, a :: r => soloAct s.peer a && soloFrom pick (step pick s a) r

/-- the act is not the queue goroutine's deferred `ReleasePeerMemory` while a caller whose reservation
    has been granted has not yet reached `buildMessage` (that caller's bytes would be wiped, and its
    later release would hit whatever the peer holds then: finding `dead-queue-over-release`) -/
def cleanAct (s : State) : Act → Bool
  | .ack _ => !(s.pc == .exiting) || heldGranted s == 0
  | _ => true

def cleanFrom (pick : Pick) : State → List Act → Bool
  | _, [] => true
  | s, a :: r => cleanAct s a && cleanFrom pick (step pick s a) r

theorem step_I {pick : Pick} (hp : Admissible pick) {s : State} (h : I s) (a : Act) (hs : soloAct s.peer a = true)
    (hc : cleanAct s a = true) : I (step pick s a) := by
  refine ⟨?_, step_cn pick h.2 a⟩
  obtain ⟨h, hcn⟩ := h
  cases a with
  | build tx => exact (build_linv hp h tx).1
  | wake t => exact (wake_linv hp h t).1
  | run pw => exact run_linv hp h pw
  | ack ok =>
    apply ack_linv hp h hcn
    intro hpc
    simp only [cleanAct, hpc, beq_self_eq_true, Bool.not_true, Bool.false_or, beq_iff_eq] at hc
    exact hc
  | shutdown =>
    exact ⟨⟨⟨h.led.1.ainv, h.led.1.pend, h.led.1.nodupW, h.led.1.fresh, h.led.1.wsize⟩, h.led.2⟩, h.binv⟩
  | env op =>
    have hq' : opPeer op ≠ s.peer := by simpa [soloAct] using hs
    exact (env_linv hp h op hq').1

theorem init_LInv {peer mr mt mp : Nat} (ht : mt < W) (hm : mp < W) : LInv (init peer mr mt mp) := by
  refine ⟨⟨⟨Alloc.Inv.init ht hm, rfl, by simp [init], by simp [init], by simp [init]⟩, rfl⟩, by simp [init]⟩

theorem init_I {peer mr mt mp : Nat} (ht : mt < W) (hm : mp < W) : I (init peer mr mt mp) :=
  ⟨init_LInv ht hm, fun _ => rfl⟩

theorem runActs_I {pick : Pick} (hp : Admissible pick) {s : State} (h : I s) (acts : List Act)
    (hs : soloFrom pick s acts = true) (hc : cleanFrom pick s acts = true) : I (runActs pick s acts) := by
  unfold runActs
  induction acts generalizing s with
  | nil => exact h
  | cons a r ih =>
    simp only [soloFrom, cleanFrom, Bool.and_eq_true] at hs hc
    exact ih (step_I hp h a hs.1 hc.1) hs.2 hc.2

end GS.MQ
