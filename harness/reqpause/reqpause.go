// Package reqpause: component "reqpause" (property C06, requestor side, MODEL-COMPARED).
//
// The real requestmanager.RequestManager + executor.Executor + ReconciledLoader + ipldutil traverser
// with a fake peer handler and a scripted responder, exactly as component `requestor` (the set-up code
// is a copy of harness/requestor with pause support added), plus the operations
//
//	hookpause <k>[,<k>…]   before `req`: the incoming-block hook calls PauseRequest at these block indices  -> ok
//	pause                  RequestManager.PauseRequest                                      -> ok | err
//	unpause                RequestManager.UnpauseRequest                                    -> <events> | err
//	serve <sizes|->        the honest response of a responder holding `remote` to the most recent
//	                       new-request message (its do-not-send-first-blocks value), cut into messages
//	                       of the given sizes (then one item per message)                   -> <events>
//
// next to `lt`, `remote`, `put`, `req`, `msg` of component `requestor`.  The Lean side is
// GS/Driver/ReqPause.lean over GS.PauseResume; every output line must agree.
package reqpause

import (
	"bufio"
	"bytes"
	"context"
	"errors"
	"fmt"
	"io"
	"math/rand"
	"runtime"
	"sort"
	"strconv"
	"strings"
	"sync"

	blocks "github.com/ipfs/go-block-format"
	"github.com/ipfs/go-cid"
	"github.com/ipld/go-ipld-prime/datamodel"
	"github.com/ipld/go-ipld-prime/linking"
	cidlink "github.com/ipld/go-ipld-prime/linking/cid"
	"github.com/libp2p/go-libp2p/core/peer"

	"github.com/ipfs/go-graphsync"
	"github.com/ipfs/go-graphsync/donotsendfirstblocks"
	"github.com/ipfs/go-graphsync/listeners"
	gsmsg "github.com/ipfs/go-graphsync/message"
	"github.com/ipfs/go-graphsync/messagequeue"
	"github.com/ipfs/go-graphsync/persistenceoptions"
	"github.com/ipfs/go-graphsync/requestmanager"
	"github.com/ipfs/go-graphsync/requestmanager/executor"
	"github.com/ipfs/go-graphsync/requestmanager/hooks"
	"github.com/ipfs/go-graphsync/taskqueue"

	"verifharness/quiesce"
	"verifharness/reg"
	rq "verifharness/requestor"
)

func init() {
	reg.Register(&reg.Component{Name: "reqpause", Gen: Gen, Run: Run})
}

type sentReq struct {
	p peer.ID
	r gsmsg.GraphSyncRequest
}

type blockSeen struct {
	link   cid.Cid
	onWire uint64
	index  int64
}

type storeWrite struct {
	link cid.Cid
	data []byte
}

type sys struct {
	w      *rq.World
	names  map[cid.Cid]int
	ctx    context.Context
	cancel context.CancelFunc
	rm     *requestmanager.RequestManager
	tq     *taskqueue.WorkerTaskQueue
	store  map[cid.Cid][]byte
	hookAt map[int64]bool

	mu         sync.Mutex
	sent       []sentReq
	prog       int
	errs       []error
	writes     []storeWrite
	blks       []blockSeen
	progClosed bool
	errClosed  bool
	started    bool
	reqID      graphsync.RequestID
	lastSkip   int64
	haveNew    bool
}

type peerHandler struct{ s *sys }

func (ph *peerHandler) AllocateAndBuildMessage(p peer.ID, blkSize uint64, fn func(*messagequeue.Builder)) {
	b := messagequeue.NewBuilder(context.Background(), messagequeue.Topic(0))
	fn(b)
	m, err := b.Build()
	if err != nil {
		panic(err)
	}
	ph.s.mu.Lock()
	defer ph.s.mu.Unlock()
	for _, r := range m.Requests() {
		ph.s.sent = append(ph.s.sent, sentReq{p, r})
		if r.Type() == graphsync.RequestTypeNew {
			ph.s.haveNew = true
			ph.s.lastSkip = 0
			if d, ok := r.Extension(graphsync.ExtensionsDoNotSendFirstBlocks); ok {
				ph.s.lastSkip, _ = donotsendfirstblocks.DecodeDoNotSendFirstBlocks(d)
			}
		}
	}
}

type nopConnManager struct{}

func (nopConnManager) Protect(peer.ID, string)        {}
func (nopConnManager) Unprotect(peer.ID, string) bool { return false }

func newSys(w *rq.World) *sys {
	s := &sys{w: w, store: map[cid.Cid][]byte{}, names: map[cid.Cid]int{}, hookAt: map[int64]bool{}}
	for i, c := range w.D.Cids {
		s.names[c] = i
	}
	s.ctx, s.cancel = context.WithCancel(context.Background())
	ls := cidlink.DefaultLinkSystem()
	ls.StorageReadOpener = func(lc linking.LinkContext, l datamodel.Link) (io.Reader, error) {
		s.mu.Lock()
		defer s.mu.Unlock()
		b, ok := s.store[l.(cidlink.Link).Cid]
		if !ok {
			return nil, fmt.Errorf("not found")
		}
		return bytes.NewReader(b), nil
	}
	ls.StorageWriteOpener = func(lc linking.LinkContext) (io.Writer, linking.BlockWriteCommitter, error) {
		var buf bytes.Buffer
		return &buf, func(l datamodel.Link) error {
			c := l.(cidlink.Link).Cid
			data := append([]byte{}, buf.Bytes()...)
			s.mu.Lock()
			s.store[c] = data
			s.writes = append(s.writes, storeWrite{c, data})
			s.mu.Unlock()
			return nil
		}, nil
	}
	s.tq = taskqueue.NewTaskQueue(s.ctx)
	s.rm = requestmanager.New(s.ctx, persistenceoptions.New(), ls, hooks.NewRequestHooks(), hooks.NewResponseHooks(),
		listeners.NewNetworkErrorListeners(), listeners.NewRequestProcessingListeners(), s.tq, nopConnManager{}, 0, nil)
	bh := hooks.NewBlockHooks()
	bh.Register(func(p peer.ID, rd graphsync.ResponseData, bd graphsync.BlockData, ha graphsync.IncomingBlockHookActions) {
		s.mu.Lock()
		s.blks = append(s.blks, blockSeen{bd.Link().(cidlink.Link).Cid, bd.BlockSizeOnWire(), bd.Index()})
		pause := s.hookAt[bd.Index()]
		s.mu.Unlock()
		if pause {
			ha.PauseRequest()
		}
	})
	ex := executor.NewExecutor(s.rm, bh)
	s.rm.SetDelegate(&peerHandler{s})
	s.rm.Startup()
	s.tq.Startup(1, ex)
	return s
}

func (s *sys) request(userSkip int64) {
	var exts []graphsync.ExtensionData
	if userSkip > 0 {
		exts = append(exts, graphsync.ExtensionData{Name: graphsync.ExtensionsDoNotSendFirstBlocks, Data: donotsendfirstblocks.EncodeDoNotSendFirstBlocks(userSkip)})
	}
	s.reqID = graphsync.NewRequestID()
	ctx := context.WithValue(s.ctx, graphsync.RequestIDContextKey{}, s.reqID)
	pc, ec := s.rm.NewRequest(ctx, rq.Peer(0), cidlink.Link{Cid: s.w.D.Root}, s.w.Sel, exts...)
	s.started = true
	go func() {
		for range pc {
			s.mu.Lock()
			s.prog++
			s.mu.Unlock()
		}
		s.mu.Lock()
		s.progClosed = true
		s.mu.Unlock()
	}()
	go func() {
		for e := range ec {
			s.mu.Lock()
			s.errs = append(s.errs, e)
			s.mu.Unlock()
		}
		s.mu.Lock()
		s.errClosed = true
		s.mu.Unlock()
	}()
}

type item struct {
	c      int
	action byte // p | m | d | s
}

func actionOf(a byte) graphsync.LinkAction {
	switch a {
	case 'p':
		return graphsync.LinkActionPresent
	case 'd':
		return graphsync.LinkActionDuplicateNotSent
	case 'm':
		return graphsync.LinkActionMissing
	default:
		return graphsync.LinkActionDuplicateDAGSkipped
	}
}

func (s *sys) message(p int, known bool, status int, items []item, blks []int) bool {
	id := s.reqID
	if !known {
		id = graphsync.NewRequestID()
	}
	md := make([]gsmsg.GraphSyncLinkMetadatum, 0, len(items))
	for _, it := range items {
		if it.c < 0 || it.c >= len(s.w.D.Cids) {
			return false
		}
		md = append(md, gsmsg.GraphSyncLinkMetadatum{Link: s.w.D.Cids[it.c], Action: actionOf(it.action)})
	}
	var bs []blocks.Block
	for _, i := range blks {
		if i < 0 || i >= len(s.w.D.Cids) {
			return false
		}
		b, _ := blocks.NewBlockWithCid(s.w.D.Data[s.w.D.Cids[i]], s.w.D.Cids[i])
		bs = append(bs, b)
	}
	s.rm.ProcessResponses(rq.Peer(p), []gsmsg.GraphSyncResponse{gsmsg.NewResponse(id, graphsync.ResponseStatusCode(status), md)}, bs)
	return true
}

func (s *sys) close() {
	s.cancel()
	quiesce.Wait(nil)
}

func (s *sys) pathName(p datamodel.Path) string {
	var segs []string
	for _, sg := range p.Segments() {
		segs = append(segs, s.w.Seg.Name(sg.String()))
	}
	if len(segs) == 0 {
		return "-"
	}
	return strings.Join(segs, "/")
}

func (s *sys) linkName(l datamodel.Link) string {
	if cl, ok := l.(cidlink.Link); ok {
		if i, ok := s.names[cl.Cid]; ok {
			return strconv.Itoa(i)
		}
	}
	return "?"
}

func (s *sys) errName(e error) string {
	var miss graphsync.RemoteMissingBlockErr
	var inc graphsync.RemoteIncorrectResponseError
	switch {
	case errors.As(e, &miss):
		return fmt.Sprintf("missing:%s:%s", s.linkName(miss.Link), s.pathName(miss.Path))
	case errors.As(e, &inc):
		return fmt.Sprintf("incorrect:%s:%s:%s", s.linkName(inc.LocalLink), s.linkName(inc.RemoteLink), s.pathName(inc.Path))
	}
	for code := graphsync.ResponseStatusCode(30); code <= 35; code++ {
		if se := code.AsError(); se != nil && errors.Is(e, se) {
			return fmt.Sprintf("status:%d", code)
		}
	}
	m := e.Error()
	if strings.Contains(m, "additional data") {
		return "extra"
	}
	return "other"
}

// drain renders everything observed since the previous call (same line format as component requestor).
func (s *sys) drain() string {
	s.mu.Lock()
	defer s.mu.Unlock()
	var sent, errs, ws, bs []string
	for _, sr := range s.sent {
		switch sr.r.Type() {
		case graphsync.RequestTypeNew:
			skip := int64(0)
			if d, ok := sr.r.Extension(graphsync.ExtensionsDoNotSendFirstBlocks); ok {
				skip, _ = donotsendfirstblocks.DecodeDoNotSendFirstBlocks(d)
			}
			sent = append(sent, fmt.Sprintf("new:%d", skip))
		case graphsync.RequestTypeCancel:
			sent = append(sent, "cancel")
		default:
			sent = append(sent, "update")
		}
	}
	for _, x := range s.blks {
		lr := "l"
		if x.onWire > 0 {
			lr = "r"
		}
		bs = append(bs, fmt.Sprintf("%d%s%d", s.names[x.link], lr, x.index))
	}
	for _, x := range s.errs {
		errs = append(errs, s.errName(x))
	}
	for _, x := range s.writes {
		content := "?"
		for i, k := range s.w.D.Cids {
			if bytes.Equal(s.w.D.Data[k], x.data) {
				content = strconv.Itoa(i)
				break
			}
		}
		ws = append(ws, fmt.Sprintf("%d=%s", s.names[x.link], content))
	}
	j := func(l []string) string {
		if len(l) == 0 {
			return "-"
		}
		return strings.Join(l, ",")
	}
	closed := 0
	if s.progClosed && s.errClosed {
		closed = 1
	}
	line := fmt.Sprintf("sent=%s prog=%d blk=%s errs=%s w=%s closed=%d", j(sent), s.prog, j(bs), j(errs), j(ws), closed)
	s.sent, s.prog, s.errs, s.writes, s.blks = nil, 0, nil, nil, nil
	return line
}

// ---------------------------------------------------------------- the honest responder

type witem struct {
	c       int
	present bool
	block   bool
}

func isDesc(w *rq.World, j, i int) bool {
	for j > i {
		j = w.LT.Loads[j].Parent
	}
	return j == i
}

// honest: the items a responder holding `rem` produces for skip count `skip` (GS.PauseResume.honest)
func honest(w *rq.World, rem map[int]bool, skip int64) []witem {
	var out []witem
	seen := map[int]bool{}
	lt := w.LT.Loads
	idx := int64(0)
	for i := 0; i < len(lt); {
		b := lt[i].Block
		idx++
		if rem[b] {
			out = append(out, witem{b, true, skip < idx && !seen[b]})
			seen[b] = true
			i++
		} else {
			out = append(out, witem{b, false, false})
			k := i + 1
			for k < len(lt) && isDesc(w, k, i) {
				k++
			}
			i = k
		}
	}
	return out
}

func honestStatus(items []witem) int {
	if len(items) > 0 && !items[0].present {
		return 34
	}
	for _, it := range items {
		if !it.present {
			return 21
		}
	}
	return 20
}

type wmsg struct {
	status int
	items  []item
	blks   []int
}

func mkMsg(is []witem, st int) wmsg {
	m := wmsg{status: st}
	for _, i := range is {
		a := byte('m')
		if i.present {
			a = 'p'
		}
		m.items = append(m.items, item{i.c, a})
		if i.block {
			m.blks = append(m.blks, i.c)
		}
	}
	return m
}

// batchMsgs = GS.PauseResume.batchMsgs, except that a failure status travels in a message of its own
// after the items (in one message it would race with the items' loads); both sides do the same.
func batchMsgs(sizes []int, is []witem, fin int) []wmsg {
	var out []wmsg
	failure := fin >= 30
	for {
		if len(is) == 0 {
			out = append(out, mkMsg(nil, fin))
			return out
		}
		n := 1
		if len(sizes) > 0 {
			n = sizes[0]
			sizes = sizes[1:]
		}
		if n < 1 {
			n = 1
		}
		if len(is) <= n {
			if failure {
				out = append(out, mkMsg(is, 14), mkMsg(nil, fin))
			} else {
				out = append(out, mkMsg(is, fin))
			}
			return out
		}
		out = append(out, mkMsg(is[:n], 14))
		is = is[n:]
	}
}

// ---------------------------------------------------------------- run

func headerDag(hdr string) (int64, int, bool) {
	for _, t := range strings.Fields(hdr) {
		if strings.HasPrefix(t, "dag=") {
			f := strings.Split(t[4:], ":")
			if len(f) != 2 {
				return 0, 0, false
			}
			s, e1 := strconv.ParseInt(f[0], 10, 64)
			m, e2 := strconv.Atoi(f[1])
			return s, m, e1 == nil && e2 == nil && m >= 1 && m <= 30
		}
	}
	return 0, 0, false
}

func parseItems(s string) ([]item, bool) {
	if s == "-" {
		return nil, true
	}
	var out []item
	for _, t := range strings.Split(s, ",") {
		if len(t) < 2 || !strings.ContainsRune("pdms", rune(t[len(t)-1])) {
			return nil, false
		}
		c, err := strconv.Atoi(t[:len(t)-1])
		if err != nil || c < 0 {
			return nil, false
		}
		out = append(out, item{c, t[len(t)-1]})
	}
	return out, true
}

func fmtItems(items []item) string {
	if len(items) == 0 {
		return "-"
	}
	ss := make([]string, len(items))
	for i, it := range items {
		ss[i] = fmt.Sprintf("%d%c", it.c, it.action)
	}
	return strings.Join(ss, ",")
}

func Run(cases []reg.Case, out *reg.Out) {
	runtime.GOMAXPROCS(1)
	for _, c := range cases {
		out.BeginCase(c)
		runCase(c, out)
	}
}

func runCase(c reg.Case, out *reg.Out) {
	seed, mb, ok := headerDag(c.Header)
	var w *rq.World
	if ok {
		var err error
		w, err = rq.NewWorld(seed, mb)
		ok = err == nil
	}
	if !ok {
		for range c.Ops {
			out.Line("bad-case")
		}
		return
	}
	s := newSys(w)
	defer s.close()
	rem := map[int]bool{}
	ltOK := false
	for _, op := range c.Ops {
		out.Cov("op." + op[0])
		switch op[0] {
		case "lt":
			ltOK = strings.Join(op, " ") == w.LTLine
			out.Line("-")
		case "note":
			out.Line("-")
		case "remote":
			if len(op) == 2 && !s.started {
				if l, ok := rq.ParseInts(op[1]); ok {
					for _, x := range l {
						rem[x] = true
					}
				}
			}
			out.Line("-")
		case "put":
			good := len(op) > 1 && !s.started
			var l []int
			for _, t := range op[1:] {
				n, err := strconv.Atoi(t)
				if err != nil || n < 0 || n >= len(w.D.Cids) {
					good = false
				}
				l = append(l, n)
			}
			if !good {
				out.Line("bad-op")
				continue
			}
			for _, n := range l {
				s.store[w.D.Cids[n]] = w.D.Data[w.D.Cids[n]]
			}
			out.Line("ok")
		case "hookpause":
			l, ok := rq.ParseInts(opArg(op, 1))
			if len(op) != 2 || !ok || s.started {
				out.Line("bad-op")
				continue
			}
			for _, k := range l {
				s.hookAt[int64(k)] = true
			}
			out.Line("ok")
		case "req":
			us, err := strconv.ParseInt(opArg(op, 1), 10, 64)
			if len(op) != 2 || s.started || !ltOK || err != nil || us < 0 {
				out.Line("bad-op")
				continue
			}
			s.request(us)
			quiesce.Wait(nil)
			out.Line("%s", s.drain())
		case "msg":
			if len(op) != 6 || !s.started || (op[2] != "r" && op[2] != "x") {
				out.Line("bad-op")
				continue
			}
			p, e1 := strconv.Atoi(op[1])
			st, e2 := strconv.Atoi(op[3])
			items, ok1 := parseItems(op[4])
			blks, ok2 := rq.ParseInts(op[5])
			if e1 != nil || e2 != nil || !ok1 || !ok2 || p < 0 || p > 3 || !s.message(p, op[2] == "r", st, items, blks) {
				out.Line("bad-op")
				continue
			}
			quiesce.Wait(nil)
			out.Line("%s", s.drain())
		case "serve":
			sizes, ok := rq.ParseInts(opArg(op, 1))
			s.mu.Lock()
			have, skip := s.haveNew, s.lastSkip
			s.mu.Unlock()
			if len(op) != 2 || !ok || !s.started || !have {
				out.Line("bad-op")
				continue
			}
			is := honest(w, rem, skip)
			var lines []string
			for _, m := range batchMsgs(sizes, is, honestStatus(is)) {
				s.message(0, true, m.status, m.items, m.blks)
				quiesce.Wait(nil)
				lines = append(lines, s.drain())
			}
			out.Cov("serve.msgs")
			out.Line("%s", strings.Join(lines, " | "))
		case "pause":
			if len(op) != 1 || !s.started {
				out.Line("bad-op")
				continue
			}
			err := s.rm.PauseRequest(s.ctx, s.reqID)
			quiesce.Wait(nil)
			if err != nil {
				out.Cov("pause.err")
				out.Line("err")
			} else {
				out.Line("ok")
			}
		case "unpause":
			if len(op) != 1 || !s.started {
				out.Line("bad-op")
				continue
			}
			err := s.rm.UnpauseRequest(s.ctx, s.reqID)
			quiesce.Wait(nil)
			if err != nil {
				out.Cov("unpause.err")
				out.Line("err")
			} else {
				out.Cov("unpause.ok")
				out.Line("%s", s.drain())
			}
		default:
			out.Line("bad-op")
		}
	}
}

func opArg(op []string, i int) string {
	if i < len(op) {
		return op[i]
	}
	return ""
}

// ---------------------------------------------------------------- generator

func Gen(seed int64, n int, tier string, wr *bufio.Writer) {
	runtime.GOMAXPROCS(1)
	r := rand.New(rand.NewSource(seed))
	for i := 0; i < n; i++ {
		genCase(r, wr, fmt.Sprintf("q%d", i))
	}
}

func genCase(r *rand.Rand, wr *bufio.Writer, id string) {
	var w *rq.World
	var seed int64
	mb := 2 + r.Intn(7)
	for {
		seed = r.Int63n(1 << 40)
		var err error
		w, err = rq.NewWorld(seed, mb)
		if err == nil && len(w.LT.Loads) >= 2 && len(w.LT.Loads) <= 24 {
			break
		}
	}
	fmt.Fprintf(wr, "case %s dag=%d:%d\n", id, seed, mb)
	fmt.Fprintln(wr, w.LTLine)
	nb := len(w.D.Cids)
	var loc, remL []int
	rem := map[int]bool{}
	switch r.Intn(5) {
	case 0:
		for k := 0; k < nb; k++ {
			remL = append(remL, k)
		}
	case 1:
		drop := r.Intn(nb)
		for k := 0; k < nb; k++ {
			if k != drop {
				remL = append(remL, k)
			}
		}
	case 2:
		for k := 0; k < nb; k++ {
			if r.Intn(2) == 0 {
				loc = append(loc, k)
			} else {
				remL = append(remL, k)
			}
		}
	case 3:
		for k := 0; k < nb; k++ {
			if r.Intn(3) == 0 {
				loc = append(loc, k)
			}
			if r.Intn(8) != 0 {
				remL = append(remL, k)
			}
		}
	default:
		k := r.Intn(len(w.LT.Loads))
		seen := map[int]bool{}
		for j := 0; j < k; j++ {
			if b := w.LT.Loads[j].Block; !seen[b] {
				seen[b] = true
				loc = append(loc, b)
			}
		}
		for j := 0; j < nb; j++ {
			if r.Intn(10) != 0 {
				remL = append(remL, j)
			}
		}
	}
	sort.Ints(loc)
	for _, x := range remL {
		rem[x] = true
	}
	fmt.Fprintln(wr, "remote", rq.FmtInts(remL))
	if len(loc) > 0 {
		ss := make([]string, len(loc))
		for i, x := range loc {
			ss[i] = strconv.Itoa(x)
		}
		fmt.Fprintln(wr, "put", strings.Join(ss, " "))
	}
	nl := len(w.LT.Loads)
	if r.Intn(3) != 0 {
		hs := []int{1 + r.Intn(nl)}
		if r.Intn(3) == 0 {
			hs = append(hs, 1+r.Intn(nl))
		}
		sort.Ints(hs)
		fmt.Fprintln(wr, "hookpause", rq.FmtInts(hs))
	}
	user := 0
	if r.Intn(8) == 0 {
		user = r.Intn(nl + 1)
	}
	fmt.Fprintln(wr, "req", user)
	sizes := func() string {
		k := r.Intn(4)
		var l []int
		for i := 0; i < k; i++ {
			l = append(l, 1+r.Intn(4))
		}
		return rq.FmtInts(l)
	}
	// a script of serve / pause / unpause / stale messages; the harness answers `serve` from what the
	// real requestor asked for, so the script need not know the skip values
	steps := 2 + r.Intn(6)
	for i := 0; i < steps; i++ {
		switch r.Intn(8) {
		case 0, 1, 2:
			fmt.Fprintln(wr, "serve", sizes())
		case 3:
			fmt.Fprintln(wr, "pause")
		case 4, 5:
			fmt.Fprintln(wr, "unpause")
		case 6:
			// a stale / arbitrary message: a slice of the honest stream for skip 0
			is := honest(w, rem, 0)
			if len(is) > 0 {
				a := r.Intn(len(is))
				b := a + 1 + r.Intn(len(is)-a)
				m := mkMsg(is[a:b], []int{14, 14, 20, 21}[r.Intn(4)])
				fmt.Fprintf(wr, "msg 0 r %d %s %s\n", m.status, fmtItems(m.items), rq.FmtInts(m.blks))
			}
		default:
			fmt.Fprintln(wr, "pause")
			fmt.Fprintln(wr, "serve", sizes())
			fmt.Fprintln(wr, "unpause")
		}
	}
	fmt.Fprintln(wr, "unpause")
	fmt.Fprintln(wr, "serve", sizes())
	fmt.Fprintln(wr, "unpause")
	fmt.Fprintln(wr, "serve -")
}
