import GSProofs.Lemmas.PublisherSpec
namespace GS.Publisher

namespace SetMap

def keys (m : SetMap) : List Nat := m.map (·.1)

/-- keys distinct, inner sets duplicate-free -/
def WF (m : SetMap) : Prop := m.keys.Nodup ∧ ∀ kv ∈ m, kv.2.Nodup

@[simp] theorem keys_nil : keys ([] : SetMap) = [] := rfl
@[simp] theorem keys_cons (k vs) (m : SetMap) : keys ((k, vs) :: m) = k :: keys m := rfl

theorem wf_nil : WF [] := by simp [WF]

theorem wf_cons {k vs} {m : SetMap} : WF ((k, vs) :: m) ↔ k ∉ m.keys ∧ vs.Nodup ∧ WF m := by
  simp only [WF, keys, List.map_cons, List.nodup_cons, List.mem_cons, forall_eq_or_imp]
  constructor
  · rintro ⟨⟨h1, h2⟩, h3, h4⟩; exact ⟨h1, h3, h2, h4⟩
  · rintro ⟨h1, h3, h2, h4⟩; exact ⟨⟨h1, h2⟩, h3, h4⟩

theorem get_of_not_key {m : SetMap} {k} (h : k ∉ m.keys) : m.get k = [] := by
  induction m with
  | nil => rfl
  | cons kv m ih =>
    obtain ⟨k', vs⟩ := kv
    simp at h
    have : ¬ k' = k := fun e => h.1 e.symm
    simp [get, this]
    exact ih h.2

theorem hasKey_iff {m : SetMap} {k} : m.hasKey k = true ↔ k ∈ m.keys := by
  induction m with
  | nil => simp [hasKey]
  | cons kv m ih =>
    obtain ⟨k', vs⟩ := kv
    by_cases e : k' = k
    · simp [hasKey, e]
    · have e' : ¬ k = k' := fun h => e h.symm
      simp [hasKey, e, e', ih]

theorem nodup_get {m : SetMap} (h : WF m) (k) : (m.get k).Nodup := by
  induction m with
  | nil => simp [get]
  | cons kv m ih =>
    obtain ⟨k', vs⟩ := kv
    rw [wf_cons] at h
    by_cases e : k' = k
    · simp [get, e, h.2.1]
    · simp [get, e]; exact ih h.2.2

theorem mem_get_insert (m : SetMap) (k v k' x : Nat) :
    x ∈ (m.insert k v).get k' ↔ (k' = k ∧ x = v) ∨ x ∈ m.get k' := by
  induction m with
  | nil =>
    by_cases e : k = k'
    · subst e; simp [insert, get]
    · have : ¬ k' = k := fun h => e h.symm
      simp [insert, get, e, this]
  | cons kv m ih =>
    obtain ⟨k0, vs⟩ := kv
    by_cases e : k0 = k
    · subst e
      by_cases e2 : k0 = k'
      · subst e2
        by_cases hv : v ∈ vs
        · simp [insert, get, hv]
          intro hx; subst hx; exact hv
        · simp [insert, get, hv]
          constructor
          · rintro (h | h); exact Or.inr h; exact Or.inl h
          · rintro (h | h); exact Or.inr h; exact Or.inl h
      · have : ¬ k' = k0 := fun h => e2 h.symm
        simp [insert, get, e2, this]
    · by_cases e2 : k0 = k'
      · subst e2
        simp [insert, get, e]
      · simp [insert, get, e, e2, ih]

theorem keys_insert (m : SetMap) (k v x : Nat) : x ∈ (m.insert k v).keys ↔ x = k ∨ x ∈ m.keys := by
  induction m with
  | nil => simp [insert]
  | cons kv m ih =>
    obtain ⟨k0, vs⟩ := kv
    by_cases e : k0 = k
    · subst e; simp [insert]
    · simp [insert, e, ih]
      constructor
      · rintro (h | h | h); exact Or.inr (Or.inl h); exact Or.inl h; exact Or.inr (Or.inr h)
      · rintro (h | h | h); exact Or.inr (Or.inl h); exact Or.inl h; exact Or.inr (Or.inr h)

theorem wf_insert {m : SetMap} (h : WF m) (k v : Nat) : WF (m.insert k v) := by
  induction m with
  | nil => simp [insert, WF]
  | cons kv m ih =>
    obtain ⟨k0, vs⟩ := kv
    rw [wf_cons] at h
    by_cases e : k0 = k
    · subst e
      simp only [insert, if_true]
      rw [wf_cons]
      refine ⟨h.1, ?_, h.2.2⟩
      by_cases hv : v ∈ vs
      · simp [hv, h.2.1]
      · simp [hv]
        exact List.nodup_append.mpr ⟨h.2.1, by simp, by
          intro a ha b hb; simp at hb; subst hb; intro e; subst e; exact hv ha⟩
    · simp only [insert, e, if_false]
      rw [wf_cons]
      refine ⟨?_, h.2.1, ih h.2.2⟩
      rw [keys_insert]
      rintro (h' | h')
      · exact e h'
      · exact h.1 h'

theorem mem_get_erase {m : SetMap} (h : WF m) (k v k' x : Nat) :
    x ∈ (m.erase k v).get k' ↔ x ∈ m.get k' ∧ ¬ (k' = k ∧ x = v) := by
  induction m with
  | nil => simp [erase, get]
  | cons kv m ih =>
    obtain ⟨k0, vs⟩ := kv
    rw [wf_cons] at h
    by_cases e : k0 = k
    · subst e
      simp only [erase, if_true]
      by_cases e2 : k0 = k'
      · subst e2
        have hmem : x ∈ vs.erase v ↔ x ∈ vs ∧ ¬ x = v := by
          rw [h.2.1.mem_erase_iff]; exact And.comm
        by_cases hem : (vs.erase v).isEmpty = true
        · have hnil : vs.erase v = [] := by simpa using hem
          simp only [hem, if_true, get, true_and]
          rw [get_of_not_key h.1, ← hmem, hnil]
        · simp [hem, get, hmem]
      · have e3 : ¬ k' = k0 := fun h => e2 h.symm
        by_cases hem : (vs.erase v).isEmpty = true
        · simp [hem, get, e2, e3]
        · simp [hem, get, e2, e3]
    · simp only [erase, e, if_false]
      by_cases e2 : k0 = k'
      · subst e2
        have e3 : ¬ k0 = k := e
        simp [get, e3]
      · simp [get, e2, ih h.2.2]

theorem keys_erase_sub (m : SetMap) (k v x : Nat) : x ∈ (m.erase k v).keys → x ∈ m.keys := by
  induction m with
  | nil => simp [erase]
  | cons kv m ih =>
    obtain ⟨k0, vs⟩ := kv
    by_cases e : k0 = k
    · subst e
      by_cases hem : (vs.erase v).isEmpty = true
      · simp only [erase, hem, if_true]; intro h; simp; exact Or.inr h
      · simp [erase, hem]
    · simp only [erase, e, if_false]
      simp
      rintro (h | h)
      · exact Or.inl h
      · exact Or.inr (ih h)

theorem wf_erase {m : SetMap} (h : WF m) (k v : Nat) : WF (m.erase k v) := by
  induction m with
  | nil => simp [erase, wf_nil]
  | cons kv m ih =>
    obtain ⟨k0, vs⟩ := kv
    rw [wf_cons] at h
    by_cases e : k0 = k
    · subst e
      by_cases hem : (vs.erase v).isEmpty = true
      · simp only [erase, hem, if_true]; exact h.2.2
      · simp only [erase, hem, if_true]
        simp only [Bool.false_eq_true, if_false]
        rw [wf_cons]
        exact ⟨h.1, h.2.1.erase v, h.2.2⟩
    · simp only [erase, e, if_false]
      rw [wf_cons]
      exact ⟨fun hx => h.1 (keys_erase_sub m k v k0 hx), h.2.1, ih h.2.2⟩

theorem mem_pairs {m : SetMap} (h : WF m) (k v : Nat) : (k, v) ∈ m.pairs ↔ v ∈ m.get k := by
  induction m with
  | nil => simp [pairs, get]
  | cons kv m ih =>
    obtain ⟨k0, vs⟩ := kv
    rw [wf_cons] at h
    have ih := ih h.2.2
    simp only [pairs] at ih
    simp only [pairs, List.flatMap_cons, List.mem_append, List.mem_map, Prod.mk.injEq, ih]
    by_cases e : k0 = k
    · subst e
      simp [get, get_of_not_key h.1]
    · simp [get, e]

end SetMap
end GS.Publisher
