import GSProofs.Lemmas.RespLifePark
/-!
Mailbox frame lemmas: manager handlers never touch the mailbox or the `handled` counter; every other
process only appends messages (none of which makes the manager run a transaction with extension data).
Used for the liveness half of C25.partial.
-/
namespace GS.RespLife

/-- mailbox and handled counter -/
def mbk (s : State) : List Msg × Nat := (s.mailbox, s.handled)

@[simp] theorem mbk_modAux (s : State) (id : Id) (f : Aux → Aux) : mbk (modAux s id f) = mbk s := rfl
@[simp] theorem mbk_setState (s : State) (id : Id) (st : RState) : mbk (setState s id st) = mbk s := rfl
@[simp] theorem mbk_insertResp (s : State) (r : Resp) : mbk (insertResp s r) = mbk s := rfl
@[simp] theorem mbk_delResp (s : State) (id : Id) : mbk (delResp s id) = mbk s := rfl
@[simp] theorem mbk_emit (s : State) (e : Event) : mbk (emit s e) = mbk s := rfl
@[simp] theorem mbk_setQ (s : State) (q : PeerQ) : mbk (setQ s q) = mbk s := rfl
@[simp] theorem mbk_setMQ (s : State) (q : PeerMQ) : mbk (setMQ s q) = mbk s := rfl
@[simp] theorem mbk_setWorker (s : State) (w : Nat) (f : Worker → Worker) : mbk (setWorker s w f) = mbk s := rfl
@[simp] theorem mbk_setPhase (s : State) (w : Nat) (ph : WPhase) : mbk (setPhase s w ph) = mbk s := rfl
@[simp] theorem mbk_thawAll (s : State) : mbk (thawAll s) = mbk s := rfl
@[simp] theorem mbk_addAlloc (s : State) (p : Peer) (n : Nat) : mbk (addAlloc s p n) = mbk s := rfl
@[simp] theorem mbk_closeStreams (s : State) (ids : List Id) : mbk (closeStreams s ids) = mbk s := rfl
@[simp] theorem mbk_openStream (s : State) (id : Id) : mbk (openStream s id) = mbk s := rfl
@[simp] theorem mbk_protect (s : State) (p : Peer) (id : Id) : mbk (protect s p id) = mbk s := rfl
@[simp] theorem mbk_parkMgr (s : State) (c : MgrCont) (p : Peer) (id : Id) (ops : List TxOp) :
    mbk (parkMgr s c p id ops) = mbk s := rfl

@[simp] theorem mbk_pushTask (s : State) (p : Peer) (id : Id) (pri : Nat) : mbk (pushTask s p id pri) = mbk s := by
  unfold pushTask; simp only; split
  · rfl
  · split <;> rfl

@[simp] theorem mbk_removeTask (s : State) (p : Peer) (id : Id) : mbk (removeTask s p id) = mbk s := by
  unfold removeTask; simp only; split <;> rfl

@[simp] theorem mbk_taskDone (s : State) (p : Peer) (id : Id) : mbk (taskDone s p id) = mbk s := by
  unfold taskDone; split <;> rfl

@[simp] theorem mbk_grantTo (s : State) (party : Party) : mbk (grantTo s party) = mbk s := by
  cases party <;> rfl

@[simp] theorem mbk_grantLoop (fuel : Nat) (s : State) (p : Peer) : mbk (grantLoop fuel s p) = mbk s := by
  induction fuel generalizing s with
  | zero => rfl
  | succ n ih =>
    unfold grantLoop
    split
    · rfl
    · split
      · rw [ih]; simp; rfl
      · rfl

@[simp] theorem mbk_underflow (s : State) (b : Bool) : mbk { s with underflow := b } = mbk s := rfl

@[simp] theorem mbk_release (s : State) (p : Peer) (n : Nat) : mbk (release s p n) = mbk s := by
  unfold release; simp

@[simp] theorem mbk_tryAlloc (s : State) (party : Party) (p : Peer) (n : Nat) :
    mbk (tryAlloc s party p n).1 = mbk s := by
  unfold tryAlloc; split
  · simp
  · rfl

@[simp] theorem mbk_buildNow (s : State) (party : Party) (p : Peer) (id : Id) (ops : List TxOp) :
    mbk (buildNow s party p id ops) = mbk s := by
  unfold buildNow; simp only; split
  · split
    · simp
    · rfl
  · rfl

@[simp] theorem mbk_execTx (s : State) (party : Party) (p : Peer) (id : Id) (ops : List TxOp) :
    mbk (execTx s party p id ops).1 = mbk s := by
  unfold execTx; split
  · rfl
  · simp only; split
    · simp
    · cases h : tryAlloc s party p (txSize s.extLen ops) with
      | mk s1 ok =>
        have h1 : mbk s1 = mbk s := by
          have := mbk_tryAlloc s party p (txSize s.extLen ops)
          rw [h] at this; exact this
        simp only
        split
        · simp [h1]
        · exact h1

theorem mbk_execTx_eq {s s1 : State} {party : Party} {p : Peer} {id : Id} {ops : List TxOp} {ok : Bool}
    (h : execTx s party p id ops = (s1, ok)) : mbk s1 = mbk s := by
  have := mbk_execTx s party p id ops
  rw [h] at this; exact this

@[simp] theorem mbk_terminate (s : State) (id : Id) : mbk (terminate s id) = mbk s := by
  unfold terminate; split <;> rfl

@[simp] theorem mbk_newReqFinish (s : State) (p : Peer) (id : Id) (cfg : ReqCfg) :
    mbk (newReqFinish s p id cfg) = mbk s := by
  unfold newReqFinish; split <;> simp

@[simp] theorem mbk_newRequest (s : State) (p : Peer) (id : Id) (cfg : ReqCfg) :
    mbk (newRequest s p id cfg) = mbk s := by
  unfold newRequest
  simp only
  generalize h : execTx _ Party.mgr p id (prepareOps cfg.hook) = pr
  obtain ⟨s3, ok⟩ := pr
  have h1 := mbk_execTx_eq h
  simp only
  split <;> simp [h1]

@[simp] theorem mbk_unpauseFinish (s : State) (id : Id) : mbk (unpauseFinish s id) = mbk s := by
  unfold unpauseFinish; split
  · rfl
  · simp

@[simp] theorem mbk_unpauseRequest (s : State) (id : Id) (ext : Bool) : mbk (unpauseRequest s id ext).1 = mbk s := by
  unfold unpauseRequest
  split
  · rfl
  · split
    · rfl
    · simp only
      split
      · generalize h : execTx (setState _ id RState.queued) Party.mgr _ id [TxOp.ext] = pr
        obtain ⟨s2, ok⟩ := pr
        have h1 : mbk s2 = mbk s := by
          have := mbk_execTx_eq h
          simpa using this
        simp only
        split <;> simp [h1]
      · simp

@[simp] theorem mbk_procUpdateFinish (s : State) (id : Id) (plan : UP) : mbk (procUpdateFinish s id plan) = mbk s := by
  unfold procUpdateFinish
  split
  · rfl
  · split
    · simp
    · split
      · simp
      · rfl

@[simp] theorem mbk_processUpdate (s : State) (id : Id) (plan : UP) : mbk (processUpdate s id plan) = mbk s := by
  unfold processUpdate
  split
  · rfl
  · split
    · rfl
    · split
      · simp
      · simp only
        generalize h : execTx s Party.mgr _ id _ = pr
        obtain ⟨s1, ok⟩ := pr
        have h1 : mbk s1 = mbk s := mbk_execTx_eq h
        simp only
        split <;> simp [h1]

@[simp] theorem mbk_abortRequest (s : State) (id : Id) (err : Sig) : mbk (abortRequest s id err).1 = mbk s := by
  unfold abortRequest
  split
  · rfl
  · simp only
    split
    · simp
    · split
      · cases err <;> simp
      · simp

@[simp] theorem mbk_pauseRequest (s : State) (id : Id) : mbk (pauseRequest s id).1 = mbk s := by
  unfold pauseRequest
  split
  · rfl
  · split
    · rfl
    · split
      · rfl
      · simp

@[simp] theorem mbk_updateRequest (s : State) (id : Id) (ext : Bool) : mbk (updateRequest s id ext).1 = mbk s := by
  unfold updateRequest
  split
  · rfl
  · simp only
    generalize h : execTx s Party.mgr _ id _ = pr
    obtain ⟨s1, ok⟩ := pr
    have h1 : mbk s1 = mbk s := mbk_execTx_eq h
    simp only
    split <;> simp [h1]

@[simp] theorem mbk_startTask (s : State) (w : Nat) : mbk (startTask s w) = mbk s := by
  unfold startTask
  split
  · rfl
  · split
    · simp
    · split
      · simp
      · simp only
        split <;> simp

@[simp] theorem mbk_finishTask (s : State) (w : Nat) (err : Option WErr) : mbk (finishTask s w err) = mbk s := by
  unfold finishTask
  split
  · rfl
  · simp only
    split
    · simp
    · split
      · split <;> simp
      · split
        · simp
        · split
          · simp
          · split
            · simp
            · split <;> simp

@[simp] theorem mbk_getUpdates (s : State) (w : Nat) : mbk (getUpdates s w) = mbk s := by
  unfold getUpdates
  split
  · rfl
  · split
    · split <;> simp
    · rfl

@[simp] theorem mbk_clearPubWait (s : State) (p : Peer) : mbk (clearPubWait s p) = mbk s := by
  unfold clearPubWait; simp

/-- **manager handlers neither enqueue nor dequeue** -/
theorem mbk_handle (s : State) (m : Msg) : mbk (handle s m) = mbk s := by
  cases m with
  | processRequests p r =>
    show mbk (if foreign s p r.id = true then s else processRequest s p r) = mbk s
    split
    · rfl
    · cases r <;> simp [processRequest]
  | api c =>
    cases c with
    | pause id => show mbk (emit (pauseRequest s id).1 _) = _; simp
    | unpause id ext =>
      show mbk (if (unpauseRequest s id ext).2.2 = true then (unpauseRequest s id ext).1
        else emit (unpauseRequest s id ext).1 _) = _
      split <;> simp
    | cancel id => show mbk (emit (abortRequest s id .cancelCmd).1 _) = _; simp
    | update id ext =>
      show mbk (if (updateRequest s id ext).2.2 = true then (updateRequest s id ext).1
        else emit (updateRequest s id ext).1 _) = _
      split <;> simp
  | startTask w => exact mbk_startTask s w
  | getUpdates w => exact mbk_getUpdates s w
  | finishTask w err => exact mbk_finishTask s w err
  | closeNetErr id inc pub =>
    rw [handle_closeNetErr]
    split
    · split
      · show mbk (clearPubWait (abortRequest s id .network).1 pub) = _; simp
      · show mbk (setMQ _ _) = _; simp [clearPubWait]
    · show mbk (setMQ _ _) = _; simp [clearPubWait]
  | terminate id inc pub =>
    rw [handle_terminate]
    split
    · show mbk (clearPubWait (terminate s id) pub) = _; simp
    · show mbk (clearPubWait s pub) = _; simp

-- ------------------------------------------------------------------ processes that only append
/-- `handled` unchanged, mailbox extended by messages without manager-side extension data -/
def MbGrow (s s' : State) : Prop :=
  s'.handled = s.handled ∧ ∃ ex, s'.mailbox = s.mailbox ++ ex ∧ ∀ m ∈ ex, msgNoExt m = true

theorem mbg_of_eq {s s' : State} (h : mbk s' = mbk s) : MbGrow s s' := by
  have h1 : s'.mailbox = s.mailbox := congrArg Prod.fst h
  have h2 : s'.handled = s.handled := congrArg Prod.snd h
  exact ⟨h2, [], by simp [h1], by simp⟩

theorem mbg_refl (s : State) : MbGrow s s := mbg_of_eq rfl

theorem mbg_trans {a b c : State} (h1 : MbGrow a b) (h2 : MbGrow b c) : MbGrow a c := by
  obtain ⟨e1, x1, m1, n1⟩ := h1
  obtain ⟨e2, x2, m2, n2⟩ := h2
  refine ⟨e2.trans e1, x1 ++ x2, by rw [m2, m1, List.append_assoc], ?_⟩
  intro m hm
  rcases List.mem_append.1 hm with h | h
  · exact n1 m h
  · exact n2 m h

theorem mbg_sendMsg (s : State) (m : Msg) (h : msgNoExt m = true) : MbGrow s (sendMsg s m) :=
  ⟨rfl, [m], rfl, by simpa using h⟩

theorem mbg_sendFinishNow (s : State) (w : Nat) (err : Option WErr) : MbGrow s (sendFinishNow s w err) := by
  unfold sendFinishNow
  exact mbg_trans (mbg_sendMsg s (Msg.finishTask w err) rfl) (mbg_of_eq rfl)

theorem mbg_sendFinish (s : State) (w : Nat) (err : Option WErr) : MbGrow s (sendFinish s w err) := by
  unfold sendFinish
  split
  · exact mbg_of_eq rfl
  · exact mbg_sendFinishNow s w err

theorem mbg_executeQuery (s : State) (w : Nat) (wk : Worker) (err : Option WErr) :
    MbGrow s (executeQuery s w wk err) := by
  unfold executeQuery
  split
  · exact mbg_sendFinish _ _ _
  · exact mbg_sendFinish _ _ _
  · exact mbg_sendFinish _ _ _
  · simp only
    generalize h : execTx s (.worker w) wk.peer wk.id _ = pr
    obtain ⟨s1, ok⟩ := pr
    have h1 := mbg_of_eq (mbk_execTx_eq h)
    simp only
    split
    · exact mbg_trans h1 (mbg_sendFinish _ _ _)
    · exact mbg_trans h1 (mbg_of_eq (by simp))

theorem mbg_loopTop (s : State) (w : Nat) (wk : Worker) : MbGrow s (loopTop s w wk) := by
  unfold loopTop
  split
  · exact mbg_sendFinish _ _ _
  · split
    · exact mbg_executeQuery _ _ _ _
    · exact mbg_of_eq (by simp)

theorem mbg_afterBlock (s : State) (w : Nat) (wk : Worker) (err : Option WErr) : MbGrow s (afterBlock s w wk err) := by
  unfold afterBlock
  split
  · exact mbg_executeQuery _ _ _ _
  · exact mbg_loopTop _ _ _

theorem mbg_runTx (s : State) (w : Nat) (wk : Worker) (ops : List TxOp) (k : AfterTx) : MbGrow s (runTx s w wk ops k) := by
  unfold runTx
  generalize h : execTx s (.worker w) wk.peer wk.id ops = pr
  obtain ⟨s1, ok⟩ := pr
  have h1 := mbg_of_eq (mbk_execTx_eq h)
  simp only
  split
  · split
    · exact mbg_trans h1 (mbg_afterBlock _ _ _ _)
    · exact mbg_trans h1 (mbg_sendFinish _ _ _)
  · exact mbg_trans h1 (mbg_of_eq (by simp))

theorem mbg_blockPart (s : State) (w : Nat) (wk : Worker) (ops : List TxOp) (cfu : Option WErr) (present : Bool) :
    MbGrow s (blockPart s w wk ops cfu present) := by
  unfold blockPart
  split
  · exact mbg_sendFinish _ _ _
  · simp only
    split
    · exact mbg_trans (mbg_of_eq (by simp)) (mbg_runTx _ _ _ _ _)
    · split
      · exact mbg_trans (mbg_of_eq (by simp)) (mbg_runTx _ _ _ _ _)
      · exact mbg_trans (mbg_of_eq (by simp)) (mbg_runTx _ _ _ _ _)
      · exact mbg_trans (mbg_of_eq (by simp)) (mbg_runTx _ _ _ _ _)
      · exact mbg_trans (mbg_of_eq (by simp)) (mbg_runTx _ _ _ _ _)
      · exact mbg_of_eq (by simp)

theorem mbg_checkForUpdates (s : State) (w : Nat) (wk : Worker) (ops : List TxOp) (present : Bool) (pick : Nat) :
    MbGrow s (checkForUpdates s w wk ops present pick) := by
  unfold checkForUpdates
  split
  · exact mbg_sendFinish _ _ _
  · simp only
    split
    · exact mbg_blockPart _ _ _ _ _ _
    · exact mbg_trans (mbg_of_eq (by simp)) (mbg_blockPart _ _ _ _ _ _)
    · exact mbg_trans (mbg_of_eq (by simp)) (mbg_runTx _ _ _ _ _)
    · exact mbg_trans (mbg_of_eq (mbk_modAux s _ _)) (mbg_trans (mbg_sendMsg _ (Msg.getUpdates w) rfl) (mbg_of_eq rfl))

theorem mbg_applyUpdates (s : State) (w : Nat) (wk : Worker) (ups : List UP) (ops : List TxOp) (present : Bool)
    (pick : Nat) : MbGrow s (applyUpdates s w wk ups ops present pick) := by
  induction ups generalizing ops with
  | nil => simp only [applyUpdates]; exact mbg_checkForUpdates _ _ _ _ _ _
  | cons u us ih =>
    unfold applyUpdates
    simp only
    split
    · exact mbg_runTx _ _ _ _ _
    · exact ih _

theorem mbg_wstep {s s' : State} {w pick : Nat} (h : wstep s w pick = some s') : MbGrow s s' := by
  unfold wstep at h
  split at h
  · cases h
  · split at h
    · cases h; exact mbg_loopTop _ _ _
    · split at h
      · cases h; exact mbg_sendFinish _ _ _
      · cases h; exact mbg_trans (mbg_of_eq (by simp)) (mbg_checkForUpdates _ _ _ _ _ _)
    · cases h; exact mbg_applyUpdates _ _ _ _ _ _ _
    · cases h; exact mbg_runTx _ _ _ _ _
    · cases h; exact mbg_sendFinishNow _ _ _
    · simp only at h
      split at h
      · cases h; exact mbg_trans (mbg_of_eq (by simp)) (mbg_afterBlock _ _ _ _)
      · cases h; exact mbg_trans (mbg_of_eq (by simp)) (mbg_sendFinish _ _ _)
    · cases h

theorem mbg_netResolve {s s' : State} {p : Peer} {ok : Bool} (h : netResolve s p ok = some s') : MbGrow s s' := by
  unfold netResolve at h
  simp only at h
  split at h
  · cases h
  · split at h
    · cases h; exact mbg_of_eq (by simp)
    · cases h
      apply mbg_of_eq
      rw [mbk_release]
      split
      · rw [mbk_release, mbk_setMQ]; rfl
      · rw [mbk_setMQ]; rfl

theorem mbg_extract {s s' : State} {p : Peer} (h : extract s p = some s') : MbGrow s s' := by
  unfold extract at h
  simp only at h
  split at h
  · split at h
    · cases h
    · cases h; exact mbg_of_eq (by simp)
  · cases h

theorem mbg_pubStep {s s' : State} {p : Peer} (h : pubStep s p = some s') : MbGrow s s' := by
  unfold pubStep at h
  simp only at h
  split at h
  · cases h
  · split at h
    · cases h
    · split at h
      · cases h; exact mbg_of_eq rfl
      · cases h; exact mbg_of_eq (by simp)
      · cases h; exact mbg_of_eq (by simp)
      · cases h; exact mbg_trans (mbg_of_eq (mbk_setMQ s _)) (mbg_sendMsg _ (Msg.closeNetErr _ _ p) rfl)
      · cases h; exact mbg_trans (mbg_of_eq (mbk_setMQ s _)) (mbg_sendMsg _ (Msg.terminate _ _ p) rfl)

theorem mbg_popTask {s s' : State} {p : Peer} {id : Id} (h : popTask s p id = some s') : MbGrow s s' := by
  unfold popTask at h
  simp only at h
  split at h
  · cases h; exact mbg_trans (b := { (setQ s _) with workers := _ }) (mbg_of_eq rfl) (mbg_sendMsg _ (Msg.startTask _) rfl)
  · cases h

theorem mbg_reap {s s' : State} {p : Peer} (h : reap s p = some s') : MbGrow s s' := by
  unfold reap at h
  split at h
  · split at h
    · cases h; exact mbg_of_eq rfl
    · cases h
  · cases h

end GS.RespLife
