import GSProofs.Lemmas.LinkTrackRefine
/-! Refinement step for `FinishTracking`. -/
set_option linter.unusedSimpArgs false
namespace GS.LinkTrack
open PeerTracker

theorem finishTracking_none {p : PeerTracker} {r : Req} (h0 : aget p.dedupKeys r = none) :
    p.finishTracking r =
      ({ p with main := (p.main.finishRequest r).1
                sentCount := aerase p.sentCount r, skipFirst := aerase p.skipFirst r },
       (p.main.finishRequest r).2) := by
  unfold finishTracking setTracker trackerOf
  simp [h0, scopeTracker, setScopeTracker]

theorem finishTracking_some {p : PeerTracker} {r : Req} {k : Key} (h0 : aget p.dedupKeys r = some k) :
    p.finishTracking r =
      ({ main := p.main
         alts := if (aerase p.dedupKeys r).any (fun e => e.2 == k)
                 then aset p.alts k (((aget p.alts k).getD {}).finishRequest r).1
                 else aerase (aset p.alts k (((aget p.alts k).getD {}).finishRequest r).1) k
         dedupKeys := aerase p.dedupKeys r
         sentCount := aerase p.sentCount r, skipFirst := aerase p.skipFirst r },
       (((aget p.alts k).getD {}).finishRequest r).2) := by
  unfold finishTracking setTracker trackerOf
  simp only [h0, scopeTracker, setScopeTracker]

theorem aget_aerase_upd {α : Type} {m : List (Nat × α)} {f : Req → Option α} (h : ∀ r, aget m r = f r) (r r' : Req) :
    aget (aerase m r) r' = upd f r none r' := by
  rw [aget_aerase]
  by_cases hr : r = r'
  · subst hr; simp
  · have : ¬ r' = r := fun h2 => hr h2.symm
    simp [hr, upd, this, h r']

theorem R.any_other {p : PeerTracker} {σ : Spec} (h : R p σ) (r : Req) (k : Key) :
    (aerase p.dedupKeys r).any (fun e => e.2 == k) = true ↔ ∃ r', r' ≠ r ∧ σ.scope r' = some k := by
  simp only [List.any_eq_true]
  constructor
  · rintro ⟨e, he, hk⟩
    have hk' : e.2 = k := by simpa using hk
    have := aget_of_mem (nodupKeys_aerase h.nd r) (show (e.1, e.2) ∈ aerase p.dedupKeys r from he)
    rw [aget_aerase] at this
    by_cases hr : r = e.1
    · simp [hr] at this
    · simp only [hr, if_false] at this
      exact ⟨e.1, fun h2 => hr h2.symm, by rw [← h.dk, this, hk']⟩
  · rintro ⟨r', hne, hs⟩
    have : aget (aerase p.dedupKeys r) r' = some k := by
      rw [aget_aerase]
      have : ¬ r = r' := fun h2 => hne h2.symm
      simp [this, h.dk r', hs]
    exact ⟨(r', k), mem_of_aget this, by simp⟩

theorem R_finish {p : PeerTracker} {σ : Spec} (h : R p σ) (r : Req) :
    R (p.finishTracking r).1 (σ.endReq r) ∧ (p.finishTracking r).2 = !σ.sawMissing r := by
  -- facts shared by both cases
  have hwbs : ∀ s, proj (σ.endReq r).wb s = dropReq (proj σ.wb s) r := fun s => proj_filter_req σ.wb r s
  have hmss : ∀ s, proj (σ.endReq r).ms s = dropReq (proj σ.ms s) r := fun s => proj_filter_req σ.ms r s
  have hwb_other : ∀ s, s ≠ σ.scope r → dropReq (proj σ.wb s) r = proj σ.wb s := by
    intro s hs
    apply dropReq_eq_self
    intro x hx hxr
    have := h.jw _ (mem_proj.1 hx)
    simp only [hxr] at this
    exact hs this
  have hms_other : ∀ s, s ≠ σ.scope r → dropReq (proj σ.ms s) r = proj σ.ms s := by
    intro s hs
    apply dropReq_eq_self
    intro x hx hxr
    have := h.jm _ (mem_proj.1 hx)
    simp only [hxr] at this
    exact hs this
  have hflag : ∀ T : LinkTracker, Sim T (proj σ.wb (σ.scope r)) (proj σ.ms (σ.scope r)) →
      (T.finishRequest r).2 = !σ.sawMissing r := by
    intro T hT
    rw [(sim_finish hT r).2]
    unfold Spec.sawMissing
    rw [any_proj_req σ.ms (σ.scope r) r (fun e he her => by rw [h.jm e he, her])]
  have hjw : ∀ e ∈ (σ.endReq r).wb, e.1 = (σ.endReq r).scope e.2.1 := by
    intro e he
    simp only [Spec.endReq, List.mem_filter] at he ⊢
    have hne : e.2.1 ≠ r := by simpa using he.2
    rw [upd_other _ _ hne]; exact h.jw e he.1
  have hjm : ∀ e ∈ (σ.endReq r).ms, e.1 = (σ.endReq r).scope e.2.1 := by
    intro e he
    simp only [Spec.endReq, List.mem_filter] at he ⊢
    have hne : e.2.1 ≠ r := by simpa using he.2
    rw [upd_other _ _ hne]; exact h.jm e he.1
  cases hs : σ.scope r with
  | none =>
    have h0 : aget p.dedupKeys r = none := by rw [h.dk r, hs]
    rw [finishTracking_none h0]
    have hmain := h.tr none
    simp only [scopeTracker] at hmain
    refine ⟨⟨?_, h.nd, ?_, ?_, ?_, ?_, hjw, hjm⟩, ?_⟩
    · intro r'
      simp only [Spec.endReq, upd]
      by_cases hr : r' = r
      · subst hr; simp [h0]
      · simp [hr, h.dk r']
    · intro r'; exact aget_aerase_upd h.sc r r'
    · intro r'; exact aget_aerase_upd h.sk r r'
    · intro s
      rw [hwbs, hmss]
      cases s with
      | none =>
        simp only [scopeTracker]
        have := (sim_finish hmain r).1
        exact this
      | some k =>
        have hne : (some k : Option Key) ≠ σ.scope r := by rw [hs]; simp
        rw [hwb_other _ hne, hms_other _ hne]
        exact h.tr (some k)
    · intro k
      rw [h.al k]
      simp only [Spec.endReq]
      constructor
      · rintro ⟨r', hr'⟩
        refine ⟨r', ?_⟩
        rw [upd_other]; exact hr'
        intro h2; rw [h2, hs] at hr'; simp at hr'
      · rintro ⟨r', hr'⟩
        by_cases h2 : r' = r
        · subst h2; simp at hr'
        · rw [upd_other _ _ h2] at hr'; exact ⟨r', hr'⟩
    · simp only
      have := hflag p.main (by rw [hs]; exact hmain)
      exact this
  | some k =>
    have h0 : aget p.dedupKeys r = some k := by rw [h.dk r, hs]
    rw [finishTracking_some h0]
    have halt := h.tr (some k)
    simp only [scopeTracker] at halt
    have hT := sim_finish halt r
    have hpres : (aget p.alts k).isSome = true := (h.al k).2 ⟨r, hs⟩
    refine ⟨⟨?_, nodupKeys_aerase h.nd r, ?_, ?_, ?_, ?_, hjw, hjm⟩, ?_⟩
    · intro r'; exact aget_aerase_upd h.dk r r'
    · intro r'; exact aget_aerase_upd h.sc r r'
    · intro r'; exact aget_aerase_upd h.sk r r'
    · intro s
      rw [hwbs, hmss]
      cases s with
      | none =>
        have hne : (none : Option Key) ≠ σ.scope r := by rw [hs]; simp
        rw [hwb_other _ hne, hms_other _ hne]
        exact h.tr none
      | some k' =>
        simp only [scopeTracker]
        by_cases hkk : k = k'
        · subst hkk
          cases hany : (aerase p.dedupKeys r).any (fun e => e.2 == k)
          · -- the alt tracker is dropped: nothing of scope k may remain
            simp only [Bool.false_eq_true, if_false, aget_aerase, if_true, Option.getD_none]
            have hnone : ∀ r', r' ≠ r → σ.scope r' ≠ some k := by
              intro r' hne hsc
              have := (h.any_other r k).2 ⟨r', hne, hsc⟩
              rw [hany] at this; simp at this
            have e1 : dropReq (proj σ.wb (some k)) r = [] := by
              rw [← hwbs]
              apply proj_eq_nil
              intro e he hek
              simp only [Spec.endReq, List.mem_filter] at he
              have hne : e.2.1 ≠ r := by simpa using he.2
              exact hnone _ hne (by rw [← h.jw e he.1, hek])
            have e2 : dropReq (proj σ.ms (some k)) r = [] := by
              rw [← hmss]
              apply proj_eq_nil
              intro e he hek
              simp only [Spec.endReq, List.mem_filter] at he
              have hne : e.2.1 ≠ r := by simpa using he.2
              exact hnone _ hne (by rw [← h.jm e he.1, hek])
            rw [e1, e2]; exact sim_empty
          · simp only [if_true, aget_aset, Option.getD_some]
            exact hT.1
        · have hne : (some k' : Option Key) ≠ σ.scope r := by
            rw [hs]; intro h2; exact hkk (Option.some.inj h2).symm
          rw [hwb_other _ hne, hms_other _ hne]
          have hsame : (aget (if (aerase p.dedupKeys r).any (fun e => e.2 == k) = true
                then aset p.alts k (((aget p.alts k).getD {}).finishRequest r).1
                else aerase (aset p.alts k (((aget p.alts k).getD {}).finishRequest r).1) k) k') = aget p.alts k' := by
            split
            · rw [aget_aset]; simp [hkk]
            · rw [aget_aerase, aget_aset]; simp [hkk]
          rw [hsame]
          exact h.tr (some k')
    · intro k'
      simp only [Spec.endReq]
      have hrhs : (∃ r', upd σ.scope r none r' = some k') ↔ ∃ r', r' ≠ r ∧ σ.scope r' = some k' := by
        constructor
        · rintro ⟨r', hr'⟩
          by_cases h2 : r' = r
          · subst h2; simp at hr'
          · rw [upd_other _ _ h2] at hr'; exact ⟨r', h2, hr'⟩
        · rintro ⟨r', h2, hr'⟩
          exact ⟨r', by rw [upd_other _ _ h2]; exact hr'⟩
      rw [hrhs]
      by_cases hkk : k = k'
      · subst hkk
        cases hany : (aerase p.dedupKeys r).any (fun e => e.2 == k)
        · simp only [Bool.false_eq_true, if_false, aget_aerase, if_true, Option.isSome_none, false_iff]
          intro hex
          have := (h.any_other r k).2 hex
          rw [hany] at this; simp at this
        · simp only [if_true, aget_aset, Option.isSome_some, true_iff]
          exact (h.any_other r k).1 hany
      · have hsame : (aget (if (aerase p.dedupKeys r).any (fun e => e.2 == k) = true
              then aset p.alts k (((aget p.alts k).getD {}).finishRequest r).1
              else aerase (aset p.alts k (((aget p.alts k).getD {}).finishRequest r).1) k) k') = aget p.alts k' := by
          split
          · rw [aget_aset]; simp [hkk]
          · rw [aget_aerase, aget_aset]; simp [hkk]
        rw [hsame, h.al k']
        constructor
        · rintro ⟨r', hr'⟩
          refine ⟨r', ?_, hr'⟩
          intro h2; rw [h2, hs] at hr'; exact hkk (Option.some.inj hr')
        · rintro ⟨r', _, hr'⟩; exact ⟨r', hr'⟩
    · simp only
      have := hflag ((aget p.alts k).getD {}) (by rw [hs]; exact halt)
      exact this

end GS.LinkTrack
