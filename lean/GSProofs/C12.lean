import GS.Model.Wire
import GSProofs.Lemmas.WireBasic
/-!
# C12 — Hostile bytes never crash a node or yield unverified blocks

Property sentence: "Whatever bytes a remote peer sends on a GraphSync stream, the node neither
crashes nor stops serving other streams: a malformed message is reported as a receive error and its
stream is reset. A message that decodes is delivered with every block keyed by the CID computed from
that block's own bytes and with every request ID a valid 16-byte identifier."

What is proved here is about the model `GS.Wire` (tied to message/v2, ipldbind, network by the
correspondence streams `wire`, `wiremut`, `netstream` and the regenerated schema tables):

* `keys`            every message the decoder accepts, for ALL byte strings and ALL hash functions,
                    has each block keyed by `Prefix.Sum` of the prefix and data that were on the wire,
                    and each request / response ID 16 bytes long;
* `total`           the decoder is a total function: every byte string is mapped to a message or to
                    `none` (an error) -- this is a fact about the model's definition (Lean functions
                    terminate and cannot throw); it says that the *logic* of the decode path has no
                    input without a defined outcome. It does NOT show that the Go code, the codec
                    libraries or the Go runtime cannot panic or exhaust memory: that part of the
                    property is only evidenced by the no-panic/no-hang oracles of the harness;
* `stream_machine_*` the read loop of handleNewStream: messages are delivered in order up to the
                    first failure; a failure (decode error, decoder panic, receiver panic) produces
                    exactly one reset and one ReceiveError and nothing is delivered afterwards; a
                    clean EOF produces neither; the stream is closed exactly once at the end.
-/
namespace GS.C12
open GS.Cbor GS.Wire

theorem blkFromB_key {hash : Hash} {b : BBlk} {blk : Block} (h : blkFromB hash b = some blk) :
    blk.data = b.data ∧ ∃ p, parsePrefix b.pfx = some p ∧ sumCid hash p b.data = some blk.cid := by
  unfold blkFromB at h
  split at h
  · cases h
  · rename_i p hp
    split at h
    · cases h
    · rename_i c hc
      cases h
      exact ⟨rfl, p, hp, hc⟩

theorem reqFromB_id {r : BReq} {q : Request} (h : reqFromB r = some q) : q.id.length = 16 := by
  unfold reqFromB at h
  split at h
  · cases h
  · rename_i hlen
    have hl : r.id.length = 16 := by simpa using hlen
    split at h <;> (cases h; exact hl)

theorem rspFromB_id {r : BRsp} {q : Response} (h : rspFromB r = some q) : q.id.length = 16 := by
  unfold rspFromB at h
  split at h
  · cases h
  · rename_i hlen
    cases h
    simpa using hlen

/-- the three facts for `fromIPLD` -/
theorem fromIPLD_keys {hash : Hash} {b : BMsg} {m : Msg} (h : fromIPLD hash b = some m) :
    (∀ blk ∈ m.blocks, ∃ p, sumCid hash p blk.data = some blk.cid) ∧
    (∀ r ∈ m.requests, r.id.length = 16) ∧ (∀ r ∈ m.responses, r.id.length = 16) := by
  unfold fromIPLD at h
  split at h
  · rename_i rq rs bl hrq hrs hbl
    cases h
    refine ⟨?_, ?_, ?_⟩
    · intro blk hb
      obtain ⟨x, _, hx⟩ := mem_of_allSome hbl (mem_dedupLast _ hb)
      obtain ⟨hd, p, _, hs⟩ := blkFromB_key hx
      exact ⟨p, by rw [hd]; exact hs⟩
    · intro r hr
      obtain ⟨x, _, hx⟩ := mem_of_allSome hrq (mem_dedupLast _ hr)
      exact reqFromB_id hx
    · intro r hr
      obtain ⟨x, _, hx⟩ := mem_of_allSome hrs (mem_dedupLast _ hr)
      exact rspFromB_id hx
  · cases h

/-- **C12.keys** — "A message that decodes is delivered with every block keyed by the CID computed
from that block's own bytes and with every request ID a valid 16-byte identifier": for every byte
string `bs` and every hash function, if `FromNet` accepts, each delivered block's key is
`Prefix.Sum(data)` for the prefix `p` that accompanied the data, and all IDs have 16 bytes. -/
theorem keys (hash : Hash) (bs : Bytes) (m : Msg) (h : decodeMsg hash bs = some m) :
    (∀ blk ∈ m.blocks, ∃ p, sumCid hash p blk.data = some blk.cid) ∧
    (∀ r ∈ m.requests, r.id.length = 16) ∧ (∀ r ∈ m.responses, r.id.length = 16) := by
  unfold decodeMsg decodeOne at h
  split at h
  · rename_i m' rest hd
    cases h
    split at hd
    · cases hd
    · cases hd
    · rename_i p rest' _
      split at hd
      · rename_i m'' hp
        cases hd
        unfold decodePayload at hp
        split at hp
        · cases hp
        · split at hp
          · cases hp
          · exact fromIPLD_keys hp
      · cases hd
  · cases h

/-- non-vacuity of `keys`: some byte string decodes to a message with a block and a request -/
example : ((encodeMsg { requests := [{ id := [0, 1, 2, 3, 4, 5, 6, 7, 8, 9, 10, 11, 12, 13, 14, 15], type := .cancel }],
                        blocks := [{ cid := [1, 0x55, 0, 3, 0x61, 0x62, 0x63], data := [0x61, 0x62, 0x63] }] }).bind
    (fun bs => (decodeMsg (fun code _ data => if code = 0 then some data else none) bs).map
      (fun m => (m.blocks.length, m.requests.length)))) = some (1, 1) := by decide +kernel

/-- the same for every message of a stream -/
theorem keys_stream (hash : Hash) : ∀ (fuel : Nat) (bs : Bytes) (m : Msg),
    m ∈ (decodeStreamFuel hash fuel bs).1 →
    (∀ blk ∈ m.blocks, ∃ p, sumCid hash p blk.data = some blk.cid) ∧
    (∀ r ∈ m.requests, r.id.length = 16) ∧ (∀ r ∈ m.responses, r.id.length = 16)
  | 0, _, _, h => by simp [decodeStreamFuel] at h
  | fuel + 1, bs, m, h => by
    unfold decodeStreamFuel at h
    split at h
    · simp at h
    · simp at h
    · rename_i m' rest hd
      simp only [List.mem_cons] at h
      rcases h with h | h
      · subst h
        apply keys hash bs
        unfold decodeMsg
        rw [hd]
      · exact keys_stream hash fuel rest m h

/-- **C12.total** — the decoder model assigns an outcome to every byte string (see the header for
what this does and does not say about the Go code). -/
theorem total (hash : Hash) (bs : Bytes) :
    (∃ m, decodeMsg hash bs = some m) ∨ decodeMsg hash bs = none := by
  cases decodeMsg hash bs with
  | none => exact Or.inr rfl
  | some m => exact Or.inl ⟨m, rfl⟩

/-! ## the read loop

`handleStream` interprets the tables of GS/Generated/StreamLoop.lean (regenerated from
handleNewStream). The next five equations evaluate it on the current tables; everything below is
proved from them, so a change of the loop (no Reset, no ReceiveError, another order, something done on
EOF, no Close) makes them -- and with them every `stream_machine` theorem -- fail. -/

theorem hs_nil : handleStream [] = [] := rfl
theorem hs_msg (m : Msg) (rest : List Outcome) :
    handleStream (.msg m :: rest) = .deliver m :: handleStream rest := rfl
theorem hs_msgPanic (m : Msg) (rest : List Outcome) :
    handleStream (.msgPanic m :: rest) = [.deliver m, .reset, .receiveError, .close] := rfl
theorem hs_eof (rest : List Outcome) : handleStream (.eof :: rest) = [.close] := rfl
theorem hs_error (rest : List Outcome) :
    handleStream (.error :: rest) = [.reset, .receiveError, .close] := rfl
theorem hs_panic (rest : List Outcome) :
    handleStream (.panic :: rest) = [.reset, .receiveError, .close] := rfl

/-- the end-of-stream test of the loop is the identity comparison with io.EOF (the translator accepts
nothing else): only the decoder's bare `eof` outcome ends a stream silently -/
theorem eof_test_is_identity : GS.Generated.StreamLoop.eofTestIsIdentity = true := rfl

def isDeliver : Event → Bool
  | .deliver _ => true
  | _ => false

def failed : Outcome → Bool
  | .error => true
  | .panic => true
  | .msgPanic _ => true
  | _ => false

def stops : Outcome → Bool
  | .msg _ => false
  | _ => true

/-- the messages of the leading `.msg` outcomes -/
def goodPrefix : List Outcome → List Msg
  | .msg m :: rest => m :: goodPrefix rest
  | _ => []

/-- the first outcome that ends the loop, if any -/
def firstStop : List Outcome → Option Outcome
  | [] => none
  | .msg _ :: rest => firstStop rest
  | o :: _ => some o

/-- **C12.stream_machine** — closed form of the event sequence of handleNewStream: the good prefix is
delivered in order; then, depending on what ended the loop: nothing more (still reading), `close`
(clean EOF), or exactly `reset, receiveError, close` (decode error / decoder panic), preceded by the
delivery attempt if it was the receiver that panicked. -/
theorem stream_machine (os : List Outcome) :
    handleStream os = (goodPrefix os).map Event.deliver ++
      (match firstStop os with
       | none => []
       | some .eof => [.close]
       | some (.msgPanic m) => [.deliver m, .reset, .receiveError, .close]
       | some _ => [.reset, .receiveError, .close]) := by
  induction os with
  | nil => rfl
  | cons o rest ih =>
    cases o <;> simp [hs_msg, hs_msgPanic, hs_eof, hs_error, hs_panic, goodPrefix, firstStop, ih]

/-- after a reset / ReceiveError nothing is delivered -/
theorem stream_machine_nothing_after_error (os : List Outcome) (pre post : List Event)
    (h : handleStream os = pre ++ Event.receiveError :: post) : post = [.close] ∧
    (∀ e ∈ post, isDeliver e = false) := by
  induction os generalizing pre with
  | nil => cases pre <;> simp [hs_nil] at h
  | cons o rest ih =>
    cases o with
    | msg m =>
      cases pre with
      | nil => simp [hs_msg] at h
      | cons e pre' =>
        simp only [hs_msg, List.cons_append, List.cons.injEq] at h
        exact ih pre' h.2
    | msgPanic m =>
      simp only [hs_msgPanic] at h
      match pre, h with
      | [_, _], h => simp at h; obtain ⟨_, _, h3⟩ := h; subst h3; simp [isDeliver]
      | [], h => simp at h
      | [_], h => simp at h
      | [_, _, _], h => simp at h
      | _ :: _ :: _ :: _ :: _, h => simp at h
    | eof =>
      simp only [hs_eof] at h
      match pre, h with
      | [], h => simp at h
      | [_], h => simp at h
      | _ :: _ :: _, h => simp at h
    | error =>
      simp only [hs_error] at h
      match pre, h with
      | [_], h => simp at h; obtain ⟨_, h3⟩ := h; subst h3; simp [isDeliver]
      | [], h => simp at h
      | [_, _], h => simp at h
      | _ :: _ :: _ :: _, h => simp at h
    | panic =>
      simp only [hs_panic] at h
      match pre, h with
      | [_], h => simp at h; obtain ⟨_, h3⟩ := h; subst h3; simp [isDeliver]
      | [], h => simp at h
      | [_, _], h => simp at h
      | _ :: _ :: _ :: _, h => simp at h

/-- exactly one ReceiveError and one reset iff the loop was ended by a failure; none otherwise -/
theorem stream_machine_error_count (os : List Outcome) :
    ((handleStream os).filter (fun e => match e with | .receiveError => true | _ => false)).length =
      (match firstStop os with | some o => if failed o then 1 else 0 | none => 0) ∧
    ((handleStream os).filter (fun e => match e with | .reset => true | _ => false)).length =
      (match firstStop os with | some o => if failed o then 1 else 0 | none => 0) := by
  induction os with
  | nil => simp [hs_nil, firstStop]
  | cons o rest ih =>
    cases o <;> simp [hs_msg, hs_msgPanic, hs_eof, hs_error, hs_panic, firstStop, failed, ih]

/-- a complete byte stream (no panics): the delivered messages are exactly the ones `decodeStream`
yields, each satisfying `keys`, and the stream is reset with one ReceiveError iff it did not end
cleanly. -/
theorem stream_machine_bytes (hash : Hash) (bs : Bytes) :
    handleStream (outcomesOf hash bs) =
      (decodeStream hash bs).1.map Event.deliver ++
      (if (decodeStream hash bs).2 then [.close] else [.reset, .receiveError, .close]) := by
  unfold outcomesOf
  generalize decodeStream hash bs = r
  obtain ⟨ms, e⟩ := r
  simp only
  induction ms with
  | nil => cases e <;> simp [hs_eof, hs_error]
  | cons m ms ih => simp [hs_msg, ih]

/-! non-vacuity: a concrete stream -/
example : handleStream [.msg {}, .msg {}, .error, .msg {}] =
    [.deliver {}, .deliver {}, .reset, .receiveError, .close] := rfl

end GS.C12
