// Package quiesce: timer-free detection of "the system under test has nothing left to do".
//
// Wait spins (runtime.Gosched) until every goroutine other than the caller is parked in a waiting
// state (channel receive, select, cond wait, semaphore, sleep, idle runtime workers) in two
// consecutive goroutine dumps.  Goroutines that are runnable, running, in a syscall, blocked on a
// mutex or on a channel send count as "still working".  With GOMAXPROCS(1) the outcome is a
// function of the program state, not of timing.
package quiesce

import (
	"runtime"
	"strings"
	"time"
)

// OnStuck, if set, is called with a goroutine dump when Wait has been spinning for StuckAfter
// without reaching quiescence (a goroutine of the system under test is busy or blocked on a
// mutex / channel send for good).  Safety net only: no verdict depends on timing.
var (
	OnStuck    func(dump string)
	StuckAfter = 30 * time.Second
)

var busyPrefixes = []string{"running", "runnable", "syscall", "sync.Mutex.Lock", "sync.RWMutex", "chan send", "copystack", "preempted"}

func allParked() bool {
	buf := make([]byte, 1<<18)
	for {
		n := runtime.Stack(buf, true)
		if n < len(buf) {
			buf = buf[:n]
			break
		}
		buf = make([]byte, 2*len(buf))
	}
	first := true
	for _, g := range strings.Split(string(buf), "\n\n") {
		if !strings.HasPrefix(g, "goroutine ") {
			continue
		}
		if first { // the caller
			first = false
			continue
		}
		hdr := g
		if i := strings.IndexByte(g, '\n'); i >= 0 {
			hdr = g[:i]
		}
		a, b := strings.IndexByte(hdr, '['), strings.LastIndexByte(hdr, ']')
		if a < 0 || b < a {
			return false
		}
		st := hdr[a+1 : b]
		for _, p := range busyPrefixes {
			if strings.HasPrefix(st, p) {
				return false
			}
		}
	}
	return true
}

// Wait returns once the rest of the program is quiescent.  extra, if non-nil, must also report
// true (e.g. "my input channel is empty").
func Wait(extra func() bool) {
	ok := 0
	start := time.Now()
	for spin := 0; ; spin++ {
		runtime.Gosched()
		if spin%8 != 7 {
			continue
		}
		if OnStuck != nil && spin%4096 == 4095 && time.Since(start) > StuckAfter {
			buf := make([]byte, 1<<20)
			n := runtime.Stack(buf, true)
			OnStuck(string(buf[:n]))
			start = time.Now()
		}
		if allParked() && (extra == nil || extra()) {
			ok++
			if ok >= 2 {
				return
			}
		} else {
			ok = 0
		}
	}
}

// ---------------------------------------------------------------- wall-clock safety net

// sutStates: states of the goroutines of the system under test — every goroutine except the caller
// and the harness goroutine that spins in Wait.  runnable = running / runnable / syscall / preempted
// (work is being done or can be done); blocked = waiting for a mutex or on a channel send (Wait never
// reports quiescence while such a goroutine exists).
func sutStates() (runnable, blocked []string) {
	buf := make([]byte, 1<<18)
	for {
		n := runtime.Stack(buf, true)
		if n < len(buf) {
			buf = buf[:n]
			break
		}
		buf = make([]byte, 2*len(buf))
	}
	first := true
	for _, g := range strings.Split(string(buf), "\n\n") {
		if !strings.HasPrefix(g, "goroutine ") {
			continue
		}
		if first {
			first = false
			continue
		}
		if strings.Contains(g, "quiesce.Wait(") || strings.Contains(g, "quiesce.allParked(") {
			continue
		}
		hdr := g
		if i := strings.IndexByte(g, '\n'); i >= 0 {
			hdr = g[:i]
		}
		a, b := strings.IndexByte(hdr, '['), strings.LastIndexByte(hdr, ']')
		if a < 0 || b < a {
			continue
		}
		st := hdr[a+1 : b]
		switch {
		case strings.HasPrefix(st, "running"), strings.HasPrefix(st, "runnable"), strings.HasPrefix(st, "syscall"),
			strings.HasPrefix(st, "copystack"), strings.HasPrefix(st, "preempted"):
			runnable = append(runnable, hdr)
		case strings.HasPrefix(st, "sync.Mutex.Lock"), strings.HasPrefix(st, "sync.RWMutex"), strings.HasPrefix(st, "chan send"):
			blocked = append(blocked, hdr)
		}
	}
	return
}

// Watch is a wall-clock safety net around one case.  It never turns slowness into a verdict: after
// `grace` it looks at the goroutine states every `every`; only if in three samples in a row NO
// goroutine of the system under test is runnable (they are parked, or blocked on a mutex / channel
// send for good, so that the harness's scheduler cannot reach a quiescent point) does it call
// onHang.  While there is runnable work it keeps waiting, up to `limit`, then calls onTimeout (a
// harness problem — slow machine or livelock —, never a known finding).
type Watch struct{ stop chan struct{} }

func NewWatch(grace, every, limit time.Duration, onHang func(detail string), onTimeout func(detail string)) *Watch {
	w := &Watch{stop: make(chan struct{})}
	go func() {
		start := time.Now()
		t := time.NewTimer(grace)
		defer t.Stop()
		for {
			select {
			case <-w.stop:
				return
			case <-t.C:
			}
			idle := 0
			var lastBlocked []string
			for i := 0; i < 3; i++ {
				r, b := sutStates()
				if len(r) == 0 {
					idle++
					lastBlocked = b
				}
				select {
				case <-w.stop:
					return
				case <-time.After(300 * time.Millisecond):
				}
			}
			if idle == 3 {
				onHang("after " + time.Since(start).Round(time.Second).String() + " no goroutine of the system under test is runnable; blocked for good: " + strings.Join(lastBlocked, "; "))
				return
			}
			if time.Since(start) > limit {
				r, _ := sutStates()
				onTimeout("still running after " + time.Since(start).Round(time.Second).String() + " (runnable: " + strings.Join(r, "; ") + ")")
				return
			}
			t.Reset(every)
		}
	}()
	return w
}

func (w *Watch) Stop() { close(w.stop) }
