import GSProofs.Lemmas.MsgQueueLive3
/-!
# Message queue liveness, part 4: the queue goroutine's and the network's steps decrease the variant
-/
namespace GS.MQ
open GS.Alloc

/-- what a queue-goroutine step does to the queue, as far as liveness is concerned -/
structure Res (s s' : State) : Prop where
  sub : (topicsOf s'.builders).Sublist (topicsOf s.builders)
  back : ∀ b' ∈ s'.builders, b'.empty = false → ∃ b ∈ s.builders, b'.topic = b.topic ∧ b.empty = false
  token : s'.token = s.token
  maxRetries : s'.maxRetries = s.maxRetries

theorem Res.refl (s : State) : Res s s := ⟨List.Sublist.refl _, fun b hb he => ⟨b, hb, rfl, he⟩, rfl, rfl⟩

theorem Res.trans {a b c : State} (h1 : Res a b) (h2 : Res b c) : Res a c := by
  refine ⟨h2.sub.trans h1.sub, ?_, h2.token.trans h1.token, h2.maxRetries.trans h1.maxRetries⟩
  intro x hx he
  obtain ⟨y, hy, e1, e2⟩ := h2.back x hx he
  obtain ⟨z, hz, e3, e4⟩ := h1.back y hy e2
  exact ⟨z, hz, e1.trans e3, e4⟩

theorem Res.fields {s s' : State} (hb : s'.builders = s.builders) (ht : s'.token = s.token)
    (hm : s'.maxRetries = s.maxRetries) : Res s s' :=
  ⟨by rw [hb]; exact List.Sublist.refl _, fun b hb' he => ⟨b, by rw [← hb]; exact hb', rfl, he⟩, ht, hm⟩

theorem Res.ti {s s' : State} (r : Res s s') (h : TI s) : TI s' := by
  intro ⟨b', hb', he⟩
  obtain ⟨b, hb, _, he'⟩ := r.back b' hb' he
  rw [r.token]; exact h ⟨b, hb, he'⟩

theorem Res.cnt {s s' : State} (r : Res s s') (t : Nat) : cnt t s'.builders ≤ cnt t s.builders := cnt_sublist t r.sub

theorem publishError_res (pick : Pick) (s : State) (m : InFlight) : Res s (s.publishError pick m) := by
  obtain ⟨h1, h2, _, _, h5, _⟩ := publishError_shape pick s m
  refine ⟨by rw [h1]; exact scrubAll_topics_sublist _ _, ?_, h2, h5⟩
  intro b' hb' _
  rw [h1] at hb'
  exact (scrubAll_mem _ _ b' hb').2

theorem publishSent_res (pick : Pick) (s : State) (m : InFlight) : Res s (s.publishSent pick m) := by
  unfold State.publishSent
  have q := ((publish_frame s m.topic Kind.sent).q).trans (release_qframe pick _ m.size)
  exact Res.fields q.builders q.token q.maxRetries

theorem finish_res (s : State) (m : InFlight) : Res s (s.finish m) ∧ (s.finish m).pc = .idle := by
  have f := closeTopic_frame s m.topic
  exact ⟨Res.fields f.builders f.token f.maxRetries, rfl⟩

/-- either the message is still pending and everything needed for progress holds, or it is finished -/
theorem live_or_done (t : Nat) {s' : State} (hn : NInv s') (hti : TI s') (hok : PcOK s') (hr : Running s') :
    LiveP t s' ∨ LiveQ t s' := by
  by_cases hp : Pend t s'
  · exact Or.inl ⟨hn, hti, hok, hr, hp⟩
  · exact Or.inr hp

theorem V_lt {t : Nat} {s s' : State} (r : Res s s') (h : rem s.maxRetries s'.pc < rem s.maxRetries s.pc) :
    V t s' < V t s := by
  unfold V
  rw [r.maxRetries]
  have := r.cnt t
  have := Nat.mul_le_mul_right (3 * s.maxRetries + 3) this
  omega

theorem idle_ok {s : State} (h : s.pc = .idle) : PcOK s ∧ Running s := by
  unfold PcOK Running; rw [h]; exact ⟨trivial, by simp, by simp⟩

/-- `attempt m i` from a state whose queue is `s`'s -/
theorem attempt_live (pick : Pick) {t : Nat} {s s1 : State} {m : InFlight} (i : Nat) (r : Res s s1)
    (hti : TI s) (hn : NInv (s1.attempt pick m i))
    (hrem : 3 * (s.maxRetries - i) < rem s.maxRetries s.pc) (hpos : 0 < rem s.maxRetries s.pc) :
    (LiveP t (s1.attempt pick m i) ∨ LiveQ t (s1.attempt pick m i)) ∧ V t (s1.attempt pick m i) < V t s := by
  unfold State.attempt at hn ⊢
  split at hn
  · next hi =>
    rw [if_pos hi]
    have r' : Res s ({ s1.emit [Event.wire m.topic i] with pc := .sending m i } : State) :=
      r.trans (Res.fields rfl rfl rfl)
    refine ⟨live_or_done t hn (r'.ti hti) ?_ ⟨by simp, by simp⟩, V_lt r' hrem⟩
    show i < s1.maxRetries
    exact hi
  · next hi =>
    rw [if_neg hi]
    obtain ⟨f1, f2⟩ := finish_res (s1.publishError pick m) m
    have r' : Res s ((s1.publishError pick m).finish m) := (r.trans (publishError_res pick s1 m)).trans f1
    obtain ⟨o1, o2⟩ := idle_ok f2
    refine ⟨live_or_done t hn (r'.ti hti) o1 o2, V_lt r' ?_⟩
    rw [f2]; exact hpos

/-- `publishError` + `finish` (possibly after setting flags) from a state whose queue is `s`'s -/
theorem errfin_live (pick : Pick) {t : Nat} {s s1 : State} {m : InFlight} (r : Res s s1)
    (hti : TI s) (hn : NInv ((s1.publishError pick m).finish m)) (hpos : 0 < rem s.maxRetries s.pc) :
    (LiveP t ((s1.publishError pick m).finish m) ∨ LiveQ t ((s1.publishError pick m).finish m)) ∧
    V t ((s1.publishError pick m).finish m) < V t s := by
  obtain ⟨f1, f2⟩ := finish_res (s1.publishError pick m) m
  have r' : Res s ((s1.publishError pick m).finish m) := (r.trans (publishError_res pick s1 m)).trans f1
  obtain ⟨o1, o2⟩ := idle_ok f2
  refine ⟨live_or_done t hn (r'.ti hti) o1 o2, V_lt r' ?_⟩
  rw [f2]; exact hpos

/-- the network answers the call the queue goroutine is blocked in -/
theorem ack_live (pick : Pick) {t : Nat} {s : State} (h : LiveP t s) (ok : Bool) (hen : ackEnabled s = true) :
    (LiveP t (s.ack pick ok) ∨ LiveQ t (s.ack pick ok)) ∧ V t (s.ack pick ok) < V t s := by
  obtain ⟨hn, hti, hok, hrun, hp⟩ := h
  have hJ := ack_J pick hn ok
  have hN : (s.ack pick ok).pc ≠ .exited → NInv (s.ack pick ok) := by
    intro _; exact hJ
  obtain ⟨peer, maxRetries, builders, nextTopic, token, done, sender, pc, closedStreams, waiters,
    nextTicket, topics, pubClosed, alloc, log⟩ := s
  cases pc with
  | idle => simp [ackEnabled] at hen
  | exited => exact absurd rfl hrun.2
  | exiting => exact absurd rfl hrun.1
  | opening m r =>
    cases r with
    | none =>
      unfold State.ack at hN ⊢
      simp only at hN ⊢
      split
      · next hokk =>
        rw [if_pos hokk] at hN
        have hn' : NInv (State.attempt pick (⟨peer, maxRetries, builders, nextTopic, token, done, true, .opening m none,
            closedStreams, waiters, nextTicket, topics, pubClosed, alloc, log⟩ : State) m 0) := by
          apply hN
          unfold State.attempt; split <;> simp [State.finish]
        exact attempt_live pick 0 (Res.fields rfl rfl rfl) hti hn' (by simp [rem]) (by simp [rem])
      · next hokk =>
        rw [if_neg hokk] at hN
        generalize hs1 : State.publishError pick (⟨peer, maxRetries, builders, nextTopic, token, done, sender, .opening m none,
            closedStreams, waiters, nextTicket, topics, pubClosed, alloc, log⟩ : State) m = s1 at hN ⊢
        have r1 : Res (⟨peer, maxRetries, builders, nextTopic, token, done, sender, .opening m none,
            closedStreams, waiters, nextTicket, topics, pubClosed, alloc, log⟩ : State) s1 := by
          rw [← hs1]; exact publishError_res pick _ m
        obtain ⟨f1, f2⟩ := finish_res ({ s1 with done := true } : State) m
        have r' := (r1.trans (Res.fields (s' := { s1 with done := true }) rfl rfl rfl)).trans f1
        obtain ⟨o1, o2⟩ := idle_ok f2
        refine ⟨live_or_done t (hN (by rw [f2]; simp)) (r'.ti hti) o1 o2, V_lt r' ?_⟩
        rw [f2]; simp [rem]
    | some i =>
      have hi : i < maxRetries := hok
      unfold State.ack at hN ⊢
      simp only at hN ⊢
      split
      · next hokk =>
        rw [if_pos hokk] at hN
        have hn' : NInv (State.attempt pick (⟨peer, maxRetries, builders, nextTopic, token, done, true, .opening m (some i),
            closedStreams, waiters, nextTicket, topics, pubClosed, alloc, log⟩ : State) m (i + 1)) := by
          apply hN
          unfold State.attempt; split <;> simp [State.finish]
        refine attempt_live pick (i + 1) (Res.fields rfl rfl rfl) hti hn' ?_ ?_
        · simp only [rem]; omega
        · simp only [rem]; omega
      · next hokk =>
        rw [if_neg hokk] at hN
        refine errfin_live pick (Res.refl _) hti (hN (by simp [State.finish])) ?_
        simp only [rem]; omega
  | sending m i =>
    have hi : i < maxRetries := hok
    unfold State.ack at hN ⊢
    simp only at hN ⊢
    split
    · next hokk =>
      rw [if_pos hokk] at hN
      obtain ⟨f1, f2⟩ := finish_res (State.publishSent pick (⟨peer, maxRetries, builders, nextTopic, token, done, sender, .sending m i,
            closedStreams, waiters, nextTicket, topics, pubClosed, alloc, log⟩ : State) m) m
      have r' := (publishSent_res pick (⟨peer, maxRetries, builders, nextTopic, token, done, sender, .sending m i,
            closedStreams, waiters, nextTicket, topics, pubClosed, alloc, log⟩ : State) m).trans f1
      obtain ⟨o1, o2⟩ := idle_ok f2
      refine ⟨live_or_done t (hN (by rw [f2]; simp)) (r'.ti hti) o1 o2, V_lt r' ?_⟩
      rw [f2]; simp only [rem]; omega
    · next hokk =>
      rw [if_neg hokk] at hN
      have r' : Res (⟨peer, maxRetries, builders, nextTopic, token, done, sender, .sending m i,
            closedStreams, waiters, nextTicket, topics, pubClosed, alloc, log⟩ : State)
          (⟨peer, maxRetries, builders, nextTopic, token, done, false, .resetting m i,
            closedStreams, waiters, nextTicket, topics, pubClosed, alloc, log⟩ : State) := Res.fields rfl rfl rfl
      refine ⟨live_or_done t (hN (by simp)) (r'.ti hti) hi ⟨by simp, by simp⟩, V_lt r' ?_⟩
      simp only [rem]; omega
  | resetting m i =>
    have hi : i < maxRetries := hok
    unfold State.ack at hN ⊢
    simp only at hN ⊢
    split
    · next hd =>
      rw [if_pos hd] at hN
      refine errfin_live pick (Res.refl _) hti (hN (by simp [State.finish])) ?_
      simp only [rem]; omega
    · next hd =>
      rw [if_neg hd] at hN
      have r' : Res (⟨peer, maxRetries, builders, nextTopic, token, done, sender, .resetting m i,
            closedStreams, waiters, nextTicket, topics, pubClosed, alloc, log⟩ : State)
          (⟨peer, maxRetries, builders, nextTopic, token, done, sender, .opening m (some i),
            closedStreams, waiters, nextTicket, topics, pubClosed, alloc, log⟩ : State) := Res.fields rfl rfl rfl
      refine ⟨live_or_done t (hN (by simp)) (r'.ti hti) hi ⟨by simp, by simp⟩, V_lt r' ?_⟩
      simp only [rem]; omega

end GS.MQ
