import GSProofs.Lemmas.RespLifeReach
/-!
The "lifecycle" projection `li` of the responder model (request states, task-queue topics, worker
kinds, StartTask / FinishTask messages in the mailbox, a parked `unpauseRequest`) and its frame lemmas:
everything that is not a manager handler, `pop`, `reap` or a worker segment leaves it unchanged.
Used by C23.agree.
-/
namespace GS.RespLife

inductive WKind | waitStart | mid | fin | waitFinish | done
deriving DecidableEq, Repr

/-- worker phase up to what matters for the task accounting -/
def wkind : WPhase → WKind
  | .waitStart => .waitStart
  | .started | .atLoader | .waitUpdates _ _ | .gotUpdates _ _ _ | .inHook _ _ => .mid
  | .blockedTx _ (.afterBlock _ _) _ => .mid
  | .blockedTx _ (.afterFinal _) _ => .fin
  | .preFinish _ => .fin
  | .waitFinish => .waitFinish
  | .done => .done

def tcore (s : State) : List (Id × Peer × RState × Option Nat) :=
  s.table.map fun r => (r.id, r.peer, r.state, r.aux.task)

def qcore (s : State) : List (Peer × List Id × List Id) :=
  s.queues.map fun q => (q.peer, q.pending.map (·.1), q.active)

def wcore (s : State) : List (Peer × Id × WKind) :=
  s.workers.map fun w => (w.peer, w.id, wkind w.phase)

def starts (mb : List Msg) : List Nat :=
  mb.filterMap fun
    | .startTask w => some w
    | _ => none

def fins (mb : List Msg) : List Nat :=
  mb.filterMap fun
    | .finishTask w _ => some w
    | _ => none

/-- the id of a parked `unpauseRequest` (state already Queued, task not yet pushed) -/
def parkUnp (pk : Option MgrPark) : Option Id :=
  match pk with
  | some k => (match k.cont with
    | .unpause id _ => some id
    | _ => none)
  | none => none

structure Li where
  tbl : List (Id × Peer × RState × Option Nat)
  qs : List (Peer × List Id × List Id)
  wk : List (Peer × Id × WKind)
  starts : List Nat
  fins : List Nat
  punp : Option Id
deriving DecidableEq

def li (s : State) : Li :=
  ⟨tcore s, qcore s, wcore s, starts s.mailbox, fins s.mailbox, parkUnp s.park⟩

theorem li_eq {s s' : State} (h1 : tcore s' = tcore s) (h2 : qcore s' = qcore s) (h3 : wcore s' = wcore s)
    (h4 : starts s'.mailbox = starts s.mailbox) (h5 : fins s'.mailbox = fins s.mailbox)
    (h6 : parkUnp s'.park = parkUnp s.park) : li s' = li s := by
  simp [li, h1, h2, h3, h4, h5, h6]

-- ------------------------------------------------------------------ primitives
theorem tcore_modAux (s : State) (id : Id) (f : Aux → Aux) (h : ∀ a, (f a).task = a.task) :
    tcore (modAux s id f) = tcore s := by
  simp only [tcore, modAux, List.map_map]
  apply List.map_congr_left
  intro r _
  simp only [Function.comp]
  split
  · simp [h]
  · rfl

theorem li_modAux (s : State) (id : Id) (f : Aux → Aux) (h : ∀ a, (f a).task = a.task) :
    li (modAux s id f) = li s :=
  li_eq (tcore_modAux s id f h) rfl rfl rfl rfl rfl

@[simp] theorem li_emit (s : State) (e : Event) : li (emit s e) = li s := rfl
@[simp] theorem li_setMQ (s : State) (q : PeerMQ) : li (setMQ s q) = li s := rfl
@[simp] theorem li_addAlloc (s : State) (p : Peer) (n : Nat) : li (addAlloc s p n) = li s := rfl
@[simp] theorem li_closeStreams (s : State) (ids : List Id) : li (closeStreams s ids) = li s := rfl
@[simp] theorem li_openStream (s : State) (id : Id) : li (openStream s id) = li s := rfl
@[simp] theorem li_protect (s : State) (p : Peer) (id : Id) : li (protect s p id) = li s := rfl

theorem wcore_setWorker (s : State) (w : Nat) (f : Worker → Worker)
    (h : ∀ x, ((f x).peer, (f x).id, wkind (f x).phase) = (x.peer, x.id, wkind x.phase)) :
    wcore (setWorker s w f) = wcore s := by
  apply List.ext_getElem?
  intro i
  simp only [wcore, setWorker, List.getElem?_map, List.getElem?_mapIdx]
  cases s.workers[i]? with
  | none => rfl
  | some x =>
    simp only [Option.map_some]
    split
    · rw [h]
    · rfl

theorem li_setWorker (s : State) (w : Nat) (f : Worker → Worker)
    (h : ∀ x, ((f x).peer, (f x).id, wkind (f x).phase) = (x.peer, x.id, wkind x.phase)) :
    li (setWorker s w f) = li s :=
  li_eq rfl rfl (wcore_setWorker s w f h) rfl rfl rfl

@[simp] theorem parkUnp_grant (pk : Option MgrPark) :
    parkUnp (pk.map fun k => { k with granted := true }) = parkUnp pk := by
  cases pk <;> rfl

@[simp] theorem li_grantTo (s : State) (party : Party) : li (grantTo s party) = li s := by
  cases party with
  | mgr => exact li_eq rfl rfl rfl rfl rfl (parkUnp_grant s.park)
  | worker w =>
    apply li_setWorker
    intro x
    cases hp : x.phase with
    | blockedTx ops k g => cases k <;> simp [wkind, hp]
    | _ => simp [hp]

@[simp] theorem li_grantLoop (fuel : Nat) (s : State) (p : Peer) : li (grantLoop fuel s p) = li s := by
  induction fuel generalizing s with
  | zero => rfl
  | succ n ih =>
    unfold grantLoop
    split
    · rfl
    · split
      · rw [ih]; simp; rfl
      · rfl

@[simp] theorem li_underflow (s : State) (b : Bool) : li { s with underflow := b } = li s := rfl

@[simp] theorem li_release (s : State) (p : Peer) (n : Nat) : li (release s p n) = li s := by
  unfold release; simp

@[simp] theorem li_tryAlloc (s : State) (party : Party) (p : Peer) (n : Nat) :
    li (tryAlloc s party p n).1 = li s := by
  unfold tryAlloc; split
  · simp
  · rfl

@[simp] theorem li_buildNow (s : State) (party : Party) (p : Peer) (id : Id) (ops : List TxOp) :
    li (buildNow s party p id ops) = li s := by
  unfold buildNow; simp only; split
  · split
    · simp
    · rfl
  · rfl

@[simp] theorem li_execTx (s : State) (party : Party) (p : Peer) (id : Id) (ops : List TxOp) :
    li (execTx s party p id ops).1 = li s := by
  unfold execTx; split
  · rfl
  · simp only; split
    · simp
    · cases h : tryAlloc s party p (txSize s.extLen ops) with
      | mk s1 ok =>
        have h1 : li s1 = li s := by
          have := li_tryAlloc s party p (txSize s.extLen ops)
          rw [h] at this; exact this
        simp only
        split
        · simp [h1]
        · exact h1

theorem li_execTx_eq {s s1 : State} {party : Party} {p : Peer} {id : Id} {ops : List TxOp} {ok : Bool}
    (h : execTx s party p id ops = (s1, ok)) : li s1 = li s := by
  have := li_execTx s party p id ops
  rw [h] at this; exact this

-- ------------------------------------------------------------------ message queue, publisher, environment
theorem starts_append (mb : List Msg) (m : Msg) (h : ∀ w, m ≠ .startTask w) : starts (mb ++ [m]) = starts mb := by
  unfold starts
  rw [List.filterMap_append]
  cases m with
  | startTask w => exact absurd rfl (h w)
  | _ => simp

theorem fins_append (mb : List Msg) (m : Msg) (h : ∀ w e, m ≠ .finishTask w e) : fins (mb ++ [m]) = fins mb := by
  unfold fins
  rw [List.filterMap_append]
  cases m with
  | finishTask w e => exact absurd rfl (h w e)
  | _ => simp

theorem li_sendMsg (s : State) (m : Msg) (h1 : ∀ w, m ≠ .startTask w) (h2 : ∀ w e, m ≠ .finishTask w e) :
    li (sendMsg s m) = li s :=
  li_eq (s := s) (s' := sendMsg s m) rfl rfl rfl (starts_append _ _ h1) (fins_append _ _ h2) rfl

theorem li_netResolve {s s' : State} {p : Peer} {ok : Bool} (h : netResolve s p ok = some s') : li s' = li s := by
  unfold netResolve at h
  simp only at h
  split at h
  · cases h
  · split at h
    · cases h; simp
    · cases h
      rw [li_release]
      split
      · rw [li_release, li_setMQ]; rfl
      · rw [li_setMQ]; rfl

theorem li_extract {s s' : State} {p : Peer} (h : extract s p = some s') : li s' = li s := by
  unfold extract at h
  simp only at h
  split at h
  · split at h
    · cases h
    · cases h; simp
  · cases h

@[simp] theorem li_primer (s : State) (p : Peer) : li (primer s p) = li s := by
  unfold primer; simp

theorem li_pubStep {s s' : State} {p : Peer} (h : pubStep s p = some s') : li s' = li s := by
  unfold pubStep at h
  simp only at h
  split at h
  · cases h
  · split at h
    · cases h
    · split at h
      · cases h; rfl
      · cases h; simp
      · cases h; simp
      · cases h; rw [li_sendMsg _ _ (by intros; simp) (by intros; simp)]; simp
      · cases h; rw [li_sendMsg _ _ (by intros; simp) (by intros; simp)]; simp

@[simp] theorem li_thawAll (s : State) : li (thawAll s) = li s := by
  refine li_eq rfl ?_ rfl rfl rfl rfl
  simp [qcore, thawAll, List.map_map, Function.comp_def]

theorem li_recv (s : State) (p : Peer) (r : ReqMsg) (seen : List Id) :
    li (sendMsg { s with seenIds := seen } (.processRequests p r)) = li s := by
  rw [li_sendMsg _ _ (by intros; simp) (by intros; simp)]; rfl

end GS.RespLife

namespace GS.RespLife
-- ------------------------------------------------------------------ worker segments
/-- worker `w` gets kind `k` -/
def Li.setKind (x : Li) (w : Nat) (k : WKind) : Li :=
  { x with wk := x.wk.mapIdx fun i t => if i == w then (t.1, t.2.1, k) else t }

/-- a FinishTask of worker `w` is appended to the mailbox -/
def Li.addFin (x : Li) (w : Nat) : Li := { x with fins := x.fins ++ [w] }

theorem wcore_setWorker_kind (s : State) (w : Nat) (f : Worker → Worker) (k : WKind)
    (h : ∀ x, ((f x).peer, (f x).id, wkind (f x).phase) = (x.peer, x.id, k)) :
    wcore (setWorker s w f) = (wcore s).mapIdx fun i t => if i == w then (t.1, t.2.1, k) else t := by
  apply List.ext_getElem?
  intro i
  simp only [wcore, setWorker, List.getElem?_map, List.getElem?_mapIdx]
  cases s.workers[i]? with
  | none => rfl
  | some x =>
    simp only [Option.map_some]
    split
    · rw [h]
    · rfl

theorem li_setPhase (s : State) (w : Nat) (ph : WPhase) : li (setPhase s w ph) = (li s).setKind w (wkind ph) := by
  simp only [li, Li.setKind, setPhase]
  rw [wcore_setWorker_kind s w _ (wkind ph) (fun _ => rfl)]
  rfl

theorem li_sendMsg_fin (s : State) (w : Nat) (e : Option WErr) : li (sendMsg s (.finishTask w e)) = (li s).addFin w := by
  simp only [li, Li.addFin, sendMsg]
  congr 1
  · exact starts_append _ _ (by intros; simp)
  · simp [fins, List.filterMap_append]

/-- what a worker segment does to the lifecycle projection: worker `w` ends in kind mid / fin, or it has
    sent FinishTask and waits -/
def WL (x x' : Li) (w : Nat) : Prop :=
  x' = x.setKind w .mid ∨ x' = x.setKind w .fin ∨ x' = (x.addFin w).setKind w .waitFinish

theorem wl_of_li_eq {s s1 s' : State} {w : Nat} (h : li s1 = li s) (h' : WL (li s1) (li s') w) : WL (li s) (li s') w := by
  rw [← h]; exact h'

theorem wl_modAux {s : State} {id : Id} {f : Aux → Aux} {x : Li} {w : Nat}
    (h' : WL (li (modAux s id f)) x w) (h : ∀ a, (f a).task = a.task) : WL (li s) x w := by
  rw [li_modAux s id f h] at h'; exact h'

theorem wl_sendFinishNow (s : State) (w : Nat) (err : Option WErr) : WL (li s) (li (sendFinishNow s w err)) w := by
  right; right
  unfold sendFinishNow
  rw [li_setPhase, li_sendMsg_fin]; rfl

theorem wl_sendFinish (s : State) (w : Nat) (err : Option WErr) : WL (li s) (li (sendFinish s w err)) w := by
  unfold sendFinish
  split
  · right; left
    simp only [li, Li.setKind]
    rw [wcore_setWorker_kind s w _ .fin (fun _ => rfl)]
    rfl
  · exact wl_sendFinishNow s w err

theorem wl_setPhase_mid (s : State) (w : Nat) (ph : WPhase) (h : wkind ph = .mid) : WL (li s) (li (setPhase s w ph)) w := by
  left; rw [li_setPhase, h]

theorem wl_setPhase_fin (s : State) (w : Nat) (ph : WPhase) (h : wkind ph = .fin) : WL (li s) (li (setPhase s w ph)) w := by
  right; left; rw [li_setPhase, h]

theorem wl_executeQuery (s : State) (w : Nat) (wk : Worker) (err : Option WErr) :
    WL (li s) (li (executeQuery s w wk err)) w := by
  unfold executeQuery
  split
  · exact wl_sendFinish _ _ _
  · exact wl_sendFinish _ _ _
  · exact wl_sendFinish _ _ _
  · simp only
    generalize h : execTx s (.worker w) wk.peer wk.id _ = pr
    obtain ⟨s1, ok⟩ := pr
    have h1 := li_execTx_eq h
    simp only
    split
    · exact wl_of_li_eq h1 (wl_sendFinish _ _ _)
    · exact wl_of_li_eq h1 (wl_setPhase_fin _ _ _ rfl)

theorem wl_loopTop (s : State) (w : Nat) (wk : Worker) : WL (li s) (li (loopTop s w wk)) w := by
  unfold loopTop
  split
  · exact wl_sendFinish _ _ _
  · split
    · exact wl_executeQuery _ _ _ _
    · exact wl_setPhase_mid _ _ _ rfl

theorem wl_afterBlock (s : State) (w : Nat) (wk : Worker) (err : Option WErr) :
    WL (li s) (li (afterBlock s w wk err)) w := by
  unfold afterBlock
  split
  · exact wl_executeQuery _ _ _ _
  · exact wl_loopTop _ _ _

theorem wl_runTx (s : State) (w : Nat) (wk : Worker) (ops : List TxOp) (k : AfterTx) :
    WL (li s) (li (runTx s w wk ops k)) w := by
  unfold runTx
  generalize h : execTx s (.worker w) wk.peer wk.id ops = pr
  obtain ⟨s1, ok⟩ := pr
  have h1 := li_execTx_eq h
  simp only
  split
  · split
    · exact wl_of_li_eq h1 (wl_afterBlock _ _ _ _)
    · exact wl_of_li_eq h1 (wl_sendFinish _ _ _)
  · cases k with
    | afterBlock e p => exact wl_of_li_eq h1 (wl_setPhase_mid _ _ _ rfl)
    | afterFinal e => exact wl_of_li_eq h1 (wl_setPhase_fin _ _ _ rfl)

theorem wl_blockPart (s : State) (w : Nat) (wk : Worker) (ops : List TxOp) (cfu : Option WErr) (present : Bool) :
    WL (li s) (li (blockPart s w wk ops cfu present)) w := by
  unfold blockPart
  split
  · exact wl_sendFinish _ _ _
  · simp only
    split
    · exact wl_modAux (wl_runTx _ _ _ _ _) (fun _ => rfl)
    · split
      · exact wl_modAux (wl_runTx _ _ _ _ _) (fun _ => rfl)
      · exact wl_modAux (wl_runTx _ _ _ _ _) (fun _ => rfl)
      · exact wl_modAux (wl_runTx _ _ _ _ _) (fun _ => rfl)
      · exact wl_modAux (wl_runTx _ _ _ _ _) (fun _ => rfl)
      · exact wl_modAux (wl_setPhase_mid _ _ _ rfl) (fun _ => rfl)

theorem wl_checkForUpdates (s : State) (w : Nat) (wk : Worker) (ops : List TxOp) (present : Bool) (pick : Nat) :
    WL (li s) (li (checkForUpdates s w wk ops present pick)) w := by
  unfold checkForUpdates
  split
  · exact wl_sendFinish _ _ _
  · simp only
    split
    · exact wl_blockPart _ _ _ _ _ _
    · exact wl_modAux (wl_blockPart _ _ _ _ _ _) (fun _ => rfl)
    · exact wl_modAux (wl_runTx _ _ _ _ _) (fun _ => rfl)
    · rename_i r _ _ _ _ _ _
      refine wl_modAux (id := r.id) (f := fun a => { a with sigUpdate := false }) ?_ (fun _ => rfl)
      exact wl_of_li_eq (li_sendMsg _ (Msg.getUpdates w) (by intros; simp) (by intros; simp)) (wl_setPhase_mid _ _ _ rfl)

theorem wl_applyUpdates (s : State) (w : Nat) (wk : Worker) (ups : List UP) (ops : List TxOp) (present : Bool)
    (pick : Nat) : WL (li s) (li (applyUpdates s w wk ups ops present pick)) w := by
  induction ups generalizing ops with
  | nil => simp only [applyUpdates]; exact wl_checkForUpdates _ _ _ _ _ _
  | cons u us ih =>
    unfold applyUpdates
    simp only
    split
    · exact wl_runTx _ _ _ _ _
    · exact ih _

/-- a worker segment: only the kind of worker `w` and (possibly) one appended FinishTask change, and
    the segment starts from kind mid or fin -/
theorem wl_wstep {s s' : State} {w pick : Nat} (h : wstep s w pick = some s') :
    WL (li s) (li s') w ∧ ∃ wk, workerOf s w = some wk ∧ (wkind wk.phase = .mid ∨ wkind wk.phase = .fin) := by
  unfold wstep at h
  split at h
  · cases h
  · rename_i wk hw
    split at h
    · rename_i hp; cases h; exact ⟨wl_loopTop _ _ _, wk, hw, Or.inl (by rw [hp]; rfl)⟩
    · rename_i hp
      split at h
      · cases h; exact ⟨wl_sendFinish _ _ _, wk, hw, Or.inl (by rw [hp]; rfl)⟩
      · cases h
        exact ⟨wl_modAux (wl_checkForUpdates _ _ _ _ _ _) (fun _ => rfl), wk, hw, Or.inl (by rw [hp]; rfl)⟩
    · rename_i hp; cases h; exact ⟨wl_applyUpdates _ _ _ _ _ _ _, wk, hw, Or.inl (by rw [hp]; rfl)⟩
    · rename_i hp; cases h; exact ⟨wl_runTx _ _ _ _ _, wk, hw, Or.inl (by rw [hp]; rfl)⟩
    · rename_i hp; cases h; exact ⟨wl_sendFinishNow _ _ _, wk, hw, Or.inr (by rw [hp]; rfl)⟩
    · rename_i hp
      simp only at h
      split at h
      · rename_i e pr
        cases h
        exact ⟨wl_of_li_eq (li_buildNow _ _ _ _ _) (wl_afterBlock _ _ _ _), wk, hw, Or.inl (by rw [hp]; rfl)⟩
      · cases h
        exact ⟨wl_of_li_eq (li_buildNow _ _ _ _ _) (wl_sendFinish _ _ _), wk, hw, Or.inr (by rw [hp]; rfl)⟩
    · cases h

end GS.RespLife
