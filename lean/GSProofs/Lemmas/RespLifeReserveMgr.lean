import GSProofs.Lemmas.RespLifeReserveWorker
/-! `WI` through the manager handlers and the remaining actions of `step`. -/
namespace GS.RespLife

theorem wi_execTx_mgr {s : State} (h : WI s) (p : Peer) (id : Id) (ops : List TxOp) :
    WI (execTx s .mgr p id ops).1 := by
  rcases execTx_cases s .mgr p id ops h.1 with ⟨_, hwr⟩ | ⟨_, n, he⟩
  · exact h.wr hwr
  · rw [he]; exact wi_mgr_append h rfl rfl

theorem wi_execTx_eq {s s1 : State} {p : Peer} {id : Id} {ops : List TxOp} {ok : Bool} (h : WI s)
    (hx : execTx s .mgr p id ops = (s1, ok)) : WI s1 := by
  have := wi_execTx_mgr h p id ops
  rw [hx] at this; exact this

theorem wr_terminate (s : State) (id : Id) : WR s (terminate s id) := by
  unfold terminate; split
  · exact WR.refl s
  · exact WR.of_eq rfl rfl

theorem wr_removeTask (s : State) (p : Peer) (id : Id) : WR s (removeTask s p id) := by
  unfold removeTask; simp only; split
  · exact WR.of_eq rfl rfl
  · exact WR.refl s

theorem wr_pushTask (s : State) (p : Peer) (id : Id) (pri : Nat) : WR s (pushTask s p id pri) := by
  unfold pushTask; simp only; split
  · exact WR.refl s
  · split <;> exact WR.of_eq rfl rfl

theorem wr_taskDone (s : State) (p : Peer) (id : Id) : WR s (taskDone s p id) := by
  unfold taskDone; split
  · exact WR.of_eq rfl rfl
  · exact WR.refl s

theorem wi_abortRequest {s : State} (h : WI s) (id : Id) (err : Sig) : WI (abortRequest s id err).1 := by
  unfold abortRequest
  split
  · exact h
  · rename_i r _
    have h1 : WI (removeTask s r.peer id) := h.wr (wr_removeTask s r.peer id)
    simp only
    split
    · exact h1
    · split
      · cases err with
        | ctxCancel => exact h1.wr ((wr_terminate _ id).trans (WR.of_eq rfl rfl))
        | network => exact h1.wr (wr_terminate _ id)
        | cancelCmd =>
          exact wi_execTx_mgr (s := setState (removeTask s r.peer id) id .completing) (h1.wr (WR.of_eq rfl rfl)) _ _ _
      · exact h1.wr (WR.of_eq rfl rfl)

theorem wi_pauseRequest {s : State} (h : WI s) (id : Id) : WI (pauseRequest s id).1 := by
  unfold pauseRequest
  split
  · exact h
  · split
    · exact h
    · split
      · exact h
      · exact h.wr (WR.of_eq rfl rfl)

theorem wi_unpauseFinish {s : State} (h : WI s) (id : Id) : WI (unpauseFinish s id) := by
  unfold unpauseFinish
  split
  · exact h
  · exact h.wr (wr_pushTask _ _ _ _)

theorem wi_unpauseRequest {s : State} (h : WI s) (id : Id) (ext : Bool) : WI (unpauseRequest s id ext).1 := by
  unfold unpauseRequest
  split
  · exact h
  · split
    · exact h
    · have h1 : WI (setState (modAux s id fun a => { a with sigPause := false }) id .queued) :=
        h.wr (WR.of_eq rfl rfl)
      split
      · simp only
        generalize hx : execTx _ Party.mgr _ id [TxOp.ext] = pr
        obtain ⟨s2, ok⟩ := pr
        have h2 : WI s2 := wi_execTx_eq h1 hx
        simp only
        split
        · exact wi_unpauseFinish h2 id
        · exact h2.wr (WR.of_eq rfl rfl)
      · exact wi_unpauseFinish h1 id

theorem wi_procUpdateFinish {s : State} (h : WI s) (id : Id) (plan : UP) : WI (procUpdateFinish s id plan) := by
  unfold procUpdateFinish
  split
  · exact h
  · split
    · exact h.wr (WR.of_eq rfl rfl)
    · split
      · exact wi_unpauseRequest h id false
      · exact h

theorem wi_processUpdate {s : State} (h : WI s) (id : Id) (plan : UP) : WI (processUpdate s id plan) := by
  unfold processUpdate
  split
  · exact h
  · split
    · exact h
    · split
      · exact h.wr (WR.of_eq rfl rfl)
      · simp only
        generalize hx : execTx s Party.mgr _ id _ = pr
        obtain ⟨s1, ok⟩ := pr
        have h1 : WI s1 := wi_execTx_eq h hx
        simp only
        split
        · exact wi_procUpdateFinish h1 id plan
        · exact h1.wr (WR.of_eq rfl rfl)

theorem wi_updateRequest {s : State} (h : WI s) (id : Id) (ext : Bool) : WI (updateRequest s id ext).1 := by
  unfold updateRequest
  split
  · exact h
  · simp only
    generalize hx : execTx s Party.mgr _ id _ = pr
    obtain ⟨s1, ok⟩ := pr
    have h1 : WI s1 := wi_execTx_eq h hx
    simp only
    split
    · exact h1
    · exact h1.wr (WR.of_eq rfl rfl)

theorem wi_newReqFinish {s : State} (h : WI s) (p : Peer) (id : Id) (cfg : ReqCfg) : WI (newReqFinish s p id cfg) := by
  unfold newReqFinish
  split
  · exact h.wr (WR.of_eq rfl rfl)
  · exact h.wr (WR.of_eq rfl rfl)
  · exact h.wr (WR.of_eq rfl rfl)
  · exact h.wr ((wr_pushTask s p id cfg.pri).trans (WR.of_eq rfl rfl))

theorem wi_newRequest {s : State} (h : WI s) (p : Peer) (id : Id) (cfg : ReqCfg) : WI (newRequest s p id cfg) := by
  unfold newRequest
  simp only
  have h0 : WI (openStream (protect s p id) id) := h.wr (WR.of_eq rfl rfl)
  generalize openStream (protect s p id) id = s2 at h0
  generalize hx : execTx s2 Party.mgr p id (prepareOps cfg.hook) = pr
  obtain ⟨s3, ok⟩ := pr
  have h3 : WI s3 := wi_execTx_eq h0 hx
  simp only
  split
  · exact wi_newReqFinish h3 p id cfg
  · exact h3.wr (WR.of_eq rfl rfl)

theorem noEntry_wr {s s' : State} {w : Nat} (h : noEntry s w) (hr : WR s s') : noEntry s' w :=
  fun x hx => h x (hr.1.subset hx)

theorem wi_startTask {s : State} (h : WI s) (w : Nat) (hn : noEntry s w) : WI (startTask s w) := by
  unfold startTask
  split
  · exact h
  · rename_i wk _
    have ht := wr_taskDone s wk.peer wk.id
    split
    · exact (h.wr ht).wr (wr_setPhase _ w _ (noEntry_wr hn ht))
    · rename_i r _
      split
      · exact (h.wr ht).wr (wr_setPhase _ w _ (noEntry_wr hn ht))
      · simp only
        split
        · exact WI.wr (s := setState (modAux s r.id _) r.id .running) (h.wr (WR.of_eq rfl rfl)) (wr_setWorker _ w _ hn)
        · exact WI.wr (s := setState (modAux (emit s (.proc r.id)) r.id _) r.id .running) (h.wr (WR.of_eq rfl rfl))
            (wr_setWorker _ w _ hn)

theorem wi_getUpdates {s : State} (h : WI s) (w : Nat) : WI (getUpdates s w) := by
  unfold getUpdates
  split
  · exact h
  · rename_i wk hw
    split
    · rename_i ops present hph
      have hn : noEntry s w := by
        intro x hx hp
        obtain ⟨wk', o, kk, h1, h2⟩ := h.2 x hx w hp
        unfold workerOf at hw
        rw [hw] at h1; cases h1
        rw [hph] at h2; cases h2
      split
      · exact h.wr (wr_setPhase s w _ hn)
      · exact WI.wr (s := modAux s _ _) (h.wr (WR.of_eq rfl rfl)) (wr_setPhase _ w _ hn)
    · exact h

theorem wi_finishTask {s : State} (h : WI s) (w : Nat) (err : Option WErr) (hn : noEntry s w) :
    WI (finishTask s w err) := by
  unfold finishTask
  split
  · exact h
  · rename_i wk _
    have ht := wr_taskDone s wk.peer wk.id
    have h1 : WI (setPhase (taskDone s wk.peer wk.id) w .done) :=
      (h.wr ht).wr (wr_setPhase _ w _ (noEntry_wr hn ht))
    simp only
    split
    · exact h1
    · split
      · split
        · exact h1.wr (wr_pushTask _ _ _ _)
        · exact h1
      · split
        · exact h1.wr (wr_terminate _ _)
        · split
          · exact h1.wr (WR.of_eq rfl rfl)
          · split
            · exact h1.wr ((WR.of_eq (s' := emit _ _) rfl rfl).trans (wr_terminate _ _))
            · split
              · exact h1.wr (wr_terminate _ _)
              · exact h1.wr (WR.of_eq rfl rfl)

theorem wi_handle {s : State} (h : WI s) (m : Msg)
    (hs : ∀ w, m = .startTask w → noEntry s w) (hf : ∀ w e, m = .finishTask w e → noEntry s w) :
    WI (handle s m) := by
  cases m with
  | processRequests p r =>
    show WI (if foreign s p r.id = true then s else processRequest s p r)
    split
    · exact h
    · cases r with
      | new id cfg => exact wi_newRequest h p id cfg
      | cancel id => exact wi_abortRequest h id .ctxCancel
      | update id plan => exact wi_processUpdate h id plan
  | api c =>
    cases c with
    | pause id =>
      show WI (emit (pauseRequest s id).1 _)
      exact (wi_pauseRequest h id).wr (WR.of_eq rfl rfl)
    | unpause id ext =>
      show WI (if (unpauseRequest s id ext).2.2 = true then (unpauseRequest s id ext).1
        else emit (unpauseRequest s id ext).1 _)
      split
      · exact wi_unpauseRequest h id ext
      · exact (wi_unpauseRequest h id ext).wr (WR.of_eq rfl rfl)
    | cancel id =>
      show WI (emit (abortRequest s id .cancelCmd).1 _)
      exact (wi_abortRequest h id .cancelCmd).wr (WR.of_eq rfl rfl)
    | update id ext =>
      show WI (if (updateRequest s id ext).2.2 = true then (updateRequest s id ext).1
        else emit (updateRequest s id ext).1 _)
      split
      · exact wi_updateRequest h id ext
      · exact (wi_updateRequest h id ext).wr (WR.of_eq rfl rfl)
  | startTask w => exact wi_startTask h w (hs w rfl)
  | getUpdates w => exact wi_getUpdates h w
  | finishTask w err => exact wi_finishTask h w err (hf w err rfl)
  | closeNetErr id inc pub =>
    have h1 := wi_abortRequest h id .network
    rw [handle_closeNetErr]
    split
    · split
      · exact h1.wr (WR.of_eq rfl rfl)
      · exact h1.wr (WR.of_eq rfl rfl)
    · exact h.wr (WR.of_eq rfl rfl)
  | terminate id inc pub =>
    rw [handle_terminate]
    refine WI.wr ?_ (WR.of_eq (s' := clearPubWait _ pub) rfl rfl)
    split
    · exact h.wr (wr_terminate s id)
    · exact h

theorem wi_resumeMgr {s : State} (h : WI s) (pk : MgrPark) : WI (resumeMgr s pk) := by
  have h0 : WI { s with park := none } := h
  have h1 : WI (buildNow { s with park := none } .mgr pk.peer pk.id pk.ops) :=
    h0.wr (wr_buildNow { s with park := none } .mgr pk.peer pk.id pk.ops h0.1)
  unfold resumeMgr
  simp only
  split
  · exact wi_newReqFinish h1 _ _ _
  · exact wi_procUpdateFinish h1 _ _
  · exact (wi_unpauseFinish h1 _).wr (WR.of_eq rfl rfl)
  · exact h1.wr (WR.of_eq rfl rfl)

end GS.RespLife
