package main

import (
	"os"

	"verifharness/panics"
	"verifharness/reg"
)

func main() {
	// fault injections run in subprocesses: `gs-panics child <side> <kind> <block> <n> <pre> <ls>`
	if len(os.Args) > 1 && os.Args[1] == "child" {
		panics.ChildMain(os.Args[2:])
		return
	}
	reg.Main("panics")
}
