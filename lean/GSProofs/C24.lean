import GS.Model.Requestor
import GSProofs.Lemmas.RequestorLocal
import GSProofs.C01
import GSProofs.C19
import GS.Model.Responder
import GSProofs.Lemmas.LoaderReplay
/-!
# C24 — Requestor avoids unnecessary traffic

> A requestor that already holds every block a traversal needs completes the request without
> sending anything to the network.  Otherwise it asks the responder to skip exactly as many leading
> blocks as it has already loaded locally, and the responder never transmits a block it was told to
> skip or has already transmitted within that request.

Requestor side: theorems about `Requestor.exchange` (model `GS/Model/Requestor.lean` on top of
`GS/Model/Loader.lean`, correspondence streams `requestor` / `loader`), for every link tree (any
pre-order list of nodes with depths), every local store, every user-supplied skip value and every
list of messages.  Responder side: `no_resend` is the send decision of
`peerLinkTracker.RecordLinkTraversal`, a corollary of `C19.send_iff_partial` (model
`GS/Model/LinkTracker.lean`, correspondence stream `linktrack`).
-/
namespace GS.C24
open GS.Loader GS.Requestor

/-- the local store holds the block of every node of the link tree -/
def Covers (st : List (Cid × Blk)) (lt : LT) : Prop := ∀ n ∈ lt, has st n = true

theorem request_local (st : List (Cid × Blk)) (lt : LT) (u : Nat) :
    LocalSt ({ L := { store := st }, todo := lt, phase := .running, userSkip := u } : Requestor.State) :=
  ⟨⟨rfl, rfl, rfl⟩, rfl, rfl, rfl⟩

theorem drive_done (f : Nat) (s : Requestor.State) (h : LocalSt s) (ht : s.todo = []) :
    drive (f + 1) s = ({ s with phase := .finished, L := Loader.cleanup s.L }, []) := by
  rw [drive_succ, if_neg (by simp [h.running])]
  simp [ht, finish, h.noTerm]

/-- **C24.silent.**  If the local store covers the traversal, the request completes without a
    single message to the network — no request, no cancel — whatever arrives meanwhile; every node
    of the link tree is delivered from the local store, in order, and nothing is written. -/
theorem silent (st : List (Cid × Blk)) (lt : LT) (u : Nat) (msgs : List Msg) (h : Covers st lt) :
    sentNews (exchange st lt u msgs).2 = [] ∧ sentCancels (exchange st lt u msgs).2 = 0 ∧
    (exchange st lt u msgs).1.phase = .finished ∧
    (exchange st lt u msgs).2 = localEvs lt 0 := by
  have hl := request_local st lt u
  obtain ⟨s', hl', htd', _, _, _, hdr⟩ :=
    drive_local lt [] 2 _ hl (by simp) (by simpa [Covers] using h)
  have hreq : request { L := { store := st } } lt u =
      ({ s' with phase := .finished, L := Loader.cleanup s'.L }, localEvs lt 0) := by
    unfold request fuelFor
    dsimp only
    rw [hdr, drive_done 1 s' hl' htd']
    simp
  unfold exchange
  rw [hreq]
  dsimp only
  rw [feed_finished msgs _ rfl]
  simp [sentNews_localEvs, sentCancels_localEvs]

/-- **C24.skip.**  If the traversal first misses a block at node `n` after loading the nodes `pre`
    from the local store, exactly one new-request message is sent during the whole exchange — at
    that moment — and its do-not-send-first-blocks value is `max(user value, |pre|)`: the number of
    blocks already loaded locally, unless the caller asked for more. -/
theorem skip (st : List (Cid × Blk)) (pre : List LNode) (n : LNode) (post : LT) (u : Nat)
    (msgs : List Msg) (hpre : ∀ m ∈ pre, has st m = true) (hn : has st n = false) :
    sentNews (exchange st (pre ++ n :: post) u msgs).2 = [max u pre.length] := by
  have hl := request_local st (pre ++ n :: post) u
  have hfm := drive_firstMiss pre n post (post.length + 2) _ hl rfl hpre hn
  have hfuel : fuelFor ({ L := { store := st }, todo := pre ++ n :: post, phase := .running, userSkip := u } : Requestor.State)
      = pre.length + (post.length + 2 + 1) := by
    simp [fuelFor]; omega
  unfold exchange request
  dsimp only
  rw [hfuel]
  generalize drive _ _ = dr at hfm
  obtain ⟨s1, e1⟩ := dr
  simp only at hfm
  have hf := feed_sent msgs s1 hfm.2
  dsimp only
  generalize feed s1 msgs = ff at hf
  obtain ⟨s2, e2⟩ := ff
  simp only at hf
  simp [sentNews_append, hfm.1, hf.1]

theorem mem_takeWhile_true {α : Type} (p : α → Bool) (l : List α) (x : α) (h : x ∈ l.takeWhile p) :
    p x = true := by
  induction l with
  | nil => simp at h
  | cons a rest ih =>
    simp only [List.takeWhile_cons] at h
    split at h
    · simp only [List.mem_cons] at h
      rcases h with rfl | h
      · assumption
      · exact ih h
    · simp at h

/-- `skip` in terms of the local store alone: the longest locally held prefix of the traversal -/
theorem skip_takeWhile (st : List (Cid × Blk)) (lt : LT) (u : Nat) (msgs : List Msg)
    (h : ¬ Covers st lt) :
    sentNews (exchange st lt u msgs).2 = [max u (lt.takeWhile (has st)).length] := by
  have hsplit := List.takeWhile_append_dropWhile (p := has st) (l := lt)
  cases hd : lt.dropWhile (has st) with
  | nil =>
    exfalso
    apply h
    intro n hn
    rw [hd, List.append_nil] at hsplit
    rw [← hsplit] at hn
    exact mem_takeWhile_true _ _ _ hn
  | cons n post =>
    have hn : has st n = false := by
      have := List.head_dropWhile_not (has st) (l := lt) (by rw [hd]; simp)
      simpa [hd] using this
    rw [hd] at hsplit
    have := skip st (lt.takeWhile (has st)) n post u msgs (fun m hm => mem_takeWhile_true _ _ _ hm) hn
    rw [hsplit] at this
    exact this

/-- **C24.no_resend** (responder side).  After any well-formed history of one peer's link tracker, if
    `RecordLinkTraversal` for request `r` and link `l` says "send the block" with index `i`, then
    `i` is the number of links `r` reported so far plus one, `i` exceeds the request's
    do-not-send-first-blocks value, and `r` has not reported `l` with its block before — so no block
    within the skipped prefix is transmitted and none is transmitted twice within the request. -/
theorem no_resend (h : List GS.LinkTrack.Op) (hwf : GS.LinkTrack.WF h) (r : GS.LinkTrack.Req)
    (l : GS.LinkTrack.Link) (b : Bool) (i : Nat)
    (hs : (GS.LinkTrack.step (GS.LinkTrack.run h).1 (.trav r l b)).2 = .sent true i) :
    i = GS.LinkTrack.travCount r h + 1 ∧ GS.LinkTrack.skipOf r h < (i : Int) ∧
    l ∉ GS.LinkTrack.withBlock r h := by
  obtain ⟨s, h1, h2⟩ := GS.C19.send_iff_partial h hwf r l b
  rw [h1] at hs
  simp only [GS.LinkTrack.Out.sent.injEq] at hs
  obtain ⟨hs1, hs2⟩ := hs
  have := h2.1 hs1
  subst hs2
  exact ⟨rfl, this.2.1, this.2.2 r rfl⟩

/-! ## sentences 2 and 3 joined: the responder's block attachment under the requested skip value

`Responder.attach skip excluded i seen es` is the block attachment of `respondSpec` (to which the
operational responder is proved equal for every batching: `C03.refines`): entry number `i+1, i+2, …`
of the responder's own traversal `es` carries its block iff present ∧ index > skip ∧ not excluded ∧
not traversed earlier by this request. -/

open GS.Responder in
theorem attach_append (skip : Int) (ex : GS.Responder.Cid → Bool) (es1 : List (GS.Responder.Cid × Bool)) :
    ∀ (i : Nat) (seen : List GS.Responder.Cid) (es2 : List (GS.Responder.Cid × Bool)),
    attach skip ex i seen (es1 ++ es2) =
      attach skip ex i seen es1 ++
      attach skip ex (i + es1.length) (es1.foldl (fun sn e => if e.2 then e.1 :: sn else sn) seen) es2 := by
  induction es1 with
  | nil => intro i seen es2; simp [attach]
  | cons e rest ih =>
    intro i seen es2
    obtain ⟨c, pres⟩ := e
    simp only [List.cons_append, attach, List.length_cons, List.foldl_cons]
    rw [ih]
    have : i + 1 + rest.length = i + (rest.length + 1) := by omega
    rw [this]

open GS.Responder in
/-- inside the skip window no block is attached -/
theorem attach_window (skip : Int) (ex : GS.Responder.Cid → Bool) (es : List (GS.Responder.Cid × Bool)) :
    ∀ (i : Nat) (seen : List GS.Responder.Cid), ((i + es.length : Nat) : Int) ≤ skip →
    ∀ it ∈ attach skip ex i seen es, it.block = false := by
  induction es with
  | nil => intro i seen _ it hit; simp [attach] at hit
  | cons e rest ih =>
    intro i seen hle it hit
    obtain ⟨c, pres⟩ := e
    simp only [attach, List.mem_cons] at hit
    simp only [List.length_cons] at hle
    rcases hit with rfl | hit
    · have : ¬ (skip < ((i + 1 : Nat) : Int)) := by omega
      simp only [decide_eq_false this, Bool.and_false, Bool.false_and]
    · exact ih (i + 1) _ (by omega) it hit

open GS.Responder in
/-- an attached block was not traversed earlier by the request -/
theorem attach_fresh (skip : Int) (ex : GS.Responder.Cid → Bool) (es : List (GS.Responder.Cid × Bool)) :
    ∀ (i : Nat) (seen : List GS.Responder.Cid), ∀ it ∈ attach skip ex i seen es, it.block = true →
      seen.contains it.cid = false := by
  induction es with
  | nil => intro i seen it hit; simp [attach] at hit
  | cons e rest ih =>
    intro i seen it hit hb
    obtain ⟨c, pres⟩ := e
    simp only [attach, List.mem_cons] at hit
    rcases hit with rfl | hit
    · simp only [Bool.and_eq_true, Bool.not_eq_true'] at hb
      exact hb.2
    · have := ih (i + 1) _ it hit hb
      cases pres with
      | true =>
        simp only [if_true, List.contains_cons, Bool.or_eq_false_iff] at this
        exact this.2
      | false => simpa using this

open GS.Responder in
/-- no block is attached twice -/
theorem attach_nodup (skip : Int) (ex : GS.Responder.Cid → Bool) (es : List (GS.Responder.Cid × Bool)) :
    ∀ (i : Nat) (seen : List GS.Responder.Cid),
    (((attach skip ex i seen es).filter (fun it => it.block)).map (fun it => it.cid)).Nodup := by
  induction es with
  | nil => intro i seen; simp [attach]
  | cons e rest ih =>
    intro i seen
    obtain ⟨c, pres⟩ := e
    simp only [attach]
    by_cases hb : (pres && decide (skip < ((i + 1 : Nat) : Int)) && !ex c && !seen.contains c) = true
    · simp only [List.filter_cons, hb, if_true, List.map_cons, List.nodup_cons]
      refine ⟨?_, ih (i + 1) _⟩
      intro hmem
      simp only [List.mem_map, List.mem_filter] at hmem
      obtain ⟨it, ⟨hit, hbi⟩, hc⟩ := hmem
      have hp : pres = true := by
        simp only [Bool.and_eq_true] at hb; exact hb.1.1.1
      have := attach_fresh skip ex rest (i + 1) _ it hit hbi
      rw [hp, hc] at this
      simp at this
    · simp only [List.filter_cons, hb]
      exact ih (i + 1) _

open GS.Responder in
theorem foldl_seen_contains (pre : List (GS.Responder.Cid × Bool)) (hp : ∀ e ∈ pre, e.2 = true) (seen : List GS.Responder.Cid) (c : GS.Responder.Cid)
    (hc : c ∈ pre.map (fun e => e.1) ∨ seen.contains c = true) :
    (pre.foldl (fun sn e => if e.2 then e.1 :: sn else sn) seen).contains c = true := by
  induction pre generalizing seen with
  | nil =>
    rcases hc with h | h
    · simp at h
    · simpa using h
  | cons e rest ih =>
    simp only [List.foldl_cons]
    have he : e.2 = true := hp e (List.mem_cons_self ..)
    simp only [he, if_true]
    apply ih (fun e' he' => hp e' (List.mem_cons_of_mem _ he'))
    rcases hc with h | h
    · simp only [List.map_cons, List.mem_cons] at h
      rcases h with rfl | h
      · right; simp
      · left; exact h
    · right
      simp only [List.contains_cons, h, Bool.or_true]

open GS.Responder in
/-- **C24, sentences 2 and 3 for an honest prefix.**  Suppose the first `N` links of the responder's
    own traversal are present (the responder holds every block of the prefix the requestor loaded
    locally, so its traversal starts with exactly that prefix) and the request asks to skip at least
    `N` blocks (`C24.skip`: the requestor asks for `max(user value, N)`).  Then, in the response
    `respondSpec` (= the real responder's output for every batching, `C03.refines`):
    no block of that prefix is transmitted, and no block is transmitted twice. -/
theorem honest_prefix_no_resend (t : GS.Responder.LT) (has : GS.Responder.Cid → Bool) (w : Want) (inUse : GS.Responder.Cid → Bool)
    (pre post : List (GS.Responder.Cid × Bool)) (hes : t.visit has = pre ++ post)
    (hpre : ∀ e ∈ pre, e.2 = true) (hskip : (pre.length : Int) ≤ w.skip) :
    (∀ it ∈ (respondSpec t has w inUse).1, it.block = true → it.cid ∉ pre.map (fun e => e.1)) ∧
    (((respondSpec t has w inUse).1.filter (fun it => it.block)).map (fun it => it.cid)).Nodup := by
  refine ⟨?_, attach_nodup _ _ _ 0 []⟩
  intro it hit hb hmem
  simp only [respondSpec, hes] at hit
  rw [attach_append] at hit
  simp only [List.mem_append] at hit
  rcases hit with hit | hit
  · have := attach_window w.skip _ pre 0 [] (by simpa using hskip) it hit
    rw [this] at hb; cases hb
  · have hf := attach_fresh w.skip _ post _ _ it hit hb
    have := foldl_seen_contains pre hpre [] it.cid (Or.inl hmem)
    rw [this] at hf; cases hf

/-! ## sentences 2 and 3 joined at the exchange level

`respItemsW rem lt [] w` is the honest response for skip value `w` on the pre-order link tree
(= `Responder.respondSpec` with `skip = w`: `C02.honest_response_is_spec`).  The requestor's skip
value is the length of ITS local prefix `lt.takeWhile (has loc)` (`skip_takeWhile`); the window of the
response is that same number. -/

/-- the links of the response that carry a block -/
def sentBlocks (items : List Item) : List Cid :=
  (items.filter (fun it => it.block.isSome)).map (fun it => it.link)

theorem respItemsW_prefix (rem : Cid → Bool) (pre : List LNode) (hp : ∀ m ∈ pre, rem m.cid = true) :
    ∀ (tl : LT) (seen : List Cid) (w : Nat), pre.length ≤ w →
    ∃ front, respItemsW rem (pre ++ tl) seen w =
        front ++ respItemsW rem tl ((pre.map (·.cid)).reverse ++ seen) (w - pre.length) ∧
      ∀ it ∈ front, it.block = none := by
  induction pre with
  | nil => intro tl seen w _; exact ⟨[], by simp, by simp⟩
  | cons n rest ih =>
    intro tl seen w hw
    simp only [List.length_cons] at hw
    have hn : rem n.cid = true := hp n (List.mem_cons_self ..)
    obtain ⟨front, hf, hb⟩ := ih (fun m hm => hp m (List.mem_cons_of_mem _ hm)) tl (n.cid :: seen) (w - 1) (by omega)
    refine ⟨⟨n.cid, .present, none⟩ :: front, ?_, ?_⟩
    · rw [List.cons_append, respItemsW]
      simp only [hn, if_true]
      have hw0 : decide (0 < w) = true := by simp; omega
      simp only [hw0, Bool.true_or, if_true]
      rw [hf]
      simp only [List.map_cons, List.reverse_cons, List.append_assoc, List.cons_append, List.nil_append, List.length_cons]
      have : w - 1 - rest.length = w - (rest.length + 1) := by omega
      rw [this]
    · intro it hit
      simp only [List.mem_cons] at hit
      rcases hit with rfl | hit
      · rfl
      · exact hb it hit

theorem respItemsW_sent_nodup (rem : Cid → Bool) : ∀ (k : Nat) (lt : LT), lt.length ≤ k → ∀ (seen : List Cid) (w : Nat),
    (sentBlocks (respItemsW rem lt seen w)).Nodup ∧
    ∀ c ∈ sentBlocks (respItemsW rem lt seen w), seen.contains c = false := by
  intro k
  induction k with
  | zero =>
    intro lt hl seen w
    cases lt with
    | nil => rw [respItemsW]; simp [sentBlocks]
    | cons n rest => simp at hl
  | succ k ih =>
    intro lt hl seen w
    cases lt with
    | nil => rw [respItemsW]; simp [sentBlocks]
    | cons n rest =>
      simp only [List.length_cons] at hl
      rw [respItemsW]
      split
      · have hrec := ih rest (by omega) (n.cid :: seen) (w - 1)
        by_cases hb : (decide (0 < w) || seen.contains n.cid) = true
        · simp only [hb, if_true, sentBlocks, List.filter_cons, Option.isSome_none, Bool.false_eq_true, if_false]
          refine ⟨hrec.1, fun c hc => ?_⟩
          have := hrec.2 c hc
          simp only [List.contains_cons, Bool.or_eq_false_iff] at this
          exact this.2
        · simp only [hb, Bool.false_eq_true, if_false, sentBlocks, List.filter_cons, Option.isSome_some, if_true,
            List.map_cons, List.nodup_cons]
          have hns : seen.contains n.cid = false := by
            simp only [Bool.or_eq_true, not_or, Bool.not_eq_true] at hb; exact hb.2
          refine ⟨⟨fun hmem => ?_, hrec.1⟩, fun c hc => ?_⟩
          · have := hrec.2 n.cid hmem
            simp at this
          · simp only [List.mem_cons] at hc
            rcases hc with rfl | hc
            · exact hns
            · have := hrec.2 c hc
              simp only [List.contains_cons, Bool.or_eq_false_iff] at this
              exact this.2
      · have hrec := ih (skipSub n rest) (by have := skipSub_length n rest; omega) seen (w - 1)
        simpa [sentBlocks] using hrec

/-- **C24, sentences 2 and 3 at the exchange level.**  Let the requestor's local store not cover the
    traversal and let `pre` be the prefix it loads locally.  Then
    (a) whatever arrives, it sends exactly one request, asking to skip `|pre|` blocks;
    (b) in the honest response to that request (window `|pre|`) no block is transmitted twice; and
    (c) if the responder holds every block of `pre` (its own first `|pre|` links are then exactly that
        prefix), no block of the prefix is transmitted.
    Outside (c) a prefix block can be transmitted: `resend_counterexample` (known finding
    `skip-prefix-mismatch-resend`). -/
theorem exchange_no_resend (rem : Cid → Bool) (loc : List (Cid × Blk)) (lt : LT) (msgs : List Msg)
    (h : ¬ Covers loc lt) :
    let pre := lt.takeWhile (has loc)
    sentNews (exchange loc lt 0 msgs).2 = [pre.length] ∧
    (sentBlocks (respItemsW rem lt [] pre.length)).Nodup ∧
    ((∀ m ∈ pre, rem m.cid = true) →
      ∀ c ∈ sentBlocks (respItemsW rem lt [] pre.length), c ∉ pre.map (·.cid)) := by
  intro pre
  refine ⟨by simpa using skip_takeWhile loc lt 0 msgs h, (respItemsW_sent_nodup rem lt.length lt (Nat.le_refl _) [] _).1, ?_⟩
  intro hrem c hc hmem
  have hsplit : lt = pre ++ lt.dropWhile (has loc) := List.takeWhile_append_dropWhile.symm
  obtain ⟨front, hf, hb⟩ := respItemsW_prefix rem pre hrem (lt.dropWhile (has loc)) [] pre.length (Nat.le_refl _)
  rw [hsplit, hf] at hc
  simp only [sentBlocks, List.filter_append, List.map_append, List.mem_append] at hc
  rcases hc with hc | hc
  · simp only [List.mem_map, List.mem_filter] at hc
    obtain ⟨it, ⟨hit, hsome⟩, _⟩ := hc
    rw [hb it hit] at hsome; cases hsome
  · have := (respItemsW_sent_nodup rem _ _ (Nat.le_refl _) ((pre.map (·.cid)).reverse ++ []) (pre.length - pre.length)).2 c hc
    simp only [List.append_nil, List.contains_eq_mem, List.mem_reverse, decide_eq_false_iff_not] at this
    exact this hmem

/-- example for `exchange_no_resend` (c): local prefix 3, 2 held by both sides; the response skips
    them and sends 1 and 0 once each -/
example :
    let lt : LT := [⟨3, [], 0, 1, 0⟩, ⟨2, [0], 1, 1, 0⟩, ⟨1, [1], 1, 1, 0⟩, ⟨0, [1, 0], 2, 1, 0⟩, ⟨0, [2], 1, 1, 0⟩]
    let loc : List (Cid × Blk) := [(3, 3), (2, 2)]
    lt.takeWhile (has loc) = [⟨3, [], 0, 1, 0⟩, ⟨2, [0], 1, 1, 0⟩] ∧
    sentNews (exchange loc lt 0 []).2 = [2] ∧
    sentBlocks (respItemsW (fun _ => true) lt [] 2) = [1, 0] := by
  refine ⟨by decide, by decide, ?_⟩
  simp [respItemsW, sentBlocks]

/-- **Known finding `skip-prefix-mismatch-resend`** (C24 read strictly: "the responder never
    transmits a block the requestor asked it to skip").  The requestor loads 3, 2, 0 from its own
    store and asks to skip 3 blocks; a responder that lacks 2 traverses 3, 2 (missing), 1, 0: its
    skip window is 3, 2, 1, and block 0 — which the requestor has loaded — is sent with index 4.
    Both halves are evaluations of the two models (requestor; link tracker). -/
theorem resend_counterexample :
    (let lt : LT := [⟨3, [], 0, 2, 0⟩, ⟨2, [0, 1], 1, 1, 1⟩, ⟨0, [0, 1, 2], 2, 3, 2⟩, ⟨1, [3], 1, 1, 0⟩, ⟨0, [3, 2], 2, 2, 1⟩]
     let evs := (exchange [(0, 0), (2, 2), (3, 3)] lt 0 []).2
     sentNews evs = [3] ∧ GS.C01.blocksOf evs = [(3, []), (2, [0, 1]), (0, [0, 1, 2])]) ∧
    (GS.LinkTrack.step (GS.LinkTrack.run [.skip 7 3, .trav 7 3 true, .trav 7 2 false, .trav 7 1 true]).1
        (.trav 7 0 true)).2 = .sent true 4 := by decide

/-- non-vacuity of `silent` -/
example : Covers [(9, 9), (2, 2)] [⟨9, [], 0, 2, 0⟩, ⟨2, [0], 1, 1, 1⟩] := by
  intro n hn; simp at hn; rcases hn with rfl | rfl <;> decide

/-- non-vacuity of `skip`: the requestor holds the root and one child, the user asks for nothing -/
example :
    sentNews (exchange [(9, 9), (2, 2)] [⟨9, [], 0, 2, 0⟩, ⟨2, [0], 1, 1, 1⟩, ⟨3, [1], 1, 1, 0⟩] 0 []).2 = [2] := by
  decide

end GS.C24
