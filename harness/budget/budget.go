// Package budget drives the real ipldutil.TraversalBuilder with a link budget (component "budget",
// property C07) over generated DAGs and selectors, block by block, through a counting store, and
// holds the independent oracle for C07.
//
// ops:
//
//	dag <seed> <maxBlocks> <flags> <gen|matcher>   -> ok       (regenerates DAG + selector; see harness/dag)
//	trav <N|-> <held|*|-> <LT>                      -> loads=<n> out=<ok|budget|rootmissing|…> seq=<blocks>
//	      N: LinkBudget handed to the TraversalBuilder (- = no budget); held: blocks in the store;
//	      LT: link tree of DAG+selector over the complete store, prefix form `<block> <nkids> kid*`
//	      (computed by the independent reference traversal, consumed by the Lean model)
package budget

import (
	"bufio"
	"bytes"
	"context"
	"errors"
	"fmt"
	"math"
	"math/rand"
	"strconv"
	"strings"
	"time"

	"github.com/ipfs/go-cid"
	"github.com/ipld/go-ipld-prime/datamodel"
	"github.com/ipld/go-ipld-prime/linking"
	cidlink "github.com/ipld/go-ipld-prime/linking/cid"
	"github.com/ipld/go-ipld-prime/node/basicnode"
	"github.com/ipld/go-ipld-prime/traversal"
	"github.com/ipld/go-ipld-prime/traversal/selector/builder"

	"github.com/ipfs/go-graphsync/ipldutil"

	"verifharness/dag"
	"verifharness/reg"
)

func init() {
	reg.Register(&reg.Component{Name: "budget", Gen: Gen, Run: Run})
}

// ---------------------------------------------------------------- DAG + selector from the `dag` line

type World struct {
	D       *dag.DAG
	Sel     datamodel.Node
	SelName string
}

func optsFromFlags(maxBlocks int, flags string) dag.GenOpts {
	return dag.GenOpts{
		MaxBlocks:   maxBlocks,
		Inline:      strings.Contains(flags, "I"),
		Shared:      strings.Contains(flags, "S"),
		Raw:         strings.Contains(flags, "R"),
		IdentityCid: strings.Contains(flags, "D"),
		EmptyRaw:    strings.Contains(flags, "E"),
	}
}

// BuildWorld regenerates DAG and selector from the numbers on the `dag` line.
func BuildWorld(op []string) (*World, error) {
	if len(op) != 5 || op[0] != "dag" {
		return nil, errors.New("bad dag line")
	}
	seed, e1 := strconv.ParseInt(op[1], 10, 64)
	mb, e2 := strconv.Atoi(op[2])
	if e1 != nil || e2 != nil || mb < 1 || mb > 64 {
		return nil, errors.New("bad dag line")
	}
	r := rand.New(rand.NewSource(seed))
	w := &World{D: dag.Gen(r, optsFromFlags(mb, op[3]))}
	switch op[4] {
	case "gen":
		w.SelName, w.Sel = dag.GenSelector(r)
	case "matcher":
		w.SelName, w.Sel = "matcher", builder.NewSelectorSpecBuilder(basicnode.Prototype.Any).Matcher().Node()
	default:
		return nil, errors.New("bad selector kind")
	}
	return w, nil
}

// FormatLT: prefix form `<block> <nkids> kid*` of a link tree given in pre-order with parent indices
func FormatLT(lt *dag.LT) string {
	kids := make([][]int, len(lt.Loads))
	for i, l := range lt.Loads {
		if l.Parent >= 0 {
			kids[l.Parent] = append(kids[l.Parent], i)
		}
	}
	var sb strings.Builder
	var rec func(i int)
	rec = func(i int) {
		fmt.Fprintf(&sb, "%d %d ", lt.Loads[i].Block, len(kids[i]))
		for _, k := range kids[i] {
			rec(k)
		}
	}
	if len(lt.Loads) > 0 {
		rec(0)
	}
	return strings.TrimSpace(sb.String())
}

// ParseHeld: `*` all, `-` none, else comma separated block numbers
func ParseHeld(d *dag.DAG, s string) (func(cid.Cid) bool, bool) {
	switch s {
	case "*":
		return func(cid.Cid) bool { return true }, true
	case "-":
		return func(cid.Cid) bool { return false }, true
	}
	set := map[int]bool{}
	for _, p := range strings.Split(s, ",") {
		i, err := strconv.Atoi(p)
		if err != nil {
			return nil, false
		}
		set[i] = true
	}
	return func(c cid.Cid) bool { return set[d.Index(c)] }, true
}

// ---------------------------------------------------------------- the real traversal, driven block by block

type Outcome struct {
	Loads []int  // block numbers in the order the traverser asked for them
	Out   string // ok | budget | rootmissing | error:<…>
}

// Drive runs the real ipldutil traverser; budget < 0 = no budget (nil).
func Drive(w *World, have func(cid.Cid) bool, budget *int64) Outcome {
	ctx, cancel := context.WithTimeout(context.Background(), 20*time.Second)
	defer cancel()
	ls := cidlink.DefaultLinkSystem()
	ls.TrustedStorage = true
	tb := ipldutil.TraversalBuilder{
		Root:       cidlink.Link{Cid: w.D.Root},
		Selector:   w.Sel,
		LinkSystem: ls,
		Chooser: func(datamodel.Link, linking.LinkContext) (datamodel.NodePrototype, error) {
			return basicnode.Prototype.Any, nil
		},
	}
	if budget != nil {
		tb.Budget = &traversal.Budget{NodeBudget: math.MaxInt64, LinkBudget: *budget}
	}
	tr := tb.Start(ctx)
	defer tr.Shutdown(context.Background())
	var o Outcome
	for steps := 0; ; steps++ {
		done, err := tr.IsComplete()
		if done {
			var be *traversal.ErrBudgetExceeded
			switch {
			case err == nil:
				o.Out = "ok"
			case errors.As(err, &be):
				o.Out = "budget"
			case len(o.Loads) == 1 && !have(w.D.Root) && isSkip(err):
				o.Out = "rootmissing"
			default:
				o.Out = "error:" + strings.ReplaceAll(err.Error(), " ", "_")
			}
			return o
		}
		if steps > 100000 {
			o.Out = "error:runaway"
			return o
		}
		lnk, _ := tr.CurrentRequest()
		c := lnk.(cidlink.Link).Cid
		o.Loads = append(o.Loads, w.D.Index(c))
		if have(c) {
			if err := tr.Advance(bytes.NewReader(w.D.Data[c])); err != nil {
				o.Out = "error:advance"
				return o
			}
		} else {
			tr.Error(traversal.SkipMe{})
		}
	}
}

func isSkip(err error) bool {
	var s traversal.SkipMe
	return errors.As(err, &s) || strings.Contains(err.Error(), "skip")
}

func seqString(xs []int) string {
	if len(xs) == 0 {
		return "-"
	}
	ss := make([]string, len(xs))
	for i, x := range xs {
		ss[i] = strconv.Itoa(x)
	}
	return strings.Join(ss, ",")
}

// ---------------------------------------------------------------- oracle (from the property text)

// Judge compares the loads of a budgeted run with the reference (unbudgeted, independent) loads.
// N >= 1.  Classes: cap / enough / exact.
func Judge(out *reg.Out, where string, n uint64, ref []int, got []int, exceeded bool) {
	need := uint64(len(ref))
	if uint64(len(got)) > n {
		out.Fail("cap", "%s: budget %d but %d blocks loaded", where, n, len(got))
	}
	prefix := func(k int) bool {
		if len(got) != k || k > len(ref) {
			return false
		}
		for i := 0; i < k; i++ {
			if got[i] != ref[i] {
				return false
			}
		}
		return true
	}
	if need <= n {
		if exceeded {
			out.Fail("enough", "%s: traversal needs %d blocks, budget %d, yet it failed with a budget error after %d blocks", where, need, n, len(got))
		} else if !prefix(len(ref)) {
			out.Fail("enough", "%s: traversal needs %d blocks, budget %d, but the budgeted run loaded %v instead of %v", where, need, n, got, ref)
		} else {
			out.Cov("oracle:enough")
		}
	} else {
		if !exceeded {
			out.Fail("exact", "%s: traversal needs %d blocks, budget %d, but no budget error was raised (loaded %d)", where, need, n, len(got))
		} else if !prefix(int(n)) {
			out.Fail("exact", "%s: traversal needs %d blocks, budget %d: expected the budget error after exactly the first %d loads, got %d loads %v (reference %v)", where, need, n, n, len(got), got, ref)
		} else {
			out.Cov("oracle:exact")
		}
	}
}

// RefLoads: block numbers of the independent reference traversal over `have`
func RefLoads(w *World, have func(cid.Cid) bool) ([]int, error) {
	lt, _, err := dag.Reference(w.D, w.Sel, have)
	if err != nil {
		return nil, err
	}
	var ref []int
	for _, l := range lt.Loads {
		ref = append(ref, l.Block)
	}
	return ref, nil
}

// ---------------------------------------------------------------- run

func Run(cases []reg.Case, out *reg.Out) {
	for _, c := range cases {
		out.BeginCase(c)
		var w *World
		var fullLT string
		for _, op := range c.Ops {
			switch op[0] {
			case "dag":
				ww, err := BuildWorld(op)
				if err != nil {
					out.Line("bad-op")
					continue
				}
				w = ww
				lt, _, err := dag.Reference(w.D, w.Sel, nil)
				if err != nil {
					out.Line("bad-op")
					continue
				}
				fullLT = FormatLT(lt)
				out.Line("ok")
				out.Cov("sel:" + w.SelName)
			case "trav":
				if w == nil || len(op) < 5 {
					out.Line("bad-op")
					continue
				}
				var budget *int64
				if op[1] != "-" {
					b, err := strconv.ParseInt(op[1], 10, 64)
					if err != nil {
						out.Line("bad-op")
						continue
					}
					budget = &b
				}
				have, ok := ParseHeld(w.D, op[2])
				if !ok {
					out.Line("bad-op")
					continue
				}
				if strings.Join(op[3:], " ") != fullLT {
					out.Line("lt-mismatch expected %s", fullLT)
					continue
				}
				o := Drive(w, have, budget)
				out.Line("loads=%d out=%s seq=%s", len(o.Loads), o.Out, seqString(o.Loads))
				out.Cov("out:" + strings.SplitN(o.Out, ":", 2)[0])
				ref, err := RefLoads(w, have)
				if err != nil {
					continue
				}
				switch {
				case budget == nil:
					out.Cov("budget:none")
				case *budget >= 1:
					n := uint64(*budget)
					nmiss := 0
					for _, b := range o.Loads {
						if !have(w.D.Cids[b]) {
							nmiss++
						}
					}
					if nmiss > 0 {
						out.Cov("budget:run-with-charged-misses")
						if o.Out == "budget" {
							out.Cov("budget:exceeded-with-charged-misses")
						}
					}
					switch {
					case n == 1:
						out.Cov("budget:1")
					case n < uint64(len(ref)):
						out.Cov("budget:<need")
					case n == uint64(len(ref)):
						out.Cov("budget:=need")
					default:
						out.Cov("budget:>need")
					}
					Judge(out, fmt.Sprintf("TraversalBuilder(selector %s, store %s)", w.SelName, op[2]), n, ref, o.Loads, o.Out == "budget")
				default:
					out.Cov("budget:<=0")
				}
			default:
				out.Line("bad-op")
			}
		}
	}
}

// ---------------------------------------------------------------- generator

var flagSets = []string{"ISR", "ISR", "IS", "SR", "R", "-", "ISRD", "ISRDE"}

// GenWorld writes a `dag` line and returns the world it denotes
func GenWorld(r *rand.Rand, w *bufio.Writer, maxBlocks int, plainOnly bool) (*World, string) {
	seed := r.Int63n(1 << 40)
	flags := flagSets[r.Intn(len(flagSets))]
	if plainOnly {
		// no identity CIDs / zero-length blocks: the real stacks treat those specially (other properties)
		flags = flagSets[r.Intn(6)]
	}
	kind := "gen"
	if r.Intn(8) == 0 {
		kind = "matcher"
	}
	line := fmt.Sprintf("dag %d %d %s %s", seed, maxBlocks, flags, kind)
	fmt.Fprintln(w, line)
	ww, err := BuildWorld(strings.Fields(line))
	if err != nil {
		panic(err)
	}
	lt, _, err := dag.Reference(ww.D, ww.Sel, nil)
	if err != nil {
		panic(err)
	}
	return ww, FormatLT(lt)
}

func heldString(d *dag.DAG, r *rand.Rand) (string, func(cid.Cid) bool) {
	switch k := r.Intn(10); {
	case k < 6:
		return "*", func(cid.Cid) bool { return true }
	case k < 7 && len(d.Cids) > 1:
		// everything but the root's first few children: root present
		fallthrough
	default:
		p := 0.5 + 0.4*r.Float64()
		have, list := d.RandomSubset(r, p)
		if len(list) == 0 {
			return "-", func(cid.Cid) bool { return false }
		}
		return seqString(list), have
	}
}

func Gen(seed int64, n int, tier string, w *bufio.Writer) {
	r := rand.New(rand.NewSource(seed))
	for i := 0; i < n; i++ {
		fmt.Fprintf(w, "case b%d\n", i)
		mb := 1 + r.Intn(9)
		if r.Intn(6) == 0 {
			mb = 1 + r.Intn(2)
		}
		ww, lt := GenWorld(r, w, mb, false)
		nstores := 1 + r.Intn(2)
		for s := 0; s < nstores; s++ {
			hs, have := heldString(ww.D, r)
			ref, err := RefLoads(ww, have)
			if err != nil {
				continue
			}
			need := int64(len(ref))
			budgets := map[int64]bool{1: true, 2: true, need - 1: true, need: true, need + 1: true}
			if r.Intn(3) == 0 {
				budgets[1+r.Int63n(need+2)] = true
			}
			if r.Intn(10) == 0 {
				budgets[0] = true
			}
			if r.Intn(10) == 0 {
				budgets[math.MaxInt64] = true
			}
			if r.Intn(20) == 0 {
				budgets[-1] = true
			}
			var keys []int64
			for b := range budgets {
				if b >= 1 || b == 0 || b == -1 {
					keys = append(keys, b)
				}
			}
			// deterministic order
			for a := 0; a < len(keys); a++ {
				for b := a + 1; b < len(keys); b++ {
					if keys[b] < keys[a] {
						keys[a], keys[b] = keys[b], keys[a]
					}
				}
			}
			if r.Intn(4) == 0 {
				fmt.Fprintf(w, "trav - %s %s\n", hs, lt)
			}
			for _, b := range keys {
				fmt.Fprintf(w, "trav %d %s %s\n", b, hs, lt)
			}
		}
	}
	if tier == "thorough" {
		// every budget 1..need+2 and every store subset for small DAGs
		for i := 0; i < n/20; i++ {
			fmt.Fprintf(w, "case bx%d\n", i)
			ww, lt := GenWorld(r, w, 1+r.Intn(5), false)
			subsets := ww.D.Subsets(5)
			for m, have := range subsets {
				var list []int
				for j, c := range ww.D.Cids {
					if have(c) {
						list = append(list, j)
					}
				}
				hs := seqString(list)
				if m == len(subsets)-1 {
					hs = "*"
				}
				ref, err := RefLoads(ww, have)
				if err != nil {
					continue
				}
				for b := int64(1); b <= int64(len(ref))+2; b++ {
					fmt.Fprintf(w, "trav %d %s %s\n", b, hs, lt)
				}
			}
		}
	}
}
