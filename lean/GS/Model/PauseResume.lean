import GS.Model.Requestor
import GS.Model.Responder
/-!
Pause / resume of one exchange (property C06), on top of the requestor model (`GS.Requestor`,
`GS.Loader`) and the responder model (`GS.Responder`, which already contains the responder's pause:
`Stop.hookPause` / `Stop.sigPause`, `startRequest` / `resumeRequest` with the SAME `Run`).

Requestor side, mirrored here function by function:

  requestmanager/server.go  pause            a token in `ipr.pauseMessages` (capacity 1)   -> `pauseApi`
                            unpause          state Paused -> Queued, task pushed again      -> `unpause`
                            releaseRequestTask  ErrPaused -> state Paused                   -> `stopForPause`
                            processResponses while the request is paused (the executor is
                            not running): IngestResponse is refused by the offline loader,
                            a terminal failure status terminates the request               -> `deliver`
  executor/executor.go      ExecuteTask       ErrPaused: cancel to the peer, loader offline,
                                              no error to the caller                        -> `stopForPause`
                            traverse          `requestSent := false` on every (re)start; on the
                                              first local miss: SetRemoteOnline(true) (queue
                                              cleared since /repo b4f998f, new Verifier over the
                                              whole record), startRemoteRequest with
                                              do-not-send-first-blocks = max(user, NBlocksTraversed),
                                              RetryLastLoad                                 -> `Requestor.loadNode`
                            processResult     block hook (only for a load answered with data),
                                              then the non-blocking read of PauseMessages   -> `pauseCheck`

The executor loop `driveP` is `Requestor.drive` with `processResult`'s pause check after every load
whose traversal goes on (it re-uses `Requestor.loadNode` and `Requestor.handle` unchanged).

Scheduling: as in `GS.Requestor`, the executor runs whenever it can (until it parks in `waitRemote`,
pauses, or the request ends); the harness component `reqpause` applies one operation at a time and
waits for quiescence, so the two agree.
-/
namespace GS.PauseResume
open GS.Loader GS.Requestor

structure PState where
  R        : Requestor.State := {}
  paused   : Bool := false        -- request manager: `ipr.state == graphsync.Paused`
  pauseTok : Bool := false        -- a token waits in `ipr.pauseMessages`
  hookAt   : List Nat := []       -- block indices (BlockData.Index) at which the block hook calls PauseRequest
  pendingErr : Option RErr := none  -- the traverser has completed with this error, the executor has not looked yet
deriving Repr

/-- `processResult`: the block hook runs only for a load answered with data; the pause channel is read
    (and emptied) in every case.  `true` = the executor stops with `ErrPaused`. -/
def pauseCheck (s : PState) (loaded : Bool) : Bool × PState :=
  let hook := loaded && s.hookAt.contains s.R.nBlocks
  (hook || s.pauseTok, { s with pauseTok := false })

/-- `ExecuteTask` after `traverse` returned `ErrPaused` + `releaseRequestTask`: cancel to the peer,
    loader offline, nothing on the error channel, state Paused. -/
def stopForPause (s : PState) : PState × List Ev :=
  ({ s with paused := true, R := { s.R with L := Loader.setOnline s.R.L false } }, [Ev.sentCancel])

/-- `processResult` + what follows it, after a load whose traversal goes on -/
def afterLoad (s : PState) (loaded : Bool) (cont : PState → PState × List Ev) : PState × List Ev :=
  match pauseCheck s loaded with
  | (true, s1) => stopForPause s1
  | (false, s1) => cont s1

/-- the load of `n` failed in a way that ends the traversal — `advanceTraversal` hands the error to the
    traverser (`Traverser.Error`), which completes with it: SkipMe for a missing root (reported as a
    generic error), the load error itself otherwise.  A missing link below the root does not. -/
def endsTraversal (n : LNode) (res : Result) : Option RErr :=
  match res.err with
  | none => none
  | some (.missing _ _) => if n.depth == 0 then some .other else none
  | some e => some (.load e)

/-- the load error and the completion error, if the result of the load of `n` ends the traversal
    (nothing of the sort once the request context is cancelled: `advanceTraversal` then returns a
    context-cancel error without touching the traverser) -/
def endsWith (s : PState) (n : LNode) (res : Result) : Option (RErr × LoadErr) :=
  if s.R.ctxCancelled then none else
  match res.err with
  | none => none
  | some e =>
    match endsTraversal n res with
    | some e' => some (e', e)
    | none => none

/-- what `traverse` does with the result of the load of `n` (`ev1` = what `loadNode` reported).
    `advanceTraversal` reports a load error to the caller and hands it to the traverser; `processResult`
    — the pause check — runs BEFORE the loop looks at `IsComplete` again, so a pause can take effect between
    the error that ends the traversal and the executor noticing the end (`pendingErr`). -/
def afterResult (s : PState) (n : LNode) (rest : LT) (res : Result) (ev1 : List Ev)
    (cont : PState → PState × List Ev) : PState × List Ev :=
  match endsWith s n res with
  | some (e', e) =>
    let evs0 := ev1 ++ writeEvs res ++ [Ev.err (.load e)]
    match pauseCheck s false with
    | (true, s1) => ((stopForPause { s1 with pendingErr := some e' }).1, evs0 ++ (stopForPause { s1 with pendingErr := some e' }).2)
    | (false, s1) => ({ s1 with R := (failWith s1.R e').1 }, evs0 ++ (failWith s1.R e').2)
  | none =>
    match handle s.R n rest res with
    | (r2, evs, true) =>
      ((afterLoad { s with R := r2 } res.err.isNone cont).1, ev1 ++ evs ++ (afterLoad { s with R := r2 } res.err.isNone cont).2)
    | (r2, evs, false) => ({ s with R := r2 }, ev1 ++ evs)

/-- `executor.traverse` with the pause check, run until it parks in `waitRemote`, pauses or ends -/
def driveP : Nat → PState → PState × List Ev
  | 0, s => (s, [])
  | fuel + 1, s =>
    if s.R.phase != .running || s.paused then (s, []) else
    match s.pendingErr with
    | some e' =>
      -- IsComplete: the traversal has ended with an error while the request was pausing
      let (r2, ev) := failWith s.R e'
      ({ s with R := r2, pendingErr := none }, ev)
    | none =>
    match s.R.todo with
    | [] => let (r, evs) := finish s.R; ({ s with R := r }, evs)
    | n :: rest =>
      match loadNode s.R n with
      | (r1, ev1, none) => ({ s with R := r1 }, ev1)
      | (r1, ev1, some res) => afterResult { s with R := r1 } n rest res ev1 (driveP fuel)

/-- NewRequest -/
def request (s : PState) (lt : LT) (userSkip : Nat) : PState × List Ev :=
  let r1 := { s.R with todo := lt, phase := .running, userSkip := userSkip }
  driveP (fuelFor r1) { s with R := r1 }

/-- GraphExchange.Pause for a request: `pause` in server.go (an error, and no effect, if the request is
    already paused or unknown) -/
def pauseApi (s : PState) : PState :=
  if s.paused || s.R.phase != .running then s else { s with pauseTok := true }

/-- GraphExchange.Unpause: the task is queued again; the executor re-enters `traverse` with
    `requestSent = false` and the same traverser and loader -/
def unpause (s : PState) : PState × List Ev :=
  if !s.paused || s.R.phase != .running then (s, [])
  else
    let r1 := { s.R with requestSent := false }
    driveP (fuelFor r1) { s with paused := false, R := r1 }

/-- after the loader state changed while the executor is parked in `waitRemote` -/
def resumeP (s : PState) : PState × List Ev :=
  match Loader.wake s.R.L with
  | (l1, some r) =>
    match s.R.todo with
    | n :: rest =>
      afterResult { s with R := { s.R with L := l1 } } n rest r [] (fun s' => driveP (fuelFor s'.R) s')
    | [] => ({ s with R := { s.R with L := l1 } }, [])
  | (l1, none) => ({ s with R := { s.R with L := l1 } }, [])

/-- ProcessResponses with one response for this request -/
def deliver (s : PState) (fromPeer0 known : Bool) (status : Nat)
    (md : List (Cid × Action)) (blocks : List (Cid × Blk)) : PState × List Ev :=
  if s.R.phase != .running || !fromPeer0 || !known then (s, [])
  else
    let r1 := applyStatus { s.R with L := Loader.ingest s.R.L md blocks } status
    if s.paused then
      -- nobody is executing the request; cancelOnError for a request that is not Running terminates it
      if isTerminal status && isFailure status then
        let (r2, evs) := finish r1
        ({ s with R := r2, paused := false }, evs)
      else ({ s with R := r1 }, [])
    else resumeP { s with R := r1 }

/-! ### operations (line protocol of component `reqpause`, and the histories the theorems range over) -/

structure Msg where
  fromPeer0 : Bool := true
  known     : Bool := true
  status    : Nat := 14
  md        : List (Cid × Action) := []
  blocks    : List (Cid × Blk) := []
deriving Repr, DecidableEq

inductive Op where
  | msg (m : Msg)
  | pause
  | unpause
deriving Repr, DecidableEq

def step (s : PState) : Op → PState × List Ev
  | .msg m => deliver s m.fromPeer0 m.known m.status m.md m.blocks
  | .pause => (pauseApi s, [])
  | .unpause => unpause s

def run (s : PState) : List Op → PState × List Ev
  | [] => (s, [])
  | o :: os =>
    let (s1, e1) := step s o
    let (s2, e2) := run s1 os
    (s2, e1 ++ e2)

/-- a request for `lt` from a requestor holding `st`, with block-hook pauses at the indices `hookAt`,
    followed by the operations `ops` -/
def exchange (st : List (Cid × Blk)) (lt : LT) (userSkip : Nat) (hookAt : List Nat) (ops : List Op) :
    PState × List Ev :=
  let (s1, e1) := request { R := { L := { store := st } }, hookAt := hookAt } lt userSkip
  let (s2, e2) := run s1 ops
  (s2, e1 ++ e2)

/-! ### what the property compares -/

/-- number of nodes handed to the caller -/
def delivered (evs : List Ev) : Nat := (evs.filterMap fun | .prog n => some n | _ => none).foldl (· + ·) 0

/-- the blocks handed to the traversal, in order (link, path): with the per-node visit counts this
    determines the delivered node sequence -/
def blocksOf (evs : List Ev) : List (Cid × Path) :=
  evs.filterMap fun | .block c p _ _ => some (c, p) | _ => none

/-- missing-block errors (link, path), in order -/
def missingOf (evs : List Ev) : List (Cid × Path) :=
  evs.filterMap fun | .err (.load (.missing c p)) => some (c, p) | _ => none

/-- every other error -/
def hardErrs (evs : List Ev) : List RErr :=
  evs.filterMap fun
    | .err (.load (.missing _ _)) => none
    | .err e => some e
    | _ => none

/-! ### the honest responder's stream (what `GS.Responder` produces for one request that is alone in
its dedup scope: `GS.C03.refines`), on the flat link tree the requestor model uses -/

structure WItem where
  cid     : Cid
  present : Bool
  block   : Bool
deriving Repr, DecidableEq

/-- links the responder visits over its store `rem`, with block attachment for skip count `skip`
    (`Responder.attach`: present, index > skip, first occurrence among the visited present links) -/
def honestFrom (rem : Cid → Bool) (skip : Nat) : Nat → Nat → List Cid → LT → List WItem
  | 0, _, _, _ => []
  | _ + 1, _, _, [] => []
  | fuel + 1, i, seen, n :: rest =>
    if rem n.cid then
      ⟨n.cid, true, decide (skip < i + 1) && !seen.contains n.cid⟩ ::
        honestFrom rem skip fuel (i + 1) (n.cid :: seen) rest
    else
      ⟨n.cid, false, false⟩ ::
        honestFrom rem skip fuel (i + 1) seen (rest.dropWhile (fun m => m.depth > n.depth))

def honest (lt : LT) (rem : Cid → Bool) (skip : Nat) : List WItem := honestFrom rem skip lt.length 0 [] lt

/-- final status of the honest response (`Responder.specStatus`) -/
def honestStatus (items : List WItem) : Nat :=
  match items with
  | ⟨_, false, _⟩ :: _ => 34
  | _ => if items.all (·.present) then 20 else 21

/-- one wire message carrying the items `is` with status `st` -/
def mkMsg (is : List WItem) (st : Nat) : Msg :=
  { status := st
    md := is.map fun i => (i.cid, if i.present then Action.present else Action.missing)
    blocks := (is.filter (·.block)).map fun i => (i.cid, i.cid) }

/-- the honest stream cut into messages of the sizes `sizes` (then one item per message); the final
    status travels with the last item (or alone, for an empty stream) -/
def batchFrom : Nat → List Nat → List WItem → Nat → List Msg
  | 0, _, is, fin => [mkMsg is fin]
  | _ + 1, _, [], fin => [mkMsg [] fin]
  | fuel + 1, sizes, i :: is, fin =>
    let n := max 1 (sizes.headD 1)
    let all := i :: is
    if all.length ≤ n then [mkMsg all fin]
    else mkMsg (all.take n) 14 :: batchFrom fuel sizes.tail (all.drop n) fin

def batchMsgs (sizes : List Nat) (is : List WItem) (fin : Nat) : List Msg := batchFrom is.length sizes is fin

end GS.PauseResume
