import GS.Model.Panics
import GS.Driver.Proto
/-! line-protocol driver for the panic-isolation model (component `panics`, property C22).

op: `inject <side> <kind> <block> <n> <pre> <ls>`; output, same format as `gs-panics run`:
`survived=<0|1> fired=<0|1> err=<none|panic|failed|…> cb=<k> sibling=<0|1>`
(`survived=0 fired=1 err=- cb=- sibling=-` for a dead process).  The prediction is computed from
the generated site table `GS.Generated.PanicSites.table`; `<ls>` (which link system the target
request uses) does not influence it. -/
namespace GS.Driver.Panics
open GS.Proto GS.Panics GS.Generated.PanicSites

def parseSide : String → Option Side
  | "requestor" => some .requestor
  | "responder" => some .responder
  | _ => none

def parseKind : String → Option Kind
  | "codec" => some .codec
  | "reifier" => some .reifier
  | "chooser" => some .chooser
  | "selector" => some .selector
  | "storage-read" => some .storageRead
  | "storage-read-stream" => some .storageReadStream
  | "storage-write-opener" => some .storageWriteOpener
  | "storage-write-buffer" => some .storageWriteBuffer
  | "storage-write-committer" => some .storageWriteCommitter
  | _ => none

def b2s (b : Bool) : String := if b then "1" else "0"

def render (p : Prediction) : String :=
  if p.survived then
    s!"survived=1 fired={b2s p.fired} err={p.err} cb={p.cb} sibling={b2s p.sibling}"
  else
    s!"survived=0 fired={b2s p.fired} err=- cb=- sibling=-"

def stepLine (t : Toks) : String :=
  match t with
  | ["inject", sd, kd, k, n, pre, ls] =>
    match parseSide sd, parseKind kd, k.toNat?, n.toNat?, pre.toNat? with
    | some sd, some kd, some k, some n, some pre =>
      if n < 1 || n > 64 || k ≥ n || pre > n || !(ls == "def" || ls == "opt") then "bad-op"
      else render (predict table sd kd k n pre)
    | _, _, _, _, _ => "bad-op"
  | _ => "bad-op"

def handler (ops : List Toks) : List String := ops.map stepLine

end GS.Driver.Panics

def main : IO Unit := GS.Proto.runModel GS.Driver.Panics.handler
