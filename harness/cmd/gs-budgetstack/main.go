package main

import (
	_ "verifharness/budgetstack"
	"verifharness/reg"
)

func main() { reg.Main("budgetstack") }
