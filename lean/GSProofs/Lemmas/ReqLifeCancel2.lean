import GSProofs.Lemmas.ReqLifeCancelFlags
import GSProofs.Lemmas.ReqLifeLive
/-!
Two more sweeps over `step` for property C04:

* `invApi_reachable`: a CancelRequest message in the mailbox, or any of the model's records of a handled
  CancelRequest (`CancelRecorded`), implies the ghost flag `apiCancelled` (hence `Triggered`).
* `step_termErr_first`: one step changes `termErr` only from `none`, and then to `termCause s a`: the error of
  the terminal cause the manager handles in that step (CancelRequest for a tracked request: cc; response-hook
  error for a tracked request: hook; failure status from the own peer for a tracked request: its `asError`).
-/
namespace GS.ReqLife
open GS.Generated GS.Generated.StatusCodes

/-! ### mailbox / apiCancelled -/

theorem terminate_mbox (s : State) (r : Bool) : (terminate s r).mbox = s.mbox := by
  unfold terminate; split <;> simp [finishTerminate]

theorem cancelOnError_mbox (s : State) (e : Option Err) : (cancelOnError s e).mbox = s.mbox := by
  unfold cancelOnError
  simp only
  split <;> split <;> simp [terminate_mbox]

theorem handle_mbox (s : State) (m : Msg) : (handle s m).mbox = s.mbox := by
  cases m <;> simp only [handle, cancelLive, hookCancel, ingest, procTerminations]
  · split <;> simp
  · (repeat' split) <;> simp [cancelOnError_mbox]
  · (repeat' split) <;> simp [cancelOnError_mbox]
  · (repeat' split) <;> simp
  · (repeat' split) <;> simp
  · (repeat' split) <;> simp
  · (repeat' split) <;> simp [terminate_mbox]

/-- a CancelRequest message enters the mailbox only by `envCancelApi`, which sets `apiCancelled`;
    `apiCancelled` is never reset. -/
theorem step_api {s s' : State} {a : Action} (hs : step s a = some s') :
    (s.apiCancelled = true → s'.apiCancelled = true) ∧
    (Msg.cancel true ∈ s'.mbox → Msg.cancel true ∈ s.mbox ∨ s'.apiCancelled = true) := by
  cases a
  case mgr =>
    simp only [step] at hs
    split at hs
    next m rest hm hb =>
      cases hs
      rw [handle_mbox, (handle_flags _ m).2]
      refine ⟨id, fun h => Or.inl ?_⟩
      rw [hb]; exact List.mem_cons_of_mem _ h
    next => cases hs
  case ceRecv =>
    simp only [step] at hs
    split at hs
    next buf e s1 hce hsnd =>
      cases hs
      rcases errSender_cases hsnd with ⟨rw, _, rfl⟩ | ⟨_, fatal, _, _, rfl⟩ | ⟨_, _, rfl⟩ <;>
        (simp [finishTerminate, sendRelease, pushMsg] <;> exact Or.inl)
    next => cases hs
  case cpDrainE =>
    simp only [step] at hs
    split at hs
    next sent pO e s1 hcp hsnd =>
      cases hs
      rcases errSender_cases hsnd with ⟨rw, _, rfl⟩ | ⟨_, fatal, _, _, rfl⟩ | ⟨_, _, rfl⟩ <;>
        (simp [finishTerminate, sendRelease, pushMsg] <;> exact Or.inl)
    next => cases hs
  all_goals
    simp only [step, env, pushMsg, sendRelease, pauseCheck, dataLoaded, loadFailed, afterVisit,
      Option.map_eq_some_iff] at hs
    (repeat' split at hs) <;>
      (first
        | (cases hs; done)
        | (obtain ⟨_, hs1, hs2⟩ := hs; simp at hs1; done)
        | (obtain ⟨_, hs1, hs2⟩ := hs; simp at hs1; subst hs2; simp <;> grind)
        | (cases hs; simp <;> grind))

def InvApi (s : State) : Prop :=
  (Msg.cancel true ∈ s.mbox → s.apiCancelled = true) ∧ (CancelRecorded s → s.apiCancelled = true)

theorem invApi_init (p e t : Nat) : InvApi (init p e t) := by
  simp [InvApi, CancelRecorded, init]

theorem cause_api_head {s : State} {a : Action} (h : cause s a = some (.callerCancel true)) :
    Msg.cancel true ∈ s.mbox := by
  cases a <;> simp only [cause] at h <;> try (cases h; done)
  · split at h
    next m rest hm hb =>
      cases m <;> simp only [msgCause] at h <;> try (cases h; done)
      · split at h
        · cases h; simp [hb]
        · cases h
      · split at h <;> cases h
    next => cases h
  · split at h <;> cases h

theorem invApi_step {s s' : State} {a : Action} (hi : InvApi s) (hs : step s a = some s') : InvApi s' := by
  obtain ⟨h1, h2⟩ := step_api hs
  refine ⟨fun h => ?_, fun h => ?_⟩
  · rcases h2 h with h | h
    · exact h1 (hi.1 h)
    · exact h
  · rcases step_recorded hs h with h | h
    · exact h1 (hi.2 h)
    · exact h1 (hi.1 (cause_api_head h))

theorem invApi_reachable {s : State} (h : Reachable s) : InvApi s := by
  induction h with
  | init p e t => exact invApi_init p e t
  | step _ hs ih => exact invApi_step ih hs

/-! ### first cause wins -/

/-- the terminal error (if any) that handling mailbox message `m` in manager state `s` proposes:
    exactly the `cancelOnError` calls with a non-nil error. -/
def msgTerm (s : State) : Msg → Option Err
  | .cancel api => if s.reg = .live ∧ api = true then some Err.cc else none
  | .responses p st _ hk =>
    if (hookRunsFor s p && hk) = true then (if s.reg = .live then some Err.hook else none)
    else if (s.reg == .live && p == s.peer) = true ∧ isTerminal st = true ∧ isFailure st = true then
      (asError st).map Err.status
    else none
  | _ => none

def termCause (s : State) : Action → Option Err
  | .mgr =>
    match s.mphase, s.mbox with
    | .idle, m :: _ => msgTerm s m
    | _, _ => none
  | _ => none

theorem cancelOnError_termErr' (s : State) (e : Option Err) :
    (cancelOnError s e).termErr = if s.termErr.isNone then e else s.termErr := by
  simp only [cancelOnError, terminate, finishTerminate]
  (repeat' split) <;> simp_all

theorem handle_termErr_first (s : State) (m : Msg) :
    (handle s m).termErr = if s.termErr.isNone then msgTerm s m else s.termErr := by
  cases m <;> simp only [handle, cancelLive, hookCancel, ingest, procTerminations, msgTerm]
  · (repeat' split) <;> simp_all
  · (repeat' split) <;> simp_all [cancelOnError_termErr']
  · (repeat' split) <;> simp_all [cancelOnError_termErr']
  · (repeat' split) <;> simp_all
  · (repeat' split) <;> simp_all
  · (repeat' split) <;> simp_all
  · (repeat' split) <;> simp_all [terminate_termErr]

theorem msgTerm_mbox (s : State) (rest : List Msg) (m : Msg) :
    msgTerm { s with mbox := rest } m = msgTerm s m := by
  cases m <;> simp [msgTerm, hookRunsFor]

theorem keep_of_eq {a b : Option Err} (h : a = b) : a = if b.isNone then none else b := by
  subst h; cases a <;> simp

/-- one step: `termErr` changes only from `none`, and then to `termCause s a`. -/
theorem step_termErr_first {s s' : State} {a : Action} (hs : step s a = some s') :
    s'.termErr = if s.termErr.isNone then termCause s a else s.termErr := by
  cases a
  case mgr =>
    simp only [step] at hs
    split at hs
    next m rest hm hb =>
      cases hs
      rw [handle_termErr_first, msgTerm_mbox]
      simp [termCause, hm, hb]
    next => cases hs
  case ceRecv =>
    simp only [step] at hs
    split at hs
    next buf e s1 hce hsnd =>
      cases hs
      have := errSender_termErr hsnd
      simp only [termCause, this]; split <;> simp_all
    next => cases hs
  case cpDrainE =>
    simp only [step] at hs
    split at hs
    next sent pO e s1 hcp hsnd =>
      cases hs
      have := errSender_termErr hsnd
      simp only [termCause, this]; split <;> simp_all
    next => cases hs
  all_goals
    simp only [termCause]
    apply keep_of_eq
    simp only [step, env, pushMsg, sendRelease, pauseCheck, dataLoaded, loadFailed, afterVisit,
      Option.map_eq_some_iff] at hs
    (repeat' split at hs) <;>
      (first
        | (cases hs; done)
        | (obtain ⟨_, hs1, hs2⟩ := hs; simp at hs1; done)
        | (obtain ⟨_, hs1, hs2⟩ := hs; simp at hs1; subst hs2; grind)
        | (cases hs; grind))

end GS.ReqLife
