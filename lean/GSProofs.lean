import GSProofs.C13
import GSProofs.C14
import GSProofs.C18
import GSProofs.C08
import GSProofs.C19
import GSProofs.C03
import GSProofs.C22
import GSProofs.C21
