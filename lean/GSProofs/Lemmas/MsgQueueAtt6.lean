import GSProofs.Lemmas.MsgQueueAtt5
/-!
# Message queue: attachments — every step keeps `AI` and `W`
-/
namespace GS.MQ
open GS.Alloc

theorem getD_topics {m : InFlight} {U : List Sub} {tp : List (Topic × List Sub)} (h : tp = [(m.topic, U)]) :
    (aget tp m.topic).getD [] = U := by rw [h]; simp [aget]

/-- result of a queue-goroutine step: `AI` and `W` -/
def StepOK (f : Req → Sub) (s s' : State) : Prop := AI f s' ∧ ∀ u t, W f u t s → W f u t s'

theorem stepOK_of_outW {f : Req → Sub} {s s' : State} (hai : AI f s) (o : OutW f s s')
    (hinfl : ∀ m, s'.pc.inflight = some m → ∀ r ∈ m.streams, f r ∈ (aget s'.topics m.topic).getD []) : StepOK f s s' :=
  ⟨⟨o.bfun hai.bfun, o.wcore.wfun hai.wfun, hinfl⟩, o.w hai.bfun⟩

/-- outcome of `attempt` (and of what follows an extraction) -/
theorem attempt_stepOK (pick : Pick) (f : Req → Sub) {s0 s : State} {m : InFlight} {U : List Sub} {σ : List Kind} {b : Bool}
    (i : Nat) (hai : AI f s0) (o0 : OutW f s0 s) (hm : Mid s m U σ b) (hU : ∀ r ∈ m.streams, f r ∈ U) :
    StepOK f s0 (s.attempt pick m i) := by
  have o := o0.trans (attempt_out pick f i hm hU).toW
  apply stepOK_of_outW hai o
  unfold State.attempt
  split
  · intro m' hm' r hr
    have : m' = m := by simpa [Pc.inflight] using hm'.symm
    subst this
    show f r ∈ (aget (s.emit [Event.wire m'.topic i]).topics m'.topic).getD []
    rw [(emit_frame s _).topics.symm ▸ getD_topics hm.topics] at *
    sorry
  · intro m' hm'
    simp [State.finish, Pc.inflight] at hm'

end GS.MQ
