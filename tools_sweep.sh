#!/bin/bash
# unchanged-tree sweep: every check, quick tier, over several seeds; prints any VIOLATION / non-zero exit
# usage: tools_sweep.sh "<seeds>" [tier]
cd "$(dirname "$0")"
seeds=${1:-"2 3 4"}; tier=${2:-quick}
./setup.sh > /dev/null 2>&1 || { echo "setup failed"; exit 2; }
bad=0
for s in $seeds; do
  for c in $(ls checks | sed 's/.json//'); do
    out=$(VERIF_SEED=$s ./check $c --tier $tier 2>&1); rc=$?
    v=$(echo "$out" | grep '^VIOLATION')
    echo "seed=$s $c rc=$rc $(echo "$out" | tail -1)"
    if [ $rc -ne 0 ] || [ -n "$v" ]; then bad=$((bad+1)); echo "  !! $v"; echo "$out" | grep -E "BROKEN|FAIL" | head -5; fi
  done
done
echo "sweep done: $bad bad runs"
