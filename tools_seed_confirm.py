#!/usr/bin/env python3
"""Confirm independently written breaking changes and store them under seeded/<id>/.

  ./tools_seed_confirm.py /tmp/seeds-out [id ...]

For each <dir>/<id>/{patch.diff,demo.diff,meta.json}: in a scratch worktree of /repo HEAD
  1. demo.diff alone        -> demo_cmd must PASS
  2. demo.diff + patch.diff -> demo_cmd must FAIL
  3. patch.diff alone       -> whole suite `go test -vet=off -count=1 ./...` must PASS (one retry for flakes)
Only then is it copied to /verif/seeded/<id>/ with the confirmation recorded in meta.json.
"""
import json, os, shutil, subprocess, sys
ROOT = os.path.dirname(os.path.abspath(__file__))
src = sys.argv[1]
ids = sys.argv[2:] or sorted(os.listdir(src))
env = dict(os.environ, GOFLAGS="-mod=mod", GOPROXY="off")
def run(cmd, cwd, shell=False, timeout=1800):
    p = subprocess.run(cmd, cwd=cwd, env=env, capture_output=True, text=True, errors="replace", shell=shell, timeout=timeout)
    return p.returncode, (p.stdout + p.stderr)[-1500:]
for sid in ids:
    d = os.path.join(src, sid)
    if not os.path.exists(os.path.join(d, "patch.diff")): continue
    meta = json.load(open(os.path.join(d, "meta.json")))
    wt = f"/tmp/seedconf-{sid}"
    subprocess.run(["git", "-C", "/repo", "worktree", "remove", "--force", wt], capture_output=True)
    subprocess.run(["git", "-C", "/repo", "worktree", "add", "-q", wt, "HEAD"], check=True)
    try:
        reset = lambda: (run(["git", "checkout", "--", "."], wt), run(["git", "clean", "-fdq"], wt))
        ok = True; notes = {}
        rc, o = run(["git", "apply", os.path.join(d, "demo.diff")], wt)
        if rc: print(sid, "demo.diff does not apply", o); continue
        rc1, o1 = run(meta["demo_cmd"], wt, shell=True); notes["demo_without_patch"] = "pass" if rc1 == 0 else "FAIL"
        rc, o = run(["git", "apply", "--3way", os.path.join(d, "patch.diff")], wt)
        if rc: print(sid, "patch.diff does not apply", o); continue
        rc2, o2 = run(meta["demo_cmd"], wt, shell=True); notes["demo_with_patch"] = "fail" if rc2 != 0 else "PASS(!)"
        reset()
        run(["git", "apply", "--3way", os.path.join(d, "patch.diff")], wt)
        rc3, o3 = run("go test -vet=off -count=1 ./...", wt, shell=True)
        if rc3: rc3, o3 = run("go test -vet=off -count=1 ./...", wt, shell=True); notes["suite_retry"] = True
        notes["suite_with_patch"] = "pass" if rc3 == 0 else "FAIL"
        good = rc1 == 0 and rc2 != 0 and rc3 == 0
        print(sid, notes, "CONFIRMED" if good else "REJECTED")
        if not good:
            print(o1[-300:] if rc1 else "", o3[-600:] if rc3 else ""); continue
        dst = os.path.join(ROOT, "seeded", sid); os.makedirs(dst, exist_ok=True)
        for f in ("patch.diff", "demo.diff"): shutil.copy(os.path.join(d, f), dst)
        meta["confirmed"] = dict(notes, repo_head=subprocess.run(["git", "-C", "/repo", "rev-parse", "--short", "HEAD"], capture_output=True, text=True).stdout.strip(),
                                 how="tools_seed_confirm.py: demo passes on clean tree, fails with patch; whole suite passes with patch alone")
        json.dump(meta, open(os.path.join(dst, "meta.json"), "w"), indent=1)
    finally:
        subprocess.run(["git", "-C", "/repo", "worktree", "remove", "--force", wt], capture_output=True)
