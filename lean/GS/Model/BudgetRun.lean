/-
Link budgets as go-graphsync applies them (property C07): the generic traversal of
GS/Model/Budget.lean instantiated with the *generated* shapes (GS/Generated/Budget.lean).

  `traverse`   = ipldutil.TraversalBuilder{… Budget: b …}.Start + the block-by-block drive of it
  `linkBudget` = the `*traversal.Budget` requestTask / taskDataForKey construct from the global
                 option (MaxLinksPerOutgoingRequests / MaxLinksPerIncomingRequests) and the hook's
                 per-request `MaxLinks`
  `serve`      = both together
-/
import GS.Model.Budget
import GS.Generated.Budget
namespace GS.Budget
open GS.Generated.Budget

/-- a traversal with go-graphsync's root check and go-ipld-prime's link check -/
def traverse (avail : Cid → Bool) (budget : Option Int) (t : LT) : Result :=
  run rootCheck linkCheck rootCheckBeforeLoad sharedCounter avail budget t

inductive Side where
  | requestor | responder
deriving Repr, DecidableEq, Inhabited

def pick : Side → Nat → Nat → Nat
  | .requestor => requestorPick
  | .responder => responderPick
def guard : Side → Nat → Bool
  | .requestor => requestorGuard
  | .responder => responderGuard
def clamp : Side → Bool
  | .requestor => requestorClamp
  | .responder => responderClamp

/-- the budget handed to the TraversalBuilder (`none` = nil pointer = unlimited) -/
def linkBudget (side : Side) (global perReq : Nat) : Option Int :=
  let m := pick side global perReq
  if guard side m then
    some (castInt64 (if clamp side && decide ((m : Int) > maxInt64) then maxInt64.toNat else m))
  else none

def serve (side : Side) (avail : Cid → Bool) (global perReq : Nat) (t : LT) : Result :=
  traverse avail (linkBudget side global perReq) t

end GS.Budget
