import GS.Model.Loader
import GS.Driver.Proto
/-! token parsing / printing shared by the drivers built on the loader model -/
namespace GS.Driver.LoaderCodec
open GS.Proto GS.Loader

def parsePath (s : String) : Option Path :=
  if s == "-" then some [] else (s.splitOn "/").mapM String.toNat?

def showPath (p : Path) : String :=
  if p.isEmpty then "-" else joinWith "/" (p.map toString)

def parseAction : Char → Option Action
  | 'p' => some .present | 'd' => some .dupNotSent | 'm' => some .missing | 's' => some .dagSkipped
  | _ => none

def parseItem (s : String) : Option (Cid × Action) :=
  match s.toList.reverse with
  | a :: rest => do
    let act ← parseAction a
    let c ← (String.ofList rest.reverse).toNat?
    pure (c, act)
  | [] => none

def parseItems (s : String) : Option (List (Cid × Action)) :=
  if s == "-" then some [] else (s.splitOn ",").mapM parseItem

def parseBlock (s : String) : Option (Cid × Blk) :=
  match s.splitOn "=" with
  | [k] => do let k ← k.toNat?; pure (k, k)
  | [k, b] => do let k ← k.toNat?; let b ← b.toNat?; pure (k, b)
  | _ => none

def parseBlocks (s : String) : Option (List (Cid × Blk)) :=
  if s == "-" then some [] else (s.splitOn ",").mapM parseBlock

end GS.Driver.LoaderCodec
