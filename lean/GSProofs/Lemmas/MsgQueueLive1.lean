import GSProofs.Lemmas.MsgQueueNotes5
/-!
# Message queue liveness, part 1: shapes of the builder list and of the work signal after each function
-/
namespace GS.MQ
open GS.Alloc

/-- some queued builder has content -/
def HasWork (bs : List Builder) : Prop := ∃ b ∈ bs, b.empty = false

/-- number of queued builders whose topic is at most `t` -/
def cnt (t : Nat) (bs : List Builder) : Nat := (bs.filter fun b => decide ((b.topic : Nat) ≤ t)).length

theorem cnt_nil (t : Nat) : cnt t [] = 0 := rfl

theorem cnt_cons (t : Nat) (b : Builder) (r : List Builder) :
    cnt t (b :: r) = (if (b.topic : Nat) ≤ t then 1 else 0) + cnt t r := by
  unfold cnt; rw [List.filter_cons]
  by_cases h : (b.topic : Nat) ≤ t <;> simp [h] <;> omega

theorem cnt_append (t : Nat) (a b : List Builder) : cnt t (a ++ b) = cnt t a + cnt t b := by
  unfold cnt; rw [List.filter_append, List.length_append]

/-! ## scrubbing -/

theorem scrub_empty {b : Builder} (reqs : List Req) (h : b.empty = true) : (b.scrub reqs).1.empty = true := by
  unfold Builder.empty at h ⊢
  simp only [Bool.and_eq_true, List.isEmpty_iff] at h ⊢
  obtain ⟨⟨h1, h2⟩, h3⟩ := h
  refine ⟨⟨h1, ?_⟩, ?_⟩
  · show savedBlocks b.blocks _ = []
    rw [h3]; simp [adel, savedBlocks]
  · show adel b.responses reqs = []
    rw [h3]; simp [adel]

theorem scrubAll_mem (reqs : List Req) : ∀ (bs : List Builder) (b' : Builder), b' ∈ (scrubAll reqs bs).1 →
    b'.empty = false ∧ ∃ b ∈ bs, b'.topic = b.topic ∧ b.empty = false
  | [], _, h => by simp [scrubAll] at h
  | b :: r, b', h => by
    simp only [scrubAll] at h
    by_cases he : (b.scrub reqs).1.empty = true
    · simp only [he, if_true] at h
      obtain ⟨h1, b0, hb0, h2⟩ := scrubAll_mem reqs r b' h
      exact ⟨h1, b0, List.mem_cons_of_mem _ hb0, h2⟩
    · simp only [he, Bool.false_eq_true, if_false] at h
      rcases List.mem_cons.mp h with rfl | h
      · refine ⟨by simpa using he, b, by simp, rfl, ?_⟩
        cases hb : b.empty with
        | false => rfl
        | true => exact absurd (scrub_empty reqs hb) he
      · obtain ⟨h1, b0, hb0, h2⟩ := scrubAll_mem reqs r b' h
        exact ⟨h1, b0, List.mem_cons_of_mem _ hb0, h2⟩

theorem scrubAll_length (reqs : List Req) : ∀ (bs : List Builder), (scrubAll reqs bs).1.length ≤ bs.length
  | [] => by simp [scrubAll]
  | b :: r => by
    have := scrubAll_length reqs r
    simp only [scrubAll]
    split <;> simp only [List.length_cons] <;> omega

theorem cnt_sublist (t : Nat) {a b : List Builder} (h : (topicsOf a).Sublist (topicsOf b)) : cnt t a ≤ cnt t b := by
  have e : ∀ l : List Builder, cnt t l = ((topicsOf l).filter fun x => decide (x ≤ t)).length := by
    intro l
    induction l with
    | nil => rfl
    | cons x r ih =>
      rw [cnt_cons, topicsOf_cons, List.filter_cons, ih]
      by_cases hx : (x.topic : Nat) ≤ t <;> simp [hx] <;> omega
  rw [e, e]
  exact (h.filter _).length_le

/-! ## unconditional frame of `publishError` -/

theorem publishError_shape (pick : Pick) (s : State) (m : InFlight) :
    (s.publishError pick m).builders = (scrubAll m.streams s.builders).1 ∧
    (s.publishError pick m).token = s.token ∧ (s.publishError pick m).done = s.done ∧
    (s.publishError pick m).pc = s.pc ∧ (s.publishError pick m).maxRetries = s.maxRetries ∧
    (s.publishError pick m).sender = s.sender := by
  unfold State.publishError
  simp only
  generalize hsc : scrubAll m.streams
    (({ s with closedStreams := m.streams.foldl (fun acc r => if acc.contains r then acc else acc ++ [r]) s.closedStreams } : State).emit
      (m.streams.map Event.streamClosed)).builders = sc
  have hsc' : sc = scrubAll m.streams s.builders := by rw [← hsc]; rfl
  obtain ⟨bs, freed⟩ := sc
  simp only
  have q : ∀ s3 : State, QFrame s3 (((if freed > 0 then s3.release pick freed else s3).publish m.topic Kind.error).release pick m.size) := by
    intro s3
    have q1 : QFrame s3 (if freed > 0 then s3.release pick freed else s3) := by
      split
      · exact release_qframe _ _ _
      · exact QFrame.refl _
    exact (q1.trans (publish_frame _ _ _).q).trans (release_qframe _ _ _)
  have := q ({ ({ s with closedStreams := m.streams.foldl (fun acc r => if acc.contains r then acc else acc ++ [r]) s.closedStreams } : State).emit
      (m.streams.map Event.streamClosed) with builders := bs } : State)
  refine ⟨?_, this.token, this.done, this.pc, this.maxRetries, this.sender⟩
  rw [this.builders]
  show bs = _
  rw [← hsc']

/-! ## `extract` -/

theorem dropEmpty_pre : ∀ (bs : List Builder), ∃ pre, bs = pre ++ dropEmpty bs ∧ ∀ b ∈ pre, b.empty = true
  | [] => ⟨[], rfl, by simp⟩
  | b :: r => by
    simp only [dropEmpty]
    split
    · next he =>
      obtain ⟨pre, h, hp⟩ := dropEmpty_pre r
      refine ⟨b :: pre, by rw [List.cons_append, ← h], ?_⟩
      intro x hx
      rcases List.mem_cons.mp hx with rfl | hx
      · exact he
      · exact hp x hx
    · exact ⟨[], rfl, by simp⟩

theorem dropEmpty_head {bs : List Builder} {b : Builder} {rest : List Builder} (h : dropEmpty bs = b :: rest) :
    b.empty = false := by
  induction bs with
  | nil => simp [dropEmpty] at h
  | cons x r ih =>
    simp only [dropEmpty] at h
    split at h
    · exact ih h
    · next hx => cases h; simpa using hx

/-- what `extractOutgoingMessage` does to the queue and the work signal -/
theorem extract_shape (s : State) :
    (∀ s', s.extract = (s', none) → s'.builders = [] ∧ (∀ b ∈ s.builders, b.empty = true) ∧ s'.token = s.token ∧
      s'.pc = s.pc ∧ s'.done = s.done ∧ s'.maxRetries = s.maxRetries ∧ s'.sender = s.sender) ∧
    (∀ s' m, s.extract = (s', some m) → ∃ pre b, s.builders = pre ++ b :: s'.builders ∧ (∀ x ∈ pre, x.empty = true) ∧
      b.empty = false ∧ m.topic = b.topic ∧ s'.token = (s.token || !s'.builders.isEmpty) ∧
      s'.pc = s.pc ∧ s'.done = s.done ∧ s'.maxRetries = s.maxRetries ∧ s'.sender = s.sender) := by
  obtain ⟨pre, hpre, hemp⟩ := dropEmpty_pre s.builders
  unfold State.extract
  cases hd : dropEmpty s.builders with
  | nil =>
    simp only
    constructor
    · intro s' he; cases he
      rw [hd, List.append_nil] at hpre
      exact ⟨rfl, by rw [hpre]; exact hemp, rfl, rfl, rfl, rfl, rfl⟩
    · intro s' m he; cases he
  | cons b rest =>
    simp only
    constructor
    · intro s' he; cases he
    · intro s' m he
      simp only [Prod.mk.injEq, Option.some.injEq] at he
      obtain ⟨he1, he2⟩ := he
      subst he1 he2
      have f := subscribe_frame ({ s with builders := rest, token := s.token || !rest.isEmpty }) b.topic (dedupSubs b.subs)
      refine ⟨pre, b, ?_, hemp, dropEmpty_head hd, rfl, ?_, f.pc, f.done, f.maxRetries, f.sender⟩
      · rw [f.builders]; rw [hd] at hpre; exact hpre
      · rw [f.token, f.builders]

end GS.MQ
