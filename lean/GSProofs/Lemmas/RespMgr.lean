import GS.Model.RespMgr
/-!
Helper lemmas about the response-manager model (GS/Model/RespMgr.lean) used by GSProofs/C10.lean:
the *frame* of what a message from peer `q` can touch.
-/
namespace GS.RespMgr

/-! ### the table -/

theorem Table.del_cons (k' : ReqId) (v : Serial) (rest : Table) (k : ReqId) :
    Table.del ((k', v) :: rest) k = if k' = k then Table.del rest k else (k', v) :: Table.del rest k := by
  by_cases h : k' = k <;> simp [Table.del, List.filter_cons, h]

theorem Table.get_cons (k' : ReqId) (v : Serial) (rest : Table) (r : ReqId) :
    Table.get ((k', v) :: rest) r = if k' = r then some v else Table.get rest r := rfl

theorem Table.get_del_ne (t : Table) {r k : ReqId} (h : k ≠ r) : (t.del k).get r = t.get r := by
  induction t with
  | nil => rfl
  | cons a rest ih =>
    obtain ⟨k', e⟩ := a
    rw [Table.del_cons, Table.get_cons]
    by_cases hk : k' = k
    · have hr : k' ≠ r := by rw [hk]; exact h
      simp [hk, h, ih]
    · by_cases hr : k' = r
      · subst hr
        simp [hk, Table.get_cons]
      · simp [hk, hr, Table.get_cons, ih]

theorem Table.get_set_ne (t : Table) {r k : ReqId} (v : Serial) (h : k ≠ r) : (t.set k v).get r = t.get r := by
  unfold Table.set
  rw [Table.get_cons]
  simp [h, Table.get_del_ne t h]

/-! ### what a message from `q` may change -/

/-- `Frame q s s'`: going from `s` to `s'` left alone every response object served to a peer other
    than `q`, every table entry pointing to such an object, every task of another peer, and all
    running executors. -/
structure Frame (q : Peer) (s s' : State) : Prop where
  objs : ∀ k o, s.obj k = some o → o.peer ≠ q → s'.obj k = some o
  table : ∀ id k o, s.table.get id = some k → s.obj k = some o → o.peer ≠ q → s'.table.get id = some k
  pending : s'.pending.filter (fun t => t.1 != q) = s.pending.filter (fun t => t.1 != q)
  active : s'.active = s.active
  execs : s'.execs = s.execs

theorem Frame.refl (q : Peer) (s : State) : Frame q s s :=
  ⟨fun _ _ h _ => h, fun _ _ _ h _ _ => h, rfl, rfl, rfl⟩

theorem Frame.trans {q : Peer} {s s' s'' : State} (h1 : Frame q s s') (h2 : Frame q s' s'') : Frame q s s'' where
  objs := fun k o hk hp => h2.objs k o (h1.objs k o hk hp) hp
  table := fun id k o ht hk hp => h2.table id k o (h1.table id k o ht hk hp) (h1.objs k o hk hp) hp
  pending := by rw [h2.pending, h1.pending]
  active := by rw [h2.active, h1.active]
  execs := by rw [h2.execs, h1.execs]

theorem obj_setObj_ne (s : State) (k j : Serial) (o : Obj) (h : k ≠ j) : (s.setObj k o).obj j = s.obj j := by
  simp [State.setObj, State.obj, List.getElem?_set_ne h]

/-- overwriting an object that is served to `q` -/
theorem frame_setObj (q : Peer) (s : State) (k : Serial) (o o' : Obj) (hk : s.obj k = some o) (hp : o.peer = q) :
    Frame q s (s.setObj k o') where
  objs := by
    intro j o2 hj hp2
    have hne : k ≠ j := by
      intro h; subst h
      rw [hk] at hj; cases hj
      exact hp2 hp
    rw [obj_setObj_ne s k j o' hne]; exact hj
  table := fun _ _ _ ht _ _ => ht
  pending := rfl
  active := rfl
  execs := rfl

theorem filter_eraseFirst (q : Peer) (l : List (Peer × ReqId)) (id : ReqId) :
    (eraseFirst l (q, id)).filter (fun t => t.1 != q) = l.filter (fun t => t.1 != q) := by
  induction l with
  | nil => rfl
  | cons y rest ih =>
    unfold eraseFirst
    by_cases hy : y = (q, id)
    · simp [hy]
    · simp only [hy, if_false, List.filter_cons, ih]

theorem frame_erasePending (q : Peer) (s : State) (id : ReqId) :
    Frame q s { s with pending := eraseFirst s.pending (q, id) } where
  objs := fun _ _ h _ => h
  table := fun _ _ _ h _ _ => h
  pending := filter_eraseFirst q s.pending id
  active := rfl
  execs := rfl

theorem frame_pushPending (q : Peer) (s : State) (id : ReqId) :
    Frame q s { s with pending := s.pending ++ [(q, id)] } where
  objs := fun _ _ h _ => h
  table := fun _ _ _ h _ _ => h
  pending := by simp [List.filter_append]
  active := rfl
  execs := rfl

theorem lookup_some {s : State} {id : ReqId} {k : Serial} {o : Obj} (h : s.lookup id = some (k, o)) :
    s.table.get id = some k ∧ s.obj k = some o := by
  unfold State.lookup at h
  split at h
  · cases h
  · rename_i k' hk'
    split at h
    · rename_i o' ho'
      cases h
      exact ⟨hk', ho'⟩
    · cases h

/-- deleting the table entry of a response served to `q` -/
theorem frame_delTable (q : Peer) (s : State) (id : ReqId) (k : Serial) (o : Obj)
    (hl : s.lookup id = some (k, o)) (hp : o.peer = q) :
    Frame q s { s with table := s.table.del id } where
  objs := fun _ _ h _ => h
  table := by
    intro id' k' o' ht hk' hp'
    obtain ⟨ht0, hk0⟩ := lookup_some hl
    have hne : id ≠ id' := by
      intro h; subst h
      rw [ht0] at ht; cases ht
      rw [hk0] at hk'; cases hk'
      exact hp' hp
    show (s.table.del id).get id' = some k'
    rw [Table.get_del_ne _ hne]; exact ht
  pending := rfl
  active := rfl
  execs := rfl

theorem foreign_false {s : State} {q : Peer} {x : Request} {k : Serial} {o : Obj}
    (hf : foreign s q x = false) (hl : s.lookup x.id = some (k, o)) : o.peer = q := by
  unfold foreign at hf
  rw [hl] at hf
  simpa using hf

/-- all events concern peer `q` -/
def AllPeer (q : Peer) (l : List Ev) : Prop := ∀ ev ∈ l, ev.peer = q

theorem allPeer_nil (q : Peer) : AllPeer q [] := by intro ev h; cases h
theorem allPeer_cons {q : Peer} {ev : Ev} {l : List Ev} (h : ev.peer = q) (t : AllPeer q l) : AllPeer q (ev :: l) := by
  intro e he
  rcases List.mem_cons.mp he with h' | h'
  · subst h'; exact h
  · exact t e h'
theorem allPeer_append {q : Peer} {a b : List Ev} (ha : AllPeer q a) (hb : AllPeer q b) : AllPeer q (a ++ b) := by
  intro e he
  rcases List.mem_append.mp he with h | h
  · exact ha e h
  · exact hb e h

/-! ### the handlers, for a request that is not foreign -/

theorem terminate_frame (q : Peer) (s : State) (id : ReqId)
    (hown : ∀ k o, s.lookup id = some (k, o) → o.peer = q) :
    Frame q s (terminate s id).1 ∧ AllPeer q (terminate s id).2 := by
  unfold terminate
  split
  · exact ⟨Frame.refl q s, allPeer_nil q⟩
  · rename_i k o hl
    have hp := hown k o hl
    obtain ⟨_, hk⟩ := lookup_some hl
    refine ⟨?_, ?_⟩
    · have f1 := frame_setObj q s k o { o with ctxCancelled := true } hk hp
      -- then delete the table entry (the table of the intermediate state is s.table)
      refine Frame.trans f1 ?_
      have hl' : (s.setObj k { o with ctxCancelled := true }).lookup id = some (k, { o with ctxCancelled := true }) := by
        obtain ⟨ht, _⟩ := lookup_some hl
        have hlt : k < s.objs.length := by
          have := hk; simp only [State.obj] at this
          exact (List.getElem?_eq_some_iff.mp this).1
        simp [State.lookup, State.setObj, State.obj, ht, hlt]
      exact frame_delTable q _ id k _ hl' hp
    · exact allPeer_cons hp (allPeer_nil q)

theorem unpause_frame (q : Peer) (s : State) (id : ReqId)
    (hown : ∀ k o, s.lookup id = some (k, o) → o.peer = q) :
    Frame q s (unpauseRequest s id).1 ∧ AllPeer q (unpauseRequest s id).2.1 := by
  unfold unpauseRequest
  split
  · exact ⟨Frame.refl q s, allPeer_nil q⟩
  · rename_i k o hl
    have hp := hown k o hl
    obtain ⟨_, hk⟩ := lookup_some hl
    split
    · exact ⟨Frame.refl q s, allPeer_nil q⟩
    · refine ⟨?_, allPeer_cons hp (allPeer_nil q)⟩
      have f1 := frame_setObj q s k o { o with state := .queued } hk hp
      refine Frame.trans f1 ?_
      have := frame_pushPending q (s.setObj k { o with state := .queued }) id
      simpa [hp, State.setObj] using this

theorem abort_frame (q : Peer) (s : State) (id : ReqId) (err : ErrK)
    (hown : ∀ k o, s.lookup id = some (k, o) → o.peer = q) :
    Frame q s (abortRequest s id err).1 ∧ AllPeer q (abortRequest s id err).2.1 := by
  unfold abortRequest
  split
  · exact ⟨Frame.refl q s, allPeer_nil q⟩
  · rename_i k o hl
    have hp := hown k o hl
    obtain ⟨ht, hk⟩ := lookup_some hl
    -- the state after responseQueue.Remove
    have f0 : Frame q s { s with pending := eraseFirst s.pending (o.peer, id) } := by
      rw [hp]; exact frame_erasePending q s id
    have hl1 : ({ s with pending := eraseFirst s.pending (o.peer, id) } : State).lookup id = some (k, o) := by
      simpa [State.lookup, State.obj] using hl
    have hown1 : ∀ k' o', ({ s with pending := eraseFirst s.pending (o.peer, id) } : State).lookup id = some (k', o') → o'.peer = q := by
      intro k' o' h; rw [hl1] at h; cases h; exact hp
    have hk1 : ({ s with pending := eraseFirst s.pending (o.peer, id) } : State).obj k = some o := by
      simpa [State.obj] using hk
    have hrem : AllPeer q [Ev.remove o.peer id] := allPeer_cons hp (allPeer_nil q)
    simp only
    split
    · exact ⟨f0, hrem⟩
    · split
      · -- not running
        split
        · -- ctxCancel
          obtain ⟨ft, et⟩ := terminate_frame q _ id hown1
          exact ⟨Frame.trans f0 ft,
            allPeer_append (allPeer_append (allPeer_append hrem (allPeer_cons hp (allPeer_nil q))) et)
              (allPeer_cons hp (allPeer_nil q))⟩
        · -- network
          obtain ⟨ft, et⟩ := terminate_frame q _ id hown1
          exact ⟨Frame.trans f0 ft,
            allPeer_append (allPeer_append hrem (allPeer_cons hp (allPeer_nil q))) et⟩
        · -- by command / hook: FinishWithError(RequestCancelled)
          exact ⟨Frame.trans f0 (frame_setObj q _ k o _ hk1 hp),
            allPeer_append hrem (allPeer_cons hp (allPeer_nil q))⟩
      · -- running: signal
        exact ⟨Frame.trans f0 (frame_setObj q _ k o _ hk1 hp), hrem⟩

theorem update_frame (q : Peer) (s : State) (id : ReqId) (uh : UpdHook)
    (hown : ∀ k o, s.lookup id = some (k, o) → o.peer = q) :
    Frame q s (processUpdate s id uh).1 ∧ AllPeer q (processUpdate s id uh).2 := by
  unfold processUpdate
  split
  · exact ⟨Frame.refl q s, allPeer_nil q⟩
  · rename_i k o hl
    have hp := hown k o hl
    obtain ⟨_, hk⟩ := lookup_some hl
    have hhk : AllPeer q [Ev.hookUpd o.peer id] := allPeer_cons hp (allPeer_nil q)
    split
    · exact ⟨Frame.refl q s, allPeer_nil q⟩
    · split
      · exact ⟨frame_setObj q s k o _ hk hp, allPeer_nil q⟩
      · cases uh with
        | none => exact ⟨Frame.refl q s, hhk⟩
        | ext => exact ⟨Frame.refl q s, allPeer_append hhk (allPeer_cons hp (allPeer_nil q))⟩
        | err => exact ⟨frame_setObj q s k o _ hk hp, allPeer_append hhk (allPeer_cons hp (allPeer_nil q))⟩
        | unpause =>
          obtain ⟨fu, eu⟩ := unpause_frame q s id hown
          exact ⟨fu, allPeer_append hhk eu⟩

theorem new_frame (q : Peer) (s : State) (x : Request)
    (hown : ∀ k o, s.lookup x.id = some (k, o) → o.peer = q) :
    Frame q s (newRequest s q x).1 ∧ AllPeer q (newRequest s q x).2 := by
  unfold newRequest
  refine ⟨?_, ?_⟩
  · refine ⟨?_, ?_, ?_, rfl, rfl⟩
    · -- existing objects keep their index
      intro k o hk _
      simp only [State.obj] at hk ⊢
      have hlt : k < s.objs.length := (List.getElem?_eq_some_iff.mp hk).1
      rw [List.getElem?_append_left hlt]; exact hk
    · intro id k o ht hk hp
      have hne : x.id ≠ id := by
        intro h; subst h
        have : s.lookup x.id = some (k, o) := by simp [State.lookup, ht, hk]
        exact hp (hown k o this)
      show (s.table.set x.id s.objs.length).get id = some k
      rw [Table.get_set_ne _ _ hne]; exact ht
    · cases x.rh <;> simp [List.filter_append]
  · cases x.rh <;>
      exact allPeer_append (allPeer_cons rfl (allPeer_cons rfl (allPeer_nil q))) (allPeer_cons rfl (allPeer_nil q))

theorem processRequests_append (d : List DispatchCase) (q : Peer) (s : State) (a b : List Request) :
    processRequests d q s (a ++ b) =
      ((processRequests d q (processRequests d q s a).1 b).1,
       (processRequests d q s a).2 ++ (processRequests d q (processRequests d q s a).1 b).2) := by
  induction a generalizing s with
  | nil => simp [processRequests]
  | cons x xs ih => simp [processRequests, ih, List.append_assoc]

end GS.RespMgr
