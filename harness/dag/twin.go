package dag

// "Twin" DAG family (C20, seeded change C20-r6a): two sub-DAGs below one root that have NO block CID in
// common but overlap in one block's BYTES — a leaf whose bytes are a valid dag-cbor string, linked from
// one side as CIDv1/raw (0x55) and from the other side as CIDv1/dag-cbor (0x71) over the same sha2-256
// multihash.  DAG.Data is keyed by the full CID, so the two CIDs are two blocks (two small integers of
// the line protocol) with equal bytes: a store filled from it serves both, a CID-keyed store holding
// only one of them does not serve the other.  Ordinary generated DAGs have one CID per byte string.

import (
	"bytes"
	"fmt"
	"io"
	"math/rand"

	"github.com/ipfs/go-cid"
	"github.com/ipld/go-ipld-prime/datamodel"
	"github.com/ipld/go-ipld-prime/fluent"
	"github.com/ipld/go-ipld-prime/linking"
	cidlink "github.com/ipld/go-ipld-prime/linking/cid"
	"github.com/ipld/go-ipld-prime/node/basicnode"
	mh "github.com/multiformats/go-multihash"
)

// GenTwin builds a twin DAG.  Block order: the twin leaf as dag-cbor (index 0), the same bytes as raw
// (index 1), then the blocks of side 0, of side 1, the root last.  sides = block indices of the two
// sub-DAG roots; side k reaches the twin bytes through twin[k] only (twin = {raw, cbor} in random order).
func GenTwin(r *rand.Rand) (d *DAG, sides [2]int, twin [2]int) {
	d = &DAG{Data: map[cid.Cid][]byte{}, idx: map[cid.Cid]int{}}
	uniq := 0
	store := func(nd datamodel.Node, desc string) cid.Cid {
		var buf bytes.Buffer
		ls := cidlink.DefaultLinkSystem()
		ls.StorageWriteOpener = func(linking.LinkContext) (io.Writer, linking.BlockWriteCommitter, error) {
			return &buf, func(datamodel.Link) error { return nil }, nil
		}
		lp := cidlink.LinkPrototype{Prefix: cid.Prefix{Version: 1, Codec: 0x71, MhType: mh.SHA2_256, MhLength: 32}}
		l, err := ls.Store(linking.LinkContext{}, lp, nd)
		if err != nil {
			panic(err)
		}
		c := l.(cidlink.Link).Cid
		d.add(c, append([]byte{}, buf.Bytes()...), desc)
		return c
	}
	leaf := func() cid.Cid {
		uniq++
		return store(basicnode.NewString(fmt.Sprintf("twin-dag-leaf-%d-%d", uniq, r.Intn(1<<30))), "cbor-leaf")
	}
	tc := store(basicnode.NewString(fmt.Sprintf("twin-bytes-%d", r.Intn(1<<30))), "twin-cbor")
	tr := cid.NewCidV1(cid.Raw, tc.Hash())
	d.add(tr, append([]byte{}, d.Data[tc]...), "twin-raw")
	side := func(t cid.Cid) cid.Cid {
		nBefore, nAfter := r.Intn(2), r.Intn(4) // at most 5 children (map keys a..e)
		tw := t
		if r.Intn(3) == 0 {
			// the twin one block deeper
			uniq++
			tag := uniq
			tw = store(fluent.MustBuildList(basicnode.Prototype.List, 2, func(la fluent.ListAssembler) {
				la.AssembleValue().AssignLink(cidlink.Link{Cid: t})
				la.AssembleValue().AssignInt(int64(tag))
			}), fmt.Sprintf("list[%d]", d.Index(t)))
		}
		var kids []cid.Cid
		for i := 0; i < nBefore; i++ {
			kids = append(kids, leaf())
		}
		kids = append(kids, tw)
		for i := 0; i < nAfter; i++ {
			kids = append(kids, leaf())
		}
		uniq++
		tag := uniq
		var desc string
		for _, k := range kids {
			desc += fmt.Sprintf(" %d", d.Index(k))
		}
		if r.Intn(2) == 0 {
			return store(fluent.MustBuildList(basicnode.Prototype.List, int64(len(kids)+1), func(la fluent.ListAssembler) {
				for _, k := range kids {
					la.AssembleValue().AssignLink(cidlink.Link{Cid: k})
				}
				la.AssembleValue().AssignInt(int64(tag))
			}), "list["+desc[1:]+"]")
		}
		return store(fluent.MustBuildMap(basicnode.Prototype.Map, int64(len(kids)+1), func(ma fluent.MapAssembler) {
			for i, k := range kids {
				ma.AssembleEntry(keys[i]).AssignLink(cidlink.Link{Cid: k})
			}
			ma.AssembleEntry("z").AssignInt(int64(tag))
		}), "map["+desc[1:]+"]")
	}
	t := [2]cid.Cid{tr, tc}
	if r.Intn(2) == 0 {
		t = [2]cid.Cid{tc, tr}
	}
	s0 := side(t[0])
	s1 := side(t[1])
	uniq++
	tag := uniq
	d.Root = store(fluent.MustBuildMap(basicnode.Prototype.Map, 3, func(ma fluent.MapAssembler) {
		ma.AssembleEntry("a").AssignLink(cidlink.Link{Cid: s0})
		ma.AssembleEntry("b").AssignLink(cidlink.Link{Cid: s1})
		ma.AssembleEntry("z").AssignInt(int64(tag))
	}), fmt.Sprintf("map[%d %d]", d.Index(s0), d.Index(s1)))
	return d, [2]int{d.Index(s0), d.Index(s1)}, [2]int{d.Index(t[0]), d.Index(t[1])}
}
