package main

import (
	_ "verifharness/mqoverlap"
	"verifharness/reg"
)

func main() { reg.Main("mqoverlap") }
