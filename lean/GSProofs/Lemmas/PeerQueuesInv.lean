import GSProofs.Lemmas.PeerQueuesPM
import GSProofs.C17
/-!
# Product PeerManager × queues: one product step seen from one queue, and the product invariant
-/
namespace GS.PQ
open GS GS.PM

/-- the peer-manager step a product action performs -/
def pmAct : Act → Option PM.Act
  | .connected p => some (.connected p)
  | .disconnected p => some (.disconnected p)
  | .shutdownCall q => some (.shutdownCall q)
  | .getProcess p => some (.getProcess p)
  | .finish q .openFailed _ => some (.selfShutdown q)
  | .exit q => some (.queueExit q)
  | _ => none

theorem step_pm (s : State) (a : Act) :
    (step s a).pm = s.pm ∨ (enabled s a = true ∧ ∃ b, pmAct a = some b ∧ (step s a).pm = PM.step s.pm b) := by
  unfold step stepWith
  by_cases he : enabled s a = true
  · rw [if_pos he]
    cases a with
    | connected p => exact Or.inr ⟨he, _, rfl, rfl⟩
    | disconnected p => exact Or.inr ⟨he, _, rfl, rfl⟩
    | shutdownCall q => exact Or.inr ⟨he, _, rfl, rfl⟩
    | getProcess p => exact Or.inr ⟨he, _, rfl, rfl⟩
    | build q m => left; simp only [apply]; split <;> rfl
    | take q => left; simp only [apply]; split <;> rfl
    | wire q => left; simp only [apply]; split <;> rfl
    | close q => left; rfl
    | exit q => exact Or.inr ⟨he, _, rfl, rfl⟩
    | finish q o scrub =>
      simp only [apply]
      split
      · left; rfl
      · cases o with
        | sent => left; rfl
        | failed => left; rfl
        | openFailed => exact Or.inr ⟨he, _, rfl, rfl⟩
  · rw [if_neg he]; exact Or.inl rfl

theorem pmAct_exit {a : Act} {q : Nat} (h : pmAct a = some (.queueExit q)) : a = .exit q := by
  cases a with
  | finish q' o sc => cases o <;> simp [pmAct] at h
  | exit q' => simp only [pmAct, Option.some.injEq, PM.Act.queueExit.injEq] at h; rw [h]
  | _ => simp [pmAct] at h

/-- flags of queue `q` across one product step -/
theorem flags_step (s : State) (a : Act) (q : Nat) :
    (∀ y, qget s.pm q = some y → ∃ y', qget (step s a).pm q = some y' ∧
      (y.shutdown = true → y'.shutdown = true) ∧ (y.exited = true → y'.exited = true) ∧
      (y'.exited = true → y.exited = true ∨ (a = .exit q ∧ enabled s a = true))) ∧
    (qget s.pm q = none → ∀ y', qget (step s a).pm q = some y' → y'.exited = false ∧ y'.shutdown = false) := by
  rcases step_pm s a with h | ⟨he, b, hb, h⟩
  · rw [h]
    exact ⟨fun y hy => ⟨y, hy, id, id, Or.inl⟩, fun hn y' hy' => by rw [hn] at hy'; cases hy'⟩
  · rw [h]
    obtain ⟨h1, h2⟩ := qget_step s.pm b q
    refine ⟨?_, h2⟩
    intro y hy
    obtain ⟨y', hy', _, _, f3, f4, f5⟩ := h1 y hy
    refine ⟨y', hy', f3, f4, ?_⟩
    intro hx
    rcases f5 hx with h' | h'
    · exact Or.inl h'
    · subst h'; exact Or.inr ⟨pmAct_exit hb, he⟩

theorem told_mono (s : State) (a : Act) (q : Nat) (h : told s q = true) : told (step s a) q = true := by
  unfold told at h ⊢
  cases hq : qget s.pm q with
  | none => rw [hq] at h; cases h
  | some y =>
    rw [hq] at h
    obtain ⟨y', hy', f1, _, _⟩ := (flags_step s a q).1 y hq
    rw [hy']; exact f1 h

theorem exited_mono (s : State) (a : Act) (q : Nat) (h : exited s q = true) : exited (step s a) q = true := by
  unfold exited at h ⊢
  cases hq : qget s.pm q with
  | none => rw [hq] at h; cases h
  | some y =>
    rw [hq] at h
    obtain ⟨y', hy', _, f2, _⟩ := (flags_step s a q).1 y hq
    rw [hy']; exact f2 h

theorem created_mono (s : State) (a : Act) (q : Nat) (h : created s q = true) : created (step s a) q = true := by
  unfold created at h ⊢
  cases hq : qget s.pm q with
  | none => rw [hq] at h; cases h
  | some y =>
    obtain ⟨y', hy', _⟩ := (flags_step s a q).1 y hq
    rw [hy']; rfl

/-- `exited` is set only by the queue's own (enabled) exit step -/
theorem exited_step (s : State) (a : Act) (q : Nat) (h : exited (step s a) q = true) :
    exited s q = true ∨ (a = .exit q ∧ enabled s a = true) := by
  unfold exited at h ⊢
  cases hq : qget s.pm q with
  | none =>
    cases hq' : qget (step s a).pm q with
    | none => rw [hq'] at h; cases h
    | some y' =>
      rw [hq'] at h
      have := ((flags_step s a q).2 hq y' hq').1
      simp only [this] at h; cases h
  | some y =>
    obtain ⟨y', hy', _, _, f3⟩ := (flags_step s a q).1 y hq
    rw [hy'] at h
    exact f3 h

/-- a queue created by this step has not been told to stop -/
theorem told_fresh (s : State) (a : Act) (q : Nat) (h : created s q = false) : told (step s a) q = false := by
  unfold created at h
  unfold told
  cases hq : qget s.pm q with
  | some y => rw [hq] at h; cases h
  | none =>
    cases hq' : qget (step s a).pm q with
    | none => rfl
    | some y' => exact ((flags_step s a q).2 hq y' hq').2

theorem told_created {s : State} {q : Nat} (h : told s q = true) : created s q = true := by
  unfold told at h; unfold created
  cases hq : qget s.pm q with
  | none => rw [hq] at h; cases h
  | some y => rfl

/-- the exit step marks the queue exited -/
theorem exit_exited (s : State) (q : Nat) (hc : created s q = true) (he : enabled s (.exit q) = true) :
    exited (step s (.exit q)) q = true := by
  unfold created at hc
  cases hq : qget s.pm q with
  | none => rw [hq] at hc; cases hc
  | some y =>
    obtain ⟨y', h1, h2⟩ := qget_queueExit s.pm q y hq
    unfold exited step stepWith
    rw [if_pos he]
    show (match qget (queueExit s.pm q) q with | some y => y.exited | none => false) = true
    rw [h1]; exact h2

/-! ## one product step seen from one queue -/

/-- the message in flight that has not been handed to `SendMsg` yet -/
def unw : Option (Nat × Bool) → List Nat
  | some (m, false) => [m]
  | _ => []

/-- the queue whose `QX` an action changes -/
def xTarget : Act → Option Nat
  | .build q _ => some q
  | .take q => some q
  | .wire q => some q
  | .finish q _ _ => some q
  | .close q => some q
  | _ => none

/-- how the view of queue `q` (its `QX`, the messages handed to it, the messages it put on the wire)
    changes in a step from `s` to `s'` -/
inductive QStep (s s' : State) (a : Act) (q : Nat) : Prop where
  | same (hn : enabled s a = true → xTarget a ≠ some q)
      (hx : s'.x q = s.x q) (hh : handedOf s' q = handedOf s q) (hw : wireOf s' q = wireOf s q)
  | buildOpen (m : Nat) (ha : a = .build q m) (hd : q ∈ s.handles) (hc : (s.x q).closed = false)
      (hx : s'.x q = { s.x q with queued := (s.x q).queued ++ [m] })
      (hh : handedOf s' q = handedOf s q ++ [m]) (hw : wireOf s' q = wireOf s q)
  | buildClosed (m : Nat) (ha : a = .build q m) (hd : q ∈ s.handles) (hc : (s.x q).closed = true)
      (hx : s'.x q = { s.x q with failed := (s.x q).failed ++ [m] })
      (hh : handedOf s' q = handedOf s q ++ [m]) (hw : wireOf s' q = wireOf s q)
  | take (m : Nat) (r : List Nat) (ha : a = .take q) (hc : (s.x q).closed = false)
      (hi : (s.x q).inflight = none) (hq : (s.x q).queued = m :: r)
      (hx : s'.x q = { s.x q with queued := r, inflight := some (m, false) })
      (hh : handedOf s' q = handedOf s q) (hw : wireOf s' q = wireOf s q)
  | wire (m : Nat) (ha : a = .wire q) (hi : (s.x q).inflight = some (m, false))
      (hx : s'.x q = { s.x q with inflight := some (m, true) })
      (hh : handedOf s' q = handedOf s q) (hw : wireOf s' q = wireOf s q ++ [m])
  | finish (o : Outcome) (sc : List Nat) (m : Nat) (w : Bool) (f q' : List Nat) (ha : a = .finish q o sc)
      (hi : (s.x q).inflight = some (m, w)) (hsub : q'.Sublist (s.x q).queued)
      (hx : s'.x q = { s.x q with inflight := none, failed := f, queued := q' })
      (hh : handedOf s' q = handedOf s q) (hw : wireOf s' q = wireOf s q)
  | close (ha : a = .close q) (ht : told s q = true) (hc : (s.x q).closed = false)
      (hi : (s.x q).inflight = none)
      (hx : s'.x q = { s.x q with closed := true, failed := (s.x q).failed ++ (s.x q).queued, queued := [] })
      (hh : handedOf s' q = handedOf s q) (hw : wireOf s' q = wireOf s q)

theorem setX_x (s : State) (q : Nat) (v : QX) (i : Nat) : (setX s q v).x i = if i = q then v else s.x i := rfl
theorem setX_x_self (s : State) (q : Nat) (v : QX) : (setX s q v).x q = v := by simp [setX_x]
theorem setX_x_ne (s : State) (q : Nat) (v : QX) (i : Nat) (h : i ≠ q) : (setX s q v).x i = s.x i := by
  simp [setX_x, h]
theorem handedOf_setX (s : State) (q : Nat) (v : QX) (i : Nat) : handedOf (setX s q v) i = handedOf s i := rfl
theorem wireOf_setX (s : State) (q : Nat) (v : QX) (i : Nat) : wireOf (setX s q v) i = wireOf s i := rfl

theorem proj_append_self (l : List (Nat × Nat)) (q m : Nat) :
    ((l ++ [(q, m)]).filter (·.1 == q)).map (·.2) = (l.filter (·.1 == q)).map (·.2) ++ [m] := by
  simp [List.filter_append]

theorem proj_append_ne (l : List (Nat × Nat)) (q' q m : Nat) (h : q' ≠ q) :
    ((l ++ [(q', m)]).filter (·.1 == q)).map (·.2) = (l.filter (·.1 == q)).map (·.2) := by
  simp [List.filter_append, h]

/-- **every product step is one of the `QStep` cases for every queue** -/
theorem qstep (s : State) (a : Act) (q : Nat) : QStep s (step s a) a q := by
  unfold step stepWith
  by_cases he : enabled s a = true
  · rw [if_pos he]
    cases a with
    | connected p => exact .same (fun _ => by simp [xTarget]) rfl rfl rfl
    | disconnected p => exact .same (fun _ => by simp [xTarget]) rfl rfl rfl
    | shutdownCall i => exact .same (fun _ => by simp [xTarget]) rfl rfl rfl
    | getProcess p => exact .same (fun _ => by simp [xTarget]) rfl rfl rfl
    | exit i => exact .same (fun _ => by simp [xTarget]) rfl rfl rfl
    | build i m =>
      by_cases hiq : i = q
      · subst hiq
        have hd : i ∈ s.handles := by simpa [enabled] using he
        cases hc : (s.x i).closed with
        | true =>
          refine .buildClosed m rfl hd hc ?_ ?_ ?_
          · simp only [apply, hc, if_true]; rw [setX_x_self]
          · simp only [apply, hc, if_true]; rw [handedOf_setX]; exact proj_append_self _ _ _
          · simp only [apply, hc, if_true]; rfl
        | false =>
          refine .buildOpen m rfl hd hc ?_ ?_ ?_
          · simp only [apply, hc]; rw [if_neg (by simp), setX_x_self]
          · simp only [apply, hc]; rw [if_neg (by simp), handedOf_setX]; exact proj_append_self _ _ _
          · simp only [apply, hc]; rw [if_neg (by simp)]; rfl
      · have hqi : q ≠ i := fun h => hiq h.symm
        refine .same (fun _ => by simp [xTarget, hiq]) ?_ ?_ ?_
        · simp only [apply]; split <;> rw [setX_x_ne _ _ _ _ hqi]
        · simp only [apply]; split <;> (rw [handedOf_setX]; exact proj_append_ne _ _ _ _ hiq)
        · simp only [apply]; split <;> rfl
    | take i =>
      by_cases hiq : i = q
      · subst hiq
        simp only [enabled, Bool.and_eq_true, Bool.not_eq_true', Option.isNone_iff_eq_none] at he
        cases hq : (s.x i).queued with
        | nil => rw [hq] at he; simp at he
        | cons m r =>
          refine .take m r rfl he.1.1 he.1.2 hq ?_ ?_ ?_
          · simp only [apply, hq]; rw [setX_x_self]
          · simp only [apply, hq]; rfl
          · simp only [apply, hq]; rfl
      · have hqi : q ≠ i := fun h => hiq h.symm
        refine .same (fun _ => by simp [xTarget, hiq]) ?_ ?_ ?_
        · simp only [apply]; split
          · rfl
          · rw [setX_x_ne _ _ _ _ hqi]
        · simp only [apply]; split <;> rfl
        · simp only [apply]; split <;> rfl
    | wire i =>
      by_cases hiq : i = q
      · subst hiq
        cases hi : (s.x i).inflight with
        | none => simp [enabled, hi] at he
        | some mw =>
          obtain ⟨m, w⟩ := mw
          cases w with
          | true => simp [enabled, hi] at he
          | false =>
            refine .wire m rfl hi ?_ ?_ ?_
            · simp only [apply, hi]; rw [setX_x_self]
            · simp only [apply, hi]; rfl
            · simp only [apply, hi]; rw [wireOf_setX]; exact proj_append_self _ _ _
      · have hqi : q ≠ i := fun h => hiq h.symm
        refine .same (fun _ => by simp [xTarget, hiq]) ?_ ?_ ?_
        · simp only [apply]; split
          · rw [setX_x_ne _ _ _ _ hqi]
          · rfl
        · simp only [apply]; split <;> rfl
        · simp only [apply]; split
          · rw [wireOf_setX]; exact proj_append_ne _ _ _ _ hiq
          · rfl
    | finish i o sc =>
      by_cases hiq : i = q
      · subst hiq
        cases hi : (s.x i).inflight with
        | none => simp [enabled, hi, finishOk] at he
        | some mw =>
          obtain ⟨m, w⟩ := mw
          cases o with
          | sent =>
            refine .finish .sent sc m w (s.x i).failed (s.x i).queued rfl hi (List.Sublist.refl _) ?_ ?_ ?_
            · simp only [apply, hi]; rw [setX_x_self]
            · simp only [apply, hi]; rfl
            · simp only [apply, hi]; rfl
          | failed =>
            refine .finish .failed sc m w ((s.x i).failed ++ [m]) ((s.x i).queued.filter (!sc.contains ·)) rfl hi
              List.filter_sublist ?_ ?_ ?_
            · simp only [apply, hi]; rw [setX_x_self]
            · simp only [apply, hi]; rfl
            · simp only [apply, hi]; rfl
          | openFailed =>
            refine .finish .openFailed sc m w ((s.x i).failed ++ [m]) ((s.x i).queued.filter (!sc.contains ·)) rfl hi
              List.filter_sublist ?_ ?_ ?_
            · simp only [apply, hi]; rw [setX_x_self]
            · simp only [apply, hi]; rfl
            · simp only [apply, hi]; rfl
      · have hqi : q ≠ i := fun h => hiq h.symm
        refine .same (fun _ => by simp [xTarget, hiq]) ?_ ?_ ?_
        · simp only [apply]; split
          · rfl
          · cases o <;> simp only <;> rw [setX_x_ne _ _ _ _ hqi]
        · simp only [apply]; split
          · rfl
          · cases o <;> rfl
        · simp only [apply]; split
          · rfl
          · cases o <;> rfl
    | close i =>
      by_cases hiq : i = q
      · subst hiq
        simp only [enabled, Bool.and_eq_true, Bool.not_eq_true', Option.isNone_iff_eq_none] at he
        exact .close rfl he.1.1 he.1.2 he.2 (by simp only [apply]; rw [setX_x_self]) rfl rfl
      · have hqi : q ≠ i := fun h => hiq h.symm
        exact .same (fun _ => by simp [xTarget, hiq]) (by simp only [apply]; rw [setX_x_ne _ _ _ _ hqi]) rfl rfl
  · rw [if_neg he]; exact .same (fun h => absurd h he) rfl rfl rfl

/-! ## the product invariant -/

structure PInv (s : State) : Prop where
  /-- the peer-manager component is a reachable state of `GS.PM` -/
  pmr : GS.C17.Reachable s.pm
  /-- `mq.closed` is only set in the `done` branch -/
  closed_told : ∀ q, (s.x q).closed = true → told s q = true
  /-- a closed queue holds no message: nothing queued, nothing in flight -/
  closed_empty : ∀ q, (s.x q).closed = true → (s.x q).queued = [] ∧ (s.x q).inflight = none
  /-- the goroutine ends only after the `done` branch -/
  exited_closed : ∀ q, exited s q = true → (s.x q).closed = true
  handles_created : ∀ q ∈ s.handles, created s q = true
  /-- a queue that does not exist has done nothing -/
  uncreated : ∀ q, created s q = false → s.x q = {} ∧ handedOf s q = [] ∧ wireOf s q = []
  /-- on the wire, then in flight and not yet sent, then queued: a subsequence of what was handed over -/
  fifo : ∀ q, (wireOf s q ++ unw (s.x q).inflight ++ (s.x q).queued).Sublist (handedOf s q)

theorem PInv.init : PInv {} := by
  refine ⟨⟨[], rfl⟩, ?_, ?_, ?_, ?_, ?_, ?_⟩
  · intro q h; cases h
  · intro q h; cases h
  · intro q h; cases h
  · intro q h; cases h
  · intro q _; exact ⟨rfl, rfl, rfl⟩
  · intro q; exact List.Sublist.refl _

theorem pm_reachable_step {pm : PM.State} (h : GS.C17.Reachable pm) (b : PM.Act) : GS.C17.Reachable (PM.step pm b) := by
  obtain ⟨acts, rfl⟩ := h
  exact ⟨acts ++ [b], by simp [PM.run, List.foldl_append]⟩

theorem getProcess_created {pm : PM.State} (h : GS.C17.Reachable pm) (p : Nat) :
    (qget (getProcess pm p).1 (getProcess pm p).2).isSome = true := by
  obtain ⟨y, hy, hid, _⟩ := GS.C17.getProcess_not_exited h p
  unfold qget
  rw [List.find?_isSome]
  exact ⟨y, hy, by simp [hid]⟩

theorem PInv.step {s : State} (h : PInv s) (a : Act) : PInv (step s a) := by
  have hcr : ∀ q, created (PQ.step s a) q = false → created s q = false := by
    intro q hq
    cases hc : created s q with
    | false => rfl
    | true => rw [created_mono s a q hc] at hq; cases hq
  refine ⟨?_, ?_, ?_, ?_, ?_, ?_, ?_⟩
  · rcases step_pm s a with e | ⟨_, b, _, e⟩
    · rw [e]; exact h.pmr
    · rw [e]; exact pm_reachable_step h.pmr b
  · intro q hc
    cases qstep s a q with
    | same _ hx _ _ => rw [hx] at hc; exact told_mono s a q (h.closed_told q hc)
    | buildOpen m _ _ hc0 hx _ _ => rw [hx] at hc; simp only [hc0] at hc; cases hc
    | buildClosed m _ _ hc0 _ _ _ => exact told_mono s a q (h.closed_told q hc0)
    | take m r _ hc0 _ _ hx _ _ => rw [hx] at hc; simp only [hc0] at hc; cases hc
    | wire m _ _ hx _ _ => rw [hx] at hc; exact told_mono s a q (h.closed_told q hc)
    | finish o sc m w f q' _ _ _ hx _ _ => rw [hx] at hc; exact told_mono s a q (h.closed_told q hc)
    | close _ ht _ _ _ _ _ => exact told_mono s a q ht
  · intro q hc
    cases qstep s a q with
    | same _ hx _ _ => rw [hx] at hc ⊢; exact h.closed_empty q hc
    | buildOpen m _ _ hc0 hx _ _ => rw [hx] at hc; simp only [hc0] at hc; cases hc
    | buildClosed m _ _ hc0 hx _ _ => rw [hx]; exact h.closed_empty q hc0
    | take m r _ hc0 _ _ hx _ _ => rw [hx] at hc; simp only [hc0] at hc; cases hc
    | wire m _ hi hx _ _ =>
      rw [hx] at hc
      have := (h.closed_empty q hc).2
      rw [hi] at this; cases this
    | finish o sc m w f q' _ hi _ hx _ _ =>
      rw [hx] at hc
      have := (h.closed_empty q hc).2
      rw [hi] at this; cases this
    | close _ _ _ hi hx _ _ => rw [hx]; exact ⟨rfl, hi⟩
  · intro q he
    have hclosed_mono : (s.x q).closed = true → ((PQ.step s a).x q).closed = true := by
      intro hc
      cases qstep s a q with
      | same _ hx _ _ => rw [hx]; exact hc
      | buildOpen m _ _ hc0 _ _ _ => rw [hc0] at hc; cases hc
      | buildClosed m _ _ _ hx _ _ => rw [hx]; exact hc
      | take m r _ hc0 _ _ _ _ _ => rw [hc0] at hc; cases hc
      | wire m _ _ hx _ _ => rw [hx]; exact hc
      | finish o sc m w f q' _ _ _ hx _ _ => rw [hx]; exact hc
      | close _ _ _ _ hx _ _ => rw [hx]
    rcases exited_step s a q he with h0 | ⟨ha, hen⟩
    · exact hclosed_mono (h.exited_closed q h0)
    · subst ha
      apply hclosed_mono
      simp only [enabled, Bool.and_eq_true] at hen
      exact hen.1
  · intro q hq
    have hold : ∀ q ∈ s.handles, created (PQ.step s a) q = true :=
      fun q hq => created_mono s a q (h.handles_created q hq)
    unfold PQ.step stepWith at hq ⊢
    by_cases hen : enabled s a = true
    · rw [if_pos hen] at hq ⊢
      have hold' : ∀ q ∈ s.handles, created (apply queueExit s a) q = true := by
        intro q hq
        have := hold q hq
        unfold PQ.step stepWith at this
        rw [if_pos hen] at this; exact this
      cases a with
      | getProcess p =>
        simp only [apply, List.mem_cons] at hq
        rcases hq with rfl | hq
        · exact getProcess_created h.pmr p
        · exact hold' q hq
      | connected p => exact hold' q hq
      | disconnected p => exact hold' q hq
      | shutdownCall i => exact hold' q hq
      | exit i => exact hold' q hq
      | close i => exact hold' q hq
      | build i m => exact hold' q (by simp only [apply] at hq; split at hq <;> exact hq)
      | take i => exact hold' q (by simp only [apply] at hq; split at hq <;> exact hq)
      | wire i => exact hold' q (by simp only [apply] at hq; split at hq <;> exact hq)
      | finish i o sc =>
        refine hold' q ?_
        simp only [apply] at hq
        split at hq
        · exact hq
        · cases o <;> exact hq
    · rw [if_neg hen] at hq ⊢; exact h.handles_created q hq
  · intro q hq
    have h0 := hcr q hq
    obtain ⟨u1, u2, u3⟩ := h.uncreated q h0
    have nh : q ∉ s.handles := fun hd => by rw [h.handles_created q hd] at h0; cases h0
    cases qstep s a q with
    | same _ hx hh hw => rw [hx, hh, hw]; exact ⟨u1, u2, u3⟩
    | buildOpen m _ hd _ _ _ _ => exact absurd hd nh
    | buildClosed m _ hd _ _ _ _ => exact absurd hd nh
    | take m r _ _ _ hqd _ _ _ => rw [u1] at hqd; cases hqd
    | wire m _ hi _ _ _ => rw [u1] at hi; cases hi
    | finish o sc m w f q' _ hi _ _ _ _ => rw [u1] at hi; cases hi
    | close _ ht _ _ _ _ _ => rw [told_created ht] at h0; cases h0
  · intro q
    have f0 := h.fifo q
    cases qstep s a q with
    | same _ hx hh hw => rw [hx, hh, hw]; exact f0
    | buildOpen m _ _ _ hx hh hw =>
      rw [hx, hh, hw]
      simp only
      rw [← List.append_assoc]
      exact List.Sublist.append f0 (List.Sublist.refl _)
    | buildClosed m _ _ _ hx hh hw =>
      rw [hx, hh, hw]
      exact f0.trans (List.sublist_append_left _ _)
    | take m r _ _ hi hqd hx hh hw =>
      rw [hx, hh, hw]
      rw [hi, hqd] at f0
      simpa [unw] using f0
    | wire m _ hi hx hh hw =>
      rw [hx, hh, hw]
      rw [hi] at f0
      simpa [unw] using f0
    | finish o sc m w f q' _ hi hsub hx hh hw =>
      rw [hx, hh, hw]
      refine List.Sublist.trans ?_ f0
      simp only [unw, List.append_nil]
      exact List.Sublist.append (List.sublist_append_left _ _) hsub
    | close _ _ _ hi hx hh hw =>
      rw [hx, hh, hw]
      refine List.Sublist.trans ?_ f0
      simp only [List.append_nil]
      exact List.sublist_append_left _ _

end GS.PQ
