import GS.Model.PauseResume
import GSProofs.Lemmas.PauseConservative
import GSProofs.Lemmas.PauseRequestor
/-!
A requestor-side pause during the local phase of an exchange (the request has not gone to the network
yet: all blocks so far came from the requestor's own store), resumed at any later time: the exchange
then runs exactly as the uninterrupted one, for EVERY list of response messages.
-/
namespace GS.C06
open GS.Loader GS.Requestor GS.PauseResume

theorem setOnline_false_offline (l : Loader.State) (h : l.isOpen = false) : Loader.setOnline l false = l := by
  unfold Loader.setOnline
  cases l
  simp_all

/-- the executor over a locally held prefix `pre` of the cursor, with a hook pause at the last block
    of the prefix: the uninterrupted executor runs through the prefix to a state `r'` and goes on;
    the hooked one runs through the same prefix to the same state and pauses there. -/
theorem prefix_sim : ∀ (pre : List LNode) (post : LT) (f : Nat) (r : Requestor.State) (k : Nat),
    LocalSt r → r.todo = pre ++ post → (∀ n ∈ pre, has r.L.store n = true) → pre ≠ [] →
    k = r.nBlocks + pre.length →
    ∃ r' : Requestor.State, LocalSt r' ∧ r'.todo = post ∧ r'.nBlocks = k ∧
      drive (pre.length + f) r = ((drive f r').1, localEvs pre r.nBlocks ++ (drive f r').2) ∧
      driveP (pre.length + f) (hooked [k] r) =
        ((stopForPause (hooked [k] r')).1, localEvs pre r.nBlocks ++ [Ev.sentCancel]) := by
  intro pre
  induction pre with
  | nil => intro post f r k _ _ _ hne; exact absurd rfl hne
  | cons n pre' ih =>
    intro post f r k h htodo hhas _ hk
    obtain ⟨l1, b, hln, hoff1, hst1⟩ := loadNode_local r n h.off (hhas n (List.mem_cons_self ..))
    let r2 : Requestor.State := { r with L := l1, todo := pre' ++ post, nBlocks := r.nBlocks + 1 }
    have h2 : LocalSt r2 := ⟨hoff1, h.running, h.notSent, h.noTerm⟩
    have hlen : (n :: pre').length + f = (pre'.length + f) + 1 := by simp only [List.length_cons]; omega
    -- one iteration of the uninterrupted executor
    have hdrive : drive ((n :: pre').length + f) r =
        ((drive (pre'.length + f) r2).1,
          [Ev.block n.cid n.path true (r.nBlocks + 1), Ev.prog n.vData] ++ (drive (pre'.length + f) r2).2) := by
      rw [hlen, drive_succ, if_neg (by simp [h.running]), htodo]
      simp only [List.cons_append]
      rw [hln]
      simp only [handle, writeEvs, List.nil_append]
      rfl
    -- the same iteration of the hooked executor, up to the pause check
    have hew : ∀ (x : PState), endsWith x n { data := some b, err := none, loc := true } = none := by
      intro x; unfold endsWith; split <;> rfl
    have hdriveP : driveP ((n :: pre').length + f) (hooked [k] r) =
        ((afterLoad (hooked [k] r2) true (driveP (pre'.length + f))).1,
          [Ev.block n.cid n.path true (r.nBlocks + 1), Ev.prog n.vData] ++
            (afterLoad (hooked [k] r2) true (driveP (pre'.length + f))).2) := by
      rw [hlen, driveP]
      have hg : ((hooked [k] r).R.phase != Phase.running || (hooked [k] r).paused) = false := by
        simp [hooked, h.running]
      rw [if_neg (by simp [hg])]
      show (match r.todo with
        | [] => (hooked [k] (finish r).1, (finish r).2)
        | n :: rest =>
          match loadNode r n with
          | (r1, ev1, none) => (hooked [k] r1, ev1)
          | (r1, ev1, some res) => afterResult (hooked [k] r1) n rest res ev1 (driveP (pre'.length + f))) = _
      rw [htodo]
      simp only [List.cons_append]
      rw [hln]
      simp only
      unfold afterResult
      rw [hew]
      simp only
      rw [handle_local]
      simp only [List.nil_append, Option.isNone_none]
      rfl
    cases pre' with
    | nil =>
      -- the hook fires at this block
      have hk1 : k = r.nBlocks + 1 := by simpa using hk
      refine ⟨r2, h2, by simp [r2], by simp [r2, hk1], ?_, ?_⟩
      · rw [hdrive]; simp [localEvs]
      · rw [hdriveP]
        unfold afterLoad pauseCheck
        have : (hooked [k] r2).hookAt.contains (hooked [k] r2).R.nBlocks = true := by
          simp [hooked, r2, hk1]
        simp only [this, Bool.true_and, Bool.true_or]
        simp [hooked, localEvs, stopForPause]
    | cons n2 pre'' =>
      -- not yet: the block count is still below the hook index
      have hk2 : k = r2.nBlocks + (n2 :: pre'').length := by
        simp only [r2, List.length_cons] at hk ⊢; omega
      obtain ⟨r', hl', htd', hnb', hd', hdP'⟩ := ih post f r2 k h2 rfl
        (fun m hm => by
          have := hhas m (List.mem_cons_of_mem _ hm)
          simpa [r2, hst1] using this)
        (by simp) hk2
      refine ⟨r', hl', htd', hnb', ?_, ?_⟩
      · rw [hdrive, hd']; simp [localEvs, r2]
      · rw [hdriveP]
        have hne : (hooked [k] r2).R.nBlocks ∉ [k] := by
          simp only [hooked, r2, List.length_cons] at hk ⊢
          simp only [List.mem_singleton]
          omega
        rw [afterLoad_dead [k] r2 true (fun _ => hne)]
        rw [hdP']
        simp [localEvs, r2]

/-- the state in which `unpause` restarts the executor after a pause in the local phase -/
theorem unpause_local (k : Nat) (r' : Requestor.State) (hl : LocalSt r') :
    PauseResume.unpause (stopForPause (hooked [k] r')).1 =
      driveP (fuelFor r') (hooked [k] r') := by
  have hrun := hl.running
  have hns := hl.notSent
  have hoff := setOnline_false_offline r'.L hl.off.closed
  obtain ⟨L, todo, phase, rs, nb, us, cc, te⟩ := r'
  simp only at hrun hns hoff
  subst hrun; subst hns
  unfold PauseResume.unpause stopForPause
  simp only [hooked, bne_self_eq_false, Bool.not_true, Bool.or_self, Bool.false_eq_true, if_false, hoff]

/-- **early pause.**  The exchange with a hook pause after the `pre.length`-th block, where all of `pre`
    is held locally, resumed before the messages `msgs` arrive, ends in the same requestor state as the
    uninterrupted exchange and reports the same events apart from the cancel message sent for the pause. -/
theorem early_pause (st : List (Cid × Blk)) (pre post : LT) (u : Nat) (hpre : pre ≠ [])
    (hhas : ∀ n ∈ pre, has st n = true) (msgs : List Requestor.Msg) :
    ∃ (tail : List Ev),
      PauseResume.exchange st (pre ++ post) u [pre.length] (PauseResume.Op.unpause :: msgs.map toOp) =
        (hooked [pre.length] (Requestor.exchange st (pre ++ post) u msgs).1,
          localEvs pre 0 ++ [Ev.sentCancel] ++ tail) ∧
      (Requestor.exchange st (pre ++ post) u msgs).2 = localEvs pre 0 ++ tail := by
  let r0 : Requestor.State := { ({ L := { store := st } } : Requestor.State) with
    todo := pre ++ post, phase := .running, userSkip := u }
  have h0 : LocalSt r0 := ⟨⟨rfl, rfl, rfl⟩, rfl, rfl, rfl⟩
  obtain ⟨r', hl', htd', hnb', hd', hdP'⟩ := prefix_sim pre post (post.length + 2) r0 pre.length h0 rfl
    (fun n hn => hhas n hn) hpre (by simp [r0])
  have hfuel : fuelFor r0 = pre.length + (post.length + 2) := by simp [fuelFor, r0]; omega
  have hfuel' : fuelFor r' = post.length + 2 := by simp [fuelFor, htd']
  refine ⟨(drive (post.length + 2) r').2 ++ (feed (drive (post.length + 2) r').1 msgs).2, ?_, ?_⟩
  · unfold PauseResume.exchange PauseResume.request
    show (let p := driveP (fuelFor r0) (hooked [pre.length] r0)
          let q := PauseResume.run p.1 (PauseResume.Op.unpause :: msgs.map toOp)
          (q.1, p.2 ++ q.2)) = _
    simp only
    rw [hfuel, hdP']
    simp only [PauseResume.run, PauseResume.step]
    rw [unpause_local pre.length r' hl', hfuel']
    rw [driveP_dead [pre.length] _ r' (fun j hj => by simp at hj; omega)]
    simp only
    rw [run_dead [pre.length] msgs _ ((fun j hj => by
      simp at hj
      have := drive_nBlocks (post.length + 2) r'
      omega) : DeadAt [pre.length] (drive (post.length + 2) r').1)]
    simp only [Requestor.exchange, Requestor.request]
    show _ = (hooked [pre.length] (let p := drive (fuelFor r0) r0; let q := feed p.1 msgs; (q.1, p.2 ++ q.2)).1, _)
    simp only
    rw [hfuel, hd']
  · simp only [Requestor.exchange, Requestor.request]
    show (let p := drive (fuelFor r0) r0; let q := feed p.1 msgs; (q.1, p.2 ++ q.2)).2 = _
    simp only
    rw [hfuel, hd']
    simp [r0]

end GS.C06
