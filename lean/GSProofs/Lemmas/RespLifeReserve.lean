import GSProofs.Lemmas.RespLifeAccMgr
/-!
Waiting allocator reservations (`State.waiting`) and their parties.
`WI s`: a waiting reservation of party `worker w` ⇒ worker `w` is in phase `blockedTx _ _ false`; no two waiting
reservations belong to the same worker.  `WR s s'`: the waiting list shrinks to a sublist and every worker that still
waits is untouched — satisfied by everything except the failing `tryAlloc` (which appends) .
-/
namespace GS.RespLife

def BF (s : State) (w : Nat) : Prop := ∃ wk ops k, s.workers[w]? = some wk ∧ wk.phase = .blockedTx ops k false

def PWr (a b : Waiting) : Prop := ∀ w, a.party = .worker w → b.party ≠ .worker w

def PW (l : List Waiting) : Prop := l.Pairwise PWr

def WI (s : State) : Prop := PW s.waiting ∧ ∀ x ∈ s.waiting, ∀ w, x.party = .worker w → BF s w

def WR (s s' : State) : Prop :=
  s'.waiting.Sublist s.waiting ∧ (∀ w, (∃ x ∈ s'.waiting, x.party = .worker w) → s'.workers[w]? = s.workers[w]?) ∧
    s.workers.length ≤ s'.workers.length

theorem WR.refl (s : State) : WR s s := ⟨List.Sublist.refl _, fun _ _ => rfl, Nat.le_refl _⟩

theorem WR.trans {a b c : State} (h1 : WR a b) (h2 : WR b c) : WR a c := by
  refine ⟨h2.1.trans h1.1, fun w hw => ?_, Nat.le_trans h1.2.2 h2.2.2⟩
  obtain ⟨x, hx, hp⟩ := hw
  rw [h2.2.1 w ⟨x, hx, hp⟩]
  exact h1.2.1 w ⟨x, h2.1.subset hx, hp⟩

theorem WR.of_eq {s s' : State} (hw : s'.waiting = s.waiting) (hk : s'.workers = s.workers) : WR s s' := by
  refine ⟨by rw [hw]; exact List.Sublist.refl _, fun _ _ => by rw [hk], by rw [hk]; exact Nat.le_refl _⟩

theorem WI.wr {s s' : State} (h : WI s) (hr : WR s s') : WI s' := by
  refine ⟨h.1.sublist hr.1, fun x hx w hp => ?_⟩
  obtain ⟨wk, ops, k, h1, h2⟩ := h.2 x (hr.1.subset hx) w hp
  exact ⟨wk, ops, k, by rw [hr.2.1 w ⟨x, hx, hp⟩]; exact h1, h2⟩

theorem getElem?_setWorker_ne (s : State) (w : Nat) (f : Worker → Worker) {i : Nat} (h : i ≠ w) :
    (setWorker s w f).workers[i]? = s.workers[i]? := by
  simp only [setWorker, List.getElem?_mapIdx]
  have : (i == w) = false := by simpa using h
  cases s.workers[i]? <;> simp [this]

theorem wr_setWorker (s : State) (w : Nat) (f : Worker → Worker)
    (hn : ∀ x ∈ s.waiting, x.party ≠ .worker w) : WR s (setWorker s w f) := by
  refine ⟨List.Sublist.refl _, fun i hi => ?_, by simp [setWorker]⟩
  obtain ⟨x, hx, hp⟩ := hi
  have : i ≠ w := fun e => hn x hx (e ▸ hp)
  exact getElem?_setWorker_ne s w f this

theorem wr_setPhase (s : State) (w : Nat) (ph : WPhase)
    (hn : ∀ x ∈ s.waiting, x.party ≠ .worker w) : WR s (setPhase s w ph) := wr_setWorker s w _ hn

/-- an element left after erasing `a` from a pairwise list is related to `a` -/
theorem pw_erase {l : List Waiting} (h : PW l) {a x : Waiting} (ha : a ∈ l) (hx : x ∈ l.erase a) :
    PWr a x ∨ PWr x a := by
  induction l with
  | nil => cases ha
  | cons y t ih =>
    have hp := List.pairwise_cons.1 h
    rw [List.erase_cons] at hx
    split at hx
    · rename_i hy
      have : y = a := by simpa using hy
      subst this
      exact Or.inl (hp.1 x hx)
    · rename_i hy
      have hne : y ≠ a := by simpa using hy
      have hat : a ∈ t := by
        rcases List.mem_cons.1 ha with h1 | h1
        · exact absurd h1.symm hne
        · exact h1
      rcases List.mem_cons.1 hx with h1 | h1
      · subst h1; exact Or.inr (hp.1 a hat)
      · exact ih hp.2 hat h1

theorem waiting_grantTo (s : State) (party : Party) : (grantTo s party).waiting = s.waiting := by
  cases party <;> rfl

theorem wr_grantLoop (fuel : Nat) : ∀ (s : State) (p : Peer), PW s.waiting → WR s (grantLoop fuel s p) := by
  induction fuel with
  | zero => intro s p _; exact WR.refl s
  | succ n ih =>
    intro s p hpw
    unfold grantLoop
    split
    · exact WR.refl s
    · rename_i w0 hf
      split
      · simp only
        have hmem : w0 ∈ s.waiting := List.mem_of_find?_eq_some hf
        have hstep : WR s (grantTo (addAlloc { s with waiting := s.waiting.erase w0 } p w0.size) w0.party) := by
          refine ⟨by rw [waiting_grantTo]; exact List.erase_sublist, fun i hi => ?_, ?_⟩
          rotate_left
          · cases w0.party with
            | mgr => exact Nat.le_refl _
            | worker j => simp [grantTo, setWorker, addAlloc, setMQ]
          obtain ⟨x, hx, hp⟩ := hi
          rw [waiting_grantTo] at hx
          have hx' : x ∈ s.waiting.erase w0 := hx
          cases hpa : w0.party with
          | mgr => rfl
          | worker j =>
            have hij : i ≠ j := by
              intro e
              subst e
              rcases pw_erase hpw hmem hx' with h1 | h1
              · exact h1 i hpa hp
              · exact h1 i hp hpa
            exact getElem?_setWorker_ne (addAlloc { s with waiting := s.waiting.erase w0 } p w0.size) j _ hij
        refine hstep.trans (ih _ p ?_)
        rw [waiting_grantTo]
        exact hpw.sublist List.erase_sublist
      · exact WR.refl s

theorem wr_release (s : State) (p : Peer) (n : Nat) (hpw : PW s.waiting) : WR s (release s p n) := by
  unfold release
  simp only
  exact (WR.of_eq (s := s) rfl rfl).trans (wr_grantLoop _ _ p hpw)

theorem wr_buildNow (s : State) (party : Party) (p : Peer) (id : Id) (ops : List TxOp) (hpw : PW s.waiting) :
    WR s (buildNow s party p id ops) := by
  unfold buildNow
  simp only
  split
  · split
    · exact wr_release s p _ hpw
    · exact WR.refl s
  · exact WR.of_eq rfl rfl

/-- `execTx`: either done (`WR`) or the caller now waits: exactly one reservation of `party` was appended -/
theorem execTx_cases (s : State) (party : Party) (p : Peer) (id : Id) (ops : List TxOp) (hpw : PW s.waiting) :
    ((execTx s party p id ops).2 = true ∧ WR s (execTx s party p id ops).1) ∨
    ((execTx s party p id ops).2 = false ∧ ∃ n, (execTx s party p id ops).1 =
      { s with waiting := s.waiting ++ [{ party, peer := p, size := n }] }) := by
  unfold execTx
  split
  · exact Or.inl ⟨rfl, WR.refl s⟩
  · simp only
    split
    · exact Or.inl ⟨rfl, wr_buildNow s party p id ops hpw⟩
    · unfold tryAlloc
      split
      · simp only
        refine Or.inl ⟨rfl, (WR.of_eq (s' := addAlloc s p (txSize s.extLen ops)) rfl rfl).trans
          (wr_buildNow _ party p id ops hpw)⟩
      · exact Or.inr ⟨rfl, _, rfl⟩

-- ------------------------------------------------------------------ the waiting worker
def noEntry (s : State) (w : Nat) : Prop := ∀ x ∈ s.waiting, x.party ≠ .worker w

def WOK (s : State) (w : Nat) : Prop := w < s.workers.length ∧ noEntry s w

theorem WOK.wr {s s' : State} {w : Nat} (h : WOK s w) (hr : WR s s') : WOK s' w :=
  ⟨Nat.lt_of_lt_of_le h.1 hr.2.2, fun x hx => h.2 x (hr.1.subset hx)⟩

theorem getElem?_setWorker_eq (s : State) (w : Nat) (f : Worker → Worker) :
    (setWorker s w f).workers[w]? = (s.workers[w]?).map f := by
  simp only [setWorker, List.getElem?_mapIdx]
  cases s.workers[w]? <;> simp

/-- the executor blocks in a reservation: the reservation is appended and the worker enters `blockedTx … false` -/
theorem wi_block {s : State} {w : Nat} (h : WI s) (hk : WOK s w) (p : Peer) (n : Nat) (ops : List TxOp) (k : AfterTx) :
    WI (setPhase { s with waiting := s.waiting ++ [{ party := .worker w, peer := p, size := n }] } w
      (.blockedTx ops k false)) := by
  constructor
  · show PW (s.waiting ++ [_])
    unfold PW
    rw [List.pairwise_append]
    refine ⟨h.1, List.pairwise_singleton _ _, fun a ha b hb i hi => ?_⟩
    simp only [List.mem_singleton] at hb
    subst hb
    intro e
    simp only [Party.worker.injEq] at e
    subst e
    exact hk.2 a ha hi
  · intro x hx i hp
    have hx' : x ∈ s.waiting ++ [{ party := .worker w, peer := p, size := n }] := hx
    rcases List.mem_append.1 hx' with hx1 | hx1
    · have hne : i ≠ w := fun e => hk.2 x hx1 (e ▸ hp)
      obtain ⟨wk, o, kk, h1, h2⟩ := h.2 x hx1 i hp
      refine ⟨wk, o, kk, ?_, h2⟩
      show (setWorker _ w _).workers[i]? = _
      rw [getElem?_setWorker_ne _ w _ hne]; exact h1
    · simp only [List.mem_singleton] at hx1
      subst hx1
      simp only [Party.worker.injEq] at hp
      subst hp
      obtain ⟨wk, hwk⟩ : ∃ wk, s.workers[w]? = some wk := by
        cases hh : s.workers[w]? with
        | some wk => exact ⟨wk, rfl⟩
        | none => rw [List.getElem?_eq_none_iff] at hh; exact absurd hk.1 (by omega)
      refine ⟨{ wk with phase := .blockedTx ops k false }, ops, k, ?_, rfl⟩
      show (setWorker _ w _).workers[w]? = _
      rw [getElem?_setWorker_eq]
      show (s.workers[w]?).map _ = _
      rw [hwk]; rfl

/-- the manager waits: a reservation of party `mgr` is appended -/
theorem wi_mgr_append {s s' : State} (h : WI s) {p : Peer} {n : Nat}
    (hw : s'.waiting = s.waiting ++ [{ party := .mgr, peer := p, size := n }]) (hk : s'.workers = s.workers) :
    WI s' := by
  constructor
  · rw [hw]
    unfold PW
    rw [List.pairwise_append]
    refine ⟨h.1, List.pairwise_singleton _ _, fun a _ b hb i _ => ?_⟩
    simp only [List.mem_singleton] at hb
    subst hb
    intro e; cases e
  · intro x hx i hp
    rw [hw] at hx
    rcases List.mem_append.1 hx with hx1 | hx1
    · obtain ⟨wk, o, kk, h1, h2⟩ := h.2 x hx1 i hp
      exact ⟨wk, o, kk, by rw [hk]; exact h1, h2⟩
    · simp only [List.mem_singleton] at hx1
      subst hx1
      cases hp

end GS.RespLife
