import GSProofs.C20Shared
import GSProofs.Lemmas.ConcurrentCleanSys
/-!
# C20 — the cleanliness hypothesis of `shared_store_follows`, clause by clause

`GSProofs/C20Shared.lean` proves `shared_store_follows` (a request with a dedup key of its own over the
SHARED store goes through the run it goes through alone over the store as it was when it was issued)
under the hypothesis that the alone run is `CleanAt` at each of its states.  `CleanAt` has three clauses:

* `reg`    — the request context is not cancelled; a running request has been sent and has a node at its
             cursor;
* `nofail` — no failure status is delivered to the running request;
* `miss`   — no block is reported missing that the responder holds (completeness of the SINGLE request,
             property C02).

This file discharges `reg` and `nofail` as INVARIANTS of the alone run, for every store (`st ⊆ rem` is not
even needed), every link tree whose depth-0 links (for a well-formed tree: the root only) are blocks
the responder holds, and every schedule of the request's actions (`alone_run_regular`); and it reduces
`miss` to ONE statement about the END of the alone run (reports only grow: `run_evs_prefix`).  Hence

* `alone_run_clean_partial`       — `CleanAt` at every prefix of the alone run from the completeness
                                    clause at its end;
* `shared_store_follows_wf_partial`, `partial_shared_store_wf_partial` — `shared_store_follows` /
  `partial_shared_store_issue_time` with the `CleanAt` hypothesis replaced by that single clause.

## What remains (NOT proved; the full statements)

    theorem alone_run_clean (st rem lts keys i root rest)
        (hl : lts[i]? = some (root :: rest)) (hwf : WF (root :: rest)) (hroot0 : root.path = [])
        (hne : ∀ m ∈ rest, m.path ≠ []) (hdep : ∀ m ∈ rest, m.depth ≠ 0)
        (hdfs : PathsDFS ((root :: rest).map (·.path)))
        (hst : ∀ c, (storeGet st c).isSome = true → c ∈ rem)
        (σ) (hσ : ∀ a ∈ σ, a = .resp i ∨ a = .deliver i) :
        ∀ τ, τ <+: σ → CleanAt i (Concurrent.run (initSys st rem lts keys) (.start i :: τ))

    theorem partial_shared_store_wf : … distinct keys + the hypotheses above for request i ⇒
        resultOf (whole system, any complete schedule) i = resultOf (i alone over its issue-time store) i

    theorem alone_result_store_independent : … st ⊆ rem, st' ⊆ rem ⇒ blocksOf / missingOf / deliveredOf of the
        complete alone run over st = those over st' (= the reference traversal `refTrav` over rem)

By `alone_run_clean_partial` the first one is equivalent to its `miss` clause at the end of the run,
plus the case "the responder lacks the root" (then `st ⊆ rem` says the requestor lacks it too, the
exchange is root-missing wire, status 34 behind it, and the request ends on the first of them; the
`nofail` clause holds because the request is no longer running when the 34 arrives — not covered by
`hd0` below).  The `miss` clause is C02 completeness (`C02.complete_prefix_held`) for the delivery
discipline of this model — ONE response item per message, executor woken after each, the verifier's
replay of the local prefix spread over `N` wake-ups, the terminal status in a message of its own — while
C02's theorems are stated for the whole response ingested as one message before `RetryLastLoad`; what
connects them is (i) `respStep` iterated over `prepare`'s tracker = `respItemsW rem lt [] N` item by
item (C19 `send_iff_partial` for the skip window), (ii) `Loader.ingest` of singletons = `ingest` of the
concatenation on an open loader with intact tail (`ingest_eq_addQ`), (iii) `C02.kahn_schedule` (messages
first) for the executor as `Client`, (iv) the closing `setOnline false`, which `kahn_schedule` does not
cover.  0 violations in 20 000 generated well-formed cases (`#eval` harness of round 4).
-/
namespace GS.C20
open GS.Loader GS.Requestor GS.LinkTrack GS.Concurrent

/-- the actions of request `i` left in a schedule that does not issue it again -/
theorem onlyOf_acts (i : Nat) (post : List Act) (hpost : ∀ a ∈ post, a ≠ .start i) :
    ∀ a ∈ onlyOf i post, a = .resp i ∨ a = .deliver i := by
  intro a ha
  unfold onlyOf at ha
  obtain ⟨h1, h2⟩ := List.mem_filter.mp ha
  have hi : Act.idx a = i := by simpa using h2
  have hn := hpost a h1
  cases a with
  | start j => simp only [Act.idx] at hi; subst hi; exact absurd rfl hn
  | resp j => simp only [Act.idx] at hi; subst hi; exact Or.inl rfl
  | deliver j => simp only [Act.idx] at hi; subst hi; exact Or.inr rfl

/-- the side condition `hd0` below from C02's side conditions on a link tree (`hdep` of
    `C02.exchange_complete_prefix`: only the root has depth 0; `hremroot`: the responder holds the root) -/
theorem depth0_of_root (rem : List Cid) (root : LNode) (rest : LT) (hdep : ∀ m ∈ rest, m.depth ≠ 0)
    (hroot : root.cid ∈ rem) : ∀ m ∈ root :: rest, m.depth = 0 → m.cid ∈ rem := by
  intro m hm hd
  rcases List.mem_cons.mp hm with rfl | hm
  · exact hroot
  · exact absurd hd (hdep m hm)

/-- **C20.alone_run_regular** (clauses `reg` and `nofail` of `CleanAt` are invariants).  Request `i` is
    issued in the initial system over ANY local store `st` and then takes any sequence `τ` of responder
    steps and deliveries.  If every depth-0 link of its link tree (well-formed tree: the root) is a
    block the responder holds, then at the end: its request context is not cancelled; if its executor
    is running it has sent the request and has a node at its cursor; NO message queued for it carries
    a failure status; and the responder has not met a missing root. -/
theorem alone_run_regular (st : List (Cid × Blk)) (rem : List Cid) (lts : List LT) (keys : List (Option Key)) (i : Nat)
    (hd0 : ∀ lt, lts[i]? = some lt → ∀ m ∈ lt, m.depth = 0 → m.cid ∈ rem)
    (τ : List Act) (hτ : ∀ a ∈ τ, a = .resp i ∨ a = .deliver i) :
    let B := Concurrent.run (initSys st rem lts keys) (.start i :: τ)
    (∀ r, B.reqs[i]? = some r → r.ctxCancelled = false ∧ (r.phase = .running → r.requestSent = true ∧ r.todo ≠ [])) ∧
    (∀ ws w, B.chan[i]? = some ws → w ∈ ws → isFailure w.status = false) ∧
    (∀ rr, B.resp[i]? = some rr → rr.rootMiss = false) := by
  intro B
  have hSI : SI i B := SI_run i τ _ hτ (SI_start st rem lts keys i hd0)
  exact ⟨fun r hr => ⟨(hSI.req r hr).ctx, (hSI.req r hr).run⟩, hSI.chan, fun rr hrr => (hSI.resp rr hrr).1⟩

/-- **C20.alone_run_clean_partial.**  `CleanAt` at EVERY prefix of the alone run `start i :: σ` (any
    store, any schedule `σ` of the request's actions) from: the depth-0 links are held by the responder,
    and — the one clause left, single-request completeness (C02) — at the END of the run no block has
    been reported missing that the responder holds. -/
theorem alone_run_clean_partial (st : List (Cid × Blk)) (rem : List Cid) (lts : List LT) (keys : List (Option Key)) (i : Nat)
    (σ : List Act) (hσ : ∀ a ∈ σ, a = .resp i ∨ a = .deliver i)
    (hd0 : ∀ lt, lts[i]? = some lt → ∀ m ∈ lt, m.depth = 0 → m.cid ∈ rem)
    (hmiss : ∀ c p, (c, p) ∈ missingOf ((Concurrent.run (initSys st rem lts keys) (.start i :: σ)).evs.getD i []) → c ∉ rem) :
    ∀ τ, τ <+: σ → CleanAt i (Concurrent.run (initSys st rem lts keys) (.start i :: τ)) := by
  intro τ hτ
  have hτ' : ∀ a ∈ τ, a = .resp i ∨ a = .deliver i := fun a ha => hσ a (hτ.subset ha)
  obtain ⟨h1, h2, _⟩ := alone_run_regular st rem lts keys i hd0 τ hτ'
  refine ⟨h1, fun r w ws _ _ hc => h2 (w :: ws) w hc List.mem_cons_self, ?_⟩
  exact miss_of_end i (initSys st rem lts keys) (.start i :: σ) (.start i :: τ) (prefix_cons_of _ hτ)
    (fun c p hm => by rw [run_rem]; exact hmiss c p hm)

/-- **C20.shared_store_follows_wf_partial.**  `shared_store_follows` (every schedule
    `pre ++ start i :: post`, any number of other requests with other dedup keys, all over one shared
    store ⊆ responder store) with its `CleanAt` hypothesis replaced by: the depth-0 links of request `i`'s
    tree are held by the responder (`hd0`), and the alone run over the issue-time store has, at its END,
    reported no block missing that the responder holds (`hmiss`, C02 completeness). -/
theorem shared_store_follows_wf_partial (st : List (Cid × Blk)) (rem : List Cid) (lts : List LT) (keys : List (Option Key))
    (i : Nat) (k : Key) (pre post : List Act)
    (hst : ∀ c, (storeGet st c).isSome = true → c ∈ rem)
    (hk : keys.getD i none = some k) (hothers : ∀ j, j ≠ i → keys.getD j none ≠ some k)
    (hpre : ∀ a ∈ pre, Act.idx a ≠ i) (hpost : ∀ a ∈ post, a ≠ .start i)
    (hd0 : ∀ lt, lts[i]? = some lt → ∀ m ∈ lt, m.depth = 0 → m.cid ∈ rem)
    (hmiss : ∀ c p, (c, p) ∈ missingOf ((Concurrent.run (initSys (issueStore st rem lts keys pre) rem lts keys)
        (.start i :: onlyOf i post)).evs.getD i []) → c ∉ rem) :
    let A := Concurrent.run (initSys st rem lts keys) (pre ++ .start i :: post)
    let B := Concurrent.run (initSys (issueStore st rem lts keys pre) rem lts keys) (.start i :: onlyOf i post)
    A.evs.getD i [] = B.evs.getD i [] ∧ resultOf A i = resultOf B i ∧ finished A i = finished B i ∧
    A.chan[i]? = B.chan[i]? ∧ A.resp[i]? = B.resp[i]? ∧
    (∀ c, (storeGet B.store c).isSome = true → (storeGet A.store c).isSome = true) :=
  shared_store_follows st rem lts keys i k pre post hst hk hothers hpre hpost
    (alone_run_clean_partial (issueStore st rem lts keys pre) rem lts keys i (onlyOf i post)
      (onlyOf_acts i post hpost) hd0 hmiss)

/-- **C20.partial_shared_store_wf_partial** (result level).  Distinct dedup keys over the shared store:
    under ANY schedule of the whole system that issues request `i` once and is complete for it, request
    `i` delivers the same nodes, reports the same missing blocks and terminates the same way as under
    ANY complete schedule of `i` ALONE over its issue-time store — provided the depth-0 links of its tree
    are held by the responder and the alone run is complete in the sense of C02 (`hmiss`). -/
theorem partial_shared_store_wf_partial (st : List (Cid × Blk)) (rem : List Cid) (lts : List LT) (keys : List (Option Key))
    (i : Nat) (k : Key) (pre post τ : List Act)
    (hst : ∀ c, (storeGet st c).isSome = true → c ∈ rem)
    (hk : keys.getD i none = some k) (hothers : ∀ j, j ≠ i → keys.getD j none ≠ some k)
    (hpre : ∀ a ∈ pre, Act.idx a ≠ i) (hpost : ∀ a ∈ post, a ≠ .start i)
    (hτ : ∀ a ∈ τ, a = .resp i ∨ a = .deliver i)
    (hd0 : ∀ lt, lts[i]? = some lt → ∀ m ∈ lt, m.depth = 0 → m.cid ∈ rem)
    (hmiss : ∀ c p, (c, p) ∈ missingOf ((Concurrent.run (initSys (issueStore st rem lts keys pre) rem lts keys)
        (.start i :: onlyOf i post)).evs.getD i []) → c ∉ rem)
    (c1 : Complete i (Concurrent.run (initSys st rem lts keys) (pre ++ .start i :: post)))
    (c2 : Complete i (Concurrent.run (initSys (issueStore st rem lts keys pre) rem lts keys) (.start i :: τ))) :
    resultOf (Concurrent.run (initSys st rem lts keys) (pre ++ .start i :: post)) i
      = resultOf (Concurrent.run (initSys (issueStore st rem lts keys pre) rem lts keys) (.start i :: τ)) i ∧
    finished (Concurrent.run (initSys st rem lts keys) (pre ++ .start i :: post)) i
      = finished (Concurrent.run (initSys (issueStore st rem lts keys pre) rem lts keys) (.start i :: τ)) i :=
  partial_shared_store_issue_time st rem lts keys i k pre post τ hst hk hothers hpre hpost hτ
    (alone_run_clean_partial (issueStore st rem lts keys pre) rem lts keys i (onlyOf i post)
      (onlyOf_acts i post hpost) hd0 hmiss) c1 c2

/-! ## non-vacuity (test of concrete values)

The system of the example at the end of `C20Shared.lean` (two requests for the DAG 7 -> 3, distinct keys,
one shared store; request 1 is issued when block 7 is already stored): `hd0` holds, the alone run over
the issue-time store `[(7, 7)]` reports nothing missing, and it is complete. -/
example :
    (∀ m ∈ exLT, m.depth = 0 → m.cid ∈ [7, 3]) ∧
    missingOf ((Concurrent.run (initSys (issueStore [] [7, 3] [exLT, exLT] [some 1, some 2] shPre) [7, 3] [exLT, exLT] [some 1, some 2])
      (.start 1 :: onlyOf 1 shPost)).evs.getD 1 []) = [] ∧
    (Concurrent.run (initSys (issueStore [] [7, 3] [exLT, exLT] [some 1, some 2] shPre) [7, 3] [exLT, exLT] [some 1, some 2])
      (.start 1 :: onlyOf 1 shPost)).chan.getD 1 [] = [] := by
  refine ⟨by decide, by decide, by decide⟩

end GS.C20
