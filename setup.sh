#!/bin/sh
# Build the framework offline from files on disk: Lean models + proofs, model driver, Go harness.
set -e
cd "$(dirname "$0")"
export GOFLAGS=-mod=mod GOPROXY=off
mkdir -p work evidence replays
(cd lean && lake build GS GSProofs && for e in $(sed -n "s/^name = \"\(gsm-[a-z0-9-]*\)\"/\1/p" lakefile.toml); do lake build $e; done)
cp /repo/go.sum harness/go.sum
(cd harness && for d in cmd/gs-*; do go build -tags verif -o bin/$(basename $d) ./$d; done)
if [ -d translate ] && [ -f translate/go.mod ]; then (cd translate && go build ./...); fi
echo setup-ok
