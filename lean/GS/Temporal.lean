/-
Temporal layer shared by the "eventually" properties (DESIGN §3): executions, weak fairness of
named actions, leads-to, and the variant rule.  Core Lean only.

A system is a partial step function `step : State → Action → Option State`.
An execution is an infinite sequence of states in which every position either stutters or takes a
step of some action.  `fair : Action → Prop` names the internal ("fair") actions; every other
action belongs to the environment and is never forced.

Two fairness notions and one rule for each:

* `WFAll S fair σ`   weak fairness of the *set* of fair actions: if from some point on some fair
                     action is enabled at every position, a fair step is eventually taken.
  `leadsTo_of_variant`:   P ∧ ¬Q ⇒ some fair action enabled;  every step from P ∧ ¬Q keeps P (or
                     reaches Q) and does not increase the variant;  every fair step from P ∧ ¬Q
                     strictly decreases it or establishes Q   ⟹   P ↝ Q.

* `WF1 S fair σ`     weak fairness of *each* fair action separately (the usual per-process notion).
  `leadsTo_of_variant_wf1`: as above, and additionally every state-changing step from P ∧ ¬Q
                     strictly decreases the variant or establishes Q   ⟹   P ↝ Q.
-/
namespace GS.Temporal

structure Sys (State Action : Type) where
  step : State → Action → Option State

variable {State Action : Type}

def Sys.enabled (S : Sys State Action) (a : Action) (s : State) : Prop := (S.step s a).isSome = true

/-- `σ` is an execution of `S`: each position stutters or performs one action. -/
def Exec (S : Sys State Action) (σ : Nat → State) : Prop :=
  ∀ i, σ (i + 1) = σ i ∨ ∃ a, S.step (σ i) a = some (σ (i + 1))

/-- weak fairness of the set of fair actions. -/
def WFAll (S : Sys State Action) (fair : Action → Prop) (σ : Nat → State) : Prop :=
  ∀ i, (∀ j, i ≤ j → ∃ a, fair a ∧ S.enabled a (σ j)) →
    ∃ j, i ≤ j ∧ ∃ a, fair a ∧ S.step (σ j) a = some (σ (j + 1))

/-- weak fairness of every single fair action. -/
def WF1 (S : Sys State Action) (fair : Action → Prop) (σ : Nat → State) : Prop :=
  ∀ a, fair a → ∀ i, (∀ j, i ≤ j → S.enabled a (σ j)) →
    ∃ j, i ≤ j ∧ S.step (σ j) a = some (σ (j + 1))

/-- `P` leads to `Q` along `σ`. -/
def LeadsTo (σ : Nat → State) (P Q : State → Prop) : Prop :=
  ∀ i, P (σ i) → ∃ j, i ≤ j ∧ Q (σ j)

/-- hypotheses of the variant rule (shared by both fairness notions). -/
structure VariantRule (S : Sys State Action) (fair : Action → Prop) (P Q : State → Prop)
    (V : State → Nat) : Prop where
  /-- while `P ∧ ¬Q`, some fair action is enabled -/
  progress : ∀ s, P s → ¬ Q s → ∃ a, fair a ∧ S.enabled a s
  /-- every step from `P ∧ ¬Q` keeps `P` or reaches `Q`, and does not increase the variant -/
  keep : ∀ s a s', P s → ¬ Q s → S.step s a = some s' → (P s' ∨ Q s') ∧ V s' ≤ V s
  /-- every fair step from `P ∧ ¬Q` strictly decreases the variant or establishes `Q` -/
  decr : ∀ s a s', P s → ¬ Q s → fair a → S.step s a = some s' → Q s' ∨ V s' < V s

section
variable {S : Sys State Action} {fair : Action → Prop} {P Q : State → Prop} {V : State → Nat}
variable {σ : Nat → State}

/-- if `Q` is never reached from `i` on, `P ∧ ¬Q` holds forever and the variant never increases. -/
private theorem stays (R : VariantRule S fair P Q V) (hex : Exec S σ) (i : Nat) (hP : P (σ i))
    (hnQ : ∀ j, i ≤ j → ¬ Q (σ j)) : ∀ d, P (σ (i + d)) ∧ V (σ (i + d)) ≤ V (σ i) := by
  intro d
  induction d with
  | zero => exact ⟨hP, Nat.le_refl _⟩
  | succ d ih =>
    have hnq := hnQ (i + d) (Nat.le_add_right _ _)
    have hnq' := hnQ (i + (d + 1)) (Nat.le_add_right _ _)
    rcases hex (i + d) with h | ⟨a, h⟩
    · have : σ (i + (d + 1)) = σ (i + d) := h
      rw [this]; exact ih
    · have := R.keep _ a _ ih.1 hnq h
      have e : i + (d + 1) = i + d + 1 := rfl
      rw [e]
      refine ⟨?_, Nat.le_trans this.2 ih.2⟩
      rcases this.1 with hp | hq
      · exact hp
      · exact absurd hq (by rw [← e]; exact hnq')

/-- core of both rules, by strong induction on the variant: given a way to force a strictly
    decreasing step (or `Q`) from any later position, `Q` is reached. -/
private theorem reach (R : VariantRule S fair P Q V) (hex : Exec S σ)
    (force : ∀ i, P (σ i) → (∀ j, i ≤ j → ¬ Q (σ j)) →
      ∃ j, i ≤ j ∧ V (σ (j + 1)) < V (σ j)) :
    ∀ n i, V (σ i) = n → P (σ i) → ∃ j, i ≤ j ∧ Q (σ j) := by
  intro n
  induction n using Nat.strongRecOn with
  | _ n ih =>
    intro i hv hP
    apply Classical.byContradiction
    intro hno
    have hnQ : ∀ j, i ≤ j → ¬ Q (σ j) := fun j hj hq => hno ⟨j, hj, hq⟩
    obtain ⟨j, hij, hlt⟩ := force i hP hnQ
    obtain ⟨d, rfl⟩ := Nat.exists_eq_add_of_le hij
    have h1 := stays R hex i hP hnQ d
    have h2 := stays R hex i hP hnQ (d + 1)
    have hlt' : V (σ (i + (d + 1))) < n := by
      have : V (σ (i + d + 1)) < V (σ (i + d)) := hlt
      have e : i + (d + 1) = i + d + 1 := rfl
      rw [e]; rw [← hv]; exact Nat.lt_of_lt_of_le this h1.2
    obtain ⟨k, hk, hq⟩ := ih _ hlt' (i + (d + 1)) rfl h2.1
    exact hno ⟨k, Nat.le_trans (Nat.le_add_right _ _) hk, hq⟩

/-- **Variant rule, weak fairness of the set of fair actions.** -/
theorem leadsTo_of_variant (R : VariantRule S fair P Q V) (hex : Exec S σ)
    (hwf : WFAll S fair σ) : LeadsTo σ P Q := by
  intro i hP
  refine reach R hex ?_ (V (σ i)) i rfl hP
  intro i hP hnQ
  have hen : ∀ j, i ≤ j → ∃ a, fair a ∧ S.enabled a (σ j) := by
    intro j hj
    obtain ⟨d, rfl⟩ := Nat.exists_eq_add_of_le hj
    exact R.progress _ (stays R hex i hP hnQ d).1 (hnQ _ hj)
  obtain ⟨j, hij, a, hfa, hstep⟩ := hwf i hen
  obtain ⟨d, rfl⟩ := Nat.exists_eq_add_of_le hij
  refine ⟨i + d, hij, ?_⟩
  rcases R.decr _ a _ (stays R hex i hP hnQ d).1 (hnQ _ hij) hfa hstep with hq | hlt
  · exact absurd hq (hnQ (i + d + 1) (Nat.le_trans hij (Nat.le_succ _)))
  · exact hlt

/-- **Variant rule, weak fairness of each fair action**; needs in addition that every
    state-changing step (environment steps included) from `P ∧ ¬Q` strictly decreases the variant
    or establishes `Q`. -/
theorem leadsTo_of_variant_wf1 (R : VariantRule S fair P Q V) (hex : Exec S σ)
    (hwf : WF1 S fair σ)
    (strict : ∀ s a s', P s → ¬ Q s → S.step s a = some s' → s' ≠ s → Q s' ∨ V s' < V s) :
    LeadsTo σ P Q := by
  intro i hP
  refine reach R hex ?_ (V (σ i)) i rfl hP
  intro i hP hnQ
  apply Classical.byContradiction
  intro hno
  have hno' : ∀ j, i ≤ j → ¬ V (σ (j + 1)) < V (σ j) := fun j hj h => hno ⟨j, hj, h⟩
  have hst := stays R hex i hP hnQ
  -- the state is constant from `i` on
  have hconst : ∀ d, σ (i + d) = σ i := by
    intro d
    induction d with
    | zero => rfl
    | succ d ih =>
      have e : i + (d + 1) = i + d + 1 := rfl
      rcases hex (i + d) with h | ⟨a, h⟩
      · rw [e, h, ih]
      · apply Classical.byContradiction
        intro hne
        have hne' : σ (i + d + 1) ≠ σ (i + d) := by
          intro heq; apply hne; rw [e, heq, ih]
        rcases strict _ a _ (hst d).1 (hnQ _ (Nat.le_add_right _ _)) h hne' with hq | hlt
        · exact hnQ (i + d + 1) (Nat.le_trans (Nat.le_add_right _ _) (Nat.le_succ _)) hq
        · exact hno' (i + d) (Nat.le_add_right _ _) hlt
  obtain ⟨a, hfa, hena⟩ := R.progress _ hP (hnQ i (Nat.le_refl _))
  have hen : ∀ j, i ≤ j → S.enabled a (σ j) := by
    intro j hj
    obtain ⟨d, rfl⟩ := Nat.exists_eq_add_of_le hj
    rw [hconst d]; exact hena
  obtain ⟨j, hij, hstep⟩ := hwf a hfa i hen
  obtain ⟨d, rfl⟩ := Nat.exists_eq_add_of_le hij
  rcases R.decr _ a _ (hst d).1 (hnQ _ hij) hfa hstep with hq | hlt
  · exact hnQ (i + d + 1) (Nat.le_trans hij (Nat.le_succ _)) hq
  · exact hno' (i + d) hij hlt

end

/-! ### Helpful-action rule (added for C21)

Weak fairness of each fair action, where fair actions may be no-ops in some states (a periodic tick
that finds nothing to do).  Instead of asking every fair step to make progress, the rule names one
*helpful* fair action per state: it is enabled, taking it makes progress, and any other step either
makes progress itself or leaves the variant and the helpful action unchanged. -/

structure HelpfulRule (S : Sys State Action) (fair : Action → Prop) (P Q : State → Prop)
    (V : State → Nat) (helpful : State → Action) : Prop where
  /-- every step from `P ∧ ¬Q` keeps `P` or reaches `Q`; it lowers the variant, or leaves the
      variant and the helpful action as they are -/
  keep : ∀ s a s', P s → ¬ Q s → S.step s a = some s' →
    (P s' ∨ Q s') ∧ (V s' < V s ∨ (V s' = V s ∧ helpful s' = helpful s))
  /-- the helpful action is fair and enabled -/
  enabled : ∀ s, P s → ¬ Q s → fair (helpful s) ∧ S.enabled (helpful s) s
  /-- taking the helpful action establishes `Q` or lowers the variant -/
  helps : ∀ s s', P s → ¬ Q s → S.step s (helpful s) = some s' → Q s' ∨ V s' < V s

section
variable {S : Sys State Action} {fair : Action → Prop} {P Q : State → Prop} {V : State → Nat}
variable {helpful : State → Action} {σ : Nat → State}

private theorem hstays (R : HelpfulRule S fair P Q V helpful) (hex : Exec S σ) (i : Nat)
    (hP : P (σ i)) (hnQ : ∀ j, i ≤ j → ¬ Q (σ j)) :
    ∀ d, P (σ (i + d)) ∧ (V (σ (i + d)) < V (σ i) ∨
      (V (σ (i + d)) = V (σ i) ∧ helpful (σ (i + d)) = helpful (σ i))) := by
  intro d
  induction d with
  | zero => exact ⟨hP, Or.inr ⟨rfl, rfl⟩⟩
  | succ d ih =>
    have hnq := hnQ (i + d) (Nat.le_add_right _ _)
    have hnq' := hnQ (i + (d + 1)) (Nat.le_add_right _ _)
    have e : i + (d + 1) = i + d + 1 := rfl
    rcases hex (i + d) with h | ⟨a, h⟩
    · rw [e, h]; exact ih
    · have k := R.keep _ a _ ih.1 hnq h
      rw [e]
      refine ⟨?_, ?_⟩
      · rcases k.1 with hp | hq
        · exact hp
        · exact absurd hq (by rw [← e]; exact hnq')
      · rcases k.2 with hlt | ⟨heq, hh⟩
        · rcases ih.2 with h2 | ⟨h2, _⟩
          · exact Or.inl (Nat.lt_trans hlt h2)
          · exact Or.inl (by rw [← h2]; exact hlt)
        · rcases ih.2 with h2 | ⟨h2, h3⟩
          · exact Or.inl (by rw [heq]; exact h2)
          · exact Or.inr ⟨by rw [heq, h2], by rw [hh, h3]⟩

/-- **Helpful-action rule**: under weak fairness of every fair action, `P ↝ Q`. -/
theorem leadsTo_of_helpful (R : HelpfulRule S fair P Q V helpful) (hex : Exec S σ)
    (hwf : WF1 S fair σ) : LeadsTo σ P Q := by
  have main : ∀ n i, V (σ i) = n → P (σ i) → ∃ j, i ≤ j ∧ Q (σ j) := by
    intro n
    induction n using Nat.strongRecOn with
    | _ n ih =>
      intro i hv hP
      apply Classical.byContradiction
      intro hno
      have hnQ : ∀ j, i ≤ j → ¬ Q (σ j) := fun j hj hq => hno ⟨j, hj, hq⟩
      have hst := hstays R hex i hP hnQ
      -- if the variant ever drops, the induction hypothesis applies
      have hnodrop : ∀ d, ¬ V (σ (i + d)) < V (σ i) := by
        intro d hlt
        obtain ⟨k, hk, hq⟩ := ih _ (by rw [← hv]; exact hlt) (i + d) rfl (hst d).1
        exact hno ⟨k, Nat.le_trans (Nat.le_add_right _ _) hk, hq⟩
      have hsame : ∀ d, V (σ (i + d)) = V (σ i) ∧ helpful (σ (i + d)) = helpful (σ i) := by
        intro d
        rcases (hst d).2 with h | h
        · exact absurd h (hnodrop d)
        · exact h
      -- so the helpful action of position `i` stays enabled forever
      have hen : ∀ j, i ≤ j → S.enabled (helpful (σ i)) (σ j) := by
        intro j hj
        obtain ⟨d, rfl⟩ := Nat.exists_eq_add_of_le hj
        have := (R.enabled _ (hst d).1 (hnQ _ hj)).2
        rw [(hsame d).2] at this; exact this
      obtain ⟨j, hij, hstep⟩ := hwf _ (R.enabled _ hP (hnQ i (Nat.le_refl _))).1 i hen
      obtain ⟨d, rfl⟩ := Nat.exists_eq_add_of_le hij
      rw [← (hsame d).2] at hstep
      rcases R.helps _ _ (hst d).1 (hnQ _ hij) hstep with hq | hlt
      · exact hnQ (i + d + 1) (Nat.le_trans hij (Nat.le_succ _)) hq
      · have e : i + d + 1 = i + (d + 1) := rfl
        rw [e, (hsame d).1] at hlt
        exact hnodrop (d + 1) hlt
  intro i hP
  exact main _ i rfl hP

end

/-! ### Helpful-action rule relative to a transition constraint (added for C21)

Same as `leadsTo_of_helpful`, but the obligations are only asked of transitions satisfying `T`, and
the execution is only required to make `T`-transitions from position `N` on.  `T` carries
hypotheses about the environment that are not state predicates ("from now on no request of another
peer overtakes the waiting one"). -/

structure HelpfulRuleOn (S : Sys State Action) (fair : Action → Prop) (T : State → State → Prop)
    (P Q : State → Prop) (V : State → Nat) (helpful : State → Action) : Prop where
  keep : ∀ s a s', P s → ¬ Q s → S.step s a = some s' → T s s' →
    Q s' ∨ (P s' ∧ (V s' < V s ∨ (V s' = V s ∧ helpful s' = helpful s)))
  enabled : ∀ s, P s → ¬ Q s → fair (helpful s) ∧ S.enabled (helpful s) s
  helps : ∀ s s', P s → ¬ Q s → S.step s (helpful s) = some s' → T s s' → Q s' ∨ V s' < V s

section
variable {S : Sys State Action} {fair : Action → Prop} {T : State → State → Prop}
variable {P Q : State → Prop} {V : State → Nat} {helpful : State → Action} {σ : Nat → State}

private theorem hstaysOn (R : HelpfulRuleOn S fair T P Q V helpful) (hex : Exec S σ) (N : Nat)
    (hT : ∀ i, N ≤ i → T (σ i) (σ (i + 1))) (i : Nat) (hi : N ≤ i)
    (hP : P (σ i)) (hnQ : ∀ j, i ≤ j → ¬ Q (σ j)) :
    ∀ d, P (σ (i + d)) ∧ (V (σ (i + d)) < V (σ i) ∨
      (V (σ (i + d)) = V (σ i) ∧ helpful (σ (i + d)) = helpful (σ i))) := by
  intro d
  induction d with
  | zero => exact ⟨hP, Or.inr ⟨rfl, rfl⟩⟩
  | succ d ih =>
    have hnq := hnQ (i + d) (Nat.le_add_right _ _)
    have hnq' := hnQ (i + (d + 1)) (Nat.le_add_right _ _)
    have e : i + (d + 1) = i + d + 1 := rfl
    rcases hex (i + d) with h | ⟨a, h⟩
    · rw [e, h]; exact ih
    · have k0 := R.keep _ a _ ih.1 hnq h (hT (i + d) (Nat.le_trans hi (Nat.le_add_right _ _)))
      rw [e]
      have k : P (σ (i + d + 1)) ∧ (V (σ (i + d + 1)) < V (σ (i + d)) ∨
          (V (σ (i + d + 1)) = V (σ (i + d)) ∧ helpful (σ (i + d + 1)) = helpful (σ (i + d)))) := by
        rcases k0 with hq | hk
        · exact absurd hq (by rw [← e]; exact hnq')
        · exact hk
      refine ⟨k.1, ?_⟩
      · rcases k.2 with hlt | ⟨heq, hh⟩
        · rcases ih.2 with h2 | ⟨h2, _⟩
          · exact Or.inl (Nat.lt_trans hlt h2)
          · exact Or.inl (by rw [← h2]; exact hlt)
        · rcases ih.2 with h2 | ⟨h2, h3⟩
          · exact Or.inl (by rw [heq]; exact h2)
          · exact Or.inr ⟨by rw [heq, h2], by rw [hh, h3]⟩

/-- **Helpful-action rule under a transition constraint holding from position `N` on.** -/
theorem leadsTo_of_helpful_from (R : HelpfulRuleOn S fair T P Q V helpful) (hex : Exec S σ)
    (hwf : WF1 S fair σ) (N : Nat) (hT : ∀ i, N ≤ i → T (σ i) (σ (i + 1))) :
    ∀ i, N ≤ i → P (σ i) → ∃ j, i ≤ j ∧ Q (σ j) := by
  have main : ∀ n i, N ≤ i → V (σ i) = n → P (σ i) → ∃ j, i ≤ j ∧ Q (σ j) := by
    intro n
    induction n using Nat.strongRecOn with
    | _ n ih =>
      intro i hi hv hP
      apply Classical.byContradiction
      intro hno
      have hnQ : ∀ j, i ≤ j → ¬ Q (σ j) := fun j hj hq => hno ⟨j, hj, hq⟩
      have hst := hstaysOn R hex N hT i hi hP hnQ
      have hnodrop : ∀ d, ¬ V (σ (i + d)) < V (σ i) := by
        intro d hlt
        obtain ⟨k, hk, hq⟩ := ih _ (by rw [← hv]; exact hlt) (i + d)
          (Nat.le_trans hi (Nat.le_add_right _ _)) rfl (hst d).1
        exact hno ⟨k, Nat.le_trans (Nat.le_add_right _ _) hk, hq⟩
      have hsame : ∀ d, V (σ (i + d)) = V (σ i) ∧ helpful (σ (i + d)) = helpful (σ i) := by
        intro d
        rcases (hst d).2 with h | h
        · exact absurd h (hnodrop d)
        · exact h
      have hen : ∀ j, i ≤ j → S.enabled (helpful (σ i)) (σ j) := by
        intro j hj
        obtain ⟨d, rfl⟩ := Nat.exists_eq_add_of_le hj
        have := (R.enabled _ (hst d).1 (hnQ _ hj)).2
        rw [(hsame d).2] at this; exact this
      obtain ⟨j, hij, hstep⟩ := hwf _ (R.enabled _ hP (hnQ i (Nat.le_refl _))).1 i hen
      obtain ⟨d, rfl⟩ := Nat.exists_eq_add_of_le hij
      rw [← (hsame d).2] at hstep
      rcases R.helps _ _ (hst d).1 (hnQ _ hij) hstep
          (hT (i + d) (Nat.le_trans hi (Nat.le_add_right _ _))) with hq | hlt
      · exact hnQ (i + d + 1) (Nat.le_trans hij (Nat.le_succ _)) hq
      · have e : i + d + 1 = i + (d + 1) := rfl
        rw [e, (hsame d).1] at hlt
        exact hnodrop (d + 1) hlt
  intro i hi hP
  exact main _ i hi rfl hP

end

end GS.Temporal
