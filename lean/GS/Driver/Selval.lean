import GS.Driver.SelvalCore
/-! model driver executable for component `selval` (C08) -/
def main : IO Unit := GS.Proto.runModel GS.Driver.Selval.handler
